#!/bin/bash
# tools/revert_test.sh <fix-commit> <property> [tier]
# Re-introduces the defect repaired by <fix-commit> (reverse patch, working tree only), runs the
# property's check, restores /repo.  Expected: the check exits 1 with a failing-input replay.
set -u
C=$1; P=$2; T=${3:-quick}
cd /repo || exit 2
git diff --quiet || { echo "/repo has uncommitted changes"; exit 2; }
git show "$C" | git apply -R || { echo "reverse patch does not apply"; exit 2; }
cd /verif; VERIF_EVIDENCE_DIR=/tmp/verif-selftest-evidence ./check "$P" --tier "$T"; rc=$?
git -C /repo checkout -- .
echo "revert_test $C $P -> exit $rc"
exit 0

#!/bin/bash
# tools/revert_test.sh <fix-commit> <property> [tier]
# Re-introduces the defect repaired by <fix-commit> in a scratch worktree (never in /repo), runs the
# property's check against it, removes the worktree.  Expected: exit 1 with a failing-input replay.
set -u
C=$1; P=$2; T=${3:-quick}; N="rev-$C-$P"
D=$(/verif/tools/scratch_repo.sh new "$N") || exit 2
( cd "$D" && { git show "$C" | git apply -R 2>/dev/null || git show "$C" | git apply -R --3way; } ) || { echo "reverse patch does not apply"; /verif/tools/scratch_repo.sh rm "$N"; exit 2; }
cd /verif; VERIF_REPO="$D" VERIF_EVIDENCE_DIR="/tmp/vp-$N-ev" ./check "$P" --tier "$T"; rc=$?
/verif/tools/scratch_repo.sh rm "$N"
echo "revert_test $C $P -> exit $rc"

#!/bin/bash
# tools/integrate.sh Cxx  — acceptance run before a property is registered in MANIFEST:
# quick for seeds 0..3, thorough for seed 0; prints one line per run; exit 0 iff all exit 0.
P=$1; ok=0
for s in 0 1 2 3; do
  /usr/bin/time -f "%es" -o /tmp/integ.time env VERIF_SEED=$s ./check $P --tier quick > /tmp/integ.$P.$s.log 2>&1; rc=$?
  echo "quick seed=$s rc=$rc $(cat /tmp/integ.time) $(grep -c VIOLATION /tmp/integ.$P.$s.log) violations; $(tail -1 /tmp/integ.$P.$s.log | cut -c1-220)"
  [ $rc -ne 0 ] && ok=1
done
/usr/bin/time -f "%es" -o /tmp/integ.time env VERIF_SEED=0 ./check $P --tier thorough > /tmp/integ.$P.t.log 2>&1; rc=$?
echo "thorough seed=0 rc=$rc $(cat /tmp/integ.time) $(tail -1 /tmp/integ.$P.t.log | cut -c1-220)"
[ $rc -ne 0 ] && ok=1
# leave the committed evidence from a quick run on seed 0
VERIF_SEED=0 ./check $P --tier quick > /dev/null 2>&1
grep -n "sorry\|admit" lean/SpaModel/*/$P.lean | grep -v "^.*--" | head -3
exit $ok

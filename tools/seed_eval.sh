#!/bin/bash
# tools/seed_eval.sh <Cxx> <A|B> [check-ids...]
# Confirms a seeded change delivered by a fresh sub-agent (/tmp/seedout-Cxx/patch_X.diff + demo_X.py):
# applies to a scratch worktree, baseline suite must still pass, demo must PASS on HEAD and FAIL with the patch,
# then runs the named checks (default: the property's own) against the patched tree (quick, then thorough if quick is silent).
# Stores patch/demo/meta.json under /verif/seeded/<Cxx>-<X>/ .
P=$1; X=$2; shift 2; CHECKS=${@:-$P}
SRC=/tmp/seedout-$P; N=seed-$P-$X; OUT=/verif/seeded/$P-$X
[ -f $SRC/patch_$X.diff ] || { echo "no patch"; exit 2; }
D=$(/verif/tools/scratch_repo.sh new $N) || exit 2
mkdir -p $OUT; cp $SRC/patch_$X.diff $OUT/patch.diff; cp $SRC/demo_$X.py $OUT/demo.py
demo_clean=$(cd /tmp && PYTHONPATH=$D /venv/bin/python $OUT/demo.py > /tmp/$N.demo0 2>&1; echo $?)
( cd $D && git apply $OUT/patch.diff ) || { echo "patch does not apply"; /verif/tools/scratch_repo.sh rm $N; exit 2; }
base=$(/verif/tools/baseline.py $D | head -1)
demo_patched=$(cd /tmp && PYTHONPATH=$D /venv/bin/python $OUT/demo.py > /tmp/$N.demo1 2>&1; echo $?)
res=""
for C in $CHECKS; do
  VERIF_REPO=$D VERIF_EVIDENCE_DIR=/tmp/vp-$N-ev ./check $C --tier quick > /tmp/$N.$C.q 2>&1; rq=$?
  line=$(grep -m1 VIOLATION /tmp/$N.$C.q)
  tier=quick
  if [ $rq -eq 0 ]; then
    VERIF_REPO=$D VERIF_EVIDENCE_DIR=/tmp/vp-$N-ev ./check $C --tier thorough > /tmp/$N.$C.t 2>&1; rq=$?
    line=$(grep -m1 VIOLATION /tmp/$N.$C.t); tier=thorough
  fi
  rp=$(echo "$line" | sed -n 's/.*replay=\([^ ]*\).*/\1/p')
  kind=""; [ -n "$rp" ] && [ -f /verif/$rp ] && kind=$(/venv/bin/python -c "import json;d=json.load(open('/verif/$rp'));print(d.get('kind'),'|',d.get('where',''),'|',json.dumps(d.get('case',d.get('first_difference','')))[:300])")
  res="$res$C:$tier:rc=$rq:$line:$kind;;"
done
/verif/tools/scratch_repo.sh rm $N
/venv/bin/python - "$P" "$X" "$base" "$demo_clean" "$demo_patched" "$res" <<'PY'
import json,sys,os
P,X,base,dc,dp,res=sys.argv[1:7]
nf=f'/tmp/seedout-{P}/notes_KL.md' if X in ('K','L') else f'/tmp/seedout-{P}/notes_IJ.md' if X in ('I','J') else f'/tmp/seedout-{P}/notes_GH.md' if X in ('G','H') else f'/tmp/seedout-{P}/notes_EF.md' if X in ('E','F') else (f'/tmp/seedout-{P}/notes_CD.md' if X in ('C','D') else f'/tmp/seedout-{P}/notes.md')
notes=open(nf).read() if os.path.exists(nf) else ''
meta={"property":P,"variant":X,"source":"fresh sub-agent given only the property text and a scratch worktree",
 "baseline_with_patch":base,"demo_exit_on_HEAD":int(dc),"demo_exit_with_patch":int(dp),
 "confirmed": (dc=="0" and dp!="0" and "missing=0" in base),
 "checks_run":[r for r in res.split(';;') if r],
 "agent_notes":notes[:6000]}
json.dump(meta,open(f'/verif/seeded/{P}-{X}/meta.json','w'),indent=1)
print(json.dumps({k:meta[k] for k in ("property","variant","baseline_with_patch","demo_exit_on_HEAD","demo_exit_with_patch","confirmed","checks_run")},indent=1))
PY

#!/bin/bash
# tools/seed_regress.sh [ids...]   — regression of the CHECKS against the stored seeded changes:
# for each seeded/<id>/ (default: all) apply patch.diff to a scratch worktree of /repo HEAD and run the
# property's quick check (thorough if quick is silent) against it.  Prints one line per change;
# exit 0 iff every change is reported (rc=1 with a VIOLATION line).  Scratch trees are removed.
cd "$(dirname "$0")/.."
IDS=${@:-$(ls seeded | grep -v '\.')}
one() {
  id=$1; P=${id%%-*}; N=regress-$id
  D=$(tools/scratch_repo.sh new $N 2>/dev/null) || { echo "$id worktree-failed"; return; }
  if ! (cd $D && git apply /verif/seeded/$id/patch.diff 2>/dev/null); then echo "$id patch-does-not-apply"; tools/scratch_repo.sh rm $N; return; fi
  if [[ $id == HARMLESS-* ]]; then   # property-preserving rewrite: every check must stay silent
    bad=""
    for C in $(seq -f "C%02g" 1 20); do
      VERIF_REPO=$D VERIF_EVIDENCE_DIR=/tmp/vp-$N-ev ./check $C --tier quick > /tmp/$N.$C.log 2>&1 || bad="$bad $C"
    done
    [ -z "$bad" ] && echo "$id silent (all 20 quick checks rc=0)" || echo "$id FALSE-ALARM:$bad"
    tools/scratch_repo.sh rm $N; return
  fi
  for tier in quick thorough; do
    VERIF_REPO=$D VERIF_EVIDENCE_DIR=/tmp/vp-$N-ev ./check $P --tier $tier > /tmp/$N.$tier.log 2>&1; rc=$?
    if [ $rc -eq 1 ]; then echo "$id $tier $(grep -m1 VIOLATION /tmp/$N.$tier.log | cut -c1-120)"; break; fi
    [ $tier = thorough ] && echo "$id MISSED rc=$rc"
  done
  tools/scratch_repo.sh rm $N
}
export -f one
printf '%s\n' $IDS | xargs -P ${SEED_JOBS:-3} -I{} bash -c 'one {}' | sort | tee /tmp/seed_regress.out
! grep -q "MISSED\|does-not-apply\|failed\|FALSE-ALARM" /tmp/seed_regress.out

#!/venv/bin/python
"""Run the pinned baseline suite (BASELINE.json cmd) on a repo tree and compare with stable_pass.
usage: baseline.py [repo_dir]   exit 0 iff every stable_pass test passes."""
import json, subprocess, sys, tempfile, os
import xml.etree.ElementTree as ET
repo = sys.argv[1] if len(sys.argv) > 1 else "/repo"
base = json.load(open("/root/.vp/BASELINE.json"))
with tempfile.TemporaryDirectory() as td:
    xml = os.path.join(td, "r.xml")
    env = dict(os.environ); env.pop("NENGO_SPA_VERIF", None)
    subprocess.run(["/venv/bin/python", "-m", "pytest", "-ra", "-q", "-p", "no:cacheprovider", "--timeout=900",
                    "--continue-on-collection-errors", f"--junitxml={xml}"], cwd=repo, capture_output=True, env=env)
    passed = set()
    for tc in ET.parse(xml).getroot().iter("testcase"):
        if not any(c.tag in ("failure", "error", "skipped") for c in tc):
            passed.add(f"{tc.get('classname')}::{tc.get('name')}")
want = set(base["stable_pass"])
missing = sorted(want - passed)
print(f"stable_pass={len(want)} passed_now={len(passed)} missing={len(missing)} extra_passing={len(passed - want)}")
for m in missing[:20]:
    print("  MISSING", m)
sys.exit(1 if missing else 0)

#!/bin/bash
# tools/runall.sh [tier] [seed] [parallel]  — every property's check on /repo as it is; one summary line each; exit 0 iff all exit 0
T=${1:-quick}; S=${2:-0}; P=${3:-4}
cd "$(dirname "$0")/.."; mkdir -p /tmp/runall
seq -f "C%02g" 1 20 | xargs -P $P -I{} bash -c "VERIF_SEED=$S ./check {} --tier $T > /tmp/runall/{}.$T.$S.log 2>&1; echo \"{} rc=\$? \$(tail -1 /tmp/runall/{}.$T.$S.log | cut -c1-200)\"" | sort | tee /tmp/runall/summary.$T.$S
! grep -qv "rc=0" /tmp/runall/summary.$T.$S

#!/usr/bin/env python3
"""Writes MANIFEST.json from the table below and validates it (and every evidence file) against the schemas."""
import json, os, sys, glob
HERE = os.path.dirname(os.path.dirname(os.path.abspath(__file__)))
ALL = [f"C{i:02d}" for i in range(1, 21)]

TRUST = ("Lean 4.33 kernel + Mathlib v4.33; axioms ⊆ {propext, Classical.choice, Quot.sound} (audited per theorem on every run); "
         "the hand-written Impl.* model is tied to /repo only by the correspondence run (differential, in-process against the working tree); ")

CHECKS = {
 "C11": dict(
   text="Lean 4 theorems over the model of types.py (the four __gt__ methods, derived comparisons, coerce_types as left-to-right max scan + verification + reason selection): the order is exactly the documented chains, reflexive/antisymmetric/transitive, coerce returns the greatest member iff one exists, independent of order and repetition, reasons are truthful, equal types have equal hash keys — for all dimension assignments, names and tuple lengths. The model is tied to the code by an exhaustive correspondence run over the property's universe (all pairs x 7 observables, all tuples up to length 4; thorough: length 5 over a larger universe + random to length 8).",
   note=TRUST + "Python's builtin max() and operator dispatch are modelled from their documentation; vocabulary identity is a number per object.",
   technique="Lean 4 proof (core, case analysis + induction over the argument list) + exhaustive model/implementation correspondence",
   ref="6/C11"),
 "C02": dict(
   text="Lean 4 theorems over the shared algebra model (Alg.Hrr/Vtb/Tvtb.Impl, following bind/get_binding_matrix/get_inversion_matrix/invert/_get_sub_d/is_valid_dimensionality): for every commutative ring, every HRR dimensionality and every VTB/TVTB sub-dimensionality the modelled binding equals the published formula (convolution sum; block matrix, matrix forms s•(X·Yᵀ) and s•(X·Y)), is additive and homogeneous in each operand, HRR binding is commutative and associative, the binding matrix gives the direct operation for both swap_inputs values, the inversion matrix gives invert, unequal lengths are rejected, and exactly the positive squares are valid dimensionalities. Tied to the code by exact (ℚ, ℚ(√m)) execution of the same definitions on all basis pairs (d ≤ 16 quick / ≤ 36 thorough), structured and extreme-magnitude vectors, d up to 64, both swap values, all sidedness values, validity of every d in [-3, 4200] (thorough 2·10⁵).",
   note=TRUST + "HrrAlgebra.bind goes through NumPy rfft/irfft: the model is the convolution sum (modelled, not path-faithful), compared at 1e-9 relative; NumPy dot/kron/sqrt and IEEE rounding trusted.",
   technique="Lean 4 proof (Mathlib: circulant matrices, finite sums, ring) + exact-arithmetic model/implementation correspondence",
   ref="6/C02"),

 "C09": dict(
   text="Lean 4 (core only): for every history of add / populate / parse / getitem / contains / create_pointer / create_subset / transform_to / mutation calls on a world of two vocabularies (plus the transient subset object), strict and non-strict, the three store components (keys, key2idx, vectors) stay aligned, the store only grows at its end by exactly the successful additions in order, stored pairs never change, rejected adds (invalid/reserved/duplicate/foreign/wrong length/non-vector) change nothing, strict look-ups are pure, and non-strict look-ups and expressions gain exactly the missing valid names in first-occurrence order — by induction over the operation list with a preserved invariant and an append-only refinement. The name rules come from the table regenerated from the source on every run. Tied to the code by bounded-exhaustive histories (length ≤ 3 quick / ≤ 4 thorough over 15–19 op instances × strictness × three algebras) and random histories to length 40 with scripted pointer generators, compared after every step.",
   note=TRUST + "Exact gains of populate as a whole, of create_subset on a non-strict vocabulary and of the transform_to target are oracle-checked, not proved; expression fragment is name (+ name)*; set iteration order is an input recorded from the implementation; re-enabling writes with setflags(write=True) on a handed-out array is outside the property; read-only/copy behaviour of arrays is established by the oracle on the real objects.",
   technique="Lean 4 proof (induction over op lists, invariant + append-only refinement) + generated name-rule table + bounded-exhaustive/random history correspondence with shrinking",
   ref="6/C09"),
 "C14": dict(
   text="Lean 4 (core only): for all programs over the block statement language (>>, ifmax, raise, nested or re-entered with, try/except) the implementation's global-switch semantics (ActionSelection.active, ModuleInput.routed_mode, RoutedConnection.free_floating) refines a lexical specification without globals (exec_refines). Consequences for all histories: clean class attributes after every block outcome, independence of later blocks, >> connects immediately iff outside a block, built iff completed without error with at least one action, one lemma per documented error, and the Mapping interface (iteration in declaration order, last name wins, [i]/[name] agreement) for all name sequences and all reachable block objects. Tied to the real ActionSelection inside spa.Network by exact trace comparison on all outcome-kind sequences up to length 3 (quick) / 4 (thorough), random nested programs and all name lists up to length 5.",
   note=TRUST + "Nengo's part of _build is abstracted to succeeds-or-raises (ValidationError iff a pointer is routed into a scalar sink) without touching the class attributes; independence is proved for worlds with identical block objects, the fresh-object variant is covered by the differential alone-rerun oracle; Python's with protocol modelled from its documentation.",
   technique="Lean 4 proof (structural induction over a continuation-style program type, simulation relation between identity-based class attributes and lexical context) + exhaustive/random program correspondence",
   ref="6/C14"),
 "C16": dict(
   text="Lean 4 (core only): for every d, every s | d (incl. s = 1, s = d, d = 1), every neurons-per-dimension and both representation modes, the slices the constructors create are an ordered partition of [0, d) with matching input/output slices (so every output entry receives exactly its own input entry), the neuron-level input and output tables are the same ordered partition of [0, npd·d) (each neuron addressed exactly once, driving entry i is read at entry i only, inhibition reaches every neuron), add_output is defined for every split and its node is the concatenation of the per-part results in dimension order, State is built iff the dimensions are divisible, and on the stated discrete recurrence feedback 1 holds the value and feedback 0 follows the input. The model follows the constructors' slice arithmetic including slice clipping and Nengo's size checks. Tied to the code exhaustively over all (d, s), d ≤ 32 quick / ≤ 64 thorough: slice tables read back from the built connections, Direct-mode evaluation with exact dyadic inputs, structural and seeded rate-neuron perturbation of neuron access, add_output with distinguishable functions, feedback trajectories at 1e-9.",
   note=TRUST + "Nengo's builder/simulator semantics (slice connections copy entries, inputs add up, Direct ensembles compute their function exactly, Lowpass is the stated recurrence) are modelled, not verified; neuron-level inhibition and locality in a rate simulation are validation only; the 3-function list form of add_output is refused by the code when the remainder has ≥ 2 ensembles (outside the statement, mirrored and noted).",
   technique="Lean 4 proof (chains of slices and running offsets, gather/locate semantics, omega/induction) + exhaustive structural and Direct-mode correspondence",
   ref="6/C16"),
 "C20": dict(
   text="Lean 4 (core Rat model; single Mathlib tactic modules in lemmas): all clauses of C20 for vectors of every dimensionality, vocabularies / series / term lists of every size (0 keys included) and every minimum / maximum / threshold (None and negative included): all input forms normalise to the same matrix in vocabulary order, similarity returns exactly the dot products with shape (N,) / (T,N), normalised values are cosines with zero rows or zero vocabulary vectors giving exactly 0 (the divisor is provably positive), text is a prefix of the descending sort (never omits a more similar term), respects minimum/maximum/threshold exactly as stated and its count is fixed uniquely, two-decimal formatting is within 1/200 and monotone, pairs are exactly the n(n−1)/2 unordered pairs. Tied to examine.py by a differential run over all data shapes × vocabulary forms × normalize × zero rows and the full min/max/threshold/terms grid (≈5.5k cases quick, ≈50k thorough) with exact string and set comparison.",
   note=TRUST + "The Euclidean norm is an abstract function assumed only to satisfy 0 ≤ n and n² = v·v; IEEE rounding, parse of compound terms and NumPy are outside the model; normalised cases with irrational norms or inexact float similarities are judged by the Fraction oracle alone; an empty Python list (and terms=[]) raises NumPy's ValueError, mirrored but not demanded; integer-dtype arrays with normalize=True are outside the quantifier.",
   technique="Lean 4 proof (induction over the selection loop via a counting function, mergeSort perm lemmas, half-even rounding bound, combinations ↔ index pairs) + exact-rational differential correspondence",
   ref="6/C20"),
 "C06": dict(
   text="Lean 4 (core only): over a model of expr_tree's printer (with the precedence table regenerated from the source on every run), the PointerSymbol tree builders and the SemanticPointer naming helpers, for all trees and expressions of any depth and any value algebra: the printed text is a derivation of exactly the tree under the stratified Python reference grammar (print_derives; left-nested ** and chained comparisons are provably rejected without parentheses), and evaluating the tree a symbolic expression or an automatic name builds equals applying the same operations directly (symbol_tree_faithful, name_tree_faithful). Table side conditions (levels strictly increasing, ** between unary and await, comparisons share one level) are proved by decide on the generated table, so an edited table breaks a proof obligation. Tied to the code by exhaustive trees to depth 2 (quick) / 3 (thorough) plus random deeper ones against str(tree) and CPython's ast.parse, and all symbol/name expressions of depth ≤ 3 in HRR, VTB and TVTB vocabularies at 1e-9.",
   note=TRUST + "Unambiguity of the grammar is not proved (ast.parse referees every run); Python's evaluator and lexer are trusted; ellipsis-shortened names, non-operator table rows and number leaves under attribute access are outside the universe; the name theorem assumes a defined linv equals rinv (true for HRR and TVTB; VTB refuses linv); gen_tables.py is trusted for the table it emits.",
   technique="Lean 4 proof (decide on the generated table, induction on trees and derivations) + exhaustive printer/ast.parse and symbol/name value correspondence",
   ref="6/C06"),
 "C18": dict(
   text="Lean 4 (core only) over an operational model of Network.__init__ / VocabularyMap.get_or_create / VocabularyOrDimParam.coerce on with-block construction scripts with a context stack and the process-wide weak master dictionary, for scripts of any depth and any earlier process state: d < 1 and values that are neither integer nor Vocabulary are rejected; one Vocabulary per (map, d); an explicit vocabs= governs exactly its subtree; all ungoverned networks of one root (plain or SPA) share one map, hence one vocabulary per d; every map of a build belongs to that build, so independent models never share automatically created vocabularies. Tied to the code by exhaustive small and random deeper nesting trees built with real nengo/spa networks and modules (identity partition, map seeds, creation order, errors), several models per process in varying order, and exact array comparison for equal seeds.",
   note=TRUST + "History-independence of outputs (order_independent), label determinism under renaming of the build number and the lift of distinct_across_models to whole build sequences are checked by the correspondence run and proved only as far as Props/C18.lean states; 'a different seed gives different pointers' and the RandomState stream are empirical; Nengo Config.default and weak-reference semantics are assumptions.",
   technique="Lean 4 proof (induction over construction scripts: monotone map contents, name freshness, governing-map and shared-map invariants, build ownership) + exhaustive/random nesting-tree correspondence",
   ref="6/C18"),

 "C03": dict(
   text="Lean 4 (core + the C11 lattice): over a model of Python's operator dispatch (reflected operators, __array_ufunc__ = None), TypeCheckedBinaryOp, infer_types with its mutable type assignments, _ensure_algebra_match / _ensure_length_match / _get_algebra, as_ast_node / as_sink and ModuleInput.__rrshift__, for every vocabulary universe, operand and history: type inference accepts exactly when the operand types have an upper bound among themselves and otherwise raises before assigning anything; different vocabularies (even of equal dimensionality) and different dimensionalities are never bounded; pointer × pointer operations are accepted iff types are bounded, lengths are equal and two vocabulary-less pointers share the algebra, and the result carries the bound's vocabulary and the operand's algebra; pointers of different length are rejected by every operation; no operation of any operand kind, accepted or rejected, ever changes a SemanticPointer, hence acceptance is history-free for pointers; bare arrays are rejected by + − * >> on either side; reinterpret/translate give the requested vocabulary. Tied to the code by the full operator × operand-kind × vocabulary-relation matrix (incl. arrays on both sides, NumPy scalars, module outputs, symbols) and all histories in which a vocabulary-less pointer/symbol meets ≤ 3 vocabularies (≈8.5k programs quick, ≈35k thorough), every accepted expression completed with matching and mismatching >> sink.",
   note=TRUST + "Exact acceptance iff and result vocabulary/algebra are proved for pointer × pointer; other kind pairs by soundness lemmas plus the exhaustive correspondence; connect-stage and NumPy-internal errors are compared as classes; routed mode (inside action-selection blocks) and '/' are not modelled; PointerSymbols are bound by inference by design (the history clause speaks of Semantic Pointers).",
   technique="Lean 4 proof (world/history semantics, induction over histories, reuse of the C11 coercion theorems) + exhaustive operator-matrix and history correspondence",
   ref="6/C03"),
 "C17": dict(
   text="Lean 4 over the shared algebra model, for every linearly ordered commutative ring, every HRR dimensionality and every VTB/TVTB sub-dimensionality: HrrAlgebra.sign is determined by the signs of the DC and (even d) Nyquist coefficients, which are ring homomorphisms of the convolution ring (dc_bind, nyq_bind), so the sign of a binding is the component-wise product of the operands' coefficient signs; the four classes are exclusive and exhaustive; for definite non-zero signs abs has positive sign, is idempotent and bind(sign vector, abs v) = v; VTB/TVTB sign is the classification of the vector's own m×m matrix (block reduction of the d×d binding matrix) by symmetry and definiteness with exactly one class per vector, abs v = ±v / 0 with the same three laws. Totality of the HRR sign is proved outside the class DC = 0 ∧ Nyquist ≠ 0 (sign_total_partial) and DISPROVED on it (sign_total_fails, witness [1,−1], every even d): that is the recorded known finding C17-hrr-sign-dc0. Tied to the code by vectors generated by class with exactly representable coefficients (d = 1..64 odd/even; matrices GGᵀ+cI, negatives, indefinite, singular, antisymmetric, zero, non-symmetric for m = 1..7), sign predicates, to_vector, abs, SemanticPointer.sign()/abs(), product and reconstruction laws.",
   note=TRUST + "rfft's two real coefficients are replaced by the exact sums Σv and Σ(−1)^i v (checked exact on every generated input); eigvalsh/allclose are replaced by the quadratic-form definitions, the driver runs a certificate checker proved sound instead of the noncomputable classification (no completeness theorem); near-singular matrices and rounded-zero coefficients are float territory and are not generated.",
   technique="Lean 4 proof (characters of the convolution ring, sign multiplicativity, block-matrix reduction, Gram-certificate soundness) + by-class exact correspondence; one known finding with _partial/_fails theorems",
   ref="6/C17"),
 "C07": dict(
   text="Lean 4 (100 theorems) over a model of SemanticPointer with a law-free algebra record and an environment of algebra objects by identity: every operator and method (+, binary/unary −, * with pointers in either order and with every numeric kind, / , ~, linv/rinv, **, dot/@, compare, distance, mse, normalized, unitary, abs, copy, length, len, binding matrix) equals the operation of the pointer's own algebra object or the elementary vector formula applied in operand order — including the reflected variants (rsub_eq, rmul_eq), division by zero for every kind of zero, the zero-vector cases of compare and normalized, result vocabulary and algebra, independence from any other (default) algebra (uses_own_algebra), and immutability of constructed vectors under arbitrary action sequences on a heap-with-write-flag model — for all vectors, dimensions, commutative rings / ordered fields and ALL algebra implementations. Tied to the code by ≈2.4·10⁴ (quick) / 3.6·10⁵ (thorough) executions over all operators × three algebras × operand orders × scalar kinds × pointer kinds, judged by fractions formulas, direct algebra calls, a recording proxy algebra, a custom non-commutative non-additive algebra, operand snapshots and write attempts.",
   note=TRUST + "np.linalg.norm is abstract (nrm ≥ 0, nrm² = Σv²; the driver uses a 2⁻⁸⁰ rational approximation); make_unitary, abs and fractional powers are uninterpreted (delegation proved, values tied by the direct-call and proxy oracles); HRR's FFT path tied numerically; names assumed shorter than MAX_NAME.",
   technique="Lean 4 proof (path = formula per operator, environment-independence, heap invariant by induction) + exhaustive differential correspondence with proxy-algebra oracles",
   ref="6/C07"),
 "C10": dict(
   text="Lean 4 (76 theorems) over a model of Vocabulary.parse / parse_n / populate / create_pointer that is generic in the algebra: the value of every denoting expression equals applying the written operators to the vocabulary's entries (structural induction over the denotation relation), a bare number is n times the vocabulary's own identity, special names belong to the vocabulary's algebra and cannot be shadowed, every successful parse is a pointer of this vocabulary, unknown names in a strict vocabulary and non-pointer results raise the parse error with the vocabulary unchanged, populate processes items left to right (';' then first '=' then first '.', stripped), 'Name = expr' stores exactly the parsed value, a failing item keeps the prefix, and create_pointer returns the FIRST candidate below the bound among the allowed attempts, else the first of the least similar ones with a warning issued iff none qualified (all streams, attempt limits, bounds, transforms, empty vocabulary, 0 attempts, exhausted generator). Tied to the code over three algebras × d ∈ {4,9} with exact ℚ / ℚ(√m) evaluation, strict and non-strict vocabularies and scripted pointer generators.",
   note=TRUST + "CPython's parser is trusted (the model receives ast.parse(text) converted node by node); operators on bare NumPy arrays / inf answer 'unmodelled' and are counted, not compared (~1 %); normalized() covered only for rational norms and unitary() through prefix checks.",
   technique="Lean 4 proof (abstract algebra record, Python dispatch as a total function with explicit exception classes, denotational relation + structural induction, loop invariant for the attempt loop) + exact differential correspondence",
   ref="6/C10"),
 "C13": dict(
   text="Lean 4 (48 theorems) for any commutative ring, any dimensionalities, any well-formed vocabularies, any key list, every populate mode and an arbitrary iteration order of the Python sets involved: T i j = Σ over requested ∩ source ∩ target(-after) of to_k i · from_k j (under the stated pairing hypothesis, shown necessary by pairing_needed), orthonormal source entries map exactly, any residual minimiser maps linearly independent entries exactly, only requested keys matter, populate False/None/True behave as documented (silent / NengoWarning exactly when a requested source key is missing / created from the target's own generator), the source vocabulary and its generator are never changed, translate = T·v with the target vocabulary and algebra, reinterpret keeps the vector and follows the new vocabulary's algebra or keeps it when cleared, subsets hold the same vectors, keys and algebra independently of the original. Tied to the code exhaustively over all key subsets (≤ 5 keys, incl. keys the source lacks) × populate modes × solver on purpose-built exact vocabulary pairs in all algebras, on SemanticPointer, PointerSymbol and module outputs.",
   note=TRUST + "NumPy dot/lstsq trusted (solver abstract; dependent rows are oracle-only); CPython's set iteration order pairing is an observed assumption (17,605 call pairs, 0 differences, varied PYTHONHASHSEED); vocabularies are values in the model (independence of real objects is checked by the harness); symbol evaluation is C10's, network semantics of Transformed is C01's.",
   technique="Lean 4 proof (normal-form lemma for transform_to, Finset sums and linear algebra) + exhaustive exact-rational correspondence",
   ref="6/C13"),
}

ENABLED = {"C02", "C09", "C11", "C14", "C16", "C20"}

NOT_YET = "check not built yet in this round (model and correspondence pending); see DESIGN.md section 6"

def main():
    checks = []
    for pid in ALL:
        if pid not in CHECKS or pid not in ENABLED:
            continue
        c = CHECKS[pid]
        checks.append({
            "property_id": pid,
            "quick_cmd": f"./check {pid} --tier quick",
            "thorough_cmd": f"./check {pid} --tier thorough",
            "evidence_file": f"evidence/{pid}.json",
            "replay_cmd_template": f"./check {pid} --replay {{path}}",
            "engine": "lean-spamodel",
            "level_claimed": {"category": "proof", "text": c["text"], "design_ref": c["ref"]},
            "level_note": c["note"],
            "technique": c["technique"],
        })
    man = {
        "version": 1,
        "setup_cmd": "cd lean && lake build",
        "hooks": {
            "guard": "NENGO_SPA_VERIF",
            "enable": "none needed: all observed state is reachable from Python; ./check exports NENGO_SPA_VERIF=1 for uniformity",
            "baseline_off_cmd": "cd /repo && /venv/bin/python -m pytest -ra -q -p no:cacheprovider --timeout=900 --continue-on-collection-errors",
            "source_commits": [],
            "add_only": True,
        },
        "engines": [{
            "name": "lean-spamodel",
            "path": "lean/",
            "serves_properties": sorted(set(CHECKS) & ENABLED),
            "kind_free_text": "Lean 4 library SpaModel (models Basic/*, theorems Props/*, generated tables Generated/*), line-protocol drivers drivers/*.lean run with `lake env lean --run`, Python correspondence harness harness/*.py",
        }],
        "checks": checks,
        "notes": "Every check: regenerate tables from /repo, lake build the property's theorems, source scan + #print axioms audit, then model/implementation correspondence + property oracle on the implementation; see DESIGN.md.",
        "not_applicable": [{"property_id": p, "reason": NOT_YET} for p in ALL if p not in CHECKS or p not in ENABLED],
    }
    path = os.path.join(HERE, "MANIFEST.json")
    json.dump(man, open(path, "w"), indent=1, ensure_ascii=False)
    try:
        import jsonschema
    except ImportError:
        print("jsonschema not importable here; run with python3-vt to validate"); return
    jsonschema.validate(man, json.load(open("/root/.vp/MANIFEST.schema.json")))
    es = json.load(open("/root/.vp/EVIDENCE.schema.json"))
    for pid in sorted(set(CHECKS) & ENABLED):
        f = os.path.join(HERE, "evidence", pid + ".json")
        jsonschema.validate(json.load(open(f)), es)
    print("MANIFEST ok:", len(checks), "checks;", len(man["not_applicable"]), "not_applicable; evidence files valid")

main()

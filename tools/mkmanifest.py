#!/usr/bin/env python3
"""Writes MANIFEST.json from the table below and validates it (and every evidence file) against the schemas."""
import json, os, sys, glob
HERE = os.path.dirname(os.path.dirname(os.path.abspath(__file__)))
ALL = [f"C{i:02d}" for i in range(1, 21)]

TRUST = ("Lean 4.33 kernel + Mathlib v4.33; axioms ⊆ {propext, Classical.choice, Quot.sound} (audited per theorem on every run); "
         "the hand-written Impl.* model is tied to /repo only by the correspondence run (differential, in-process against the working tree); ")

CHECKS = {
 "C11": dict(
   text="Lean 4 theorems over the model of types.py (the four __gt__ methods, derived comparisons, coerce_types as left-to-right max scan + verification + reason selection): the order is exactly the documented chains, reflexive/antisymmetric/transitive, coerce returns the greatest member iff one exists, independent of order and repetition, reasons are truthful, equal types have equal hash keys — for all dimension assignments, names and tuple lengths. The model is tied to the code by an exhaustive correspondence run over the property's universe (all pairs x 7 observables, all tuples up to length 4; thorough: length 5 over a larger universe + random to length 8).",
   note=TRUST + "Python's builtin max() and operator dispatch are modelled from their documentation; vocabulary identity is a number per object.",
   technique="Lean 4 proof (core, case analysis + induction over the argument list) + exhaustive model/implementation correspondence",
   ref="6/C11"),
 "C02": dict(
   text="Lean 4 theorems over the shared algebra model (Alg.Hrr/Vtb/Tvtb.Impl, following bind/get_binding_matrix/get_inversion_matrix/invert/_get_sub_d/is_valid_dimensionality): for every commutative ring, every HRR dimensionality and every VTB/TVTB sub-dimensionality the modelled binding equals the published formula (convolution sum; block matrix, matrix forms s•(X·Yᵀ) and s•(X·Y)), is additive and homogeneous in each operand, HRR binding is commutative and associative, the binding matrix gives the direct operation for both swap_inputs values, the inversion matrix gives invert, unequal lengths are rejected, and exactly the positive squares are valid dimensionalities. Tied to the code by exact (ℚ, ℚ(√m)) execution of the same definitions on all basis pairs (d ≤ 16 quick / ≤ 36 thorough), structured and extreme-magnitude vectors, d up to 64, both swap values, all sidedness values, validity of every d in [-3, 4200] (thorough 2·10⁵).",
   note=TRUST + "HrrAlgebra.bind goes through NumPy rfft/irfft: the model is the convolution sum (modelled, not path-faithful), compared at 1e-9 relative; NumPy dot/kron/sqrt and IEEE rounding trusted.",
   technique="Lean 4 proof (Mathlib: circulant matrices, finite sums, ring) + exact-arithmetic model/implementation correspondence",
   ref="6/C02"),
}

NOT_YET = "check not built yet in this round (model and correspondence pending); see DESIGN.md section 6"

def main():
    checks = []
    for pid in ALL:
        if pid not in CHECKS:
            continue
        c = CHECKS[pid]
        checks.append({
            "property_id": pid,
            "quick_cmd": f"./check {pid} --tier quick",
            "thorough_cmd": f"./check {pid} --tier thorough",
            "evidence_file": f"evidence/{pid}.json",
            "replay_cmd_template": f"./check {pid} --replay {{path}}",
            "engine": "lean-spamodel",
            "level_claimed": {"category": "proof", "text": c["text"], "design_ref": c["ref"]},
            "level_note": c["note"],
            "technique": c["technique"],
        })
    man = {
        "version": 1,
        "setup_cmd": "cd lean && lake build",
        "hooks": {
            "guard": "NENGO_SPA_VERIF",
            "enable": "none needed: all observed state is reachable from Python; ./check exports NENGO_SPA_VERIF=1 for uniformity",
            "baseline_off_cmd": "cd /repo && /venv/bin/python -m pytest -ra -q -p no:cacheprovider --timeout=900 --continue-on-collection-errors",
            "source_commits": [],
            "add_only": True,
        },
        "engines": [{
            "name": "lean-spamodel",
            "path": "lean/",
            "serves_properties": sorted(CHECKS),
            "kind_free_text": "Lean 4 library SpaModel (models Basic/*, theorems Props/*, generated tables Generated/*), line-protocol drivers drivers/*.lean run with `lake env lean --run`, Python correspondence harness harness/*.py",
        }],
        "checks": checks,
        "notes": "Every check: regenerate tables from /repo, lake build the property's theorems, source scan + #print axioms audit, then model/implementation correspondence + property oracle on the implementation; see DESIGN.md.",
        "not_applicable": [{"property_id": p, "reason": NOT_YET} for p in ALL if p not in CHECKS],
    }
    path = os.path.join(HERE, "MANIFEST.json")
    json.dump(man, open(path, "w"), indent=1, ensure_ascii=False)
    try:
        import jsonschema
    except ImportError:
        print("jsonschema not importable here; run with python3-vt to validate"); return
    jsonschema.validate(man, json.load(open("/root/.vp/MANIFEST.schema.json")))
    es = json.load(open("/root/.vp/EVIDENCE.schema.json"))
    for pid in sorted(CHECKS):
        f = os.path.join(HERE, "evidence", pid + ".json")
        jsonschema.validate(json.load(open(f)), es)
    print("MANIFEST ok:", len(checks), "checks;", len(man["not_applicable"]), "not_applicable; evidence files valid")

main()

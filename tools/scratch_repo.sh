#!/bin/bash
# tools/scratch_repo.sh new <name>      -> creates a git worktree of /repo HEAD at /tmp/vp-<name> and prints the path
# tools/scratch_repo.sh rm  <name>      -> removes it
# Run a check against it with:  VERIF_REPO=/tmp/vp-<name> VERIF_EVIDENCE_DIR=/tmp/vp-<name>-ev ./check Cxx
set -e
case "$1" in
 new) git -C /repo worktree add -q --detach "/tmp/vp-$2" HEAD && echo "/tmp/vp-$2";;
 rm)  git -C /repo worktree remove --force "/tmp/vp-$2"; rm -rf "/tmp/vp-$2-ev";;
 *) echo "usage: $0 new|rm <name>"; exit 2;;
esac

-- Root of the `SpaModel` library: `lake build` (MANIFEST.setup_cmd) builds every property's theorems.
import SpaModel.Proto
import SpaModel.AlgProto
import SpaModel.Generated.Tables
import SpaModel.Props.C02
import SpaModel.Props.C09
import SpaModel.Props.C11
import SpaModel.Props.C14
import SpaModel.Props.C16
import SpaModel.Props.C20

-- Root of the `SpaModel` library: models (Basic), lemmas, generated tables, property theorems.
import SpaModel.Proto

/-
Spectral layer, part 1: the half-spectrum cosine sum.

For `d > 0` and an integer `m`,
  `Σ_{w = 0}^{⌊d/2⌋} f_w · cos(2π w m / d) = d` if `d ∣ m`, else `0`,
where `f_w = 1` for the DC row (`w = 0`) and the Nyquist row (`2w = d`) and `2` otherwise.
This is the identity behind `transform_out ∘ (transform_in ⊙ transform_in)` of
`nengo_spa/networks/circularconvolution.py` (the inverse real FFT written on half the spectrum).
-/
import Mathlib.Analysis.SpecialFunctions.Trigonometric.Basic
import Mathlib.Analysis.SpecialFunctions.Complex.Log
import Mathlib.Algebra.Field.GeomSum
import Mathlib.Tactic.Ring
import Mathlib.Tactic.Linarith
import Mathlib.Tactic.FieldSimp

open Finset Real

namespace Spectral

/-- the weight of half-spectrum row `w`: DC and Nyquist rows once, the others twice -/
noncomputable def halfWeight (d w : ℕ) : ℝ := if w = 0 ∨ 2 * w = d then 1 else 2

/-- folding a sequence that is symmetric about `d/2` onto the lower half -/
theorem sum_range_fold (d : ℕ) (hd : 0 < d) (c : ℕ → ℝ) (hsym : ∀ w, w ≤ d → c (d - w) = c w) :
    ∑ w ∈ range d, c w = ∑ w ∈ range (d / 2 + 1), halfWeight d w * c w := by
  -- right-hand side: every row once, plus the rows that are neither DC nor Nyquist once more
  have hR : ∑ w ∈ range (d / 2 + 1), halfWeight d w * c w
      = ∑ w ∈ range (d / 2 + 1), c w + ∑ w ∈ (range (d / 2 + 1)).filter (fun w => ¬ (w = 0 ∨ 2 * w = d)), c w := by
    rw [Finset.sum_filter, ← Finset.sum_add_distrib]
    refine Finset.sum_congr rfl fun w _ => ?_
    unfold halfWeight
    by_cases h : w = 0 ∨ 2 * w = d <;> simp [h] <;> ring
  -- left-hand side: lower half, plus the upper half reflected
  have hL : ∑ w ∈ range d, c w
      = ∑ w ∈ range (d / 2 + 1), c w + ∑ w ∈ Ico (d / 2 + 1) d, c w := by
    rw [Finset.range_eq_Ico, Finset.range_eq_Ico]
    exact (Finset.sum_Ico_consecutive c (Nat.zero_le _) (by omega)).symm
  have hU : ∑ w ∈ Ico (d / 2 + 1) d, c w
      = ∑ w ∈ (range (d / 2 + 1)).filter (fun w => ¬ (w = 0 ∨ 2 * w = d)), c w := by
    refine Finset.sum_bij (fun w _ => d - w) ?_ ?_ ?_ ?_
    · intro w hw
      simp only [mem_Ico] at hw
      simp only [mem_filter, mem_range]
      omega
    · intro a ha b hb hab
      simp only [mem_Ico] at ha hb
      omega
    · intro b hb
      simp only [mem_filter, mem_range] at hb
      refine ⟨d - b, ?_, ?_⟩
      · simp only [mem_Ico]; omega
      · omega
    · intro w hw
      simp only [mem_Ico] at hw
      exact (hsym w (by omega)).symm
  rw [hL, hU, hR]

/-- the full sum of the real parts of the powers of a `d`-th root of unity -/
theorem sum_cos_full (d : ℕ) (hd : 0 < d) (m : ℤ) :
    ∑ w ∈ range d, Real.cos (2 * π * w * m / d) = if (d : ℤ) ∣ m then (d : ℝ) else 0 := by
  have hd' : (d : ℂ) ≠ 0 := by exact_mod_cast hd.ne'
  set ζ : ℂ := Complex.exp (2 * π * Complex.I * m / d) with hζ
  have hpow : ∀ w : ℕ, ζ ^ w = Complex.exp ((2 * π * w * m / d : ℝ) * Complex.I) := by
    intro w
    rw [hζ, ← Complex.exp_nat_mul]
    congr 1
    push_cast
    ring
  have hre : ∀ w : ℕ, (ζ ^ w).re = Real.cos (2 * π * w * m / d) := by
    intro w
    rw [hpow w, Complex.exp_ofReal_mul_I_re]
  have hsum : ∑ w ∈ range d, Real.cos (2 * π * w * m / d) = (∑ w ∈ range d, ζ ^ w).re := by
    rw [Complex.re_sum]
    exact Finset.sum_congr rfl fun w _ => (hre w).symm
  rw [hsum]
  have hζd : ζ ^ d = 1 := by
    rw [hζ, ← Complex.exp_nat_mul, Complex.exp_eq_one_iff]
    refine ⟨m, ?_⟩
    field_simp
  have hone : ζ = 1 ↔ (d : ℤ) ∣ m := by
    rw [hζ, Complex.exp_eq_one_iff]
    constructor
    · rintro ⟨n, hn⟩
      refine ⟨n, ?_⟩
      have h2 : (2 * π * Complex.I : ℂ) ≠ 0 := by
        simp [Real.pi_ne_zero, Complex.I_ne_zero]
      have : (m : ℂ) = (d : ℂ) * n := by
        field_simp at hn
        exact hn
      exact_mod_cast this
    · rintro ⟨n, rfl⟩
      refine ⟨n, ?_⟩
      push_cast
      field_simp
  by_cases h : (d : ℤ) ∣ m
  · rw [if_pos h, hone.2 h]
    simp
  · rw [if_neg h]
    have hne : ζ ≠ 1 := fun e => h (hone.1 e)
    rw [geom_sum_eq hne, hζd]
    simp

/-- **half-spectrum cosine sum** -/
theorem sum_cos_half (d : ℕ) (hd : 0 < d) (m : ℤ) :
    ∑ w ∈ range (d / 2 + 1), halfWeight d w * Real.cos (2 * π * w * m / d)
      = if (d : ℤ) ∣ m then (d : ℝ) else 0 := by
  rw [← sum_cos_full d hd m]
  symm
  apply sum_range_fold d hd (fun w => Real.cos (2 * π * w * m / d))
  intro w hw
  have hd' : (d : ℝ) ≠ 0 := by exact_mod_cast hd.ne'
  have : 2 * π * ((d - w : ℕ) : ℝ) * m / d = (m : ℤ) * (2 * π) - 2 * π * w * m / d := by
    rw [Nat.cast_sub hw]
    field_simp
  rw [this, Real.cos_int_mul_two_pi_sub]

end Spectral

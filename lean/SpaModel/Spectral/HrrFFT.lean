/-
Spectral layer, part 4: the FFT code paths of `HrrAlgebra` (`bind`, `make_unitary`, `binding_power`)
written on NumPy's half spectrum (`rfft`/`irfft`, see RealFFT.lean) and their meaning in the
convolution ring, for every dimensionality `N ≥ 1` and every real vector.
-/
import SpaModel.Spectral.RealFFT
import Mathlib.Analysis.SpecialFunctions.Pow.Complex
import Mathlib.Analysis.SpecialFunctions.Pow.Real

open ZMod Finset

namespace Spectral

set_option linter.unusedSectionVars false

variable {N : ℕ} [NeZero N]

local notation "conj" => starRingEnd ℂ

/-- a real vector as a complex-valued function -/
def vc (v : ZMod N → ℝ) : ZMod N → ℂ := fun j => (v j : ℂ)

theorem vc_real (v : ZMod N → ℝ) (j : ZMod N) : conj (vc v j) = vc v j := Complex.conj_ofReal _

/-! ### real-vector operations (the published formulas) -/
def convR (a b : ZMod N → ℝ) : ZMod N → ℝ := fun i => ∑ j, a j * b (i - j)
def revR (a : ZMod N → ℝ) : ZMod N → ℝ := fun i => a (-i)
def deltaR : ZMod N → ℝ := fun i => if i = 0 then 1 else 0

theorem vc_convR (a b : ZMod N → ℝ) : vc (convR a b) = conv (vc a) (vc b) := by
  funext i; simp [vc, convR, conv]
theorem vc_revR (a : ZMod N → ℝ) : vc (revR a) = rev (vc a) := rfl
theorem vc_deltaR : vc (deltaR : ZMod N → ℝ) = delta := by
  funext i; simp only [vc, deltaR, delta]; split <;> simp
theorem vc_injective {a b : ZMod N → ℝ} (h : vc a = vc b) : a = b := by
  funext j; have := congrFun h j; simp only [vc] at this; exact_mod_cast this

/-! ### self-conjugate indices -/

theorem selfConj_val (k : ZMod N) (h : k = -k) : k.val = 0 ∨ 2 * k.val = N := by
  have hlt : k.val < N := ZMod.val_lt k
  have h2 : ((k.val + k.val : ℕ) : ZMod N) = 0 := by
    rw [Nat.cast_add, ZMod.natCast_zmod_val]
    exact eq_neg_iff_add_eq_zero.1 h
  rw [ZMod.natCast_eq_zero_iff] at h2
  rcases Nat.eq_zero_or_pos (k.val + k.val) with h0 | hp
  · left; omega
  · right; have := Nat.le_of_dvd hp h2
    obtain ⟨c, hc⟩ := h2
    rcases c with _ | _ | c
    · omega
    · omega
    · nlinarith

/-- a half spectrum whose DC and Nyquist coefficients are real -/
def Admissible (N : ℕ) (h : ℕ → ℂ) : Prop := ∀ w, (w = 0 ∨ 2 * w = N) → (h w).im = 0

theorem hermExt_selfConj (h : ℕ → ℂ) (k : ZMod N) (hk : k = -k) : hermExt h k = ((h k.val).re : ℂ) := by
  unfold hermExt; rw [if_pos hk]

/-! ### the transform pair -/

theorem rfft_hermitian (v : ZMod N → ℝ) (k : ZMod N) : 𝓕 (vc v) (-k) = conj (𝓕 (vc v) k) :=
  dft_hermitian_of_real (vc_real v) k

/-- the Hermitian extension of `rfft v` is the full transform of `v` -/
theorem hermExt_rfft (v : ZMod N → ℝ) : hermExt (rfft v) = 𝓕 (vc v) := by
  funext k
  have hcast : 𝓕 (vc v) ((k.val : ℕ) : ZMod N) = 𝓕 (vc v) k := by rw [ZMod.natCast_zmod_val]
  by_cases hs : k = -k
  · rw [hermExt_selfConj _ k hs]
    show (((𝓕 (vc v) ((k.val : ℕ) : ZMod N)).re : ℝ) : ℂ) = _
    rw [hcast]
    have : conj (𝓕 (vc v) k) = 𝓕 (vc v) k := by
      have := rfft_hermitian v k
      rw [← hs] at this
      exact this.symm
    exact Complex.conj_eq_iff_re.1 this
  · unfold hermExt
    rw [if_neg hs]
    by_cases hle : 2 * k.val ≤ N
    · rw [if_pos hle]; exact hcast
    · rw [if_neg hle]
      show conj (𝓕 (vc v) ((N - k.val : ℕ) : ZMod N)) = _
      rw [natCast_sub_eq_neg k.val (ZMod.val_lt k).le, ZMod.natCast_zmod_val, rfft_hermitian,
        Complex.conj_conj]

/-- `irfft(rfft(v), n=len(v)) = v` -/
theorem irfft_rfft (v : ZMod N → ℝ) : irfft (rfft v) = v := by
  apply vc_injective
  funext j
  show ((irfft (rfft v) j : ℝ) : ℂ) = vc v j
  rw [irfft_eq_invDFT, hermExt_rfft]
  exact congrFun ((dft (N := N) (E := ℂ)).symm_apply_apply (vc v)) j

/-- the full transform of `irfft h` is the Hermitian extension of `h` -/
theorem dft_irfft (h : ℕ → ℂ) : 𝓕 (vc (irfft h : ZMod N → ℝ)) = hermExt h := by
  have : vc (irfft h : ZMod N → ℝ) = 𝓕⁻ (hermExt h) := by funext j; exact irfft_eq_invDFT h j
  rw [this]
  exact (dft (N := N) (E := ℂ)).apply_symm_apply (hermExt h)

theorem admissible_rfft (v : ZMod N → ℝ) : Admissible N (rfft v) := by
  intro w hw
  have hw2 : 2 * w ≤ N := by rcases hw with rfl | h <;> omega
  have e : (w : ZMod N) = -(w : ZMod N) := (selfConj_iff w hw2).2 hw
  have := rfft_hermitian v (w : ZMod N)
  rw [← e] at this
  exact Complex.conj_eq_iff_im.1 this.symm

/-- the extension is multiplicative on admissible half spectra -/
theorem hermExt_mul (h1 h2 : ℕ → ℂ) (a1 : Admissible N h1) (a2 : Admissible N h2) (k : ZMod N) :
    hermExt (fun w => h1 w * h2 w) k = hermExt h1 k * hermExt h2 k := by
  by_cases hs : k = -k
  · rw [hermExt_selfConj _ k hs, hermExt_selfConj _ k hs, hermExt_selfConj _ k hs]
    have hv := selfConj_val k hs
    have i1 := a1 k.val hv
    have i2 := a2 k.val hv
    rw [← Complex.ofReal_mul]
    congr 1
    simp [Complex.mul_re, i1, i2]
  · unfold hermExt
    simp only [if_neg hs]
    by_cases hle : 2 * k.val ≤ N
    · simp only [if_pos hle]
    · simp only [if_neg hle, map_mul]

/-- **convolution theorem on the half spectrum**: for admissible half spectra,
`irfft(h1 * h2) = irfft(h1) ⊛ irfft(h2)` -/
theorem irfft_mul (h1 h2 : ℕ → ℂ) (a1 : Admissible N h1) (a2 : Admissible N h2) :
    irfft (fun w => h1 w * h2 w) = convR (irfft h1 : ZMod N → ℝ) (irfft h2) := by
  apply vc_injective
  rw [vc_convR]
  apply eq_of_dft_eq
  intro k
  rw [dft_conv, dft_irfft, dft_irfft, dft_irfft]
  exact hermExt_mul h1 h2 a1 a2 k

/-- **`HrrAlgebra.bind`**: `irfft(rfft(a) * rfft(b), n)` is circular convolution, for every `N` -/
theorem bindFFT_eq_conv (a b : ZMod N → ℝ) :
    irfft (fun w => rfft a w * rfft b w) = convR a b := by
  rw [irfft_mul _ _ (admissible_rfft a) (admissible_rfft b), irfft_rfft, irfft_rfft]

/-! ### `HrrAlgebra.invert` on the spectrum -/

theorem hermExt_conj (h : ℕ → ℂ) (k : ZMod N) : hermExt (fun w => conj (h w)) k = conj (hermExt h k) := by
  by_cases hs : k = -k
  · rw [hermExt_selfConj _ k hs, hermExt_selfConj _ k hs, Complex.conj_ofReal, Complex.conj_re]
  · unfold hermExt
    simp only [if_neg hs]
    by_cases hle : 2 * k.val ≤ N
    · simp only [if_pos hle]
    · simp only [if_neg hle]

/-- `invert(irfft(h)) = irfft(conj h)` -/
theorem revR_irfft (h : ℕ → ℂ) : revR (irfft h : ZMod N → ℝ) = irfft (fun w => conj (h w)) := by
  apply vc_injective
  rw [vc_revR]
  apply eq_of_dft_eq
  intro k
  rw [dft_rev, dft_irfft, dft_irfft, hermExt_neg, hermExt_conj]

/-! ### `HrrAlgebra.make_unitary` -/

/-- `fft_val / fft_norms` with `fft_val = fft_norms = 1` where the modulus is not positive -/
noncomputable def unitize (z : ℂ) : ℂ := if ‖z‖ ≤ 0 then 1 else z / (‖z‖ : ℂ)

theorem unitize_mul_conj (z : ℂ) : unitize z * conj (unitize z) = 1 := by
  unfold unitize
  split
  · simp
  · next h =>
    have hn : (‖z‖ : ℂ) ≠ 0 := by
      have : ‖z‖ ≠ 0 := fun e => h (by rw [e])
      exact_mod_cast this
    rw [map_div₀, Complex.conj_ofReal, div_mul_div_comm, Complex.mul_conj, Complex.normSq_eq_norm_sq]
    push_cast
    field_simp

theorem unitize_im_zero (z : ℂ) (hz : z.im = 0) : (unitize z).im = 0 := by
  unfold unitize
  split
  · simp
  · rw [Complex.div_ofReal_im, hz, zero_div]

/-- `irfft(unitize(rfft(v)), n)` -/
noncomputable def makeUnitaryFFT (v : ZMod N → ℝ) : ZMod N → ℝ := irfft (fun w => unitize (rfft v w))

/-- **`HrrAlgebra.make_unitary` returns a unitary vector for EVERY input** (vanishing Fourier
coefficients, the zero vector and every dimensionality included): `u ⊛ ~u = δ` -/
theorem makeUnitaryFFT_isUnitary (v : ZMod N → ℝ) :
    convR (makeUnitaryFFT v) (revR (makeUnitaryFFT v)) = deltaR := by
  set g : ℕ → ℂ := fun w => unitize (rfft v w) with hg
  have adm : Admissible N g := fun w hw => unitize_im_zero _ (admissible_rfft v w hw)
  have admc : Admissible N (fun w => conj (g w)) := fun w hw => by
    rw [Complex.conj_im, adm w hw, neg_zero]
  unfold makeUnitaryFFT
  rw [revR_irfft, ← irfft_mul g _ adm admc]
  -- the product spectrum is constantly one, and `irfft 1 = δ`
  have hone : (fun w => g w * conj (g w)) = fun _ => (1 : ℂ) := by
    funext w; exact unitize_mul_conj _
  rw [hone]
  apply vc_injective
  rw [vc_deltaR]
  apply eq_of_dft_eq
  intro k
  rw [dft_irfft, dft_delta]
  by_cases hs : k = -k
  · rw [hermExt_selfConj _ k hs]; simp
  · unfold hermExt
    simp only [if_neg hs]
    split <;> simp

/-! ### `HrrAlgebra.binding_power` -/

/-- `irfft(rfft(v) ** e, n)` for a real exponent `e` -/
noncomputable def powFFT (v : ZMod N → ℝ) (e : ℝ) : ZMod N → ℝ :=
  irfft (fun w => rfft v w ^ (e : ℂ))

/-- the n-fold binding in the convolution ring (`v⁰ = δ`) -/
def npowR (v : ZMod N → ℝ) : ℕ → (ZMod N → ℝ)
  | 0 => deltaR
  | n + 1 => convR (npowR v n) v

theorem admissible_pow_nat (h : ℕ → ℂ) (a : Admissible N h) (n : ℕ) : Admissible N (fun w => h w ^ n) := by
  intro w hw
  have : h w = ((h w).re : ℂ) := by
    apply Complex.ext <;> simp [a w hw]
  show (h w ^ n).im = 0
  rw [this, ← Complex.ofReal_pow, Complex.ofReal_im]

theorem irfft_one : (irfft (fun _ => (1 : ℂ)) : ZMod N → ℝ) = deltaR := by
  apply vc_injective
  rw [vc_deltaR]
  apply eq_of_dft_eq
  intro k
  rw [dft_irfft, dft_delta]
  by_cases hs : k = -k
  · rw [hermExt_selfConj _ k hs]; simp
  · unfold hermExt
    simp only [if_neg hs]
    split <;> simp

/-- **integer powers through the FFT are repeated binding** (`exponent = n ≥ 0`; negative exponents
invert first in the code) -/
theorem powFFT_nat (v : ZMod N → ℝ) (n : ℕ) : powFFT v (n : ℝ) = npowR v n := by
  unfold powFFT
  have hcast : (fun w => rfft v w ^ (((n : ℝ)) : ℂ)) = fun w => rfft v w ^ n := by
    funext w
    rw [Complex.ofReal_natCast, Complex.cpow_natCast]
  rw [hcast]
  clear hcast
  induction n with
  | zero => simp only [pow_zero, npowR]; exact irfft_one
  | succ n ih =>
    have : (fun w => rfft v w ^ (n + 1)) = fun w => rfft v w ^ n * rfft v w := by
      funext w; rw [pow_succ]
    rw [this, irfft_mul _ _ (admissible_pow_nat _ (admissible_rfft v) n) (admissible_rfft v), ih, irfft_rfft]
    rfl

/-- what the sign gate of the code guarantees (`HrrSign.is_positive`: DC sign positive, Nyquist sign not
negative): the DC and Nyquist coefficients are not negative -/
def NonnegSign (v : ZMod N → ℝ) : Prop := ∀ w, (w = 0 ∨ 2 * w = N) → 0 ≤ (rfft v w).re

theorem admissible_cpow (v : ZMod N → ℝ) (hv : NonnegSign v) (e : ℝ) :
    Admissible N (fun w => rfft v w ^ (e : ℂ)) := by
  intro w hw
  have him := admissible_rfft v w hw
  have hpos := hv w hw
  have : rfft v w = (((rfft v w).re : ℝ) : ℂ) := by
    apply Complex.ext <;> simp [him]
  show (rfft v w ^ (e : ℂ)).im = 0
  rw [this, ← Complex.ofReal_cpow hpos, Complex.ofReal_im]

theorem cpow_add_nonneg (z : ℂ) (a b : ℝ) (ha : 0 ≤ a) (hb : 0 ≤ b) :
    z ^ ((a + b : ℝ) : ℂ) = z ^ (a : ℂ) * z ^ (b : ℂ) := by
  by_cases hz : z = 0
  · subst hz
    rcases ha.eq_or_lt with rfl | ha'
    · simp
    · rcases hb.eq_or_lt with rfl | hb'
      · simp
      · have h1 : ((a + b : ℝ) : ℂ) ≠ 0 := by
          have : a + b ≠ 0 := by linarith
          exact_mod_cast this
        have h2 : (a : ℂ) ≠ 0 := by exact_mod_cast ha'.ne'
        rw [Complex.zero_cpow h1, Complex.zero_cpow h2, zero_mul]
  · rw [Complex.ofReal_add, Complex.cpow_add _ _ hz]

/-- **non-negative real exponents add** for vectors of positive sign (the gate of the code:
fractional exponents are accepted only for positive sign) -/
theorem powFFT_add (v : ZMod N → ℝ) (hv : NonnegSign v) (a b : ℝ) (ha : 0 ≤ a) (hb : 0 ≤ b) :
    convR (powFFT v a) (powFFT v b) = powFFT v (a + b) := by
  unfold powFFT
  rw [← irfft_mul _ _ (admissible_cpow v hv a) (admissible_cpow v hv b)]
  congr 1
  funext w
  exact (cpow_add_nonneg _ a b ha hb).symm

/-! ### general half spectra of modulus one -/

/-- the inverse transform of ANY admissible half spectrum of modulus one is unitary -/
theorem irfft_unit_isUnitary (g : ℕ → ℂ) (adm : Admissible N g) (hu : ∀ w, g w * conj (g w) = 1) :
    convR (irfft g : ZMod N → ℝ) (revR (irfft g)) = deltaR := by
  have admc : Admissible N (fun w => conj (g w)) := fun w hw => by
    rw [Complex.conj_im, adm w hw, neg_zero]
  rw [revR_irfft, ← irfft_mul g _ adm admc]
  have hone : (fun w => g w * conj (g w)) = fun _ => (1 : ℂ) := funext hu
  rw [hone]
  exact irfft_one

/-- `rfft(irfft(h, n))[w] = h[w]` for an admissible half spectrum (`w ≤ N/2`) -/
theorem rfft_irfft (h : ℕ → ℂ) (adm : Admissible N h) (w : ℕ) (hw : 2 * w ≤ N) :
    rfft (irfft h : ZMod N → ℝ) w = h w := by
  show 𝓕 (vc (irfft h : ZMod N → ℝ)) (w : ZMod N) = h w
  rw [dft_irfft, hermExt_natCast h w hw]
  split
  · next hs => apply Complex.ext <;> simp [adm w hs]
  · rfl

/-! ### the DC and Nyquist coefficients are the two real characters -/

theorem rfft_zero (v : ZMod N → ℝ) : rfft v 0 = ((∑ j, v j : ℝ) : ℂ) := by
  unfold rfft
  rw [Nat.cast_zero, dft_apply_zero]
  simp

theorem exp_neg_nat_mul_pi (n : ℕ) : Complex.exp (-((n : ℂ) * (Real.pi * Complex.I))) = (-1) ^ n := by
  rw [Complex.exp_neg, Complex.exp_nat_mul, Complex.exp_pi_mul_I, ← inv_pow]
  norm_num

/-- for even `N = 2m` the Nyquist coefficient is the alternating sum -/
theorem rfft_nyquist (v : ZMod N → ℝ) (m : ℕ) (hm : 2 * m = N) :
    rfft v m = ((∑ j : ZMod N, (-1) ^ j.val * v j : ℝ) : ℂ) := by
  unfold rfft
  rw [dft_apply]
  push_cast
  refine Finset.sum_congr rfl fun j _ => ?_
  rw [smul_eq_mul]
  congr 1
  have hN : (N : ℂ) ≠ 0 := by exact_mod_cast NeZero.ne N
  have hcast : (-(j * (m : ZMod N))) = (((-(j.val * m : ℤ)) : ℤ) : ZMod N) := by
    push_cast
    rw [ZMod.natCast_zmod_val]
  rw [hcast, ZMod.stdAddChar_coe]
  rw [← exp_neg_nat_mul_pi j.val]
  congr 1
  push_cast
  have hm0 : (m : ℂ) ≠ 0 := by
    intro e
    have : m = 0 := by exact_mod_cast e
    subst this
    exact NeZero.ne N (by omega)
  have hNm : (N : ℂ) = 2 * (m : ℂ) := by
    have : (N : ℂ) = ((2 * m : ℕ) : ℂ) := by rw [hm]
    rw [this]; push_cast; ring
  rw [hNm]
  field_simp

end Spectral

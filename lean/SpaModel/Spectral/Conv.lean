/-
Spectral layer, part 2: the convolution theorem on `ZMod N → ℂ` and Hermitian symmetry.
(Mathlib provides the DFT `𝓕` on `ZMod N` as a linear equivalence with its inverse.)
-/
import Mathlib.Analysis.Fourier.ZMod
import Mathlib.Tactic.Ring

open ZMod Finset

namespace Spectral

variable {N : ℕ} [NeZero N]

/-- circular convolution (the published formula of HRR binding) -/
def conv (a b : ZMod N → ℂ) : ZMod N → ℂ := fun i => ∑ j, a j * b (i - j)

/-- the unit of convolution -/
def delta : ZMod N → ℂ := fun i => if i = 0 then 1 else 0

/-- the involution `v[-i]` -/
def rev (a : ZMod N → ℂ) : ZMod N → ℂ := fun i => a (-i)

/-- **convolution theorem** -/
theorem dft_conv (a b : ZMod N → ℂ) (k : ZMod N) : 𝓕 (conv a b) k = 𝓕 a k * 𝓕 b k := by
  simp only [dft_apply, conv, smul_eq_mul]
  rw [Finset.sum_mul_sum]
  simp_rw [Finset.mul_sum]
  rw [Finset.sum_comm]
  refine Finset.sum_congr rfl fun j _ => ?_
  -- substitute i = l + j
  rw [← Equiv.sum_comp (Equiv.addRight j)]
  refine Finset.sum_congr rfl fun l _ => ?_
  simp only [Equiv.coe_addRight, add_sub_cancel_right]
  rw [show -((l + j) * k) = -(j * k) + -(l * k) by ring, AddChar.map_add_eq_mul]
  ring

theorem dft_delta (k : ZMod N) : 𝓕 (delta : ZMod N → ℂ) k = 1 := by
  simp [dft_apply, delta]

/-- two functions with the same transform are equal -/
theorem eq_of_dft_eq {a b : ZMod N → ℂ} (h : ∀ k, 𝓕 a k = 𝓕 b k) : a = b :=
  (dft (N := N) (E := ℂ)).injective (funext h)

theorem dft_rev (a : ZMod N → ℂ) (k : ZMod N) : 𝓕 (rev a) k = 𝓕 a (-k) := by
  have := congrFun (dft_comp_neg a) k
  exact this

/-- transform of the complex conjugate -/
theorem dft_conj (a : ZMod N → ℂ) (k : ZMod N) :
    𝓕 (fun j => (starRingEnd ℂ) (a j)) k = (starRingEnd ℂ) (𝓕 a (-k)) := by
  simp only [dft_apply, smul_eq_mul, map_sum, map_mul]
  refine Finset.sum_congr rfl fun j _ => ?_
  congr 1
  rw [← AddChar.map_neg_eq_conj]
  congr 1
  ring

/-- a real-valued function (`conj a = a`) has a Hermitian transform -/
theorem dft_hermitian_of_real {a : ZMod N → ℂ} (ha : ∀ j, (starRingEnd ℂ) (a j) = a j) (k : ZMod N) :
    𝓕 a (-k) = (starRingEnd ℂ) (𝓕 a k) := by
  have h := dft_conj a (-k)
  simp only [ha, neg_neg] at h
  rw [← h]

/-- the inverse transform of a Hermitian function is real-valued -/
theorem invDFT_real_of_hermitian {H : ZMod N → ℂ} (hH : ∀ k, H (-k) = (starRingEnd ℂ) (H k)) (x : ZMod N) :
    (starRingEnd ℂ) (𝓕⁻ H x) = 𝓕⁻ H x := by
  simp only [invDFT_apply, smul_eq_mul, map_mul, map_sum, map_inv₀, Complex.conj_natCast]
  congr 1
  rw [← Equiv.sum_comp (Equiv.neg (ZMod N))]
  refine Finset.sum_congr rfl fun j _ => ?_
  simp only [Equiv.neg_apply, hH, Complex.conj_conj]
  congr 1
  rw [← AddChar.map_neg_eq_conj]
  congr 1
  ring

/-- **unitarity from the spectrum**: a real-valued `u` all of whose Fourier coefficients have modulus
one satisfies `u ⊛ ~u = δ` -/
theorem conv_rev_eq_delta_of_unit_spectrum {u : ZMod N → ℂ} (hu : ∀ j, (starRingEnd ℂ) (u j) = u j)
    (hm : ∀ k, 𝓕 u k * (starRingEnd ℂ) (𝓕 u k) = 1) : conv u (rev u) = delta := by
  apply eq_of_dft_eq
  intro k
  rw [dft_conv, dft_rev, dft_hermitian_of_real hu, hm, dft_delta]

end Spectral

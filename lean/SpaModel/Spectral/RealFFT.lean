/-
Spectral layer, part 3: NumPy's real FFT pair on the half spectrum.

`rfft v w` (w = 0 … N/2) is the DFT coefficient `Σ_x v[x]·exp(-2πi·w·x/N)`;
`irfft h` (output length N) is NumPy's C2R transform
  `x[j] = (1/N) Σ_{w ≤ N/2} f_w · Re(h[w]·exp(2πi·w·j/N))`,  f_w = 1 for DC/Nyquist, else 2
(the imaginary parts of the DC and Nyquist coefficients do not contribute).
The bridge `irfft h = 𝓕⁻ (hermExt h)` to Mathlib's DFT on `ZMod N` carries the convolution theorem
over to the half-spectrum code path used by `HrrAlgebra`.
-/
import SpaModel.Spectral.Conv
import SpaModel.Spectral.CosSum

open ZMod Finset

namespace Spectral

set_option linter.unusedSectionVars false

variable {N : ℕ} [NeZero N]

local notation "conj" => starRingEnd ℂ

/-- NumPy `rfft`, coefficient `w` -/
noncomputable def rfft (v : ZMod N → ℝ) (w : ℕ) : ℂ := 𝓕 (fun j => (v j : ℂ)) (w : ZMod N)

/-- NumPy `irfft(h, n=N)`, entry `j` -/
noncomputable def irfft (h : ℕ → ℂ) (j : ZMod N) : ℝ :=
  (1 / (N : ℝ)) * ∑ w ∈ range (N / 2 + 1), halfWeight N w * (h w * stdAddChar ((w : ZMod N) * j)).re

/-- the Hermitian extension of a half spectrum to all of `ZMod N` (real parts at the
self-conjugate indices DC and Nyquist) -/
noncomputable def hermExt (h : ℕ → ℂ) (k : ZMod N) : ℂ :=
  if k = -k then ((h k.val).re : ℂ) else if 2 * k.val ≤ N then h k.val else conj (h (N - k.val))

/-! ### index facts -/

theorem natCast_sub_eq_neg (w : ℕ) (hw : w ≤ N) : ((N - w : ℕ) : ZMod N) = -(w : ZMod N) := by
  rw [Nat.cast_sub hw, ZMod.natCast_self, zero_sub]

theorem val_natCast_of_half (w : ℕ) (hw : 2 * w ≤ N) : ((w : ZMod N)).val = w := by
  rcases Nat.lt_or_ge w N with h | h
  · exact ZMod.val_natCast_of_lt h
  · have hN : 0 < N := Nat.pos_of_ne_zero (NeZero.ne N)
    omega

/-- for `2w ≤ N`: the index `w` is self-conjugate iff it is the DC or the Nyquist index -/
theorem selfConj_iff (w : ℕ) (hw : 2 * w ≤ N) : ((w : ZMod N) = -(w : ZMod N)) ↔ (w = 0 ∨ 2 * w = N) := by
  have hN : 0 < N := Nat.pos_of_ne_zero (NeZero.ne N)
  rw [eq_neg_iff_add_eq_zero, ← Nat.cast_add, ZMod.natCast_eq_zero_iff]
  constructor
  · intro h
    rcases Nat.eq_zero_or_pos (w + w) with h0 | hp
    · left; omega
    · right; have := Nat.le_of_dvd hp h; omega
  · rintro (rfl | h)
    · simp
    · rw [show w + w = N by omega]

theorem neg_val_of_ne (k : ZMod N) (hk : k ≠ 0) : (-k).val = N - k.val := by
  rw [ZMod.neg_val, if_neg hk]

/-! ### Hermitian symmetry of the extension -/

theorem hermExt_neg (h : ℕ → ℂ) (k : ZMod N) : hermExt h (-k) = conj (hermExt h k) := by
  by_cases hs : k = -k
  · have h1 : hermExt h k = ((h k.val).re : ℂ) := by unfold hermExt; rw [if_pos hs]
    rw [← hs, h1, Complex.conj_ofReal]
  · unfold hermExt
    · have hs' : ¬ (-k = - -k) := by rw [neg_neg]; exact fun e => hs e.symm
      rw [if_neg hs', if_neg hs]
      have hk0 : k ≠ 0 := by rintro rfl; exact hs (by simp)
      have hv : (-k).val = N - k.val := neg_val_of_ne k hk0
      have hlt : k.val < N := ZMod.val_lt k
      have hpos : 0 < k.val := by
        rcases Nat.eq_zero_or_pos k.val with h0 | hp
        · exact absurd ((ZMod.val_eq_zero k).1 h0) hk0
        · exact hp
      have hne : 2 * k.val ≠ N := by
        intro e
        apply hs
        have := (selfConj_iff (N := N) k.val (by omega)).2 (Or.inr e)
        rwa [ZMod.natCast_zmod_val] at this
      rw [hv]
      by_cases hle : 2 * k.val ≤ N
      · rw [if_pos hle, if_neg (by omega), show N - (N - k.val) = k.val by omega]
      · rw [if_neg hle, if_pos (by omega), Complex.conj_conj]

/-- on the lower half the extension is the half spectrum itself (real part at DC/Nyquist) -/
theorem hermExt_natCast (h : ℕ → ℂ) (w : ℕ) (hw : 2 * w ≤ N) :
    hermExt h (w : ZMod N) = if w = 0 ∨ 2 * w = N then ((h w).re : ℂ) else h w := by
  unfold hermExt
  rw [val_natCast_of_half w hw]
  by_cases hs : w = 0 ∨ 2 * w = N
  · rw [if_pos hs, if_pos ((selfConj_iff w hw).2 hs)]
  · rw [if_neg hs, if_neg (fun e => hs ((selfConj_iff w hw).1 e)), if_pos hw]

/-! ### folding a Hermitian sum onto the half spectrum -/

theorem sum_zmod_eq_sum_range (H : ZMod N → ℂ) : ∑ k, H k = ∑ w ∈ range N, H (w : ZMod N) := by
  obtain ⟨n, rfl⟩ := Nat.exists_eq_succ_of_ne_zero (NeZero.ne N)
  rw [← Fin.sum_univ_eq_sum_range (fun w => H ((w : ℕ) : ZMod (n + 1))) (n + 1)]
  refine Finset.sum_congr rfl fun i _ => ?_
  congr 1
  exact (ZMod.natCast_zmod_val (show ZMod (n + 1) from i)).symm

theorem sum_hermitian_fold (H : ZMod N → ℂ) (hH : ∀ k, H (-k) = conj (H k)) :
    ∑ k, H k = ((∑ w ∈ range (N / 2 + 1), halfWeight N w * (H (w : ZMod N)).re : ℝ) : ℂ) := by
  have hN : 0 < N := Nat.pos_of_ne_zero (NeZero.ne N)
  -- the total is real
  have hreal : conj (∑ k, H k) = ∑ k, H k := by
    rw [map_sum, ← Equiv.sum_comp (Equiv.neg (ZMod N))]
    exact Finset.sum_congr rfl fun k _ => by simp only [Equiv.neg_apply, hH, Complex.conj_conj]
  have hre : ∑ k, H k = (((∑ k, H k).re : ℝ) : ℂ) := (Complex.conj_eq_iff_re.1 hreal).symm
  rw [hre, Complex.re_sum]
  congr 1
  have : ∑ k, (H k).re = ∑ w ∈ range N, (H (w : ZMod N)).re := by
    have := sum_zmod_eq_sum_range (fun k => ((H k).re : ℂ))
    exact_mod_cast this
  rw [this]
  apply sum_range_fold N hN (fun w => (H (w : ZMod N)).re)
  intro w hw
  show (H ((N - w : ℕ) : ZMod N)).re = (H (w : ZMod N)).re
  rw [natCast_sub_eq_neg w hw, hH, Complex.conj_re]

/-- **bridge**: NumPy's `irfft` is the inverse DFT of the Hermitian extension -/
theorem irfft_eq_invDFT (h : ℕ → ℂ) (j : ZMod N) : ((irfft h j : ℝ) : ℂ) = 𝓕⁻ (hermExt h) j := by
  rw [invDFT_apply]
  simp only [smul_eq_mul]
  have hH : ∀ k : ZMod N, stdAddChar (-k * j) * hermExt h (-k) = conj (stdAddChar (k * j) * hermExt h k) := by
    intro k
    rw [map_mul (starRingEnd ℂ), hermExt_neg, ← AddChar.map_neg_eq_conj, neg_mul]
  rw [sum_hermitian_fold (fun k => stdAddChar (k * j) * hermExt h k) hH]
  unfold irfft
  push_cast
  rw [one_div]
  congr 1
  apply Finset.sum_congr rfl
  intro w hw
  have hw2 : 2 * w ≤ N := by
    have := Finset.mem_range.1 hw
    omega
  congr 1
  rw [hermExt_natCast h w hw2]
  by_cases hs : w = 0 ∨ 2 * w = N
  · rw [if_pos hs]
    -- the character is real at a self-conjugate index
    have hχ : (stdAddChar ((w : ZMod N) * j)).im = 0 := by
      have e : (w : ZMod N) = -(w : ZMod N) := (selfConj_iff w hw2).2 hs
      have : conj (stdAddChar ((w : ZMod N) * j)) = stdAddChar ((w : ZMod N) * j) := by
        rw [← AddChar.map_neg_eq_conj, ← neg_mul, ← e]
      exact Complex.conj_eq_iff_im.1 this
    simp only [Complex.mul_re, Complex.ofReal_re, Complex.ofReal_im, hχ]
    ring_nf
  · rw [if_neg hs, mul_comm]

end Spectral

/-
Line-protocol operations on the shared algebra model (used by the drivers of C02, C05,
C07, C08, C12, C17 …).  Pure glue: parsing, calling `Alg.*.Impl.*`, printing.

Vector tokens: comma separated rationals `p/q` (`-` = empty).  Algebra tokens: `hrr`, `vtb`,
`tvtb`.  VTB/TVTB results live in `ℚ(√m)` and are printed as `re` or `re~im` (= re + im·√m).
-/
import SpaModel.Proto
import SpaModel.Basic.Algebra
import SpaModel.Basic.QSqrt

namespace AlgProto
open Alg Proto

/-- a VTB/TVTB vector over `ℚ(√m)` from rational data -/
def v2 (m : ℕ) (l : List Rat) : Vec2 m (QS m) := vec2OfList m (l.map (QS.emb m))

def isqrt? (d : ℕ) : Option ℕ := if Nat.sqrt d * Nat.sqrt d = d then some (Nat.sqrt d) else none

def showMat {α} (f : α → String) (rows : List (List α)) : String :=
  ";".intercalate (rows.map (Proto.showList f))

def rowsOfMat {k : ℕ} {α} (M : Matrix (Fin (k+1)) (Fin (k+1)) α) : List (List α) :=
  List.ofFn fun i => List.ofFn fun j => M i j

def pairs (m : ℕ) : List (Fin m × Fin m) :=
  (List.finRange m).flatMap fun i => (List.finRange m).map fun j => (i, j)

def rowsOfMat2 {m : ℕ} {α} (M : Matrix (Fin m × Fin m) (Fin m × Fin m) α) : List (List α) :=
  (pairs m).map fun p => (pairs m).map fun q => M p q

def errName : BindErr → String
  | .lengthMismatch => "length-mismatch"
  | .notSquare => "not-square"
  | .empty => "empty"

/-- bind on raw sequences, with the checks of the real `bind` -/
def bindAny (alg : String) (a b : List Rat) : Option (Except String String) :=
  match alg with
  | "hrr" => match Hrr.Impl.bindL a b with
      | .ok r => some (.ok (showRatList r))
      | .error e => some (.error (errName e))
  | "vtb" =>
      if b.length ≠ a.length then some (.error "length-mismatch") else
      match isqrt? b.length with
      | none => some (.error "not-square")
      | some m => some (.ok (QS.showList (listOfVec2 (Vtb.Impl.bind (QS.rt m) (v2 m a) (v2 m b)))))
  | "tvtb" =>
      if b.length ≠ a.length then some (.error "length-mismatch") else
      match isqrt? b.length with
      | none => some (.error "not-square")
      | some m => some (.ok (QS.showList (listOfVec2 (Tvtb.Impl.bind (QS.rt m) (v2 m a) (v2 m b)))))
  | _ => none

def matAny (alg : String) (v : List Rat) (swap : Bool) : Option (Except String String) :=
  match alg, v.length with
  | "hrr", k + 1 => some (.ok (showMat showRat (rowsOfMat (Hrr.Impl.bindMat (vecOfList k v) swap))))
  | "vtb", d => match isqrt? d with
      | none => some (.error "not-square")
      | some m => some (.ok (showMat QS.show' (rowsOfMat2 (Vtb.Impl.bindMat (QS.rt m) (v2 m v) swap))))
  | "tvtb", d => match isqrt? d with
      | none => some (.error "not-square")
      | some m => some (.ok (showMat QS.show' (rowsOfMat2 (Tvtb.Impl.bindMat (QS.rt m) (v2 m v) swap))))
  | _, _ => none

def invAny (alg : String) (v : List Rat) : Option (Except String String) :=
  match alg, v.length with
  | "hrr", k + 1 => some (.ok (showRatList (listOfVec (Hrr.Impl.invert (vecOfList k v)))))
  | "vtb", d => match isqrt? d with
      | none => some (.error "not-square")
      | some m => some (.ok (showRatList (listOfVec2 (Vtb.Impl.invert (vec2OfList m v)))))
  | "tvtb", d => match isqrt? d with
      | none => some (.error "not-square")
      | some m => some (.ok (showRatList (listOfVec2 (Tvtb.Impl.invert (vec2OfList m v)))))
  | _, _ => none

def invMatAny (alg : String) (d : ℕ) : Option (Except String String) :=
  match alg, d with
  | "hrr", k + 1 => some (.ok (showMat showRat (rowsOfMat (Hrr.Impl.invMat (R := Rat) k))))
  | "vtb", d => match isqrt? d with
      | none => some (.error "not-square")
      | some m => some (.ok (showMat showRat (rowsOfMat2 (Vtb.Impl.invMat (R := Rat) m))))
  | "tvtb", d => match isqrt? d with
      | none => some (.error "not-square")
      | some m => some (.ok (showMat showRat (rowsOfMat2 (Tvtb.Impl.invMat (R := Rat) m))))
  | _, _ => none

/-- operations shared by the algebra drivers -/
def handle (op : String) (args : List String) : Option (Except String String) :=
  match op, args with
  | "bind", [alg, a, b] => do bindAny alg (← parseRatList a) (← parseRatList b)
  | "mat", [alg, v, sw] => do matAny alg (← parseRatList v) (← parseBool sw)
  | "inv", [alg, v] => do invAny alg (← parseRatList v)
  | "invmat", [alg, d] => do invMatAny alg (← d.toNat?)
  | "sup", [a, b] => do
      let a ← parseRatList a
      let b ← parseRatList b
      if a.length ≠ b.length then none else
      some (.ok (showRatList (List.zipWith (· + ·) a b)))
  | "valid", [d] => do some (.ok (showBool (Alg.Impl.isValidDim (← d.toInt?))))
  | _, _ => none

end AlgProto

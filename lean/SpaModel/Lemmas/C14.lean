/-
C14 — helper lemmas: the abstraction from the implementation's world (class attributes with object
identities) to the lexical specification state, and the step-wise simulation facts.
-/
import SpaModel.Basic.C14

namespace C14
open Impl

/-- forget object identities: what is left of a world is the number of free-floating routes and the
block objects -/
def abs (w : World) : Spec.St := ⟨w.g.freeFloating.length, w.blocks⟩

/-- The three class attributes agree with the lexical position `ctx` (the block whose `with` body is
being executed, if any): `active` is that block, `routed_mode` is on exactly inside, outside nothing
floats; every floating object is one that was created (identity below the counter). -/
structure Rel (ctx : Option Nat) (w : World) : Prop where
  active : w.g.active = ctx
  routed : w.g.routedMode = ctx.isSome
  fresh : ∀ c ∈ w.g.freeFloating, c.id < w.nextConn
  top : ctx = none → w.g.freeFloating = []

def bOf : Option Conn → Option Bool := Option.map (·.buildable)

theorem evalRoute_refines {ctx : Option Nat} {w : World} (h : Rel ctx w) (k : RouteKind) :
    abs (evalRoute w k).1 = (Spec.evalRoute ctx (abs w) k).1 ∧
    Except.map bOf (evalRoute w k).2 = (Spec.evalRoute ctx (abs w) k).2 ∧
    Rel ctx (evalRoute w k).1 ∧
    (evalRoute w k).1.blocks = w.blocks ∧
    w.nextConn ≤ (evalRoute w k).1.nextConn ∧
    (∀ v, (evalRoute w k).2 = .ok v →
      (evalRoute w k).1.g.freeFloating = v.toList ++ w.g.freeFloating ∧
      ∀ c ∈ v.toList, w.nextConn ≤ c.id) := by
  obtain ⟨ha, hr, hf, ht⟩ := h
  cases ctx with
  | none =>
    have hr' : w.g.routedMode = false := by simpa using hr
    cases k <;> simp [evalRoute, Spec.evalRoute, hr', abs, Except.map, bOf] <;>
      exact ⟨ha, by simp [hr], hf, ht⟩
  | some a =>
    have hr' : w.g.routedMode = true := by simpa using hr
    cases k <;> simp [evalRoute, Spec.evalRoute, hr', abs, Except.map, bOf]
    all_goals first
      | exact ⟨ha, by simpa using hr, hf, ht⟩
      | (refine ⟨ha, by simpa using hr, ?_, by simp⟩
         intro c hc
         simp at hc
         rcases hc with rfl | hc
         · simp
         · exact Nat.lt_succ_of_lt (hf c hc))

theorem routeObs_refines (w : World) (v : Except Exc (Option Conn)) :
    routeObs w v = Spec.routeObs (abs w) (Except.map bOf v) := by
  cases v with
  | error e => rfl
  | ok c => cases c <;> rfl


def bOfs : List (Option Conn) → List (Option Bool) := List.map bOf

theorem evalEffs_refines {ctx : Option Nat} (effs : List Eff) : ∀ {w : World}, Rel ctx w →
    abs (evalEffs w effs).1 = (Spec.evalEffs ctx (abs w) effs).1 ∧
    Except.map bOfs (evalEffs w effs).2.1 = (Spec.evalEffs ctx (abs w) effs).2.1 ∧
    (evalEffs w effs).2.2 = (Spec.evalEffs ctx (abs w) effs).2.2 ∧
    Rel ctx (evalEffs w effs).1 ∧
    (evalEffs w effs).1.blocks = w.blocks ∧
    w.nextConn ≤ (evalEffs w effs).1.nextConn ∧
    (∀ vals, (evalEffs w effs).2.1 = .ok vals →
      (evalEffs w effs).1.g.freeFloating = (vals.filterMap id).reverse ++ w.g.freeFloating ∧
      ∀ c ∈ vals.filterMap id, w.nextConn ≤ c.id) := by
  induction effs with
  | nil => intro w h; simp [evalEffs, Spec.evalEffs, Except.map, bOfs, h]
  | cons e es ih =>
    intro w h
    cases e with
    | other =>
      have := ih h
      obtain ⟨h1, h2, h3, h4, h5, h6, h7⟩ := this
      simp only [evalEffs, Spec.evalEffs]
      rcases hI : evalEffs w es with ⟨w', v, o⟩
      rcases hS : Spec.evalEffs ctx (abs w) es with ⟨s', v', o'⟩
      simp only [hI, hS] at h1 h2 h3 h4 h5 h6 h7
      cases v with
      | error e =>
        cases v' with
        | error e' => simp_all [Except.map]
        | ok _ => simp [Except.map] at h2
      | ok vs =>
        cases v' with
        | error e' => simp [Except.map] at h2
        | ok vs' =>
          simp [Except.map] at h2
          have := h7 vs rfl
          simp_all [Except.map, bOfs, bOf]
    | route k =>
      obtain ⟨r1, r2, r3, r4, r5, r6⟩ := evalRoute_refines h k
      simp only [evalEffs, Spec.evalEffs]
      rcases hI : evalRoute w k with ⟨w1, v⟩
      rcases hS : Spec.evalRoute ctx (abs w) k with ⟨s1, v'⟩
      simp only [hI, hS] at r1 r2 r3 r4 r5 r6
      cases v with
      | error e =>
        cases v' with
        | ok _ => simp [Except.map] at r2
        | error e' =>
          simp [Except.map] at r2
          subst r2
          have := routeObs_refines w1 (.error e)
          simp_all [Except.map]
      | ok c =>
        cases v' with
        | error _ => simp [Except.map] at r2
        | ok c' =>
          simp [Except.map] at r2
          subst r2
          have hobs := routeObs_refines w1 (.ok c)
          obtain ⟨h1, h2, h3, h4, h5, h6, h7⟩ := ih r3
          rw [r1] at h1 h2 h3
          obtain ⟨r6a, r6b⟩ := r6 c rfl
          rcases hI2 : evalEffs w1 es with ⟨w2, v2, o2⟩
          rcases hS2 : Spec.evalEffs ctx s1 es with ⟨s2, v2', o2'⟩
          simp only [hI2, hS2] at h1 h2 h3 h4 h5 h6 h7
          have hle : w.nextConn ≤ w2.nextConn := Nat.le_trans r5 h6
          have hobs' : routeObs w1 (Except.ok c) = Spec.routeObs s1 (Except.ok (bOf c)) := by
            rw [hobs, r1]; rfl
          cases v2 with
          | error e =>
            cases v2' with
            | ok _ => simp [Except.map] at h2
            | error e' =>
              simp [Except.map] at h2
              subst h2
              simp only [hI2, hS2]
              refine ⟨h1, rfl, ?_, h4, h5.trans r4, hle, ?_⟩
              · rw [hobs', h3]
              · intro vals hv; cases hv
          | ok vs =>
            cases v2' with
            | error _ => simp [Except.map] at h2
            | ok vs' =>
              simp [Except.map] at h2
              subst h2
              obtain ⟨h7a, h7b⟩ := h7 vs rfl
              simp only [hI2, hS2]
              refine ⟨h1, ?_, ?_, h4, h5.trans r4, hle, ?_⟩
              · simp [Except.map, bOfs]
              · rw [hobs', h3]
              · intro vals hv
                injection hv with hv
                subst hv
                cases c with
                | none =>
                  simp at r6a
                  refine ⟨by simpa [r6a] using h7a, ?_⟩
                  intro c1 hc1
                  have := h7b c1 (by simpa using hc1)
                  omega
                | some c0 =>
                  simp at r6a r6b
                  refine ⟨by simp [h7a, r6a], ?_⟩
                  intro c1 hc1
                  simp at hc1
                  rcases hc1 with rfl | hc1
                  · exact r6b
                  · have := h7b c1 (by simpa using hc1)
                    omega

/-- `difference_update` with the effects an `ifmax` was just given removes exactly those: they are new
objects, everything that floated before is older. -/
theorem filter_claimed (news ff0 : List Conn) (n0 : Nat)
    (hold : ∀ c ∈ ff0, c.id < n0) (hnew : ∀ c ∈ news, n0 ≤ c.id) :
    (news.reverse ++ ff0).filter (fun c => !(news.any (fun d => d.id == c.id))) = ff0 := by
  rw [List.filter_append]
  have h1 : news.reverse.filter (fun c => !(news.any (fun d => d.id == c.id))) = [] := by
    rw [List.filter_eq_nil_iff]
    intro c hc
    simp only [List.mem_reverse] at hc
    simp only [Bool.not_eq_true, Bool.not_eq_false', List.any_eq_true]
    simp
    exact ⟨c, hc, rfl⟩
  have h2 : ff0.filter (fun c => !(news.any (fun d => d.id == c.id))) = ff0 := by
    rw [List.filter_eq_self]
    intro c hc
    simp
    intro d hd hid
    have := hold c hc
    have := hnew d hd
    omega
  rw [h1, h2]; rfl


theorem bOfs_filterMap (vals : List (Option Conn)) :
    (bOfs vals).filterMap id = (vals.filterMap id).map (·.buildable) := by
  induction vals with
  | nil => rfl
  | cons v vs ih => cases v <;> simp_all [bOfs, bOf]

theorem bOfs_any_none (vals : List (Option Conn)) :
    (bOfs vals).any Option.isNone = vals.any Option.isNone := by
  induction vals with
  | nil => rfl
  | cons v vs ih => cases v <;> simp_all [bOfs, bOf]

theorem ifmaxCall_refines {ctx : Option Nat} {w0 w1 : World} (h1 : Rel ctx w1)
    (vals : List (Option Conn))
    (hff : w1.g.freeFloating = (vals.filterMap id).reverse ++ w0.g.freeFloating)
    (hold : ∀ c ∈ w0.g.freeFloating, c.id < w0.nextConn)
    (hnew : ∀ c ∈ vals.filterMap id, w0.nextConn ≤ c.id)
    (name : Option String) (c : Cond) :
    abs (ifmaxCall w1 name c vals).1 = (Spec.ifmaxCall ctx (abs w0) (abs w1) name c (bOfs vals)).1 ∧
    (ifmaxCall w1 name c vals).2 = (Spec.ifmaxCall ctx (abs w0) (abs w1) name c (bOfs vals)).2 ∧
    Rel ctx (ifmaxCall w1 name c vals).1 := by
  unfold ifmaxCall Spec.ifmaxCall
  by_cases hm : c = .missing
  · simp [hm, h1]
  by_cases hu : c = .unregistered
  · simp [hu, h1]
  simp only [hm, hu, if_false]
  obtain ⟨ha, hr, hf, ht⟩ := h1
  rw [ha]
  cases ctx with
  | none => exact ⟨rfl, rfl, ha, hr, hf, ht⟩
  | some a =>
    dsimp only
    by_cases hp : c = .pointer
    · simp [hp]; exact ⟨ha, hr, hf, ht⟩
    simp only [hp, if_false, bOfs_any_none]
    by_cases hn : vals.any Option.isNone = true
    · simp [hn]; exact ⟨ha, hr, hf, ht⟩
    simp only [hn]
    have hfil := filter_claimed (vals.filterMap id) w0.g.freeFloating w0.nextConn hold hnew
    refine ⟨?_, rfl, ?_⟩
    · simp only [abs, addAction, hff, hfil, bOfs_filterMap]
      rfl
    · refine ⟨ha, hr, ?_, by intro h; cases h⟩
      intro c0 hc0
      simp only [addAction] at hc0
      exact hf c0 (List.mem_filter.1 hc0).1

theorem enter_refines_top {w : World} (h : Rel none w) (id : Nat) (hb : (w.blocks id).built = false) :
    (enter w id).2 = none ∧ Rel (some id) (enter w id).1 ∧
    abs (enter w id).1 = { abs w with floating := 0 } := by
  obtain ⟨ha, hr, hf, ht⟩ := h
  simp [enter, hb, ha]
  refine ⟨⟨rfl, rfl, hf, by intro h; cases h⟩, ?_⟩
  simp [abs, ht rfl]

theorem exit_refines {w : World} {id0 : Nat} (h : Rel (some id0) w) (id : Nat) (exc : Option Exc) :
    abs (exit w id exc).1 = (Spec.finish (abs w) id exc).1 ∧
    (exit w id exc).2 = (Spec.finish (abs w) id exc).2 ∧
    Rel none (exit w id exc).1 := by
  cases exc with
  | some e =>
    simp [exit, Spec.finish, abs]
    exact ⟨rfl, rfl, by simp, by simp⟩
  | none =>
    simp only [exit, build, Spec.finish, abs]
    by_cases h1 : w.g.freeFloating.length > 0
    · simp [h1]; exact ⟨rfl, rfl, by simp, by simp⟩
    simp only [h1, if_false]
    by_cases h2 : (w.blocks id).utilities = 0
    · simp [h2]; exact ⟨rfl, rfl, by simp, by simp⟩
    simp only [Nat.le_zero_eq, h2, if_false]
    by_cases h3 : (w.blocks id).actions.any (fun effs => effs.any (fun ok => !ok)) = true
    · simp [h3]; exact ⟨rfl, rfl, by simp, by simp⟩
    simp [h3]; exact ⟨rfl, rfl, by simp, by simp⟩

/-- whatever the state, `__exit__` leaves the three class attributes clean -/
theorem exit_clean (w : World) (id : Nat) (exc : Option Exc) :
    (exit w id exc).1.g = Globals.clean := by
  cases exc with
  | some e => rfl
  | none =>
    simp only [exit, build]
    split
    · rfl
    · split
      · rfl
      · split <;> rfl


/-! facts about the specification used for `built` -/

theorem spec_evalRoute_blocks (ctx : Option Nat) (s : Spec.St) (k : RouteKind) :
    (Spec.evalRoute ctx s k).1.blocks = s.blocks := by
  cases ctx <;> cases k <;> rfl

theorem spec_evalEffs_blocks (ctx : Option Nat) (effs : List Eff) : ∀ (s : Spec.St),
    (Spec.evalEffs ctx s effs).1.blocks = s.blocks := by
  induction effs with
  | nil => intro s; rfl
  | cons e es ih =>
    intro s
    cases e with
    | other =>
      have := ih s
      simp only [Spec.evalEffs]
      rcases h : Spec.evalEffs ctx s es with ⟨s', v, o⟩
      rw [h] at this
      cases v <;> exact this
    | route k =>
      have h1 := spec_evalRoute_blocks ctx s k
      simp only [Spec.evalEffs]
      rcases h : Spec.evalRoute ctx s k with ⟨s1, v⟩
      rw [h] at h1
      cases v with
      | error e => exact h1
      | ok c =>
        have h2 := ih s1
        dsimp only
        rcases h' : Spec.evalEffs ctx s1 es with ⟨s2, v2, o2⟩
        rw [h'] at h2
        cases v2 <;> exact h2.trans h1

theorem spec_ifmaxCall_built (ctx : Option Nat) (s0 s : Spec.St) (name : Option String) (c : Cond)
    (vals : List (Option Bool)) (j : Nat) :
    ((Spec.ifmaxCall ctx s0 s name c vals).1.blocks j).built = (s.blocks j).built := by
  unfold Spec.ifmaxCall
  split
  · rfl
  · split
    · rfl
    · split
      · rfl
      · split
        · rfl
        · split
          · rfl
          · simp only [setBlock]
            split
            · next h => subst h; rfl
            · rfl

/-- inside a block nothing gets built: a nested `with` fails before it starts, `ifmax` only appends -/
theorem spec_built_unchanged_inside (p : Prog) : ∀ (a : Nat) (s : Spec.St) (j : Nat),
    ((Spec.exec (some a) s p).st.blocks j).built = (s.blocks j).built := by
  induction p with
  | done => intro a s j; rfl
  | raise n rest _ => intro a s j; rfl
  | route k rest ih =>
    intro a s j
    have h1 := spec_evalRoute_blocks (some a) s k
    simp only [Spec.exec]
    rcases h : Spec.evalRoute (some a) s k with ⟨s1, v⟩
    rw [h] at h1
    cases v with
    | error e => exact congrArg (fun b => (b j).built) h1
    | ok c => exact (ih a s1 j).trans (congrArg (fun b => (b j).built) h1)
  | ifmax name c effs rest ih =>
    intro a s j
    have h1 := spec_evalEffs_blocks (some a) effs s
    simp only [Spec.exec]
    rcases h : Spec.evalEffs (some a) s effs with ⟨s1, v, o⟩
    rw [h] at h1
    cases v with
    | error e => exact congrArg (fun b => (b j).built) h1
    | ok vals =>
      have h2 := spec_ifmaxCall_built (some a) s s1 name c vals j
      dsimp only
      rcases h' : Spec.ifmaxCall (some a) s s1 name c vals with ⟨s2, r⟩
      rw [h'] at h2
      have h12 : (s2.blocks j).built = (s.blocks j).built :=
        h2.trans (congrArg (fun b => (b j).built) h1)
      cases r with
      | some e => exact h12
      | none => exact (ih a s2 j).trans h12
  | attempt body rest ihb ihr =>
    intro a s j
    simp only [Spec.exec]
    exact (ihr a _ j).trans (ihb a s j)
  | block id body rest _ _ =>
    intro a s j
    simp only [Spec.exec]
    split <;> rfl

/-! dictionaries and the bookkeeping of `add_action` -/

theorem dictGet_dictSet {κ ν : Type} [DecidableEq κ] (m : List (κ × ν)) (k k' : κ) (v : ν) :
    dictGet (dictSet m k v) k' = if k' = k then some v else dictGet m k' := by
  induction m with
  | nil => simp [dictSet, dictGet, eq_comm]
  | cons p t ih =>
    obtain ⟨a, b⟩ := p
    simp only [dictSet]
    by_cases h : a = k
    · subst h
      by_cases h' : a = k' <;> simp [dictGet, h', eq_comm]
      intro h''; exact absurd h''.symm h'
    · simp only [h, if_false, dictGet]
      by_cases h' : a = k'
      · subst h'; simp [h]
      · simp [h', ih]

theorem mem_dictSet {κ ν : Type} [DecidableEq κ] (d : List (κ × ν)) (k : κ) (v : ν)
    (hnd : (d.map Prod.fst).Nodup) (n : κ) (i : ν) :
    (n, i) ∈ dictSet d k v ↔ (n = k ∧ i = v) ∨ (n ≠ k ∧ (n, i) ∈ d) := by
  induction d with
  | nil => simp [dictSet]
  | cons p t ih =>
    obtain ⟨a, b⟩ := p
    simp only [List.map_cons, List.nodup_cons] at hnd
    obtain ⟨hat, hnt⟩ := hnd
    simp only [dictSet]
    by_cases h : a = k
    · subst h
      simp only [if_true, List.mem_cons, Prod.mk.injEq]
      constructor
      · rintro (⟨rfl, rfl⟩ | h)
        · exact Or.inl ⟨rfl, rfl⟩
        · refine Or.inr ⟨?_, Or.inr h⟩
          rintro rfl
          exact hat (List.mem_map.2 ⟨(n, i), h, rfl⟩)
      · rintro (⟨rfl, rfl⟩ | ⟨hne, (⟨rfl, rfl⟩ | h)⟩)
        · exact Or.inl ⟨rfl, rfl⟩
        · exact absurd rfl hne
        · exact Or.inr h
    · simp only [h, if_false, List.mem_cons, Prod.mk.injEq, ih hnt]
      constructor
      · rintro (⟨rfl, rfl⟩ | h')
        · exact Or.inr ⟨h, Or.inl ⟨rfl, rfl⟩⟩
        · rcases h' with h' | ⟨h1, h2⟩
          · exact Or.inl h'
          · exact Or.inr ⟨h1, Or.inr h2⟩
      · rintro (h' | ⟨h1, (h2 | h2)⟩)
        · exact Or.inr (Or.inl h')
        · exact Or.inl h2
        · exact Or.inr (Or.inr ⟨h1, h2⟩)

theorem keys_dictSet {κ ν : Type} [DecidableEq κ] (d : List (κ × ν)) (k : κ) (v : ν)
    (hnd : (d.map Prod.fst).Nodup) : ((dictSet d k v).map Prod.fst).Nodup := by
  induction d with
  | nil => simp [dictSet]
  | cons p t ih =>
    obtain ⟨a, b⟩ := p
    simp only [List.map_cons, List.nodup_cons] at hnd
    obtain ⟨hat, hnt⟩ := hnd
    simp only [dictSet]
    by_cases h : a = k
    · simp [h, List.nodup_cons, hnt]; subst h; simpa using hat
    · simp only [h, if_false, List.map_cons, List.nodup_cons]
      refine ⟨?_, ih hnt⟩
      intro hm
      obtain ⟨⟨n, i⟩, hmem, rfl⟩ := List.mem_map.1 hm
      rcases (mem_dictSet t k v hnt n i).1 hmem with ⟨rfl, _⟩ | ⟨_, h2⟩
      · exact h rfl
      · exact hat (List.mem_map.2 ⟨(n, i), h2, rfl⟩)

/-- building the reverse dictionary: if at most one entry has value `i` … -/
theorem dictGet_idx2name_aux (d : List (String × Nat)) (i : Nat) :
    ∀ (m : List (Nat × String)),
    (∀ n n', (n, i) ∈ d → (n', i) ∈ d → n = n') →
    (∀ n, (n, i) ∈ d → dictGet (d.foldl (fun m p => dictSet m p.2 p.1) m) i = some n) ∧
    ((∀ n, (n, i) ∉ d) → dictGet (d.foldl (fun m p => dictSet m p.2 p.1) m) i = dictGet m i) := by
  induction d with
  | nil => intro m _; simp
  | cons p t ih =>
    obtain ⟨n0, j⟩ := p
    intro m hfun
    have hfun' : ∀ n n', (n, i) ∈ t → (n', i) ∈ t → n = n' :=
      fun n n' h h' => hfun n n' (List.mem_cons_of_mem _ h) (List.mem_cons_of_mem _ h')
    obtain ⟨ih1, ih2⟩ := ih (dictSet m j n0) hfun'
    simp only [List.foldl_cons]
    constructor
    · intro n hn
      by_cases hex : ∃ n', (n', i) ∈ t
      · obtain ⟨n', hn'⟩ := hex
        have : n = n' := hfun n n' hn (List.mem_cons_of_mem _ hn')
        subst this
        exact ih1 n hn'
      · have hno : ∀ n', (n', i) ∉ t := fun n' h => hex ⟨n', h⟩
        rw [ih2 hno, dictGet_dictSet]
        simp only [List.mem_cons, Prod.mk.injEq] at hn
        rcases hn with ⟨rfl, rfl⟩ | hn
        · simp
        · exact absurd hn (hno n)
    · intro hno
      have hno' : ∀ n', (n', i) ∉ t := fun n' h => hno n' (List.mem_cons_of_mem _ h)
      rw [ih2 hno', dictGet_dictSet]
      have : i ≠ j := by
        rintro rfl
        exact hno n0 (List.mem_cons_self ..)
      simp [this]


/-- `b` is what `names.length` successive `add_action` calls with these names produce (bookkeeping
part): as many utilities and actions as names, and `name2idx` holds exactly the pairs (name, position of
the last action carrying that name). -/
structure Declared (names : List (Option String)) (b : Block) : Prop where
  utils : b.utilities = names.length
  acts : b.actions.length = names.length
  nodup : (b.name2idx.map Prod.fst).Nodup
  entries : ∀ n i, (n, i) ∈ b.name2idx ↔ (names[i]? = some (some n) ∧ some n ∉ names.drop (i + 1))

theorem declared_fresh : Declared [] Block.fresh :=
  ⟨rfl, rfl, by simp [Block.fresh], by simp [Block.fresh]⟩

theorem declared_addAction {names : List (Option String)} {b : Block} (h : Declared names b)
    (x : Option String) (effs : List Bool) : Declared (names ++ [x]) (b.addAction x effs) := by
  obtain ⟨hu, ha, hnd, hent⟩ := h
  refine ⟨by simp [Block.addAction, hu], by simp [Block.addAction, ha], ?_, ?_⟩
  · cases x with
    | none => exact hnd
    | some m => exact keys_dictSet _ _ _ hnd
  · intro n i
    have hlt : i < names.length ∨ i = names.length ∨ names.length < i := by omega
    have hcore : (n, i) ∈ (b.addAction x effs).name2idx ↔
        ((x = some n ∧ i = names.length) ∨ (x ≠ some n ∧ (n, i) ∈ b.name2idx)) := by
      cases x with
      | none => simp [Block.addAction]
      | some m =>
        simp only [Block.addAction, mem_dictSet _ _ _ hnd, ha]
        constructor
        · rintro (⟨rfl, rfl⟩ | ⟨h1, h2⟩)
          · exact Or.inl ⟨rfl, rfl⟩
          · exact Or.inr ⟨fun h => h1 (Option.some.inj h).symm, h2⟩
        · rintro (⟨h1, rfl⟩ | ⟨h1, h2⟩)
          · exact Or.inl ⟨(Option.some.inj h1).symm, rfl⟩
          · exact Or.inr ⟨fun h => h1 (by rw [h]), h2⟩
    rw [hcore, hent]
    rcases hlt with hlt | rfl | hlt
    · have h1 : (names ++ [x])[i]? = names[i]? := List.getElem?_append_left hlt
      have h2 : (names ++ [x]).drop (i + 1) = names.drop (i + 1) ++ [x] :=
        List.drop_append_of_le_length (by omega)
      rw [h1, h2]
      simp only [List.mem_append, List.mem_singleton, not_or]
      constructor
      · rintro (⟨_, rfl⟩ | ⟨h3, h4, h5⟩)
        · omega
        · exact ⟨h4, h5, fun h => h3 h.symm⟩
      · rintro ⟨h4, h5, h3⟩
        exact Or.inr ⟨fun h => h3 h.symm, h4, h5⟩
    · have h1 : (names ++ [x])[names.length]? = some x := by simp
      have h2 : (names ++ [x]).drop (names.length + 1) = [] := by simp
      have h3 : names[names.length]? = none := by simp
      rw [h1, h2, h3]
      simp
    · have h1 : (names ++ [x])[i]? = none := by
        rw [List.getElem?_eq_none_iff]; simp; omega
      have h3 : names[i]? = none := by
        rw [List.getElem?_eq_none_iff]; omega
      rw [h1, h3]
      simp
      omega

theorem declared_declare_aux (xs : List (Option String)) : ∀ (names : List (Option String)) (b : Block),
    Declared names b → Declared (names ++ xs) (xs.foldl (fun b n => b.addAction n []) b) := by
  induction xs with
  | nil => intro names b h; simpa using h
  | cons x xs ih =>
    intro names b h
    have := ih (names ++ [x]) (b.addAction x []) (declared_addAction h x [])
    simpa using this

theorem declared_declare (names : List (Option String)) : Declared names (declare names) := by
  simpa [declare] using declared_declare_aux names [] Block.fresh declared_fresh


theorem dictGet_of_mem {κ ν : Type} [DecidableEq κ] (d : List (κ × ν)) (hnd : (d.map Prod.fst).Nodup)
    (k : κ) (v : ν) (h : (k, v) ∈ d) : dictGet d k = some v := by
  induction d with
  | nil => cases h
  | cons p t ih =>
    obtain ⟨a, b⟩ := p
    simp only [List.map_cons, List.nodup_cons] at hnd
    simp only [List.mem_cons, Prod.mk.injEq] at h
    rcases h with ⟨rfl, rfl⟩ | h
    · simp [dictGet]
    · have : a ≠ k := by
        rintro rfl
        exact hnd.1 (List.mem_map.2 ⟨(a, v), h, rfl⟩)
      simp [dictGet, this, ih hnd.2 h]

theorem dictGet_none_of_not_mem {κ ν : Type} [DecidableEq κ] (d : List (κ × ν)) (k : κ)
    (h : ∀ v, (k, v) ∉ d) : dictGet d k = none := by
  induction d with
  | nil => rfl
  | cons p t ih =>
    obtain ⟨a, b⟩ := p
    have : a ≠ k := by
      rintro rfl
      exact h b (List.mem_cons_self ..)
    simp only [dictGet, this, if_false]
    exact ih (fun v hv => h v (List.mem_cons_of_mem _ hv))

/-- every block object is the result of some sequence of declarations -/
def AllDeclared (bs : Nat → Block) : Prop := ∀ j, ∃ names, Declared names (bs j)

theorem allDeclared_setBlock {bs : Nat → Block} (h : AllDeclared bs) (a : Nat) (b : Block)
    (hb : ∃ names, Declared names b) : AllDeclared (setBlock bs a b) := by
  intro j
  simp only [setBlock]
  split
  · exact hb
  · exact h j

theorem spec_ifmaxCall_declared (ctx : Option Nat) (s0 s : Spec.St) (name : Option String) (c : Cond)
    (vals : List (Option Bool)) (h : AllDeclared s.blocks) :
    AllDeclared (Spec.ifmaxCall ctx s0 s name c vals).1.blocks := by
  unfold Spec.ifmaxCall
  split
  · exact h
  · split
    · exact h
    · split
      · exact h
      · split
        · exact h
        · split
          · exact h
          · next a _ _ =>
            obtain ⟨names, hn⟩ := h a
            exact allDeclared_setBlock h a _ ⟨_, declared_addAction hn name _⟩

theorem spec_finish_declared (s : Spec.St) (id : Nat) (exc : Option Exc) (h : AllDeclared s.blocks) :
    AllDeclared (Spec.finish s id exc).1.blocks := by
  unfold Spec.finish
  cases exc with
  | some e => exact h
  | none =>
    dsimp only
    split
    · exact h
    · split
      · exact h
      · split
        · exact h
        · obtain ⟨names, hn⟩ := h id
          exact allDeclared_setBlock h id _ ⟨names, ⟨hn.utils, hn.acts, hn.nodup, hn.entries⟩⟩

theorem spec_exec_declared (p : Prog) : ∀ (ctx : Option Nat) (s : Spec.St), AllDeclared s.blocks →
    AllDeclared (Spec.exec ctx s p).st.blocks := by
  induction p with
  | done => intro ctx s h; exact h
  | raise n rest _ => intro ctx s h; exact h
  | route k rest ih =>
    intro ctx s h
    have h1 := spec_evalRoute_blocks ctx s k
    simp only [Spec.exec]
    rcases hr : Spec.evalRoute ctx s k with ⟨s1, v⟩
    rw [hr] at h1
    have hs1 : AllDeclared s1.blocks := by rw [h1]; exact h
    cases v with
    | error e => exact hs1
    | ok c => exact ih ctx s1 hs1
  | ifmax name c effs rest ih =>
    intro ctx s h
    have h1 := spec_evalEffs_blocks ctx effs s
    simp only [Spec.exec]
    rcases hr : Spec.evalEffs ctx s effs with ⟨s1, v, o⟩
    rw [hr] at h1
    have hs1 : AllDeclared s1.blocks := by rw [h1]; exact h
    cases v with
    | error e => exact hs1
    | ok vals =>
      have h2 := spec_ifmaxCall_declared ctx s s1 name c vals hs1
      dsimp only
      rcases hc : Spec.ifmaxCall ctx s s1 name c vals with ⟨s2, r⟩
      rw [hc] at h2
      cases r with
      | some e => exact h2
      | none => exact ih ctx s2 h2
  | attempt body rest ihb ihr =>
    intro ctx s h
    simp only [Spec.exec]
    exact ihr ctx _ (ihb ctx s h)
  | block id body rest ihb ihr =>
    intro ctx s h
    simp only [Spec.exec]
    split
    · exact h
    · cases ctx with
      | some a => exact h
      | none =>
        dsimp only
        have hb := ihb (some id) { s with floating := 0 } h
        have hf := spec_finish_declared _ id (Spec.exec (some id) { s with floating := 0 } body).exc hb
        rcases hfin : Spec.finish (Spec.exec (some id) { s with floating := 0 } body).st id
          (Spec.exec (some id) { s with floating := 0 } body).exc with ⟨s3, r3⟩
        rw [hfin] at hf
        cases r3 with
        | some e => exact hf
        | none => exact ihr none s3 hf

end C14

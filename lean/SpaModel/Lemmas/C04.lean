/-
C04 — helper lemmas (core Lean only): the gate dictionary, the running-offset
slices of the neuron input, neuron counts of the channel ensembles, and sums.
-/
import SpaModel.Basic.C04

namespace C04
open Impl

/-! ### sums -/

theorem sum_replicate_nat (n x : Nat) : (List.replicate n x).sum = n * x := by
  induction n with
  | zero => simp
  | succ n ih => simp [List.replicate_succ, ih, Nat.succ_mul, Nat.add_comm]

theorem rat_sum_cons (x : Rat) (l : List Rat) : (x :: l).sum = x + l.sum := by simp

theorem rat_sum_zeros (l : List α) : (l.map (fun _ => (0 : Rat))).sum = 0 := by
  induction l with
  | nil => simp
  | cons x xs ih => simp only [List.map_cons, List.sum_cons, ih]; grind

/-! ### the gate dictionary -/

/-- the gate `construct_gate(index, …)` makes in thalamus state `st` -/
def mkGate (P : Params) (index : Nat) (st : Thal) : Gate :=
  { gid := st.created, label := index, biasW := 1, unit := index, unitW := -1,
    threshold := P.thresholdGate }

/-- the thalamus state after `construct_gate(index, …)` -/
def stAfter (P : Params) (index : Nat) (st : Thal) : Thal :=
  { st with gates := (index, mkGate P index st) :: st.gates, created := st.created + 1 }

theorem constructGate_ok (P : Params) (index : Nat) (st : Thal) (h : index < st.actionCount) :
    constructGate P index st = .ok (mkGate P index st, stAfter P index st) := by
  simp [constructGate, h, mkGate, stAfter]

/-- `self.gates[index]` right after `construct_gate(index, …)` is the gate just made -/
theorem lookupGate_head (index : Nat) (g : Gate) (rest : List (Nat × Gate)) :
    lookupGate ((index, g) :: rest) index = .ok g := by
  simp [lookupGate]

/-! ### neuron counts of the channel -/

theorem stateEnsembles_ok (cfg : ChanCfg) (d : Nat) (hs : 0 < cfg.sub) (hd : d % cfg.sub = 0) :
    stateEnsembles cfg d = .ok (
      if cfg.ccIdentity then
        [cfg.npd]
          ++ (if cfg.sub > 1 then [cfg.npd * (cfg.sub - 1)] else [])
          ++ (if d > cfg.sub then List.replicate (d / cfg.sub - 1) (cfg.npd * cfg.sub) else [])
      else List.replicate (d / cfg.sub) (cfg.npd * cfg.sub)) := by
  have : ¬ (cfg.sub = 0 ∨ d % cfg.sub ≠ 0) := by omega
  unfold stateEnsembles
  rw [if_neg this]
  split <;> rfl

/-- the ensembles of the channel have exactly as many neurons as the neuron
input node has dimensions -/
theorem stateEnsembles_sum (cfg : ChanCfg) (d : Nat) (ens : List Nat) (hs : 0 < cfg.sub)
    (hd0 : 0 < d) (hd : d % cfg.sub = 0) (h : stateEnsembles cfg d = .ok ens) :
    ens.sum = neuronInputSize cfg d := by
  rw [stateEnsembles_ok cfg d hs hd] at h
  injection h with h
  subst h
  obtain ⟨npd, sub, cc, sn⟩ := cfg
  simp only at hs hd ⊢
  obtain ⟨q, rfl⟩ : ∃ q, d = sub * q := ⟨d / sub, (Nat.mul_div_cancel' (Nat.dvd_of_mod_eq_zero hd)).symm⟩
  have hq : sub * q / sub = q := Nat.mul_div_cancel_left q hs
  unfold neuronInputSize
  simp only [hq]
  cases cc with
  | false =>
    simp [Nat.mul_comm, Nat.mul_left_comm]
  | true =>
    simp only [if_true]
    cases sub with
    | zero => omega
    | succ s =>
      cases q with
      | zero => simp at hd0
      | succ r =>
        simp only [List.sum_append, List.sum_cons, List.sum_nil]
        have e1 : (if s + 1 > 1 then [npd * (s + 1 - 1)] else []).sum = npd * s := by
          cases s with
          | zero => simp
          | succ s' => simp
        have e2 : (if (s + 1) * (r + 1) > s + 1 then List.replicate (r + 1 - 1) (npd * (s + 1)) else []).sum
            = r * (npd * (s + 1)) := by
          cases r with
          | zero => simp
          | succ r' =>
            have : (s + 1) * (r' + 1 + 1) > s + 1 := by
              rw [Nat.mul_succ]
              have := Nat.mul_pos (show 0 < s + 1 by omega) (show 0 < r' + 1 by omega)
              omega
            simp [this]
        rw [e1, e2]
        grind

/-! ### the slices reach every neuron -/

theorem cover_aux (w : Rat) (hw : w < 0) (N : Nat) :
    ∀ (ens : List Nat) (off : Nat), off + ens.sum ≤ N →
      (List.zip ens ((slicesFrom off ens).map
          (fun se => ((List.replicate N w).drop se.1).take (se.2 - se.1)))).all
        (fun nw => nw.2.length == nw.1 && nw.2.all (fun x => decide (x < 0))) = true := by
  intro ens
  induction ens with
  | nil => intro off _; simp [slicesFrom]
  | cons n rest ih =>
    intro off h
    simp only [List.sum_cons] at h
    simp only [slicesFrom, List.map_cons, List.zip_cons_cons, List.all_cons, Bool.and_eq_true]
    refine ⟨⟨?_, ?_⟩, ?_⟩
    · simp; omega
    · simp only [List.drop_replicate, List.take_replicate, List.all_eq_true]
      intro x hx
      have := (List.mem_replicate.1 hx).2
      simp [this, hw]
    · exact ih (off + n) (by omega)

theorem slicesFrom_length (off : Nat) (ens : List Nat) : (slicesFrom off ens).length = ens.length := by
  induction ens generalizing off with
  | nil => rfl
  | cons n rest ih => simp [slicesFrom, ih]

/-- a channel whose inhibiting transform is `[[w]] * sizeIn` with `w < 0`, whose
slices are the running offsets of its ensembles and whose neuron input is large
enough has every neuron of every ensemble inhibited -/
theorem fullyInhibits_of (c : Channel) (w : Rat) (hw : w < 0)
    (hin : c.inhibit = List.replicate c.sizeIn w) (hsl : c.slices = slicesFrom 0 c.ensembles)
    (hsum : c.ensembles.sum ≤ c.sizeIn) : fullyInhibits c = true := by
  unfold fullyInhibits neuronWeights
  rw [hin, hsl]
  simp only [Bool.and_eq_true, beq_iff_eq]
  exact ⟨slicesFrom_length 0 _, cover_aux w hw c.sizeIn c.ensembles 0 (by omega)⟩

end C04

/-
C13 — helper lemmas (normal forms of the code-path functions).
-/
import SpaModel.Basic.C13
import Mathlib.Data.Matrix.Mul
import Mathlib.Tactic.Ring
import Mathlib.Algebra.BigOperators.Fin

set_option linter.unusedSectionVars false

namespace C13
open Impl

/-! ### `dedup` -/

theorem mem_dedup {k : Key} {l : List Key} : k ∈ dedup l ↔ k ∈ l := by
  induction l with
  | nil => simp [dedup]
  | cons a as ih =>
    simp only [dedup]
    split
    · rename_i h
      simp only [List.contains_iff_mem] at h
      rw [ih]; constructor
      · exact fun h' => List.mem_cons_of_mem _ h'
      · intro h'; rcases List.mem_cons.mp h' with rfl | h'
        · exact h
        · exact h'
    · simp [ih]

theorem nodup_dedup (l : List Key) : (dedup l).Nodup := by
  induction l with
  | nil => simp [dedup]
  | cons a as ih =>
    simp only [dedup]
    split
    · exact ih
    · rename_i h
      simp only [List.contains_iff_mem] at h
      exact List.nodup_cons.mpr ⟨fun h' => h (mem_dedup.mp h'), ih⟩

/-! ### names -/

theorem not_special_of_valid {k : Key} (h : validName k = true) : specialNames.contains k = false := by
  unfold validName at h
  split at h
  · exact absurd h (by simp)
  · simp only [Bool.and_eq_true, Bool.not_eq_true', reservedNames] at h
    have h3 := h.2
    cases hc : specialNames.contains k
    · rfl
    · exfalso
      simp only [List.contains_iff_mem] at hc
      have : (["None", "True", "False"] ++ specialNames).contains k = true := by
        simp only [List.contains_iff_mem, List.mem_append]; exact Or.inr hc
      rw [this] at h3; exact absurd h3 (by simp)

section
variable {R : Type} [Zero R] {d : Nat}

theorem hasKey_iff {v : Vocab R d} {k : Key} : v.hasKey k = true ↔ k ∈ v.keys := by
  simp [Vocab.hasKey]

theorem lookup_map_of_nodup {f : Key → Vec R d} {l : List Key} {k : Key} (hk : k ∈ l) :
    (l.map fun k => (k, f k)).lookup k = some (f k) := by
  induction l with
  | nil => cases hk
  | cons a as ih =>
    simp only [List.map_cons, List.lookup_cons]
    by_cases h : k = a
    · subst h; simp
    · have : (k == a) = false := by simpa using h
      rw [this]
      exact ih (by rcases List.mem_cons.mp hk with h' | h'; exact absurd h' h; exact h')

theorem lookup_isSome_of_mem' {es : List (Key × Vec R d)} {k : Key} (h : k ∈ es.map (·.1)) :
    ∃ x, es.lookup k = some x := by
  induction es with
  | nil => cases h
  | cons e es ih =>
    rcases e with ⟨a, b⟩
    simp only [List.lookup_cons]
    by_cases hk : k = a
    · subst hk; simp
    · have : (k == a) = false := by simpa using hk
      rw [this]
      apply ih
      simp only [List.map_cons, List.mem_cons] at h
      rcases h with h | h
      · exact absurd h hk
      · exact h

theorem mem_of_lookup {es : List (Key × Vec R d)} {k : Key} {x : Vec R d}
    (h : es.lookup k = some x) : (k, x) ∈ es := by
  induction es with
  | nil => cases h
  | cons e es ih =>
    rcases e with ⟨a, b⟩
    simp only [List.lookup_cons] at h
    by_cases hk : k = a
    · subst hk
      simp only [beq_self_eq_true, Option.some.injEq] at h
      subst h
      exact List.mem_cons_self ..
    · have : (k == a) = false := by simpa using hk
      rw [this] at h
      exact List.mem_cons_of_mem _ (ih h)

theorem lookup_isSome_of_mem {v : Vocab R d} {k : Key} (h : k ∈ v.keys) :
    ∃ x, v.lookup k = some x := lookup_isSome_of_mem' h

theorem lookup_eq_vec {v : Vocab R d} {k : Key} (h : k ∈ v.keys) : v.lookup k = some (v.vec k) := by
  obtain ⟨x, hx⟩ := lookup_isSome_of_mem h
  simp [Vocab.vec, hx]

theorem lookup_append_left {es fs : List (Key × Vec R d)} {k : Key} (h : k ∈ es.map (·.1)) :
    (es ++ fs).lookup k = es.lookup k := by
  induction es with
  | nil => cases h
  | cons e es ih =>
    rcases e with ⟨a, b⟩
    simp only [List.cons_append, List.lookup_cons]
    by_cases hk : k = a
    · subst hk; simp
    · have : (k == a) = false := by simpa using hk
      rw [this]
      apply ih
      simp only [List.map_cons, List.mem_cons] at h
      rcases h with h | h
      · exact absurd h hk
      · exact h

theorem lookup_append_right {es fs : List (Key × Vec R d)} {k : Key} (h : k ∉ es.map (·.1)) :
    (es ++ fs).lookup k = fs.lookup k := by
  induction es with
  | nil => rfl
  | cons e es ih =>
    rcases e with ⟨a, b⟩
    simp only [List.map_cons, List.mem_cons, not_or] at h
    simp only [List.cons_append, List.lookup_cons]
    have : (k == a) = false := by simpa using h.1
    rw [this]
    exact ih h.2

end

section
variable {R : Type} [Add R] [Mul R] [Zero R] [One R] [LT R] [DecidableLT R] {d : Nat}

/-! ### `add` -/

theorem add_ok {v : Vocab R d} {k : Key} {p : Ptr R d} (hv : validName k = true)
    (hk : k ∉ v.keys) (hvoc : p.vocab = none ∨ p.vocab = some v.id) (ha : p.algebra = v.algebra) :
    add v k p = .ok { v with entries := v.entries ++ [(k, p.v)] } := by
  unfold add
  have h1 : v.hasKey k = false := by
    cases h : v.hasKey k
    · rfl
    · exact absurd (hasKey_iff.mp h) hk
  have h3 : ((p.vocab.isSome && p.vocab != some v.id) || p.algebra != v.algebra) = false := by
    rcases hvoc with h | h <;> simp [h, ha]
  simp [hv, h1, h3]

/-- whatever `add` accepts, it appends exactly one entry and changes nothing else -/
theorem add_eq_ok {v v' : Vocab R d} {k : Key} {p : Ptr R d} (h : add v k p = .ok v') :
    v' = { v with entries := v.entries ++ [(k, p.v)] } ∧ validName k = true ∧ k ∉ v.keys := by
  unfold add at h
  split at h
  · cases h
  · split at h
    · cases h
    · split at h
      · cases h
      · rename_i h1 h2 _
        injection h with h
        refine ⟨h.symm, by simpa using h1, ?_⟩
        intro hk; exact h2 (hasKey_iff.mpr hk)

theorem wf_add {v v' : Vocab R d} {k : Key} {p : Ptr R d} (hw : Spec.WF v)
    (h : add v k p = .ok v') : Spec.WF v' := by
  obtain ⟨rfl, hv, hk⟩ := add_eq_ok h
  refine ⟨?_, ?_⟩
  · simp only [Vocab.keys, List.map_append, List.map_cons, List.map_nil]
    rw [List.nodup_append]
    refine ⟨hw.1, by simp, ?_⟩
    intro a ha b hb
    simp only [List.mem_singleton] at hb
    subst hb
    intro e; subst e; exact hk ha
  · intro a ha
    simp only [Vocab.keys, List.map_append, List.map_cons, List.map_nil, List.mem_append,
      List.mem_singleton] at ha
    rcases ha with ha | rfl
    · exact hw.2 a ha
    · exact hv

/-! ### `create_subset` on present keys -/

theorem getItem_present {v : Vocab R d} {k : Key} (s : List (Vec R d)) (hk : k ∈ v.keys) :
    getItem v k s = .ok ({ v := v.vec k, vocab := some v.id, algebra := v.algebra }, v, s) := by
  unfold getItem
  have hc : contains v k = true := by simp [contains, hasKey_iff.mpr hk]
  simp [hc, lookup_eq_vec hk, bind, Except.bind, pure, Except.pure]

theorem subsetLoop_present (self : Vocab R d) (s : List (Vec R d)) (hw : Spec.WF self) :
    ∀ (ks : List Key) (sub : Vocab R d), (∀ k ∈ ks, k ∈ self.keys) → ks.Nodup →
      (∀ k ∈ ks, k ∉ sub.keys) → sub.algebra = self.algebra →
      subsetLoop self sub ks s =
        .ok ({ sub with entries := sub.entries ++ ks.map fun k => (k, self.vec k) }, self, s) := by
  intro ks
  induction ks with
  | nil => intro sub _ _ _ _; simp [subsetLoop]
  | cons k ks ih =>
    intro sub hmem hnd hdis halg
    have hk : k ∈ self.keys := hmem k (List.mem_cons_self ..)
    have hv : validName k = true := hw.2 k hk
    have hns := not_special_of_valid hv
    rw [subsetLoop]
    simp only [hns, Bool.false_eq_true, ↓reduceIte, getItem_present s hk, bind, Except.bind]
    have hadd := add_ok (v := sub) (k := k)
      (p := reinterpret { v := self.vec k, vocab := some self.id, algebra := self.algebra } (some sub))
      hv (hdis k (List.mem_cons_self ..)) (Or.inr rfl) rfl
    rw [hadd]
    simp only [reinterpret]
    have hnd' := List.nodup_cons.mp hnd
    rw [ih { sub with entries := sub.entries ++ [(k, self.vec k)] }
      (fun a ha => hmem a (List.mem_cons_of_mem _ ha)) hnd'.2 ?_ halg]
    · simp [List.append_assoc]
    · intro a ha
      simp only [Vocab.keys, List.map_append, List.map_cons, List.map_nil, List.mem_append,
        List.mem_singleton, not_or]
      refine ⟨hdis a (List.mem_cons_of_mem _ ha), ?_⟩
      intro e; subst e; exact hnd'.1 ha

/-- `create_subset` with distinct keys that the vocabulary has: the subset holds
exactly those keys with the same vectors, in the order of iteration; the
vocabulary itself and its generator are untouched. -/
theorem createSubset_present (self : Vocab R d) (ks : List Key) (f : Nat) (s : List (Vec R d))
    (hw : Spec.WF self) (hmem : ∀ k ∈ ks, k ∈ self.keys) (hnd : ks.Nodup) :
    createSubset self ks f s =
      .ok ({ id := f, entries := ks.map fun k => (k, self.vec k), strict := self.strict,
             maxSim := self.maxSim, algebra := self.algebra, gen := self.gen }, self, s) := by
  unfold createSubset
  rw [subsetLoop_present self s hw ks
    { id := f, entries := [], strict := self.strict, maxSim := self.maxSim,
      algebra := self.algebra, gen := self.gen } hmem hnd (by simp [Vocab.keys]) rfl]
  simp

/-! ### `create_pointer` / `populate` -/

theorem cpLoop_spec (vecs : List (Vec R d)) (ms : R) :
    ∀ (n : Nat) (s : List (Vec R d)) (best : Option (Vec R d × R)) p s' w,
      cpLoop vecs ms n s best = .ok (p, s', w) →
      (p ∈ s ∨ ∃ b, best = some (p, b)) ∧ s' <:+ s := by
  intro n
  induction n with
  | zero =>
    intro s best p s' w h
    cases best with
    | none => simp [cpLoop] at h
    | some b =>
      rcases b with ⟨q, bs⟩
      simp only [cpLoop, Except.ok.injEq, Prod.mk.injEq] at h
      obtain ⟨rfl, rfl, _⟩ := h
      exact ⟨Or.inr ⟨bs, rfl⟩, List.suffix_refl _⟩
  | succ n ih =>
    intro s best p s' w h
    cases s with
    | nil => simp [cpLoop] at h
    | cons c s =>
      rw [cpLoop] at h
      have step : ∀ best', cpLoop vecs ms n s best' = .ok (p, s', w) →
          (best' = best ∨ ∃ x, best' = some (c, x)) →
          (p ∈ c :: s ∨ ∃ b, best = some (p, b)) ∧ s' <:+ c :: s := by
        intro best' h' hb
        obtain ⟨h1, h2⟩ := ih _ _ _ _ _ h'
        refine ⟨?_, h2.trans (List.suffix_cons _ _)⟩
        rcases h1 with h1 | ⟨b, hb'⟩
        · exact Or.inl (List.mem_cons_of_mem _ h1)
        · rcases hb with rfl | ⟨x, rfl⟩
          · exact Or.inr ⟨b, hb'⟩
          · simp only [Option.some.injEq, Prod.mk.injEq] at hb'
            exact Or.inl (hb'.1 ▸ List.mem_cons_self ..)
      have done : (Except.ok (c, s, false) : Except Err _) = .ok (p, s', w) →
          (p ∈ c :: s ∨ ∃ b, best = some (p, b)) ∧ s' <:+ c :: s := by
        intro h'
        simp only [Except.ok.injEq, Prod.mk.injEq] at h'
        obtain ⟨rfl, rfl, _⟩ := h'
        exact ⟨Or.inl (List.mem_cons_self ..), List.suffix_cons _ _⟩
      cases hm : maxSimTo vecs c with
      | none => rw [hm] at h; exact done h
      | some sim =>
        rw [hm] at h
        simp only at h
        cases best with
        | none =>
          simp only [↓reduceIte] at h
          split at h
          · exact done h
          · exact step _ h (Or.inr ⟨_, rfl⟩)
        | some b =>
          rcases b with ⟨q, bs⟩
          simp only at h
          split at h
          · split at h
            · exact done h
            · exact step _ h (Or.inr ⟨_, rfl⟩)
          · exact step _ h (Or.inl rfl)

/-- a created pointer is one of the generator's candidates, and the generator only advances -/
theorem createPointer_spec {v : Vocab R d} {s s' : List (Vec R d)} {p w}
    (h : createPointer v s = .ok (p, s', w)) : p ∈ s ∧ s' <:+ s := by
  obtain ⟨h1, h2⟩ := cpLoop_spec _ _ _ _ _ _ _ _ h
  rcases h1 with h1 | ⟨b, hb⟩
  · exact ⟨h1, h2⟩
  · cases hb

theorem populateNames_spec : ∀ (names : List Key) (v : Vocab R d) (s : List (Vec R d)) v' s' w,
    populateNames v names s = .ok (v', s', w) →
    ∃ vs : List (Vec R d), vs.length = names.length ∧
      v' = { v with entries := v.entries ++ names.zip vs } ∧ (∀ x ∈ vs, x ∈ s) ∧ s' <:+ s ∧
      names.Nodup ∧ (∀ k ∈ names, validName k = true ∧ k ∉ v.keys) := by
  intro names
  induction names with
  | nil =>
    intro v s v' s' w h
    simp only [populateNames, Except.ok.injEq, Prod.mk.injEq] at h
    obtain ⟨rfl, rfl, _⟩ := h
    exact ⟨[], rfl, by simp, by simp, List.suffix_refl _, List.nodup_nil, by simp⟩
  | cons k ks ih =>
    intro v s v' s' w h
    rw [populateNames] at h
    simp only [bind, Except.bind] at h
    split at h
    · cases h
    · rename_i x hcp
      rcases x with ⟨p, s1, w1⟩
      simp only at h
      split at h
      · cases h
      · rename_i v1 hadd
        split at h
        · cases h
        · rename_i y hrec
          rcases y with ⟨v2, s2, w2⟩
          simp only [Except.ok.injEq, Prod.mk.injEq] at h
          obtain ⟨rfl, rfl, _⟩ := h
          obtain ⟨hp, hs1⟩ := createPointer_spec hcp
          obtain ⟨rfl, hval, hnk⟩ := add_eq_ok hadd
          obtain ⟨vs, hlen, hv2, hvs, hs2, hnd, hall⟩ := ih _ _ _ _ _ hrec
          refine ⟨p :: vs, by simp [hlen], ?_, ?_, hs2.trans hs1, ?_, ?_⟩
          · rw [hv2]; simp [List.append_assoc]
          · intro x hx
            rcases List.mem_cons.mp hx with rfl | hx
            · exact hp
            · exact hs1.subset (hvs x hx)
          · refine List.nodup_cons.mpr ⟨?_, hnd⟩
            intro hk
            have := (hall k hk).2
            simp [Vocab.keys] at this
          · intro a ha
            rcases List.mem_cons.mp ha with rfl | ha
            · exact ⟨hval, hnk⟩
            · refine ⟨(hall a ha).1, ?_⟩
              intro hak
              have := (hall a ha).2
              apply this
              simp only [Vocab.keys, List.map_append, List.mem_append]
              exact Or.inl hak

theorem keys_append_zip (v : Vocab R d) (names : List Key) (vs : List (Vec R d))
    (hl : vs.length = names.length) :
    ({ v with entries := v.entries ++ names.zip vs } : Vocab R d).keys = v.keys ++ names := by
  simp only [Vocab.keys, List.map_append]
  congr 1
  exact List.map_fst_zip (by omega)

theorem wf_append_zip {v : Vocab R d} (hw : Spec.WF v) (names : List Key) (vs : List (Vec R d))
    (hl : vs.length = names.length) (hnd : names.Nodup)
    (hall : ∀ k ∈ names, validName k = true ∧ k ∉ v.keys) :
    Spec.WF ({ v with entries := v.entries ++ names.zip vs } : Vocab R d) := by
  unfold Spec.WF
  rw [keys_append_zip v names vs hl]
  refine ⟨?_, ?_⟩
  · rw [List.nodup_append]
    refine ⟨hw.1, hnd, ?_⟩
    intro a ha b hb e
    subst e
    exact (hall a hb).2 ha
  · intro k hk
    rcases List.mem_append.mp hk with hk | hk
    · exact hw.2 k hk
    · exact (hall k hk).1

/-- the two ways the `if len(missing_keys) > 0` block can end -/
theorem populateStep_cases {tgt t1 : Vocab R d} {pop : Populate} {missing m1 : List Key}
    {ord : SetOrder} {ts s1 : List (Vec R d)} {w sw : Bool}
    (h : populateStep tgt pop missing ord ts = .ok (t1, s1, m1, w, sw)) :
    (t1 = tgt ∧ s1 = ts ∧ m1 = missing ∧ sw = false ∧ (missing = [] ∨ pop ≠ .yes) ∧
      w = (!missing.isEmpty && decide (pop = .unspecified)))
    ∨ (missing ≠ [] ∧ pop = .yes ∧ m1 = [] ∧ w = false ∧
        ∃ vs : List (Vec R d), vs.length = (ord.missing missing).length ∧
          t1 = { tgt with entries := tgt.entries ++ (ord.missing missing).zip vs } ∧
          (∀ x ∈ vs, x ∈ ts) ∧ s1 <:+ ts ∧ (ord.missing missing).Nodup ∧
          ∀ k ∈ ord.missing missing, validName k = true ∧ k ∉ tgt.keys) := by
  unfold populateStep at h
  split at h
  · rename_i he
    simp only [Except.ok.injEq, Prod.mk.injEq] at h
    obtain ⟨rfl, rfl, rfl, rfl, rfl⟩ := h
    left
    refine ⟨rfl, rfl, rfl, rfl, Or.inl (List.isEmpty_iff.mp he), by simp [he]⟩
  · rename_i he
    cases pop with
    | unspecified =>
      simp only [Except.ok.injEq, Prod.mk.injEq] at h
      obtain ⟨rfl, rfl, rfl, rfl, rfl⟩ := h
      left
      exact ⟨rfl, rfl, rfl, rfl, Or.inr (by simp), by simp [he]⟩
    | no =>
      simp only [Except.ok.injEq, Prod.mk.injEq] at h
      obtain ⟨rfl, rfl, rfl, rfl, rfl⟩ := h
      left
      exact ⟨rfl, rfl, rfl, rfl, Or.inr (by simp), by simp⟩
    | yes =>
      simp only [bind, Except.bind] at h
      split at h
      · cases h
      · rename_i x hx
        rcases x with ⟨t, s, w'⟩
        simp only [Except.ok.injEq, Prod.mk.injEq] at h
        obtain ⟨rfl, rfl, rfl, rfl, rfl⟩ := h
        right
        obtain ⟨vs, h1, h2, h3, h4, h5, h6⟩ := populateNames_spec _ _ _ _ _ _ hx
        exact ⟨fun e => he (by simp [e]), rfl, rfl, rfl, vs, h1, h2, h3, h4, h5, h6⟩

/-! ### `transform_to` -/

theorem requestedKeys_nodup (src : Vocab R d) (keys : Option (List Key)) :
    (requestedKeys src keys).Nodup := nodup_dedup _

theorem mem_requestedKeys {src : Vocab R d} {keys : Option (List Key)} {k : Key} :
    k ∈ requestedKeys src keys ↔ k ∈ keys.getD src.keys ∧ k ∈ src.keys := by
  simp [requestedKeys, mem_dedup, List.mem_filter, hasKey_iff]

theorem mem_missingKeys {d2} {src : Vocab R d} {tgt : Vocab R d2} {keys : Option (List Key)} {k : Key}
    (hws : Spec.WF src) :
    k ∈ missingKeys src tgt keys ↔ k ∈ requestedKeys src keys ∧ k ∉ tgt.keys := by
  simp only [missingKeys, List.mem_filter, Bool.not_eq_true', contains, Bool.or_eq_false_iff]
  constructor
  · rintro ⟨h1, _, h3⟩
    refine ⟨h1, fun hk => ?_⟩
    rw [hasKey_iff.mpr hk] at h3; cases h3
  · rintro ⟨h1, h2⟩
    refine ⟨h1, not_special_of_valid (hws.2 k (mem_requestedKeys.mp h1).2), ?_⟩
    cases h : tgt.hasKey k
    · rfl
    · exact absurd (hasKey_iff.mp h) h2

/-- Normal form of `transform_to` on well-formed vocabularies: the only step
that can fail or change anything is the `populate` block; the source, its
generator and (apart from `populate`) the target are returned as they were,
and the matrix is computed from the listed vectors. -/
theorem transformTo_eq {d1 d2} (src : Vocab R d1) (tgt : Vocab R d2)
    (hws : Spec.WF src) (hwt : Spec.WF tgt) (populate : Populate) (keys : Option (List Key))
    (solver : Option (Solver R d1 d2)) (ord : SetOrder) (f1 f2 : Nat)
    (ss : List (Vec R d1)) (ts : List (Vec R d2))
    (hF : ∀ l, (ord.usedFrom l).Perm l) (hT : ∀ l, (ord.usedTo l).Perm l)
    (hM : ∀ l, (ord.missing l).Perm l) :
    transformTo src tgt populate keys solver ord f1 f2 ss ts =
      (populateStep tgt populate (missingKeys src tgt keys) ord ts).map fun x =>
        { T := combine solver
            ((ord.usedTo ((requestedKeys src keys).filter fun k => !x.2.2.1.contains k)).map x.1.vec)
            ((ord.usedFrom ((requestedKeys src keys).filter fun k => !x.2.2.1.contains k)).map src.vec),
          src := src, tgt := x.1, srcStream := ss, tgtStream := x.2.1,
          nengoWarning := x.2.2.2.1, simWarning := x.2.2.2.2 } := by
  unfold transformTo
  cases h : populateStep tgt populate (missingKeys src tgt keys) ord ts with
  | error e => simp [bind, Except.bind, Except.map]
  | ok x =>
    rcases x with ⟨t1, s1, m1, w, sw⟩
    simp only [bind, Except.bind, Except.map]
    set used := (requestedKeys src keys).filter fun k => !m1.contains k with hused
    have hundup : used.Nodup := (requestedKeys_nodup src keys).filter _
    have hsub : ∀ k ∈ used, k ∈ requestedKeys src keys := fun k hk => (List.mem_filter.mp hk).1
    -- the source subset
    have h1 := createSubset_present src (ord.usedFrom used) f1 ss hws
      (fun k hk => (mem_requestedKeys.mp (hsub k ((hF used).mem_iff.mp hk))).2)
      ((hF used).nodup_iff.mpr hundup)
    -- the target subset
    have hwt1 : Spec.WF t1 ∧ ∀ k ∈ used, k ∈ t1.keys := by
      rcases populateStep_cases h with ⟨rfl, _, rfl, _, _, _⟩ | ⟨_, _, rfl, _, vs, hl, rfl, _, _, hnd, hall⟩
      · refine ⟨hwt, fun k hk => ?_⟩
        obtain ⟨hk1, hk2⟩ := List.mem_filter.mp hk
        by_contra hc
        have := (mem_missingKeys (tgt := t1) (keys := keys) hws).mpr ⟨hk1, hc⟩
        simp [this] at hk2
      · refine ⟨wf_append_zip hwt _ vs hl hnd hall, fun k hk => ?_⟩
        rw [keys_append_zip tgt _ vs hl]
        by_cases hc : k ∈ tgt.keys
        · exact List.mem_append.mpr (Or.inl hc)
        · refine List.mem_append.mpr (Or.inr ?_)
          have := (mem_missingKeys (tgt := tgt) (keys := keys) hws).mpr ⟨hsub k hk, hc⟩
          exact (hM _).mem_iff.mpr this
    have h2 := createSubset_present t1 (ord.usedTo used) f2 s1 hwt1.1
      (fun k hk => hwt1.2 k ((hT used).mem_iff.mp hk))
      ((hT used).nodup_iff.mpr hundup)
    rw [h1]
    simp only
    rw [h2]
    simp [Vocab.vectors, List.map_map, Function.comp_def]

end
end C13

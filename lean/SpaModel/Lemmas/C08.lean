/-
Helper lemmas for C08 (matrix forms of binding with the special elements and with the inverse).
-/
import SpaModel.Basic.C08
import SpaModel.Props.C02
import Mathlib.LinearAlgebra.Matrix.NonsingularInverse
import Mathlib.Tactic.Ring
import Mathlib.Tactic.NoncommRing

set_option linter.unusedSectionVars false
set_option linter.unusedVariables false

open Matrix

namespace C08.L
open Alg C08.Spec

variable {R : Type*} [CommRing R]

/-! ### reshaping -/
variable {m : ℕ}

theorem toMat_injective : Function.Injective (toMat : Vec2 m R → Matrix (Fin m) (Fin m) R) := by
  intro v w h
  funext p
  have := congrFun (congrFun h p.1) p.2
  simpa [toMat] using this

@[simp] theorem toMat_ofMat (M : Matrix (Fin m) (Fin m) R) : toMat (ofMat M) = M := rfl

theorem toMat_vtb_identity (sinv : R) : toMat (Alg.Vtb.Impl.identity m sinv) = sinv • (1 : Matrix _ _ R) := by
  ext i j
  simp [toMat, Alg.Vtb.Impl.identity, Matrix.one_apply]

theorem toMat_tvtb_identity (sinv : R) : toMat (Alg.Tvtb.Impl.identity m sinv) = sinv • (1 : Matrix _ _ R) :=
  toMat_vtb_identity sinv

theorem toMat_vtb_invert (v : Vec2 m R) : toMat (Alg.Vtb.Impl.invert v) = (toMat v)ᵀ := rfl
theorem toMat_tvtb_invert (v : Vec2 m R) : toMat (Alg.Tvtb.Impl.invert v) = (toMat v)ᵀ := rfl

/-- `m • (X Xᵀ) = 1 ↔ m • (Xᵀ X) = 1` (a one-sided inverse of a square matrix is two-sided) -/
theorem unitary_comm {X : Matrix (Fin m) (Fin m) R} :
    (m : R) • (X * Xᵀ) = 1 ↔ (m : R) • (Xᵀ * X) = 1 := by
  rw [← smul_mul_assoc, ← mul_smul_comm]
  exact mul_eq_one_comm

/-! ### HRR -/
namespace Hrr
open Alg.Hrr
variable {k : ℕ}

theorem bind_identity_right : IsRightIdentity (Alg.Hrr.Impl.bind (R := R) (k := k)) (Alg.Hrr.Impl.identity k) := by
  intro v
  funext i
  simp only [Alg.Hrr.Impl.bind, Alg.Hrr.Impl.identity]
  rw [Finset.sum_eq_single i]
  · simp
  · intro b _ hb
    have : ¬ (i - b = 0) := fun h => hb (sub_eq_zero.mp h).symm
    simp [this]
  · simp

theorem bind_identity_left : IsLeftIdentity (Alg.Hrr.Impl.bind (R := R) (k := k)) (Alg.Hrr.Impl.identity k) := by
  intro v
  rw [C02.Hrr.bind_comm]
  exact bind_identity_right v

theorem bind_neg_right (a b : Vec k R) : Alg.Hrr.Impl.bind a (-b) = -(Alg.Hrr.Impl.bind a b) := by
  funext i
  simp [Alg.Hrr.Impl.bind, Finset.sum_neg_distrib]
end Hrr

/-! ### VTB: `toMat (bind x y) = s • (X * Yᵀ)` -/
namespace Vtb
open Alg.Vtb

theorem bind_identity_right (s sinv : R) (h : s * sinv = 1) :
    IsRightIdentity (Alg.Vtb.Impl.bind (m := m) s) (Alg.Vtb.Impl.identity m sinv) := by
  intro v
  apply toMat_injective
  rw [C02.Vtb.bind_matrix_form, toMat_vtb_identity, transpose_smul, transpose_one, mul_smul_comm,
    mul_one, smul_smul, h, one_smul]

theorem bind_neg_right (s : R) (a b : Vec2 m R) :
    Alg.Vtb.Impl.bind s a (-b) = -(Alg.Vtb.Impl.bind s a b) := by
  have := C02.Vtb.bind_smul_right s (-1) a b
  simpa using this

/-- no `e` acts from the left as a non-zero scalar (`m > 1`): the unit vector at `(0,1)` is sent
to a vector that vanishes at `(0,1)` -/
theorem no_left_scalar [Nontrivial R] (s : R) (hm : 2 ≤ m) (e : Vec2 m R) (c : R) (hc : c ≠ 0)
    (h : ∀ v, Alg.Vtb.Impl.bind s e v = c • v) : False := by
  let i0 : Fin m := ⟨0, by omega⟩
  let i1 : Fin m := ⟨1, by omega⟩
  have hne : i1 ≠ i0 := by simp [i0, i1, Fin.ext_iff]
  have := congrFun (h (Pi.single (i0, i1) 1)) (i0, i1)
  rw [C02.Vtb.bind_eq_spec] at this
  simp only [Alg.Vtb.Spec.bind, Pi.smul_apply, Pi.single_eq_same, smul_eq_mul, mul_one] at this
  rw [Finset.sum_eq_zero] at this
  · rw [mul_zero] at this; exact hc this.symm
  · intro x _
    have : (i1, x) ≠ (i0, i1) := fun h => hne (Prod.mk.inj h).1
    simp [Pi.single_eq_of_ne this]

theorem unbind_right_matrix (s : R) (hs : s * s = (m : R)) {a v : Vec2 m R} :
    toMat (Alg.Vtb.Impl.bind s (Alg.Vtb.Impl.bind s a v) (Alg.Vtb.Impl.invert v))
      = (m : R) • (toMat a * ((toMat v)ᵀ * toMat v)) := by
  rw [C02.Vtb.bind_matrix_form, C02.Vtb.bind_matrix_form, toMat_vtb_invert, transpose_transpose,
    smul_mul_assoc, smul_smul, hs, Matrix.mul_assoc]

/-- `toMat (bind w (bind v a)) = m • (W * A * Vᵀ)` -/
theorem unbind_left_matrix (s : R) (hs : s * s = (m : R)) {a v w : Vec2 m R} :
    toMat (Alg.Vtb.Impl.bind s w (Alg.Vtb.Impl.bind s v a))
      = (m : R) • (toMat w * toMat a * (toMat v)ᵀ) := by
  rw [C02.Vtb.bind_matrix_form, C02.Vtb.bind_matrix_form, transpose_smul, transpose_mul,
    transpose_transpose, mul_smul_comm, smul_smul, hs, Matrix.mul_assoc]

theorem left_inverse_central (s : R) (hs : s * s = (m : R)) (v w : Vec2 m R)
    (h : UndoesLeft (Alg.Vtb.Impl.bind s) v w) (A : Matrix (Fin m) (Fin m) R) :
    A * (toMat v)ᵀ = (toMat v)ᵀ * A := by
  have key : ∀ B : Matrix (Fin m) (Fin m) R, (m : R) • (toMat w * B * (toMat v)ᵀ) = B := by
    intro B
    have := congrArg toMat (h (ofMat B))
    rwa [unbind_left_matrix s hs, toMat_ofMat] at this
  have h1 : ((m : R) • toMat w) * (toMat v)ᵀ = 1 := by
    have := key 1
    rwa [mul_one, ← smul_mul_assoc] at this
  have h2 : (toMat v)ᵀ * ((m : R) • toMat w) = 1 := mul_eq_one_comm.mp h1
  calc A * (toMat v)ᵀ
      = ((toMat v)ᵀ * ((m : R) • toMat w)) * A * (toMat v)ᵀ := by rw [h2, one_mul]
    _ = (toMat v)ᵀ * ((m : R) • (toMat w * A * (toMat v)ᵀ)) := by
        simp only [smul_mul_assoc, mul_smul_comm, Matrix.mul_assoc]
    _ = (toMat v)ᵀ * A := by rw [key A]

theorem no_right_absorbing [NoZeroDivisors R] (s : R) (hs : s ≠ 0) (hm : 2 ≤ m) (z : Vec2 m R)
    (h : IsRightAbsorbing (S := R) (Alg.Vtb.Impl.bind s) z) : z = 0 := by
  by_contra hz
  obtain ⟨⟨p, q⟩, hpq⟩ := Function.ne_iff.mp hz
  have : Nontrivial (Fin m) := Fin.nontrivial_iff_two_le.mpr hm
  obtain ⟨i, hi⟩ := exists_ne p
  obtain ⟨c, hc⟩ := h (Pi.single (i, q) 1)
  rw [C02.Vtb.bind_eq_spec] at hc
  -- at (p, q): the left side vanishes, so c = 0
  have e1 := congrFun hc (p, q)
  simp only [Alg.Vtb.Spec.bind, Pi.smul_apply, smul_eq_mul] at e1
  rw [Finset.sum_eq_zero (fun x _ => by
    have : (p, x) ≠ (i, q) := fun h => hi (Prod.mk.inj h).1.symm
    simp [Pi.single_eq_of_ne this]), mul_zero] at e1
  have hc0 : c = 0 := by
    rcases mul_eq_zero.mp e1.symm with h | h
    · exact h
    · exact absurd h hpq
  -- at (i, p): the left side is s * z (p, q)
  have e2 := congrFun hc (i, p)
  simp only [Alg.Vtb.Spec.bind, Pi.smul_apply, smul_eq_mul, hc0, zero_mul] at e2
  rw [Finset.sum_eq_single q (fun x _ hx => by
    have : (i, x) ≠ (i, q) := fun h => hx (Prod.mk.inj h).2
    simp [Pi.single_eq_of_ne this]) (by simp)] at e2
  simp only [Pi.single_eq_same, mul_one] at e2
  rcases mul_eq_zero.mp e2 with h | h
  · exact hs h
  · exact hpq h

theorem no_left_absorbing [NoZeroDivisors R] (s : R) (hs : s ≠ 0) (hm : 2 ≤ m) (z : Vec2 m R)
    (h : IsLeftAbsorbing (S := R) (Alg.Vtb.Impl.bind s) z) : z = 0 := by
  by_contra hz
  obtain ⟨⟨p, q⟩, hpq⟩ := Function.ne_iff.mp hz
  have : Nontrivial (Fin m) := Fin.nontrivial_iff_two_le.mpr hm
  obtain ⟨i, hi⟩ := exists_ne q
  -- bind z v at (a, b) = s * Σ_k v (b, k) * z (a, k); v = unit at (i, q)
  obtain ⟨c, hc⟩ := h (Pi.single (i, q) 1)
  rw [C02.Vtb.bind_eq_spec] at hc
  have e1 := congrFun hc (p, q)
  simp only [Alg.Vtb.Spec.bind, Pi.smul_apply, smul_eq_mul] at e1
  rw [Finset.sum_eq_zero (fun x _ => by
    have : (q, x) ≠ (i, q) := fun h => hi (Prod.mk.inj h).1.symm
    simp [Pi.single_eq_of_ne this]), mul_zero] at e1
  have hc0 : c = 0 := by
    rcases mul_eq_zero.mp e1.symm with h | h
    · exact h
    · exact absurd h hpq
  have e2 := congrFun hc (p, i)
  simp only [Alg.Vtb.Spec.bind, Pi.smul_apply, smul_eq_mul, hc0, zero_mul] at e2
  rw [Finset.sum_eq_single q (fun x _ hx => by
    have : (i, x) ≠ (i, q) := fun h => hx (Prod.mk.inj h).2
    simp [Pi.single_eq_of_ne this]) (by simp)] at e2
  simp only [Pi.single_eq_same, one_mul] at e2
  rcases mul_eq_zero.mp e2 with h | h
  · exact hs h
  · exact hpq h

end Vtb

/-! ### TVTB: `toMat (bind x y) = s • (X * Y)` -/
namespace Tvtb
open Alg.Tvtb

theorem bind_identity_right (s sinv : R) (h : s * sinv = 1) :
    IsRightIdentity (Alg.Tvtb.Impl.bind (m := m) s) (Alg.Tvtb.Impl.identity m sinv) := by
  intro v
  apply toMat_injective
  rw [C02.Tvtb.bind_matrix_form, toMat_tvtb_identity, mul_smul_comm, mul_one, smul_smul, h, one_smul]

theorem bind_identity_left (s sinv : R) (h : s * sinv = 1) :
    IsLeftIdentity (Alg.Tvtb.Impl.bind (m := m) s) (Alg.Tvtb.Impl.identity m sinv) := by
  intro v
  apply toMat_injective
  rw [C02.Tvtb.bind_matrix_form, toMat_tvtb_identity, smul_mul_assoc, one_mul, smul_smul, h, one_smul]

theorem bind_neg_right (s : R) (a b : Vec2 m R) :
    Alg.Tvtb.Impl.bind s a (-b) = -(Alg.Tvtb.Impl.bind s a b) := by
  have := C02.Tvtb.bind_smul_right s (-1) a b
  simpa using this

theorem bind_neg_left (s : R) (a b : Vec2 m R) :
    Alg.Tvtb.Impl.bind s (-a) b = -(Alg.Tvtb.Impl.bind s a b) := by
  have := C02.Tvtb.bind_smul_left s (-1) a b
  simpa using this

theorem unbind_right_matrix (s : R) (hs : s * s = (m : R)) {a v : Vec2 m R} :
    toMat (Alg.Tvtb.Impl.bind s (Alg.Tvtb.Impl.bind s a v) (Alg.Tvtb.Impl.invert v))
      = (m : R) • (toMat a * (toMat v * (toMat v)ᵀ)) := by
  rw [C02.Tvtb.bind_matrix_form, C02.Tvtb.bind_matrix_form, toMat_tvtb_invert,
    smul_mul_assoc, smul_smul, hs, Matrix.mul_assoc]

theorem unbind_left_matrix (s : R) (hs : s * s = (m : R)) {a v : Vec2 m R} :
    toMat (Alg.Tvtb.Impl.bind s (Alg.Tvtb.Impl.invert v) (Alg.Tvtb.Impl.bind s v a))
      = (m : R) • (((toMat v)ᵀ * toMat v) * toMat a) := by
  rw [C02.Tvtb.bind_matrix_form, C02.Tvtb.bind_matrix_form, toMat_tvtb_invert,
    mul_smul_comm, smul_smul, hs, Matrix.mul_assoc]

/-- bind v z at (a, b) = s * Σ_k z (k, b) * v (a, k) -/
theorem no_right_absorbing [NoZeroDivisors R] (s : R) (hs : s ≠ 0) (hm : 2 ≤ m) (z : Vec2 m R)
    (h : IsRightAbsorbing (S := R) (Alg.Tvtb.Impl.bind s) z) : z = 0 := by
  by_contra hz
  obtain ⟨⟨p, q⟩, hpq⟩ := Function.ne_iff.mp hz
  have : Nontrivial (Fin m) := Fin.nontrivial_iff_two_le.mpr hm
  obtain ⟨i, hi⟩ := exists_ne p
  -- v = unit at (i, p): bind v z has only row i, equal to row p of z
  obtain ⟨c, hc⟩ := h (Pi.single (i, p) 1)
  rw [C02.Tvtb.bind_eq_spec] at hc
  have e1 := congrFun hc (p, q)
  simp only [Alg.Tvtb.Spec.bind, Pi.smul_apply, smul_eq_mul] at e1
  rw [Finset.sum_eq_zero (fun x _ => by
    have : (p, x) ≠ (i, p) := fun h => hi (Prod.mk.inj h).1.symm
    simp [Pi.single_eq_of_ne this]), mul_zero] at e1
  have hc0 : c = 0 := by
    rcases mul_eq_zero.mp e1.symm with h | h
    · exact h
    · exact absurd h hpq
  have e2 := congrFun hc (i, q)
  simp only [Alg.Tvtb.Spec.bind, Pi.smul_apply, smul_eq_mul, hc0, zero_mul] at e2
  rw [Finset.sum_eq_single p (fun x _ hx => by
    have : (i, x) ≠ (i, p) := fun h => hx (Prod.mk.inj h).2
    simp [Pi.single_eq_of_ne this]) (by simp)] at e2
  simp only [Pi.single_eq_same, mul_one] at e2
  rcases mul_eq_zero.mp e2 with h | h
  · exact hs h
  · exact hpq h

/-- bind z v at (a, b) = s * Σ_k v (k, b) * z (a, k) -/
theorem no_left_absorbing [NoZeroDivisors R] (s : R) (hs : s ≠ 0) (hm : 2 ≤ m) (z : Vec2 m R)
    (h : IsLeftAbsorbing (S := R) (Alg.Tvtb.Impl.bind s) z) : z = 0 := by
  by_contra hz
  obtain ⟨⟨p, q⟩, hpq⟩ := Function.ne_iff.mp hz
  have : Nontrivial (Fin m) := Fin.nontrivial_iff_two_le.mpr hm
  obtain ⟨i, hi⟩ := exists_ne q
  -- v = unit at (q, i): bind z v has only column i, equal to column q of z
  obtain ⟨c, hc⟩ := h (Pi.single (q, i) 1)
  rw [C02.Tvtb.bind_eq_spec] at hc
  have e1 := congrFun hc (p, q)
  simp only [Alg.Tvtb.Spec.bind, Pi.smul_apply, smul_eq_mul] at e1
  rw [Finset.sum_eq_zero (fun x _ => by
    have : (x, q) ≠ (q, i) := fun h => hi (Prod.mk.inj h).2.symm
    simp [Pi.single_eq_of_ne this]), mul_zero] at e1
  have hc0 : c = 0 := by
    rcases mul_eq_zero.mp e1.symm with h | h
    · exact h
    · exact absurd h hpq
  have e2 := congrFun hc (p, i)
  simp only [Alg.Tvtb.Spec.bind, Pi.smul_apply, smul_eq_mul, hc0, zero_mul] at e2
  rw [Finset.sum_eq_single q (fun x _ hx => by
    have : (x, i) ≠ (q, i) := fun h => hx (Prod.mk.inj h).1
    simp [Pi.single_eq_of_ne this]) (by simp)] at e2
  simp only [Pi.single_eq_same, one_mul] at e2
  rcases mul_eq_zero.mp e2 with h | h
  · exact hs h
  · exact hpq h

end Tvtb

/-! ### existence -/

theorem identity_isUnitary (s sinv : R) (h : s * sinv = 1) (hs : s * s = (m : R)) :
    Spec.Vec2.IsUnitary (Alg.Vtb.Impl.identity m sinv) := by
  unfold Spec.Vec2.IsUnitary
  rw [toMat_vtb_identity, transpose_smul, transpose_one, smul_mul_assoc, one_mul, smul_smul, smul_smul,
    ← hs]
  have : s * s * sinv * sinv = 1 := by
    calc s * s * sinv * sinv = (s * sinv) * (s * sinv) := by ring
      _ = 1 := by rw [h, one_mul]
  rw [this, one_smul]

theorem zero_not_unitary [Nontrivial R] (hm : 1 ≤ m) :
    ¬ Spec.Vec2.IsUnitary (Alg.Vtb.Impl.zero m : Vec2 m R) := by
  unfold Spec.Vec2.IsUnitary
  intro h
  have h0 : toMat (Alg.Vtb.Impl.zero m : Vec2 m R) = 0 := by
    ext i j; simp [toMat, Alg.Vtb.Impl.zero]
  rw [h0, zero_mul, smul_zero] at h
  have := congrFun (congrFun h ⟨0, by omega⟩) ⟨0, by omega⟩
  simp at this

theorem exists_noncomm [Nontrivial R] (hm : 2 ≤ m) :
    ∃ A B : Matrix (Fin m) (Fin m) R, A * B ≠ B * A := by
  let i0 : Fin m := ⟨0, by omega⟩
  let i1 : Fin m := ⟨1, by omega⟩
  have hne : i0 ≠ i1 := by simp [i0, i1, Fin.ext_iff]
  refine ⟨Matrix.single i0 i1 1, Matrix.single i1 i0 1, fun h => ?_⟩
  have := congrFun (congrFun h i0) i0
  simp [hne] at this

/-! ### list interface -/

theorem flatten_getD {α : Type*} (d : α) (m : ℕ) : ∀ (n : ℕ) (f : Fin n → List α),
    (∀ i, (f i).length = m) → ∀ (i : Fin n) (j : ℕ), j < m →
    (List.ofFn f).flatten.getD (i.val * m + j) d = (f i).getD j d := by
  intro n
  induction n with
  | zero => intro f _ i; exact i.elim0
  | succ n ih =>
    intro f hf i j hj
    rw [List.ofFn_succ, List.flatten_cons]
    refine Fin.cases ?_ (fun i' => ?_) i
    · have : j < (f 0).length := by rw [hf]; exact hj
      simp [List.getD_eq_getElem?_getD, List.getElem?_append_left this]
    · have hle : (f 0).length ≤ (i'.succ.val * m + j) := by
        rw [hf, Fin.val_succ, Nat.add_mul, Nat.one_mul]; omega
      rw [List.getD_eq_getElem?_getD, List.getElem?_append_right hle, hf, ← List.getD_eq_getElem?_getD]
      have : i'.succ.val * m + j - m = i'.val * m + j := by
        rw [Fin.val_succ, Nat.add_mul, Nat.one_mul]; omega
      rw [this]
      exact ih (fun i => f i.succ) (fun i => hf _) i' j hj

/-- flattening and re-reading a VTB/TVTB vector is the identity -/
theorem vec2OfList_listOfVec2 (v : Vec2 m R) : vec2OfList m (listOfVec2 v) = v := by
  funext p
  obtain ⟨i, j⟩ := p
  simp only [vec2OfList, listOfVec2, flatIdx]
  rw [flatten_getD 0 m m (fun i => List.ofFn fun j => v (i, j)) (fun i => by simp) i j.val j.isLt]
  simp [List.getD_eq_getElem?_getD]

end C08.L

/-
C01 — the concrete universe of the shipped algebras (HRR on `Fin (k+1)`, VTB / TVTB on
`Fin m × Fin m`), built from the shared algebra model `Alg.*`; the three laws that
`C01.Universe` asks for are discharged by the C02 theorems.  The driver runs the C01 model in
this universe (over `ℚ(√m)`), the property theorems hold in every universe.
-/
import SpaModel.Basic.C01
import SpaModel.Props.C02
import SpaModel.Basic.QSqrt

open Matrix

namespace C01
namespace Concrete

/-- dimensionalities: `lin k` = `k+1` (HRR layout), `sq m` = `m*m` (VTB/TVTB layout, pair `(i,j)` =
flat index `i*m+j`).  Scalars live in `lin 0`. -/
inductive CShape where
  | lin (k : ℕ)
  | sq (m : ℕ)
deriving DecidableEq, Repr

def CIdx : CShape → Type
  | .lin k => Fin (k + 1)
  | .sq m => Fin m × Fin m

instance instFintypeCIdx : ∀ s, Fintype (CIdx s)
  | .lin k => inferInstanceAs (Fintype (Fin (k + 1)))
  | .sq m => inferInstanceAs (Fintype (Fin m × Fin m))

instance instDecEqCIdx : ∀ s, DecidableEq (CIdx s)
  | .lin k => inferInstanceAs (DecidableEq (Fin (k + 1)))
  | .sq m => inferInstanceAs (DecidableEq (Fin m × Fin m))

/-- a vocabulary: its algebra, an identity number, its size parameter -/
inductive CV where
  | hrr (id k : ℕ)
  | vtb (id m : ℕ)
  | tvtb (id m : ℕ)
deriving DecidableEq, Repr

def CV.id : CV → ℕ
  | .hrr i _ => i
  | .vtb i _ => i
  | .tvtb i _ => i

def cshape : CV → CShape
  | .hrr _ k => .lin k
  | .vtb _ m => .sq m
  | .tvtb _ m => .sq m

/-- flat (row-major) index of the code -/
def flat : ∀ s, CIdx s → ℕ
  | .lin _, i => Fin.val i
  | .sq _, p => Alg.flatIdx p

variable {R : Type} [CommRing R]

/-- data of one program: `rt m` = `sqrt(m)`, the vectors of the vocabulary keys, the
`transform_to` matrices, the reciprocal of a number -/
structure Tables (R : Type) [CommRing R] where
  rt : ℕ → R
  key : ℕ → ℕ → List R
  trans : ℕ → ℕ → List (List R)
  recip : R → Option R
  recip_spec : ∀ c r, recip c = some r → c * r = 1

def vecOf (s : CShape) (l : List R) : CIdx s → R := fun i => l.getD (flat s i) 0

def cbind (rt : ℕ → R) : ∀ v : CV, (CIdx (cshape v) → R) → (CIdx (cshape v) → R) → (CIdx (cshape v) → R)
  | .hrr _ _ => Alg.Hrr.Impl.bind
  | .vtb _ m => Alg.Vtb.Impl.bind (rt m)
  | .tvtb _ m => Alg.Tvtb.Impl.bind (rt m)

def cbindMat (rt : ℕ → R) : ∀ v : CV, (CIdx (cshape v) → R) → Bool →
    Matrix (CIdx (cshape v)) (CIdx (cshape v)) R
  | .hrr _ _ => fun x sw => Alg.Hrr.Impl.bindMat x sw
  | .vtb _ m => fun x sw => Alg.Vtb.Impl.bindMat (rt m) x sw
  | .tvtb _ m => fun x sw => Alg.Tvtb.Impl.bindMat (rt m) x sw

/-- `VtbAlgebra` has no left inverse (`NotImplementedError`); the two-sided request returns the
right inverse with a deprecation warning -/
def cinvOk : CV → Side → Bool
  | .vtb _ _, .left => false
  | _, _ => true

def cinv : ∀ v : CV, Side → (CIdx (cshape v) → R) → (CIdx (cshape v) → R)
  | .hrr _ _ => fun _ x => Alg.Hrr.Impl.invert x
  | .vtb _ _ => fun _ x => Alg.Vtb.Impl.invert x
  | .tvtb _ _ => fun _ x => Alg.Tvtb.Impl.invert x

def cinvMat : ∀ v : CV, Side → Matrix (CIdx (cshape v)) (CIdx (cshape v)) R
  | .hrr _ k => fun _ => Alg.Hrr.Impl.invMat k
  | .vtb _ m => fun _ => Alg.Vtb.Impl.invMat m
  | .tvtb _ m => fun _ => Alg.Tvtb.Impl.invMat m

theorem cbindMat_false (rt : ℕ → R) (v : CV) (x a : CIdx (cshape v) → R) :
    cbindMat rt v x false *ᵥ a = cbind rt v a x := by
  cases v with
  | hrr i k => exact C02.Hrr.bindMat_mulVec (k := k) x a false
  | vtb i m => exact C02.Vtb.bindMat_mulVec (rt m) x a
  | tvtb i m => exact C02.Tvtb.bindMat_mulVec (rt m) x a

theorem cbindMat_true (rt : ℕ → R) (v : CV) (x a : CIdx (cshape v) → R) :
    cbindMat rt v x true *ᵥ a = cbind rt v x a := by
  cases v with
  | hrr i k => exact C02.Hrr.bindMat_swap_mulVec (k := k) x a true
  | vtb i m => exact C02.Vtb.bindMat_swap_mulVec (rt m) x a
  | tvtb i m => exact C02.Tvtb.bindMat_swap_mulVec (rt m) x a

theorem cinvMat_mulVec (v : CV) (sd : Side) (a : CIdx (cshape v) → R) :
    cinvMat (R := R) v sd *ᵥ a = cinv v sd a := by
  cases v with
  | hrr i k => exact C02.Hrr.invMat_mulVec (k := k) a
  | vtb i m => exact C02.Vtb.invMat_mulVec a
  | tvtb i m => exact C02.Tvtb.invMat_mulVec a

/-- The universe of the shipped algebras. -/
def mkUniverse (T : Tables R) : Universe R where
  Shape := CShape
  decS := inferInstance
  Idx := CIdx
  finI := instFintypeCIdx
  decI := instDecEqCIdx
  unit := .lin 0
  uniq := inferInstanceAs (Unique (Fin 1))
  V := CV
  decV := inferInstance
  shape := cshape
  bind := cbind T.rt
  bindMat := cbindMat T.rt
  invOk := cinvOk
  inv := cinv
  invMat := cinvMat
  key := fun k v => vecOf (cshape v) (T.key k v.id)
  transMat := fun v w => Matrix.of fun i j =>
    ((T.trans v.id w.id).getD (flat (cshape w) i) []).getD (flat (cshape v) j) 0
  recip := T.recip
  bindMat_false := cbindMat_false T.rt
  bindMat_true := cbindMat_true T.rt
  invMat_mulVec := cinvMat_mulVec
  recip_spec := T.recip_spec

/-- reciprocal of an embedded rational in `ℚ(√m)` (`1.0 / c` for a Python number) -/
def qsRecip (m : ℕ) (x : QS m) : Option (QS m) :=
  if x.im = 0 ∧ x.re ≠ 0 then some ⟨1 / x.re, 0⟩ else none

theorem qsRecip_spec (m : ℕ) (c r : QS m) (h : qsRecip m c = some r) : c * r = 1 := by
  unfold qsRecip at h
  split at h
  · rename_i hc
    obtain ⟨h0, h1⟩ := hc
    cases h
    ext
    · simp [h0, h1, QuadraticAlgebra.re_one]
    · simp [h0, h1, QuadraticAlgebra.im_one]
  · cases h

end Concrete
end C01

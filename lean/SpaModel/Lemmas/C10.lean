/-
C10 — the three shipped algebras as instances of the abstract record `C10.Algebra`
(built from the shared model `SpaModel/Basic/Algebra.lean`), plus the facts that make the
generic C10 theorems say something concrete about them: the number a bare scalar is
multiplied onto is the algebra's own identity element, which differs between HRR
(`(1, 0, …, 0)`) and VTB/TVTB (`eye(sub_d)/√sub_d`).

The scalar operations that are not ring operations (`inv`, zero test, `<`) are parameters:
the driver supplies them for ℚ and ℚ(√m).
-/
import SpaModel.Basic.C10
import SpaModel.Basic.Algebra

open Matrix

namespace C10
namespace Inst

variable {R : Type} [CommRing R]

/-- HrrAlgebra on `Fin (k+1) → R`; `c` stands for `1/sqrt(d)` (absorbing element). -/
def hrr (k : ℕ) (inv : R → R) (isZero : R → Bool) (lt : R → R → Bool) (c : R) :
    Algebra R (Alg.Hrr.Vec k R) where
  kOfInt z := (z : R)
  kAdd := (· + ·)
  kMul := (· * ·)
  kNeg := (- ·)
  kInv := inv
  kIsZero := isZero
  kLt := lt
  add := Alg.Hrr.Impl.superpose
  neg v := fun i => -v i
  smul a v := fun i => v i * a
  bind := Alg.Hrr.Impl.bind
  invert := Alg.Hrr.Impl.invert
  pow := Alg.Hrr.Impl.zpow
  dot a b := ∑ i, a i * b i
  identity := Alg.Hrr.Impl.identity k
  zero := Alg.Hrr.Impl.zero k
  absorbing := some (Alg.Hrr.Impl.absorbing k c)

/-- the integer-power fallback of `binding_power` (no SciPy): `power = eye; for _ in
range(exp): power = power @ m` -/
def matPowLoop {m : ℕ} (M : Matrix (Fin m) (Fin m) R) : ℕ → Matrix (Fin m) (Fin m) R
  | 0 => 1
  | n + 1 => matPowLoop M n * M

/-- `VtbAlgebra.binding_power(v, e)` for integer `e`: identity for 0, right inverse first for
negative `e`, then `bind(v, ((√m·V)^(|e|-1)).flatten() / √m)`. -/
def vtbPow {m : ℕ} (s sinv : R) (v : Alg.Vec2 m R) (e : ℤ) : Alg.Vec2 m R :=
  if e = 0 then Alg.Vtb.Impl.identity m sinv
  else
    let w := if e < 0 then Alg.Vtb.Impl.invert v else v
    Alg.Vtb.Impl.bind s w
      (fun p => (matPowLoop (s • Alg.toMat w) (e.natAbs - 1)) p.1 p.2 * sinv)

/-- `TvtbAlgebra.binding_power(v, e)` for integer `e`: inverse first for negative `e`, then
`((√m·V)^|e|).flatten() / √m`. -/
def tvtbPow {m : ℕ} (s sinv : R) (v : Alg.Vec2 m R) (e : ℤ) : Alg.Vec2 m R :=
  let w := if e < 0 then Alg.Tvtb.Impl.invert v else v
  fun p => (matPowLoop (s • Alg.toMat w) e.natAbs) p.1 p.2 * sinv

/-- VtbAlgebra on `Fin m × Fin m → R`; `s` = `√m`, `sinv` = `1/√m`. -/
def vtb (m : ℕ) (inv : R → R) (isZero : R → Bool) (lt : R → R → Bool) (s sinv : R) :
    Algebra R (Alg.Vec2 m R) where
  kOfInt z := (z : R)
  kAdd := (· + ·)
  kMul := (· * ·)
  kNeg := (- ·)
  kInv := inv
  kIsZero := isZero
  kLt := lt
  add := Alg.Vtb.Impl.superpose
  neg v := fun p => -v p
  smul a v := fun p => v p * a
  bind := Alg.Vtb.Impl.bind s
  invert := Alg.Vtb.Impl.invert
  pow := vtbPow s sinv
  dot a b := ∑ p, a p * b p
  identity := Alg.Vtb.Impl.identity m sinv
  zero := Alg.Vtb.Impl.zero m
  absorbing := none

/-- TvtbAlgebra -/
def tvtb (m : ℕ) (inv : R → R) (isZero : R → Bool) (lt : R → R → Bool) (s sinv : R) :
    Algebra R (Alg.Vec2 m R) where
  kOfInt z := (z : R)
  kAdd := (· + ·)
  kMul := (· * ·)
  kNeg := (- ·)
  kInv := inv
  kIsZero := isZero
  kLt := lt
  add := Alg.Tvtb.Impl.superpose
  neg v := fun p => -v p
  smul a v := fun p => v p * a
  bind := Alg.Tvtb.Impl.bind s
  invert := Alg.Tvtb.Impl.invert
  pow := tvtbPow s sinv
  dot a b := ∑ p, a p * b p
  identity := Alg.Tvtb.Impl.identity m sinv
  zero := Alg.Tvtb.Impl.zero m
  absorbing := none

/-! ### what a bare number parses to, per algebra -/

variable (inv : R → R) (isZero : R → Bool) (lt : R → R → Bool)

/-- HRR vocabulary: the number `x` parses to `(x, 0, …, 0)` -/
theorem hrr_parse_number (k : ℕ) (c : R) (vc : Vocab R (Alg.Hrr.Vec k R)) (x : R) :
    Impl.parseValue (hrr k inv isZero lt c) (.lit (.flt x)) vc
      = (.ok (.ptr (fun i => if i = 0 then x else 0) true), vc) := by
  simp only [Impl.parseValue, Impl.evalM, Impl.un, Impl.finish, Impl.Num.toK, hrr,
    Alg.Hrr.Impl.identity]
  congr 3
  funext i
  split <;> simp

/-- VTB vocabulary: the number `x` parses to `x · eye(m)/√m` (flattened) — not to the HRR
identity -/
theorem vtb_parse_number (m : ℕ) (s sinv : R) (vc : Vocab R (Alg.Vec2 m R)) (x : R) :
    Impl.parseValue (vtb m inv isZero lt s sinv) (.lit (.flt x)) vc
      = (.ok (.ptr (fun p => if p.1 = p.2 then sinv * x else 0) true), vc) := by
  simp only [Impl.parseValue, Impl.evalM, Impl.un, Impl.finish, Impl.Num.toK, vtb,
    Alg.Vtb.Impl.identity]
  congr 3
  funext p
  split <;> simp

theorem tvtb_parse_number (m : ℕ) (s sinv : R) (vc : Vocab R (Alg.Vec2 m R)) (x : R) :
    Impl.parseValue (tvtb m inv isZero lt s sinv) (.lit (.flt x)) vc
      = (.ok (.ptr (fun p => if p.1 = p.2 then sinv * x else 0) true), vc) := by
  simp only [Impl.parseValue, Impl.evalM, Impl.un, Impl.finish, Impl.Num.toK, tvtb,
    Alg.Tvtb.Impl.identity]
  congr 3
  funext p
  split <;> simp

/-- `AbsorbingElement` in a VTB/TVTB vocabulary raises `NotImplementedError` -/
theorem vtb_absorbing_raises (m : ℕ) (s sinv : R) (vc : Vocab R (Alg.Vec2 m R)) :
    Impl.parseValue (vtb m inv isZero lt s sinv) (.name "AbsorbingElement") vc
        = (.error .notImplemented, vc) ∧
    Impl.parseValue (tvtb m inv isZero lt s sinv) (.name "AbsorbingElement") vc
        = (.error .notImplemented, vc) := by
  constructor <;>
    simp [Impl.parseValue, Impl.evalM, Impl.lookup, Impl.special, Impl.un, vtb, tvtb]

end Inst
end C10

/-
C05 — helper lemmas: reads of tabulated arrays, mixed-radix index arithmetic, closed forms of the
transform matrices built by `MatrixMult`, `inversion_matrix`, `swapping_matrix`, and the
steady-state formulas of `ProdNet.eval` / `Block.run`.
-/
import SpaModel.Basic.C05
import Mathlib.Tactic.Ring
import Mathlib.Tactic.Linarith
import Mathlib.Algebra.BigOperators.Ring.Finset
import Mathlib.Algebra.BigOperators.Intervals

namespace C05
variable {R : Type*} [CommRing R]

theorem rd_tab {n i : ℕ} (f : ℕ → R) (h : i < n) : rd (tab n f) i = f i := by
  simp [rd, tab, h]

theorem rd2_tab2 {nr nc r c : ℕ} (F : ℕ → ℕ → R) (hr : r < nr) (hc : c < nc) :
    rd2 (tab2 nr nc F) r c = F r c := by
  simp [rd2, tab2, hr, hc]

theorem rd_mvA {nr nc r : ℕ} (M : Array (Array R)) (v : Array R) (h : r < nr) :
    rd (mvA nr nc M v) r = ∑ c ∈ Finset.range nc, rd2 M r c * rd v c := by
  simp [mvA, rd_tab _ h]

theorem sum_range_mul (f : ℕ → R) (a b : ℕ) :
    ∑ t ∈ Finset.range (a * b), f t = ∑ q ∈ Finset.range a, ∑ r ∈ Finset.range b, f (q * b + r) := by
  induction a with
  | zero => simp
  | succ a ih =>
    rw [Nat.succ_mul, Finset.sum_range_add, ih, Finset.sum_range_succ]

theorem radix_lt {a b q r : ℕ} (hq : q < a) (hr : r < b) : q * b + r < a * b := by
  calc q * b + r < q * b + b := by omega
    _ = (q + 1) * b := by ring
    _ ≤ a * b := Nat.mul_le_mul_right b hq

theorem radix_mod {b q r : ℕ} (hr : r < b) : (q * b + r) % b = r := by
  rw [Nat.mul_comm, Nat.mul_add_mod, Nat.mod_eq_of_lt hr]

theorem radix_div {b q r : ℕ} (hr : r < b) : (q * b + r) / b = q := by
  rw [Nat.mul_comm, Nat.mul_add_div (by omega), Nat.div_eq_of_lt hr, Nat.add_zero]

theorem radix_unique {b q r q' r' : ℕ} (hr : r < b) (hr' : r' < b) (h : q * b + r = q' * b + r') :
    q = q' ∧ r = r' := by
  constructor
  · have := congrArg (· / b) h
    simpa [radix_div hr, radix_div hr'] using this
  · have := congrArg (· % b) h
    simpa [radix_mod hr, radix_mod hr'] using this

/-- generic steady-state formula of a `linear → product → linear` network -/
theorem ProdNet.rd_eval (N : ProdNet R) (A B : Array R) {o : ℕ} (ho : o < N.nO) :
    rd (N.eval A B) o = ∑ c ∈ Finset.range N.nC, rd2 N.TO o c *
      ((∑ a ∈ Finset.range N.nL, rd2 N.TL c a * rd A a) *
       (∑ b ∈ Finset.range N.nR, rd2 N.TR c b * rd B b)) := by
  unfold ProdNet.eval
  simp only []
  rw [rd_mvA _ _ ho]
  refine Finset.sum_congr rfl fun c hc => ?_
  have hc' := Finset.mem_range.mp hc
  rw [rd_tab _ hc', rd_mvA _ _ hc', rd_mvA _ _ hc']

namespace MatrixMult
open Impl

theorem cIndex_radix (D2 D3 i j k : ℕ) : cIndex D2 D3 i j k = (i * D3 + k) * D2 + j := by
  unfold cIndex; ring

theorem transformLeftF_radix {D1 D2 D3 i j k : ℕ} (hi : i < D1) (hj : j < D2) (hk : k < D3) (a : ℕ) :
    transformLeftF (R := R) D1 D2 D3 ((i * D3 + k) * D2 + j) a = if a = i * D2 + j then 1 else 0 := by
  unfold transformLeftF
  congr 1
  apply propext
  constructor
  · rintro ⟨i', _, j', hj', k', hk', hc, ha⟩
    rw [cIndex_radix] at hc
    obtain ⟨h1, h2⟩ := radix_unique hj hj' hc
    obtain ⟨h3, _⟩ := radix_unique hk hk' h1
    subst h2 h3
    rw [ha, leftCol]; ring
  · intro ha
    exact ⟨i, hi, j, hj, k, hk, (cIndex_radix ..).symm, by rw [ha, leftCol]; ring⟩

theorem transformRightF_radix {D1 D2 D3 i j k : ℕ} (hi : i < D1) (hj : j < D2) (hk : k < D3) (b : ℕ) :
    transformRightF (R := R) D1 D2 D3 ((i * D3 + k) * D2 + j) b = if b = j * D3 + k then 1 else 0 := by
  unfold transformRightF
  congr 1
  apply propext
  constructor
  · rintro ⟨i', _, j', hj', k', hk', hc, hb⟩
    rw [cIndex_radix] at hc
    obtain ⟨h1, h2⟩ := radix_unique hj hj' hc
    obtain ⟨_, h4⟩ := radix_unique hk hk' h1
    subst h2 h4
    rw [hb, rightCol]; ring
  · intro hb
    exact ⟨i, hi, j, hj, k, hk, (cIndex_radix ..).symm, by rw [hb, rightCol]; ring⟩


theorem transformCF_radix {D1 D2 D3 q j : ℕ} (hq : q < D1 * D3) (hj : j < D2) (o : ℕ) :
    transformCF (R := R) D1 D2 D3 o (q * D2 + j) = if o = q then 1 else 0 := by
  unfold transformCF
  have : q * D2 + j < D1 * D2 * D3 := by
    have := radix_lt hq hj
    calc q * D2 + j < D1 * D3 * D2 := this
      _ = D1 * D2 * D3 := by ring
  simp [this, radix_div hj]

/-- the network computes `out[i*D3+k] = Σ_j A[i*D2+j]·B[j*D3+k]`, for every shape and all inputs -/
theorem eval_eq_matMul (D1 D2 D3 : ℕ) (A B : Array R) {i k : ℕ} (hi : i < D1) (hk : k < D3) :
    rd ((build D1 D2 D3).eval A B) (i * D3 + k) = Spec.matMul D2 D3 A B i k := by
  have ho : i * D3 + k < D1 * D3 := radix_lt hi hk
  rw [ProdNet.rd_eval _ _ _ (by exact ho)]
  show ∑ c ∈ Finset.range (D1 * D2 * D3), _ = _
  have e : D1 * D2 * D3 = (D1 * D3) * D2 := by ring
  rw [e, sum_range_mul, Finset.sum_eq_single (i * D3 + k)]
  · unfold Spec.matMul
    refine Finset.sum_congr rfl fun j hj => ?_
    have hj := Finset.mem_range.mp hj
    have hc : (i * D3 + k) * D2 + j < D1 * D2 * D3 := by rw [e]; exact radix_lt ho hj
    simp only [build]
    rw [rd2_tab2 _ ho hc, transformCF_radix ho hj, if_pos rfl, one_mul]
    congr 1
    · rw [Finset.sum_eq_single (i * D2 + j)]
      · rw [rd2_tab2 _ hc (radix_lt hi hj), transformLeftF_radix hi hj hk, if_pos rfl, one_mul]
      · intro a ha hne
        rw [rd2_tab2 _ hc (Finset.mem_range.mp ha), transformLeftF_radix hi hj hk, if_neg hne, zero_mul]
      · intro h; exact absurd (Finset.mem_range.mpr (radix_lt hi hj)) h
    · rw [Finset.sum_eq_single (j * D3 + k)]
      · rw [rd2_tab2 _ hc (radix_lt hj hk), transformRightF_radix hi hj hk, if_pos rfl, one_mul]
      · intro b hb hne
        rw [rd2_tab2 _ hc (Finset.mem_range.mp hb), transformRightF_radix hi hj hk, if_neg hne, zero_mul]
      · intro h; exact absurd (Finset.mem_range.mpr (radix_lt hj hk)) h
  · intro q hq hne
    refine Finset.sum_eq_zero fun j hj => ?_
    have hq := Finset.mem_range.mp hq
    have hj := Finset.mem_range.mp hj
    have hc : q * D2 + j < D1 * D2 * D3 := by rw [e]; exact radix_lt hq hj
    simp only [build]
    rw [rd2_tab2 _ ho hc, transformCF_radix hq hj, if_neg (Ne.symm hne), zero_mul]
  · intro h; exact absurd (Finset.mem_range.mpr ho) h

end MatrixMult

/-! ### VTB / TVTB index lemmas -/
namespace Block

theorem inv_index {m a b : ℕ} (_ha : a < m) (hb : b < m) :
    (m * (a * m + b)) % (m * m) + (m * (a * m + b)) / (m * m) = b * m + a := by
  have e : m * (a * m + b) = a * (m * m) + b * m := by ring
  have hlt : b * m < m * m := Nat.mul_lt_mul_of_pos_right hb (by omega)
  rw [e, radix_mod hlt, radix_div hlt]

theorem swap_index {m a b : ℕ} (hb : b < m) :
    (a * m + b) / m + m * ((a * m + b) % m) = b * m + a := by
  rw [radix_div hb, radix_mod hb]; ring

theorem divmod_lt {m c : ℕ} (hc : c < m * m) : c / m < m ∧ c % m < m := by
  have hm : 0 < m := by
    rcases Nat.eq_zero_or_pos m with h | h
    · subst h; simp at hc
    · exact h
  exact ⟨Nat.div_lt_of_lt_mul hc, Nat.mod_lt _ hm⟩

theorem invF_apply {m a b c : ℕ} (ha : a < m) (hb : b < m) (hc : c < m * m) :
    invF (R := R) (m * m) m (a * m + b) c = if c = b * m + a then 1 else 0 := by
  obtain ⟨h1, h2⟩ := divmod_lt hc
  have e : c = c / m * m + c % m := (Nat.div_add_mod' c m).symm
  unfold invF
  congr 1
  apply propext
  constructor
  · rintro ⟨_, h⟩
    rw [e, inv_index h1 h2] at h
    obtain ⟨h3, h4⟩ := radix_unique hb h1 h
    rw [e, ← h3, ← h4]
  · intro h
    refine ⟨hc, ?_⟩
    rw [h, inv_index hb ha]

theorem swapF_apply {m a b : ℕ} (ha : a < m) (hb : b < m) (c : ℕ) :
    swapF (R := R) (m * m) m (a * m + b) c = if c = b * m + a then 1 else 0 := by
  unfold swapF
  rw [swap_index hb]
  simp [radix_lt ha hb]

theorem rd_applyT_none {d i : ℕ} (v : Array R) (h : i < d) : rd (applyT d none v) i = rd v i := by
  simp [applyT, rd_tab _ h]

theorem rd_applyT_inv {m a b : ℕ} (v : Array R) (ha : a < m) (hb : b < m) :
    rd (applyT (m * m) (some (tab2 (m * m) (m * m) (invF (m * m) m))) v) (a * m + b) = rd v (b * m + a) := by
  have hr := radix_lt ha hb
  have hr' := radix_lt hb ha
  simp only [applyT]
  rw [rd_mvA _ _ hr, Finset.sum_eq_single (b * m + a)]
  · rw [rd2_tab2 _ hr hr', invF_apply ha hb hr', if_pos rfl, one_mul]
  · intro c hc hne
    rw [rd2_tab2 _ hr (Finset.mem_range.mp hc), invF_apply ha hb (Finset.mem_range.mp hc), if_neg hne, zero_mul]
  · intro h; exact absurd (Finset.mem_range.mpr hr') h

theorem rd_applyT_swap {m a b : ℕ} (v : Array R) (ha : a < m) (hb : b < m) :
    rd (applyT (m * m) (some (tab2 (m * m) (m * m) (swapF (m * m) m))) v) (a * m + b) = rd v (b * m + a) := by
  have hr := radix_lt ha hb
  have hr' := radix_lt hb ha
  simp only [applyT]
  rw [rd_mvA _ _ hr, Finset.sum_eq_single (b * m + a)]
  · rw [rd2_tab2 _ hr hr', swapF_apply ha hb, if_pos rfl, one_mul]
  · intro c hc hne
    rw [rd2_tab2 _ hr (Finset.mem_range.mp hc), swapF_apply ha hb, if_neg hne, zero_mul]
  · intro h; exact absurd (Finset.mem_range.mpr hr') h

/-- the block structure shared by VTB and TVTB: output entry `(i, r)` is
`s · Σ_c mat'(r, c) · vec(i, c)` where `mat'` is what reaches `mm.input_left` -/
theorem run_formula (N : BlockNet R) {m : ℕ} (hd : N.d = m * m) (hm : N.m = m)
    (hmm : N.matmul = MatrixMult.Impl.build m m 1) (s : R) (L Rt : Array R) {i r : ℕ}
    (hi : i < m) (hr : r < m) :
    rd (run N s L Rt) (i * m + r) = s * ∑ c ∈ Finset.range m,
      rd (applyT (m * m) N.mmLeftT (applyT (m * m) N.mat.T (pick N.mat.src L Rt))) (r * m + c) *
      rd (applyT (m * m) N.vec.T (pick N.vec.src L Rt)) (i * m + c) := by
  obtain ⟨d, m', mat, vec, mmL, mm⟩ := N
  simp only at hd hm hmm
  have hm' := hm.symm
  subst hd hmm hm'
  unfold run
  simp only []
  rw [rd_tab _ (radix_lt hi hr), radix_div hr, radix_mod hr]
  congr 1
  have : ∀ (f : Fin m → Array R), rd2 (Array.ofFn f) i r = rd (f ⟨i, hi⟩) r := by
    intro f; simp [rd2, rd, hi]
  rw [this]
  have h := MatrixMult.eval_eq_matMul m m 1
    (applyT (m * m) mmL (applyT (m * m) mat.T (pick mat.src L Rt)))
    (tab m fun c => rd (applyT (m * m) vec.T (pick vec.src L Rt)) (i * m + c)) hr (Nat.zero_lt_one)
  simp only [Nat.mul_one, Nat.add_zero] at h
  rw [h]
  unfold MatrixMult.Spec.matMul
  refine Finset.sum_congr rfl fun c hc => ?_
  rw [Nat.mul_one, Nat.add_zero, rd_tab _ (Finset.mem_range.mp hc)]

end Block
end C05

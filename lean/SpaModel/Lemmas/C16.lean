/-
C16 — helper lemmas about chains of slices, running offsets and `gather`
(core Lean only).
-/
import SpaModel.Basic.C16

namespace C16
open Impl Spec

/-! ### chains -/

theorem chain_le {a b : Nat} {l : List Slice} (h : Chain a l b) : a ≤ b := by
  induction l generalizing a with
  | nil => simp [Chain] at h; omega
  | cons sl rest ih =>
    obtain ⟨_, h2⟩ := h
    have := ih h2
    omega

theorem chain_append {a c : Nat} {l₁ l₂ : List Slice} :
    Chain a (l₁ ++ l₂) c ↔ ∃ b, Chain a l₁ b ∧ Chain b l₂ c := by
  induction l₁ generalizing a with
  | nil => simp [Chain]
  | cons sl rest ih =>
    simp only [List.cons_append, Chain, ih]
    constructor
    · rintro ⟨h1, b, h2, h3⟩; exact ⟨b, ⟨h1, h2⟩, h3⟩
    · rintro ⟨b, ⟨h1, h2⟩, h3⟩; exact ⟨h1, b, h2, h3⟩

theorem chain_cumOffsets (off : Nat) (l : List Nat) : Chain off (cumOffsets off l) (off + l.sum) := by
  induction l generalizing off with
  | nil => simp [cumOffsets, Chain]
  | cons n rest ih =>
    simp only [cumOffsets, Chain, List.sum_cons, true_and]
    have := ih (off + n)
    rwa [Nat.add_assoc] at this

theorem cumOffsets_shift (off k : Nat) (l : List Nat) :
    (cumOffsets off l).map (Slice.shift k) = cumOffsets (off + k) l := by
  induction l generalizing off with
  | nil => simp [cumOffsets]
  | cons n rest ih =>
    simp only [cumOffsets, List.map_cons, ih, Slice.shift]
    congr 2
    omega

theorem cumOffsets_len (off : Nat) (l : List Nat) : (cumOffsets off l).map (·.len) = l := by
  induction l generalizing off with
  | nil => simp [cumOffsets]
  | cons n rest ih => simp [cumOffsets, ih]

theorem cumOffsets_length (off : Nat) (l : List Nat) : (cumOffsets off l).length = l.length := by
  have := congrArg List.length (cumOffsets_len off l)
  simpa using this

theorem cumOffsets_append (off : Nat) (l₁ l₂ : List Nat) :
    cumOffsets off (l₁ ++ l₂) = cumOffsets off l₁ ++ cumOffsets (off + l₁.sum) l₂ := by
  induction l₁ generalizing off with
  | nil => simp [cumOffsets]
  | cons n rest ih => simp [cumOffsets, ih, Nat.add_assoc]

theorem cumOffsets_pos (off : Nat) (l : List Nat) (h : ∀ n ∈ l, 0 < n) :
    ∀ sl ∈ cumOffsets off l, 0 < sl.len := by
  induction l generalizing off with
  | nil => simp [cumOffsets]
  | cons n rest ih =>
    intro sl hsl
    simp only [cumOffsets, List.mem_cons] at hsl
    rcases hsl with rfl | hsl
    · exact h n (by simp)
    · exact ih (off + n) (fun m hm => h m (by simp [hm])) sl hsl

/-- the multiplication form `i * e` used on the input side of `EnsembleArray`
is the running-offset form used on its output side -/
theorem range_mul_eq_cumOffsets (off n e : Nat) :
    ((List.range n).map fun i => (⟨off + i * e, (i + 1) * e - i * e⟩ : Slice)) =
      cumOffsets off (List.replicate n e) := by
  induction n generalizing off with
  | zero => simp [cumOffsets]
  | succ n ih =>
    rw [List.range_succ_eq_map, List.replicate_succ]
    simp only [List.map_cons, List.map_map, cumOffsets]
    rw [← ih (off + e)]
    simp only [Nat.zero_mul, Nat.add_zero, Nat.zero_add, Nat.one_mul, Nat.sub_zero]
    congr 1
    apply List.map_congr_left
    intro i _
    simp only [Function.comp, Nat.succ_eq_add_one]
    have e1 : (i + 1) * e = i * e + e := Nat.succ_mul i e
    have e2 : (i + 1 + 1) * e = i * e + e + e := by rw [Nat.succ_mul, e1]
    rw [e2, e1]
    congr 1 <;> omega

theorem chain_getElem_bounds {a b : Nat} {l : List Slice} (h : Chain a l b) {k : Nat} {sl : Slice}
    (hk : l[k]? = some sl) : a ≤ sl.start ∧ sl.start + sl.len ≤ b := by
  induction l generalizing a k with
  | nil => simp at hk
  | cons s rest ih =>
    obtain ⟨h1, h2⟩ := h
    cases k with
    | zero =>
      simp at hk; subst hk
      have := chain_le h2
      omega
    | succ k =>
      simp at hk
      have := ih h2 hk
      omega

/-- every entry of `[a, b)` lies in exactly one slice of the chain, no entry
outside lies in any -/
theorem chain_count {a b : Nat} {l : List Slice} (h : Chain a l b) (j : Nat) :
    l.countP (fun sl => decide (sl.start ≤ j ∧ j < sl.start + sl.len)) = if a ≤ j ∧ j < b then 1 else 0 := by
  induction l generalizing a with
  | nil => simp [Chain] at h; subst h; simp
  | cons sl rest ih =>
    obtain ⟨h1, h2⟩ := h
    have hle := chain_le h2
    rw [List.countP_cons, ih h2]
    simp only [decide_eq_true_eq]
    split <;> split <;> split <;> omega

/-! ### gather -/

theorem gather_cumOffsets {β : Type} (off : Nat) (vals : List (List β)) (j : Nat) :
    gather (cumOffsets off (vals.map List.length)) vals j =
      if off ≤ j then (vals.flatten[j - off]?).toList else [] := by
  induction vals generalizing off with
  | nil => simp [gather, cumOffsets]
  | cons v vs ih =>
    simp only [List.map_cons, cumOffsets, gather, ih, List.flatten_cons, List.getElem?_append]
    by_cases h1 : off ≤ j
    · by_cases h2 : j < off + v.length
      · have : ¬ (off + v.length ≤ j) := by omega
        have h3 : j - off < v.length := by omega
        simp [h1, h2, this, h3]
      · have : off + v.length ≤ j := by omega
        have h3 : ¬ (j - off < v.length) := by omega
        have h4 : j - (off + v.length) = j - off - v.length := by omega
        simp [h1, h2, this, h3, h4]
    · have : ¬ (off + v.length ≤ j) := by omega
      simp [h1, this]

/-- the represented vectors of a chain of slices, laid end to end, are the
source vector itself -/
theorem flatten_ensVec {a b : Nat} {l : List Slice} (h : Chain a l b) (x : Nat → Rat)
    (j : Nat) (h1 : a ≤ j) (h2 : j < b) :
    ((l.map fun si => ensVec si x).flatten)[j - a]? = some (x j) := by
  induction l generalizing a with
  | nil => simp [Chain] at h; omega
  | cons sl rest ih =>
    obtain ⟨hs, hc⟩ := h
    simp only [List.map_cons, List.flatten_cons, List.getElem?_append]
    have hlen : (ensVec sl x).length = sl.len := by simp [ensVec]
    by_cases hlt : j - a < sl.len
    · simp only [hlen, hlt, if_true]
      simp only [ensVec]
      rw [List.getElem?_map, List.getElem?_range hlt]
      simp only [Option.map_some]
      congr 2
      omega
    · simp only [hlen, hlt, if_false]
      have := ih hc (by omega)
      have e : j - a - sl.len = j - (a + sl.len) := by omega
      rw [e]
      exact this

/-! ### locating the unit behind an entry -/

theorem locate_below {a b : Nat} {l : List Slice} (h : Chain a l b) (k j : Nat) (hj : j < a) :
    locateFrom k l j = [] := by
  induction l generalizing a k with
  | nil => simp [locateFrom]
  | cons sl rest ih =>
    obtain ⟨hs, hc⟩ := h
    simp only [locateFrom]
    rw [ih hc (k + 1) (by omega)]
    have : ¬ (sl.start ≤ j ∧ j < sl.start + sl.len) := by omega
    simp [this]

/-- entry `sl.start + t` of the node is wired to unit `t` of the `k`-th member and to nothing else -/
theorem locate_at {a b : Nat} {l : List Slice} (h : Chain a l b) (k0 k : Nat) (sl : Slice)
    (hk : l[k]? = some sl) (t : Nat) (ht : t < sl.len) :
    locateFrom k0 l (sl.start + t) = [(k0 + k, t)] := by
  induction l generalizing a k0 k with
  | nil => simp at hk
  | cons s rest ih =>
    obtain ⟨hs, hc⟩ := h
    cases k with
    | zero =>
      simp at hk; subst hk
      simp only [locateFrom]
      rw [locate_below hc (k0 + 1) _ (by omega)]
      have : s.start ≤ s.start + t ∧ s.start + t < s.start + s.len := by omega
      simp [this]
    | succ k =>
      simp at hk
      have hb := chain_getElem_bounds hc hk
      simp only [locateFrom]
      rw [ih hc (k0 + 1) k hk]
      have : ¬ (s.start ≤ sl.start + t ∧ sl.start + t < s.start + s.len) := by omega
      simp [this]
      omega

/-- every entry of the covered range is wired to exactly one unit, and that
unit's value in the flattened activity vector sits at the entry's own index -/
theorem neuron_flat {β : Type} {a b : Nat} {l : List Slice} (h : Chain a l b)
    (act : Nat → Nat → Rat → β) (u : Nat → Rat) (k0 m : Nat) (h1 : a ≤ m) (h2 : m < b) :
    ∃ k t sl, l[k]? = some sl ∧ t < sl.len ∧ sl.start + t = m ∧
      locateFrom k0 l m = [(k0 + k, t)] ∧
      ((neuronVals act u k0 l).flatten)[m - a]? = some (act (k0 + k) t (u m)) := by
  induction l generalizing a k0 with
  | nil => simp [Chain] at h; omega
  | cons sl rest ih =>
    obtain ⟨hs, hc⟩ := h
    by_cases hlt : m < a + sl.len
    · refine ⟨0, m - a, sl, by simp, by omega, by omega, ?_, ?_⟩
      · simp only [locateFrom]
        rw [locate_below hc (k0 + 1) _ hlt]
        have : sl.start ≤ m ∧ m < sl.start + sl.len := by omega
        simp [this]
        omega
      · simp only [neuronVals, List.flatten_cons, List.getElem?_append, List.length_map, List.length_range]
        have : m - a < sl.len := by omega
        simp only [this, if_true]
        rw [List.getElem?_map, List.getElem?_range this]
        simp only [Option.map_some, Nat.add_zero]
        have e : sl.start + (m - a) = m := by omega
        rw [e]
    · obtain ⟨k, t, s', hk, ht, hst, hloc, hval⟩ := ih hc (k0 + 1) (by omega)
      refine ⟨k + 1, t, s', by simpa using hk, ht, hst, ?_, ?_⟩
      · simp only [locateFrom]
        rw [hloc]
        have : ¬ (sl.start ≤ m ∧ m < sl.start + sl.len) := by omega
        simp [this]
        omega
      · simp only [neuronVals, List.flatten_cons, List.getElem?_append, List.length_map, List.length_range]
        have : ¬ (m - a < sl.len) := by omega
        simp only [this, if_false]
        have e : m - a - sl.len = m - (a + sl.len) := by omega
        rw [e, hval]
        have e' : k0 + 1 + k = k0 + (k + 1) := by omega
        rw [e']

theorem neuronVals_lengths {β : Type} (act : Nat → Nat → Rat → β) (u : Nat → Rat) (k0 : Nat) (l : List Slice) :
    (neuronVals act u k0 l).map List.length = l.map (·.len) := by
  induction l generalizing k0 with
  | nil => simp [neuronVals]
  | cons sl rest ih => simp [neuronVals, ih]

/-! ### the neuron loop -/

theorem neuronLoop_ok (N i : Nat) (ns : List Nat) (hpos : ∀ n ∈ ns, 0 < n) (hfit : i + ns.sum ≤ N) :
    neuronLoop N i ns = .ok (cumOffsets i ns) := by
  induction ns generalizing i with
  | nil => simp [neuronLoop, cumOffsets]
  | cons n rest ih =>
    have hn : 0 < n := hpos n (by simp)
    simp only [List.sum_cons] at hfit
    have hsl : pySlice i (i + n) N = ⟨i, n⟩ := by
      simp only [pySlice]
      congr 1 <;> omega
    simp only [neuronLoop, hsl, cumOffsets]
    rw [ih (i + n) (fun m hm => hpos m (by simp [hm])) (by omega)]
    simp [connectOk, hn]

/-- if the ensembles' neurons do not fit the node, the loop raises (a clipped slice
fails Nengo's size check); see `neuronLoop_ok` for the fitting case -/
theorem neuronLoop_overflow (N i : Nat) (ns : List Nat) (hi : i ≤ N) (h : N < i + ns.sum) :
    neuronLoop N i ns = .error .sizeMismatch := by
  induction ns generalizing i with
  | nil => simp at h; omega
  | cons n rest ih =>
    simp only [List.sum_cons] at h
    cases hc : connectOk (pySlice i (i + n) N).len n with
    | false => simp [neuronLoop, hc]
    | true =>
      have hc' := hc
      simp only [connectOk, pySlice, Bool.and_eq_true] at hc'
      have h1 := of_decide_eq_true hc'.1
      have h2 := of_decide_eq_true hc'.2
      simp only [neuronLoop, hc]
      rw [ih (i + n) (by omega) (by omega)]
      simp

/-! ### the documented split, `add_output` building blocks -/

theorem connectOk_true {pre post : Nat} (h : pre = post) (hp : 0 < pre) : connectOk pre post = true := by
  subst h
  simp [connectOk, hp]

theorem parts_eq_cumOffsets (d s : Nat) :
    Spec.parts d s =
      cumOffsets 0 (1 :: (if 1 < s then [s - 1] else []) ++ List.replicate (d / s - 1) s) := by
  have hrem : ∀ off, off = s →
      ((List.range (d / s - 1)).map fun i => (⟨s + i * s, s⟩ : Slice)) =
        cumOffsets off (List.replicate (d / s - 1) s) := by
    intro off hoff
    subst hoff
    rw [← range_mul_eq_cumOffsets]
    apply List.map_congr_left
    intro i _
    have e1 : (i + 1) * off = i * off + off := Nat.succ_mul i off
    rw [e1]
    congr 1
    omega
  unfold Spec.parts
  by_cases h : 1 < s
  · simp only [h, if_true, List.cons_append, List.nil_append, cumOffsets]
    rw [hrem (0 + 1 + (s - 1)) (by omega)]
  · simp only [h, if_false, List.cons_append, List.nil_append, cumOffsets]
    have hs : s = 0 ∨ s = 1 := by omega
    rcases hs with rfl | rfl
    · simp [cumOffsets]
    · rw [hrem (0 + 1) (by omega)]

/-- sum of the part sizes `1 + (s-1) + (d/s - 1)·s` -/
theorem parts_sum (d s : Nat) (hs : 0 < s) (hd : 0 < d) (hdiv : s ∣ d) :
    (1 :: (if 1 < s then [s - 1] else []) ++ List.replicate (d / s - 1) s).sum = d := by
  obtain ⟨q, rfl⟩ := hdiv
  rw [Nat.mul_div_cancel_left q hs]
  have hq : 0 < q := Nat.pos_of_mul_pos_left hd
  obtain ⟨q', rfl⟩ : ∃ q', q = q' + 1 := ⟨q - 1, by omega⟩
  simp only [List.cons_append, List.sum_cons, List.sum_append, List.sum_replicate_nat, Nat.add_sub_cancel]
  rw [Nat.mul_succ, Nat.mul_comm s q']
  by_cases h : 1 < s
  · simp [h]; omega
  · have : s = 1 := by omega
    subst this
    simp
    omega

theorem chain_eq_cumOffsets {a b : Nat} {l : List Slice} (h : Chain a l b) :
    l = cumOffsets a (l.map (·.len)) := by
  induction l generalizing a with
  | nil => simp [cumOffsets]
  | cons sl rest ih =>
    obtain ⟨h1, h2⟩ := h
    simp only [List.map_cons, cumOffsets]
    rw [← ih h2]
    cases sl
    simp_all

theorem zipWith_const {γ : Type} (g : Fn) (x : Nat → Rat) (l : List Slice) (es : List γ)
    (h : es.length = l.length) :
    List.zipWith (fun si f => f (ensVec si x)) l (es.map fun _ => g) = l.map fun si => g (ensVec si x) := by
  induction l generalizing es with
  | nil => simp
  | cons sl rest ih =>
    cases es with
    | nil => simp at h
    | cons e es => simp at h; simp [ih es h]

theorem parts_neurons_sum (npd d s : Nat) (hs : 0 < s) (hd : 0 < d) (hdiv : s ∣ d) :
    (((Spec.parts d s).map fun p => (p.len, npd * p.len)).map (·.2)).sum = npd * d := by
  have hp := parts_sum d s hs hd hdiv
  have hl := congrArg (List.map (·.len)) (parts_eq_cumOffsets d s)
  rw [cumOffsets_len] at hl
  have : (((Spec.parts d s).map fun p => (p.len, npd * p.len)).map (·.2)) =
      ((Spec.parts d s).map (·.len)).map (npd * ·) := by
    simp [List.map_map, Function.comp_def]
  have hmul : ∀ L : List Nat, (L.map (npd * ·)).sum = npd * L.sum := by
    intro L
    induction L with
    | nil => simp
    | cons n rest ih => simp [ih, Nat.mul_add]
  rw [this, hl, hmul, hp]

theorem eaAddOutput_one (n e : Nat) (f : Fn) (hpos : 0 < n → 0 < probeSize f e) :
    eaAddOutput n e (.one f) =
      .ok ⟨n * probeSize f e, List.replicate n f, cumOffsets 0 (List.replicate n (probeSize f e))⟩ := by
  have hany : (List.replicate n (probeSize f e)).any (· == 0) = false := by
    rw [List.any_eq_false]
    intro x hx
    simp only [List.mem_replicate] at hx
    have := hpos (by omega)
    simp
    omega
  simp only [eaAddOutput, List.map_replicate, hany, Bool.false_eq_true, if_false, List.sum_replicate_nat]

theorem assemble_ok (hasSecond hasRem : Bool) (f1 f2 : Fn) (A B : Nat) (r : Out) (hA : 0 < A)
    (hB : if hasSecond then 0 < B else B = 0) (hR : if hasRem then 0 < r.size else r = ⟨0, [], []⟩) :
    assemble hasSecond hasRem f1 f2 A B r = .ok
      { size := A + B + r.size
        fns := f1 :: (if hasSecond then [f2] else []) ++ r.fns
        outs := ⟨0, A⟩ :: (if hasSecond then [⟨A, B⟩] else []) ++ r.outs.map (Slice.shift (A + B)) } := by
  have e1 : pySliceTo A (A + B + r.size) = ⟨0, A⟩ := by simp only [pySliceTo]; congr 1; omega
  have e2 : pySlice A (A + B) (A + B + r.size) = ⟨A, B⟩ := by simp only [pySlice]; congr 1 <;> omega
  have e3 : pySliceFrom (A + B) (A + B + r.size) = ⟨A + B, r.size⟩ := by
    simp only [pySliceFrom]; congr 1 <;> omega
  have c1 : ¬ (connectOk A A = false) := by
    rw [connectOk_true rfl hA]; simp
  have c2 : ¬ (hasSecond = true ∧ connectOk B B = false) := by
    rintro ⟨h1, h2⟩
    rw [h1] at hB
    rw [connectOk_true rfl (by simpa using hB)] at h2
    cases h2
  have c3 : ¬ (hasRem = true ∧ connectOk r.size r.size = false) := by
    rintro ⟨h1, h2⟩
    rw [h1] at hR
    rw [connectOk_true rfl (by simpa using hR)] at h2
    cases h2
  unfold assemble
  simp only [e1, e2, e3]
  rw [if_neg c1, if_neg c2, if_neg c3]

end C16

/-
C20 — helper lemmas (dot products, norms, the loop of `text`, the tuple sort, two-decimal rounding,
combinations).  The property theorems are in SpaModel/Props/C20.lean.
-/
import SpaModel.Basic.C20
import Mathlib.Tactic.Ring
import Mathlib.Tactic.Linarith
import Mathlib.Tactic.FieldSimp
import Mathlib.Tactic.Positivity
import Mathlib.Algebra.Order.Field.Rat
import Mathlib.Algebra.Order.Ring.Rat
import Mathlib.Data.Rat.Defs

namespace C20
open Impl

theorem dot_nil_left (x : Vec) : Impl.dot [] x = 0 := by cases x <;> rfl
theorem dot_nil_right (x : Vec) : Impl.dot x [] = 0 := by cases x <;> rfl

theorem dot_eq_spec (x v : Vec) : Impl.dot v x = Spec.dot x v := by
  induction x generalizing v with
  | nil => simp [Spec.dot, dot_nil_right]
  | cons a xs ih =>
    cases v with
    | nil =>
      simp only [Spec.dot, dot_nil_left]
      symm
      apply List.sum_eq_zero
      intro y hy
      simp only [List.mem_map] at hy
      obtain ⟨k, _, rfl⟩ := hy
      simp
    | cons b vs =>
      simp only [Impl.dot, Spec.dot, List.length_cons, List.range_succ_eq_map, List.map_cons,
        List.sum_cons, List.map_map]
      have := ih vs
      simp only [Spec.dot] at this
      rw [this]
      simp [Function.comp_def, mul_comm]

theorem dot_comm (x v : Vec) : Impl.dot x v = Impl.dot v x := by
  induction x generalizing v with
  | nil => simp [dot_nil_left, dot_nil_right]
  | cons a xs ih => cases v with
    | nil => rfl
    | cons b vs => simp [Impl.dot, ih vs, mul_comm]

theorem dot_self_nonneg (v : Vec) : 0 ≤ Impl.dot v v := by
  induction v with
  | nil => simp [Impl.dot]
  | cons a xs ih => simp only [Impl.dot]; nlinarith [mul_self_nonneg a]

theorem sq_le_dot_self {a : Rat} {v : Vec} (h : a ∈ v) : a * a ≤ Impl.dot v v := by
  induction v with
  | nil => cases h
  | cons b xs ih =>
    simp only [Impl.dot]
    rcases List.mem_cons.1 h with rfl | h
    · linarith [dot_self_nonneg xs]
    · linarith [ih h, mul_self_nonneg b]

theorem dot_self_eq_zero_iff (v : Vec) : Impl.dot v v = 0 ↔ Spec.IsZero v := by
  constructor
  · intro h a ha
    have := sq_le_dot_self ha
    have h2 := mul_self_nonneg a
    have : a * a = 0 := le_antisymm (by linarith) h2
    exact mul_self_eq_zero.1 this
  · intro h
    induction v with
    | nil => rfl
    | cons b xs ih =>
      simp only [Impl.dot]
      have hb : b = 0 := h b (by simp)
      have := ih (fun a ha => h a (by simp [ha]))
      simp [hb, this]

theorem dot_zero_right (x v : Vec) (h : Spec.IsZero x) : Impl.dot v x = 0 := by
  induction x generalizing v with
  | nil => exact dot_nil_right v
  | cons a xs ih =>
    cases v with
    | nil => rfl
    | cons b vs =>
      simp only [Impl.dot]
      have ha : a = 0 := h a (by simp)
      rw [ih vs (fun c hc => h c (by simp [hc])), ha]; simp


/-! ### norms -/

theorem isNormOf_iff (n : Rat) (v : Vec) : Spec.IsNormOf n v ↔ 0 ≤ n ∧ n * n = Impl.dot v v := by
  simp [Spec.IsNormOf, dot_eq_spec]

theorem norm_eq_zero_iff {n : Rat} {v : Vec} (h : Spec.IsNormOf n v) : n = 0 ↔ Spec.IsZero v := by
  rw [isNormOf_iff] at h
  rw [← dot_self_eq_zero_iff, ← h.2]
  exact mul_self_eq_zero.symm

theorem norm_pos {n : Rat} {v : Vec} (h : Spec.IsNormOf n v) (hz : ¬ Spec.IsZero v) : 0 < n := by
  rcases lt_or_eq_of_le h.1 with h1 | h1
  · exact h1
  · exact absurd ((norm_eq_zero_iff h).1 h1.symm) hz

/-- a vector with an entry of magnitude ≥ eps has norm ≥ eps: the floor of
`np.maximum(norm, eps)` is inactive for every non-zero vector of doubles -/
theorem eps_le_norm {n eps : Rat} {v : Vec} (h : Spec.IsNormOf n v) (he : 0 < eps)
    (hg : Spec.OnGrid eps v) (hz : ¬ Spec.IsZero v) : eps ≤ n := by
  rw [isNormOf_iff] at h
  have : ∃ a ∈ v, a ≠ 0 := by
    by_contra hc
    apply hz
    intro a ha
    by_contra hne
    exact hc ⟨a, ha, hne⟩
  obtain ⟨a, ha, hne⟩ := this
  have h1 := sq_le_dot_self ha
  have h2 : eps * eps ≤ a * a := by
    rcases hg a ha hne with h3 | h3 <;> nlinarith
  by_contra hlt
  have hlt : n < eps := not_le.1 hlt
  nlinarith [h.1]

theorem floorNorm_pos (nrm : Vec → Rat) {eps : Rat} (he : 0 < eps) (v : Vec) :
    0 < floorNorm nrm eps v := by
  unfold floorNorm
  split
  · exact he
  · next h => exact lt_of_lt_of_le he (not_lt.1 h)

theorem floorNorm_eq_of_le (nrm : Vec → Rat) {eps : Rat} {v : Vec} (h : eps ≤ nrm v) :
    floorNorm nrm eps v = nrm v := by
  unfold floorNorm
  rw [if_neg (not_lt.2 h)]

theorem isZeroB_iff (v : Vec) : Spec.isZeroB v = true ↔ Spec.IsZero v := by
  simp [Spec.isZeroB, Spec.IsZero]

/-! ### the loop of `text` -/

/-- the condition under which the loop appends `m` when `k` terms are already listed -/
def takeCond (mn mx : Option Int) (thr : Option Rat) (k : Nat) (m : Match) : Bool :=
  belowMin mn k || (!atMax mx k && above thr m.1)

/-- how many further terms the loop appends -/
def keep (mn mx : Option Int) (thr : Option Rat) : Nat → List Match → Nat
  | _, [] => 0
  | k, m :: ms => if takeCond mn mx thr k m then keep mn mx thr (k + 1) ms + 1 else 0

theorem loop_eq (mn mx : Option Int) (thr : Option Rat) (ms r : List Match) :
    loop mn mx thr ms r = r ++ ms.take (keep mn mx thr r.length ms) := by
  induction ms generalizing r with
  | nil => simp [loop, keep]
  | cons m ms ih =>
    simp only [loop, keep, takeCond]
    by_cases h1 : belowMin mn r.length = true
    · simp [h1, ih, List.length_append]
    · by_cases h2 : atMax mx r.length = true
      · simp [h1, h2]
      · by_cases h3 : above thr m.1 = true
        · simp [h1, h2, h3, ih, List.length_append]
        · simp [h1, h2, h3]

theorem keep_le (mn mx : Option Int) (thr : Option Rat) (k : Nat) (ms : List Match) :
    keep mn mx thr k ms ≤ ms.length := by
  induction ms generalizing k with
  | nil => simp [keep]
  | cons m ms ih =>
    simp only [keep]
    split
    · simp [ih (k + 1)]
    · simp

/-- every listed term passed the loop's test at its position -/
theorem keep_pass (mn mx : Option Int) (thr : Option Rat) (k : Nat) (ms : List Match)
    (i : Nat) (hi : i < keep mn mx thr k ms) (hl : i < ms.length) :
    takeCond mn mx thr (k + i) ms[i] = true := by
  induction ms generalizing k i with
  | nil => simp [keep] at hi
  | cons m ms ih =>
    simp only [keep] at hi
    split at hi
    · next hc =>
      cases i with
      | zero => simpa using hc
      | succ j =>
        have := ih (k + 1) j (by omega) (by simpa using hl)
        simpa [Nat.add_assoc, Nat.add_comm 1 j] using this
    · omega

/-- the loop stops before the end only at a term that fails the test -/
theorem keep_stop (mn mx : Option Int) (thr : Option Rat) (k : Nat) (ms : List Match)
    (hl : keep mn mx thr k ms < ms.length) :
    takeCond mn mx thr (k + keep mn mx thr k ms) ms[keep mn mx thr k ms] = false := by
  induction ms generalizing k with
  | nil => simp at hl
  | cons m ms ih =>
    simp only [keep] at hl ⊢
    split
    · next hc =>
      rw [if_pos hc] at hl
      have := ih (k + 1) (by simpa using hl)
      simpa [Nat.add_assoc, Nat.add_comm 1] using this
    · next hc => simpa using hc

/-! ### the sort -/

theorem leM_iff (a b : Match) : leM a b = true ↔ Spec.le a b := by
  simp [leM, Spec.le]

theorem spec_le_total (a b : Match) : Spec.le a b ∨ Spec.le b a := by
  unfold Spec.le
  rcases lt_trichotomy a.1 b.1 with h | h | h
  · exact Or.inl (Or.inl h)
  · rcases String.le_total a.2 b.2 with h2 | h2
    · exact Or.inl (Or.inr ⟨h, h2⟩)
    · exact Or.inr (Or.inr ⟨h.symm, h2⟩)
  · exact Or.inr (Or.inl h)

theorem spec_le_trans {a b c : Match} (h1 : Spec.le a b) (h2 : Spec.le b c) : Spec.le a c := by
  unfold Spec.le at *
  rcases h1 with h1 | ⟨h1, k1⟩ <;> rcases h2 with h2 | ⟨h2, k2⟩
  · exact Or.inl (lt_trans h1 h2)
  · exact Or.inl (h2 ▸ h1)
  · exact Or.inl (h1 ▸ h2)
  · exact Or.inr ⟨h1.trans h2, String.le_trans k1 k2⟩

theorem spec_le_antisymm {a b : Match} (h1 : Spec.le a b) (h2 : Spec.le b a) : a = b := by
  unfold Spec.le at *
  rcases h1 with h1 | ⟨h1, k1⟩ <;> rcases h2 with h2 | ⟨h2, k2⟩
  · exact absurd h1 (lt_asymm h2)
  · rw [h2] at h1; exact absurd h1 (lt_irrefl _)
  · rw [h1] at h2; exact absurd h2 (lt_irrefl _)
  · exact Prod.ext h1 (String.le_antisymm k1 k2)

theorem spec_le_sim {a b : Match} (h : Spec.le a b) : a.1 ≤ b.1 := by
  rcases h with h | ⟨h, _⟩
  · exact le_of_lt h
  · exact le_of_eq h

theorem sortedDesc_perm (l : List Match) : (sortedDesc l).Perm l :=
  (List.reverse_perm _).trans (List.mergeSort_perm l leM)

/-- after `sort(); reverse()` every term is ≥ (in tuple order) every later one -/
theorem sortedDesc_pairwise (l : List Match) : (sortedDesc l).Pairwise (fun a b => Spec.le b a) := by
  unfold sortedDesc
  rw [List.pairwise_reverse]
  have := List.pairwise_mergeSort (le := leM)
    (fun a b c h1 h2 => (leM_iff a c).2 (spec_le_trans ((leM_iff a b).1 h1) ((leM_iff b c).1 h2)))
    (fun a b => by
      rcases spec_le_total a b with h | h
      · simp [(leM_iff a b).2 h]
      · simp [(leM_iff b a).2 h]) l
  exact this.imp (fun h => (leM_iff _ _).1 h)

/-- the sorted list is the only descending arrangement: the result does not
depend on the sorting algorithm -/
theorem sorted_unique {l₁ l₂ : List Match} (hp : l₁.Perm l₂)
    (h1 : l₁.Pairwise (fun a b => Spec.le b a)) (h2 : l₂.Pairwise (fun a b => Spec.le b a)) : l₁ = l₂ :=
  List.Perm.eq_of_pairwise (fun _ _ _ _ hab hba => spec_le_antisymm hba hab) h1 h2 hp

/-! ### two-decimal rounding -/

/-- the integer facts behind `round2`: with `100·num = den·f + r`, `0 ≤ r < den`,
the result `k` satisfies `|k·den − 100·num|·2 ≤ den` -/
theorem round2_int (x : Rat) :
    2 * (round2 x * x.den - 100 * x.num) ≤ x.den ∧ 2 * (100 * x.num - round2 x * x.den) ≤ x.den := by
  have hq : (0 : Int) < x.den := by exact_mod_cast x.den_pos
  have h1 := Int.emod_add_mul_ediv (100 * x.num) x.den
  have h2 := Int.emod_nonneg (100 * x.num) (ne_of_gt hq)
  have h3 := Int.emod_lt_of_pos (100 * x.num) hq
  unfold round2
  simp only
  generalize (100 * x.num) % (x.den : Int) = r at *
  generalize (100 * x.num) / (x.den : Int) = f at *
  generalize (x.den : Int) = q at *
  generalize 100 * x.num = p at *
  subst h1
  split
  · constructor <;> nlinarith
  · split
    · constructor <;> nlinarith
    · split <;> constructor <;> nlinarith

theorem round2_error (x : Rat) :
    (round2 x : Rat) / 100 - x ≤ 1 / 200 ∧ x - (round2 x : Rat) / 100 ≤ 1 / 200 := by
  obtain ⟨h1, h2⟩ := round2_int x
  have hq : (0 : Rat) < x.den := by exact_mod_cast x.den_pos
  have h1' : (2 : Rat) * (round2 x * x.den - 100 * x.num) ≤ x.den := by exact_mod_cast h1
  have h2' : (2 : Rat) * (100 * x.num - round2 x * x.den) ≤ x.den := by exact_mod_cast h2
  have hnum : (x.num : Rat) = x * x.den := (Rat.mul_den_eq_num x).symm
  rw [hnum] at h1' h2'
  constructor
  · by_contra hc
    have hc := not_le.1 hc
    nlinarith
  · by_contra hc
    have hc := not_le.1 hc
    nlinarith

theorem round2_mono {x y : Rat} (h : x ≤ y) : round2 x ≤ round2 y := by
  rcases eq_or_lt_of_le h with rfl | hlt
  · exact le_refl _
  · have hx := (round2_error x).1
    have hy := (round2_error y).2
    have : (round2 x : Rat) < round2 y + 1 := by linarith
    have : round2 x < round2 y + 1 := by exact_mod_cast this
    omega

/-- a value with at most two decimals is printed exactly -/
theorem round2_exact (k : Int) : round2 ((k : Rat) / 100) = k := by
  have h1 := (round2_error ((k : Rat) / 100)).1
  have h2 := (round2_error ((k : Rat) / 100)).2
  have a : (round2 ((k : Rat) / 100) : Rat) < k + 1 := by linarith
  have b : (k : Rat) < round2 ((k : Rat) / 100) + 1 := by linarith
  have a' : round2 ((k : Rat) / 100) < k + 1 := by exact_mod_cast a
  have b' : k < round2 ((k : Rat) / 100) + 1 := by exact_mod_cast b
  omega

/-! ### combinations -/

theorem mem_combos_cons {α : Type} (a : α) (l : List α) (p : α × α) :
    p ∈ combos (a :: l) ↔ (p.1 = a ∧ p.2 ∈ l) ∨ p ∈ combos l := by
  simp only [combos, List.mem_append, List.mem_map]
  constructor
  · rintro (⟨y, hy, rfl⟩ | h)
    · exact Or.inl ⟨rfl, hy⟩
    · exact Or.inr h
  · rintro (⟨h1, h2⟩ | h)
    · exact Or.inl ⟨p.2, h2, by rw [← h1]⟩
    · exact Or.inr h

theorem combos_length {α : Type} (l : List α) : 2 * (combos l).length = l.length * (l.length - 1) := by
  induction l with
  | nil => rfl
  | cons a l ih =>
    simp only [combos, List.length_append, List.length_map, List.length_cons, Nat.add_sub_cancel]
    rw [Nat.mul_add, ih]
    cases l.length with
    | zero => rfl
    | succ n => simp only [Nat.add_sub_cancel]; ring

theorem combos_mem {α : Type} {l : List α} {p : α × α} (h : p ∈ combos l) : p.1 ∈ l ∧ p.2 ∈ l := by
  induction l with
  | nil => cases h
  | cons a l ih =>
    rcases (mem_combos_cons a l p).1 h with ⟨h1, h2⟩ | h
    · exact ⟨by simp [h1], by simp [h2]⟩
    · exact ⟨by simp [(ih h).1], by simp [(ih h).2]⟩

/-- `combinations(l, 2)` lists exactly the pairs of positions `i < j` -/
theorem combos_index {α : Type} (l : List α) (p : α × α) :
    p ∈ combos l ↔ ∃ i j, ∃ (_ : i < j) (hj : j < l.length), p = (l[i], l[j]) := by
  induction l with
  | nil => simp [combos]
  | cons a l ih =>
    rw [mem_combos_cons, ih]
    constructor
    · rintro (⟨h1, h2⟩ | ⟨i, j, hij, hj, rfl⟩)
      · obtain ⟨j, hj, hjeq⟩ := List.getElem_of_mem h2
        refine ⟨0, j + 1, by omega, by simpa using hj, ?_⟩
        ext <;> simp [h1, hjeq]
      · exact ⟨i + 1, j + 1, by omega, by simpa using hj, by simp⟩
    · rintro ⟨i, j, hij, hj, rfl⟩
      cases i with
      | zero =>
        cases j with
        | zero => omega
        | succ j => left; simp
      | succ i =>
        cases j with
        | zero => omega
        | succ j =>
          right
          exact ⟨i, j, by omega, by simpa using hj, by simp⟩

theorem combos_nodup {α : Type} {l : List α} (h : l.Nodup) : (combos l).Nodup := by
  induction l with
  | nil => simp [combos]
  | cons a l ih =>
    rw [List.nodup_cons] at h
    simp only [combos]
    rw [List.nodup_append]
    refine ⟨?_, ih h.2, ?_⟩
    · exact h.2.map (fun x y hxy => by simpa using hxy)
    · intro p hp q hq hpq
      subst hpq
      simp only [List.mem_map] at hp
      obtain ⟨y, _, rfl⟩ := hp
      exact h.1 (combos_mem hq).1

theorem combos_complete {α : Type} {l : List α} {x y : α} (hx : x ∈ l) (hy : y ∈ l) (hne : x ≠ y) :
    (x, y) ∈ combos l ∨ (y, x) ∈ combos l := by
  induction l with
  | nil => cases hx
  | cons a l ih =>
    rw [mem_combos_cons, mem_combos_cons]
    rcases List.mem_cons.1 hx with rfl | hx' <;> rcases List.mem_cons.1 hy with rfl | hy'
    · exact absurd rfl hne
    · exact Or.inl (Or.inl ⟨rfl, hy'⟩)
    · exact Or.inr (Or.inl ⟨rfl, hx'⟩)
    · rcases ih hx' hy' with h | h
      · exact Or.inl (Or.inr h)
      · exact Or.inr (Or.inr h)

theorem combos_ne {α : Type} {l : List α} (h : l.Nodup) {x y : α} (hp : (x, y) ∈ combos l) : x ≠ y := by
  induction l with
  | nil => cases hp
  | cons a l ih =>
    rw [List.nodup_cons] at h
    rcases (mem_combos_cons a l (x, y)).1 hp with ⟨h1, h2⟩ | h'
    · intro hxy
      simp only at h1 h2
      rw [← hxy, h1] at h2
      exact h.1 h2
    · exact ih h.2 h'

theorem combos_not_both {α : Type} {l : List α} (h : l.Nodup) {x y : α} (hp : (x, y) ∈ combos l) :
    (y, x) ∉ combos l := by
  induction l with
  | nil => cases hp
  | cons a l ih =>
    rw [List.nodup_cons] at h
    intro hq
    rcases (mem_combos_cons a l (x, y)).1 hp with ⟨h1, h2⟩ | h' <;>
      rcases (mem_combos_cons a l (y, x)).1 hq with ⟨k1, k2⟩ | k'
    · simp only at h1 h2 k1 k2
      rw [h1] at k2; exact h.1 k2
    · simp only at h1 h2
      have := (combos_mem k').2
      simp only at this
      rw [h1] at this; exact h.1 this
    · simp only at k1 k2
      have := (combos_mem h').2
      simp only at this
      rw [k1] at this; exact h.1 this
    · exact ih h.2 h' k'

/-! ### `x + "*" + y` is injective on keys without `*` -/

theorem star_split {x x' y y' : List Char} (hx : '*' ∉ x) (hx' : '*' ∉ x')
    (h : x ++ '*' :: y = x' ++ '*' :: y') : x = x' ∧ y = y' := by
  induction x generalizing x' with
  | nil =>
    cases x' with
    | nil => simpa using h
    | cons c cs =>
      simp only [List.nil_append, List.cons_append, List.cons.injEq] at h
      exact absurd (by simp [← h.1]) hx'
  | cons c cs ih =>
    cases x' with
    | nil =>
      simp only [List.nil_append, List.cons_append, List.cons.injEq] at h
      exact absurd (by simp [h.1]) hx
    | cons c' cs' =>
      simp only [List.cons_append, List.cons.injEq] at h
      have := ih (fun hc => hx (by simp [hc])) (fun hc => hx' (by simp [hc])) h.2
      exact ⟨by rw [h.1, this.1], this.2⟩

theorem star_inj {x x' y y' : String} (hx : '*' ∉ x.toList) (hx' : '*' ∉ x'.toList)
    (h : x ++ "*" ++ y = x' ++ "*" ++ y') : x = x' ∧ y = y' := by
  have h2 := congrArg String.toList h
  simp only [String.toList_append] at h2
  have h3 : ("*" : String).toList = ['*'] := rfl
  rw [h3, List.append_assoc, List.append_assoc] at h2
  have := star_split hx hx' (by simpa using h2)
  exact ⟨String.toList_inj.1 this.1, String.toList_inj.1 this.2⟩

end C20

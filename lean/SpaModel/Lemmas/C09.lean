/-
C09 — helper lemmas: how each code path of the model moves a vocabulary record.
-/
import SpaModel.Basic.C09

namespace C09
open Impl Spec

/-! ### settings / growth are a preorder -/

theorem SameSettings.refl (V : Vocab) : SameSettings V V := ⟨rfl, rfl, rfl, rfl, rfl, rfl⟩

theorem SameSettings.trans {A B C : Vocab} (h : SameSettings A B) (h' : SameSettings B C) :
    SameSettings A C := by
  obtain ⟨a1, a2, a3, a4, a5, a6⟩ := h
  obtain ⟨b1, b2, b3, b4, b5, b6⟩ := h'
  exact ⟨b1.trans a1, b2.trans a2, b3.trans a3, b4.trans a4, b5.trans a5, b6.trans a6⟩

theorem GrowsBy.refl (V : Vocab) : GrowsBy V V [] := ⟨SameSettings.refl V, by simp, by simp⟩

theorem GrowsBy.trans {A B C : Vocab} {l l' : List (String × Vec)}
    (h : GrowsBy A B l) (h' : GrowsBy B C l') : GrowsBy A C (l ++ l') := by
  obtain ⟨s, k, v⟩ := h
  obtain ⟨s', k', v'⟩ := h'
  exact ⟨SameSettings.trans s s', by simp [k', k], by simp [v', v]⟩

theorem Grows.refl (V : Vocab) : Grows V V := ⟨[], GrowsBy.refl V⟩

theorem Grows.trans {A B C : Vocab} (h : Grows A B) (h' : Grows B C) : Grows A C := by
  obtain ⟨l, h⟩ := h
  obtain ⟨l', h'⟩ := h'
  exact ⟨l ++ l', GrowsBy.trans h h'⟩

/-- only the generator position differs -/
theorem GrowsBy.gen (V : Vocab) (g : List Vec) : GrowsBy V { V with gen := g } [] :=
  ⟨⟨rfl, rfl, rfl, rfl, rfl, rfl⟩, by simp, by simp⟩

theorem Inv.gen {V : Vocab} (h : Inv V) (g : List Vec) : Inv { V with gen := g } :=
  ⟨h.len, h.idxKeys, h.idxVals, h.nodup, h.dims, h.names⟩

/-- under the invariant the abstract state grows by exactly `added` -/
theorem zip_fst_snd {α β} (l : List (α × β)) : (l.map Prod.fst).zip (l.map Prod.snd) = l := by
  induction l with
  | nil => rfl
  | cons x xs ih => simp [ih]

theorem GrowsBy.abs {V V' : Vocab} {l : List (String × Vec)} (h : GrowsBy V V' l) (hi : Inv V) :
    abs V' = abs V ++ l := by
  obtain ⟨_, k, v⟩ := h
  unfold Spec.abs
  rw [k, v, List.zip_append hi.len]
  rw [zip_fst_snd]

/-! ### membership in `_key2idx` -/

theorem any_key_iff (l : List (String × Nat)) (key : String) :
    l.any (fun e => e.1 == key) = true ↔ key ∈ l.map Prod.fst := by
  simp only [List.any_eq_true, List.mem_map, beq_iff_eq]

theorem stored_iff {V : Vocab} (hi : Inv V) (key : String) :
    V.key2idx.any (fun e => e.1 == key) = true ↔ key ∈ V.keys := by
  rw [any_key_iff, hi.idxKeys]

/-! ### `add` -/

/-- the only way `add` succeeds, and what it does then -/
theorem add_ok {id : Nat} {V V' : Vocab} {key : String} {d : Data} (h : add id V key d = .ok V') :
    ∃ p, toPtr id V d = .ok p ∧ nameOk key = true ∧
      V.key2idx.any (fun e => e.1 == key) = false ∧ p.vec.length = V.dims ∧
      (p.vocab = none ∨ p.vocab = some id) ∧ p.alg = V.alg ∧
      V' = { V with key2idx := V.key2idx ++ [(key, V.key2idx.length)],
                    keys := V.keys ++ [key], vecs := V.vecs ++ [p.vec] } := by
  unfold add at h
  split at h
  · cases h
  · next hn =>
    split at h
    · cases h
    · next p hp =>
      split at h
      · cases h
      · next hdup =>
        split at h
        · cases h
        · next hlen =>
          split at h
          · cases h
          · next hfor =>
            injection h with h
            refine ⟨p, hp, by simpa using hn, Bool.eq_false_iff.mpr hdup, by simpa using hlen, ?_, ?_, h.symm⟩
            · simp only [Bool.or_eq_true, Bool.and_eq_true, not_or, not_and] at hfor
              cases hv : p.vocab with
              | none => exact Or.inl rfl
              | some j =>
                right
                have := hfor.1
                simp [hv] at this
                simp [this]
            · simp only [Bool.or_eq_true, not_or] at hfor
              simpa using hfor.2

theorem add_growsBy {id : Nat} {V V' : Vocab} {key : String} {d : Data}
    (h : add id V key d = .ok V') :
    ∃ p, toPtr id V d = .ok p ∧ GrowsBy V V' [(key, p.vec)] := by
  obtain ⟨p, hp, _, _, _, _, _, rfl⟩ := add_ok h
  exact ⟨p, hp, ⟨rfl, rfl, rfl, rfl, rfl, rfl⟩, by simp, by simp⟩

theorem add_inv {id : Nat} {V V' : Vocab} {key : String} {d : Data}
    (h : add id V key d = .ok V') (hi : Inv V) : Inv V' := by
  obtain ⟨p, _, hn, hdup, hlen, _, _, rfl⟩ := add_ok h
  have hnot : key ∉ V.keys := by
    rw [← stored_iff hi]; simp [hdup]
  have hl : V.key2idx.length = V.keys.length := by
    have := congrArg List.length hi.idxKeys
    simpa using this
  refine ⟨?_, ?_, ?_, ?_, ?_, ?_⟩
  · simp [hi.len]
  · simp [hi.idxKeys]
  · simp [hi.idxVals, hl, List.range_succ]
  · rw [List.nodup_append]
    refine ⟨hi.nodup, by simp, ?_⟩
    intro a ha b hb
    simp at hb
    subst hb
    intro e
    exact hnot (e ▸ ha)
  · intro v hv
    simp only [List.mem_append, List.mem_singleton] at hv
    rcases hv with hv | rfl
    · exact hi.dims v hv
    · exact hlen
  · intro k hk
    simp only [List.mem_append, List.mem_singleton] at hk
    rcases hk with hk | rfl
    · exact hi.names k hk
    · exact hn

/-! ### `Moves`: what every code path does to a vocabulary record -/

/-- `V'` is `V` after some calls: it only grew at the end, and the invariant survived -/
structure Moves (V V' : Vocab) : Prop where
  grows : Grows V V'
  inv : Inv V → Inv V'

theorem Moves.refl (V : Vocab) : Moves V V := ⟨Grows.refl V, id⟩

theorem Moves.trans {A B C : Vocab} (h : Moves A B) (h' : Moves B C) : Moves A C :=
  ⟨Grows.trans h.grows h'.grows, fun i => h'.inv (h.inv i)⟩

theorem Moves.gen (V : Vocab) (g : List Vec) : Moves V { V with gen := g } :=
  ⟨⟨[], GrowsBy.gen V g⟩, fun i => Inv.gen i g⟩

theorem Moves.add {id : Nat} {V V' : Vocab} {key : String} {d : Data}
    (h : add id V key d = .ok V') : Moves V V' := by
  obtain ⟨p, _, hg⟩ := add_growsBy h
  exact ⟨⟨_, hg⟩, add_inv h⟩

theorem createPointer_snd (id : Nat) (V : Vocab) (n : Nat) (t : Transform) :
    (createPointer id V n t).2 = { V with gen := (cpLoop V t n V.gen none).2 } := rfl

theorem createPointer_moves (id : Nat) (V : Vocab) (n : Nat) (t : Transform) :
    Moves V (createPointer id V n t).2 := by
  rw [createPointer_snd]; exact Moves.gen V _

theorem autoCreate_moves (id : Nat) (V : Vocab) (key : String) : Moves V (autoCreate id V key).2 := by
  unfold autoCreate
  have h := createPointer_moves id V 100 .none
  split
  · next h' => rw [h'] at h; exact h
  · next o V1 h' =>
    rw [h'] at h
    split
    · exact h
    · next ha => exact h.trans (Moves.add ha)

theorem getitem_moves (id : Nat) (V : Vocab) (key : String) : Moves V (getitem id V key).2 := by
  unfold getitem
  split
  · exact Moves.refl V
  · split
    · exact Moves.refl V
    · split
      · have := autoCreate_moves id V key
        split <;> next h => (rw [h] at this; exact this)
      · exact Moves.refl V

/-- no look-up changes a strict vocabulary, and no vocabulary changes when the name is found -/
theorem getitem_pure (id : Nat) (V : Vocab) (key : String)
    (h : V.strict = true ∨ contains V key = true) : (getitem id V key).2 = V := by
  unfold getitem
  split
  · rfl
  · split
    · rfl
    · split
      · next hc => rcases h with h | h <;> simp [h] at hc
      · rfl

theorem evalTerms_moves (id : Nat) (V : Vocab) (acc : Option Vec) (ts : List String) :
    Moves V (evalTerms id V acc ts).2 := by
  induction ts generalizing V acc with
  | nil => exact Moves.refl V
  | cons t ts ih =>
    unfold evalTerms
    have hg := getitem_moves id V t
    split
    · next h => rw [h] at hg; exact hg
    · next h => rw [h] at hg; exact hg.trans (ih _ _)

theorem evalTerms_strict (id : Nat) (V : Vocab) (acc : Option Vec) (ts : List String)
    (h : V.strict = true) : (evalTerms id V acc ts).2 = V := by
  induction ts generalizing acc with
  | nil => rfl
  | cons t ts ih =>
    unfold evalTerms
    have hg := getitem_pure id V t (Or.inl h)
    split
    · next h' => rw [h'] at hg; exact hg
    · next h' => rw [h'] at hg; simp only at hg; subst hg; exact ih _

theorem parse_moves (id : Nat) (V : Vocab) (text : String) : Moves V (parse id V text).2 := by
  unfold parse
  split
  · exact Moves.refl V
  · exact Moves.refl V
  · next ts _ =>
    have := evalTerms_moves id V none ts
    split <;> next h => (rw [h] at this; exact this)

theorem parse_strict (id : Nat) (V : Vocab) (text : String) (h : V.strict = true) :
    (parse id V text).2 = V := by
  unfold parse
  split
  · rfl
  · rfl
  · next ts _ =>
    have := evalTerms_strict id V none ts h
    split <;> next h' => (rw [h'] at this; exact this)

theorem finishItem_moves (id : Nat) (V : Vocab) (name : String) (r : Except Err (Option Ptr) × Vocab)
    (hr : Moves V r.2) : Moves V (finishItem id name r).2 := by
  obtain ⟨res, V1⟩ := r
  unfold finishItem
  cases res with
  | error e => exact hr
  | ok o =>
    simp only
    cases ha : add id V1 (pyStrip name) (optData o) with
    | error e => exact hr
    | ok V2 => exact hr.trans (Moves.add ha)

theorem populateItem_moves (id : Nat) (V : Vocab) (item : String) :
    Moves V (populateItem id V item).2 := by
  unfold populateItem
  split
  · next name valueExpr _ =>
    have hp := parse_moves id V (pyStrip valueExpr)
    split
    · next h => rw [h] at hp; exact hp
    · next p V1 h => rw [h] at hp; exact finishItem_moves id V name (.ok (some p), V1) hp
  · split
    · next name tr _ =>
      split
      · exact Moves.refl V
      · next t _ => exact finishItem_moves id V name _ (createPointer_moves id V 100 t)
    · exact finishItem_moves id V item _ (createPointer_moves id V 100 .none)

theorem populateItems_moves (id : Nat) (V : Vocab) (items : List String) :
    Moves V (populateItems id V items).2 := by
  induction items generalizing V with
  | nil => exact Moves.refl V
  | cons it rest ih =>
    unfold populateItems
    have h := populateItem_moves id V it
    split
    · next h' => rw [h'] at h; exact h
    · next h' => rw [h'] at h; exact h.trans (ih _)

theorem populate_moves (id : Nat) (V : Vocab) (text : String) : Moves V (populate id V text).2 := by
  unfold populate
  split
  · exact Moves.refl V
  · exact populateItems_moves id V _

theorem subsetLoop_moves (id sid : Nat) (V S : Vocab) (keys : List String) :
    Moves V (subsetLoop id sid V S keys).2 := by
  induction keys generalizing V S with
  | nil => exact Moves.refl V
  | cons k ks ih =>
    unfold subsetLoop
    have h := getitem_moves id V k
    split
    · next h' => rw [h'] at h; exact h
    · next p V1 h' =>
      rw [h'] at h
      split
      · exact h
      · exact h.trans (ih _ _)

theorem subsetLoop_strict (id sid : Nat) (V S : Vocab) (keys : List String) (hs : V.strict = true) :
    (subsetLoop id sid V S keys).2 = V := by
  induction keys generalizing S with
  | nil => rfl
  | cons k ks ih =>
    unfold subsetLoop
    have h := getitem_pure id V k (Or.inl hs)
    split
    · next h' => rw [h'] at h; exact h
    · next p V1 h' =>
      rw [h'] at h
      simp only at h
      subst h
      split
      · rfl
      · exact ih _

theorem createSubset_moves (id sid : Nat) (V : Vocab) (keys : List String) :
    Moves V (createSubset id sid V keys).2 := subsetLoop_moves id sid V _ keys

theorem transformPopulate_moves (oid : Nat) (O : Vocab) (missing : List String) (pop : Option Bool)
    (order : List String) : Moves O (transformPopulate oid O missing pop order).2 := by
  unfold transformPopulate
  split
  · exact Moves.refl O
  · split
    · have := populate_moves oid O (";".intercalate (inOrder order missing))
      split <;> next h => (rw [h] at this; exact this)
    · exact Moves.refl O

theorem transformTo_moves (sid oid : Nat) (S O : Vocab) (keys : Option (List String))
    (pop : Option Bool) (order order2 : List String) :
    Moves S (transformTo sid oid S O keys pop order order2).2.1 ∧
    Moves O (transformTo sid oid S O keys pop order order2).2.2 := by
  unfold transformTo
  simp only
  have hO := transformPopulate_moves oid O
    ((((keys.getD S.keys).filter (fun k => S.key2idx.any (fun e => e.1 == k))).eraseDups).filter
      (fun k => !contains O k)) pop order
  split
  · next h => rw [h] at hO; exact ⟨Moves.refl S, hO⟩
  · next still O1 h =>
    rw [h] at hO
    generalize inOrder order2 _ = common
    have h1 := createSubset_moves sid 2 S common
    split
    · next h => rw [h] at h1; exact ⟨h1, hO⟩
    · next h =>
      rw [h] at h1
      have h2 := createSubset_moves oid 2 O1 common
      split
      · next h' => rw [h'] at h2; exact ⟨h1, hO.trans h2⟩
      · next h' => rw [h'] at h2; exact ⟨h1, hO.trans h2⟩

end C09

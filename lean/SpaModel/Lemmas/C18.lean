/-
C18 — helper lemmas: invariants of `Impl.run`, shape of `resolve` / `coerce`.
-/
import SpaModel.Basic.C18

namespace C18
open Impl

/-- an invariant of every step is an invariant of the run -/
theorem run_inv (m : Nat) (P : St → Prop) (hstep : ∀ s op, P s → P (step m s op))
    (ops : List Op) : ∀ s, P s → P (run m s ops) := by
  induction ops with
  | nil => intro s h; exact h
  | cons op ops ih => intro s h; exact ih _ (hstep s op h)

theorem run_append (m : Nat) (s : St) (a b : List Op) :
    run m s (a ++ b) = run m (run m s a) b := by
  simp [run, List.foldl_append]

/-! ### `resolve` -/

theorem configDefault_some {ctx : List Frame} {mp : MapId} {g : Option Nat}
    (h : configDefault ctx = some (mp, g)) : ∃ f ∈ ctx, f.map = some mp ∧ f.gov = g := by
  induction ctx with
  | nil => simp [configDefault] at h
  | cons f fs ih =>
    unfold configDefault at h
    split at h
    · next mp' hm =>
      simp at h
      exact ⟨f, by simp, by rw [hm, h.1], h.2⟩
    · obtain ⟨f', hf', h'⟩ := ih h
      exact ⟨f', by simp [hf'], h'⟩

theorem configDefault_none {ctx : List Frame} (h : configDefault ctx = none) :
    ∀ f ∈ ctx, f.map = none := by
  induction ctx with
  | nil => simp
  | cons f fs ih =>
    unfold configDefault at h
    split at h
    · simp at h
    · next hm =>
      intro f' hf'
      simp at hf'
      rcases hf' with rfl | hf'
      · exact hm
      · exact ih h f' hf'

/-- the four ways `Network.__init__` obtains its map -/
inductive Resolved (m self : Nat) (vocabs seed : Option Nat) (ctx : List Frame) (W : World) :
    MapId × Option Nat × World → Prop where
  | explicit (k : Nat) : vocabs = some k → Resolved m self vocabs seed ctx W (.expl m k, some k, W)
  | config (mp : MapId) (g : Option Nat) : vocabs = none → configDefault ctx = some (mp, g) →
      Resolved m self vocabs seed ctx W (mp, g, W)
  | master (r : Frame) (mp : MapId) : vocabs = none → configDefault ctx = none →
      rootOf ctx = some r → W.master.lookup (m, r.net) = some mp →
      Resolved m self vocabs seed ctx W (mp, none, W)
  | freshStored (r : Frame) (sd : Option Nat) : vocabs = none → configDefault ctx = none →
      rootOf ctx = some r → W.master.lookup (m, r.net) = none →
      sd = (match seed with | some s => some s | none => r.seed) →
      Resolved m self vocabs seed ctx W
        (.fresh m self, none, ⟨((m, r.net), .fresh m self) :: W.master,
                               (.fresh m self, emptyMap sd) :: W.maps⟩)
  | freshTop : vocabs = none → configDefault ctx = none → rootOf ctx = none →
      Resolved m self vocabs seed ctx W
        (.fresh m self, none, ⟨W.master, (.fresh m self, emptyMap seed) :: W.maps⟩)

theorem resolve_cases (m self : Nat) (vocabs seed : Option Nat) (ctx : List Frame) (W : World) :
    Resolved m self vocabs seed ctx W (resolve m self vocabs seed ctx W) := by
  unfold resolve
  split
  · next k => exact .explicit k rfl
  · split
    · next mp g h => exact .config mp g rfl h
    · next hc =>
      split
      · next r hr =>
        split
        · next mp hm => exact .master r mp rfl hc hr hm
        · next hm => exact .freshStored r _ rfl hc hr hm rfl
      · next hr => exact .freshTop rfl hc hr

theorem rootOf_nil : rootOf [] = none := rfl

theorem rootOf_cons_of_ne (f : Frame) {ctx : List Frame} (h : ctx ≠ []) :
    rootOf (f :: ctx) = rootOf ctx := by
  unfold rootOf
  exact List.getLast?_cons_of_ne_nil h |>.trans rfl |> fun e => by simpa using e

theorem rootOf_singleton (f : Frame) : rootOf [f] = some f := rfl

theorem rootOf_none_iff {ctx : List Frame} : rootOf ctx = none ↔ ctx = [] := by
  unfold rootOf; simp

theorem rootOf_mem {ctx : List Frame} {r : Frame} (h : rootOf ctx = some r) : r ∈ ctx := by
  unfold rootOf at h
  exact List.mem_of_getLast? h

/-! ### map contents only grow -/

/-- `map[d]` in the process state `W` -/
def entry (W : World) (mp : MapId) (d : Int) : Option VocId := (mapState W mp).entries.lookup d

/-- every `map[d]` that exists keeps its value -/
def World.Le (W W' : World) : Prop := ∀ mp d v, entry W mp d = some v → entry W' mp d = some v

theorem World.Le.refl (W : World) : World.Le W W := fun _ _ _ h => h
theorem World.Le.trans {A B C : World} (h : World.Le A B) (h' : World.Le B C) : World.Le A C :=
  fun mp d v e => h' mp d v (h mp d v e)

theorem mapState_cons (W : World) (mp mp' : MapId) (st : MapState) (ms : List ((Nat × Nat) × MapId)) :
    mapState ⟨ms, (mp, st) :: W.maps⟩ mp' = if mp' = mp then st else mapState W mp' := by
  unfold mapState
  by_cases h : mp' = mp
  · subst h; simp [List.lookup_cons]
  · have : (mp' == mp) = false := by simpa using h
    simp [List.lookup_cons, this, h]

theorem mapState_absent (W : World) (mp : MapId) (h : ∀ e ∈ W.maps, e.1 ≠ mp) :
    mapState W mp = emptyMap none := by
  unfold mapState
  have : W.maps.lookup mp = none := by
    rw [List.lookup_eq_none_iff]
    intro e he
    have h1 := h e he
    simpa [bne_iff_ne, ne_comm] using h1
  rw [this]; rfl

theorem getOrCreate_some {mp : MapId} {d : Int} {W : World} {v : VocId}
    (h : entry W mp d = some v) : getOrCreate mp d W = (v, W) := by
  simp only [getOrCreate, entry] at h ⊢
  rw [h]

theorem getOrCreate_none {mp : MapId} {d : Int} {W : World} (h : entry W mp d = none) :
    getOrCreate mp d W =
      (.auto mp (mapState W mp).created,
       ⟨W.master, (mp, ⟨(mapState W mp).seed,
                        (d, .auto mp (mapState W mp).created) :: (mapState W mp).entries,
                        (mapState W mp).created + 1⟩) :: W.maps⟩) := by
  simp only [getOrCreate, entry] at h ⊢
  rw [h]

theorem getOrCreate_entry (mp : MapId) (d : Int) (W : World) :
    entry (getOrCreate mp d W).2 mp d = some (getOrCreate mp d W).1 := by
  cases hv : entry W mp d with
  | some v => rw [getOrCreate_some hv]; exact hv
  | none =>
    rw [getOrCreate_none hv]
    simp only [entry]
    rw [mapState_cons]
    simp [List.lookup_cons]

theorem getOrCreate_le (mp : MapId) (d : Int) (W : World) : World.Le W (getOrCreate mp d W).2 := by
  cases hv : entry W mp d with
  | some v => rw [getOrCreate_some hv]; exact World.Le.refl W
  | none =>
    rw [getOrCreate_none hv]
    intro mp' d' v h
    simp only [entry] at h hv ⊢
    rw [mapState_cons]
    by_cases hm : mp' = mp
    · subst hm
      simp only [if_true]
      by_cases hd : d' = d
      · subst hd; rw [hv] at h; cases h
      · have : (d' == d) = false := by simpa using hd
        simp [List.lookup_cons, this, h]
    · simp [hm, h]

theorem getOrCreate_master (mp : MapId) (d : Int) (W : World) :
    (getOrCreate mp d W).2.master = W.master := by
  cases hv : entry W mp d with
  | some v => rw [getOrCreate_some hv]
  | none => rw [getOrCreate_none hv]

theorem coerce_master (mp : MapId) (a : Arg) (W : World) : (coerce mp a W).2.master = W.master := by
  cases a with
  | dim d => by_cases h : d < 1 <;> simp [coerce, h, getOrCreate_master]
  | voc v => rfl
  | bad => rfl

theorem coerce_le (mp : MapId) (a : Arg) (W : World) : World.Le W (coerce mp a W).2 := by
  cases a with
  | dim d =>
    by_cases h : d < 1
    · simp [coerce, h]; exact World.Le.refl W
    · simp [coerce, h]; exact getOrCreate_le mp d W
  | voc v => exact World.Le.refl W
  | bad => exact World.Le.refl W

theorem coerce_dim_entry (mp : MapId) (d : Int) (W : World) (hd : 1 ≤ d) :
    ∃ v, (coerce mp (.dim d) W).1 = .vocab v ∧ entry (coerce mp (.dim d) W).2 mp d = some v := by
  have h : ¬ d < 1 := by omega
  exact ⟨(getOrCreate mp d W).1, by simp [coerce, h], by simpa [coerce, h] using getOrCreate_entry mp d W⟩

/-- maps of keys: (mp, st) keys of the world after `getOrCreate` -/
theorem getOrCreate_keys (mp : MapId) (d : Int) (W : World) :
    ∀ e ∈ (getOrCreate mp d W).2.maps, e.1 = mp ∨ e ∈ W.maps := by
  cases hv : entry W mp d with
  | some v => rw [getOrCreate_some hv]; intro e he; exact Or.inr he
  | none =>
    rw [getOrCreate_none hv]
    intro e he
    simp only [List.mem_cons] at he
    rcases he with rfl | he
    · exact Or.inl rfl
    · exact Or.inr he

theorem coerce_keys (mp : MapId) (a : Arg) (W : World) :
    ∀ e ∈ (coerce mp a W).2.maps, e.1 = mp ∨ e ∈ W.maps := by
  cases a with
  | dim d =>
    by_cases h : d < 1
    · simp only [coerce, h, if_true]; intro e he; exact Or.inr he
    · simpa [coerce, h] using getOrCreate_keys mp d W
  | voc v => intro e he; exact Or.inr he
  | bad => intro e he; exact Or.inr he


/-! ### names of maps created later are not in use yet -/

/-- `mp` is not a map that a network numbered `≥ k` of build `m` will create -/
def MapId.Below (m k : Nat) (mp : MapId) : Prop := ∀ n, mp = .fresh m n → n < k

theorem MapId.Below.mono {m k k' : Nat} {mp : MapId} (h : MapId.Below m k mp) (hk : k ≤ k') :
    MapId.Below m k' mp := fun n e => Nat.lt_of_lt_of_le (h n e) hk

theorem mem_of_lookup {α β} [BEq α] {l : List (α × β)} {k : α} {v : β}
    (h : l.lookup k = some v) : ∃ e ∈ l, e.2 = v := by
  induction l with
  | nil => simp at h
  | cons e es ih =>
    obtain ⟨a, b⟩ := e
    rw [List.lookup_cons] at h
    split at h
    · simp at h; exact ⟨(a, b), by simp, h⟩
    · obtain ⟨e', he', h'⟩ := ih h
      exact ⟨e', by simp [he'], h'⟩

structure FreshOK (m : Nat) (s : St) : Prop where
  maps : ∀ e ∈ s.W.maps, MapId.Below m s.next e.1
  master : ∀ e ∈ s.W.master, MapId.Below m s.next e.2
  ctx : ∀ f ∈ s.ctx, ∀ mp, f.map = some mp → MapId.Below m s.next mp

theorem resolve_fresh {m self : Nat} {vocabs seed : Option Nat} {ctx : List Frame} {W : World}
    (hmaps : ∀ e ∈ W.maps, MapId.Below m self e.1)
    (hmaster : ∀ e ∈ W.master, MapId.Below m self e.2)
    (hctx : ∀ f ∈ ctx, ∀ mp, f.map = some mp → MapId.Below m self mp) :
    MapId.Below m (self + 1) (resolve m self vocabs seed ctx W).1 ∧
    (∀ e ∈ (resolve m self vocabs seed ctx W).2.2.maps, MapId.Below m (self + 1) e.1) ∧
    (∀ e ∈ (resolve m self vocabs seed ctx W).2.2.master, MapId.Below m (self + 1) e.2) ∧
    World.Le W (resolve m self vocabs seed ctx W).2.2 := by
  have up : ∀ {mp}, MapId.Below m self mp → MapId.Below m (self + 1) mp :=
    fun h => h.mono (Nat.le_succ _)
  have hnew : MapId.Below m (self + 1) (.fresh m self) := by
    intro n e; cases e; exact Nat.lt_succ_self _
  have hle : ∀ (ms : List ((Nat × Nat) × MapId)) (sd : Option Nat),
      World.Le W ⟨ms, (.fresh m self, emptyMap sd) :: W.maps⟩ := by
    intro ms sd mp d v h
    simp only [entry] at h ⊢
    rw [mapState_cons]
    by_cases hm : mp = .fresh m self
    · subst hm
      rw [mapState_absent W _ (fun e he heq => Nat.lt_irrefl _ (hmaps e he self heq))] at h
      simp [emptyMap] at h
    · simp [hm, h]
  have hres := resolve_cases m self vocabs seed ctx W
  generalize resolve m self vocabs seed ctx W = res at hres ⊢
  cases hres with
  | explicit k hv =>
    exact ⟨(by intro n e; cases e), fun e he => up (hmaps e he), fun e he => up (hmaster e he),
      World.Le.refl W⟩
  | config mp g hv hc =>
    obtain ⟨f, hf, hfm, _⟩ := configDefault_some hc
    exact ⟨up (hctx f hf mp hfm), fun e he => up (hmaps e he), fun e he => up (hmaster e he),
      World.Le.refl W⟩
  | master r mp hv hc hr hm =>
    obtain ⟨e, he, rfl⟩ := mem_of_lookup hm
    exact ⟨up (hmaster e he), fun e he => up (hmaps e he), fun e he => up (hmaster e he),
      World.Le.refl W⟩
  | freshStored r sd hv hc hr hm hsd =>
    refine ⟨hnew, ?_, ?_, hle _ _⟩
    · intro e he
      simp only [List.mem_cons] at he
      rcases he with rfl | he
      · exact hnew
      · exact up (hmaps e he)
    · intro e he
      simp only [List.mem_cons] at he
      rcases he with rfl | he
      · exact hnew
      · exact up (hmaster e he)
  | freshTop hv hc hr =>
    refine ⟨hnew, ?_, fun e he => up (hmaster e he), hle _ _⟩
    intro e he
    simp only [List.mem_cons] at he
    rcases he with rfl | he
    · exact hnew
    · exact up (hmaps e he)

theorem step_freshOK (m : Nat) (s : St) (op : Op) (h : FreshOK m s) :
    FreshOK m (step m s op) ∧ World.Le s.W (step m s op).W := by
  have up : ∀ {mp}, MapId.Below m s.next mp → MapId.Below m (s.next + 1) mp :=
    fun h => h.mono (Nat.le_succ _)
  cases op with
  | enterPlain sd =>
    refine ⟨⟨fun e he => up (h.maps e he), fun e he => up (h.master e he), ?_⟩, World.Le.refl _⟩
    intro f hf mp hm
    simp only [step, List.mem_cons] at hf
    rcases hf with rfl | hf
    · simp at hm
    · exact up (h.ctx f hf mp hm)
  | exit =>
    refine ⟨⟨h.maps, h.master, ?_⟩, World.Le.refl _⟩
    intro f hf mp hm
    exact h.ctx f (List.mem_of_mem_tail hf) mp hm
  | enterSpa v sd =>
    obtain ⟨h1, h2, h3, h4⟩ := resolve_fresh (vocabs := v) (seed := sd) h.maps h.master h.ctx
    refine ⟨⟨h2, h3, ?_⟩, h4⟩
    intro f hf mp hm
    simp only [step, List.mem_cons] at hf
    rcases hf with rfl | hf
    · simp at hm; subst hm; exact h1
    · exact up (h.ctx f hf mp hm)
  | module v sd a =>
    obtain ⟨h1, h2, h3, h4⟩ := resolve_fresh (vocabs := v) (seed := sd) h.maps h.master h.ctx
    refine ⟨⟨?_, ?_, ?_⟩, h4.trans (coerce_le _ _ _)⟩
    · intro e he
      rcases coerce_keys _ _ _ e he with he | he
      · rw [he]; exact h1
      · exact h2 e he
    · intro e he
      simp only [step, coerce_master] at he
      exact h3 e he
    · intro f hf mp hm
      exact up (h.ctx f hf mp hm)

theorem run_freshOK (m : Nat) (ops : List Op) : ∀ (s : St), FreshOK m s →
    FreshOK m (run m s ops) ∧ World.Le s.W (run m s ops).W := by
  induction ops with
  | nil => intro s h; exact ⟨h, World.Le.refl _⟩
  | cons op ops ih =>
    intro s h
    obtain ⟨h1, h2⟩ := step_freshOK m s op h
    obtain ⟨h3, h4⟩ := ih _ h1
    exact ⟨h3, h2.trans h4⟩


/-! ### the start of a build -/

theorem declare_master (m : Nat) (ds : List MapDecl) : ∀ (k : Nat) (W : World),
    (declare m k ds W).master = W.master := by
  induction ds with
  | nil => intro k W; rfl
  | cons d ds ih => intro k W; simp only [declare]; rw [ih]

theorem declare_maps (m : Nat) (ds : List MapDecl) : ∀ (k : Nat) (W : World),
    ∀ e ∈ (declare m k ds W).maps, (∃ j, e.1 = .expl m j) ∨ e ∈ W.maps := by
  induction ds with
  | nil => intro k W e he; exact Or.inr he
  | cons d ds ih =>
    intro k W e he
    simp only [declare] at he
    rcases ih _ _ e he with h | h
    · exact Or.inl h
    · simp only [List.mem_cons] at h
      rcases h with rfl | h
      · exact Or.inl ⟨k, rfl⟩
      · exact Or.inr h

theorem start_freshOK (m : Nat) (ds : List MapDecl) (W : World) (hW : Spec.World.Older W m) :
    FreshOK m ⟨[], 0, declare m 0 ds W, []⟩ := by
  refine ⟨?_, ?_, by simp⟩
  · intro e he n hn
    rcases declare_maps m ds 0 W e he with ⟨j, hj⟩ | h
    · rw [hj] at hn; cases hn
    · exact absurd (by rw [hn]; rfl) (hW.2 e h)
  · intro e he n hn
    simp only [declare_master] at he
    exact absurd (by rw [hn]; rfl) (hW.1 e he).2


/-! ### the explicit map governs its subtree; all other networks of a root share one map -/

structure GovOK (m : Nat) (s : St) : Prop where
  outs : ∀ o ∈ s.outs, ∀ k, o.gov = some k → o.map = .expl m k
  ctx : ∀ f ∈ s.ctx, ∀ k, f.gov = some k → f.map = some (.expl m k)
  plain : ∀ f ∈ s.ctx, f.map = none → f.gov = none

theorem resolve_gov {m self : Nat} {vocabs seed : Option Nat} {ctx : List Frame} {W : World}
    (hctx : ∀ f ∈ ctx, ∀ k, f.gov = some k → f.map = some (.expl m k)) :
    ∀ k, (resolve m self vocabs seed ctx W).2.1 = some k →
      (resolve m self vocabs seed ctx W).1 = .expl m k := by
  have hres := resolve_cases m self vocabs seed ctx W
  generalize resolve m self vocabs seed ctx W = res at hres ⊢
  cases hres with
  | explicit k hv => intro k' hk; simp at hk; subst hk; rfl
  | config mp g hv hc =>
    obtain ⟨f, hf, hfm, hfg⟩ := configDefault_some hc
    intro k hk
    simp only at hk
    subst hk
    have := hctx f hf k hfg
    rw [hfm] at this
    simpa using this
  | master r mp hv hc hr hm => intro k hk; simp at hk
  | freshStored r sd hv hc hr hm hsd => intro k hk; simp at hk
  | freshTop hv hc hr => intro k hk; simp at hk

theorem step_govOK (m : Nat) (s : St) (op : Op) (h : GovOK m s) : GovOK m (step m s op) := by
  cases op with
  | enterPlain sd =>
    refine ⟨h.outs, ?_, ?_⟩
    · intro f hf k hk
      simp only [step, List.mem_cons] at hf
      rcases hf with rfl | hf
      · simp at hk
      · exact h.ctx f hf k hk
    · intro f hf hm
      simp only [step, List.mem_cons] at hf
      rcases hf with rfl | hf
      · rfl
      · exact h.plain f hf hm
  | exit =>
    exact ⟨h.outs, fun f hf => h.ctx f (List.mem_of_mem_tail hf),
      fun f hf => h.plain f (List.mem_of_mem_tail hf)⟩
  | enterSpa v sd =>
    have hg := resolve_gov (self := s.next) (vocabs := v) (seed := sd) (W := s.W) h.ctx
    refine ⟨?_, ?_, ?_⟩
    · intro o ho k hk
      simp only [step, List.mem_cons] at ho
      rcases ho with rfl | ho
      · exact hg k hk
      · exact h.outs o ho k hk
    · intro f hf k hk
      simp only [step, List.mem_cons] at hf
      rcases hf with rfl | hf
      · simp only at hk ⊢; rw [hg k hk]
      · exact h.ctx f hf k hk
    · intro f hf hm
      simp only [step, List.mem_cons] at hf
      rcases hf with rfl | hf
      · simp at hm
      · exact h.plain f hf hm
  | module v sd a =>
    have hg := resolve_gov (self := s.next) (vocabs := v) (seed := sd) (W := s.W) h.ctx
    refine ⟨?_, h.ctx, h.plain⟩
    intro o ho k hk
    simp only [step, List.mem_cons] at ho
    rcases ho with rfl | ho
    · exact hg k hk
    · exact h.outs o ho k hk


/-- what ties the entered networks and the weak dictionary to the map `F r` shared by the
networks of root `r` that no explicit `vocabs=` governs -/
structure CtxInv (m : Nat) (ctx : List Frame) (ms : List ((Nat × Nat) × MapId))
    (F : Nat → Option MapId) : Prop where
  frames : ∀ r, rootOf ctx = some r → ∀ f ∈ ctx, f.gov = none → ∀ mp, f.map = some mp →
    F r.net = some mp
  master : ∀ r, rootOf ctx = some r → r.map = none → ∀ mp, ms.lookup (m, r.net) = some mp →
    F r.net = some mp
  back : ∀ r, rootOf ctx = some r → ∀ mp, F r.net = some mp →
    (r.map = none ∧ ms.lookup (m, r.net) = some mp) ∨ r.map = some mp

structure Shared (m : Nat) (s : St) (F : Nat → Option MapId) : Prop where
  outs : ∀ o ∈ s.outs, o.gov = none → F o.root = some o.map
  lt : ∀ o ∈ s.outs, o.root < s.next
  ctxlt : ∀ f ∈ s.ctx, f.net < s.next
  inv : CtxInv m s.ctx s.W.master F

theorem ctxInv_nil (m : Nat) (ms : List ((Nat × Nat) × MapId)) (F : Nat → Option MapId) :
    CtxInv m [] ms F :=
  ⟨fun r h => by simp [rootOf] at h, fun r h => by simp [rootOf] at h,
   fun r h => by simp [rootOf] at h⟩

/-- `F` with the value at `k` replaced -/
def upd (F : Nat → Option MapId) (k : Nat) (x : Option MapId) : Nat → Option MapId :=
  fun j => if j = k then x else F j

theorem create (m : Nat) (s : St) (v sd : Option Nat) (F : Nat → Option MapId)
    (h : Shared m s F) :
    ∃ F', (∀ o ∈ s.outs, o.gov = none → F' o.root = some o.map) ∧
      ((resolve m s.next v sd s.ctx s.W).2.1 = none →
        F' (((rootOf s.ctx).map (·.net)).getD s.next) = some (resolve m s.next v sd s.ctx s.W).1) ∧
      CtxInv m s.ctx (resolve m s.next v sd s.ctx s.W).2.2.master F' ∧
      CtxInv m (⟨s.next, sd, some (resolve m s.next v sd s.ctx s.W).1,
                 (resolve m s.next v sd s.ctx s.W).2.1⟩ :: s.ctx)
        (resolve m s.next v sd s.ctx s.W).2.2.master F' := by
  have hres := resolve_cases m s.next v sd s.ctx s.W
  generalize resolve m s.next v sd s.ctx s.W = res at hres ⊢
  by_cases hctx : s.ctx = []
  · -- a new top-level network
    have hroot : rootOf s.ctx = none := by rw [hctx]; rfl
    have hold : ∀ (x : Option MapId), ∀ o ∈ s.outs, o.gov = none →
        upd F s.next x o.root = some o.map := by
      intro x o ho hg
      have := h.lt o ho
      simp only [upd, Nat.ne_of_lt this, if_false]
      exact h.outs o ho hg
    cases hres with
    | explicit k hv =>
      refine ⟨upd F s.next none, hold _, by simp, by rw [hctx]; exact ctxInv_nil _ _ _, ?_⟩
      rw [hctx]
      refine ⟨?_, ?_, ?_⟩
      · intro r hr f hf hg; simp at hf; subst hf; simp at hg
      · intro r hr hm; simp [rootOf] at hr; subst hr; simp at hm
      · intro r hr mp hF; simp [rootOf] at hr; subst hr; simp [upd] at hF
    | config mp g hv hc => rw [hctx] at hc; simp [configDefault] at hc
    | master r mp hv hc hr hm => rw [hroot] at hr; cases hr
    | freshStored r sd' hv hc hr hm hsd => rw [hroot] at hr; cases hr
    | freshTop hv hc hr =>
      refine ⟨upd F s.next (some (.fresh m s.next)), hold _, ?_, by rw [hctx]; exact ctxInv_nil _ _ _, ?_⟩
      · intro _; simp [hroot, upd]
      · rw [hctx]
        refine ⟨?_, ?_, ?_⟩
        · intro r hr f hf hg mp hm
          simp at hf; subst hf
          simp [rootOf] at hr; subst hr
          simp at hm; subst hm
          simp [upd]
        · intro r hr hm; simp [rootOf] at hr; subst hr; simp at hm
        · intro r hr mp hF
          simp [rootOf] at hr; subst hr
          simp [upd] at hF
          exact Or.inr (by simp [hF])
  · -- inside a model: the root stays
    obtain ⟨r, hr⟩ : ∃ r, rootOf s.ctx = some r := by
      cases hh : rootOf s.ctx with
      | none => exact absurd (rootOf_none_iff.1 hh) hctx
      | some r => exact ⟨r, rfl⟩
    have hpush : ∀ f, rootOf (f :: s.ctx) = some r := by
      intro f; rw [rootOf_cons_of_ne f hctx]; exact hr
    have hrn : ((rootOf s.ctx).map (·.net)).getD s.next = r.net := by simp [hr]
    rw [hrn]
    -- pushing a frame whose (gov none → map = F r) keeps the invariant
    have push : ∀ (F' : Nat → Option MapId) (ms : List ((Nat × Nat) × MapId)) (mp : MapId)
        (g : Option Nat), CtxInv m s.ctx ms F' → (g = none → F' r.net = some mp) →
        CtxInv m (⟨s.next, sd, some mp, g⟩ :: s.ctx) ms F' := by
      intro F' ms mp g hi hg
      refine ⟨?_, ?_, ?_⟩
      · intro r' hr' f hf hfg mp' hfm
        rw [hpush] at hr'; cases hr'
        simp only [List.mem_cons] at hf
        rcases hf with rfl | hf
        · simp at hfm hfg; subst hfm; exact hg hfg
        · exact hi.frames r hr f hf hfg mp' hfm
      · intro r' hr'; rw [hpush] at hr'; cases hr'; exact hi.master r hr
      · intro r' hr'; rw [hpush] at hr'; cases hr'; exact hi.back r hr
    cases hres with
    | explicit k hv =>
      exact ⟨F, h.outs, by simp, h.inv, push F _ _ _ h.inv (by simp)⟩
    | config mp g hv hc =>
      obtain ⟨f, hf, hfm, hfg⟩ := configDefault_some hc
      have hg : g = none → F r.net = some mp := fun hg =>
        h.inv.frames r hr f hf (hfg.trans hg) mp hfm
      exact ⟨F, h.outs, hg, h.inv, push F _ _ _ h.inv hg⟩
    | master r' mp hv hc hr' hm =>
      rw [hr] at hr'; cases hr'
      have hrm : r.map = none := configDefault_none hc r (rootOf_mem hr)
      have hg : F r.net = some mp := h.inv.master r hr hrm mp hm
      exact ⟨F, h.outs, fun _ => hg, h.inv, push F _ _ _ h.inv (fun _ => hg)⟩
    | freshStored r' sd' hv hc hr' hm hsd =>
      rw [hr] at hr'; cases hr'
      have hrm : r.map = none := configDefault_none hc r (rootOf_mem hr)
      have hFn : F r.net = none := by
        cases hF : F r.net with
        | none => rfl
        | some mp =>
          rcases h.inv.back r hr mp hF with ⟨_, h1⟩ | h1
          · rw [hm] at h1; cases h1
          · rw [hrm] at h1; cases h1
      have hinv : CtxInv m s.ctx (((m, r.net), MapId.fresh m s.next) :: s.W.master)
          (upd F r.net (some (.fresh m s.next))) := by
        refine ⟨?_, ?_, ?_⟩
        · intro r' hr' f hf hfg mp hfm
          rw [configDefault_none hc f hf] at hfm; cases hfm
        · intro r' hr' _ mp hl
          rw [hr] at hr'; cases hr'
          simp [List.lookup_cons] at hl
          simp [upd, hl]
        · intro r' hr' mp hF
          rw [hr] at hr'; cases hr'
          simp [upd] at hF
          exact Or.inl ⟨hrm, by simp [List.lookup_cons, hF]⟩
      refine ⟨upd F r.net (some (.fresh m s.next)), ?_, by simp [upd], hinv,
        push _ _ _ _ hinv (by simp [upd])⟩
      intro o ho hg
      by_cases hor : o.root = r.net
      · have := h.outs o ho hg
        rw [hor, hFn] at this; cases this
      · simp only [upd, hor, if_false]; exact h.outs o ho hg
    | freshTop hv hc hr' => rw [hr] at hr'; cases hr'


theorem rootOf_tail {ctx : List Frame} (h : ctx.tail ≠ []) : rootOf ctx.tail = rootOf ctx := by
  cases ctx with
  | nil => simp at h
  | cons f fs => simp only [List.tail_cons] at h ⊢; exact (rootOf_cons_of_ne f h).symm

theorem step_shared (m : Nat) (s : St) (op : Op) (F : Nat → Option MapId) (h : Shared m s F) :
    ∃ F', Shared m (step m s op) F' := by
  have up : ∀ {n : Nat}, n < s.next → n < s.next + 1 := fun h => Nat.lt_succ_of_lt h
  cases op with
  | exit =>
    refine ⟨F, h.outs, h.lt, fun f hf => h.ctxlt f (List.mem_of_mem_tail hf), ?_⟩
    by_cases ht : s.ctx.tail = []
    · simp only [step, ht]; exact ctxInv_nil _ _ _
    · have hr := rootOf_tail ht
      refine ⟨?_, ?_, ?_⟩
      · intro r hr' f hf
        simp only [step] at hr' hf
        rw [hr] at hr'
        exact h.inv.frames r hr' f (List.mem_of_mem_tail hf)
      · intro r hr'; simp only [step] at hr'; rw [hr] at hr'; exact h.inv.master r hr'
      · intro r hr'; simp only [step] at hr'; rw [hr] at hr'; exact h.inv.back r hr'
  | enterPlain sd =>
    by_cases hctx : s.ctx = []
    · refine ⟨upd F s.next (s.W.master.lookup (m, s.next)), ?_, fun o ho => up (h.lt o ho), ?_, ?_⟩
      · intro o ho hg
        have := h.lt o ho
        simp only [upd, Nat.ne_of_lt this, if_false]
        exact h.outs o ho hg
      · intro f hf
        simp only [step, hctx, List.mem_singleton] at hf
        subst hf; exact Nat.lt_succ_self _
      · simp only [step, hctx]
        refine ⟨?_, ?_, ?_⟩
        · intro r hr f hf hg mp hm; simp at hf; subst hf; simp at hm
        · intro r hr _ mp hl; simp [rootOf] at hr; subst hr; simp [upd, hl]
        · intro r hr mp hF
          simp [rootOf] at hr; subst hr
          simp [upd] at hF
          exact Or.inl ⟨rfl, hF⟩
    · have hpush : ∀ f, rootOf (f :: s.ctx) = rootOf s.ctx := fun f => rootOf_cons_of_ne f hctx
      refine ⟨F, h.outs, fun o ho => up (h.lt o ho), ?_, ?_⟩
      · intro f hf
        simp only [step, List.mem_cons] at hf
        rcases hf with rfl | hf
        · exact Nat.lt_succ_self _
        · exact up (h.ctxlt f hf)
      · simp only [step]
        refine ⟨?_, ?_, ?_⟩
        · intro r hr f hf hg mp hm
          rw [hpush] at hr
          simp only [List.mem_cons] at hf
          rcases hf with rfl | hf
          · simp at hm
          · exact h.inv.frames r hr f hf hg mp hm
        · intro r hr; rw [hpush] at hr; exact h.inv.master r hr
        · intro r hr; rw [hpush] at hr; exact h.inv.back r hr
  | enterSpa v sd =>
    obtain ⟨F', ha, hb, _, hd⟩ := create m s v sd F h
    have hrlt : ((rootOf s.ctx).map (·.net)).getD s.next < s.next + 1 := by
      cases hr : rootOf s.ctx with
      | none => simp
      | some r => simpa using up (h.ctxlt r (rootOf_mem hr))
    refine ⟨F', ?_, ?_, ?_, hd⟩
    · intro o ho hg
      simp only [step, List.mem_cons] at ho
      rcases ho with rfl | ho
      · exact hb hg
      · exact ha o ho hg
    · intro o ho
      simp only [step, List.mem_cons] at ho
      rcases ho with rfl | ho
      · exact hrlt
      · exact up (h.lt o ho)
    · intro f hf
      simp only [step, List.mem_cons] at hf
      rcases hf with rfl | hf
      · exact Nat.lt_succ_self _
      · exact up (h.ctxlt f hf)
  | module v sd a =>
    obtain ⟨F', ha, hb, hc, _⟩ := create m s v sd F h
    have hrlt : ((rootOf s.ctx).map (·.net)).getD s.next < s.next + 1 := by
      cases hr : rootOf s.ctx with
      | none => simp
      | some r => simpa using up (h.ctxlt r (rootOf_mem hr))
    refine ⟨F', ?_, ?_, fun f hf => up (h.ctxlt f hf), ?_⟩
    · intro o ho hg
      simp only [step, List.mem_cons] at ho
      rcases ho with rfl | ho
      · exact hb hg
      · exact ha o ho hg
    · intro o ho
      simp only [step, List.mem_cons] at ho
      rcases ho with rfl | ho
      · exact hrlt
      · exact up (h.lt o ho)
    · simp only [step, coerce_master]; exact hc

theorem run_shared (m : Nat) (ops : List Op) : ∀ (s : St) (F : Nat → Option MapId),
    Shared m s F → ∃ F', Shared m (run m s ops) F' := by
  induction ops with
  | nil => intro s F h; exact ⟨F, h⟩
  | cons op ops ih =>
    intro s F h
    obtain ⟨F', h'⟩ := step_shared m s op F h
    exact ih _ F' h'


/-! ### every map a build uses was made by that build -/

theorem mem_of_lookup_key {α β} [BEq α] [LawfulBEq α] {l : List (α × β)} {k : α} {v : β}
    (h : l.lookup k = some v) : (k, v) ∈ l := by
  induction l with
  | nil => simp at h
  | cons e es ih =>
    obtain ⟨a, b⟩ := e
    rw [List.lookup_cons] at h
    split at h
    · next hk => simp at h hk; subst h; subst hk; simp
    · exact List.mem_cons_of_mem _ (ih h)

/-- every map a build uses was made by that build -/
structure TagOK (m : Nat) (s : St) : Prop where
  outs : ∀ o ∈ s.outs, o.map.model = m
  ctx : ∀ f ∈ s.ctx, ∀ mp, f.map = some mp → mp.model = m
  master : ∀ e ∈ s.W.master, e.1.1 = m → e.2.model = m

theorem resolve_tag {m self : Nat} {vocabs seed : Option Nat} {ctx : List Frame} {W : World}
    (hctx : ∀ f ∈ ctx, ∀ mp, f.map = some mp → mp.model = m)
    (hmaster : ∀ e ∈ W.master, e.1.1 = m → e.2.model = m) :
    (resolve m self vocabs seed ctx W).1.model = m ∧
    (∀ e ∈ (resolve m self vocabs seed ctx W).2.2.master, e.1.1 = m → e.2.model = m) := by
  have hres := resolve_cases m self vocabs seed ctx W
  generalize resolve m self vocabs seed ctx W = res at hres ⊢
  cases hres with
  | explicit k hv => exact ⟨rfl, hmaster⟩
  | config mp g hv hc =>
    obtain ⟨f, hf, hfm, _⟩ := configDefault_some hc
    exact ⟨hctx f hf mp hfm, hmaster⟩
  | master r mp hv hc hr hm => exact ⟨hmaster _ (mem_of_lookup_key hm) rfl, hmaster⟩
  | freshStored r sd hv hc hr hm hsd =>
    refine ⟨rfl, ?_⟩
    intro e he
    simp only [List.mem_cons] at he
    rcases he with rfl | he
    · intro _; rfl
    · exact hmaster e he
  | freshTop hv hc hr => exact ⟨rfl, hmaster⟩

theorem step_tagOK (m : Nat) (s : St) (op : Op) (h : TagOK m s) : TagOK m (step m s op) := by
  cases op with
  | enterPlain sd =>
    refine ⟨h.outs, ?_, h.master⟩
    intro f hf mp hm
    simp only [step, List.mem_cons] at hf
    rcases hf with rfl | hf
    · simp at hm
    · exact h.ctx f hf mp hm
  | exit => exact ⟨h.outs, fun f hf => h.ctx f (List.mem_of_mem_tail hf), h.master⟩
  | enterSpa v sd =>
    obtain ⟨h1, h2⟩ := resolve_tag (self := s.next) (vocabs := v) (seed := sd) h.ctx h.master
    refine ⟨?_, ?_, h2⟩
    · intro o ho
      simp only [step, List.mem_cons] at ho
      rcases ho with rfl | ho
      · exact h1
      · exact h.outs o ho
    · intro f hf mp hm
      simp only [step, List.mem_cons] at hf
      rcases hf with rfl | hf
      · simp at hm; subst hm; exact h1
      · exact h.ctx f hf mp hm
  | module v sd a =>
    obtain ⟨h1, h2⟩ := resolve_tag (self := s.next) (vocabs := v) (seed := sd) h.ctx h.master
    refine ⟨?_, h.ctx, ?_⟩
    · intro o ho
      simp only [step, List.mem_cons] at ho
      rcases ho with rfl | ho
      · exact h1
      · exact h.outs o ho
    · intro e he
      simp only [step, coerce_master] at he
      exact h2 e he



/-! ### the state a build leaves behind -/

theorem bounded_older {W : World} {n : Nat} (h : Spec.World.Bounded W n) : Spec.World.Older W n :=
  ⟨fun e he => ⟨Nat.ne_of_lt (h.1 e he).1, Nat.ne_of_lt (h.1 e he).2⟩,
   fun e he => Nat.ne_of_lt (h.2 e he)⟩

theorem bounded_mono {W : World} {n k : Nat} (h : Spec.World.Bounded W n) (hk : n ≤ k) :
    Spec.World.Bounded W k :=
  ⟨fun e he => ⟨Nat.lt_of_lt_of_le (h.1 e he).1 hk, Nat.lt_of_lt_of_le (h.1 e he).2 hk⟩,
   fun e he => Nat.lt_of_lt_of_le (h.2 e he) hk⟩

theorem resolve_bounded {m self : Nat} {vocabs seed : Option Nat} {ctx : List Frame} {W : World}
    (h : Spec.World.Bounded W (m + 1)) :
    Spec.World.Bounded (resolve m self vocabs seed ctx W).2.2 (m + 1) := by
  have hres := resolve_cases m self vocabs seed ctx W
  generalize resolve m self vocabs seed ctx W = res at hres ⊢
  cases hres with
  | explicit k hv => exact h
  | config mp g hv hc => exact h
  | master r mp hv hc hr hm => exact h
  | freshStored r sd hv hc hr hm hsd =>
    refine ⟨?_, ?_⟩
    · intro e he
      simp only [List.mem_cons] at he
      rcases he with rfl | he
      · exact ⟨Nat.lt_succ_self _, Nat.lt_succ_self _⟩
      · exact h.1 e he
    · intro e he
      simp only [List.mem_cons] at he
      rcases he with rfl | he
      · exact Nat.lt_succ_self _
      · exact h.2 e he
  | freshTop hv hc hr =>
    refine ⟨h.1, ?_⟩
    intro e he
    simp only [List.mem_cons] at he
    rcases he with rfl | he
    · exact Nat.lt_succ_self _
    · exact h.2 e he

theorem step_bounded (m : Nat) (s : St) (op : Op)
    (h : TagOK m s ∧ Spec.World.Bounded s.W (m + 1)) :
    TagOK m (step m s op) ∧ Spec.World.Bounded (step m s op).W (m + 1) := by
  refine ⟨step_tagOK m s op h.1, ?_⟩
  cases op with
  | enterPlain sd => exact h.2
  | exit => exact h.2
  | enterSpa v sd => exact resolve_bounded h.2
  | module v sd a =>
    have hb := resolve_bounded (self := s.next) (vocabs := v) (seed := sd) (ctx := s.ctx) h.2
    have ht := (resolve_tag (self := s.next) (vocabs := v) (seed := sd) h.1.ctx h.1.master).1
    refine ⟨?_, ?_⟩
    · intro e he
      simp only [step, coerce_master] at he
      exact hb.1 e he
    · intro e he
      rcases coerce_keys (resolve m s.next v sd s.ctx s.W).1 a
        (resolve m s.next v sd s.ctx s.W).2.2 e he with he | he
      · rw [he, ht]; exact Nat.lt_succ_self _
      · exact hb.2 e he

theorem declare_bounded (m : Nat) (ds : List MapDecl) : ∀ (k : Nat) (W : World),
    Spec.World.Bounded W (m + 1) → Spec.World.Bounded (declare m k ds W) (m + 1) := by
  intro k W h
  refine ⟨?_, ?_⟩
  · intro e he; rw [declare_master] at he; exact h.1 e he
  · intro e he
    rcases declare_maps m ds k W e he with ⟨j, hj⟩ | he
    · rw [hj]; exact Nat.lt_succ_self _
    · exact h.2 e he

theorem start_tagOK (m : Nat) (ds : List MapDecl) (W : World) (hW : Spec.World.Older W m) :
    TagOK m ⟨[], 0, declare m 0 ds W, []⟩ :=
  ⟨by simp, by simp, by
    intro e he hm
    simp only [declare_master] at he
    exact absurd hm (hW.1 e he).1⟩

theorem buildModel_bounded (m : Nat) (sc : Script) (W : World) (h : Spec.World.Bounded W m) :
    Spec.World.Bounded (buildModel m sc W).W (m + 1) :=
  (run_inv m (fun s => TagOK m s ∧ Spec.World.Bounded s.W (m + 1)) (step_bounded m) sc.ops _
    ⟨start_tagOK m sc.decls W (bounded_older h),
     declare_bounded m sc.decls 0 W (bounded_mono h (Nat.le_succ _))⟩).2

theorem dropRoots_bounded (m n : Nat) (W : World) (h : Spec.World.Bounded W n) :
    Spec.World.Bounded (dropRoots m W) n :=
  ⟨fun e he => h.1 e (List.mem_filter.1 he).1, h.2⟩

/-! ### automatically created vocabularies belong to the map that holds them -/

def EntOK (m : Nat) (W : World) : Prop :=
  ∀ e ∈ W.maps, e.1.model = m → ∀ p ∈ e.2.entries, (∃ x, p.2 = VocId.ext x) ∨ ∃ i, p.2 = .auto e.1 i

theorem mapState_entries {m : Nat} {W : World} (h : EntOK m W) {mp : MapId} (hm : mp.model = m) :
    ∀ p ∈ (mapState W mp).entries, (∃ x, p.2 = VocId.ext x) ∨ ∃ i, p.2 = .auto mp i := by
  unfold mapState
  cases hl : W.maps.lookup mp with
  | none => simp [emptyMap]
  | some st => exact h (mp, st) (mem_of_lookup_key hl) hm

theorem getOrCreate_entOK {m : Nat} {W : World} (h : EntOK m W) {mp : MapId} (hm : mp.model = m)
    (d : Int) :
    EntOK m (getOrCreate mp d W).2 ∧
      ((∃ x, (getOrCreate mp d W).1 = VocId.ext x) ∨ ∃ i, (getOrCreate mp d W).1 = .auto mp i) := by
  cases hv : entry W mp d with
  | some v =>
    rw [getOrCreate_some hv]
    exact ⟨h, mapState_entries h hm (d, v) (mem_of_lookup_key hv)⟩
  | none =>
    rw [getOrCreate_none hv]
    refine ⟨?_, Or.inr ⟨_, rfl⟩⟩
    intro e he hem p hp
    simp only [List.mem_cons] at he
    rcases he with rfl | he
    · simp only [List.mem_cons] at hp
      rcases hp with rfl | hp
      · exact Or.inr ⟨_, rfl⟩
      · exact mapState_entries h hm p hp
    · exact h e he hem p hp

theorem resolve_entOK {m self : Nat} {vocabs seed : Option Nat} {ctx : List Frame} {W : World}
    (h : EntOK m W) : EntOK m (resolve m self vocabs seed ctx W).2.2 := by
  have hres := resolve_cases m self vocabs seed ctx W
  generalize resolve m self vocabs seed ctx W = res at hres ⊢
  have hnew : ∀ (ms : List ((Nat × Nat) × MapId)) (sd : Option Nat),
      EntOK m ⟨ms, (.fresh m self, emptyMap sd) :: W.maps⟩ := by
    intro ms sd e he hem p hp
    simp only [List.mem_cons] at he
    rcases he with rfl | he
    · simp [emptyMap] at hp
    · exact h e he hem p hp
  cases hres with
  | explicit k hv => exact h
  | config mp g hv hc => exact h
  | master r mp hv hc hr hm => exact h
  | freshStored r sd hv hc hr hm hsd => exact hnew _ _
  | freshTop hv hc hr => exact hnew _ _

theorem coerce_entOK {m : Nat} {W : World} (h : EntOK m W) {mp : MapId} (hm : mp.model = m)
    (a : Arg) : EntOK m (coerce mp a W).2 ∧
      ∀ mp' k, (coerce mp a W).1 = .vocab (.auto mp' k) → mp' = mp := by
  cases a with
  | dim d =>
    by_cases hd : d < 1
    · simp [coerce, hd]; exact h
    · obtain ⟨h1, h2⟩ := getOrCreate_entOK h hm d
      simp only [coerce, hd, if_false]
      refine ⟨h1, ?_⟩
      intro mp' k hk
      simp only [Res.vocab.injEq] at hk
      rcases h2 with ⟨x, hx⟩ | ⟨i, hi⟩
      · rw [hx] at hk; cases hk
      · rw [hi] at hk; cases hk; rfl
  | voc v => exact ⟨h, by intro mp' k hk; simp [coerce] at hk⟩
  | bad => exact ⟨h, by intro mp' k hk; simp [coerce] at hk⟩

structure OwnOK (m : Nat) (s : St) : Prop where
  tag : TagOK m s
  ent : EntOK m s.W
  outs : ∀ o ∈ s.outs, Spec.OwnAuto o

theorem step_ownOK (m : Nat) (s : St) (op : Op) (h : OwnOK m s) : OwnOK m (step m s op) := by
  refine ⟨step_tagOK m s op h.tag, ?_, ?_⟩
  · cases op with
    | enterPlain sd => exact h.ent
    | exit => exact h.ent
    | enterSpa v sd => exact resolve_entOK h.ent
    | module v sd a =>
      have ht := (resolve_tag (self := s.next) (vocabs := v) (seed := sd) h.tag.ctx h.tag.master).1
      exact (coerce_entOK (resolve_entOK h.ent) ht a).1
  · intro o ho
    cases op with
    | enterPlain sd => exact h.outs o ho
    | exit => exact h.outs o ho
    | enterSpa v sd =>
      simp only [step, List.mem_cons] at ho
      rcases ho with rfl | ho
      · intro mp k hk; simp at hk
      · exact h.outs o ho
    | module v sd a =>
      simp only [step, List.mem_cons] at ho
      rcases ho with rfl | ho
      · have ht := (resolve_tag (self := s.next) (vocabs := v) (seed := sd) h.tag.ctx h.tag.master).1
        exact (coerce_entOK (W := (resolve m s.next v sd s.ctx s.W).2.2) (resolve_entOK h.ent) ht a).2
      · exact h.outs o ho

theorem declState_entries (d : MapDecl) : ∀ p ∈ (declState d).entries, ∃ x, p.2 = VocId.ext x := by
  unfold declState
  simp only
  suffices h : ∀ (l : List (Int × Nat)) (acc : List (Int × VocId)),
      (∀ p ∈ acc, ∃ x, p.2 = VocId.ext x) →
      ∀ p ∈ l.foldl (fun es p => (p.1, VocId.ext p.2) :: es) acc, ∃ x, p.2 = VocId.ext x from
    h d.init [] (by simp)
  intro l
  induction l with
  | nil => intro acc h; exact h
  | cons q qs ih =>
    intro acc h
    apply ih
    intro p hp
    simp only [List.mem_cons] at hp
    rcases hp with rfl | hp
    · exact ⟨_, rfl⟩
    · exact h p hp

theorem declare_entOK (m : Nat) (ds : List MapDecl) : ∀ (k : Nat) (W : World),
    EntOK m W → EntOK m (declare m k ds W) := by
  induction ds with
  | nil => intro k W h; exact h
  | cons d ds ih =>
    intro k W h
    simp only [declare]
    apply ih
    intro e he hem p hp
    simp only [List.mem_cons] at he
    rcases he with rfl | he
    · exact Or.inl (declState_entries d p hp)
    · exact h e he hem p hp

theorem start_ownOK (m : Nat) (ds : List MapDecl) (W : World) (hW : Spec.World.Older W m) :
    OwnOK m ⟨[], 0, declare m 0 ds W, []⟩ :=
  ⟨start_tagOK m ds W hW,
   declare_entOK m ds 0 W (fun e he hem => absurd hem (hW.2 e he)), by simp⟩



/-! ### framing: an earlier world is invisible to a build -/

/-- the process state `N` of the current build on top of an earlier state `O` -/
def World.app (N O : World) : World := ⟨N.master ++ O.master, N.maps ++ O.maps⟩

def lift (O : World) (s : St) : St := { s with W := World.app s.W O }

theorem lookup_append_left {α β} [BEq α] [LawfulBEq α] (A B : List (α × β)) (k : α)
    (h : ∀ e ∈ B, e.1 ≠ k) : (A ++ B).lookup k = A.lookup k := by
  induction A with
  | nil =>
    simp only [List.nil_append, List.lookup_nil]
    rw [List.lookup_eq_none_iff]
    intro e he
    simpa [bne_iff_ne, ne_comm] using h e he
  | cons a as ih =>
    obtain ⟨x, y⟩ := a
    simp only [List.cons_append, List.lookup_cons, ih]

theorem master_app {m : Nat} {O : World} (hO : Spec.World.Older O m) (N : World) (r : Nat) :
    (World.app N O).master.lookup (m, r) = N.master.lookup (m, r) := by
  apply lookup_append_left
  intro e he heq
  exact (hO.1 e he).1 (by rw [heq])

theorem mapState_app {m : Nat} {O : World} (hO : Spec.World.Older O m) (N : World) {mp : MapId}
    (hm : mp.model = m) : mapState (World.app N O) mp = mapState N mp := by
  unfold mapState
  have : (World.app N O).maps.lookup mp = N.maps.lookup mp := by
    apply lookup_append_left
    intro e he heq
    exact hO.2 e he (by rw [heq]; exact hm)
  rw [this]

theorem resolve_app {m : Nat} {O : World} (hO : Spec.World.Older O m) (self : Nat)
    (v sd : Option Nat) (ctx : List Frame) (N : World) :
    resolve m self v sd ctx (World.app N O) =
      ((resolve m self v sd ctx N).1, (resolve m self v sd ctx N).2.1,
       World.app (resolve m self v sd ctx N).2.2 O) := by
  cases v with
  | some k => simp [resolve]
  | none =>
    cases hc : configDefault ctx with
    | some x => obtain ⟨mp, g⟩ := x; simp [resolve, hc]
    | none =>
      cases hr : rootOf ctx with
      | none => simp [resolve, hc, hr, World.app]
      | some r =>
        cases hm : N.master.lookup (m, r.net) with
        | some mp => simp [resolve, hc, hr, master_app hO, hm]
        | none =>
          have h' := master_app hO N r.net
          simp only [World.app] at h'
          simp [resolve, hc, hr, World.app, h', hm]

theorem getOrCreate_app {m : Nat} {O : World} (hO : Spec.World.Older O m) (N : World) {mp : MapId}
    (hm : mp.model = m) (d : Int) :
    getOrCreate mp d (World.app N O) =
      ((getOrCreate mp d N).1, World.app (getOrCreate mp d N).2 O) := by
  have he : entry (World.app N O) mp d = entry N mp d := by simp [entry, mapState_app hO N hm]
  cases hv : entry N mp d with
  | some v => rw [getOrCreate_some hv, getOrCreate_some (he.trans hv)]
  | none =>
    rw [getOrCreate_none hv, getOrCreate_none (he.trans hv), mapState_app hO N hm]
    simp [World.app]

theorem coerce_app {m : Nat} {O : World} (hO : Spec.World.Older O m) (N : World) {mp : MapId}
    (hm : mp.model = m) (a : Arg) :
    coerce mp a (World.app N O) = ((coerce mp a N).1, World.app (coerce mp a N).2 O) := by
  cases a with
  | dim d =>
    by_cases hd : d < 1
    · simp [coerce, hd]
    · simp [coerce, hd, getOrCreate_app hO N hm]
  | voc v => simp [coerce]
  | bad => simp [coerce]

theorem step_lift {m : Nat} {O : World} (hO : Spec.World.Older O m) (s : St) (op : Op)
    (ht : TagOK m s) : step m (lift O s) op = lift O (step m s op) := by
  cases op with
  | enterPlain sd => rfl
  | exit => rfl
  | enterSpa v sd =>
    simp only [step, lift, resolve_app hO]
  | module v sd a =>
    have hm := (resolve_tag (self := s.next) (vocabs := v) (seed := sd) ht.ctx ht.master).1
    simp only [step, lift, resolve_app hO, coerce_app hO _ hm]

theorem run_lift {m : Nat} {O : World} (hO : Spec.World.Older O m) (ops : List Op) :
    ∀ (s : St), TagOK m s → run m (lift O s) ops = lift O (run m s ops) := by
  induction ops with
  | nil => intro s _; rfl
  | cons op ops ih =>
    intro s ht
    show run m (step m (lift O s) op) ops = _
    rw [step_lift hO s op ht]
    exact ih _ (step_tagOK m s op ht)

theorem declare_app (m : Nat) (ds : List MapDecl) : ∀ (k : Nat) (N O : World),
    declare m k ds (World.app N O) = World.app (declare m k ds N) O := by
  induction ds with
  | nil => intro k N O; rfl
  | cons d ds ih =>
    intro k N O
    simp only [declare]
    exact ih (k + 1) ⟨N.master, (.expl m k, declState d) :: N.maps⟩ O

theorem app_empty (W : World) : World.app World.empty W = W := rfl

theorem empty_older (m : Nat) : Spec.World.Older World.empty m :=
  ⟨by simp [World.empty], by simp [World.empty]⟩

theorem buildModel_lift (m : Nat) (sc : Script) (W : World) (hW : Spec.World.Older W m) :
    buildModel m sc W = lift W (buildModel m sc World.empty) := by
  unfold buildModel
  have : (⟨[], 0, declare m 0 sc.decls W, []⟩ : St) =
      lift W ⟨[], 0, declare m 0 sc.decls World.empty, []⟩ := by
    simp only [lift]
    rw [← declare_app, app_empty]
  rw [this]
  exact run_lift hW sc.ops _ (start_tagOK m sc.decls World.empty (empty_older m))



/-! ### renaming the build number -/

def MapId.rn (f : Nat → Nat) : MapId → MapId
  | .expl m k => .expl (f m) k
  | .fresh m n => .fresh (f m) n

def VocId.rn (f : Nat → Nat) : VocId → VocId
  | .ext v => .ext v
  | .auto mp i => .auto (mp.rn f) i

def MapState.rn (f : Nat → Nat) (st : MapState) : MapState :=
  ⟨st.seed, st.entries.map (fun p => (p.1, p.2.rn f)), st.created⟩

def World.rn (f : Nat → Nat) (W : World) : World :=
  ⟨W.master.map (fun e => ((f e.1.1, e.1.2), e.2.rn f)),
   W.maps.map (fun e => (e.1.rn f, e.2.rn f))⟩

def Frame.rn (f : Nat → Nat) (fr : Frame) : Frame := ⟨fr.net, fr.seed, fr.map.map (·.rn f), fr.gov⟩

def Res.rn (f : Nat → Nat) : Res → Res
  | .vocab v => .vocab (v.rn f)
  | .container => .container
  | .rejectedDim => .rejectedDim
  | .rejectedType => .rejectedType

def Out.rn (f : Nat → Nat) (o : Out) : Out := ⟨o.net, o.root, o.gov, o.arg, o.map.rn f, o.res.rn f⟩

def St.rn (f : Nat → Nat) (s : St) : St :=
  ⟨s.ctx.map (Frame.rn f), s.next, s.W.rn f, s.outs.map (Out.rn f)⟩

theorem MapId.rn_inj {f : Nat → Nat} (hf : ∀ a b, f a = f b → a = b) (a b : MapId)
    (h : a.rn f = b.rn f) : a = b := by
  cases a <;> cases b <;> simp [MapId.rn] at h ⊢
  · exact ⟨hf _ _ h.1, h.2⟩
  · exact ⟨hf _ _ h.1, h.2⟩

theorem lookup_map_inj {α β α' β'} [BEq α] [LawfulBEq α] [BEq α'] [LawfulBEq α']
    (g : α → α') (h : β → β') (hg : ∀ a b, g a = g b → a = b) (l : List (α × β)) (k : α) :
    (l.map (fun e => (g e.1, h e.2))).lookup (g k) = (l.lookup k).map h := by
  induction l with
  | nil => rfl
  | cons e es ih =>
    obtain ⟨a, b⟩ := e
    simp only [List.map_cons, List.lookup_cons, ih]
    by_cases hk : k = a
    · subst hk; simp
    · have h1 : (k == a) = false := by simpa using hk
      have h2 : (g k == g a) = false := by
        simp only [beq_eq_false_iff_ne, ne_eq]
        exact fun e => hk (hg _ _ e)
      simp [h1, h2]

theorem configDefault_rn (f : Nat → Nat) (ctx : List Frame) :
    configDefault (ctx.map (Frame.rn f)) = (configDefault ctx).map (fun x => (x.1.rn f, x.2)) := by
  induction ctx with
  | nil => rfl
  | cons fr frs ih =>
    obtain ⟨n, sd, mp, g⟩ := fr
    cases mp with
    | none => simpa [configDefault, Frame.rn] using ih
    | some mp => simp [configDefault, Frame.rn]

theorem rootOf_rn (f : Nat → Nat) (ctx : List Frame) :
    rootOf (ctx.map (Frame.rn f)) = (rootOf ctx).map (Frame.rn f) := by
  simp [rootOf, List.getLast?_map]

theorem emptyMap_rn (f : Nat → Nat) (sd : Option Nat) : (emptyMap sd).rn f = emptyMap sd := rfl

theorem resolve_rn {f : Nat → Nat} (hf : ∀ a b, f a = f b → a = b) (m self : Nat)
    (v sd : Option Nat) (ctx : List Frame) (W : World) :
    resolve (f m) self v sd (ctx.map (Frame.rn f)) (W.rn f) =
      ((resolve m self v sd ctx W).1.rn f, (resolve m self v sd ctx W).2.1,
       (resolve m self v sd ctx W).2.2.rn f) := by
  have hl : ∀ r : Nat, (W.rn f).master.lookup (f m, r) = (W.master.lookup (m, r)).map (·.rn f) := by
    intro r
    exact lookup_map_inj (fun k : Nat × Nat => (f k.1, k.2)) (·.rn f)
      (by intro a b h; simp at h; exact Prod.ext (hf _ _ h.1) h.2) W.master (m, r)
  cases v with
  | some k => simp [resolve, MapId.rn]
  | none =>
    cases hc : configDefault ctx with
    | some x => obtain ⟨mp, g⟩ := x; simp [resolve, configDefault_rn, hc]
    | none =>
      cases hr : rootOf ctx with
      | none => simp [resolve, configDefault_rn, rootOf_rn, hc, hr, World.rn, MapId.rn, emptyMap_rn]
      | some r =>
        have hl' := hl r.net
        cases hm : W.master.lookup (m, r.net) with
        | some mp =>
          rw [hm] at hl'
          simp [resolve, configDefault_rn, rootOf_rn, hc, hr, Frame.rn, hl', hm]
        | none =>
          rw [hm] at hl'
          simp only [Option.map_none] at hl'
          simp only [resolve, configDefault_rn, rootOf_rn, hc, hr, Option.map_some, Option.map_none,
            Frame.rn, hl', hm]
          simp [World.rn, MapId.rn, emptyMap_rn]

theorem mapState_rn {f : Nat → Nat} (hf : ∀ a b, f a = f b → a = b) (W : World) (mp : MapId) :
    mapState (W.rn f) (mp.rn f) = (mapState W mp).rn f := by
  unfold mapState
  have : (W.rn f).maps.lookup (mp.rn f) = (W.maps.lookup mp).map (·.rn f) :=
    lookup_map_inj (·.rn f) (·.rn f) (MapId.rn_inj hf) W.maps mp
  rw [this]
  cases W.maps.lookup mp <;> rfl

theorem entries_lookup_rn (f : Nat → Nat) (es : List (Int × VocId)) (d : Int) :
    (es.map (fun p => (p.1, p.2.rn f))).lookup d = (es.lookup d).map (·.rn f) :=
  lookup_map_inj (fun x : Int => x) (·.rn f) (fun _ _ h => h) es d

theorem getOrCreate_rn {f : Nat → Nat} (hf : ∀ a b, f a = f b → a = b) (W : World) (mp : MapId)
    (d : Int) :
    getOrCreate (mp.rn f) d (W.rn f) =
      ((getOrCreate mp d W).1.rn f, (getOrCreate mp d W).2.rn f) := by
  have he : entry (W.rn f) (mp.rn f) d = (entry W mp d).map (·.rn f) := by
    simp only [entry, mapState_rn hf, MapState.rn, entries_lookup_rn]
  cases hv : entry W mp d with
  | some v =>
    rw [hv] at he
    rw [getOrCreate_some hv, getOrCreate_some he]
  | none =>
    rw [hv] at he
    rw [getOrCreate_none hv, getOrCreate_none he, mapState_rn hf]
    simp [World.rn, MapState.rn, VocId.rn]

theorem coerce_rn {f : Nat → Nat} (hf : ∀ a b, f a = f b → a = b) (W : World) (mp : MapId)
    (a : Arg) :
    coerce (mp.rn f) a (W.rn f) = ((coerce mp a W).1.rn f, (coerce mp a W).2.rn f) := by
  cases a with
  | dim d =>
    by_cases hd : d < 1
    · simp [coerce, hd, Res.rn]
    · simp [coerce, hd, getOrCreate_rn hf, Res.rn]
  | voc v => simp [coerce, Res.rn, VocId.rn]
  | bad => simp [coerce, Res.rn]

theorem step_rn {f : Nat → Nat} (hf : ∀ a b, f a = f b → a = b) (m : Nat) (s : St) (op : Op) :
    step (f m) (s.rn f) op = (step m s op).rn f := by
  cases op with
  | enterPlain sd => simp [step, St.rn, Frame.rn]
  | exit => simp [step, St.rn, List.map_tail]
  | enterSpa v sd =>
    simp only [step, St.rn, resolve_rn hf, rootOf_rn]
    simp [Frame.rn, Out.rn, Res.rn]
    cases rootOf s.ctx <;> simp [Frame.rn]
  | module v sd a =>
    simp only [step, St.rn, resolve_rn hf, rootOf_rn, coerce_rn hf]
    simp [Out.rn]
    cases rootOf s.ctx <;> simp [Frame.rn]

theorem run_rn {f : Nat → Nat} (hf : ∀ a b, f a = f b → a = b) (m : Nat) (ops : List Op) :
    ∀ s : St, run (f m) (s.rn f) ops = (run m s ops).rn f := by
  induction ops with
  | nil => intro s; rfl
  | cons op ops ih =>
    intro s
    show run (f m) (step (f m) (s.rn f) op) ops = _
    rw [step_rn hf]; exact ih _

theorem declState_rn (f : Nat → Nat) (d : MapDecl) : (declState d).rn f = declState d := by
  have h := declState_entries d
  unfold MapState.rn
  have : (declState d).entries.map (fun p => (p.1, p.2.rn f)) = (declState d).entries := by
    conv => rhs; rw [← List.map_id (declState d).entries]
    apply List.map_congr_left
    intro p hp
    obtain ⟨x, hx⟩ := h p hp
    obtain ⟨a, b⟩ := p
    simp only at hx
    subst hx
    rfl
  rw [this]

theorem declare_rn (f : Nat → Nat) (m : Nat) (ds : List MapDecl) : ∀ (k : Nat) (W : World),
    declare (f m) k ds (W.rn f) = (declare m k ds W).rn f := by
  induction ds with
  | nil => intro k W; rfl
  | cons d ds ih =>
    intro k W
    simp only [declare]
    rw [← ih]
    simp [World.rn, MapId.rn, declState_rn]

theorem buildModel_rn {f : Nat → Nat} (hf : ∀ a b, f a = f b → a = b) (m : Nat) (sc : Script) :
    buildModel (f m) sc World.empty = (buildModel m sc World.empty).rn f := by
  unfold buildModel
  have : (⟨[], 0, declare (f m) 0 sc.decls World.empty, []⟩ : St) =
      St.rn f ⟨[], 0, declare m 0 sc.decls World.empty, []⟩ := by
    simp only [St.rn, List.map_nil]
    rw [← declare_rn]; rfl
  rw [this]
  exact run_rn hf m sc.ops _

theorem label_rn {f : Nat → Nat} (hf : ∀ a b, f a = f b → a = b) (W : World) (v : VocId) :
    label (W.rn f) (v.rn f) = label W v := by
  cases v with
  | ext x => rfl
  | auto mp i =>
    simp only [VocId.rn, label, mapState_rn hf, MapState.rn]
    cases mp <;> rfl

theorem view_rn {f : Nat → Nat} (hf : ∀ a b, f a = f b → a = b) (W : World) (o : Out) :
    view (W.rn f) (o.rn f) = view W o := by
  obtain ⟨n, r, g, a, mp, res⟩ := o
  simp only [view, Out.rn, mapState_rn hf, MapState.rn]
  have h1 : mapLocal (mp.rn f) = mapLocal mp := by cases mp <;> rfl
  have h2 : resLabel (W.rn f) (res.rn f) = resLabel W res := by
    cases res <;> simp [Res.rn, resLabel, label_rn hf]
  rw [h1, h2]

/-- exchange of two build numbers -/
def swapNat (a b x : Nat) : Nat := if x = a then b else if x = b then a else x

theorem swapNat_inj (a b : Nat) : ∀ x y, swapNat a b x = swapNat a b y → x = y := by
  intro x y h
  unfold swapNat at h
  split at h <;> split at h <;> (try split at h) <;> (try split at h) <;> omega

theorem swapNat_left (a b : Nat) : swapNat a b a = b := by simp [swapNat]


end C18

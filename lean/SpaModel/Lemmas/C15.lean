/-
C15 — helper lemmas (dict model, parsing, list sums).
-/
import SpaModel.Basic.C15
import Mathlib.Tactic.Ring
import Mathlib.Tactic.Linarith
import Mathlib.Algebra.BigOperators.Group.List.Basic

namespace C15
namespace Lemmas
open Impl

/-! ### the dict model -/

theorem lookup_of_mem_nodup (d : List (Key × Key)) (hd : (d.map Prod.fst).Nodup)
    (p : Key × Key) (hp : p ∈ d) : d.lookup p.1 = some p.2 := by
  induction d with
  | nil => cases hp
  | cons q t ih =>
    obtain ⟨qa, qb⟩ := q
    obtain ⟨a, b⟩ := p
    simp only [List.map_cons, List.nodup_cons] at hd
    rcases List.mem_cons.1 hp with h | hp
    · injection h with h1 h2
      subst h1; subst h2
      simp
    · have hne : a ≠ qa := by
        intro h
        exact hd.1 (h ▸ List.mem_map_of_mem (f := Prod.fst) hp)
      rw [List.lookup_cons]
      have : (a == qa) = false := by simpa using hne
      simp only [this]
      exact ih hd.2 hp

theorem lookupAll_of_forall (d l : List (Key × Key))
    (h : ∀ p ∈ l, d.lookup p.1 = some p.2) : lookupAll d (l.map Prod.fst) = .ok l := by
  induction l with
  | nil => rfl
  | cons p t ih =>
    simp only [List.map_cons, lookupAll, h p (by simp)]
    rw [ih (fun q hq => h q (by simp [hq]))]
    rfl

theorem lookupAll_ok_length (d : List (Key × Key)) (ks : List Key) (r : List (Key × Key))
    (h : lookupAll d ks = .ok r) : r.map Prod.fst = ks := by
  induction ks generalizing r with
  | nil => simp [lookupAll] at h; subst h; rfl
  | cons k t ih =>
    simp only [lookupAll] at h
    split at h
    · cases h
    · cases h' : lookupAll d t with
      | error e => simp [h', Except.map] at h
      | ok r' =>
        simp only [h', Except.map] at h
        injection h with h
        subst h
        simp [ih r' h']

/-- the invariant of a dict built by `{k: k for k in …}` -/
def Diag (d : List (Key × Key)) : Prop := (d.map Prod.fst).Nodup ∧ ∀ p ∈ d, p.2 = p.1

theorem any_key_iff (d : List (Key × Key)) (k : Key) :
    d.any (fun p => p.1 == k) = true ↔ k ∈ d.map Prod.fst := by
  rw [List.any_eq_true, List.mem_map]
  constructor
  · rintro ⟨p, hp, h⟩
    exact ⟨p, hp, by simpa using h⟩
  · rintro ⟨p, hp, h⟩
    exact ⟨p, hp, by simpa using h⟩

theorem dictSet_diag (d : List (Key × Key)) (k : Key) (hd : Diag d) :
    dictSet d k k = if k ∈ d.map Prod.fst then d else d ++ [(k, k)] := by
  unfold dictSet
  by_cases hk : k ∈ d.map Prod.fst
  · rw [if_pos ((any_key_iff d k).2 hk), if_pos hk]
    conv_rhs => rw [← List.map_id d]
    apply List.map_congr_left
    intro p hp
    split
    · next h =>
      have h1 : p.1 = k := by simpa using h
      have h2 := hd.2 p hp
      rw [id, ← h1]
      exact Prod.ext rfl h2.symm
    · rfl
  · have : ¬ d.any (fun p => p.1 == k) = true := fun h => hk ((any_key_iff d k).1 h)
    rw [if_neg this, if_neg hk]

theorem dictSet_preserves (d : List (Key × Key)) (k : Key) (hd : Diag d) :
    Diag (dictSet d k k) ∧ ∀ k', k' ∈ (dictSet d k k).map Prod.fst ↔ (k' ∈ d.map Prod.fst ∨ k' = k) := by
  rw [dictSet_diag d k hd]
  by_cases hk : k ∈ d.map Prod.fst
  · rw [if_pos hk]
    refine ⟨hd, fun k' => ⟨Or.inl, ?_⟩⟩
    rintro (h | rfl)
    · exact h
    · exact hk
  · rw [if_neg hk]
    refine ⟨⟨?_, ?_⟩, ?_⟩
    · rw [List.map_append, List.nodup_append]
      refine ⟨hd.1, by simp, ?_⟩
      intro a ha b hb
      simp at hb
      subst hb
      intro h
      exact hk (h ▸ ha)
    · intro p hp
      rcases List.mem_append.1 hp with hp | hp
      · exact hd.2 p hp
      · simp at hp; subst hp; rfl
    · intro k'
      simp

theorem foldl_dictSet (l : List Key) (acc : List (Key × Key)) (hacc : Diag acc) :
    Diag (l.foldl (fun d k => dictSet d k k) acc) ∧
      ∀ k', k' ∈ (l.foldl (fun d k => dictSet d k k) acc).map Prod.fst ↔
        (k' ∈ acc.map Prod.fst ∨ k' ∈ l) := by
  induction l generalizing acc with
  | nil => exact ⟨hacc, fun k' => by simp⟩
  | cons k t ih =>
    have h1 := dictSet_preserves acc k hacc
    have h2 := ih (dictSet acc k k) h1.1
    refine ⟨h2.1, fun k' => ?_⟩
    rw [List.foldl_cons, h2.2 k', h1.2 k']
    simp only [List.mem_cons]
    tauto

theorem foldl_dictSet_nodup (l : List Key) (acc : List (Key × Key)) (hacc : Diag acc)
    (hdis : ∀ k ∈ l, k ∉ acc.map Prod.fst) (hl : l.Nodup) :
    l.foldl (fun d k => dictSet d k k) acc = acc ++ l.map (fun k => (k, k)) := by
  induction l generalizing acc with
  | nil => simp
  | cons k t ih =>
    rw [List.nodup_cons] at hl
    rw [List.foldl_cons, dictSet_diag acc k hacc, if_neg (hdis k (by simp))]
    have hacc' : Diag (acc ++ [(k, k)]) := by
      have := (dictSet_preserves acc k hacc).1
      rwa [dictSet_diag acc k hacc, if_neg (hdis k (by simp))] at this
    rw [ih (acc ++ [(k, k)]) hacc' ?_ hl.2]
    · simp
    · intro k' hk'
      simp only [List.map_append, List.map_cons, List.map_nil, List.mem_append,
        List.mem_singleton, not_or]
      refine ⟨hdis k' (by simp [hk']), ?_⟩
      rintro rfl
      exact hl.1 hk'

/-! ### parsing -/

variable {R : Type*} {d : ℕ}

theorem parseAll_ok_iff (p : Key → Option (Vec d R)) (ks : List Key) (vs : List (Vec d R)) :
    parseAll p ks = .ok vs ↔ ks.map p = vs.map some := by
  induction ks generalizing vs with
  | nil =>
    cases vs <;> simp [parseAll]
  | cons k t ih =>
    simp only [parseAll, List.map_cons]
    cases hp : p k with
    | none =>
      cases vs <;> simp
    | some v =>
      cases hr : parseAll p t with
      | error e =>
        simp only [Except.map]
        constructor
        · intro h; cases h
        · intro h
          cases vs with
          | nil => simp at h
          | cons w ws =>
            simp only [List.map_cons, List.cons.injEq] at h
            have := (ih ws).2 h.2
            rw [hr] at this
            cases this
      | ok r =>
        simp only [Except.map]
        have hr' := (ih r).1 hr
        constructor
        · intro h
          injection h with h
          subst h
          simp [hr']
        · intro h
          cases vs with
          | nil => simp at h
          | cons w ws =>
            simp only [List.map_cons, List.cons.injEq, Option.some.injEq] at h
            have : r = ws := by
              have h3 : r.map some = ws.map some := by rw [← hr', h.2]
              exact List.map_injective_iff.2 (Option.some_injective _) h3
            rw [h.1, this]

theorem parseAll_error (p : Key → Option (Vec d R)) (ks : List Key) (e : Err)
    (h : parseAll p ks = .error e) : ∃ k ∈ ks, p k = none ∧ e = .parse k := by
  induction ks with
  | nil => simp [parseAll] at h
  | cons k t ih =>
    simp only [parseAll] at h
    cases hp : p k with
    | none =>
      simp only [hp] at h
      injection h with h
      exact ⟨k, by simp, hp, h.symm⟩
    | some v =>
      simp only [hp] at h
      cases hr : parseAll p t with
      | error e' =>
        simp only [hr, Except.map] at h
        injection h with h
        subst h
        obtain ⟨k', hk', h1, h2⟩ := ih hr
        exact ⟨k', by simp [hk'], h1, h2⟩
      | ok r => simp [hr, Except.map] at h

/-! ### sums in which one term survives -/

theorem sum_map_single {α M : Type*} [AddCommMonoid M] (g : α → M) (pre post : List α) (e : α)
    (h : ∀ e' ∈ pre ++ post, g e' = 0) : ((pre ++ e :: post).map g).sum = g e := by
  have h0 : ∀ l : List α, (∀ e' ∈ l, g e' = 0) → (l.map g).sum = 0 := by
    intro l hl
    induction l with
    | nil => rfl
    | cons a t ih =>
      rw [List.map_cons, List.sum_cons, hl a (by simp), ih (fun e' he' => hl e' (by simp [he'])), add_zero]
  rw [List.map_append, List.sum_append, List.map_cons, List.sum_cons,
    h0 pre (fun e' he' => h e' (by simp [he'])), h0 post (fun e' he' => h e' (by simp [he']))]
  simp

theorem sum_map_zero {α M : Type*} [AddCommMonoid M] (g : α → M) (l : List α)
    (h : ∀ e' ∈ l, g e' = 0) : (l.map g).sum = 0 := by
  induction l with
  | nil => rfl
  | cons a t ih =>
    rw [List.map_cons, List.sum_cons, h a (by simp), ih (fun e' he' => h e' (by simp [he'])), add_zero]

theorem sum_eq_zero_of_nonneg {R : Type*} [Field R] [LinearOrder R] [IsStrictOrderedRing R]
    (s : List R) (hs : ∀ a ∈ s, 0 ≤ a) (h : s.sum = 0) : ∀ a ∈ s, a = 0 := by
  induction s with
  | nil => intro a ha; cases ha
  | cons b t ih =>
    have hb : 0 ≤ b := hs b (by simp)
    have ht : 0 ≤ t.sum := List.sum_nonneg (fun a ha => hs a (by simp [ha]))
    rw [List.sum_cons] at h
    have hb0 : b = 0 := by linarith
    have ht0 : t.sum = 0 := by linarith
    intro a ha
    rcases List.mem_cons.1 ha with rfl | ha
    · exact hb0
    · exact ih (fun a ha => hs a (by simp [ha])) ht0 a ha

section ortho
variable {R : Type*} [CommRing R] {dIn dOut : ℕ}

theorem orthonormal_split (pre post : List (Spec.Entry R dIn dOut)) (e : Spec.Entry R dIn dOut)
    (h : Spec.Orthonormal (pre ++ e :: post)) : ∀ e' ∈ pre ++ post, e'.1 ⬝ᵥ e.1 = 0 := by
  have hp := h.2
  rw [List.pairwise_append] at hp
  obtain ⟨-, hpost, hcross⟩ := hp
  rw [List.pairwise_cons] at hpost
  intro e' he'
  rcases List.mem_append.1 he' with h' | h'
  · exact hcross e' h' e (by simp)
  · rw [dotProduct_comm]; exact hpost.1 e' h'

end ortho

section winner
variable {R : Type*} [LinearOrder R]

theorem isWinner_of_strict_max (pre post : List R) (a : R) (h : ∀ b ∈ pre ++ post, b < a) :
    IsWinner (pre ++ a :: post) a := by
  unfold IsWinner
  have h0 : ∀ l : List R, (∀ b ∈ l, b < a) → l.filter (fun b => a ≤ b) = [] := by
    intro l hl
    rw [List.filter_eq_nil_iff]
    intro b hb
    simpa using hl b hb
  rw [List.filter_append, List.filter_cons, h0 pre (fun b hb => h b (by simp [hb])),
    h0 post (fun b hb => h b (by simp [hb]))]
  simp

theorem not_isWinner_of_lt (s : List R) (a b : R) (hb : b ∈ s) (hlt : a < b) : ¬ IsWinner s a := by
  unfold IsWinner
  intro h
  have : b ∈ s.filter (fun c => a ≤ c) := by
    rw [List.mem_filter]
    exact ⟨hb, by simpa using hlt.le⟩
  rw [h] at this
  simp at this
  exact absurd this hlt.ne'

end winner

end Lemmas
end C15

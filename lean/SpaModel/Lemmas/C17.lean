/-
C17 — helper lemmas (characters of the convolution ring, unit vectors, sign function,
quadratic forms of the block matrices).
-/
import SpaModel.Basic.C17
import SpaModel.Props.C02
import Mathlib.Tactic.Ring
import Mathlib.Tactic.Linarith
import Mathlib.Tactic.Positivity
import Mathlib.Algebra.BigOperators.Ring.Finset
import Mathlib.Algebra.Order.BigOperators.Ring.Finset
import Mathlib.Algebra.Order.Ring.Abs
import Mathlib.LinearAlgebra.Matrix.DotProduct

set_option linter.unusedSectionVars false

open Matrix

namespace C17
open Alg

/-! ### the sign function -/
section sgn
variable {R : Type*} [CommRing R] [LinearOrder R] [IsStrictOrderedRing R]

theorem sgn_pos {x : R} (h : 0 < x) : sgn x = 1 := by simp [sgn, h]
theorem sgn_neg {x : R} (h : x < 0) : sgn x = -1 := by simp [sgn, h, not_lt.2 h.le]
theorem sgn_zero : sgn (0 : R) = 0 := by simp [sgn]
theorem sgn_eq_zero_iff {x : R} : sgn x = 0 ↔ x = 0 := by
  rcases lt_trichotomy x 0 with h | h | h
  · simp [sgn_neg h, h.ne]
  · simp [h, sgn_zero]
  · simp [sgn_pos h, h.ne']
theorem sgn_eq_one_iff {x : R} : sgn x = 1 ↔ 0 < x := by
  rcases lt_trichotomy x 0 with h | h | h
  · simp [sgn_neg h, not_lt.2 h.le]
  · simp [h, sgn_zero]
  · simp [sgn_pos h, h]
theorem sgn_eq_neg_one_iff {x : R} : sgn x = -1 ↔ x < 0 := by
  rcases lt_trichotomy x 0 with h | h | h
  · simp [sgn_neg h, h]
  · simp [h, sgn_zero]
  · simp [sgn_pos h, not_lt.2 h.le]
theorem sgn_cases (x : R) : sgn x = -1 ∨ sgn x = 0 ∨ sgn x = 1 := by
  rcases lt_trichotomy x 0 with h | h | h
  · exact Or.inl (sgn_neg h)
  · exact Or.inr (Or.inl (h ▸ sgn_zero))
  · exact Or.inr (Or.inr (sgn_pos h))

/-- `np.sign` is multiplicative -/
theorem sgn_mul (x y : R) : sgn (x * y) = sgn x * sgn y := by
  rcases lt_trichotomy x 0 with hx | hx | hx <;> rcases lt_trichotomy y 0 with hy | hy | hy
  · rw [sgn_neg hx, sgn_neg hy, sgn_pos (mul_pos_of_neg_of_neg hx hy)]; rfl
  · subst hy; simp [sgn_zero]
  · rw [sgn_neg hx, sgn_pos hy, sgn_neg (mul_neg_of_neg_of_pos hx hy)]; rfl
  · subst hx; simp [sgn_zero]
  · subst hx; simp [sgn_zero]
  · subst hx; simp [sgn_zero]
  · rw [sgn_pos hx, sgn_neg hy, sgn_neg (mul_neg_of_pos_of_neg hx hy)]; rfl
  · subst hy; simp [sgn_zero]
  · rw [sgn_pos hx, sgn_pos hy, sgn_pos (mul_pos hx hy)]; rfl

/-- `sign(x) · x = |x|` -/
theorem sgn_mul_self_pos {x : R} (h : x ≠ 0) : 0 < ((sgn x : Int) : R) * x := by
  rcases lt_trichotomy x 0 with hx | hx | hx
  · rw [sgn_neg hx]; simp; exact hx
  · exact absurd hx h
  · rw [sgn_pos hx]; simpa using hx
end sgn

/-! ### HRR: DC and Nyquist coefficients are ring homomorphisms of the convolution ring -/
namespace HrrL
open Alg.Hrr
variable {R : Type*} [CommRing R] {k : ℕ}

theorem dc_bind (a b : Vec k R) : Impl.dc (Impl.bind a b) = Impl.dc a * Impl.dc b := by
  simp only [Impl.dc, Impl.bind]
  rw [Finset.sum_comm, Finset.sum_mul]
  refine Finset.sum_congr rfl fun j _ => ?_
  rw [← Finset.mul_sum]
  congr 1
  exact Fintype.sum_equiv (Equiv.subRight j) _ _ fun i => by simp

theorem neg_one_pow_mod {n : ℕ} (hn : Even n) (x : ℕ) : ((-1 : R)) ^ (x % n) = (-1) ^ x := by
  conv_rhs => rw [← Nat.div_add_mod x n, pow_add, pow_mul, hn.neg_one_pow, one_pow, one_mul]

/-- for even `d` the alternating character respects addition mod `d` -/
theorem neg_one_pow_fin_add (hk : Even (k + 1)) (i j : Fin (k+1)) :
    ((-1 : R)) ^ ((i + j : Fin (k+1)) : ℕ) = (-1) ^ (i : ℕ) * (-1) ^ (j : ℕ) := by
  rw [Fin.val_add, neg_one_pow_mod hk, pow_add]

theorem nyq_bind (hk : Even (k + 1)) (a b : Vec k R) :
    Impl.nyq (Impl.bind a b) = Impl.nyq a * Impl.nyq b := by
  simp only [Impl.nyq, Impl.bind]
  rw [Finset.sum_mul]
  have h1 : ∑ i : Fin (k+1), (-1 : R) ^ (i : ℕ) * ∑ j, a j * b (i - j)
      = ∑ j : Fin (k+1), ∑ i : Fin (k+1), (-1 : R) ^ (i : ℕ) * (a j * b (i - j)) := by
    simp only [Finset.mul_sum]
    exact Finset.sum_comm
  rw [h1]
  refine Finset.sum_congr rfl fun j _ => ?_
  rw [Finset.mul_sum]
  refine Fintype.sum_equiv (Equiv.subRight j) _ _ fun i => ?_
  simp only [Equiv.subRight_apply]
  have : ((-1 : R)) ^ (i : ℕ) = (-1) ^ ((i - j : Fin (k+1)) : ℕ) * (-1) ^ (j : ℕ) := by
    rw [← neg_one_pow_fin_add hk, sub_add_cancel]
  rw [this]; ring

theorem dc_invert (v : Vec k R) : Impl.dc (Impl.invert v) = Impl.dc v := by
  simp only [Impl.dc, Impl.invert]
  exact Fintype.sum_equiv (Equiv.neg _) _ _ fun i => by simp

theorem neg_one_pow_fin_neg (hk : Even (k + 1)) (i : Fin (k+1)) :
    ((-1 : R)) ^ ((-i : Fin (k+1)) : ℕ) = (-1) ^ (i : ℕ) := by
  have h := neg_one_pow_fin_add (R := R) hk (-i) i
  rw [neg_add_cancel] at h
  simp only [Fin.val_zero, pow_zero] at h
  rcases neg_one_pow_eq_or R (i : ℕ) with e | e
  · rw [e] at h ⊢; rw [mul_one] at h; exact h.symm
  · rw [e] at h ⊢
    have : ((-1 : R)) ^ ((-i : Fin (k+1)) : ℕ) = -1 := by
      have h2 : (-1 : R) ^ ((-i : Fin (k+1)) : ℕ) * -1 = 1 := h.symm
      calc (-1 : R) ^ ((-i : Fin (k+1)) : ℕ) = -((-1 : R) ^ ((-i : Fin (k+1)) : ℕ) * -1) := by ring
        _ = -1 := by rw [h2]
    exact this

theorem nyq_invert (hk : Even (k + 1)) (v : Vec k R) : Impl.nyq (Impl.invert v) = Impl.nyq v := by
  simp only [Impl.nyq, Impl.invert]
  refine Fintype.sum_equiv (Equiv.neg _) _ _ fun i => ?_
  simp only [Equiv.neg_apply]
  rw [neg_one_pow_fin_neg hk]

/-! unit vectors -/
theorem identity_eq_delta : (Impl.identity k : Vec k R) = C17.Hrr.Impl.delta k 0 := rfl

theorem roll1_delta (j : Fin (k+1)) :
    C17.Hrr.Impl.roll1 (C17.Hrr.Impl.delta (R := R) k j) = C17.Hrr.Impl.delta k (j + 1) := by
  funext i
  simp only [C17.Hrr.Impl.roll1, C17.Hrr.Impl.delta]
  congr 1
  exact propext sub_eq_iff_eq_add

theorem bind_delta (j : Fin (k+1)) (v : Vec k R) :
    Impl.bind (C17.Hrr.Impl.delta k j) v = fun i => v (i - j) := by
  funext i
  simp only [Impl.bind, C17.Hrr.Impl.delta]
  rw [Finset.sum_eq_single j]
  · simp
  · intro b _ hb; simp [hb]
  · simp

theorem invert_delta (j : Fin (k+1)) :
    Impl.invert (C17.Hrr.Impl.delta (R := R) k j) = C17.Hrr.Impl.delta k (-j) := by
  funext i
  simp only [Impl.invert, C17.Hrr.Impl.delta]
  congr 1
  exact propext neg_eq_iff_eq_neg

theorem dc_delta (j : Fin (k+1)) : Impl.dc (C17.Hrr.Impl.delta (R := R) k j) = 1 := by
  simp [Impl.dc, C17.Hrr.Impl.delta]

theorem nyq_delta (j : Fin (k+1)) : Impl.nyq (C17.Hrr.Impl.delta (R := R) k j) = (-1) ^ (j : ℕ) := by
  simp [Impl.nyq, C17.Hrr.Impl.delta]

theorem dc_smul (c : R) (v : Vec k R) : Impl.dc (fun i => c * v i) = c * Impl.dc v := by
  simp [Impl.dc, Finset.mul_sum]

theorem nyq_smul (c : R) (v : Vec k R) : Impl.nyq (fun i => c * v i) = c * Impl.nyq v := by
  simp only [Impl.nyq, Finset.mul_sum]
  exact Finset.sum_congr rfl fun i _ => by ring

theorem bind_smul_fun (c : R) (u v : Vec k R) :
    Impl.bind (fun i => c * u i) v = fun i => c * Impl.bind u v i := by
  exact C02.Hrr.bind_smul_left c u v

theorem invert_smul_fun (c : R) (u : Vec k R) :
    Impl.invert (fun i => c * u i) = fun i => c * Impl.invert u i := rfl

end HrrL
/-! ### quadratic forms, definiteness, certificates -/
namespace DefL
open C17.Def
variable {n : Type*} [Fintype n] [DecidableEq n]
variable {R : Type*} [CommRing R] [LinearOrder R] [IsStrictOrderedRing R]

theorem quad_neg (M : Matrix n n R) (x : n → R) : quad (-M) x = -quad M x := by
  simp [quad, neg_mulVec, dotProduct_neg]

theorem quad_zero_vec (M : Matrix n n R) : quad M 0 = 0 := by simp [quad]

theorem quad_zero_mat (x : n → R) : quad (0 : Matrix n n R) x = 0 := by simp [quad]

theorem quad_transpose (M : Matrix n n R) (x : n → R) : quad Mᵀ x = quad M x := by
  simp only [quad]
  rw [mulVec_transpose, dotProduct_comm, ← dotProduct_mulVec]

theorem posDef_neg_iff (M : Matrix n n R) : PosDef (-M) ↔ NegDef M := by
  unfold PosDef NegDef
  simp only [quad_neg, neg_pos]

theorem negDef_neg_iff (M : Matrix n n R) : NegDef (-M) ↔ PosDef M := by
  unfold PosDef NegDef
  simp only [quad_neg, neg_lt_zero]

theorem posDef_transpose_iff (M : Matrix n n R) : PosDef Mᵀ ↔ PosDef M := by
  unfold PosDef; simp only [quad_transpose]

theorem negDef_transpose_iff (M : Matrix n n R) : NegDef Mᵀ ↔ NegDef M := by
  unfold NegDef; simp only [quad_transpose]

theorem exists_ne_zero [Nonempty n] : ∃ x : n → R, x ≠ 0 :=
  ⟨fun _ => 1, fun h => one_ne_zero (congrFun h (Classical.arbitrary n))⟩

theorem posDef_not_negDef [Nonempty n] (M : Matrix n n R) (h : PosDef M) : ¬ NegDef M := by
  intro h'
  obtain ⟨x, hx⟩ := exists_ne_zero (n := n) (R := R)
  exact lt_asymm (h x hx) (h' x hx)

theorem posDef_ne_zero [Nonempty n] (M : Matrix n n R) (h : PosDef M) : M ≠ 0 := by
  rintro rfl
  obtain ⟨x, hx⟩ := exists_ne_zero (n := n) (R := R)
  have := h x hx
  rw [quad_zero_mat] at this
  exact lt_irrefl _ this

theorem negDef_ne_zero [Nonempty n] (M : Matrix n n R) (h : NegDef M) : M ≠ 0 := by
  rintro rfl
  obtain ⟨x, hx⟩ := exists_ne_zero (n := n) (R := R)
  have := h x hx
  rw [quad_zero_mat] at this
  exact lt_irrefl _ this

theorem dot_self_pos {x : n → R} (hx : x ≠ 0) : 0 < x ⬝ᵥ x := by
  have h0 : 0 ≤ x ⬝ᵥ x := Finset.sum_nonneg fun i _ => mul_self_nonneg (x i)
  exact lt_of_le_of_ne h0 fun e => hx (dotProduct_self_eq_zero.1 e.symm)

/-- `G Gᵀ + c·1` with `c > 0` is symmetric positive definite -/
theorem gram_posDef (G : Matrix n n R) (c : R) (hc : 0 < c) :
    (G * Gᵀ + c • (1 : Matrix n n R)).IsSymm ∧ PosDef (G * Gᵀ + c • (1 : Matrix n n R)) := by
  constructor
  · unfold Matrix.IsSymm
    rw [transpose_add, transpose_mul, transpose_transpose, transpose_smul, transpose_one]
  · intro x hx
    have e : quad (G * Gᵀ + c • (1 : Matrix n n R)) x = (Gᵀ *ᵥ x) ⬝ᵥ (Gᵀ *ᵥ x) + c * (x ⬝ᵥ x) := by
      simp only [quad, add_mulVec, dotProduct_add, smul_mulVec, one_mulVec, dotProduct_smul, smul_eq_mul]
      rw [← mulVec_mulVec, dotProduct_mulVec, ← mulVec_transpose]
    rw [e]
    have h1 : 0 ≤ (Gᵀ *ᵥ x) ⬝ᵥ (Gᵀ *ᵥ x) := Finset.sum_nonneg fun i _ => mul_self_nonneg _
    have h2 : 0 < c * (x ⬝ᵥ x) := mul_pos hc (dot_self_pos hx)
    linarith

end DefL

/-! ### classification -/
namespace DefL
open C17.Def
variable {n : Type*} [Fintype n] [DecidableEq n]
variable {R : Type*} [CommRing R] [LinearOrder R] [IsStrictOrderedRing R]

theorem classify_eq_one_iff (M : Matrix n n R) : classify M = some 1 ↔ M.IsSymm ∧ PosDef M := by
  unfold classify
  split_ifs <;> simp_all

theorem classify_eq_neg_one_imp (M : Matrix n n R) (h : classify M = some (-1)) : M.IsSymm ∧ NegDef M := by
  unfold classify at h
  split_ifs at h <;> simp_all

theorem classify_eq_zero_imp (M : Matrix n n R) (h : classify M = some 0) : M = 0 := by
  unfold classify at h
  split_ifs at h <;> simp_all

theorem classify_values (M : Matrix n n R) :
    classify M = none ∨ classify M = some 1 ∨ classify M = some (-1) ∨ classify M = some 0 := by
  unfold classify
  split_ifs <;> simp_all

/-- the value returned by the code's branch order is the documented class, and the documented classes are
mutually exclusive and exhaustive (d ≥ 1) -/
theorem hasClass_iff [Nonempty n] (M : Matrix n n R) (c : Cls) :
    HasClass M c ↔ Generic.cls (classify M) = c := by
  have hPN := posDef_not_negDef M
  have hPZ := posDef_ne_zero M
  have hNZ := negDef_ne_zero M
  have hZS : M = 0 → M.IsSymm := by rintro rfl; exact Matrix.isSymm_zero
  have hZS' : ¬ M.IsSymm → M ≠ 0 := fun h e => h (hZS e)
  unfold classify
  split_ifs <;> cases c <;>
    simp_all [HasClass, Generic.cls, Generic.isPositive, Generic.isNegative, Generic.isIndefinite]

open Classical in
theorem classify_congr {n' : Type*} [Fintype n'] (M : Matrix n n R) (N : Matrix n' n' R)
    (h1 : M.IsSymm ↔ N.IsSymm) (h2 : PosDef M ↔ PosDef N) (h3 : NegDef M ↔ NegDef N) (h4 : M = 0 ↔ N = 0) :
    classify M = classify N := by
  unfold classify
  exact if_congr (not_congr h1) rfl (if_congr h2 rfl (if_congr h3 rfl (if_congr h4 rfl rfl)))

open Classical in
theorem classify_transpose (M : Matrix n n R) : classify Mᵀ = classify M := by
  unfold classify
  have h1 : Mᵀ.IsSymm ↔ M.IsSymm := by
    unfold Matrix.IsSymm; rw [transpose_transpose]; exact eq_comm
  have h2 : Mᵀ = 0 ↔ M = 0 := by
    constructor
    · intro h; have := congrArg transpose h; simpa using this
    · rintro rfl; simp
  exact if_congr (not_congr h1) rfl (if_congr (posDef_transpose_iff M) rfl
    (if_congr (negDef_transpose_iff M) rfl (if_congr h2 rfl rfl)))

/-- negating a negative-definite symmetric matrix gives class +1 -/
theorem classify_neg_of_neg_one (M : Matrix n n R) (h : classify M = some (-1)) : classify (-M) = some 1 := by
  obtain ⟨hS, hN⟩ := classify_eq_neg_one_imp M h
  rw [classify_eq_one_iff]
  refine ⟨?_, (posDef_neg_iff M).2 hN⟩
  unfold Matrix.IsSymm at hS ⊢
  rw [transpose_neg, hS]

end DefL

/-! ### the block matrices `√m · kron(I, A)` -/
namespace BlockL
open C17.Def C17.DefL
variable {m : ℕ} {R : Type*} [CommRing R] [LinearOrder R] [IsStrictOrderedRing R]

/-- `s · np.kron(np.eye(m), A)` with the pair indexing of the algebra model -/
def blk (s : R) (A : Matrix (Fin m) (Fin m) R) : Matrix (Fin m × Fin m) (Fin m × Fin m) R :=
  Matrix.of fun p q => s * ((if p.1 = q.1 then 1 else 0) * A p.2 q.2)

theorem vtb_bindMat (s : R) (v : Vec2 m R) : Alg.Vtb.Impl.bindMat s v false = blk s (toMat v) := rfl
theorem tvtb_bindMat (s : R) (v : Vec2 m R) : Alg.Tvtb.Impl.bindMat s v false = blk s (toMat v)ᵀ := rfl

/-- block `i` of a `d`-vector -/
def row (x : Fin m × Fin m → R) (i : Fin m) : Fin m → R := fun j => x (i, j)

theorem quad_blk (s : R) (A : Matrix (Fin m) (Fin m) R) (x : Fin m × Fin m → R) :
    quad (blk s A) x = s * ∑ i, quad A (row x i) := by
  simp only [quad, dotProduct, mulVec, blk, of_apply, row, Fintype.sum_prod_type]
  rw [Finset.mul_sum]
  refine Finset.sum_congr rfl fun i _ => ?_
  rw [Finset.mul_sum]
  refine Finset.sum_congr rfl fun j _ => ?_
  rw [Finset.sum_eq_single i]
  · simp only [if_true, one_mul]
    rw [Finset.mul_sum, Finset.mul_sum, Finset.mul_sum]
    exact Finset.sum_congr rfl fun j' _ => by ring
  · intro b _ hb
    simp [Ne.symm hb]
  · simp

theorem blk_neg (s : R) (A : Matrix (Fin m) (Fin m) R) : blk s (-A) = -blk s A := by
  ext p q; simp [blk]

theorem blk_isSymm_iff (s : R) (hs : s ≠ 0) (A : Matrix (Fin m) (Fin m) R) :
    (blk s A).IsSymm ↔ A.IsSymm := by
  constructor
  · intro h
    ext j j'
    have := congrFun (congrFun h (j, j)) (j, j')
    simp only [blk, transpose_apply, of_apply, if_true, one_mul] at this
    have h0 : s * (A j' j - A j j') = 0 := by rw [mul_sub, this, sub_self]
    rcases mul_eq_zero.1 h0 with e | e
    · exact absurd e hs
    · simpa [sub_eq_zero] using e
  · intro h
    ext p q
    have := congrFun (congrFun h q.2) p.2
    simp only [transpose_apply] at this
    simp only [blk, transpose_apply, of_apply, this, eq_comm]

theorem blk_eq_zero_iff (s : R) (hs : s ≠ 0) (A : Matrix (Fin m) (Fin m) R) : blk s A = 0 ↔ A = 0 := by
  constructor
  · intro h
    ext j j'
    have := congrFun (congrFun h (j, j)) (j, j')
    simp only [blk, of_apply, if_true, one_mul, zero_apply] at this
    rcases mul_eq_zero.1 this with e | e
    · exact absurd e hs
    · simpa using e
  · rintro rfl
    ext p q; simp [blk]

/-- the `d`-vector whose block `i0` is `y` and whose other blocks are zero -/
def embed (i0 : Fin m) (y : Fin m → R) : Fin m × Fin m → R := fun p => if p.1 = i0 then y p.2 else 0

theorem blk_posDef_iff (s : R) (hs : 0 < s) (A : Matrix (Fin m) (Fin m) R) : PosDef (blk s A) ↔ PosDef A := by
  constructor
  · intro h y hy
    obtain ⟨j, hj⟩ := Function.ne_iff.1 hy
    have hx : embed j y ≠ 0 := by
      intro e
      have := congrFun e (j, j)
      simp [embed] at this
      exact hj this
    have := h (embed j y) hx
    rw [quad_blk, Finset.sum_eq_single j] at this
    · have e : row (embed j y) j = y := by funext j'; simp [row, embed]
      rw [e] at this
      exact (mul_pos_iff_of_pos_left hs).1 this
    · intro b _ hb
      have e : row (embed j y) b = 0 := by funext j'; simp [row, embed, hb]
      rw [e, quad_zero_vec]
    · simp
  · intro h x hx
    obtain ⟨p, hp⟩ := Function.ne_iff.1 hx
    rw [quad_blk]
    apply mul_pos hs
    have hnn : ∀ i ∈ Finset.univ, 0 ≤ quad A (row x i) := by
      intro i _
      by_cases e : row x i = 0
      · rw [e, quad_zero_vec]
      · exact (h _ e).le
    refine Finset.sum_pos' hnn ⟨p.1, Finset.mem_univ _, h _ ?_⟩
    intro e
    have := congrFun e p.2
    simp [row] at this
    exact hp this

theorem blk_negDef_iff (s : R) (hs : 0 < s) (A : Matrix (Fin m) (Fin m) R) : NegDef (blk s A) ↔ NegDef A := by
  rw [← posDef_neg_iff, ← blk_neg, blk_posDef_iff s hs, posDef_neg_iff]

/-- **the class of the `d × d` binding matrix the code inspects is the class of the vector's `m × m`
matrix** (`s = √m > 0`) -/
theorem classify_blk (s : R) (hs : 0 < s) (A : Matrix (Fin m) (Fin m) R) : classify (blk s A) = classify A := by
  exact classify_congr _ _ (blk_isSymm_iff s hs.ne' A) (blk_posDef_iff s hs A) (blk_negDef_iff s hs A)
    (blk_eq_zero_iff s hs.ne' A)

end BlockL

/-! ### classification from elementary facts (used by the certificate checker) -/
namespace DefL
open C17.Def
variable {n : Type*} [Fintype n] [DecidableEq n] [Nonempty n]
variable {R : Type*} [CommRing R] [LinearOrder R] [IsStrictOrderedRing R]

theorem isSymm_neg_iff (M : Matrix n n R) : (-M).IsSymm ↔ M.IsSymm := by
  unfold Matrix.IsSymm
  rw [transpose_neg, neg_inj]

open Classical in
theorem classify_neg_one_of_neg (M : Matrix n n R) (h : classify (-M) = some 1) : classify M = some (-1) := by
  obtain ⟨hS, hP⟩ := (classify_eq_one_iff (-M)).1 h
  have hS' := (isSymm_neg_iff M).1 hS
  have hN := (posDef_neg_iff M).1 hP
  have hnP : ¬ PosDef M := fun hp => posDef_not_negDef M hp hN
  unfold classify
  rw [if_neg (not_not.2 hS'), if_neg hnP, if_pos hN]

open Classical in
theorem classify_zero : classify (0 : Matrix n n R) = some 0 := by
  have hnP : ¬ PosDef (0 : Matrix n n R) := fun hp => posDef_ne_zero _ hp rfl
  have hnN : ¬ NegDef (0 : Matrix n n R) := fun hp => negDef_ne_zero _ hp rfl
  unfold classify
  rw [if_neg (not_not.2 Matrix.isSymm_zero), if_neg hnP, if_neg hnN, if_pos rfl]

open Classical in
theorem classify_not_symm (M : Matrix n n R) (h : ¬ M.IsSymm) : classify M = none := by
  unfold classify; rw [if_pos h]

open Classical in
theorem classify_indef (M : Matrix n n R) (hS : M.IsSymm) (h0 : M ≠ 0) (x y : n → R) (hx : x ≠ 0) (hy : y ≠ 0)
    (qx : 0 ≤ quad M x) (qy : quad M y ≤ 0) : classify M = none := by
  have hnP : ¬ PosDef M := fun hp => absurd (hp y hy) (not_lt.2 qy)
  have hnN : ¬ NegDef M := fun hn => absurd (hn x hx) (not_lt.2 qx)
  unfold classify
  rw [if_neg (not_not.2 hS), if_neg hnP, if_neg hnN, if_neg h0]

end DefL

/-! ### binding with multiples of the identity matrix -/
namespace DiagL
variable {R : Type*} [CommRing R] {m : ℕ}

/-- `c · eye(m)` flattened -/
def diag (m : ℕ) (c : R) : Vec2 m R := fun p => if p.1 = p.2 then c else 0

theorem vtb_identity (sinv : R) : Alg.Vtb.Impl.identity m sinv = diag m sinv := rfl
theorem vtb_negIdentity (sinv : R) : Alg.Vtb.Impl.negIdentity m sinv = diag m (-sinv) := by
  funext p; simp only [Alg.Vtb.Impl.negIdentity, Alg.Vtb.Impl.identity, diag]; split <;> simp
theorem vtb_zero : (Alg.Vtb.Impl.zero m : Vec2 m R) = diag m 0 := by
  funext p; simp [Alg.Vtb.Impl.zero, diag]
theorem tvtb_identity (sinv : R) : Alg.Tvtb.Impl.identity m sinv = diag m sinv := rfl
theorem tvtb_negIdentity (sinv : R) : Alg.Tvtb.Impl.negIdentity m sinv = diag m (-sinv) := by
  funext p; simp only [Alg.Tvtb.Impl.negIdentity, Alg.Tvtb.Impl.identity, diag]; split <;> simp
theorem tvtb_zero : (Alg.Tvtb.Impl.zero m : Vec2 m R) = diag m 0 := by
  funext p; simp [Alg.Tvtb.Impl.zero, diag]

theorem tvtb_invert_diag (c : R) : Alg.Tvtb.Impl.invert (diag m c) = diag m c := by
  funext p; simp only [Alg.Tvtb.Impl.invert, diag, eq_comm]

/-- VTB: binding a multiple of the identity from the right scales the vector -/
theorem vtb_bind_diag (s c : R) (v : Vec2 m R) : Alg.Vtb.Impl.bind s v (diag m c) = fun p => s * c * v p := by
  rw [C02.Vtb.bind_eq_spec]
  funext p
  simp [Alg.Vtb.Spec.bind, diag, mul_assoc]

/-- TVTB: binding a multiple of the identity from the left scales the vector -/
theorem tvtb_bind_diag_left (s c : R) (v : Vec2 m R) :
    Alg.Tvtb.Impl.bind s (diag m c) v = fun p => s * c * v p := by
  rw [C02.Tvtb.bind_eq_spec]
  funext p
  simp [Alg.Tvtb.Spec.bind, diag]
  ring

end DiagL

end C17

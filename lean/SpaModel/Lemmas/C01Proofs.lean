/-
C01 — helper lemmas for `Props/C01.lean`.
-/
import SpaModel.Basic.C01
import Mathlib.Tactic.Ring
import Mathlib.Tactic.Abel

set_option linter.unusedSectionVars false
set_option linter.unusedVariables false

open Matrix

namespace C01
open Typing Impl Spec

variable {R : Type} [CommRing R] {U : Universe R}

/-! ### the `Except` monad -/

theorem bind_ok {ε α β : Type _} {x : Except ε α} {f : α → Except ε β} {b : β} :
    (x >>= f) = .ok b ↔ ∃ a, x = .ok a ∧ f a = .ok b := by
  cases x <;> simp [bind, Except.bind]

theorem ok_inj {ε α : Type _} {a b : α} : (Except.ok a : Except ε α) = .ok b ↔ a = b :=
  ⟨fun h => by injection h, fun h => by rw [h]⟩

theorem pure_ok {ε α : Type _} {a b : α} : (pure a : Except ε α) = .ok b ↔ a = b := ok_inj

/-! ### delivery -/

theorem deliver_transform' (env : Env U) : ∀ {a : U.Shape} (n : Node U a) {b : U.Shape} (T : Mat U b a),
    deliver env n T = T *ᵥ deliver env n (1 : Mat U a a)
  | _, .src s i, _, T => by simp [deliver]
  | _, .const _ x, _, T => by simp [deliver]
  | _, .transformed source M, _, T => by
      simp only [deliver]
      rw [deliver_transform' env source (T * M), deliver_transform' env source (1 * M),
        Matrix.one_mul, ← Matrix.mulVec_mulVec]
  | _, .summedS l r, _, T => by
      simp only [deliver]
      rw [deliver_transform' env l T, deliver_transform' env r T, Matrix.mulVec_add]
  | _, .summedP l r, _, T => by simp [deliver]
  | _, .bindOut v l r, _, T => by simp [deliver]
  | _, .prodOut l r, _, T => by simp [deliver]
  | _, .dotOut l r, _, T => by simp [deliver]

theorem deliver_eq (env : Env U) {a : U.Shape} (n : Node U a) {b : U.Shape} (T : Mat U b a) :
    deliver env n T = T *ᵥ value env n := deliver_transform' env n T

theorem value_src (env : Env U) (s : U.Shape) (i : Nat) : value env (.src s i) = env s i := by
  simp [value, deliver]

theorem value_const (env : Env U) (s : U.Shape) (x : Vec U s) : value env (.const s x) = x := by
  simp [value, deliver]

theorem value_transformed (env : Env U) {a b : U.Shape} (n : Node U a) (M : Mat U b a) :
    value env (.transformed n M) = M *ᵥ value env n := by
  simp only [value, deliver]
  rw [deliver_transform' env n (1 * M), Matrix.one_mul]

theorem value_summedS (env : Env U) {s : U.Shape} (l r : Node U s) :
    value env (.summedS l r) = value env l + value env r := by
  simp [value, deliver]

theorem value_summedP (env : Env U) {s : U.Shape} (l r : Node U s) :
    value env (.summedP l r) = value env l + value env r := by
  simp [value, deliver]

theorem value_bindOut (env : Env U) (v : U.V) (l r : Node U (U.shape v)) :
    value env (.bindOut v l r) = U.bind v (value env l) (value env r) := by
  simp [value, deliver]

theorem value_prodOut (env : Env U) (l r : Node U U.unit) :
    value env (.prodOut l r) = fun i => value env l i * value env r i := by
  simp [value, deliver]

theorem value_dotOut (env : Env U) {s : U.Shape} (l r : Node U s) :
    value env (.dotOut l r) = ofScalar (value env l ⬝ᵥ value env r) := by
  simp [value, deliver]

theorem smul_one_mulVec {s : U.Shape} (c : R) (x : Vec U s) : (c • (1 : Mat U s s)) *ᵥ x = c • x := by
  rw [Matrix.smul_mulVec, Matrix.one_mulVec]

theorem neg_one_mulVec {s : U.Shape} (x : Vec U s) : ((-1 : R) • (1 : Mat U s s)) *ᵥ x = -x := by
  rw [smul_one_mulVec, neg_one_smul]

theorem rowMat_mulVec {s : U.Shape} (x y : Vec U s) : rowMat x *ᵥ y = ofScalar (x ⬝ᵥ y) := by
  funext i; simp [rowMat, Matrix.mulVec, ofScalar, dotProduct]

theorem colMat_mulVec {s : U.Shape} (x : Vec U s) (y : Vec U U.unit) :
    colMat x *ᵥ y = scalarOf y • x := by
  funext i
  simp [colMat, Matrix.mulVec, scalarOf, dotProduct, mul_comm]

/-! ### casts -/

theorem castN_ok {s s' : U.Shape} {n : Node U s} {n' : Node U s'} (h : castN n s' = .ok n') :
    ∃ e : s = s', e ▸ n = n' := by
  unfold castN at h
  split at h
  · rename_i e; exact ⟨e, by injection h⟩
  · cases h

theorem castV_ok {s s' : U.Shape} {x : Vec U s} {x' : Vec U s'} (h : castV x s' = some x') :
    ∃ e : s = s', e ▸ x = x' := by
  unfold castV at h
  split at h
  · rename_i e; exact ⟨e, by injection h⟩
  · cases h

@[simp] theorem castV_self {s : U.Shape} (x : Vec U s) : castV x s = some x := by simp [castV]

@[simp] theorem castN_self {s : U.Shape} (n : Node U s) : castN n s = .ok n := by simp [castN]

theorem castV_value (env : Env U) {s s' : U.Shape} {n : Node U s} {n' : Node U s'}
    (h : castN n s' = .ok n') : castV (value env n) s' = some (value env n') := by
  obtain ⟨rfl, rfl⟩ := castN_ok h
  simp

/-! ### typing -/

theorem lub_comm (a b : Ty U) : lub a b = lub b a := by
  cases a <;> cases b <;> simp only [lub] <;> split <;> simp_all <;> (intro h; subst h; contradiction)

theorem isScalar_upd (t top : Ty U) : isScalar (upd t top) = isScalar t := by
  cases top <;> cases t <;> rfl

theorem den_ty (env : Env U) (o : Obj U) : (den env o).ty = tyOf o := by cases o <;> rfl

theorem inst_tyAfter (env : Env U) (o : Obj U) (t : Ty U) (s : U.Shape) :
    inst (den env o) (tyAfter o t) s = inst (den env o) (upd (tyOf o) t) s := by
  cases o <;> rfl

theorem isScalar_tyAfter (o : Obj U) (t : Ty U) : isScalar (tyAfter o t) = isScalar (tyOf o) := by
  cases o <;> simp only [tyAfter, tyOf, isScalar_upd]

/-! ### connecting -/

theorem connectable_ok (env : Env U) (o : Obj U) (ty' : Ty U) (s' : U.Shape) (n : Node U s')
    (h : connectable o ty' s' = .ok n) :
    inst (den env o) ty' s' = some (value env n) := by
  cases o with
  | dyn ty s m unres =>
      simp only [connectable] at h
      split at h
      · cases h
      · simpa [den, inst] using castV_value env h
  | sym ty f okv =>
      cases ty' with
      | vocab v =>
          simp only [connectable] at h
          split at h
          · rename_i hv
            have := castV_value env h
            simpa [den, inst, hv, value_const] using this
          · cases h
      | scalar => simp [connectable] at h
      | any => simp [connectable] at h
      | anyDim s => simp [connectable] at h
  | fixV v x =>
      simp only [connectable] at h
      simpa [den, inst, value_const] using castV_value env h
  | fixN s x =>
      simp only [connectable] at h
      simpa [den, inst, value_const] using castV_value env h
  | num c =>
      simp only [connectable] at h
      simpa [den, inst, value_const] using castV_value env h

/-- `connectable` after inference, in the form the specification uses -/
theorem connectable_inst (env : Env U) {o : Obj U} {t : Ty U} {s' : U.Shape} {n : Node U s'}
    (h : connectable o (tyAfter o t) s' = .ok n) :
    inst (den env o) (upd (den env o).ty t) s' = some (value env n) := by
  rw [den_ty, ← inst_tyAfter]; exact connectable_ok env _ _ _ _ h

def isVal : SVal U → Bool
  | .val _ _ _ => true
  | _ => false

theorem isVal_den_dyn (env : Env U) (ty : Ty U) (s : U.Shape) (n : Node U s) (u : Bool) :
    isVal (den env (.dyn ty s n u)) = true := rfl

/-! ### negation -/

theorem negObj_ok (env : Env U) {a o : Obj U} (h : negObj a = .ok o) : den env o = sNeg (den env a) := by
  cases a with
  | dyn ty s n unres =>
      simp only [negObj] at h
      split at h
      · cases h
      · injection h with h; subst h
        simp only [den, sNeg, value_transformed, neg_one_mulVec]
  | sym ty f okv => injection h with h; subst h; rfl
  | fixV v x => injection h with h; subst h; rfl
  | fixN s x => injection h with h; subst h; rfl
  | num c => injection h with h; subst h; rfl

theorem sNeg_ty (a : SVal U) : (sNeg a).ty = a.ty := by cases a <;> rfl

theorem isVal_sNeg (a : SVal U) : isVal (sNeg a) = isVal a := by cases a <;> rfl

theorem castV_neg {s s' : U.Shape} (x : Vec U s) : castV (-x) s' = (castV x s').map (fun y => -y) := by
  unfold castV
  split
  · rename_i e; subst e; rfl
  · rfl

theorem inst_sNeg (a : SVal U) (ty : Ty U) (s : U.Shape) :
    inst (sNeg a) ty s = (inst a ty s).map (fun y => -y) := by
  cases a with
  | num c => exact castV_neg (ofScalar (U := U) c)
  | val t s' x => exact castV_neg x
  | poly t f okv =>
      cases ty with
      | vocab v =>
          simp only [sNeg, inst]
          split
          · exact castV_neg (f v)
          · rfl
      | scalar => rfl
      | any => rfl
      | anyDim s => rfl

/-! ### sums and differences -/

theorem sAdd_inst {a b : SVal U} {t : Ty U} {s : U.Shape} {x y : Vec U s}
    (ht : lub a.ty b.ty = .ok t) (hx : inst a (upd a.ty t) s = some x)
    (hy : inst b (upd b.ty t) s = some y) (hv : (isVal a || isVal b) = true) :
    sAdd a b = some (.val t s (x + y)) := by
  cases a <;> cases b <;> simp only [isVal, Bool.or_self, Bool.false_eq_true] at hv
  all_goals simp only [SVal.ty] at ht hx hy
  · -- num, val
    simp only [inst] at hy
    obtain ⟨rfl, rfl⟩ := castV_ok hy
    simp [sAdd, SVal.ty, ht, Except.toOption, hx]
  · -- val, num
    simp only [inst] at hx
    obtain ⟨rfl, rfl⟩ := castV_ok hx
    simp [sAdd, SVal.ty, ht, Except.toOption, hy]
  · -- val, val
    simp only [inst] at hx
    obtain ⟨rfl, rfl⟩ := castV_ok hx
    simp [sAdd, SVal.ty, ht, Except.toOption, hy]
  · -- val, poly
    simp only [inst] at hx
    obtain ⟨rfl, rfl⟩ := castV_ok hx
    simp [sAdd, SVal.ty, ht, Except.toOption, hy]
  · -- poly, val
    simp only [inst] at hy
    obtain ⟨rfl, rfl⟩ := castV_ok hy
    simp [sAdd, SVal.ty, ht, Except.toOption, hx]

theorem sSub_inst {a b : SVal U} {t : Ty U} {s : U.Shape} {x y : Vec U s}
    (ht : lub a.ty b.ty = .ok t) (hx : inst a (upd a.ty t) s = some x)
    (hy : inst b (upd b.ty t) s = some y) (hv : (isVal a || isVal b) = true) :
    sSub a b = some (.val t s (x - y)) := by
  cases a <;> cases b <;> simp only [isVal, Bool.or_self, Bool.false_eq_true] at hv
  all_goals simp only [SVal.ty] at ht hx hy
  · simp only [inst] at hy
    obtain ⟨rfl, rfl⟩ := castV_ok hy
    simp [sSub, SVal.ty, ht, Except.toOption, hx]
  · simp only [inst] at hx
    obtain ⟨rfl, rfl⟩ := castV_ok hx
    simp [sSub, SVal.ty, ht, Except.toOption, hy]
  · simp only [inst] at hx
    obtain ⟨rfl, rfl⟩ := castV_ok hx
    simp [sSub, SVal.ty, ht, Except.toOption, hy]
  · simp only [inst] at hx
    obtain ⟨rfl, rfl⟩ := castV_ok hx
    simp [sSub, SVal.ty, ht, Except.toOption, hy]
  · simp only [inst] at hy
    obtain ⟨rfl, rfl⟩ := castV_ok hy
    simp [sSub, SVal.ty, ht, Except.toOption, hx]

/-- what a successful `mkSum` consists of -/
theorem mkSum_ok (env : Env U) {a b o : Obj U} (h : mkSum a b = .ok o) :
    ∃ (t : Ty U) (s : U.Shape) (x y : Vec U s), lub (tyOf a) (tyOf b) = .ok t
      ∧ inst (den env a) (upd (den env a).ty t) s = some x
      ∧ inst (den env b) (upd (den env b).ty t) s = some y
      ∧ isVal (den env a) = true
      ∧ den env o = .val t s (x + y) := by
  cases a with
  | dyn ta sa n unres =>
      simp only [mkSum, bind_ok] at h
      obtain ⟨t, ht, l, hl, r, hr, h⟩ := h
      refine ⟨t, _, value env l, value env r, ht, connectable_inst env hl, connectable_inst env hr, rfl, ?_⟩
      split at h <;> (injection h with h; subst h) <;> simp [den, value_summedS, value_summedP]
  | sym ty f okv => simp [mkSum] at h
  | fixV v x => simp [mkSum] at h
  | fixN s x => simp [mkSum] at h
  | num c => simp [mkSum] at h


theorem mkSum_sAdd (env : Env U) {a b o : Obj U} (h : mkSum a b = .ok o) :
    sAdd (den env a) (den env b) = some (den env o) ∧ sAdd (den env b) (den env a) = some (den env o) := by
  obtain ⟨t, s, x, y, ht, hx, hy, hv, ho⟩ := mkSum_ok env h
  rw [ho]
  constructor
  · exact sAdd_inst (by rw [den_ty, den_ty]; exact ht) hx hy (by simp [hv])
  · rw [add_comm]
    exact sAdd_inst (by rw [den_ty, den_ty, lub_comm]; exact ht) hy hx (by simp [hv])

theorem tyOf_negObj (env : Env U) {b nb : Obj U} (hn : negObj b = .ok nb) : tyOf nb = tyOf b := by
  rw [← den_ty env, ← den_ty env, negObj_ok env hn, sNeg_ty]

theorem mkSum_sSub (env : Env U) {a b nb o : Obj U} (hn : negObj b = .ok nb) (h : mkSum a nb = .ok o) :
    sSub (den env a) (den env b) = some (den env o) := by
  obtain ⟨t, s, x, y, ht, hx, hy, hv, ho⟩ := mkSum_ok env h
  rw [negObj_ok env hn, sNeg_ty, inst_sNeg, Option.map_eq_some_iff] at hy
  obtain ⟨y', hy', rfl⟩ := hy
  rw [ho, ← sub_eq_add_neg]
  rw [tyOf_negObj env hn] at ht
  exact sSub_inst (by rw [den_ty, den_ty]; exact ht) hx hy' (by simp [hv])

theorem mkSum_sSub' (env : Env U) {a b nb o : Obj U} (hn : negObj b = .ok nb) (h : mkSum nb a = .ok o) :
    sSub (den env a) (den env b) = some (den env o) := by
  obtain ⟨t, s, x, y, ht, hx, hy, hv, ho⟩ := mkSum_ok env h
  rw [negObj_ok env hn, sNeg_ty, inst_sNeg, Option.map_eq_some_iff] at hx
  obtain ⟨x', hx', rfl⟩ := hx
  rw [negObj_ok env hn, isVal_sNeg] at hv
  rw [ho, neg_add_eq_sub]
  rw [tyOf_negObj env hn, lub_comm] at ht
  exact sSub_inst (by rw [den_ty, den_ty]; exact ht) hy hx' (by simp [hv])

theorem addObj_ok (env : Env U) {a b o : Obj U} (h : addObj a b = .ok o) :
    sAdd (den env a) (den env b) = some (den env o) := by
  cases a <;> cases b <;> simp only [addObj] at h
  all_goals first
    | exact (mkSum_sAdd env h).1
    | exact (mkSum_sAdd env h).2
    | cases h
    | skip
  -- sym, sym
  simp only [bind_ok] at h
  obtain ⟨t, ht, h⟩ := h
  injection h with h; subst h
  simp [den, sAdd, SVal.ty, ht, Except.toOption]

theorem subObj_ok (env : Env U) {a b o : Obj U} (h : subObj a b = .ok o) :
    sSub (den env a) (den env b) = some (den env o) := by
  cases a <;> cases b <;> simp only [subObj] at h
  all_goals first
    | (simp only [bind_ok] at h
       obtain ⟨nb, hn, h⟩ := h
       first | exact mkSum_sSub env hn h | exact mkSum_sSub' env hn h)
    | cases h
    | skip
  -- sym, sym
  simp only [bind_ok] at h
  obtain ⟨t, ht, h⟩ := h
  injection h with h; subst h
  simp [den, sSub, SVal.ty, ht, Except.toOption]


/-! ### products -/

theorem mulFixed_num (env : Env U) {ty : Ty U} {s : U.Shape} {n : Node U s} {u : Bool} {c : R} {swap : Bool}
    {o : Obj U} (h : mulFixed (.dyn ty s n u) (.num c) swap = .ok o) :
    den env o = .val ty s (c • value env n) := by
  simp only [mulFixed] at h
  split at h
  · cases h
  · injection h with h; subst h
    simp only [den, value_transformed, smul_one_mulVec]

theorem mulFixed_sym (env : Env U) {ty : Ty U} {s : U.Shape} {n : Node U s} {u : Bool}
    {tyo : Ty U} {f : ∀ v, Vec U (U.shape v)} {okv : U.V → Bool} {swap : Bool}
    {o : Obj U} (h : mulFixed (.dyn ty s n u) (.sym tyo f okv) swap = .ok o) :
    (swap = false → sMul (.val ty s (value env n)) (.poly tyo f okv) = some (den env o))
    ∧ (swap = true → sMul (.poly tyo f okv) (.val ty s (value env n)) = some (den env o)) := by
  simp only [mulFixed, bind_ok] at h
  obtain ⟨t, ht, h⟩ := h
  split at h
  · rename_i w hw
    split at h
    · cases h
    · rename_i hok
      split at h
      · rename_i hsc
        simp only [bind_ok] at h
        obtain ⟨n', hn', h⟩ := h
        obtain ⟨rfl, rfl⟩ := castN_ok hn'
        injection h with h; subst h
        rw [isScalar_upd] at hsc
        constructor <;> intro _ <;>
          simp_all [sMul, Except.toOption, den, value_transformed, colMat_mulVec]
      · rename_i hsc
        split at h
        · cases h
        · simp only [bind_ok] at h
          obtain ⟨n', hn', h⟩ := h
          obtain ⟨rfl, rfl⟩ := castN_ok hn'
          injection h with h; subst h
          rw [isScalar_upd] at hsc
          constructor <;> intro hs <;> subst hs <;>
            simp_all [sMul, Except.toOption, den, value_transformed, U.bindMat_false, U.bindMat_true]
  · split at h <;> cases h


theorem sMul_scalar {ta tb : Ty U} {sa sb : U.Shape} {x : Vec U sa} {y : Vec U sb} {x' y' : Vec U U.unit}
    (ht : lub ta tb = .ok .scalar) (hx : castV x U.unit = some x') (hy : castV y U.unit = some y') :
    sMul (.val ta sa x) (.val tb sb y) = some (.val .scalar U.unit (fun i => x' i * y' i)) := by
  simp [sMul, ht, Except.toOption, hx, hy]

theorem sMul_vocab {ta tb : Ty U} {sa sb : U.Shape} {x : Vec U sa} {y : Vec U sb} {v : U.V}
    {x' y' : Vec U (U.shape v)}
    (ht : lub ta tb = .ok (.vocab v)) (ha : isScalar ta = false) (hb : isScalar tb = false)
    (hx : castV x (U.shape v) = some x') (hy : castV y (U.shape v) = some y') :
    sMul (.val ta sa x) (.val tb sb y) = some (.val (.vocab v) (U.shape v) (U.bind v x' y')) := by
  simp [sMul, ht, Except.toOption, hx, hy, ha, hb]

theorem lub_upd_vocab {ty tb t : Ty U} {v : U.V} (ht : lub ty tb = .ok t) (h : upd ty t = .vocab v) :
    t = .vocab v := by
  cases ty <;> cases t <;> simp only [upd] at h <;> (try cases h) <;> (try rfl) <;>
    cases tb <;> simp only [lub] at ht <;> (try split at ht) <;> cases ht <;> rfl

theorem isVal_cases {a : SVal U} (hv : isVal a = true) : ∃ tb sb y, a = .val tb sb y := by
  cases a <;> simp [isVal] at hv
  exact ⟨_, _, _, rfl⟩

theorem mulDynamic_ok (env : Env U) {ty : Ty U} {s : U.Shape} {n : Node U s} {u : Bool} {other : Obj U}
    {swap : Bool} {o : Obj U} (h : mulDynamic (.dyn ty s n u) other swap = .ok o)
    (hv : isVal (den env other) = true) :
    (swap = false → sMul (den env (.dyn ty s n u)) (den env other) = some (den env o))
    ∧ (swap = true → sMul (den env other) (den env (.dyn ty s n u)) = some (den env o)) := by
  obtain ⟨tb, sb, y, hden⟩ := isVal_cases hv
  have htb : tyOf other = tb := by rw [← den_ty env, hden]; rfl
  simp only [mulDynamic, bind_ok] at h
  obtain ⟨t, ht, h⟩ := h
  replace ht : lub ty tb = .ok t := by rw [← htb]; exact ht
  cases swap
  · simp only [Bool.false_eq_true, if_false] at h
    refine ⟨fun _ => ?_, fun h' => by cases h'⟩
    split at h
    · simp only [bind_ok] at h
      obtain ⟨l, hl, r, hr, h⟩ := h
      injection h with h; subst h
      have hl' := connectable_ok env _ _ _ _ hl
      have hr' := connectable_ok env _ _ _ _ hr
      rw [hden] at hr' ⊢
      simp only [den, inst] at hl' hr' ⊢
      rw [value_prodOut]
      exact sMul_scalar ht hl' hr'
    · split at h
      · cases h
      · rename_i hsc
        split at h
        · rename_i v hts
          simp only [bind_ok] at h
          obtain ⟨l, hl, r, hr, h⟩ := h
          injection h with h; subst h
          have hl' := connectable_ok env _ _ _ _ hl
          have hr' := connectable_ok env _ _ _ _ hr
          replace hsc : isScalar ty = false ∧ isScalar tb = false := by
            simp only [isScalar_tyAfter, htb, Bool.or_eq_true, not_or, Bool.not_eq_true] at hsc
            exact hsc
          obtain rfl := lub_upd_vocab ht hts
          rw [hden] at hr' ⊢
          simp only [den, inst] at hl' hr' ⊢
          rw [value_bindOut]
          exact sMul_vocab ht hsc.1 hsc.2 hl' hr'
        · cases h
  · simp only [if_true] at h
    refine ⟨fun h' => (by cases h'), fun _ => ?_⟩
    split at h
    · simp only [bind_ok] at h
      obtain ⟨l, hl, r, hr, h⟩ := h
      injection h with h; subst h
      have hl' := connectable_ok env _ _ _ _ hl
      have hr' := connectable_ok env _ _ _ _ hr
      rw [hden] at hl' ⊢
      simp only [den, inst] at hl' hr' ⊢
      rw [value_prodOut]
      rw [lub_comm] at ht
      exact sMul_scalar ht hl' hr'
    · split at h
      · cases h
      · rename_i hsc
        split at h
        · rename_i v hts
          simp only [bind_ok] at h
          obtain ⟨l, hl, r, hr, h⟩ := h
          injection h with h; subst h
          have hl' := connectable_ok env _ _ _ _ hl
          have hr' := connectable_ok env _ _ _ _ hr
          replace hsc : isScalar ty = false ∧ isScalar tb = false := by
            simp only [isScalar_tyAfter, htb, Bool.or_eq_true, not_or, Bool.not_eq_true] at hsc
            exact hsc
          obtain rfl := lub_upd_vocab ht hts
          rw [hden] at hl' ⊢
          simp only [den, inst] at hl' hr' ⊢
          rw [value_bindOut]
          rw [lub_comm] at ht
          exact sMul_vocab ht hsc.2 hsc.1 hl' hr'
        · cases h


theorem mulObj_ok (env : Env U) {a b o : Obj U} (h : mulObj a b = .ok o) :
    sMul (den env a) (den env b) = some (den env o) := by
  cases a <;> cases b <;> simp only [mulObj] at h
  all_goals first
    | exact (mulFixed_sym env h).1 rfl
    | exact (mulFixed_sym env h).2 rfl
    | (rw [mulFixed_num env h]; rfl)
    | exact (mulDynamic_ok env h rfl).1 rfl
    | exact (mulDynamic_ok env h rfl).2 rfl
    | (cases h; first | done | rfl)
    | skip
  -- sym, sym
  simp only [bind_ok] at h
  obtain ⟨t, ht, h⟩ := h
  injection h with h; subst h
  simp [den, sMul, ht, Except.toOption]


/-! ### dot products -/

theorem sDot_inst {a b : SVal U} {t : Ty U} {s : U.Shape} {x y : Vec U s}
    (ht : lub a.ty b.ty = .ok t) (hsa : isScalar a.ty = false) (hsb : isScalar b.ty = false)
    (hx : inst a (upd a.ty t) s = some x)
    (hy : inst b (upd b.ty t) s = some y) (hv : (isVal a || isVal b) = true) :
    sDot a b = some (.val .scalar U.unit (ofScalar (x ⬝ᵥ y))) := by
  cases a <;> cases b <;> simp only [isVal, Bool.or_self, Bool.false_eq_true] at hv
  all_goals simp only [SVal.ty] at ht hx hy hsa hsb
  · simp [isScalar] at hsa
  · simp [isScalar] at hsb
  · simp only [inst] at hx hy
    obtain ⟨rfl, rfl⟩ := castV_ok hx
    simp [sDot, SVal.ty, ht, Except.toOption, hy, hsa, hsb]
  · simp only [inst] at hx
    obtain ⟨rfl, rfl⟩ := castV_ok hx
    simp [sDot, SVal.ty, ht, Except.toOption, hy, hsa, hsb]
  · simp only [inst] at hy
    obtain ⟨rfl, rfl⟩ := castV_ok hy
    simp [sDot, SVal.ty, ht, Except.toOption, hx, hsa, hsb]

theorem dotOp_facts (env : Env U) {ty : Ty U} {s : U.Shape} {n : Node U s} {u : Bool} {other o : Obj U}
    (h : dotOp (.dyn ty s n u) other = .ok o) :
    ∃ (t : Ty U) (s' : U.Shape) (x y : Vec U s'), lub ty (tyOf other) = .ok t
      ∧ isScalar ty = false ∧ isScalar (tyOf other) = false
      ∧ castV (value env n) s' = some x
      ∧ inst (den env other) (upd (tyOf other) t) s' = some y
      ∧ den env o = .val .scalar U.unit (ofScalar (x ⬝ᵥ y)) := by
  simp only [dotOp, bind_ok] at h
  obtain ⟨t, ht, h⟩ := h
  split at h
  · cases h
  rename_i hsc
  replace hsc : isScalar ty = false ∧ isScalar (tyOf other) = false := by
    simp only [isScalar_tyAfter, Bool.or_eq_true, not_or, Bool.not_eq_true] at hsc
    exact hsc
  cases other with
  | dyn tb sb m ub =>
      simp only at h
      split at h
      · rename_i v
        simp only [bind_ok] at h
        obtain ⟨l, hl, r, hr, h⟩ := h
        injection h with h; subst h
        have hl' := connectable_ok env _ _ _ _ hl
        have hr' := connectable_inst env hr
        rw [den_ty] at hr'
        exact ⟨_, _, _, _, ht, hsc.1, hsc.2, hl', hr', by simp only [den, value_dotOut]⟩
      · cases h
  | sym tb f okv =>
      simp only at h
      split at h
      · rename_i w hw
        split at h
        · cases h
        rename_i hok
        split at h
        · cases h
        simp only [bind_ok] at h
        obtain ⟨n', hn', h⟩ := h
        injection h with h; subst h
        refine ⟨_, _, _, f w, ht, hsc.1, hsc.2, castV_value env hn', ?_, ?_⟩
        · have hw' : upd tb t = .vocab w := hw
          simp only [tyOf, hw', den, inst]
          simp_all
        · simp only [den, value_transformed, rowMat_mulVec, dotProduct_comm]
      · cases h
  | fixV w x =>
      simp only at h
      split at h
      · cases h
      simp only [bind_ok] at h
      obtain ⟨n', hn', h⟩ := h
      injection h with h; subst h
      refine ⟨_, _, _, x, ht, hsc.1, hsc.2, castV_value env hn', by simp [den, inst], ?_⟩
      simp only [den, value_transformed, rowMat_mulVec, dotProduct_comm]
  | fixN s' x =>
      simp only at h
      split at h
      · cases h
      simp only [bind_ok] at h
      obtain ⟨n', hn', h⟩ := h
      injection h with h; subst h
      refine ⟨_, _, _, x, ht, hsc.1, hsc.2, castV_value env hn', by simp [den, inst], ?_⟩
      simp only [den, value_transformed, rowMat_mulVec, dotProduct_comm]
  | num c => cases h

theorem dotOp_ok (env : Env U) {a b o : Obj U} (h : dotOp a b = .ok o) :
    sDot (den env a) (den env b) = some (den env o) ∧ sDot (den env b) (den env a) = some (den env o) := by
  cases a with
  | dyn ty s n u =>
      obtain ⟨t, s', x, y, ht, ha, hb, hx, hy, ho⟩ := dotOp_facts env h
      rw [ho]
      constructor
      · exact sDot_inst (by simp only [den_ty]; exact ht) ha (by rw [den_ty]; exact hb) hx (by rw [den_ty]; exact hy) rfl
      · rw [dotProduct_comm]
        exact sDot_inst (by simp only [den_ty]; rw [lub_comm]; exact ht) (by rw [den_ty]; exact hb) ha
          (by rw [den_ty]; exact hy) hx (by simp [isVal, den])
  | sym ty f okv => simp [dotOp] at h
  | fixV v x => simp [dotOp] at h
  | fixN s x => simp [dotOp] at h
  | num c => simp [dotOp] at h

theorem dotObj_ok (env : Env U) {a b o : Obj U} (h : dotObj a b = .ok o) :
    sDot (den env a) (den env b) = some (den env o) := by
  cases a <;> cases b <;> simp only [dotObj] at h
  all_goals first
    | exact (dotOp_ok env h).1
    | exact (dotOp_ok env h).2
    | cases h


/-! ### inverse, division, reinterpret, translate -/

theorem invObj_ok (env : Env U) {sd : Side} {a o : Obj U} (h : invObj sd a = .ok o) :
    sInv sd (den env a) = some (den env o) := by
  cases a with
  | dyn ty s n u =>
      cases ty with
      | vocab v =>
          simp only [invObj] at h
          split at h
          · cases h
          rename_i hok
          split at h
          · cases h
          simp only [bind_ok] at h
          obtain ⟨n', hn', h⟩ := h
          injection h with h; subst h
          have := castV_value env hn'
          simp_all [den, sInv, value_transformed, U.invMat_mulVec]
      | scalar => cases h
      | any => cases h
      | anyDim s' => cases h
  | sym ty f okv => cases h; rfl
  | fixV v x =>
      simp only [invObj] at h
      split at h
      · cases h; simp_all [den, sInv]
      · cases h
  | fixN s x => cases h
  | num c => cases h

theorem divObj_ok (env : Env U) {a o : Obj U} {c : R} (h : divObj a c = .ok o) :
    sDiv (den env a) c = some (den env o) := by
  simp only [divObj] at h
  split at h
  · cases h
  rename_i r hr
  cases a with
  | dyn ty s n u =>
      simp only at h
      rw [mulFixed_num env h]
      simp [sDiv, hr, den, sScale]
  | sym ty f okv => cases h; simp [sDiv, hr, den, sScale]
  | fixV v x => cases h
  | fixN s x => cases h
  | num c => cases h

theorem reinterpObj_ok (env : Env U) {a o : Obj U} {w : Option U.V} (h : reinterpObj a w = .ok o) :
    sReinterp (den env a) w = some (den env o) := by
  cases a with
  | dyn ty s n u =>
      cases ty with
      | vocab v =>
          simp only [reinterpObj] at h
          split at h
          · cases h
          simp only [bind_ok] at h
          obtain ⟨n', hn', h⟩ := h
          obtain ⟨rfl, rfl⟩ := castN_ok hn'
          injection h with h; subst h
          cases w <;> simp [den, sReinterp, value_transformed, isScalar]
      | anyDim s' =>
          simp only [reinterpObj] at h
          split at h
          · cases h
          simp only [bind_ok] at h
          obtain ⟨n', hn', h⟩ := h
          obtain ⟨rfl, rfl⟩ := castN_ok hn'
          injection h with h; subst h
          cases w <;> simp [den, sReinterp, value_transformed, isScalar]
      | scalar => cases h
      | any => cases h
  | sym ty f okv => cases h
  | fixV v x => cases h
  | fixN s x => cases h
  | num c => cases h

theorem translateObj_ok (env : Env U) {a o : Obj U} {w : U.V} (h : translateObj a w = .ok o) :
    sTranslate (den env a) w = some (den env o) := by
  cases a with
  | dyn ty s n u =>
      cases ty with
      | vocab v =>
          simp only [translateObj] at h
          split at h
          · cases h
          simp only [bind_ok] at h
          obtain ⟨n', hn', h⟩ := h
          injection h with h; subst h
          have := castV_value env hn'
          simp_all [den, sTranslate, value_transformed]
      | scalar => cases h
      | any => cases h
      | anyDim s' => cases h
  | sym ty f okv => cases h
  | fixV v x => cases h
  | fixN s x => cases h
  | num c => cases h

/-! ### the compiler -/

theorem compile_ok (env : Env U) : ∀ (e : Expr U) (o : Obj U), compile e = .ok o →
    eval env e = some (den env o)
  | .srcP i v, o, h => by cases h; simp [eval, den, value_src]
  | .srcS i, o, h => by cases h; simp [eval, den, value_src]
  | .sym k, o, h => by cases h; rfl
  | .symV k v, o, h => by cases h; rfl
  | .fixV v x, o, h => by cases h; rfl
  | .fixN s x, o, h => by cases h; rfl
  | .num c, o, h => by cases h; rfl
  | .neg a, o, h => by
      simp only [compile, bind_ok] at h
      obtain ⟨x, hx, h⟩ := h
      simp [eval, compile_ok env a x hx, negObj_ok env h]
  | .inv sd a, o, h => by
      simp only [compile, bind_ok] at h
      obtain ⟨x, hx, h⟩ := h
      simp [eval, compile_ok env a x hx, invObj_ok env h]
  | .add a b, o, h => by
      simp only [compile, bind_ok] at h
      obtain ⟨x, hx, y, hy, h⟩ := h
      simp [eval, compile_ok env a x hx, compile_ok env b y hy, addObj_ok env h]
  | .sub a b, o, h => by
      simp only [compile, bind_ok] at h
      obtain ⟨x, hx, y, hy, h⟩ := h
      simp [eval, compile_ok env a x hx, compile_ok env b y hy, subObj_ok env h]
  | .mul a b, o, h => by
      simp only [compile, bind_ok] at h
      obtain ⟨x, hx, y, hy, h⟩ := h
      simp [eval, compile_ok env a x hx, compile_ok env b y hy, mulObj_ok env h]
  | .dot a b, o, h => by
      simp only [compile, bind_ok] at h
      obtain ⟨x, hx, y, hy, h⟩ := h
      simp [eval, compile_ok env a x hx, compile_ok env b y hy, dotObj_ok env h]
  | .div a c, o, h => by
      simp only [compile, bind_ok] at h
      obtain ⟨x, hx, h⟩ := h
      simp [eval, compile_ok env a x hx, divObj_ok env h]
  | .reinterp a w, o, h => by
      simp only [compile, bind_ok] at h
      obtain ⟨x, hx, h⟩ := h
      simp [eval, compile_ok env a x hx, reinterpObj_ok env h]
  | .translate a w, o, h => by
      simp only [compile, bind_ok] at h
      obtain ⟨x, hx, h⟩ := h
      simp [eval, compile_ok env a x hx, translateObj_ok env h]

theorem compileStmt_ok (env : Env U) (e : Expr U) (sinkTy : Ty U) (ss : U.Shape) (n : Node U ss)
    (h : compileStmt e sinkTy ss = .ok n) :
    evalStmt env e sinkTy ss = some (value env n) := by
  simp only [compileStmt, bind_ok] at h
  obtain ⟨o, ho, t, ht, h⟩ := h
  simp only [evalStmt, compile_ok env e o ho]
  have hc := connectable_inst env h
  rw [den_ty] at hc
  simp [den_ty, ht, Except.toOption, hc]


/-! ## completeness on the core grammar: shapes of compiled objects -/

section complete
variable {v : U.V}

@[simp] theorem tyOf_dyn (ty : Ty U) (s : U.Shape) (n : Node U s) (u : Bool) : tyOf (.dyn ty s n u) = ty := rfl
@[simp] theorem tyOf_sym (ty : Ty U) (f : ∀ v, Vec U (U.shape v)) (okv : U.V → Bool) : tyOf (.sym ty f okv) = ty := rfl
@[simp] theorem tyOf_fixV (v : U.V) (x : Vec U (U.shape v)) : tyOf (.fixV v x : Obj U) = .vocab v := rfl
@[simp] theorem tyOf_fixN (s : U.Shape) (x : Vec U s) : tyOf (.fixN s x : Obj U) = .any := rfl
@[simp] theorem tyOf_num (c : R) : tyOf (.num c : Obj U) = .scalar := rfl
@[simp] theorem tyAfter_dyn (ty : Ty U) (s : U.Shape) (n : Node U s) (u : Bool) (t : Ty U) :
    tyAfter (.dyn ty s n u) t = upd ty t := rfl
@[simp] theorem tyAfter_sym (ty : Ty U) (f : ∀ v, Vec U (U.shape v)) (okv : U.V → Bool) (t : Ty U) :
    tyAfter (.sym ty f okv) t = upd ty t := rfl
@[simp] theorem tyAfter_fixV (v : U.V) (x : Vec U (U.shape v)) (t : Ty U) :
    tyAfter (.fixV v x : Obj U) t = .vocab v := rfl
@[simp] theorem tyAfter_num (c : R) (t : Ty U) : tyAfter (.num c : Obj U) t = .scalar := rfl

@[simp] theorem connectable_dyn_false (ty : Ty U) (s : U.Shape) (n : Node U s) (ty' : Ty U) (s' : U.Shape) :
    connectable (.dyn ty s n false) ty' s' = castN n s' := by simp [connectable]

/-- a pointer-typed network node of vocabulary `v` -/
def IsP (v : U.V) (o : Obj U) : Prop := ∃ n, o = .dyn (.vocab v) (U.shape v) n false
/-- a scalar network node -/
def IsS (o : Obj U) : Prop := ∃ n, o = .dyn (.scalar : Ty U) U.unit n false
/-- a symbolic expression that can be read in `v` -/
def IsSym (v : U.V) (o : Obj U) : Prop :=
  ∃ ty f okv, o = .sym ty f okv ∧ (ty = .any ∨ ty = .vocab v) ∧ okv v = true
/-- anything that can stand next to a pointer node of vocabulary `v` -/
def Pish (v : U.V) (o : Obj U) : Prop := IsP v o ∨ IsSym v o ∨ ∃ x, o = .fixV v x
/-- anything that can stand next to a scalar node in a sum -/
def Sish (o : Obj U) : Prop := IsS o ∨ ∃ c, o = .num c

theorem pish_lub {o : Obj U} (h : Pish v o) : lub (.vocab v) (tyOf o) = .ok (.vocab v) := by
  rcases h with ⟨n, rfl⟩ | ⟨ty, f, okv, rfl, (rfl | rfl), _⟩ | ⟨x, rfl⟩ <;> simp [lub]

theorem pish_conn {o : Obj U} (h : Pish v o) :
    ∃ n, connectable o (tyAfter o (.vocab v)) (U.shape v) = .ok n := by
  rcases h with ⟨n, rfl⟩ | ⟨ty, f, okv, rfl, (rfl | rfl), hok⟩ | ⟨x, rfl⟩
  · simp [connectable]
  · simp [connectable, upd, hok]
  · simp [connectable, upd, hok]
  · simp [connectable]

theorem sish_lub {o : Obj U} (h : Sish o) : lub (.scalar) (tyOf o) = .ok (.scalar) := by
  rcases h with ⟨n, rfl⟩ | ⟨c, rfl⟩ <;> simp [lub]

theorem sish_conn {o : Obj U} (h : Sish o) :
    ∃ n, connectable o (tyAfter o .scalar) U.unit = .ok n := by
  rcases h with ⟨n, rfl⟩ | ⟨c, rfl⟩ <;> simp [connectable]

theorem mkSum_P {a b : Obj U} (ha : IsP v a) (hb : Pish v b) : ∃ o, mkSum a b = .ok o ∧ IsP v o := by
  obtain ⟨n, rfl⟩ := ha
  obtain ⟨r, hr⟩ := pish_conn hb
  refine ⟨.dyn (.vocab v) (U.shape v) (.summedP n r) false, ?_, _, rfl⟩
  simp [mkSum, pish_lub hb, bind, Except.bind, sumShape, upd, hr]

theorem mkSum_S {a b : Obj U} (ha : IsS a) (hb : Sish b) : ∃ o, mkSum a b = .ok o ∧ IsS o := by
  obtain ⟨n, rfl⟩ := ha
  obtain ⟨r, hr⟩ := sish_conn hb
  refine ⟨.dyn .scalar U.unit (.summedS n r) false, ?_, _, rfl⟩
  simp [mkSum, sish_lub hb, bind, Except.bind, sumShape, upd, hr]

theorem negObj_P {a : Obj U} (ha : IsP v a) : ∃ o, negObj a = .ok o ∧ IsP v o := by
  obtain ⟨n, rfl⟩ := ha
  exact ⟨_, rfl, _, rfl⟩

theorem negObj_S {a : Obj U} (ha : IsS a) : ∃ o, negObj a = .ok o ∧ IsS o := by
  obtain ⟨n, rfl⟩ := ha
  exact ⟨_, rfl, _, rfl⟩

theorem negObj_Sym {a : Obj U} (ha : IsSym v a) : ∃ o, negObj a = .ok o ∧ IsSym v o := by
  obtain ⟨ty, f, okv, rfl, hty, hok⟩ := ha
  exact ⟨_, rfl, _, _, _, rfl, hty, hok⟩

theorem negObj_Pish {a : Obj U} (ha : Pish v a) : ∃ o, negObj a = .ok o ∧ Pish v o := by
  rcases ha with ha | ha | ⟨x, rfl⟩
  · obtain ⟨o, h, p⟩ := negObj_P ha; exact ⟨o, h, Or.inl p⟩
  · obtain ⟨o, h, p⟩ := negObj_Sym ha; exact ⟨o, h, Or.inr (Or.inl p)⟩
  · exact ⟨_, rfl, Or.inr (Or.inr ⟨_, rfl⟩)⟩

theorem negObj_Sish {a : Obj U} (ha : Sish a) : ∃ o, negObj a = .ok o ∧ Sish o := by
  rcases ha with ha | ⟨c, rfl⟩
  · obtain ⟨o, h, p⟩ := negObj_S ha; exact ⟨o, h, Or.inl p⟩
  · exact ⟨_, rfl, Or.inr ⟨_, rfl⟩⟩

theorem addObj_P {a b : Obj U} (h : (IsP v a ∧ Pish v b) ∨ (Pish v a ∧ IsP v b)) :
    ∃ o, addObj a b = .ok o ∧ IsP v o := by
  have key : ∀ {a b : Obj U}, IsP v a → Pish v b → ∃ o, addObj a b = .ok o ∧ IsP v o := by
    intro a b ha hb
    have : addObj a b = mkSum a b := by obtain ⟨n, rfl⟩ := ha; simp only [addObj]
    rw [this]; exact mkSum_P ha hb
  rcases h with ⟨ha, hb⟩ | ⟨ha, hb⟩
  · exact key ha hb
  · rcases ha with ha | ha | ⟨x, rfl⟩
    · exact key ha (Or.inl hb)
    · have : addObj a b = mkSum b a := by
        obtain ⟨n, rfl⟩ := hb; obtain ⟨ty, f, okv, rfl, -, -⟩ := ha; simp only [addObj]
      rw [this]; exact mkSum_P hb (Or.inr (Or.inl ha))
    · have : addObj (.fixV v x) b = mkSum b (.fixV v x) := by
        obtain ⟨n, rfl⟩ := hb; simp only [addObj]
      rw [this]; exact mkSum_P hb (Or.inr (Or.inr ⟨_, rfl⟩))

theorem addObj_S {a b : Obj U} (h : (IsS a ∧ Sish b) ∨ (Sish a ∧ IsS b)) :
    ∃ o, addObj a b = .ok o ∧ IsS o := by
  have key : ∀ {a b : Obj U}, IsS a → Sish b → ∃ o, addObj a b = .ok o ∧ IsS o := by
    intro a b ha hb
    have : addObj a b = mkSum a b := by obtain ⟨n, rfl⟩ := ha; simp only [addObj]
    rw [this]; exact mkSum_S ha hb
  rcases h with ⟨ha, hb⟩ | ⟨ha, hb⟩
  · exact key ha hb
  · rcases ha with ha | ⟨c, rfl⟩
    · exact key ha (Or.inl hb)
    · have : addObj (.num c) b = mkSum b (.num c) := by
        obtain ⟨n, rfl⟩ := hb; simp only [addObj]
      rw [this]; exact mkSum_S hb (Or.inr ⟨_, rfl⟩)

theorem subObj_P {a b : Obj U} (h : (IsP v a ∧ Pish v b) ∨ (Pish v a ∧ IsP v b)) :
    ∃ o, subObj a b = .ok o ∧ IsP v o := by
  have key : ∀ {a b : Obj U}, IsP v a → Pish v b → ∃ o, subObj a b = .ok o ∧ IsP v o := by
    intro a b ha hb
    obtain ⟨nb, hnb, pnb⟩ := negObj_Pish hb
    have : subObj a b = mkSum a nb := by
      obtain ⟨n, rfl⟩ := ha; simp only [subObj, hnb, bind, Except.bind]
    rw [this]; exact mkSum_P ha pnb
  rcases h with ⟨ha, hb⟩ | ⟨ha, hb⟩
  · exact key ha hb
  · rcases ha with ha | ha | ⟨x, rfl⟩
    · exact key ha (Or.inl hb)
    · obtain ⟨nb, hnb, pnb⟩ := negObj_P hb
      have : subObj a b = mkSum nb a := by
        obtain ⟨n, rfl⟩ := hb; obtain ⟨ty, f, okv, rfl, -, -⟩ := ha
        simp only [subObj, hnb, bind, Except.bind]
      rw [this]; exact mkSum_P pnb (Or.inr (Or.inl ha))
    · obtain ⟨nb, hnb, pnb⟩ := negObj_P hb
      have : subObj (.fixV v x) b = mkSum nb (.fixV v x) := by
        obtain ⟨n, rfl⟩ := hb
        simp only [subObj, hnb, bind, Except.bind]
      rw [this]; exact mkSum_P pnb (Or.inr (Or.inr ⟨_, rfl⟩))

theorem subObj_S {a b : Obj U} (h : (IsS a ∧ Sish b) ∨ (Sish a ∧ IsS b)) :
    ∃ o, subObj a b = .ok o ∧ IsS o := by
  have key : ∀ {a b : Obj U}, IsS a → Sish b → ∃ o, subObj a b = .ok o ∧ IsS o := by
    intro a b ha hb
    obtain ⟨nb, hnb, pnb⟩ := negObj_Sish hb
    have : subObj a b = mkSum a nb := by
      obtain ⟨n, rfl⟩ := ha; simp only [subObj, hnb, bind, Except.bind]
    rw [this]; exact mkSum_S ha pnb
  rcases h with ⟨ha, hb⟩ | ⟨ha, hb⟩
  · exact key ha hb
  · rcases ha with ha | ⟨c, rfl⟩
    · exact key ha (Or.inl hb)
    · obtain ⟨nb, hnb, pnb⟩ := negObj_S hb
      have : subObj (.num c) b = mkSum nb (.num c) := by
        obtain ⟨n, rfl⟩ := hb
        simp only [subObj, hnb, bind, Except.bind]
      rw [this]; exact mkSum_S pnb (Or.inr ⟨_, rfl⟩)


theorem mulFixed_num_P {a : Obj U} {c : R} {swap : Bool} (ha : IsP v a) :
    ∃ o, mulFixed a (.num c) swap = .ok o ∧ IsP v o := by
  obtain ⟨n, rfl⟩ := ha
  exact ⟨_, rfl, _, rfl⟩

theorem mulFixed_num_S {a : Obj U} {c : R} {swap : Bool} (ha : IsS a) :
    ∃ o, mulFixed a (.num c) swap = .ok o ∧ IsS o := by
  obtain ⟨n, rfl⟩ := ha
  exact ⟨_, rfl, _, rfl⟩

theorem mulFixed_P {a b : Obj U} {swap : Bool} (ha : IsP v a) (hb : IsSym v b) :
    ∃ o, mulFixed a b swap = .ok o ∧ IsP v o := by
  obtain ⟨n, rfl⟩ := ha
  obtain ⟨ty, f, okv, rfl, (rfl | rfl), hok⟩ := hb
  · refine ⟨.dyn (.vocab v) (U.shape v) (.transformed n (U.bindMat v (f v) swap)) false, ?_, _, rfl⟩
    simp [mulFixed, lub, upd, hok, isScalar, isVocab, bind, Except.bind]
  · refine ⟨.dyn (.vocab v) (U.shape v) (.transformed n (U.bindMat v (f v) swap)) false, ?_, _, rfl⟩
    simp [mulFixed, lub, upd, hok, isScalar, isVocab, bind, Except.bind]

theorem mulDynamic_P {a b : Obj U} {swap : Bool} (ha : IsP v a) (hb : IsP v b ∨ ∃ x, b = .fixV v x) :
    ∃ o, mulDynamic a b swap = .ok o ∧ IsP v o := by
  obtain ⟨n, rfl⟩ := ha
  rcases hb with ⟨m, rfl⟩ | ⟨x, rfl⟩ <;> cases swap
  · refine ⟨.dyn (.vocab v) (U.shape v) (.bindOut v n m) false, ?_, _, rfl⟩
    simp [mulDynamic, lub, upd, isScalar, bind, Except.bind]
  · refine ⟨.dyn (.vocab v) (U.shape v) (.bindOut v m n) false, ?_, _, rfl⟩
    simp [mulDynamic, lub, upd, isScalar, bind, Except.bind]
  · refine ⟨.dyn (.vocab v) (U.shape v) (.bindOut v n (.const _ x)) false, ?_, _, rfl⟩
    simp [mulDynamic, lub, upd, isScalar, bind, Except.bind, connectable]
  · refine ⟨.dyn (.vocab v) (U.shape v) (.bindOut v (.const _ x) n) false, ?_, _, rfl⟩
    simp [mulDynamic, lub, upd, isScalar, bind, Except.bind, connectable]

theorem mulDynamic_S {a b : Obj U} {swap : Bool} (ha : IsS a) (hb : IsS b) :
    ∃ o, mulDynamic a b swap = .ok o ∧ IsS o := by
  obtain ⟨n, rfl⟩ := ha
  obtain ⟨m, rfl⟩ := hb
  cases swap
  · refine ⟨.dyn .scalar U.unit (.prodOut n m) false, ?_, _, rfl⟩
    simp [mulDynamic, lub, upd, bind, Except.bind]
  · refine ⟨.dyn .scalar U.unit (.prodOut m n) false, ?_, _, rfl⟩
    simp [mulDynamic, lub, upd, bind, Except.bind]

theorem mulObj_P {a b : Obj U} (h : (IsP v a ∧ Pish v b) ∨ (Pish v a ∧ IsP v b)) :
    ∃ o, mulObj a b = .ok o ∧ IsP v o := by
  have key : ∀ {a b : Obj U}, IsP v a → Pish v b → ∃ o, mulObj a b = .ok o ∧ IsP v o := by
    intro a b ha hb
    rcases hb with hb | hb | ⟨x, rfl⟩
    · have : mulObj a b = mulDynamic a b false := by
        obtain ⟨n, rfl⟩ := ha; obtain ⟨m, rfl⟩ := hb; simp only [mulObj]
      rw [this]; exact mulDynamic_P ha (Or.inl hb)
    · have : mulObj a b = mulFixed a b false := by
        obtain ⟨n, rfl⟩ := ha; obtain ⟨ty, f, okv, rfl, -, -⟩ := hb; simp only [mulObj]
      rw [this]; exact mulFixed_P ha hb
    · have : mulObj a (.fixV v x) = mulDynamic a (.fixV v x) false := by
        obtain ⟨n, rfl⟩ := ha; simp only [mulObj]
      rw [this]; exact mulDynamic_P ha (Or.inr ⟨_, rfl⟩)
  rcases h with ⟨ha, hb⟩ | ⟨ha, hb⟩
  · exact key ha hb
  · rcases ha with ha | ha | ⟨x, rfl⟩
    · exact key ha (Or.inl hb)
    · have : mulObj a b = mulFixed b a true := by
        obtain ⟨n, rfl⟩ := hb; obtain ⟨ty, f, okv, rfl, -, -⟩ := ha; simp only [mulObj]
      rw [this]; exact mulFixed_P hb ha
    · have : mulObj (.fixV v x) b = mulDynamic b (.fixV v x) true := by
        obtain ⟨n, rfl⟩ := hb; simp only [mulObj]
      rw [this]; exact mulDynamic_P hb (Or.inr ⟨_, rfl⟩)

theorem mulObj_P_num {a : Obj U} {c : R} (ha : IsP v a) :
    (∃ o, mulObj a (.num c) = .ok o ∧ IsP v o) ∧ (∃ o, mulObj (.num c) a = .ok o ∧ IsP v o) := by
  obtain ⟨n, rfl⟩ := ha
  exact ⟨⟨_, rfl, _, rfl⟩, ⟨_, rfl, _, rfl⟩⟩

theorem mulObj_S {a b : Obj U} (h : (IsS a ∧ Sish b) ∨ (Sish a ∧ IsS b)) :
    ∃ o, mulObj a b = .ok o ∧ IsS o := by
  have key : ∀ {a b : Obj U}, IsS a → Sish b → ∃ o, mulObj a b = .ok o ∧ IsS o := by
    intro a b ha hb
    rcases hb with hb | ⟨c, rfl⟩
    · have : mulObj a b = mulDynamic a b false := by
        obtain ⟨n, rfl⟩ := ha; obtain ⟨m, rfl⟩ := hb; simp only [mulObj]
      rw [this]; exact mulDynamic_S ha hb
    · obtain ⟨n, rfl⟩ := ha
      exact ⟨_, rfl, _, rfl⟩
  rcases h with ⟨ha, hb⟩ | ⟨ha, hb⟩
  · exact key ha hb
  · rcases ha with ha | ⟨c, rfl⟩
    · exact key ha (Or.inl hb)
    · obtain ⟨n, rfl⟩ := hb
      exact ⟨_, rfl, _, rfl⟩

theorem dotOp_P {a b : Obj U} (ha : IsP v a) (hb : Pish v b) : ∃ o, dotOp a b = .ok o ∧ IsS o := by
  obtain ⟨n, rfl⟩ := ha
  rcases hb with ⟨m, rfl⟩ | ⟨ty, f, okv, rfl, (rfl | rfl), hok⟩ | ⟨x, rfl⟩
  · refine ⟨.dyn .scalar U.unit (.dotOut n m) false, ?_, _, rfl⟩
    simp [dotOp, lub, upd, isScalar, bind, Except.bind]
  · refine ⟨.dyn .scalar U.unit (.transformed n (rowMat (f v))) false, ?_, _, rfl⟩
    simp [dotOp, lub, upd, isScalar, bind, Except.bind, hok]
  · refine ⟨.dyn .scalar U.unit (.transformed n (rowMat (f v))) false, ?_, _, rfl⟩
    simp [dotOp, lub, upd, isScalar, bind, Except.bind, hok]
  · refine ⟨.dyn .scalar U.unit (.transformed n (rowMat x)) false, ?_, _, rfl⟩
    simp [dotOp, lub, upd, isScalar, bind, Except.bind]

theorem dotObj_P {a b : Obj U} (h : (IsP v a ∧ Pish v b) ∨ (Pish v a ∧ IsP v b)) :
    ∃ o, dotObj a b = .ok o ∧ IsS o := by
  have key : ∀ {a b : Obj U}, IsP v a → Pish v b → ∃ o, dotObj a b = .ok o ∧ IsS o := by
    intro a b ha hb
    have : dotObj a b = dotOp a b := by obtain ⟨n, rfl⟩ := ha; simp only [dotObj]
    rw [this]; exact dotOp_P ha hb
  rcases h with ⟨ha, hb⟩ | ⟨ha, hb⟩
  · exact key ha hb
  · rcases ha with ha | ha | ⟨x, rfl⟩
    · exact key ha (Or.inl hb)
    · have : dotObj a b = dotOp b a := by
        obtain ⟨n, rfl⟩ := hb; obtain ⟨ty, f, okv, rfl, -, -⟩ := ha; simp only [dotObj]
      rw [this]; exact dotOp_P hb (Or.inr (Or.inl ha))
    · have : dotObj (.fixV v x) b = dotOp b (.fixV v x) := by
        obtain ⟨n, rfl⟩ := hb; simp only [dotObj]
      rw [this]; exact dotOp_P hb (Or.inr (Or.inr ⟨_, rfl⟩))

theorem invObj_P {a : Obj U} {sd : Side} (hs : U.invOk v sd = true) (ha : IsP v a) :
    ∃ o, invObj sd a = .ok o ∧ IsP v o := by
  obtain ⟨n, rfl⟩ := ha
  refine ⟨.dyn (.vocab v) (U.shape v) (.transformed n (U.invMat v sd)) false, ?_, _, rfl⟩
  simp [invObj, hs, bind, Except.bind]

theorem invObj_Sym {a : Obj U} {sd : Side} (hs : U.invOk v sd = true) (ha : IsSym v a) :
    ∃ o, invObj sd a = .ok o ∧ IsSym v o := by
  obtain ⟨ty, f, okv, rfl, hty, hok⟩ := ha
  exact ⟨_, rfl, _, _, _, rfl, hty, by simp [hok, hs]⟩

theorem divObj_P {a : Obj U} {c : R} (hc : (U.recip c).isSome = true) (ha : IsP v a) :
    ∃ o, divObj a c = .ok o ∧ IsP v o := by
  obtain ⟨n, rfl⟩ := ha
  obtain ⟨r, hr⟩ := Option.isSome_iff_exists.mp hc
  simp only [divObj, hr]
  exact ⟨_, rfl, _, rfl⟩

theorem divObj_S {a : Obj U} {c : R} (hc : (U.recip c).isSome = true) (ha : IsS a) :
    ∃ o, divObj a c = .ok o ∧ IsS o := by
  obtain ⟨n, rfl⟩ := ha
  obtain ⟨r, hr⟩ := Option.isSome_iff_exists.mp hc
  simp only [divObj, hr]
  exact ⟨_, rfl, _, rfl⟩

theorem divObj_Sym {a : Obj U} {c : R} (hc : (U.recip c).isSome = true) (ha : IsSym v a) :
    ∃ o, divObj a c = .ok o ∧ IsSym v o := by
  obtain ⟨ty, f, okv, rfl, hty, hok⟩ := ha
  obtain ⟨r, hr⟩ := Option.isSome_iff_exists.mp hc
  simp only [divObj, hr]
  exact ⟨_, rfl, _, _, _, rfl, hty, hok⟩

theorem lub_symTy {ta tb : Ty U} (ha : ta = .any ∨ ta = .vocab v) (hb : tb = .any ∨ tb = .vocab v) :
    ∃ t, lub ta tb = .ok t ∧ (t = .any ∨ t = .vocab v) := by
  rcases ha with rfl | rfl <;> rcases hb with rfl | rfl <;> simp [lub]

theorem binObj_Sym {a b : Obj U} (ha : IsSym v a) (hb : IsSym v b) :
    (∃ o, addObj a b = .ok o ∧ IsSym v o) ∧ (∃ o, subObj a b = .ok o ∧ IsSym v o)
    ∧ (∃ o, mulObj a b = .ok o ∧ IsSym v o) := by
  obtain ⟨ta, f, oa, rfl, hta, hoa⟩ := ha
  obtain ⟨tb, g, ob, rfl, htb, hob⟩ := hb
  obtain ⟨t, ht, htt⟩ := lub_symTy hta htb
  refine ⟨⟨.sym t (fun v => f v + g v) (fun v => oa v && ob v), ?_, _, _, _, rfl, htt, ?_⟩,
    ⟨.sym t (fun v => f v - g v) (fun v => oa v && ob v), ?_, _, _, _, rfl, htt, ?_⟩,
    ⟨.sym t (fun v => U.bind v (f v) (g v)) (fun v => oa v && ob v), ?_, _, _, _, rfl, htt, ?_⟩⟩
  all_goals first
    | simp only [addObj, subObj, mulObj, ht, bind, Except.bind]
    | simp [hoa, hob]

theorem mulObj_Sym_num {a : Obj U} {c : R} (ha : IsSym v a) :
    (∃ o, mulObj a (.num c) = .ok o ∧ IsSym v o) ∧ (∃ o, mulObj (.num c) a = .ok o ∧ IsSym v o) := by
  obtain ⟨ty, f, okv, rfl, hty, hok⟩ := ha
  exact ⟨⟨_, rfl, _, _, _, rfl, hty, hok⟩, ⟨_, rfl, _, _, _, rfl, hty, hok⟩⟩


/-! ### the same, one level up: expressions whose compilation yields such an object -/

def CompP (v : U.V) (e : Expr U) : Prop := ∃ o, compile e = .ok o ∧ IsP v o
def CompS (e : Expr U) : Prop := ∃ o, compile e = .ok o ∧ IsS o
def CompSym (v : U.V) (e : Expr U) : Prop := ∃ o, compile e = .ok o ∧ IsSym v o
def CompPish (v : U.V) (e : Expr U) : Prop := ∃ o, compile e = .ok o ∧ Pish v o
def CompSish (e : Expr U) : Prop := ∃ o, compile e = .ok o ∧ Sish o

theorem CompP.pish {e : Expr U} (h : CompP v e) : CompPish v e := by
  obtain ⟨o, ho, p⟩ := h; exact ⟨o, ho, Or.inl p⟩
theorem CompSym.pish {e : Expr U} (h : CompSym v e) : CompPish v e := by
  obtain ⟨o, ho, p⟩ := h; exact ⟨o, ho, Or.inr (Or.inl p)⟩
theorem compPish_fixV (x : Vec U (U.shape v)) : CompPish v (.fixV v x) := ⟨_, rfl, Or.inr (Or.inr ⟨_, rfl⟩)⟩
theorem CompS.sish {e : Expr U} (h : CompS e) : CompSish e := by
  obtain ⟨o, ho, p⟩ := h; exact ⟨o, ho, Or.inl p⟩
theorem compSish_num (c : R) : CompSish (U := U) (.num c) := ⟨_, rfl, Or.inr ⟨_, rfl⟩⟩

theorem compile_un {e : Expr U} {x : Obj U} (h : compile e = .ok x) :
    compile (.neg e) = negObj x ∧ (∀ sd, compile (.inv sd e) = invObj sd x)
    ∧ (∀ c, compile (.div e c) = divObj x c) := by
  simp [compile, h, bind, Except.bind]

theorem compile_bin {a b : Expr U} {x y : Obj U} (ha : compile a = .ok x) (hb : compile b = .ok y) :
    compile (.add a b) = addObj x y ∧ compile (.sub a b) = subObj x y
    ∧ compile (.mul a b) = mulObj x y ∧ compile (.dot a b) = dotObj x y := by
  simp [compile, ha, hb, bind, Except.bind]

theorem compP_srcP (i : Nat) : CompP v (.srcP i v) := ⟨_, rfl, _, rfl⟩
theorem compS_srcS (i : Nat) : CompS (U := U) (.srcS i) := ⟨_, rfl, _, rfl⟩
theorem compSym_sym (k : Nat) : CompSym v (.sym k) := ⟨_, rfl, _, _, _, rfl, Or.inl rfl, rfl⟩

theorem CompP.neg {e : Expr U} (h : CompP v e) : CompP v (.neg e) := by
  obtain ⟨x, hx, p⟩ := h
  unfold CompP; rw [(compile_un hx).1]; exact negObj_P p
theorem CompS.neg {e : Expr U} (h : CompS e) : CompS (.neg e) := by
  obtain ⟨x, hx, p⟩ := h
  unfold CompS; rw [(compile_un hx).1]; exact negObj_S p
theorem CompSym.neg {e : Expr U} (h : CompSym v e) : CompSym v (.neg e) := by
  obtain ⟨x, hx, p⟩ := h
  unfold CompSym; rw [(compile_un hx).1]; exact negObj_Sym p

theorem CompP.inv {e : Expr U} {sd : Side} (hs : U.invOk v sd = true) (h : CompP v e) : CompP v (.inv sd e) := by
  obtain ⟨x, hx, p⟩ := h
  unfold CompP; rw [(compile_un hx).2.1]; exact invObj_P hs p
theorem CompSym.inv {e : Expr U} {sd : Side} (hs : U.invOk v sd = true) (h : CompSym v e) :
    CompSym v (.inv sd e) := by
  obtain ⟨x, hx, p⟩ := h
  unfold CompSym; rw [(compile_un hx).2.1]; exact invObj_Sym hs p

theorem CompP.div {e : Expr U} {c : R} (hc : (U.recip c).isSome = true) (h : CompP v e) : CompP v (.div e c) := by
  obtain ⟨x, hx, p⟩ := h
  unfold CompP; rw [(compile_un hx).2.2]; exact divObj_P hc p
theorem CompS.div {e : Expr U} {c : R} (hc : (U.recip c).isSome = true) (h : CompS e) : CompS (.div e c) := by
  obtain ⟨x, hx, p⟩ := h
  unfold CompS; rw [(compile_un hx).2.2]; exact divObj_S hc p
theorem CompSym.div {e : Expr U} {c : R} (hc : (U.recip c).isSome = true) (h : CompSym v e) :
    CompSym v (.div e c) := by
  obtain ⟨x, hx, p⟩ := h
  unfold CompSym; rw [(compile_un hx).2.2]; exact divObj_Sym hc p

/-- `+`, `-`, `*` of a pointer node with anything pointer-like of the same vocabulary (either
order) is a pointer node; `dot` of them is a scalar node. -/
theorem CompP.bin {a b : Expr U} (h : (CompP v a ∧ CompPish v b) ∨ (CompPish v a ∧ CompP v b)) :
    CompP v (.add a b) ∧ CompP v (.sub a b) ∧ CompP v (.mul a b) ∧ CompS (.dot a b) := by
  unfold CompP CompS
  rcases h with ⟨⟨x, hx, px⟩, ⟨y, hy, py⟩⟩ | ⟨⟨x, hx, px⟩, ⟨y, hy, py⟩⟩
  · obtain ⟨h1, h2, h3, h4⟩ := compile_bin hx hy
    rw [h1, h2, h3, h4]
    exact ⟨addObj_P (Or.inl ⟨px, py⟩), subObj_P (Or.inl ⟨px, py⟩), mulObj_P (Or.inl ⟨px, py⟩),
      dotObj_P (Or.inl ⟨px, py⟩)⟩
  · obtain ⟨h1, h2, h3, h4⟩ := compile_bin hx hy
    rw [h1, h2, h3, h4]
    exact ⟨addObj_P (Or.inr ⟨px, py⟩), subObj_P (Or.inr ⟨px, py⟩), mulObj_P (Or.inr ⟨px, py⟩),
      dotObj_P (Or.inr ⟨px, py⟩)⟩

theorem CompS.bin {a b : Expr U} (h : (CompS a ∧ CompSish b) ∨ (CompSish a ∧ CompS b)) :
    CompS (.add a b) ∧ CompS (.sub a b) ∧ CompS (.mul a b) := by
  unfold CompS
  rcases h with ⟨⟨x, hx, px⟩, ⟨y, hy, py⟩⟩ | ⟨⟨x, hx, px⟩, ⟨y, hy, py⟩⟩
  · obtain ⟨h1, h2, h3, h4⟩ := compile_bin hx hy
    rw [h1, h2, h3]
    exact ⟨addObj_S (Or.inl ⟨px, py⟩), subObj_S (Or.inl ⟨px, py⟩), mulObj_S (Or.inl ⟨px, py⟩)⟩
  · obtain ⟨h1, h2, h3, h4⟩ := compile_bin hx hy
    rw [h1, h2, h3]
    exact ⟨addObj_S (Or.inr ⟨px, py⟩), subObj_S (Or.inr ⟨px, py⟩), mulObj_S (Or.inr ⟨px, py⟩)⟩

theorem CompSym.bin {a b : Expr U} (ha : CompSym v a) (hb : CompSym v b) :
    CompSym v (.add a b) ∧ CompSym v (.sub a b) ∧ CompSym v (.mul a b) := by
  unfold CompSym
  obtain ⟨x, hx, px⟩ := ha
  obtain ⟨y, hy, py⟩ := hb
  obtain ⟨h1, h2, h3, h4⟩ := compile_bin hx hy
  rw [h1, h2, h3]
  exact binObj_Sym px py

theorem CompP.mul_num {a : Expr U} (c : R) (h : CompP v a) :
    CompP v (.mul a (.num c)) ∧ CompP v (.mul (.num c) a) := by
  unfold CompP
  obtain ⟨x, hx, px⟩ := h
  rw [(compile_bin hx (rfl : compile (.num c) = .ok (.num c))).2.2.1,
    (compile_bin (rfl : compile (.num c) = .ok (.num c)) hx).2.2.1]
  exact mulObj_P_num px

theorem CompSym.mul_num {a : Expr U} (c : R) (h : CompSym v a) :
    CompSym v (.mul a (.num c)) ∧ CompSym v (.mul (.num c) a) := by
  unfold CompSym
  obtain ⟨x, hx, px⟩ := h
  rw [(compile_bin hx (rfl : compile (.num c) = .ok (.num c))).2.2.1,
    (compile_bin (rfl : compile (.num c) = .ok (.num c)) hx).2.2.1]
  exact mulObj_Sym_num px

end complete

end C01

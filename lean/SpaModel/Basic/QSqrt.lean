/-
Executable carrier `ℚ(√m)` for the drivers: VTB/TVTB scale by `sqrt(sub_d)`, which is
irrational for non-square `sub_d`.  `QS m` is Mathlib's `QuadraticAlgebra ℚ m 0`
(elements `re + im·√m`, a proved commutative ring), so the very same `Impl.*`
definitions the theorems quantify over (any commutative ring) run on exact values.
-/
import Mathlib.Algebra.QuadraticAlgebra.Basic
import SpaModel.Proto

abbrev QS (m : ℕ) := QuadraticAlgebra ℚ (m : ℚ) 0

namespace QS
open QuadraticAlgebra
/-- `√m` -/
def rt (m : ℕ) : QS m := ⟨0, 1⟩
/-- `1/√m = √m / m` -/
def rtInv (m : ℕ) : QS m := ⟨0, 1 / (m : ℚ)⟩
def emb (m : ℕ) (q : ℚ) : QS m := ⟨q, 0⟩

theorem rt_mul_rt (m : ℕ) : rt m * rt m = (m : QS m) := by
  ext <;> simp [rt]

theorem rt_mul_rtInv (m : ℕ) (hm : m ≠ 0) : rt m * rtInv m = 1 := by
  have : (m : ℚ) ≠ 0 := by exact_mod_cast hm
  ext <;> simp [rt, rtInv, this]

/-- token `re` or `re~im` -/
def show' {m : ℕ} (x : QS m) : String :=
  if x.im = 0 then Proto.showRat x.re else Proto.showRat x.re ++ "~" ++ Proto.showRat x.im

def showList {m : ℕ} (l : List (QS m)) : String := Proto.showList show' l
end QS

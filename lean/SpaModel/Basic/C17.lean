/-
C17 — sign and absolute value of a vector (model).

Mirrors
* `nengo_spa/algebras/hrr_algebra.py`: `HrrAlgebra.sign`, `HrrSign` (`__init__`, `is_positive`,
  `is_negative`, `is_indefinite`, `to_vector`), `AbstractSign.is_zero`, `AbstractAlgebra.abs`
  (`nengo_spa/algebras/base.py`);
* `nengo_spa/algebras/vtb_algebra.py`: `VtbAlgebra.sign`, `VtbAlgebra.abs`, `VtbSign.to_vector`;
  `nengo_spa/algebras/tvtb_algebra.py`: `TvtbAlgebra.sign`, `TvtbSign.to_vector` (its `abs` is the
  inherited `AbstractAlgebra.abs`); `GenericSign` (`base.py`).
* `SemanticPointer.sign()/abs()` forward to the algebra and `SemanticPointerSign` forwards every
  predicate to the wrapped sign: no logic of their own (tied in the harness).

Built on the shared algebra model `SpaModel/Basic/Algebra.lean` (`bind`, `invert`, `identity`, `dc`,
`nyq`, `bindMat`).  `Impl.*` follows the code, `Spec.*` is the documented classification.

Modelled, not verified: `np.fft.rfft(v)[[0, -1]]` is replaced by the two real characters
`dc v = Σ v_i`, `nyq v = Σ (-1)^i v_i` (exactly these coefficients for even d; for odd d the code
overwrites the second one by 0 and so does the model); `np.linalg.eigvalsh` / `np.allclose` are replaced
by their meaning for a real symmetric matrix: all eigenvalues > 0 ⇔ the quadratic form is positive
definite, all < 0 ⇔ negative definite, all = 0 ⇔ the matrix is 0 (spectral theorem, assumed).
-/
import SpaModel.Basic.Algebra
import Mathlib.Algebra.Order.Ring.Defs

open Matrix

namespace C17
open Alg

/-- the four documented classes of a sign (`is_positive`, `is_negative`, `is_zero`, `is_indefinite`) -/
inductive Cls where
  | positive | negative | zero | indefinite
deriving DecidableEq, Repr

/-- `int(np.sign(x))` -/
def sgn {R : Type*} [Zero R] [LinearOrder R] (x : R) : Int :=
  if 0 < x then 1 else if x < 0 then -1 else 0

/-! ## HRR -/
namespace Hrr
open Alg.Hrr

/-- the two slots of `HrrSign` -/
structure Sign where
  dc : Int
  nyq : Int
deriving DecidableEq, Repr

/-- the three `ValueError`s of `HrrSign.__init__`, in the order they are tested -/
inductive SignErr where
  | nyquistWithoutDc   -- "nyquist_sign must be 0 if dc_sign is 0 …"
  | badDc              -- "dc_sign must be one of -1, 0, 1"
  | badNyquist         -- "nyquist_sign must be one of -1, 0, 1"
deriving DecidableEq, Repr

namespace Impl
variable {R : Type*} [CommRing R] [LinearOrder R] {k : ℕ}

/-- `HrrSign.__init__`: three validations, then `nyquist_sign == 0 ⇒ nyquist_sign := dc_sign`. -/
def mkSign (dc nyq : Int) : Except SignErr Sign :=
  if dc = 0 ∧ nyq ≠ 0 then .error .nyquistWithoutDc
  else if ¬ (dc = -1 ∨ dc = 0 ∨ dc = 1) then .error .badDc
  else if ¬ (nyq = -1 ∨ nyq = 0 ∨ nyq = 1) then .error .badNyquist
  else .ok ⟨dc, if nyq = 0 then dc else nyq⟩

/-- `is_positive`: `dc_sign > 0 and nyquist_sign >= 0` -/
def isPositive (s : Sign) : Bool := decide (s.dc > 0) && decide (s.nyq ≥ 0)
/-- `is_negative`: `dc_sign < 0 or nyquist_sign < 0` -/
def isNegative (s : Sign) : Bool := decide (s.dc < 0) || decide (s.nyq < 0)
/-- `is_indefinite`: always `False` for `HrrSign` -/
def isIndefinite (_ : Sign) : Bool := false
/-- `AbstractSign.is_zero`: `not (is_positive() or is_negative() or is_indefinite())` -/
def isZero (s : Sign) : Bool := !(isPositive s || isNegative s || isIndefinite s)

/-- the class read off the four predicates (first one that answers `True`) -/
def cls (s : Sign) : Cls :=
  if isPositive s then .positive else if isNegative s then .negative
  else if isIndefinite s then .indefinite else .zero

/-- unit vector at position `j` -/
def delta (k : ℕ) (j : Fin (k+1)) : Vec k R := fun i => if i = j then 1 else 0

/-- `np.roll(v, 1)` -/
def roll1 (v : Vec k R) : Vec k R := fun i => v (i - 1)

/-- `HrrSign.to_vector(d)`: zeros for `dc_sign == 0`; otherwise the identity, rolled by one when
`dc_sign * nyquist_sign < 0`, times `dc_sign`. -/
def toVector (k : ℕ) (s : Sign) : Vec k R :=
  if s.dc = 0 then Hrr.Impl.zero k
  else
    let v : Vec k R := Hrr.Impl.identity k
    let v := if s.dc * s.nyq < 0 then roll1 v else v
    fun i => (s.dc : R) * v i

/-- `HrrAlgebra.sign`: DC and Nyquist coefficient, the latter replaced by 0 for odd `d`,
then `HrrSign(int(np.sign(dc)), int(np.sign(nyquist)))` (whose constructor may raise). -/
def sign (v : Vec k R) : Except SignErr Sign :=
  let dc := Hrr.Impl.dc v
  let ny := if (k + 1) % 2 = 1 then 0 else Hrr.Impl.nyq v
  mkSign (sgn dc) (sgn ny)

/-- `AbstractAlgebra.abs`: `bind(invert(sign(v).to_vector(len(v))), v)`; an exception of `sign`
propagates. -/
def abs (v : Vec k R) : Except SignErr (Vec k R) :=
  match sign v with
  | .error e => .error e
  | .ok s => .ok (Hrr.Impl.bind (Hrr.Impl.invert (toVector k s)) v)

end Impl

namespace Spec
variable {R : Type*} [CommRing R] [LinearOrder R] {k : ℕ}

/-- the Nyquist coefficient the documentation speaks about: it exists for even `d` only -/
def nyqE (v : Vec k R) : R := if (k + 1) % 2 = 1 then 0 else Hrr.Impl.nyq v

/-- The documented classification (`HrrSign` docstring): positive iff DC > 0 and Nyquist ≥ 0,
negative iff either is negative, zero iff both are zero; "indefinite" is by definition
(`AbstractSign.is_indefinite`) what is none of the three — DC = 0 with Nyquist > 0. -/
def HasClass (v : Vec k R) : Cls → Prop
  | .positive => 0 < Hrr.Impl.dc v ∧ 0 ≤ nyqE v
  | .negative => Hrr.Impl.dc v < 0 ∨ nyqE v < 0
  | .zero => Hrr.Impl.dc v = 0 ∧ nyqE v = 0
  | .indefinite => Hrr.Impl.dc v = 0 ∧ 0 < nyqE v

/-- the input class on which `HrrAlgebra.sign` raises today (DESIGN 7.11) -/
def DcZeroNyquistNonzero (v : Vec k R) : Prop := Hrr.Impl.dc v = 0 ∧ nyqE v ≠ 0

end Spec
end Hrr

/-! ## definiteness of a real square matrix (own elementary definitions) -/
namespace Def
variable {n : Type*} [Fintype n] {R : Type*} [CommRing R] [LinearOrder R]

/-- the quadratic form `xᵀ M x` -/
def quad (M : Matrix n n R) (x : n → R) : R := x ⬝ᵥ (M *ᵥ x)

def PosDef (M : Matrix n n R) : Prop := ∀ x : n → R, x ≠ 0 → 0 < quad M x
def NegDef (M : Matrix n n R) : Prop := ∀ x : n → R, x ≠ 0 → quad M x < 0

/-- The documented classification (`VtbSign`/`TvtbSign` docstring): positive (negative) iff symmetric and
positive (negative) definite, zero iff all eigenvalues are 0 (for a symmetric real matrix: the matrix is 0),
indefinite otherwise (not symmetric, or symmetric with eigenvalues of different kinds). -/
def HasClass (M : Matrix n n R) : Cls → Prop
  | .positive => M.IsSymm ∧ PosDef M
  | .negative => M.IsSymm ∧ NegDef M
  | .zero => M = 0
  | .indefinite => ¬ M.IsSymm ∨ (¬ PosDef M ∧ ¬ NegDef M ∧ M ≠ 0)

open Classical in
/-- the body of `VtbAlgebra.sign` / `TvtbAlgebra.sign` after `m = self.get_binding_matrix(v)`:
`allclose(m, m.T)` else `None`; eigenvalues all > 0 → 1; all < 0 → -1; all ≈ 0 → 0; else `None`
(branch order as in the code; the eigenvalue tests are replaced by their meaning). -/
noncomputable def classify (M : Matrix n n R) : Option Int :=
  if ¬ M.IsSymm then none
  else if PosDef M then some 1
  else if NegDef M then some (-1)
  else if M = 0 then some 0
  else none

end Def

/-! ## `GenericSign` -/
namespace Generic

/-- `GenericSign.__init__` accepts -1, 0, 1, None -/
def valid (g : Option Int) : Bool :=
  match g with
  | none => true
  | some z => z == -1 || z == 0 || z == 1

def isIndefinite (g : Option Int) : Bool := g.isNone
def isPositive (g : Option Int) : Bool := match g with | none => false | some z => decide (z > 0)
def isNegative (g : Option Int) : Bool := match g with | none => false | some z => decide (z < 0)
def isZero (g : Option Int) : Bool := match g with | none => false | some z => decide (z = 0)

def cls (g : Option Int) : Cls :=
  if isPositive g then .positive else if isNegative g then .negative
  else if isIndefinite g then .indefinite else .zero

/-- `to_vector` of an indefinite sign raises `NotImplementedError` -/
inductive VecErr where
  | indefinite
deriving DecidableEq, Repr

end Generic

/-! ## certificates: an executable, sound stand-in for the eigenvalue decision -/
namespace Cert
variable {m : ℕ} {R : Type*} [CommRing R] [LinearOrder R]

/-- a checkable reason for a class -/
inductive Reason (m : ℕ) (R : Type*) where
  /-- `M = G Gᵀ + c·1`, `c > 0` -/
  | pos (G : Matrix (Fin m) (Fin m) R) (c : R)
  /-- `-M = G Gᵀ + c·1`, `c > 0` -/
  | neg (G : Matrix (Fin m) (Fin m) R) (c : R)
  | zero
  | nonsymm
  /-- symmetric, non-zero, `x ≠ 0` with `xᵀMx ≥ 0`, `y ≠ 0` with `yᵀMy ≤ 0` -/
  | indef (x y : Fin m → R)

/-- the `GenericSign` value established by a certificate, `none` when the certificate does not check -/
def check (M : Matrix (Fin m) (Fin m) R) : Reason m R → Option (Option Int)
  | .pos G c => if 0 < c ∧ M = G * Gᵀ + c • (1 : Matrix (Fin m) (Fin m) R) then some (some 1) else none
  | .neg G c => if 0 < c ∧ -M = G * Gᵀ + c • (1 : Matrix (Fin m) (Fin m) R) then some (some (-1)) else none
  | .zero => if M = 0 then some (some 0) else none
  | .nonsymm => if Mᵀ ≠ M then some none else none
  | .indef x y =>
      if Mᵀ = M ∧ M ≠ 0 ∧ x ≠ 0 ∧ y ≠ 0 ∧ 0 ≤ Def.quad M x ∧ Def.quad M y ≤ 0 then some none else none

end Cert

/-! ## VTB -/
namespace Vtb
open Alg.Vtb
variable {R : Type*} [CommRing R] {m : ℕ}

namespace Impl
/-- `VtbSign.to_vector`: right identity / negative right identity / zero element; `NotImplementedError`
for the indefinite sign -/
def toVector (m : ℕ) (sinv : R) : Option Int → Except Generic.VecErr (Vec2 m R)
  | none => .error .indefinite
  | some z =>
      if z > 0 then .ok (Vtb.Impl.identity m sinv)
      else if z < 0 then .ok (Vtb.Impl.negIdentity m sinv)
      else .ok (Vtb.Impl.zero m)

/-- `VtbAlgebra.abs` for a given sign value: `bind(v, sign.to_vector(len(v)))` -/
def absWith (s sinv : R) (v : Vec2 m R) (g : Option Int) : Except Generic.VecErr (Vec2 m R) :=
  match toVector m sinv g with
  | .error e => .error e
  | .ok u => .ok (Vtb.Impl.bind s v u)

variable [LinearOrder R]
/-- `VtbAlgebra.sign`: classification of `get_binding_matrix(v)` (the `d × d` block matrix) -/
noncomputable def sign (s : R) (v : Vec2 m R) : Option Int := Def.classify (Vtb.Impl.bindMat s v false)
/-- `VtbAlgebra.abs` -/
noncomputable def abs (s sinv : R) (v : Vec2 m R) : Except Generic.VecErr (Vec2 m R) :=
  absWith s sinv v (sign s v)
end Impl
end Vtb

/-! ## TVTB -/
namespace Tvtb
open Alg.Tvtb
variable {R : Type*} [CommRing R] {m : ℕ}

namespace Impl
/-- `TvtbSign.to_vector` -/
def toVector (m : ℕ) (sinv : R) : Option Int → Except Generic.VecErr (Vec2 m R)
  | none => .error .indefinite
  | some z =>
      if z > 0 then .ok (Tvtb.Impl.identity m sinv)
      else if z < 0 then .ok (Tvtb.Impl.negIdentity m sinv)
      else .ok (Tvtb.Impl.zero m)

/-- inherited `AbstractAlgebra.abs` for a given sign value: `bind(invert(sign.to_vector(len(v))), v)` -/
def absWith (s sinv : R) (v : Vec2 m R) (g : Option Int) : Except Generic.VecErr (Vec2 m R) :=
  match toVector m sinv g with
  | .error e => .error e
  | .ok u => .ok (Tvtb.Impl.bind s (Tvtb.Impl.invert u) v)

variable [LinearOrder R]
noncomputable def sign (s : R) (v : Vec2 m R) : Option Int := Def.classify (Tvtb.Impl.bindMat s v false)
noncomputable def abs (s sinv : R) (v : Vec2 m R) : Except Generic.VecErr (Vec2 m R) :=
  absWith s sinv v (sign s v)
end Impl
end Tvtb

end C17

/-
C05 — binding networks bind; unbind options recover the bound operand.

Model of the network *construction* code (Direct neurons, no synapses: every ensemble computes its
function exactly, a connection with transform `T` adds `T·x`):

* `nengo_spa/networks/matrix_multiplication.py`  `MatrixMult`          → `MatrixMult.Impl`
* `nengo_spa/networks/vtb.py`   `inversion_matrix`, `swapping_matrix`, `VTB.__init__`  → `Vtb.Impl`
* `nengo_spa/networks/tvtb.py`  `TVTB.__init__` (as repaired by ccdcb31)                → `Tvtb.Impl`
* `nengo_spa/networks/circularconvolution.py` `transform_in`, `transform_out`, `CircularConvolution`
                                                                                          → `Hrr.Impl`
* `implement_binding` of the three algebras and `nengo_spa/modules/bind.py`              → `Bind.Impl`

Values held by a Node / passed along a connection are flat arrays (`Array R`, index = NumPy flat
index, out-of-range reads are `0` and never happen in the proofs); transforms are built once at
construction time (`tab2`) from the code's index arithmetic.  `R` is any commutative ring: the
drivers run the same definitions over `ℚ` and `ℚ(√m)`.

The DFT coefficients of the HRR network are irrational, so `Hrr.Impl.build` takes the table
`dft_half(d)` (real and imaginary parts) as a parameter; the layout of the three transforms around
that table is what is modelled.
-/
import SpaModel.Basic.Algebra

namespace C05
open Alg

variable {R : Type*} [CommRing R]

/-! ## flat arrays -/

/-- read entry `i` of a flat array -/
def rd (v : Array R) (i : ℕ) : R := v.getD i 0
/-- read entry `(r, c)` of a matrix stored as array of rows -/
def rd2 (M : Array (Array R)) (r c : ℕ) : R := (M.getD r #[]).getD c 0

/-- a vector of `n` entries given by an index function (a Node of `size_in = n`) -/
def tab (n : ℕ) (f : ℕ → R) : Array R := Array.ofFn (n := n) fun i => f i.val
/-- an `nr × nc` matrix given by an index function (`np.zeros((nr, nc))` then assignments) -/
def tab2 (nr nc : ℕ) (F : ℕ → ℕ → R) : Array (Array R) :=
  Array.ofFn (n := nr) fun r => Array.ofFn (n := nc) fun c => F r.val c.val

/-- `nengo.Connection(pre, post, transform=M)` with `M` of shape `nr × nc`: `post = M · pre` -/
def mvA (nr nc : ℕ) (M : Array (Array R)) (v : Array R) : Array R :=
  tab nr fun r => ∑ c ∈ Finset.range nc, rd2 M r c * rd v c

/-- view of a flat array as `a × b` matrix (row-major `reshape`) -/
def reshape (a b : ℕ) (v : Array R) : Matrix (Fin a) (Fin b) R :=
  Matrix.of fun i j => rd v (i.val * b + j.val)
/-- `M.flatten()` -/
def flatten {a b : ℕ} (M : Matrix (Fin a) (Fin b) R) : Array R :=
  tab (a * b) fun t =>
    if h : t / b < a ∧ t % b < b then M ⟨t / b, h.1⟩ ⟨t % b, h.2⟩ else 0

/-- the `m × m` view used by the shared algebra model (`Alg.Vec2`) -/
def vec2OfArr (m : ℕ) (v : Array R) : Vec2 m R := fun p => rd v (flatIdx p)
def arrOfVec2 {m : ℕ} (x : Vec2 m R) : Array R := flatten (toMat x)
/-- HRR vectors -/
def vecOfArr (n : ℕ) (v : Array R) : Fin n → R := fun i => rd v i.val
def arrOfVec {n : ℕ} (x : Fin n → R) : Array R :=
  tab n fun i => if h : i < n then x ⟨i, h⟩ else 0

/-! ## `linear → element-wise product → linear` networks -/

/-- A built network `input_left —TL→ Product.input_a`, `input_right —TR→ Product.input_b`,
`Product.output —TO→ output` (`nengo.networks.Product` with Direct neurons multiplies
element-wise). -/
structure ProdNet (R : Type*) where
  nL : ℕ
  nR : ℕ
  nC : ℕ
  nO : ℕ
  TL : Array (Array R)
  TR : Array (Array R)
  TO : Array (Array R)

namespace ProdNet
/-- one evaluation at steady state -/
def eval (N : ProdNet R) (A B : Array R) : Array R :=
  let pa := mvA N.nC N.nL N.TL A
  let pb := mvA N.nC N.nR N.TR B
  let prod := tab N.nC fun c => rd pa c * rd pb c
  mvA N.nO N.nC N.TO prod

/-- the input/output map on `Fin n → R` for a network with `n`-dimensional inputs and output -/
def fn (N : ProdNet R) (n : ℕ) (a b : Fin n → R) : Fin n → R :=
  vecOfArr n (N.eval (arrOfVec a) (arrOfVec b))
end ProdNet

/-! ## MatrixMult -/
namespace MatrixMult

inductive ShapeErr where
  | notTwoDim      -- ValueError("Shape … is not two dimensional.")
  | incompatible   -- ValueError("Matrix dimensions … are incompatible")
deriving DecidableEq, Repr

namespace Impl
/-- `c_index = j + k * shape_right[0] + i * size_right` -/
def cIndex (D2 D3 i j k : ℕ) : ℕ := j + k * D2 + i * (D2 * D3)
/-- column set in `transform_left[c_index]`: `j + i * shape_right[0]` -/
def leftCol (D2 i j : ℕ) : ℕ := j + i * D2
/-- column set in `transform_right[c_index]`: `k + j * shape_right[1]` -/
def rightCol (D3 j k : ℕ) : ℕ := k + j * D3

/-- `transform_left`: zeros, then for every `(i, j, k)` of `np.ndindex(D1, D2, D3)` the entry
`[c_index][j + i*D2]` is set to 1. -/
def transformLeftF (D1 D2 D3 : ℕ) : ℕ → ℕ → R := fun c a =>
  if ∃ i < D1, ∃ j < D2, ∃ k < D3, c = cIndex D2 D3 i j k ∧ a = leftCol D2 i j then 1 else 0
/-- `transform_right`: entry `[c_index][k + j*D3]` is set to 1. -/
def transformRightF (D1 D2 D3 : ℕ) : ℕ → ℕ → R := fun c b =>
  if ∃ i < D1, ∃ j < D2, ∃ k < D3, c = cIndex D2 D3 i j k ∧ b = rightCol D3 j k then 1 else 0
/-- `transform_c`: `for i in range(size_c): transform_c[i // shape_right[0]][i] = 1` -/
def transformCF (D1 D2 D3 : ℕ) : ℕ → ℕ → R := fun o c =>
  if c < D1 * D2 * D3 ∧ o = c / D2 then 1 else 0

/-- `MatrixMult(n_neurons, (D1, D2), (D2, D3))` -/
def build (D1 D2 D3 : ℕ) : ProdNet R :=
  { nL := D1 * D2, nR := D2 * D3, nC := D1 * D2 * D3, nO := D1 * D3
    TL := tab2 (D1 * D2 * D3) (D1 * D2) (transformLeftF D1 D2 D3)
    TR := tab2 (D1 * D2 * D3) (D2 * D3) (transformRightF D1 D2 D3)
    TO := tab2 (D1 * D3) (D1 * D2 * D3) (transformCF D1 D2 D3) }

/-- the constructor's checks on the two shape tuples -/
def buildShapes (sl sr : List ℕ) : Except ShapeErr (ProdNet R) :=
  match sl with
  | [D1, D2] =>
    match sr with
    | [D2', D3] => if D2 ≠ D2' then .error .incompatible else .ok (build D1 D2 D3)
    | _ => .error .notTwoDim
  | _ => .error .notTwoDim
end Impl

namespace Spec
/-- the matrix product on flat row-major arrays:
`out[i*D3 + k] = Σ_j A[i*D2 + j] * B[j*D3 + k]` -/
def matMul (D2 D3 : ℕ) (A B : Array R) (i k : ℕ) : R :=
  ∑ j ∈ Finset.range D2, rd A (i * D2 + j) * rd B (j * D3 + k)
end Spec
end MatrixMult

/-! ## VTB / TVTB -/

inductive BuildErr where
  | notSquare   -- ValidationError("Dimensions must be a square number.") from `calc_sub_d`
  | bothFlags   -- ValueError("Cannot unbind both sides at the same time.")
deriving DecidableEq, Repr

inductive Src where
  | left | right
deriving DecidableEq, Repr

/-- which input node feeds a role node (`mat` / `vec`) and through which transform
(`none` = no transform / `tr = 1.0`) -/
structure Feed (R : Type*) where
  src : Src
  T : Option (Array (Array R))

/-- a built VTB or TVTB network -/
structure BlockNet (R : Type*) where
  d : ℕ
  m : ℕ
  mat : Feed R
  vec : Feed R
  /-- transform on `mat → mm.input_left` (TVTB: `inversion_matrix`) -/
  mmLeftT : Option (Array (Array R))
  matmul : ProdNet R

namespace Block
/-- `inversion_matrix(dimensions)`: `for i in range(d): j = sub_d*i; m[j % d + j // d, i] = 1` -/
def invF (d m : ℕ) : ℕ → ℕ → R := fun r c =>
  if c < d ∧ r = (m * c) % d + (m * c) / d then 1 else 0
/-- `swapping_matrix(dimensions)`: `for i in range(d): m[i, i // sub_d + sub_d*(i % sub_d)] = 1` -/
def swapF (d m : ℕ) : ℕ → ℕ → R := fun r c =>
  if r < d ∧ c = r / m + m * (r % m) then 1 else 0

def pick (s : Src) (L Rt : Array R) : Array R := match s with | .left => L | .right => Rt

/-- a connection into a `size_in = d` node, with or without transform -/
def applyT (d : ℕ) (T : Option (Array (Array R))) (v : Array R) : Array R :=
  match T with
  | none => tab d fun i => rd v i
  | some M => mvA d d M v

/-- steady state of the built network: `mat`, `vec`, then for every block `i` the matrix
multiplication `mat · vec[i*m:(i+1)*m]`, written to `output[i*m:(i+1)*m]` with transform
`sqrt(sub_d)` (`s`). -/
def run (N : BlockNet R) (s : R) (L Rt : Array R) : Array R :=
  let mat := applyT N.d N.mat.T (pick N.mat.src L Rt)
  let vec := applyT N.d N.vec.T (pick N.vec.src L Rt)
  let outs : Array (Array R) := Array.ofFn (n := N.m) fun i =>
    N.matmul.eval (applyT N.d N.mmLeftT mat) (tab N.m fun c => rd vec (i.val * N.m + c))
  tab N.d fun o => s * rd2 outs (o / N.m) (o % N.m)
end Block

namespace Vtb.Impl
open Block
/-- `VTB(n_neurons, d, unbind_left, unbind_right)` -/
def build (d : ℕ) (ul ur : Bool) : Except BuildErr (BlockNet R) :=
  match subD d with
  | .error _ => .error .notSquare
  | .ok m =>
    if ul && ur then .error .bothFlags
    else if ul then
      .ok { d := d, m := m
            mat := ⟨.left, some (tab2 d d (invF d m))⟩
            vec := ⟨.right, some (tab2 d d (swapF d m))⟩
            mmLeftT := none, matmul := MatrixMult.Impl.build m m 1 }
    else
      .ok { d := d, m := m
            vec := ⟨.left, none⟩
            mat := ⟨.right, if ur then some (tab2 d d (invF d m)) else none⟩
            mmLeftT := none, matmul := MatrixMult.Impl.build m m 1 }
end Vtb.Impl

namespace Tvtb.Impl
open Block
/-- `TVTB(n_neurons, d, unbind_left, unbind_right)` (routing of `unbind_left` as repaired) -/
def build (d : ℕ) (ul ur : Bool) : Except BuildErr (BlockNet R) :=
  match subD d with
  | .error _ => .error .notSquare
  | .ok m =>
    if ul && ur then .error .bothFlags
    else if ul then
      .ok { d := d, m := m
            vec := ⟨.left, some (tab2 d d (invF d m))⟩
            mat := ⟨.right, none⟩
            mmLeftT := some (tab2 d d (invF d m)), matmul := MatrixMult.Impl.build m m 1 }
    else
      .ok { d := d, m := m
            vec := ⟨.left, none⟩
            mat := ⟨.right, if ur then some (tab2 d d (invF d m)) else none⟩
            mmLeftT := some (tab2 d d (invF d m)), matmul := MatrixMult.Impl.build m m 1 }
end Tvtb.Impl

/-! ## HRR: CircularConvolution -/
namespace Hrr

/-- `dft_half(d)` split into real and imaginary parts (`h = d/2 + 1` rows, `d` columns) and the
factor `1/d` of the inverse transform.  A parameter of the model (irrational entries). -/
structure Tbl (R : Type*) where
  re : ℕ → ℕ → R
  im : ℕ → ℕ → R
  dinv : R

namespace Impl
/-- `transform_in(dims, align, invert)`: `dims2 = 4*(dims//2 + 1)` rows; row `i` is taken from
`dft[i // 4]` (conjugated when `invert`): align 'A' → real part if `i % 2 == 0` else imaginary;
align 'B' → real part if `i % 4 == 0 or i % 4 == 3` else imaginary.  (`remove_imag_rows` rebinds
a local and removes nothing.) -/
def transformInF (t : Tbl R) (alignB invert : Bool) : ℕ → ℕ → R := fun i x =>
  let rowRe := t.re (i / 4) x
  let rowIm := if invert then - t.im (i / 4) x else t.im (i / 4) x
  if alignB then (if i % 4 = 0 ∨ i % 4 = 3 then rowRe else rowIm)
  else (if i % 2 = 0 then rowRe else rowIm)

/-- `transform_out(dims)`: `idft = dft.conj()`; `row = idft[i]` for `i == 0 or 2*i == dims`,
else `2*idft[i]`; `tr[i] = [row.real, -row.real, -row.imag, -row.imag]`; reshaped to
`(4*dims2, dims)`, divided by `dims`, transposed. -/
def transformOutF (t : Tbl R) (d : ℕ) : ℕ → ℕ → R := fun x c =>
  let w := c / 4
  let f : R := if w = 0 ∨ 2 * w = d then 1 else 2
  let rowRe := f * t.re w x
  let rowIm := f * (- t.im w x)
  (match c % 4 with
   | 0 => rowRe
   | 1 => - rowRe
   | 2 => - rowIm
   | _ => - rowIm) * t.dinv

/-- `CircularConvolution(n_neurons, d, invert_a, invert_b)` -/
def build (t : Tbl R) (d : ℕ) (invA invB : Bool) : ProdNet R :=
  let n2 := 4 * (d / 2 + 1)
  { nL := d, nR := d, nC := n2, nO := d
    TL := tab2 n2 d (transformInF t false invA)
    TR := tab2 n2 d (transformInF t true invB)
    TO := tab2 d n2 (transformOutF t d) }
end Impl

namespace Spec
/-- half-spectrum coefficients of a real vector w.r.t. the table: `F[w] = Σ_x dft[w,x]·a[x]` -/
def coefRe (t : Tbl R) (d : ℕ) (a : Array R) (w : ℕ) : R := ∑ x ∈ Finset.range d, t.re w x * rd a x
def coefIm (t : Tbl R) (d : ℕ) (conj : Bool) (a : Array R) (w : ℕ) : R :=
  ∑ x ∈ Finset.range d, (if conj then - t.im w x else t.im w x) * rd a x
/-- real part of the inverse half-spectrum transform of the complex product `F·G`:
`(1/d) Σ_w f_w · Re((F_w G_w) · conj(dft[w,x]))`, `f_w = 1` for the DC and Nyquist rows, else 2 -/
def halfSpectrum (t : Tbl R) (d : ℕ) (ca cb : Bool) (a b : Array R) (x : ℕ) : R :=
  ∑ w ∈ Finset.range (d / 2 + 1),
    (if w = 0 ∨ 2 * w = d then (1 : R) else 2) * t.dinv *
      (t.re w x * (coefRe t d a w * coefRe t d b w - coefIm t d ca a w * coefIm t d cb b w)
        + t.im w x * (coefRe t d a w * coefIm t d cb b w + coefIm t d ca a w * coefRe t d b w))
end Spec
end Hrr

/-! ## implement_binding and the Bind module -/
namespace Bind

inductive AlgK where
  | hrr | vtb | tvtb
deriving DecidableEq, Repr

/-- what `implement_binding` returns: the network (inputs and output are its own nodes) -/
inductive Net (R : Type*) where
  | conv (N : ProdNet R)
  | block (N : BlockNet R)

namespace Impl
/-- `HrrAlgebra.implement_binding`: `CircularConvolution(n, d, unbind_left, unbind_right)`
(positional: `invert_a = unbind_left`, `invert_b = unbind_right`; both may be set);
`VtbAlgebra` / `TvtbAlgebra`: `VTB(n, d, unbind_left, unbind_right)` / `TVTB(…)`. -/
def implementBinding (t : Hrr.Tbl R) (alg : AlgK) (d : ℕ) (ul ur : Bool) : Except BuildErr (Net R) :=
  match alg with
  | .hrr => .ok (.conv (Hrr.Impl.build t d ul ur))
  | .vtb => (Vtb.Impl.build d ul ur).map .block
  | .tvtb => (Tvtb.Impl.build d ul ur).map .block

/-- `Bind.__init__`: `self.vocab.algebra.implement_binding(neurons, vocab.dimensions,
unbind_left, unbind_right)`; `input_left/right`, `output` are the returned nodes. -/
def bindModule (t : Hrr.Tbl R) (vocabAlg : AlgK) (vocabDim : ℕ) (ul ur : Bool) :
    Except BuildErr (Net R) :=
  implementBinding t vocabAlg vocabDim ul ur

/-- steady-state output for the two inputs (`s` = `sqrt(sub_d)`, unused by HRR) -/
def run (s : R) : Net R → Array R → Array R → Array R
  | .conv N, a, b => N.eval a b
  | .block N, a, b => Block.run N s a b
end Impl

namespace Spec
/-- what the binding network of each algebra has to compute for the flag combination -/
def hrr {k : ℕ} (ul ur : Bool) (a b : Alg.Hrr.Vec k R) : Alg.Hrr.Vec k R :=
  Alg.Hrr.Spec.bind (if ul then Alg.Hrr.Spec.inv a else a) (if ur then Alg.Hrr.Spec.inv b else b)
end Spec
end Bind

/-! ## unitarity (the hypothesis of the recovery laws) -/
namespace Spec
/-- VTB/TVTB: `√m · X` is orthogonal (`s` stands for `√m`); the same notion as
`C08.Spec.Vec2.IsUnitary` when `s * s = m`. -/
def IsUnitary2 {m : ℕ} (s : R) (x : Vec2 m R) : Prop := (s * s) • (toMat x * (toMat x).transpose) = 1
/-- HRR: `x ⊛ ~x = δ` -/
def IsUnitaryH {k : ℕ} (x : Alg.Hrr.Vec k R) : Prop :=
  Alg.Hrr.Spec.bind x (Alg.Hrr.Spec.inv x) = Alg.Hrr.Impl.identity k
end Spec

/-! ## bilinearity (the shape of the claim "is a bilinear map of its two inputs") -/

/-- a map of two vectors that is additive and homogeneous in each argument -/
structure IsBilin {n : ℕ} (f : (Fin n → R) → (Fin n → R) → (Fin n → R)) : Prop where
  add_left : ∀ a a' b, f (a + a') b = f a b + f a' b
  add_right : ∀ a b b', f a (b + b') = f a b + f a b'
  smul_left : ∀ (c : R) a b, f (c • a) b = c • f a b
  smul_right : ∀ (c : R) a b, f a (c • b) = c • f a b

end C05

/-
C01 — model of the SPA expression compiler (`nengo_spa/ast/dynamic.py`,
`ast/symbolic.py`, `connectors.py`, `semantic_pointer.py` operator dispatch) and of
the value the constructed network delivers to a sink with ideal neurons at steady state.

* `Universe`  : an arbitrary family of vocabularies over an arbitrary commutative ring
  (carriers indexed by any `Fintype`, per vocabulary a binding, binding matrices,
  inversion and inversion matrices subject to the three laws the shipped algebras
  satisfy — instances for HRR / VTB / TVTB are built in `Props/C01.lean` from the C02 theorems).
* `Expr`      : the source language (what the user writes between module outputs,
  symbols, Semantic Pointers and numbers).
* `Node`      : the target: the classes of `ast/dynamic.py` (`Transformed`, `Summed`,
  `ModuleOutput` of a source or of a `Bind`/`Product`/`Compare` realisation) and constant nodes.
* `Impl.compile` follows the operator methods; `Impl.deliver` is what
  `node.connect_to(sink, transform=T)` contributes to the sink.
* `Spec.eval` is Semantic Pointer arithmetic on the current source values.
-/
import Mathlib.Data.Matrix.Mul

open Matrix

namespace C01

inductive Side where
  | two | left | right
deriving DecidableEq, Repr

/-- A family of vocabularies.  `Shape` stands for a dimensionality (`Idx s` is the index set of
vectors of that dimensionality; `unit` is dimensionality 1, where scalars live — nengo does not
distinguish a scalar signal from a 1-dimensional one).  Each vocabulary `v` has a shape and an
algebra (`bind`, `bindMat x swap` = `get_binding_matrix(x, swap_inputs=swap)`, `inv`,
`invMat` = `get_inversion_matrix`, `invOk` = the algebra has that inverse — VTB has no left one).
`key k v` is the vector that the symbol number `k` denotes in vocabulary `v`,
`transMat v w` is `v.transform_to(w)`, `recip c` is `1.0 / c` (undefined for 0). -/
structure Universe (R : Type) [CommRing R] where
  Shape : Type
  decS : DecidableEq Shape
  Idx : Shape → Type
  finI : ∀ s, Fintype (Idx s)
  decI : ∀ s, DecidableEq (Idx s)
  unit : Shape
  uniq : Unique (Idx unit)
  V : Type
  decV : DecidableEq V
  shape : V → Shape
  bind : ∀ v, (Idx (shape v) → R) → (Idx (shape v) → R) → (Idx (shape v) → R)
  bindMat : ∀ v, (Idx (shape v) → R) → Bool → Matrix (Idx (shape v)) (Idx (shape v)) R
  invOk : V → Side → Bool
  inv : ∀ v, Side → (Idx (shape v) → R) → (Idx (shape v) → R)
  invMat : ∀ v, Side → Matrix (Idx (shape v)) (Idx (shape v)) R
  key : Nat → ∀ v, Idx (shape v) → R
  transMat : ∀ v w, Matrix (Idx (shape w)) (Idx (shape v)) R
  recip : R → Option R
  /-- `dot(get_binding_matrix(x), a) = bind(a, x)` -/
  bindMat_false : ∀ v x a, bindMat v x false *ᵥ a = bind v a x
  /-- `dot(get_binding_matrix(x, swap_inputs=True), a) = bind(x, a)` -/
  bindMat_true : ∀ v x a, bindMat v x true *ᵥ a = bind v x a
  invMat_mulVec : ∀ v sd a, invMat v sd *ᵥ a = inv v sd a
  recip_spec : ∀ c r, recip c = some r → c * r = 1

variable {R : Type} [CommRing R]

instance (U : Universe R) : DecidableEq U.Shape := U.decS
instance (U : Universe R) : DecidableEq U.V := U.decV
instance (U : Universe R) (s : U.Shape) : Fintype (U.Idx s) := U.finI s
instance (U : Universe R) (s : U.Shape) : DecidableEq (U.Idx s) := U.decI s
instance (U : Universe R) : Unique (U.Idx U.unit) := U.uniq

abbrev Vec (U : Universe R) (s : U.Shape) := U.Idx s → R
abbrev Mat (U : Universe R) (b a : U.Shape) := Matrix (U.Idx b) (U.Idx a) R

/-- `nengo_spa.types` (see C11): `TScalar`, `TAnyVocab`, `TAnyVocabOfDim(d)`, `TVocabulary(v)`. -/
inductive Ty (U : Universe R) where
  | scalar
  | any
  | anyDim (s : U.Shape)
  | vocab (v : U.V)

/-- The exception classes with which the real code refuses a program. -/
inductive Refusal where
  | spaType          -- SpaTypeError
  | notImplemented   -- NotImplementedError
  | assertion        -- AssertionError("Unexpected node type in multiply.")
  | attribute        -- AttributeError (`.vocab` / `.dimensions` of a type that has none)
  | zeroDiv          -- ZeroDivisionError
  | nengoShape       -- nengo ValidationError: connection sizes do not fit
  | outside          -- both operands are fixed Python values: no AST node is involved (not in the DSL)
deriving DecidableEq, Repr

/-! ## typing shared by implementation and specification (C11's order, two operands) -/
namespace Typing
variable {U : Universe R}

/-- `coerce_types(a, b)`: the more specific type, `SpaTypeError` when incomparable. -/
def lub : Ty U → Ty U → Except Refusal (Ty U)
  | .scalar, t => .ok t
  | t, .scalar => .ok t
  | .any, t => .ok t
  | t, .any => .ok t
  | .anyDim s, .anyDim s' => if s = s' then .ok (.anyDim s) else .error .spaType
  | .anyDim s, .vocab v => if U.shape v = s then .ok (.vocab v) else .error .spaType
  | .vocab v, .anyDim s => if U.shape v = s then .ok (.vocab v) else .error .spaType
  | .vocab v, .vocab w => if v = w then .ok (.vocab v) else .error .spaType

/-- `infer_types`: an operand whose type is a less specific *vocabulary* type takes the inferred
vocabulary type (`if TAnyVocab <= n.type < type_: n.type = type_`); scalars keep theirs. -/
def upd (t top : Ty U) : Ty U :=
  match top, t with
  | .vocab v, .any => .vocab v
  | .vocab v, .anyDim _ => .vocab v
  | _, t => t

def isScalar : Ty U → Bool
  | .scalar => true
  | _ => false

def isVocab : Ty U → Bool
  | .vocab _ => true
  | _ => false

/-- the dimensionality a `Summed` of inferred type `t` works in (`own` when the type has none) -/
def sumShape (t : Ty U) (own : U.Shape) : U.Shape :=
  match t with
  | .vocab v => U.shape v
  | .anyDim s => s
  | _ => own

/-- Type of the node that `_mul_with_fixed` returns when a dynamic scalar multiplies a typed
symbol: `Transformed(self, tr, other.type)`, the symbol's vocabulary type. -/
def scalarTimesSymbolTy (w : U.V) : Ty U := .vocab w

end Typing

/-! ## source language -/

/-- SPA expressions.  Leaves: output of a pointer module (`State`, `Transcode` … with vocabulary
`v`) or of a scalar module, a symbol `sym.K`, a typed symbol `PointerSymbol(K, TVocabulary(v))`,
a `SemanticPointer` with / without vocabulary, a number.  `div a c` is `a / c` for a number `c`;
`reinterp a none` is `reinterpret(a)`, `reinterp a (some w)` is `reinterpret(a, w)`. -/
inductive Expr (U : Universe R) where
  | srcP (i : Nat) (v : U.V)
  | srcS (i : Nat)
  | sym (k : Nat)
  | symV (k : Nat) (v : U.V)
  | fixV (v : U.V) (x : Vec U (U.shape v))
  | fixN (s : U.Shape) (x : Vec U s)
  | num (c : R)
  | neg (a : Expr U)
  | inv (sd : Side) (a : Expr U)
  | add (a b : Expr U)
  | sub (a b : Expr U)
  | mul (a b : Expr U)
  | dot (a b : Expr U)
  | div (a : Expr U) (c : R)
  | reinterp (a : Expr U) (w : Option U.V)
  | translate (a : Expr U) (w : U.V)

/-- Current values of the source modules' outputs (source number `i`, read at dimensionality `s`). -/
abbrev Env (U : Universe R) := ∀ s : U.Shape, Nat → Vec U s

/-! ## target: the AST node classes of `ast/dynamic.py` -/

/-- `src` = `ModuleOutput` of a source module; `const` = the `nengo.Node(value)` that
`PointerSymbol.construct`, `SemanticPointer.construct`, `FixedScalar.construct` create;
`transformed` = `Transformed(source, transform)`; `summedS` = `Summed` of scalar type (each source
is connected to the sink); `summedP` = `Summed` of pointer type (a `Superposition` module);
`bindOut` / `prodOut` / `dotOut` = `ModuleOutput` of the `Bind` / `Product` / `Compare` module that
`_mul_with_dynamic` / `dot` created, with the nodes connected to its two inputs. -/
inductive Node (U : Universe R) : U.Shape → Type where
  | src (s : U.Shape) (i : Nat) : Node U s
  | const (s : U.Shape) (x : Vec U s) : Node U s
  | transformed {a b : U.Shape} (source : Node U a) (T : Mat U b a) : Node U b
  | summedS {s : U.Shape} (l r : Node U s) : Node U s
  | summedP {s : U.Shape} (l r : Node U s) : Node U s
  | bindOut (v : U.V) (l r : Node U (U.shape v)) : Node U (U.shape v)
  | prodOut (l r : Node U U.unit) : Node U U.unit
  | dotOut {s : U.Shape} (l r : Node U s) : Node U U.unit

/-- A Python object an expression evaluates to (before `>>`): a `DynamicNode` with its run-time
type (`unres`: it is a pointer-typed `Summed` whose type is not yet a vocabulary type — its
`construct` needs `self.type.vocab`), a `PointerSymbol` (`f v` = value of its expression text in
vocabulary `v`, `okv v` = that evaluation succeeds), a `SemanticPointer` with / without vocabulary,
a number. -/
inductive Obj (U : Universe R) where
  | dyn (ty : Ty U) (s : U.Shape) (n : Node U s) (unres : Bool)
  | sym (ty : Ty U) (f : ∀ v, Vec U (U.shape v)) (okv : U.V → Bool)
  | fixV (v : U.V) (x : Vec U (U.shape v))
  | fixN (s : U.Shape) (x : Vec U s)
  | num (c : R)

/-- row vector `np.atleast_2d(x)` -/
def rowMat {U : Universe R} {s : U.Shape} (x : Vec U s) : Mat U U.unit s := Matrix.of fun _ j => x j
/-- column vector -/
def colMat {U : Universe R} {s : U.Shape} (x : Vec U s) : Mat U s U.unit := Matrix.of fun i _ => x i
/-- the scalar carried by a 1-dimensional signal -/
def scalarOf {U : Universe R} (x : Vec U U.unit) : R := x default
/-- a number as 1-dimensional signal -/
def ofScalar {U : Universe R} (c : R) : Vec U U.unit := fun _ => c

namespace Impl
open Typing
variable {U : Universe R}

/-- What `node.connect_to(sink, transform=T)` makes arrive at `sink` (ideal neurons, steady state;
trusted Nengo rule: a connection with transform `T` from an object with output `x` adds `T·x`, and
several connections into one object add up).

* `Transformed.connect_to`: `source.connect_to(sink, transform=np.dot(T, self.transform))`;
* `Summed.connect_to`, scalar type: `for s in sources: s.connect_to(sink, transform=T)`;
  pointer type: `nengo.Connection(self.construct(), sink, transform=T)` where `construct` makes a
  `Superposition` and connects source `i` to its input `i` (no transform);
* `ModuleOutput.connect_to`: `nengo.Connection(self.output, sink, transform=T)`; the output of a
  `Bind` module is the binding of what arrives at `input_left` and `input_right`, of `Product` the
  product, of `Compare` the dot product. -/
def deliver (env : Env U) : {a : U.Shape} → Node U a → {b : U.Shape} → Mat U b a → Vec U b
  | _, .src s i, _, T => T *ᵥ env s i
  | _, .const _ x, _, T => T *ᵥ x
  | _, .transformed source M, _, T => deliver env source (T * M)
  | _, .summedS l r, _, T => deliver env l T + deliver env r T
  | s, .summedP l r, _, T => T *ᵥ (deliver env l (1 : Mat U s s) + deliver env r (1 : Mat U s s))
  | _, .bindOut v l r, _, T =>
      T *ᵥ U.bind v (deliver env l (1 : Mat U (U.shape v) (U.shape v))) (deliver env r (1 : Mat U (U.shape v) (U.shape v)))
  | _, .prodOut l r, _, T =>
      T *ᵥ (fun i => deliver env l (1 : Mat U U.unit U.unit) i * deliver env r (1 : Mat U U.unit U.unit) i)
  | _, .dotOut (s := s) l r, _, T =>
      T *ᵥ ofScalar (deliver env l (1 : Mat U s s) ⬝ᵥ deliver env r (1 : Mat U s s))

/-- the value at the sink of `node >> sink` (no transform on the last connection) -/
def value (env : Env U) {a : U.Shape} (n : Node U a) : Vec U a := deliver env n (1 : Mat U a a)

/-- nengo checks the sizes of every connection -/
def castN {s : U.Shape} (n : Node U s) (s' : U.Shape) : Except Refusal (Node U s') :=
  if h : s = s' then .ok (h ▸ n) else .error .nengoShape

def tyOf : Obj U → Ty U
  | .dyn ty _ _ _ => ty
  | .sym ty _ _ => ty
  | .fixV v _ => .vocab v
  | .fixN _ _ => .any
  | .num _ => .scalar

/-- the operand's type after `infer_types` found `top` (a `SemanticPointer` keeps its type) -/
def tyAfter (o : Obj U) (top : Ty U) : Ty U :=
  match o with
  | .dyn ty _ _ _ => upd ty top
  | .sym ty _ _ => upd ty top
  | o => tyOf o

/-- `obj.connect_to(<an input of dimensionality s'>)` for an operand whose type is now `ty'`:
a dynamic node is connected (an unresolved `Summed` fails in `construct`), a symbol is evaluated
in the vocabulary of its type (`SpaTypeError` without one) and becomes a constant node, so do
Semantic Pointers and numbers. -/
def connectable (o : Obj U) (ty' : Ty U) (s' : U.Shape) : Except Refusal (Node U s') :=
  match o with
  | .dyn _ _ n unres => if unres && !isVocab ty' then .error .attribute else castN n s'
  | .sym _ f okv =>
      match ty' with
      | .vocab v => if okv v then castN (.const (U.shape v) (f v)) s' else .error .notImplemented
      | _ => .error .spaType
  | .fixV v x => castN (.const (U.shape v) x) s'
  | .fixN s x => castN (.const s x) s'
  | .num c => castN (.const U.unit (ofScalar c)) s'

/-- `DynamicNode.__neg__`, `PointerSymbol.__neg__`, `SemanticPointer.__neg__`, `FixedScalar.__neg__` -/
def negObj : Obj U → Except Refusal (Obj U)
  | .dyn ty s n unres =>
      if unres then .error .attribute else .ok (.dyn ty s (.transformed n ((-1 : R) • (1 : Mat U s s))) false)
  | .sym ty f okv => .ok (.sym ty (fun v => - f v) okv)
  | .fixV v x => .ok (.fixV v (-x))
  | .fixN s x => .ok (.fixN s (-x))
  | .num c => .ok (.num (-c))

/-- `DynamicNode.__add__(self, other)`: `Summed((self, other), infer_types(self, other))`.
`self` is the dynamic operand (`__radd__` is `self + other` too). -/
def mkSum (self other : Obj U) : Except Refusal (Obj U) :=
  match self with
  | .dyn _ sa _ _ => do
      let t ← lub (tyOf self) (tyOf other)
      let s := sumShape t sa
      let l ← connectable self (tyAfter self t) s
      let r ← connectable other (tyAfter other t) s
      match t with
      | .scalar => .ok (.dyn t s (.summedS l r) false)
      | .vocab _ => .ok (.dyn t s (.summedP l r) false)
      | _ => .ok (.dyn t s (.summedP l r) true)
  | _ => .error .outside

/-- `DynamicNode._mul_with_fixed(self, other, swap_inputs)`, `other` a `Symbol`
(`PointerSymbol` or `FixedScalar`). -/
def mulFixed (self other : Obj U) (swap : Bool) : Except Refusal (Obj U) :=
  match self, other with
  | .dyn ty s n unres, .num c =>
      if unres then .error .attribute else .ok (.dyn ty s (.transformed n (c • (1 : Mat U s s))) false)
  | .dyn ty s n unres, .sym tyo f okv => do
      let t ← lub ty tyo
      let ty' := upd ty t
      match upd tyo t with
      | .vocab w =>
          if !okv w then .error .notImplemented else
          if isScalar ty' then do
            -- `tr = np.atleast_2d(other.evaluate().v).T; return Transformed(self, tr, other.type)`
            let n' ← castN n U.unit
            .ok (.dyn (scalarTimesSymbolTy w) (U.shape w) (.transformed n' (colMat (f w))) false)
          else do
            if unres && !isVocab ty' then .error .attribute else
            let n' ← castN n (U.shape w)
            .ok (.dyn ty' (U.shape w) (.transformed n' (U.bindMat w (f w) swap)) false)
      | _ => if isScalar ty' then .error .spaType else .error .assertion
  | _, _ => .error .outside

/-- `DynamicNode._mul_with_dynamic(self, other, swap_inputs)`, `other` anything but a `Symbol`. -/
def mulDynamic (self other : Obj U) (swap : Bool) : Except Refusal (Obj U) :=
  match self with
  | .dyn _ _ _ _ => do
      let t ← lub (tyOf self) (tyOf other)
      let ts := tyAfter self t
      let tq := tyAfter other t
      let (a, ta, b, tb) := if swap then (other, tq, self, ts) else (self, ts, other, tq)
      match t with
      | .scalar => do
          let l ← connectable a ta U.unit
          let r ← connectable b tb U.unit
          .ok (.dyn t U.unit (.prodOut l r) false)
      | _ =>
          if isScalar ts || isScalar tq then .error .notImplemented else
          match ts with
          | .vocab v => do
              let l ← connectable a ta (U.shape v)
              let r ← connectable b tb (U.shape v)
              .ok (.dyn t (U.shape v) (.bindOut v l r) false)
          | _ => .error .attribute
  | _ => .error .outside

/-- `DynamicNode.dot(self, other)` (`rdot`, `@` and `spa.dot` with a fixed left operand all end here). -/
def dotOp (self other : Obj U) : Except Refusal (Obj U) :=
  match self with
  | .dyn _ s n unres => do
      let t ← lub (tyOf self) (tyOf other)
      let ts := tyAfter self t
      let tq := tyAfter other t
      if isScalar ts || isScalar tq then .error .spaType else
      match other with
      | .dyn _ _ _ _ =>
          match t with
          | .vocab v => do
              let l ← connectable self ts (U.shape v)
              let r ← connectable other tq (U.shape v)
              .ok (.dyn .scalar U.unit (.dotOut l r) false)
          | _ => .error .attribute
      | .sym _ f okv =>
          match tq with
          | .vocab w =>
              if !okv w then .error .notImplemented else
              if unres && !isVocab ts then .error .attribute else do
              let n' ← castN n (U.shape w)
              .ok (.dyn .scalar U.unit (.transformed n' (rowMat (f w))) false)
          | _ => .error .spaType
      | .fixV w x =>
          if unres && !isVocab ts then .error .attribute else do
          let n' ← castN n (U.shape w)
          .ok (.dyn .scalar U.unit (.transformed n' (rowMat x)) false)
      | .fixN s' x =>
          if unres && !isVocab ts then .error .attribute else do
          let n' ← castN n s'
          .ok (.dyn .scalar U.unit (.transformed n' (rowMat x)) false)
      | .num _ => .error .spaType
  | _ => .error .outside

/-- `~x`, `x.linv()`, `x.rinv()` -/
def invObj (sd : Side) : Obj U → Except Refusal (Obj U)
  | .dyn ty s n unres =>
      match ty with
      | .vocab v =>
          if !U.invOk v sd then .error .notImplemented else
          if unres then .error .attribute else do
          let n' ← castN n (U.shape v)
          .ok (.dyn ty (U.shape v) (.transformed n' (U.invMat v sd)) false)
      | _ => .error .spaType
  | .sym ty f okv => .ok (.sym ty (fun v => U.inv v sd (f v)) (fun v => okv v && U.invOk v sd))
  | .fixV v x => if U.invOk v sd then .ok (.fixV v (U.inv v sd x)) else .error .notImplemented
  | _ => .error .outside

/-- `a + b` -/
def addObj (a b : Obj U) : Except Refusal (Obj U) :=
  match a, b with
  | .dyn _ _ _ _, _ => mkSum a b
  | _, .dyn _ _ _ _ => mkSum b a
  | .sym ta f oa, .sym tb g ob => do
      let t ← lub ta tb
      .ok (.sym t (fun v => f v + g v) (fun v => oa v && ob v))
  | _, _ => .error .outside

/-- `a - b`: `__sub__ = self + (-other)`, `__rsub__ = (-self) + other` -/
def subObj (a b : Obj U) : Except Refusal (Obj U) :=
  match a, b with
  | .dyn _ _ _ _, _ => do mkSum a (← negObj b)
  | _, .dyn _ _ _ _ => do mkSum (← negObj b) a
  | .sym ta f oa, .sym tb g ob => do
      let t ← lub ta tb
      .ok (.sym t (fun v => f v - g v) (fun v => oa v && ob v))
  | _, _ => .error .outside

/-- `a * b`: `__mul__` / `__rmul__` dispatch -/
def mulObj (a b : Obj U) : Except Refusal (Obj U) :=
  match a, b with
  | .dyn _ _ _ _, .sym _ _ _ => mulFixed a b false
  | .dyn _ _ _ _, .num _ => mulFixed a b false
  | .dyn _ _ _ _, _ => mulDynamic a b false
  | .sym _ _ _, .dyn _ _ _ _ => mulFixed b a true
  | .num _, .dyn _ _ _ _ => mulFixed b a true
  | _, .dyn _ _ _ _ => mulDynamic b a true
  | .sym ta f oa, .sym tb g ob => do
      let t ← lub ta tb
      .ok (.sym t (fun v => U.bind v (f v) (g v)) (fun v => oa v && ob v))
  | .sym ta f oa, .num c => .ok (.sym ta (fun v => c • f v) oa)
  | .num c, .sym ta f oa => .ok (.sym ta (fun v => c • f v) oa)
  | _, _ => .error .outside

def dotObj (a b : Obj U) : Except Refusal (Obj U) :=
  match a, b with
  | .dyn _ _ _ _, _ => dotOp a b
  | _, .dyn _ _ _ _ => dotOp b a
  | _, _ => .error .outside

/-- `a / c`: `__truediv__ = self._mul_with_fixed(FixedScalar(1.0 / c))` -/
def divObj (a : Obj U) (c : R) : Except Refusal (Obj U) :=
  match U.recip c with
  | none => .error .zeroDiv
  | some r =>
      match a with
      | .dyn _ _ _ _ => mulFixed a (.num r) false
      | .sym ta f oa => .ok (.sym ta (fun v => r • f v) oa)
      | _ => .error .outside

/-- `reinterpret(a, vocab)`: `Transformed(self, np.eye(self.type.dimensions), …)` -/
def reinterpObj (a : Obj U) (w : Option U.V) : Except Refusal (Obj U) :=
  match a with
  | .dyn ty _ n unres =>
      let dims : Option U.Shape := match ty with
        | .vocab v => some (U.shape v)
        | .anyDim s => some s
        | _ => none
      match dims with
      | none => .error .attribute
      | some sT =>
          if unres then .error .attribute else do
          let n' ← castN n sT
          let ty' : Ty U := match w with
            | none => .anyDim sT
            | some w => .vocab w
          .ok (.dyn ty' sT (.transformed n' (1 : Mat U sT sT)) false)
  | _ => .error .outside

/-- `translate(a, vocab)`: `Transformed(self, self.type.vocab.transform_to(vocab), TVocabulary(vocab))` -/
def translateObj (a : Obj U) (w : U.V) : Except Refusal (Obj U) :=
  match a with
  | .dyn ty _ n unres =>
      match ty with
      | .vocab v =>
          if unres then .error .attribute else do
          let n' ← castN n (U.shape v)
          .ok (.dyn (.vocab w) (U.shape w) (.transformed n' (U.transMat v w)) false)
      | _ => .error .attribute
  | _ => .error .outside

/-- Python evaluates the operands left to right, then applies the operator method. -/
def compile : Expr U → Except Refusal (Obj U)
  | .srcP i v => .ok (.dyn (.vocab v) (U.shape v) (.src (U.shape v) i) false)
  | .srcS i => .ok (.dyn .scalar U.unit (.src U.unit i) false)
  | .sym k => .ok (.sym .any (U.key k) (fun _ => true))
  | .symV k v => .ok (.sym (.vocab v) (U.key k) (fun _ => true))
  | .fixV v x => .ok (.fixV v x)
  | .fixN s x => .ok (.fixN s x)
  | .num c => .ok (.num c)
  | .neg a => do negObj (← compile a)
  | .inv sd a => do invObj sd (← compile a)
  | .add a b => do let x ← compile a; let y ← compile b; addObj x y
  | .sub a b => do let x ← compile a; let y ← compile b; subObj x y
  | .mul a b => do let x ← compile a; let y ← compile b; mulObj x y
  | .dot a b => do let x ← compile a; let y ← compile b; dotObj x y
  | .div a c => do divObj (← compile a) c
  | .reinterp a w => do reinterpObj (← compile a) w
  | .translate a w => do translateObj (← compile a) w

/-- the dimensionality of a sink of type `t` (`State(v)` / `Scalar()`) -/
def sinkShape : Ty U → Option U.Shape
  | .vocab v => some (U.shape v)
  | .scalar => some U.unit
  | _ => none

/-- `e >> sink` (`ModuleInput.__rrshift__`): `infer_types(sink, node); node.connect_to(sink.input)`. -/
def compileStmt (e : Expr U) (sinkTy : Ty U) (ss : U.Shape) : Except Refusal (Node U ss) := do
  let o ← compile e
  let t ← lub sinkTy (tyOf o)
  connectable o (tyAfter o t) ss

end Impl

/-! ## specification: Semantic Pointer arithmetic on the current values -/
namespace Spec
open Typing
variable {U : Universe R}

/-- The value of an expression: a Python number, a vector of some dimensionality with its type
tag, or — for a symbolic expression — its value in every vocabulary (`okv v`: defined in `v`). -/
inductive SVal (U : Universe R) where
  | num (c : R)
  | val (ty : Ty U) (s : U.Shape) (x : Vec U s)
  | poly (ty : Ty U) (f : ∀ v, Vec U (U.shape v)) (okv : U.V → Bool)

def SVal.ty : SVal U → Ty U
  | .num _ => .scalar
  | .val ty _ _ => ty
  | .poly ty _ _ => ty

def castV {s : U.Shape} (x : Vec U s) (s' : U.Shape) : Option (Vec U s') :=
  if h : s = s' then some (h ▸ x) else none

/-- the vector an operand contributes at dimensionality `s'` once its type is `ty'`
(a symbolic expression is read in the vocabulary of its type) -/
def inst (a : SVal U) (ty' : Ty U) (s' : U.Shape) : Option (Vec U s') :=
  match a with
  | .num c => castV (ofScalar (U := U) c) s'
  | .val _ _ x => castV x s'
  | .poly _ f okv =>
      match ty' with
      | .vocab v => if okv v then castV (f v) s' else none
      | _ => none

def sNeg : SVal U → SVal U
  | .num c => .num (-c)
  | .val ty s x => .val ty s (-x)
  | .poly ty f okv => .poly ty (fun v => - f v) okv

def sScale (c : R) : SVal U → Option (SVal U)
  | .num _ => none
  | .val ty s x => some (.val ty s (c • x))
  | .poly ty f okv => some (.poly ty (fun v => c • f v) okv)

/-- `a + b`: vector addition at the common dimensionality; a symbolic operand is read in the
vocabulary that inference finds. -/
def sAdd (a b : SVal U) : Option (SVal U) := do
  let t ← (lub a.ty b.ty).toOption
  match a, b with
  | .poly _ f oa, .poly _ g ob => some (.poly t (fun v => f v + g v) (fun v => oa v && ob v))
  | .val _ s x, b => do
      let y ← inst b (upd b.ty t) s
      some (.val t s (x + y))
  | a, .val _ s y => do
      let x ← inst a (upd a.ty t) s
      some (.val t s (x + y))
  | _, _ => none

def sSub (a b : SVal U) : Option (SVal U) := do
  let t ← (lub a.ty b.ty).toOption
  match a, b with
  | .poly _ f oa, .poly _ g ob => some (.poly t (fun v => f v - g v) (fun v => oa v && ob v))
  | .val _ s x, b => do
      let y ← inst b (upd b.ty t) s
      some (.val t s (x - y))
  | a, .val _ s y => do
      let x ← inst a (upd a.ty t) s
      some (.val t s (x - y))
  | _, _ => none

/-- `a * b`: a number scales; two scalars multiply; a scalar signal scales a typed symbol;
otherwise the binding `bind(a, b)` — in this operand order — of the vocabulary found by inference. -/
def sMul (a b : SVal U) : Option (SVal U) :=
  match a, b with
  | .num _, .num _ => none
  | x, .num c => sScale c x
  | .num c, x => sScale c x
  | .poly ta f oa, .poly tb g ob => do
      let t ← (lub ta tb).toOption
      some (.poly t (fun v => U.bind v (f v) (g v)) (fun v => oa v && ob v))
  | .val ta sa x, .val tb sb y => do
      let t ← (lub ta tb).toOption
      match t with
      | .scalar => do
          let x' ← castV x U.unit
          let y' ← castV y U.unit
          some (.val .scalar U.unit (fun i => x' i * y' i))
      | .vocab v =>
          if isScalar ta || isScalar tb then none else do
          let x' ← castV x (U.shape v)
          let y' ← castV y (U.shape v)
          some (.val t (U.shape v) (U.bind v x' y'))
      | _ => none
  | .val ta sa x, .poly tb g ob => do
      let t ← (lub ta tb).toOption
      match upd tb t with
      | .vocab w =>
          if !ob w then none else
          if isScalar ta then do
            let x' ← castV x U.unit
            some (.val (scalarTimesSymbolTy w) (U.shape w) (scalarOf x' • g w))
          else do
            let x' ← castV x (U.shape w)
            some (.val (upd ta t) (U.shape w) (U.bind w x' (g w)))
      | _ => none
  | .poly ta f oa, .val tb sb y => do
      let t ← (lub tb ta).toOption
      match upd ta t with
      | .vocab w =>
          if !oa w then none else
          if isScalar tb then do
            let y' ← castV y U.unit
            some (.val (scalarTimesSymbolTy w) (U.shape w) (scalarOf y' • f w))
          else do
            let y' ← castV y (U.shape w)
            some (.val (upd tb t) (U.shape w) (U.bind w (f w) y'))
      | _ => none

/-- `dot(a, b)`: the Euclidean dot product of two pointers -/
def sDot (a b : SVal U) : Option (SVal U) := do
  let t ← (lub a.ty b.ty).toOption
  if isScalar a.ty || isScalar b.ty then none else
  match a, b with
  | .val _ s x, .val _ _ y => do
      let y' ← castV y s
      some (.val .scalar U.unit (ofScalar (x ⬝ᵥ y')))
  | .val _ s x, .poly tb g ob => do
      let y' ← inst (.poly tb g ob) (upd tb t) s
      some (.val .scalar U.unit (ofScalar (x ⬝ᵥ y')))
  | .poly ta f oa, .val _ s y => do
      let x' ← inst (.poly ta f oa) (upd ta t) s
      some (.val .scalar U.unit (ofScalar (x' ⬝ᵥ y)))
  | _, _ => none

def sInv (sd : Side) : SVal U → Option (SVal U)
  | .val (.vocab v) _ x =>
      if U.invOk v sd then do
        let x' ← castV x (U.shape v)
        some (.val (.vocab v) (U.shape v) (U.inv v sd x'))
      else none
  | .poly ty f okv => some (.poly ty (fun v => U.inv v sd (f v)) (fun v => okv v && U.invOk v sd))
  | _ => none

/-- `a / c` is the `y` with `c • y = a` (`recip c` is the reciprocal when there is one) -/
def sDiv (a : SVal U) (c : R) : Option (SVal U) := do
  let r ← U.recip c
  sScale r a

def sReinterp (a : SVal U) (w : Option U.V) : Option (SVal U) :=
  match a with
  | .val ty s x =>
      if isScalar ty then none else
      some (.val (match w with | none => .anyDim s | some w => .vocab w) s x)
  | _ => none

def sTranslate (a : SVal U) (w : U.V) : Option (SVal U) :=
  match a with
  | .val (.vocab v) _ x => do
      let x' ← castV x (U.shape v)
      some (.val (.vocab w) (U.shape w) (U.transMat v w *ᵥ x'))
  | _ => none

/-- ⟦e⟧ env -/
def eval (env : Env U) : Expr U → Option (SVal U)
  | .srcP i v => some (.val (.vocab v) (U.shape v) (env (U.shape v) i))
  | .srcS i => some (.val .scalar U.unit (env U.unit i))
  | .sym k => some (.poly .any (U.key k) (fun _ => true))
  | .symV k v => some (.poly (.vocab v) (U.key k) (fun _ => true))
  | .fixV v x => some (.val (.vocab v) (U.shape v) x)
  | .fixN s x => some (.val .any s x)
  | .num c => some (.num c)
  | .neg a => do some (sNeg (← eval env a))
  | .inv sd a => do sInv sd (← eval env a)
  | .add a b => do let x ← eval env a; let y ← eval env b; sAdd x y
  | .sub a b => do let x ← eval env a; let y ← eval env b; sSub x y
  | .mul a b => do let x ← eval env a; let y ← eval env b; sMul x y
  | .dot a b => do let x ← eval env a; let y ← eval env b; sDot x y
  | .div a c => do sDiv (← eval env a) c
  | .reinterp a w => do sReinterp (← eval env a) w
  | .translate a w => do sTranslate (← eval env a) w

/-- the vector that the statement `e >> sink` is to deliver -/
def evalStmt (env : Env U) (e : Expr U) (sinkTy : Ty U) (ss : U.Shape) : Option (Vec U ss) := do
  let a ← eval env e
  let t ← (lub sinkTy a.ty).toOption
  inst a (upd a.ty t) ss

/-- the value a compiled object stands for (network objects: what they deliver) -/
def den (env : Env U) : Obj U → SVal U
  | .dyn ty s n _ => .val ty s (Impl.value env n)
  | .sym ty f okv => .poly ty f okv
  | .fixV v x => .val (.vocab v) (U.shape v) x
  | .fixN s x => .val .any s x
  | .num c => .num c

end Spec
end C01

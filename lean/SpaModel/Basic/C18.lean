/-
C18 — one vocabulary per dimensionality per model, reproducible from the seed
(core Lean only).

`Impl.*` follows `nengo_spa/network.py` `Network.__init__` (resolution order of
`vocabs`: explicit argument → `Config.default(Network, "vocabs")`, i.e. the
`config[Network].vocabs` of the nearest *entered* SPA network → the process-wide
weak dictionary `Network._master_vocabs` keyed by `Network.context[0]` → a
fresh `VocabularyMap(rng=…)` seeded from the own `seed`, else from `Network.context[0].seed`, else unseeded,
stored under `Network.context[0]` when the context is not empty) and
`nengo_spa/vocabulary.py` `VocabularyOrDimParam.coerce` /
`VocabularyMap.get_or_create` / `VocabularyMap.add`.

A model script is the sequence of constructor calls and `with` blocks in
construction order (`Op`); nesting trees (`Node`) are the well-bracketed
special case (`Node.flatten`).  Object identity is modelled by structured
names: the `net`-th network constructed in the `model`-th top-level build of
the process, the map created by that network, the `idx`-th vocabulary created
by a map.  Nothing in `Impl` inspects a name except for equality.

`Spec.*` holds the elementary statements of the property.
-/
namespace C18

/-- the value given for a module's `vocab` argument -/
inductive Arg where
  /-- an `int` / `numpy.integer` -/
  | dim (d : Int)
  /-- a user-made `Vocabulary` object (number `v`) -/
  | voc (v : Nat)
  /-- anything else (float, str, list, …) -/
  | bad
deriving DecidableEq, Repr

/-- one construction step of a model script -/
inductive Op where
  /-- `with nengo.Network(seed=<s>?):` -/
  | enterPlain (seed : Option Nat)
  /-- `with spa.Network(vocabs=<explicit map k>?, seed=<s>?):` -/
  | enterSpa (vocabs : Option Nat) (seed : Option Nat)
  /-- `spa.State(arg, vocabs=…, seed=…)` (any module with a `VocabularyOrDimParam`) -/
  | module (vocabs : Option Nat) (seed : Option Nat) (arg : Arg)
  /-- end of the innermost `with` block -/
  | exit
deriving DecidableEq, Repr

/-- nesting trees -/
inductive Node where
  | plain (seed : Option Nat) (children : List Node)
  | spa (vocabs : Option Nat) (seed : Option Nat) (children : List Node)
  | module (vocabs : Option Nat) (seed : Option Nat) (arg : Arg)

mutual
/-- construction order of a tree -/
def Node.flatten : Node → List Op
  | .plain s cs => Op.enterPlain s :: (flattenList cs ++ [Op.exit])
  | .spa v s cs => Op.enterSpa v s :: (flattenList cs ++ [Op.exit])
  | .module v s a => [Op.module v s a]
def flattenList : List Node → List Op
  | [] => []
  | c :: cs => c.flatten ++ flattenList cs
end

/-- identity of a `VocabularyMap` object: the `k`-th explicit map declared by
the script of build number `model`, or the map created by `Network.__init__`
of network number `net` of build number `model` -/
inductive MapId where
  | expl (model k : Nat)
  | fresh (model net : Nat)
deriving DecidableEq, Repr

def MapId.model : MapId → Nat
  | .expl m _ => m
  | .fresh m _ => m

/-- identity of a `Vocabulary` object: a user-made one, or the `idx`-th one
created by `get_or_create` of a map -/
inductive VocId where
  | ext (v : Nat)
  | auto (map : MapId) (idx : Nat)
deriving DecidableEq, Repr

/-- `VocabularyMap`: `rng` (`none` = `rng=None`, every created vocabulary then
gets its own `RandomState()`; `some s` = one `RandomState(s)` shared by all
vocabularies the map creates), `_vocabs` (first match wins: newest first) and
the number of vocabularies created so far -/
structure MapState where
  seed : Option Nat
  entries : List (Int × VocId)
  created : Nat
deriving DecidableEq, Repr

/-- declaration of an explicit map: `VocabularyMap([v…], rng=RandomState(seed)?)`;
`init` lists (dimensions, user vocabulary) in the order given -/
structure MapDecl where
  seed : Option Nat
  init : List (Int × Nat)
deriving DecidableEq, Repr

/-- the process-wide state: `Network._master_vocabs` (keys: (build, network))
and the contents of every map object -/
structure World where
  master : List ((Nat × Nat) × MapId)
  maps : List (MapId × MapState)
deriving Repr

def World.empty : World := ⟨[], []⟩

/-- an entered network (`Network.context` / `Config.context` entry).
`map = none` for a plain `nengo.Network` (its config has no
`config[spa.Network].vocabs`).  `gov` is a ghost annotation: the explicit
`vocabs=` argument governing this subtree, if any; no `Impl` decision reads it. -/
structure Frame where
  net : Nat
  /-- the network's `seed` attribute -/
  seed : Option Nat
  map : Option MapId
  gov : Option Nat
deriving DecidableEq, Repr

inductive Res where
  /-- container (`spa.Network`) : no `vocab` parameter -/
  | container
  | vocab (v : VocId)
  /-- `ValidationError("Vocabulary dimensionality must be at least 1.")` -/
  | rejectedDim
  /-- `ValidationError("Must be of type 'Vocabulary' or an integer …")` -/
  | rejectedType
deriving DecidableEq, Repr

/-- what is observable of one constructed SPA network / module:
`net.vocabs` (`map`), `module.vocab` or the error (`res`);
ghost: `root` (`Network.context[0]`, or the network itself at top level), `gov`. -/
structure Out where
  net : Nat
  root : Nat
  gov : Option Nat
  arg : Option Arg
  map : MapId
  res : Res
deriving DecidableEq, Repr

structure St where
  /-- innermost first -/
  ctx : List Frame
  next : Nat
  W : World
  /-- newest first -/
  outs : List Out
deriving Repr

namespace Impl

def emptyMap (seed : Option Nat) : MapState := ⟨seed, [], 0⟩

/-- `Config.default(Network, "vocabs")`: walk `reversed(Config.context)`, the
first config in which `spa.Network` is configured and has `vocabs` set. -/
def configDefault : List Frame → Option (MapId × Option Nat)
  | [] => none
  | f :: fs =>
    match f.map with
    | some mp => some (mp, f.gov)
    | none => configDefault fs

/-- `Network.context[0]` (the stack is stored innermost first) -/
def rootOf (ctx : List Frame) : Option Frame := ctx.getLast?

/-- `Network.__init__` of network `self` of build `m`: the map it ends up with
(and the ghost `gov`), and the updated process state. -/
def resolve (m self : Nat) (vocabs seed : Option Nat) (ctx : List Frame) (W : World) :
    MapId × Option Nat × World :=
  match vocabs with
  | some k => (.expl m k, some k, W)                       -- `if vocabs is None` not taken
  | none =>
    match configDefault ctx with
    | some (mp, g) => (mp, g, W)                           -- `Config.default(Network, "vocabs")`
    | none =>
      match rootOf ctx with
      | some r =>
        match W.master.lookup (m, r.net) with
        | some mp => (mp, none, W)                         -- `_master_vocabs.get(context[0])`
        | none =>
          let mp := MapId.fresh m self                     -- `VocabularyMap(rng=…)`
          -- own `seed`, else `Network.context[0].seed`, else `rng=None`
          let sd := match seed with
            | some s => some s
            | none => r.seed
          (mp, none, { master := ((m, r.net), mp) :: W.master,
                       maps := (mp, emptyMap sd) :: W.maps })
      | none =>
        let mp := MapId.fresh m self                       -- top level: not stored
        (mp, none, { W with maps := (mp, emptyMap seed) :: W.maps })

/-- contents of a map object; an explicit map that was never declared is the
empty unseeded `VocabularyMap()` -/
def mapState (W : World) (mp : MapId) : MapState := (W.maps.lookup mp).getD (emptyMap none)

/-- `VocabularyMap.get_or_create(d)` -/
def getOrCreate (mp : MapId) (d : Int) (W : World) : VocId × World :=
  let st := mapState W mp
  match st.entries.lookup d with
  | some v => (v, W)
  | none =>
    let v := VocId.auto mp st.created
    (v, { W with maps := (mp, { st with entries := (d, v) :: st.entries,
                                        created := st.created + 1 }) :: W.maps })

/-- `VocabularyOrDimParam.coerce` -/
def coerce (mp : MapId) (a : Arg) (W : World) : Res × World :=
  match a with
  | .dim d =>
    if d < 1 then (.rejectedDim, W)
    else let (v, W') := getOrCreate mp d W; (.vocab v, W')
  | .voc v => (.vocab (.ext v), W)
  | .bad => (.rejectedType, W)

def step (m : Nat) (s : St) : Op → St
  | .enterPlain seed =>
    { s with ctx := ⟨s.next, seed, none, none⟩ :: s.ctx, next := s.next + 1 }
  | .enterSpa vocabs seed =>
    let (mp, g, W) := resolve m s.next vocabs seed s.ctx s.W
    { ctx := ⟨s.next, seed, some mp, g⟩ :: s.ctx, next := s.next + 1, W := W,
      outs := ⟨s.next, ((rootOf s.ctx).map (·.net)).getD s.next, g, none, mp, .container⟩ :: s.outs }
  | .module vocabs seed a =>
    let (mp, g, W) := resolve m s.next vocabs seed s.ctx s.W
    let (r, W') := coerce mp a W
    { s with next := s.next + 1, W := W',
             outs := ⟨s.next, ((rootOf s.ctx).map (·.net)).getD s.next, g, some a, mp, r⟩ :: s.outs }
  | .exit => { s with ctx := s.ctx.tail }

def run (m : Nat) (s : St) (ops : List Op) : St := ops.foldl (step m) s

/-- `VocabularyMap([v…], rng)`: `add` in order, a later vocabulary of the same
dimensionality replaces the earlier one -/
def declState (d : MapDecl) : MapState :=
  ⟨d.seed, d.init.foldl (fun es p => (p.1, VocId.ext p.2) :: es) [], 0⟩

def declare (m : Nat) : Nat → List MapDecl → World → World
  | _, [], W => W
  | k, d :: ds, W => declare m (k + 1) ds { W with maps := (.expl m k, declState d) :: W.maps }

structure Script where
  decls : List MapDecl
  ops : List Op
deriving Repr

/-- one top-level build: the explicit maps are made, then the script runs with
an empty `Network.context` -/
def buildModel (m : Nat) (sc : Script) (W : World) : St :=
  run m ⟨[], 0, declare m 0 sc.decls W, []⟩ sc.ops

structure Proc where
  nextModel : Nat
  W : World
deriving Repr

def Proc.empty : Proc := ⟨0, World.empty⟩

/-- the weak dictionary loses the entries whose key (a network of build `m`) died -/
def dropRoots (m : Nat) (W : World) : World :=
  { W with master := W.master.filter (fun e => e.1.1 != m) }

/-- models built one after another in one process; `drop = true`: the model is
garbage collected afterwards -/
def buildSeq : List (Script × Bool) → Proc → List (List Out) × Proc
  | [], p => ([], p)
  | (sc, drop) :: rest, p =>
    let s := buildModel p.nextModel sc p.W
    let W := if drop then dropRoots p.nextModel s.W else s.W
    let (os, p') := buildSeq rest ⟨p.nextModel + 1, W⟩
    (s.outs.reverse :: os, p')

/-- what determines the random stream of a vocabulary, without the build number:
the seed of its map, which map of the script (explicit `k` / created by network
`net`) and the creation index inside the map -/
inductive Label where
  | user (v : Nat)
  | auto (seed : Option Nat) (explicitMap : Bool) (which : Nat) (idx : Nat)
deriving DecidableEq, Repr

def mapLocal : MapId → Bool × Nat
  | .expl _ k => (true, k)
  | .fresh _ n => (false, n)

def label (W : World) : VocId → Label
  | .ext v => .user v
  | .auto mp i => .auto (mapState W mp).seed (mapLocal mp).1 (mapLocal mp).2 i

/-- a module's result with the vocabulary replaced by its label -/
inductive ResL where
  | container
  | vocab (l : Label)
  | rejectedDim
  | rejectedType
deriving DecidableEq, Repr

def resLabel (W : World) : Res → ResL
  | .container => .container
  | .vocab v => .vocab (label W v)
  | .rejectedDim => .rejectedDim
  | .rejectedType => .rejectedType

/-- everything observable of a network that does not mention the build number: which map of the
script it holds (explicit `k` / created by network `net`), that map's seed, and the label
(map seed, map, creation index) of the vocabulary — i.e. what determines the pointers drawn -/
structure View where
  net : Nat
  root : Nat
  gov : Option Nat
  arg : Option Arg
  map : Bool × Nat
  mapSeed : Option Nat
  res : ResL
deriving DecidableEq, Repr

def view (W : World) (o : Out) : View :=
  ⟨o.net, o.root, o.gov, o.arg, mapLocal o.map, (mapState W o.map).seed, resLabel W o.res⟩

end Impl

namespace Spec

/-- the script is well bracketed and never leaves its root -/
def balancedFrom : Nat → List Op → Bool
  | depth, [] => depth == 0
  | depth, .exit :: ops => depth > 0 && balancedFrom (depth - 1) ops
  | depth, .enterPlain _ :: ops => balancedFrom (depth + 1) ops
  | depth, .enterSpa _ _ :: ops => balancedFrom (depth + 1) ops
  | depth, .module _ _ _ :: ops => balancedFrom depth ops

/-- a top-level model: one module, or one `with` block that closes at the very end -/
def innerFrom : Nat → List Op → Bool
  | _, [] => false
  | depth, [.exit] => depth == 1
  | depth, .exit :: ops => depth > 1 && innerFrom (depth - 1) ops
  | depth, .enterPlain _ :: ops => innerFrom (depth + 1) ops
  | depth, .enterSpa _ _ :: ops => innerFrom (depth + 1) ops
  | depth, .module _ _ _ :: ops => innerFrom depth ops

def oneRoot : List Op → Bool
  | [.module _ _ _] => true
  | .enterPlain _ :: ops => innerFrom 1 ops
  | .enterSpa _ _ :: ops => innerFrom 1 ops
  | _ => false

/-- modules that must agree: integer dimensionality `d ≥ 1` -/
def IsDimModule (o : Out) (d : Int) : Prop := o.arg = some (.dim d) ∧ 1 ≤ d

/-- every map of the process belongs to an earlier build -/
def World.Older (W : World) (m : Nat) : Prop :=
  (∀ e ∈ W.master, e.1.1 ≠ m ∧ e.2.model ≠ m) ∧ (∀ e ∈ W.maps, e.1.model ≠ m)

/-- every name in the process belongs to a build numbered below `n` -/
def World.Bounded (W : World) (n : Nat) : Prop :=
  (∀ e ∈ W.master, e.1.1 < n ∧ e.2.model < n) ∧ (∀ e ∈ W.maps, e.1.model < n)

/-- an automatically created vocabulary held by a module was created by the module's own map -/
def OwnAuto (o : Out) : Prop := ∀ mp k, o.res = .vocab (.auto mp k) → mp = o.map

end Spec
end C18

/-
C13 — model of `Vocabulary.transform_to`, `Vocabulary.create_subset`
(nengo_spa/vocabulary.py) and of `translate` / `reinterpret` on fixed pointers
(nengo_spa/semantic_pointer.py), symbols (nengo_spa/ast/symbolic.py) and dynamic
nodes (nengo_spa/ast/dynamic.py).  Core Lean only; everything is polymorphic in
the scalar type `R` (the driver runs it over `Rat`, the theorems take any
commutative ring).

Objects are modelled by value plus an identity number (`Vocab.id`, the algebra
and the pointer generator are numbers standing for the Python objects: the code
compares them with `is`).  A pointer generator is an iterator: the candidates it
will deliver next are passed to (and the rest returned by) every function that
can draw from it.

`Impl.*` follows the code paths; `Spec.*` is the property's own formula.
-/
namespace C13

abbrev Key := String
/-- a vector of dimensionality `d` -/
abbrev Vec (R : Type) (d : Nat) := Fin d → R
/-- an `m × n` array (`a[i][j]`) -/
abbrev Mat (R : Type) (m n : Nat) := Fin m → Fin n → R

inductive Err where
  | keyError | parseError | validationError | stopIteration | attributeError | spaTypeError
deriving DecidableEq, Repr

/-- `SemanticPointer`: vector, `vocab` (identity of the vocabulary object or
`None`) and `algebra` (identity of the algebra object). -/
structure Ptr (R : Type) (d : Nat) where
  v : Vec R d
  vocab : Option Nat
  algebra : Nat

/-- `Vocabulary`: `entries` is `_keys` zipped with the rows of `_vectors`
(insertion order; `_key2idx` is the position). -/
structure Vocab (R : Type) (d : Nat) where
  id : Nat
  entries : List (Key × Vec R d)
  strict : Bool
  maxSim : R
  algebra : Nat
  gen : Nat

namespace Vocab
variable {R : Type} {d : Nat}
/-- `list(vocab.keys())` -/
def keys (v : Vocab R d) : List Key := v.entries.map (·.1)
/-- `vocab.vectors` (rows) -/
def vectors (v : Vocab R d) : List (Vec R d) := v.entries.map (·.2)
/-- `key in vocab._key2idx` -/
def hasKey (v : Vocab R d) (k : Key) : Bool := v.keys.contains k
/-- `vocab._vectors[vocab._key2idx[key]]` -/
def lookup (v : Vocab R d) (k : Key) : Option (Vec R d) := v.entries.lookup k
/-- the vector stored under `k` (the zero vector for an absent key; only used for present keys) -/
def vec [Zero R] (v : Vocab R d) (k : Key) : Vec R d := (v.lookup k).getD fun _ => 0
end Vocab

/-- canonical listing of `set(l)` (one occurrence per element) -/
def dedup : List Key → List Key
  | [] => []
  | k :: ks => if ks.contains k then dedup ks else k :: dedup ks

namespace Impl

/-- `special_sps` -/
def specialNames : List Key := ["AbsorbingElement", "Identity", "Zero"]
/-- `reserved_sp_names` -/
def reservedNames : List Key := ["None", "True", "False"] ++ specialNames

/-- `valid_sp_regex.match(key) and not iskeyword(key) and key not in reserved_sp_names`
(the only Python keywords that start with a capital letter are `None`, `True`, `False`). -/
def validName (k : Key) : Bool :=
  match k.toList with
  | [] => false
  | c :: cs => c.isUpper && cs.all (fun x => x.isAlphanum || x == '_') && !reservedNames.contains k

section
variable {R : Type} [Add R] [Mul R] [Zero R] [One R] [LT R] [DecidableLT R]

/-- `Vocabulary.__contains__`: `key in special_sps or key in self._key2idx` -/
def contains {d} (v : Vocab R d) (k : Key) : Bool := specialNames.contains k || v.hasKey k

/-- `SemanticPointer.reinterpret(vocab)`:
`SemanticPointer(self.v, vocab=vocab, algebra=self.algebra if vocab is None else None)`;
`_get_algebra` then takes `vocab.algebra` when a vocabulary is given.  No
dimensionality check exists on this path (`d'` is free). -/
def reinterpret {d d'} (p : Ptr R d) (vocab : Option (Vocab R d')) : Ptr R d :=
  match vocab with
  | none => { v := p.v, vocab := none, algebra := p.algebra }
  | some w => { v := p.v, vocab := some w.id, algebra := w.algebra }

/-- `Vocabulary.add(key, p)` for a pointer `p` (an array becomes a pointer of
this vocabulary first). -/
def add {d} (v : Vocab R d) (k : Key) (p : Ptr R d) : Except Err (Vocab R d) :=
  if !validName k then .error .parseError
  else if v.hasKey k then .error .validationError
  else if (p.vocab.isSome && p.vocab != some v.id) || p.algebra != v.algebra then
    .error .validationError
  else .ok { v with entries := v.entries ++ [(k, p.v)] }

/-- `np.dot(a, b)` of two vectors -/
def dot {d} (a b : Vec R d) : R := ((List.finRange d).map fun i => a i * b i).sum

/-- `np.max` of a non-empty sequence, scanned left to right -/
def maxL (x : R) : List R → R
  | [] => x
  | y :: ys => maxL (if x < y then y else x) ys

/-- `np.max(np.dot(self._vectors, p.v))` (`none` for an empty vocabulary) -/
def maxSimTo {d} (vecs : List (Vec R d)) (p : Vec R d) : Option R :=
  match vecs.map (fun w => dot w p) with
  | [] => none
  | x :: xs => some (maxL x xs)

/-- the `for _ in range(attempts)` loop of `Vocabulary.create_pointer`
(`transform=None`).  `best` is `(best_p, best_sim)`, `none` standing for
`(None, inf)`.  Result: pointer vector, remaining candidates, and whether the
`for … else` warning ("Could not create a semantic pointer with max_similarity")
was issued. -/
def cpLoop {d} (vecs : List (Vec R d)) (maxSim : R) :
    Nat → List (Vec R d) → Option (Vec R d × R) → Except Err (Vec R d × List (Vec R d) × Bool)
  | 0, s, some (p, _) => .ok (p, s, true)
  | 0, _, none => .error .attributeError     -- `attempts = 0`: `best_p` is `None` (not reachable with 100)
  | _ + 1, [], _ => .error .stopIteration    -- `next(self.pointer_gen)` on an exhausted iterator
  | n + 1, c :: s, best =>
    match maxSimTo vecs c with
    | none => .ok (c, s, false)              -- `len(self) == 0`
    | some sim =>
      let better := match best with
        | none => true
        | some (_, bs) => decide (sim < bs)
      if better then
        if sim < maxSim then .ok (c, s, false) else cpLoop vecs maxSim n s (some (c, sim))
      else cpLoop vecs maxSim n s best

/-- `Vocabulary.create_pointer()` with the default `attempts=100` -/
def createPointer {d} (v : Vocab R d) (stream : List (Vec R d)) :
    Except Err (Vec R d × List (Vec R d) × Bool) :=
  cpLoop v.vectors v.maxSim 100 stream none

/-- `Vocabulary.populate(';'.join(names))` for plain names (the only form
`transform_to` produces): per name `self.add(name, self.create_pointer())`.
Returns the vocabulary, the remaining candidates and the similarity-warning flag. -/
def populateNames {d} (v : Vocab R d) : List Key → List (Vec R d) →
    Except Err (Vocab R d × List (Vec R d) × Bool)
  | [], s => .ok (v, s, false)
  | k :: ks, s => do
    let (p, s', w) ← createPointer v s
    let v' ← add v k { v := p, vocab := some v.id, algebra := v.algebra }
    let (v'', s'', w') ← populateNames v' ks s'
    .ok (v'', s'', w || w')

/-- `Vocabulary.__getitem__(key)` for a key that is not one of `special_sps`:
a non-strict vocabulary first creates and adds a missing key; then
`SemanticPointer(self._vectors[self._key2idx[key]], vocab=self)`.
Returns the pointer, the vocabulary afterwards and the remaining candidates. -/
def getItem {d} (v : Vocab R d) (k : Key) (stream : List (Vec R d)) :
    Except Err (Ptr R d × Vocab R d × List (Vec R d)) := do
  let (v', s') ←
    if !v.strict && !contains v k then do
      let (p, s', _) ← createPointer v stream
      let v' ← add v k { v := p, vocab := some v.id, algebra := v.algebra }
      pure (v', s')
    else pure (v, stream)
  match v'.lookup k with
  | none => .error .keyError
  | some x => .ok ({ v := x, vocab := some v'.id, algebra := v'.algebra }, v', s')

/-- the loop `for key in keys: subset.add(key, self[key].reinterpret(subset))`.
For a special name `self[key]` is the special element (no state change) and
`subset.add` rejects the reserved name. -/
def subsetLoop {d} : Vocab R d → Vocab R d → List Key → List (Vec R d) →
    Except Err (Vocab R d × Vocab R d × List (Vec R d))
  | self, subset, [], s => .ok (subset, self, s)
  | self, subset, k :: ks, s =>
    if specialNames.contains k then .error .parseError
    else do
      let (p, self', s') ← getItem self k s
      let subset' ← add subset k (reinterpret p (some subset))
      subsetLoop self' subset' ks s'

/-- `Vocabulary.create_subset(keys)`: a new vocabulary object (`freshId`) with
the same dimensions, strictness, max_similarity, pointer generator *object* and
algebra.  Returns (subset, self afterwards, remaining candidates of self's generator). -/
def createSubset {d} (self : Vocab R d) (keys : List Key) (freshId : Nat)
    (stream : List (Vec R d)) : Except Err (Vocab R d × Vocab R d × List (Vec R d)) :=
  subsetLoop self
    { id := freshId, entries := [], strict := self.strict, maxSim := self.maxSim,
      algebra := self.algebra, gen := self.gen } keys stream

/-- `np.dot(to.T, from)` for the row lists `to` (rows of dimension `d2`) and
`from` (`d1`): rows are paired **by position**. -/
def outer {d1 d2} (toRows : List (Vec R d2)) (fromRows : List (Vec R d1)) : Mat R d2 d1 :=
  fun i j => ((toRows.zip fromRows).map fun tf => tf.1 i * tf.2 j).sum

/-- `X.T` -/
def transpose {m n} (x : Mat R m n) : Mat R n m := fun i j => x j i

/-- `np.dot(tr, v)` -/
def mulVec {m n} (t : Mat R m n) (v : Vec R n) : Vec R m := fun i => dot (t i) v

inductive Populate where
  | unspecified | no | yes
deriving DecidableEq, Repr

/-- a least-squares solver `solver(A, B)[0]`: `A` has the source rows, `B` the
target rows, the result is `d1 × d2` -/
abbrev Solver (R : Type) (d1 d2 : Nat) := List (Vec R d1) → List (Vec R d2) → Mat R d1 d2

/-- How CPython enumerates the three sets that `transform_to` iterates:
`';'.join(missing_keys)` and the two separately computed `keys - missing_keys`
arguments of `create_subset`.  Each function maps the canonical listing of the
set to the order of iteration. -/
structure SetOrder where
  missing : List Key → List Key
  usedFrom : List Key → List Key
  usedTo : List Key → List Key

structure TResult (R : Type) (d1 d2 : Nat) where
  T : Mat R d2 d1
  src : Vocab R d1
  tgt : Vocab R d2
  srcStream : List (Vec R d1)
  tgtStream : List (Vec R d2)
  /-- the `NengoWarning` "keys not existent in the target vocabulary" -/
  nengoWarning : Bool
  /-- the similarity warning of `create_pointer` during `populate` -/
  simWarning : Bool

/-- `keys = set(k for k in keys if k in self._key2idx)` (canonical listing) -/
def requestedKeys {d} (src : Vocab R d) (keys : Option (List Key)) : List Key :=
  dedup ((keys.getD src.keys).filter src.hasKey)

/-- `missing_keys = set(k for k in keys if k not in other)` -/
def missingKeys {d1 d2} (src : Vocab R d1) (tgt : Vocab R d2) (keys : Option (List Key)) : List Key :=
  (requestedKeys src keys).filter fun k => !contains tgt k

/-- the `if len(missing_keys) > 0:` block: target afterwards, its remaining
candidates, the `missing_keys` afterwards, NengoWarning flag, similarity-warning flag -/
def populateStep {d2} (tgt : Vocab R d2) (populate : Populate) (missing : List Key)
    (ord : SetOrder) (tgtStream : List (Vec R d2)) :
    Except Err (Vocab R d2 × List (Vec R d2) × List Key × Bool × Bool) :=
  if missing.isEmpty then .ok (tgt, tgtStream, missing, false, false)
  else match populate with
    | .unspecified => .ok (tgt, tgtStream, missing, true, false)
    | .no => .ok (tgt, tgtStream, missing, false, false)
    | .yes => do
      let (t, s, w) ← populateNames tgt (ord.missing missing) tgtStream
      .ok (t, s, [], false, w)

/-- the transform computed from the two subsets -/
def combine {d1 d2} (solver : Option (Solver R d1 d2)) (toRows : List (Vec R d2))
    (fromRows : List (Vec R d1)) : Mat R d2 d1 :=
  match solver with
  | none => outer toRows fromRows
  | some s => transpose (s fromRows toRows)

/-- `Vocabulary.transform_to(other, populate, keys, solver)`.
`srcStream`/`tgtStream` are the candidates the two pointer generators would
deliver; `f1`, `f2` the identities of the two temporary subset objects. -/
def transformTo {d1 d2} (src : Vocab R d1) (tgt : Vocab R d2) (populate : Populate)
    (keys : Option (List Key)) (solver : Option (Solver R d1 d2)) (ord : SetOrder)
    (f1 f2 : Nat) (srcStream : List (Vec R d1)) (tgtStream : List (Vec R d2)) :
    Except Err (TResult R d1 d2) := do
  let ks := requestedKeys src keys
  let (tgt1, ts1, missing1, warn, simw) ←
    populateStep tgt populate (missingKeys src tgt keys) ord tgtStream
  let used := ks.filter fun k => !missing1.contains k
  let (fromSub, src', ss') ← createSubset src (ord.usedFrom used) f1 srcStream
  let (toSub, tgt2, ts2) ← createSubset tgt1 (ord.usedTo used) f2 ts1
  let t := combine solver toSub.vectors fromSub.vectors
  .ok { T := t, src := src', tgt := tgt2, srcStream := ss', tgtStream := ts2,
        nengoWarning := warn, simWarning := simw }

/-- `SemanticPointer.translate(vocab, populate, keys, solver)`.  `srcVocab` is
the object `self.vocab` refers to (`none` for a vocabulary-less pointer:
`None.transform_to` raises `AttributeError`).  The result is
`SemanticPointer(np.dot(tr, self.v), vocab=vocab)`. -/
def translate {d1 d2} (p : Ptr R d1) (srcVocab : Option (Vocab R d1)) (tgt : Vocab R d2)
    (populate : Populate) (keys : Option (List Key)) (solver : Option (Solver R d1 d2))
    (ord : SetOrder) (f1 f2 : Nat) (ss : List (Vec R d1)) (ts : List (Vec R d2)) :
    Except Err (Ptr R d2 × TResult R d1 d2) :=
  match srcVocab with
  | none => .error .attributeError
  | some src => do
    let r ← transformTo src tgt populate keys solver ord f1 f2 ss ts
    .ok ({ v := mulVec r.T p.v, vocab := some r.tgt.id, algebra := r.tgt.algebra }, r)

/-- the type of a symbol / dynamic node as far as these paths look at it -/
inductive NodeType where
  | scalar | anyVocab | anyDim (n : Nat) | vocab (id : Nat)
deriving DecidableEq, Repr

/-- `PointerSymbol.translate`: `self.type.vocab.transform_to(…)` (a type without
vocabulary has no attribute `vocab`), applied to `self.evaluate().v` (`value`:
the parse of the expression, property C10). -/
def symTranslate {d1 d2} (ty : NodeType) (value : Vec R d1) (srcVocab : Option (Vocab R d1))
    (tgt : Vocab R d2) (populate : Populate) (keys : Option (List Key))
    (solver : Option (Solver R d1 d2)) (ord : SetOrder) (f1 f2 : Nat)
    (ss : List (Vec R d1)) (ts : List (Vec R d2)) : Except Err (Ptr R d2 × TResult R d1 d2) :=
  match ty, srcVocab with
  | .vocab _, some src => do
    let r ← transformTo src tgt populate keys solver ord f1 f2 ss ts
    .ok ({ v := mulVec r.T value, vocab := some r.tgt.id, algebra := r.tgt.algebra }, r)
  | _, _ => .error .attributeError

/-- `PointerSymbol.reinterpret(vocab)`: `self.evaluate().reinterpret(vocab)`;
`evaluate` needs a vocabulary type (`SpaTypeError` otherwise) and yields a
pointer of that vocabulary. -/
def symReinterpret {d d'} (ty : NodeType) (value : Vec R d) (srcVocab : Option (Vocab R d))
    (vocab : Option (Vocab R d')) : Except Err (Ptr R d) :=
  match ty, srcVocab with
  | .vocab _, some src =>
    .ok (reinterpret { v := value, vocab := some src.id, algebra := src.algebra } vocab)
  | _, _ => .error .spaTypeError

/-- `Transformed(source, transform, type)` -/
structure Transformed (R : Type) (dOut dIn : Nat) where
  transform : Mat R dOut dIn
  type : NodeType

/-- `np.eye(n)` -/
def eye {n} : Mat R n n := fun i j => if i = j then 1 else 0

/-- `DynamicNode.reinterpret(vocab)`:
`Transformed(self, np.eye(self.type.dimensions), TAnyVocabOfDim(d) if vocab is None else TVocabulary(vocab))`;
scalar and `TAnyVocab` types have no `dimensions`. -/
def dynReinterpret {d d'} (ty : NodeType) (vocab : Option (Vocab R d')) :
    Except Err (Transformed R d d) :=
  match ty with
  | .scalar | .anyVocab => .error .attributeError
  | _ => .ok { transform := eye, type := match vocab with
                                          | none => .anyDim d
                                          | some w => .vocab w.id }

/-- `DynamicNode.translate`: `Transformed(self, self.type.vocab.transform_to(…), TVocabulary(vocab))` -/
def dynTranslate {d1 d2} (ty : NodeType) (srcVocab : Option (Vocab R d1)) (tgt : Vocab R d2)
    (populate : Populate) (keys : Option (List Key)) (solver : Option (Solver R d1 d2))
    (ord : SetOrder) (f1 f2 : Nat) (ss : List (Vec R d1)) (ts : List (Vec R d2)) :
    Except Err (Transformed R d2 d1 × TResult R d1 d2) :=
  match ty, srcVocab with
  | .vocab _, some src => do
    let r ← transformTo src tgt populate keys solver ord f1 f2 ss ts
    .ok ({ transform := r.T, type := .vocab r.tgt.id }, r)
  | _, _ => .error .attributeError

end
end Impl

namespace Spec
variable {R : Type} [Add R] [Mul R] [Zero R]

/-- the keys the property speaks of: requested, present in the source and in the target -/
def usedKeys {d1 d2} (src : Vocab R d1) (tgt : Vocab R d2) (requested : Option (List Key)) : List Key :=
  (dedup ((requested.getD src.keys).filter src.hasKey)).filter tgt.hasKey

/-- `Σ_k to_k ⊗ from_k`, entry `(i, j)`, over a list of keys; a key without
entry contributes with the zero vector (never the case for `usedKeys`). -/
def outerSum {d1 d2} (src : Vocab R d1) (tgt : Vocab R d2) (ks : List Key) : Mat R d2 d1 :=
  fun i j => (ks.map fun k => tgt.vec k i * src.vec k j).sum

/-- invariant of every vocabulary built by `add` from the empty one:
distinct keys with valid names -/
def WF {d} (v : Vocab R d) : Prop := v.keys.Nodup ∧ ∀ k ∈ v.keys, Impl.validName k = true

end Spec
end C13

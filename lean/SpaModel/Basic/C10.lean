/-
C10 — model of `Vocabulary.parse`, `parse_n`, `populate`, `create_pointer` and the
special names of `Vocabulary.__getitem__` (nengo_spa/vocabulary.py), together with the
operator dispatch of `SemanticPointer` (nengo_spa/semantic_pointer.py) that `eval`
reaches.  Core Lean only.

Everything is generic in an abstract algebra record `Algebra K V` (`K` = the numbers
Python floats stand for, `V` = vectors), so the theorems hold for *any* algebra; the
drivers instantiate it with the shared models of HrrAlgebra / VtbAlgebra / TvtbAlgebra
over ℚ resp. ℚ(√m).

`Impl.*` follows the code paths: Python's dynamic operator dispatch on the three kinds
of run-time values (number, Semantic Pointer, something else), left-to-right evaluation
with the vocabulary as `locals` (a non-strict vocabulary creates missing pointers on
look-up and thereby consumes candidates of its pointer generator), the `NameError →
SpaParseError` conversion, the scalar → multiple-of-identity step, the item splitting of
`populate`, and the attempt loop of `create_pointer`.
`Spec.*` is the property's own reading: the denotation of a written expression in the
algebra, and the declarative description of the selected candidate.

Trusted (not modelled): CPython's tokenizer/parser — `eval` receives text; the model
receives the tree through an abstract `parser : List Char → Option Expr`
(`none` = `SyntaxError`), and CPython evaluates along its parse tree, operands left to right.
-/
namespace C10

/-- What the model needs from an algebra and from floating-point numbers.
`k*` are the number operations (`K` = exact stand-in for Python floats); the rest mirrors
`AbstractAlgebra` as used by `SemanticPointer`. -/
structure Algebra (K V : Type) where
  kOfInt : Int → K
  kAdd : K → K → K
  kMul : K → K → K
  kNeg : K → K
  /-- reciprocal; only used on values for which `kIsZero` is false -/
  kInv : K → K
  kIsZero : K → Bool
  /-- `<` on numbers (similarity against `max_similarity`, `best_sim`) -/
  kLt : K → K → Bool
  /-- `algebra.superpose` -/
  add : V → V → V
  /-- `-self.v` -/
  neg : V → V
  /-- `self.v * other` -/
  smul : K → V → V
  /-- `algebra.bind(a, b)` -/
  bind : V → V → V
  /-- `algebra.invert(v, sidedness=TWO_SIDED)` (what `~` requests) -/
  invert : V → V
  /-- `algebra.binding_power(v, n)` for integer exponents -/
  pow : V → Int → V
  /-- `np.dot(a, b)` -/
  dot : V → V → K
  /-- `algebra.identity_element(d)` (two-sided request, as `Identity(d, vocab)` does) -/
  identity : V
  /-- `algebra.zero_element(d)` -/
  zero : V
  /-- `algebra.absorbing_element(d)`; `none` = `NotImplementedError` (VTB, TVTB) -/
  absorbing : Option V

/-- Numbers: Python `int` and `float` behave differently under `/`, `~`, `**`; `npf` is a
NumPy scalar (`np.float64`, what `a.dot(b)` returns): it is contagious and follows NumPy's
rules (division by zero gives `inf`/`nan` with a warning instead of raising). -/
inductive Num (K : Type) where
  | int (z : Int)
  | flt (x : K)
  | npf (x : K)
deriving Repr

/-- Exception classes the tie distinguishes. -/
inductive Err where
  | parseError       -- nengo_spa.exceptions.SpaParseError
  | syntaxError      -- SyntaxError (malformed text; raised by CPython's parser)
  | typeError        -- TypeError (unsupported operand types)
  | zeroDivision     -- ZeroDivisionError
  | attributeError   -- AttributeError
  | validation       -- nengo ValidationError (duplicate key, `None` as pointer)
  | stopIteration    -- exhausted pointer generator (bare StopIteration)
  | notImplemented   -- NotImplementedError (absorbing element of VTB/TVTB)
  | unmodelled       -- operators on bare NumPy arrays (NumPy's own semantics): outside the model
deriving DecidableEq, Repr

/-- Run-time values `eval` can produce inside the modelled fragment.
`ptr v own`: a `SemanticPointer` with data `v`; `own` = "its `vocab` is this vocabulary
(and hence its algebra is the vocabulary's)".  `none` is Python's `None`; `arr` a bare
NumPy array (`A.v`, `A.dot(2)`). -/
inductive Val (K V : Type) where
  | num (n : Num K)
  | ptr (v : V) (own : Bool)
  | none
  | arr

/-- The expression fragment (Python's AST restricted to what the property speaks about). -/
inductive Expr (K : Type) where
  | name (s : String)             -- any identifier: entry, special name, unknown
  | lit (n : Num K)               -- numeric literal
  | noneC                         -- the constant `None`
  | add (a b : Expr K)
  | sub (a b : Expr K)
  | mul (a b : Expr K)
  | div (a b : Expr K)
  | neg (a : Expr K)
  | inv (a : Expr K)              -- `~a`
  | pow (a : Expr K) (n : Int)    -- `a ** n`, `n` an integer literal (possibly negative)
  | dot (a b : Expr K)            -- `a.dot(b)`
  | attrV (a : Expr K)            -- `a.v`

/-- The vocabulary as far as values are concerned (the key/vector tables are C09's subject):
entries in insertion order, the not yet consumed candidates of a scripted
`pointer_gen`, and the number of `create_pointer` warnings issued so far. -/
structure Vocab (K V : Type) where
  strict : Bool
  maxSim : K
  entries : List (String × V)
  gen : List V
  warns : Nat

namespace Impl

variable {K V : Type}

/-! ### Python number arithmetic -/

def Num.toK (A : Algebra K V) : Num K → K
  | .int z => A.kOfInt z
  | .flt x => x
  | .npf x => x

def Num.isZero (A : Algebra K V) : Num K → Bool
  | .int z => z == 0
  | .flt x => A.kIsZero x
  | .npf x => A.kIsZero x

def Num.isNp : Num K → Bool
  | .npf _ => true
  | _ => false

/-- a non-integer result: NumPy scalar as soon as one operand is one -/
def fl (np : Bool) (x : K) : Num K := if np then .npf x else .flt x

/-- `x ** n` for a natural exponent by repeated multiplication -/
def kPowNat (A : Algebra K V) (x : K) : Nat → K
  | 0 => A.kOfInt 1
  | n + 1 => A.kMul (kPowNat A x n) x

def numAdd (A : Algebra K V) : Num K → Num K → Num K
  | .int a, .int b => .int (a + b)
  | a, b => fl (Num.isNp a || Num.isNp b) (A.kAdd (Num.toK A a) (Num.toK A b))

def numNeg (A : Algebra K V) : Num K → Num K
  | .int a => .int (-a)
  | .flt x => .flt (A.kNeg x)
  | .npf x => .npf (A.kNeg x)

def numSub (A : Algebra K V) : Num K → Num K → Num K
  | .int a, .int b => .int (a - b)
  | a, b => fl (Num.isNp a || Num.isNp b) (A.kAdd (Num.toK A a) (A.kNeg (Num.toK A b)))

def numMul (A : Algebra K V) : Num K → Num K → Num K
  | .int a, .int b => .int (a * b)
  | a, b => fl (Num.isNp a || Num.isNp b) (A.kMul (Num.toK A a) (Num.toK A b))

/-- true division: always a float; a zero divisor raises `ZeroDivisionError` between Python
numbers, and yields `inf`/`nan` (outside the model) when a NumPy scalar is involved -/
def numDiv (A : Algebra K V) (a b : Num K) : Except Err (Num K) :=
  if Num.isZero A b then
    (if Num.isNp a || Num.isNp b then .error .unmodelled else .error .zeroDivision)
  else .ok (fl (Num.isNp a || Num.isNp b) (A.kMul (Num.toK A a) (A.kInv (Num.toK A b))))

/-- `~`: defined on `int` only -/
def numInv : Num K → Except Err (Num K)
  | .int a => .ok (.int (-a - 1))
  | _ => .error .typeError

/-- `a ** n` with an integer exponent: `int ** nonneg` stays `int`, negative exponents give
the float reciprocal and raise `ZeroDivisionError` on a zero base. -/
def numPow (A : Algebra K V) (a : Num K) (n : Int) : Except Err (Num K) :=
  if n < 0 then
    if Num.isZero A a then (if Num.isNp a then .error .unmodelled else .error .zeroDivision)
    else .ok (fl (Num.isNp a) (A.kInv (kPowNat A (Num.toK A a) n.natAbs)))
  else match a with
    | .int z => .ok (.int (z ^ n.natAbs))
    | .flt x => .ok (.flt (kPowNat A x n.natAbs))
    | .npf x => .ok (.npf (kPowNat A x n.natAbs))

/-! ### operator dispatch (`SemanticPointer.__add__/__radd__/__sub__/__rsub__/__mul__/__rmul__/
`__truediv__/__neg__/__invert__/__pow__`, falling back to Python's `TypeError`) -/

/-- `a + b`.  Pointer + pointer: `_add` (superpose; the result's vocabulary is the inferred
one).  Pointer + number: `TypeCheckedBinaryOp` returns `NotImplemented`, the number's
reflected method too → `TypeError`. -/
def opAdd (A : Algebra K V) : Val K V → Val K V → Except Err (Val K V)
  | .arr, _ => .error .unmodelled
  | _, .arr => .error .unmodelled
  | .ptr x ox, .ptr y oy => .ok (.ptr (A.add x y) (ox || oy))
  | .num a, .num b => .ok (.num (numAdd A a b))
  | _, _ => .error .typeError

/-- `a - b`: `self + (-other)`; `(-self) + other` reflected. -/
def opSub (A : Algebra K V) : Val K V → Val K V → Except Err (Val K V)
  | .arr, _ => .error .unmodelled
  | _, .arr => .error .unmodelled
  | .ptr x ox, .ptr y oy => .ok (.ptr (A.add x (A.neg y)) (ox || oy))
  | .num a, .num b => .ok (.num (numSub A a b))
  | _, _ => .error .typeError

/-- `a * b`: `_mul` — number → scaling (either side), pointer → `_bind`. -/
def opMul (A : Algebra K V) : Val K V → Val K V → Except Err (Val K V)
  | .arr, _ => .error .unmodelled
  | _, .arr => .error .unmodelled
  | .ptr x ox, .ptr y oy => .ok (.ptr (A.bind x y) (ox || oy))
  | .ptr x ox, .num n => .ok (.ptr (A.smul (Num.toK A n) x) ox)
  | .num n, .ptr x ox => .ok (.ptr (A.smul (Num.toK A n) x) ox)
  | .num a, .num b => .ok (.num (numMul A a b))
  | _, _ => .error .typeError

/-- `a / b`: `__truediv__` accepts numbers only (`other == 0` → `ZeroDivisionError`);
there is no reflected division. -/
def opDiv (A : Algebra K V) : Val K V → Val K V → Except Err (Val K V)
  | .arr, _ => .error .unmodelled
  | _, .arr => .error .unmodelled
  | .ptr x ox, .num n =>
      if Num.isZero A n then .error .zeroDivision
      else .ok (.ptr (A.smul (A.kInv (Num.toK A n)) x) ox)
  | .num a, .num b => (numDiv A a b).map .num
  | _, _ => .error .typeError

def opNeg (A : Algebra K V) : Val K V → Except Err (Val K V)
  | .arr => .error .unmodelled
  | .ptr x ox => .ok (.ptr (A.neg x) ox)
  | .num a => .ok (.num (numNeg A a))
  | .none => .error .typeError

def opInv (A : Algebra K V) : Val K V → Except Err (Val K V)
  | .arr => .error .unmodelled
  | .ptr x ox => .ok (.ptr (A.invert x) ox)
  | .num a => (numInv a).map .num
  | .none => .error .typeError

def opPow (A : Algebra K V) (n : Int) : Val K V → Except Err (Val K V)
  | .arr => .error .unmodelled
  | .ptr x ox => .ok (.ptr (A.pow x n) ox)
  | .num a => (numPow A a n).map .num
  | .none => .error .typeError

/-- `a.dot(b)`: a number (`np.float64`) for two pointers; `np.dot(v, number)` is a bare array;
numbers and `None` have no `dot`. -/
def opDot (A : Algebra K V) : Val K V → Val K V → Except Err (Val K V)
  | .ptr x _, .ptr y _ => .ok (.num (.npf (A.dot x y)))
  | .ptr _ _, .num _ => .ok .arr
  | .ptr _ _, .none => .error .attributeError
  | .ptr _ _, .arr => .error .unmodelled
  | .arr, _ => .error .unmodelled
  | _, _ => .error .attributeError

/-- the attribute `a.dot` is looked up before the argument is evaluated: numbers and `None`
have none (`AttributeError`), a bare array has NumPy's -/
def dotRecv : Val K V → Except Err (Val K V)
  | .ptr x o => .ok (.ptr x o)
  | .arr => .error .unmodelled
  | _ => .error .attributeError

/-- `a.v` -/
def opAttrV : Val K V → Except Err (Val K V)
  | .ptr _ _ => .ok .arr
  | .arr => .error .unmodelled
  | _ => .error .attributeError

/-! ### `create_pointer` -/

/-- Result of the attempt loop: the returned `best_p`, whether the `for … else` warning was
issued, and what is left of the generator; or the exception that escaped. -/
inductive CPOut (V : Type) where
  | done (best : Option V) (warn : Bool) (rest : List V)
  | raised (e : Err) (rest : List V)

/-- `p_sim < best_sim` with `best_sim = np.inf` initially (`none`) -/
def ltInf (lt : K → K → Bool) (s : K) : Option K → Bool
  | none => true
  | some b => lt s b

/-- The loop of `create_pointer`, one attempt per step; state `(best_p, best_sim)`.
`isEmpty` is `len(self) == 0`, `sim p` is `np.max(np.dot(self._vectors, p.v))`,
`tr` the optional transform (`eval("p." + transform)`), `bound` is `max_similarity`. -/
def cpLoop (lt : K → K → Bool) (bound : K) (isEmpty : Bool) (sim : V → K)
    (tr : V → Except Err V) : Nat → List V → Option V → Option K → CPOut V
  | 0, gen, best, _ => .done best true gen                    -- `for … else`: warning
  | _ + 1, [], _, _ => .raised .stopIteration []              -- `next(self.pointer_gen)`
  | n + 1, c :: gen, best, bestSim =>
    match tr c with
    | .error e => .raised e gen
    | .ok p =>
      if isEmpty then .done (some p) false gen                -- `best_p = p; break`
      else if ltInf lt (sim p) bestSim then
        if lt (sim p) bound then .done (some p) false gen     -- `break`
        else cpLoop lt bound isEmpty sim tr n gen (some p) (some (sim p))
      else cpLoop lt bound isEmpty sim tr n gen best bestSim

/-- `np.max(np.dot(self._vectors, p.v))` (only evaluated for a non-empty vocabulary) -/
def maxSimTo (A : Algebra K V) (existing : List V) (p : V) : K :=
  match existing with
  | [] => A.kOfInt 0
  | e :: es => es.foldl (fun m x => if A.kLt m (A.dot x p) then A.dot x p else m) (A.dot e p)

/-- `Vocabulary.create_pointer(attempts, transform)` on the vocabulary state. -/
def createPointer (A : Algebra K V) (attempts : Nat) (tr : V → Except Err V) (vc : Vocab K V) :
    Except Err (Option V) × Vocab K V :=
  match cpLoop A.kLt vc.maxSim vc.entries.isEmpty (maxSimTo A (vc.entries.map (·.2))) tr
      attempts vc.gen none none with
  | .done best warn rest =>
      (.ok best, { vc with gen := rest, warns := vc.warns + (if warn then 1 else 0) })
  | .raised e rest => (.error e, { vc with gen := rest })

/-! ### names -/

def isUpper (c : Char) : Bool := 'A' ≤ c && c ≤ 'Z'
def isIdentChar (c : Char) : Bool :=
  c == '_' || ('a' ≤ c && c ≤ 'z') || ('A' ≤ c && c ≤ 'Z') || ('0' ≤ c && c ≤ '9')

def specialNames : List String := ["AbsorbingElement", "Identity", "Zero"]
/-- `reserved_sp_names` (`None`, `True`, `False` are also the only capitalised keywords) -/
def reservedNames : List String := ["None", "True", "False"] ++ specialNames

/-- the name test of `Vocabulary.add`: `^[A-Z][_a-zA-Z0-9]*$`, not a keyword, not reserved -/
def validName (s : String) : Bool :=
  match s.toList with
  | [] => false
  | c :: cs => isUpper c && cs.all isIdentChar && !reservedNames.contains s

/-- `special_sps[key](self.dimensions, self)`: the element of the vocabulary's own algebra -/
def special (A : Algebra K V) (s : String) : Option (Except Err V) :=
  if s = "Identity" then some (.ok A.identity)
  else if s = "Zero" then some (.ok A.zero)
  else if s = "AbsorbingElement" then
    some (match A.absorbing with | some a => .ok a | none => .error .notImplemented)
  else none

def findEntry (entries : List (String × V)) (s : String) : Option V :=
  (entries.find? (fun e => e.1 == s)).map (·.2)

/-- `Vocabulary.add(key, p)` for a pointer of this vocabulary/algebra with the right
length (what `parse` and `create_pointer` produce). -/
def addEntry (s : String) (v : V) (vc : Vocab K V) : Except Err (Vocab K V) :=
  if !validName s then .error .parseError
  else if (findEntry vc.entries s).isSome then .error .validation
  else .ok { vc with entries := vc.entries ++ [(s, v)] }

abbrev Res (K V : Type) := Except Err (Val K V) × Vocab K V

/-- `Vocabulary.__getitem__(key)` as reached from `eval` (which turns the `KeyError` of a
strict vocabulary into `NameError`, and `parse` turns that into `SpaParseError`; names of
Python built-ins are outside the model).  Non-strict: `self.add(key, self.create_pointer())`
— the candidate is drawn *before* `add` validates the name. -/
def lookup (A : Algebra K V) (s : String) (vc : Vocab K V) : Res K V :=
  match special A s with
  | some (.ok v) => (.ok (.ptr v true), vc)
  | some (.error e) => (.error e, vc)
  | none =>
    match findEntry vc.entries s with
    | some v => (.ok (.ptr v true), vc)
    | none =>
      if vc.strict then (.error .parseError, vc)
      else match createPointer A 100 .ok vc with
        | (.error e, vc') => (.error e, vc')
        | (.ok none, vc') => (.error .validation, vc')
        | (.ok (some c), vc') =>
          match addEntry s c vc' with
          | .error e => (.error e, vc')
          | .ok vc'' => (.ok (.ptr c true), vc'')

/-! ### evaluation (`eval(text, {}, self)` along the tree, operands left to right) -/

def un (r : Res K V) (f : Val K V → Except Err (Val K V)) : Res K V :=
  match r with
  | (.error e, vc) => (.error e, vc)
  | (.ok x, vc) => (f x, vc)

def bin (r : Res K V) (k : Vocab K V → Res K V) (f : Val K V → Val K V → Except Err (Val K V)) :
    Res K V :=
  match r with
  | (.error e, vc) => (.error e, vc)
  | (.ok x, vc) =>
    match k vc with
    | (.error e, vc') => (.error e, vc')
    | (.ok y, vc') => (f x y, vc')

def evalM (A : Algebra K V) : Expr K → Vocab K V → Res K V
  | .name s, vc => lookup A s vc
  | .lit n, vc => (.ok (.num n), vc)
  | .noneC, vc => (.ok .none, vc)
  | .add a b, vc => bin (evalM A a vc) (evalM A b) (opAdd A)
  | .sub a b, vc => bin (evalM A a vc) (evalM A b) (opSub A)
  | .mul a b, vc => bin (evalM A a vc) (evalM A b) (opMul A)
  | .div a b, vc => bin (evalM A a vc) (evalM A b) (opDiv A)
  | .neg a, vc => un (evalM A a vc) (opNeg A)
  | .inv a, vc => un (evalM A a vc) (opInv A)
  | .pow a n, vc => un (evalM A a vc) (opPow A n)
  | .dot a b, vc => bin (un (evalM A a vc) dotRecv) (evalM A b) (opDot A)
  | .attrV a, vc => un (evalM A a vc) opAttrV

/-- the tail of `Vocabulary.parse`: a number becomes
`value * Identity(self.dimensions, vocab=self)`, a pointer is returned, anything else is a
`SpaParseError`. -/
def finish (A : Algebra K V) : Val K V → Except Err (Val K V)
  | .num n => .ok (.ptr (A.smul (Num.toK A n) A.identity) true)
  | .ptr v o => .ok (.ptr v o)
  | _ => .error .parseError

/-- `Vocabulary.parse` on the tree -/
def parseValue (A : Algebra K V) (e : Expr K) (vc : Vocab K V) : Res K V :=
  un (evalM A e vc) (finish A)

/-- `Vocabulary.parse(text)`; `parser` is CPython's (`none` = `SyntaxError`). -/
def parse (A : Algebra K V) (parser : List Char → Option (Expr K)) (text : List Char)
    (vc : Vocab K V) : Res K V :=
  match parser text with
  | none => (.error .syntaxError, vc)
  | some e => parseValue A e vc

/-- `Vocabulary.parse_n(*texts)`: a list comprehension, left to right, first error aborts -/
def parseN (A : Algebra K V) (parser : List Char → Option (Expr K)) :
    List (List Char) → Vocab K V → Except Err (List (Val K V)) × Vocab K V
  | [], vc => (.ok [], vc)
  | t :: ts, vc =>
    match parse A parser t vc with
    | (.error e, vc') => (.error e, vc')
    | (.ok x, vc') =>
      match parseN A parser ts vc' with
      | (.error e, vc'') => (.error e, vc'')
      | (.ok xs, vc'') => (.ok (x :: xs), vc'')

/-! ### `populate` -/

/-- characters `str.strip()` removes (ASCII range) -/
def isWs (c : Char) : Bool :=
  c == ' ' || c == '\t' || c == '\n' || c == '\r' || c == '\x0b' || c == '\x0c' ||
  c == '\x1c' || c == '\x1d' || c == '\x1e' || c == '\x1f'

def stripL : List Char → List Char
  | [] => []
  | c :: cs => if isWs c then stripL cs else c :: cs

/-- `str.strip()` -/
def strip (l : List Char) : List Char := (stripL (stripL l).reverse).reverse

/-- `text.split(sep)` (all occurrences) -/
def splitAll (sep : Char) : List Char → List (List Char)
  | [] => [[]]
  | c :: cs =>
    if c = sep then [] :: splitAll sep cs
    else match splitAll sep cs with
      | [] => [[c]]            -- unreachable: `splitAll` never returns `[]`
      | w :: ws => (c :: w) :: ws

/-- `text.split(sep, 1)`: `none` when `sep` does not occur (`len(split) == 1`) -/
def splitFirst (sep : Char) : List Char → Option (List Char × List Char)
  | [] => none
  | c :: cs =>
    if c = sep then some ([], cs)
    else (splitFirst sep cs).map fun (a, b) => (c :: a, b)

inductive RawItem where
  | assign (name expr : List Char)     -- `name = expr`   (expr already stripped)
  | method (name tr : List Char)       -- `name.tr`
  | bare (name : List Char)
deriving DecidableEq, Repr

/-- the two `split` calls and the `if / elif / else` of `populate` -/
def classify (item : List Char) : RawItem :=
  match splitFirst '=' item with
  | some (n, e) => .assign n (strip e)
  | none =>
    match splitFirst '.' item with
    | some (n, t) => .method n t
    | none => .bare item

def addR (s : List Char) (v : Option V) (vc : Vocab K V) : Except Err Unit × Vocab K V :=
  match v with
  | none => (.error .validation, vc)          -- `SemanticPointer(None)`: not a vector
  | some v =>
    match addEntry (String.ofList (strip s)) v vc with
    | .error e => (.error e, vc)
    | .ok vc' => (.ok (), vc')

/-- one item of `populate`: compute the value first, then `self.add(name.strip(), value)`.
`trans t` is the meaning of `eval("p." + t)` on a pointer's data. -/
def populateItem (A : Algebra K V) (parser : List Char → Option (Expr K))
    (trans : List Char → V → Except Err V) (item : List Char) (vc : Vocab K V) :
    Except Err Unit × Vocab K V :=
  match classify item with
  | .assign n e =>
    match parse A parser e vc with
    | (.ok (.ptr v _), vc') => addR n (some v) vc'
    | (.ok _, vc') => (.error .parseError, vc')     -- unreachable: `parse` returns pointers
    | (.error err, vc') => (.error err, vc')
  | .method n t =>
    match createPointer A 100 (trans t) vc with
    | (.ok best, vc') => addR n best vc'
    | (.error err, vc') => (.error err, vc')
  | .bare n =>
    match createPointer A 100 .ok vc with
    | (.ok best, vc') => addR n best vc'
    | (.error err, vc') => (.error err, vc')

def populateItems (A : Algebra K V) (parser : List Char → Option (Expr K))
    (trans : List Char → V → Except Err V) :
    List (List Char) → Vocab K V → Except Err Unit × Vocab K V
  | [], vc => (.ok (), vc)
  | it :: rest, vc =>
    match populateItem A parser trans it vc with
    | (.ok (), vc') => populateItems A parser trans rest vc'
    | (.error e, vc') => (.error e, vc')

/-- `Vocabulary.populate(pointers)` -/
def populate (A : Algebra K V) (parser : List Char → Option (Expr K))
    (trans : List Char → V → Except Err V) (text : List Char) (vc : Vocab K V) :
    Except Err Unit × Vocab K V :=
  if (strip text).isEmpty then (.ok (), vc)
  else populateItems A parser trans (splitAll ';' text) vc

end Impl

/-! ## Spec: the property's own statement -/
namespace Spec

variable {K V : Type}

/-- what a written expression denotes: a vector of the algebra or a Python number -/
inductive SVal (K V : Type) where
  | p (v : V)
  | n (x : Num K)

/-- "Applying the written operators to the vocabulary's entries": the denotation of an
expression in algebra `A` with the entries `env`; the special names denote the algebra's
own elements whatever the entries are.  (Number arithmetic is Python's.) -/
inductive Den (A : Algebra K V) (env : String → Option V) : Expr K → SVal K V → Prop where
  | identity : Den A env (.name "Identity") (.p A.identity)
  | zero : Den A env (.name "Zero") (.p A.zero)
  | absorbing {a : V} : A.absorbing = some a → Den A env (.name "AbsorbingElement") (.p a)
  | entry {s : String} {v : V} : Impl.special A s = none → env s = some v →
      Den A env (.name s) (.p v)
  | lit (x : Num K) : Den A env (.lit x) (.n x)
  | addP {a b x y} : Den A env a (.p x) → Den A env b (.p y) → Den A env (.add a b) (.p (A.add x y))
  | subP {a b x y} : Den A env a (.p x) → Den A env b (.p y) →
      Den A env (.sub a b) (.p (A.add x (A.neg y)))
  | bind {a b x y} : Den A env a (.p x) → Den A env b (.p y) → Den A env (.mul a b) (.p (A.bind x y))
  | scaleR {a b x c} : Den A env a (.p x) → Den A env b (.n c) →
      Den A env (.mul a b) (.p (A.smul (Impl.Num.toK A c) x))
  | scaleL {a b x c} : Den A env a (.n c) → Den A env b (.p x) →
      Den A env (.mul a b) (.p (A.smul (Impl.Num.toK A c) x))
  | divP {a b x c} : Den A env a (.p x) → Den A env b (.n c) → Impl.Num.isZero A c = false →
      Den A env (.div a b) (.p (A.smul (A.kInv (Impl.Num.toK A c)) x))
  | negP {a x} : Den A env a (.p x) → Den A env (.neg a) (.p (A.neg x))
  | invP {a x} : Den A env a (.p x) → Den A env (.inv a) (.p (A.invert x))
  | powP {a x} (n : Int) : Den A env a (.p x) → Den A env (.pow a n) (.p (A.pow x n))
  | dot {a b x y} : Den A env a (.p x) → Den A env b (.p y) →
      Den A env (.dot a b) (.n (.npf (A.dot x y)))
  | addN {a b c d} : Den A env a (.n c) → Den A env b (.n d) →
      Den A env (.add a b) (.n (Impl.numAdd A c d))
  | subN {a b c d} : Den A env a (.n c) → Den A env b (.n d) →
      Den A env (.sub a b) (.n (Impl.numSub A c d))
  | mulN {a b c d} : Den A env a (.n c) → Den A env b (.n d) →
      Den A env (.mul a b) (.n (Impl.numMul A c d))
  | divN {a b c d r} : Den A env a (.n c) → Den A env b (.n d) → Impl.numDiv A c d = .ok r →
      Den A env (.div a b) (.n r)
  | negN {a c} : Den A env a (.n c) → Den A env (.neg a) (.n (Impl.numNeg A c))
  | invN {a c r} : Den A env a (.n c) → Impl.numInv c = .ok r → Den A env (.inv a) (.n r)
  | powN {a c r} (n : Int) : Den A env a (.n c) → Impl.numPow A c n = .ok r →
      Den A env (.pow a n) (.n r)

/-- the Semantic Pointer a denotation stands for: a bare number `n` is `n` times the
identity of the vocabulary's algebra -/
def toPointer (A : Algebra K V) : SVal K V → V
  | .p v => v
  | .n x => A.smul (Impl.Num.toK A x) A.identity

/-- evaluation reaches a name that is neither special nor an entry before anything else
goes wrong (operands are evaluated left to right) -/
inductive HitsUnknown (A : Algebra K V) (env : String → Option V) : Expr K → Prop where
  | name {s : String} : Impl.special A s = none → env s = none → HitsUnknown A env (.name s)
  | addL {a b} : HitsUnknown A env a → HitsUnknown A env (.add a b)
  | addR {a b sv} : Den A env a sv → HitsUnknown A env b → HitsUnknown A env (.add a b)
  | subL {a b} : HitsUnknown A env a → HitsUnknown A env (.sub a b)
  | subR {a b sv} : Den A env a sv → HitsUnknown A env b → HitsUnknown A env (.sub a b)
  | mulL {a b} : HitsUnknown A env a → HitsUnknown A env (.mul a b)
  | mulR {a b sv} : Den A env a sv → HitsUnknown A env b → HitsUnknown A env (.mul a b)
  | divL {a b} : HitsUnknown A env a → HitsUnknown A env (.div a b)
  | divR {a b sv} : Den A env a sv → HitsUnknown A env b → HitsUnknown A env (.div a b)
  | dotL {a b} : HitsUnknown A env a → HitsUnknown A env (.dot a b)
  | dotR {a b x} : Den A env a (.p x) → HitsUnknown A env b → HitsUnknown A env (.dot a b)
  | neg {a} : HitsUnknown A env a → HitsUnknown A env (.neg a)
  | inv {a} : HitsUnknown A env a → HitsUnknown A env (.inv a)
  | pow {a} (n : Int) : HitsUnknown A env a → HitsUnknown A env (.pow a n)
  | attrV {a} : HitsUnknown A env a → HitsUnknown A env (.attrV a)

/-- `lt` is a strict total order (what `<` on finite floats is) -/
structure StrictTotal (lt : K → K → Bool) : Prop where
  irrefl : ∀ a, lt a a = false
  trans : ∀ a b c, lt a b = true → lt b c = true → lt a c = true
  conn : ∀ a b, lt a b = false → lt b a = false → a = b

end Spec
end C10

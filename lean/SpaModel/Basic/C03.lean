/-
C03 — operands from different vocabularies or algebras never combine silently.
Model (core Lean only; reuses the type lattice and `coerce_types` of C11).

`Impl.*` follows the code paths of
  * `nengo_spa/ast/base.py`      : `infer_types`, `TypeCheckedBinaryOp`, `Node.__array_ufunc__ = None`
  * `nengo_spa/semantic_pointer.py` : `_add`, `_bind`, `_mul`, `dot`, `compare`, `mse`, `distance`,
                                   `_ensure_algebra_match`, `_get_algebra`, the `type` property
                                   (assignment ignored after construction), `reinterpret`, `translate`
  * `nengo_spa/ast/symbolic.py`  : `PointerSymbol.__add__/__sub__/__mul__/dot/...`, `as_symbolic_node`
  * `nengo_spa/ast/dynamic.py`   : `DynamicNode.__add__/__mul__/dot/reinterpret/translate`, `binary_node_op`
  * `nengo_spa/connectors.py`    : `as_ast_node`, `as_sink`, `ModuleInput.__rrshift__`, `SpaOperatorMixin`
  * `nengo_spa/operators.py`     : `dot`
together with Python's binary-operator protocol (left method, `NotImplemented`, reflected method,
`TypeError`) and NumPy's deferral to operands whose `__array_ufunc__` is `None`.

`Spec.*` is the property's own vocabulary: compatibility of two operands.
-/
import SpaModel.Basic.C11

namespace C03
open C11 (Ty)

/-- The vocabulary universe: dimensionality and algebra object of each `Vocabulary` object. -/
structure Univ where
  dim : Nat → Int
  valg : Nat → Nat

/-- Operand descriptors (everything the type/vocabulary logic of an operation can see). -/
inductive Obj where
  /-- `SemanticPointer`: `.vocab`, `.algebra` (object number), `len(.v)`; its `.type` is a function of `.vocab` -/
  | ptr (vocab : Option Nat) (alg : Nat) (len : Int)
  /-- `PointerSymbol` with its current (mutable) `.type` -/
  | sym (ty : Ty)
  /-- `DynamicNode` (`Transformed`/`Summed`/`ModuleOutput`) with its current (mutable) `.type`;
      `good = false`: some source inside cannot be connected (size mismatch), so every attempt to
      connect the node raises -/
  | dyn (ty : Ty) (good : Bool)
  /-- a SPA module object (`spa.State(vocab)`: `vocab v`, `spa.Scalar()`: scalar), usable as operand
      (through `SpaOperatorMixin`/`as_ast_node`) and as sink (`as_sink`) -/
  | mod (ty : Ty)
  /-- Python number -/
  | num
  /-- NumPy scalar or 0-d array (`is_array` and `is_number` both hold) -/
  | npnum
  /-- `ndarray` with `ndim ≥ 1` -/
  | arr (len : Int)
deriving DecidableEq, Repr

inductive Err where
  | spaType | typeErr | valueErr | notImpl | attrErr | assertErr
  /-- raised while Nengo objects are constructed/connected (`ValidationError` of a size mismatch,
      or the evaluation/construct step of a source failing) -/
  | connect
  /-- raised somewhere inside NumPy when it is handed a non-array SPA object (`compare`/`mse`) -/
  | numpy
  /-- operand index that holds no object (never sent by the harness) -/
  | badRef
deriving DecidableEq, Repr

/-- What an accepted operation returns. -/
inductive Val where
  | obj (o : Obj)      -- a new object (pointer, symbol, node) or a NumPy number / array
  | fscalar            -- a `FixedScalar` (symbolic dot product)
  | ni                 -- the `NotImplemented` singleton handed back by a *method call*
  | unit               -- `>>`: connection made, no value
  | foreign            -- neither operand is a SPA object: Python/NumPy alone decide (not modelled)
  /-- the operation raised `e` *after* `infer_types` had succeeded (and possibly assigned the inferred
      vocabulary type to a symbol / node operand): no value, but the operands are returned as they
      are then -/
  | raised (e : Err)
deriving DecidableEq, Repr

inductive BinOp where
  | add | sub | mul | matmul | dot | compare | mse | distance | spadot | rshift
deriving DecidableEq, Repr

abbrev Res := Except Err (Obj × Obj × Val)

namespace Impl
open C11.Impl (coerce le lt)

/-- `.type` of an operand once it is an AST node (`as_ast_node` / `as_node`: numbers become
`FixedScalar`, i.e. `TScalar`).  Arrays never get that far; `scalar` is a filler for them. -/
def ty : Obj → Ty
  | .ptr none _ _ => .any
  | .ptr (some v) _ _ => .vocab v
  | .sym t => t
  | .dyn t _ => t
  | .mod t => t
  | .num => C11.scalar
  | .npnum => C11.scalar
  | .arr _ => C11.scalar

def isVocab : Ty → Bool
  | .vocab _ => true
  | _ => false

def vocabOf : Ty → Option Nat
  | .vocab v => some v
  | _ => none

/-- `n.type = type_` inside `infer_types`, guarded by `TAnyVocab <= n.type < type_`.
`SemanticPointer.type` ignores the assignment (its type is fixed at construction); module objects
are converted to a fresh `ModuleOutput` on every use, numbers to a fresh `FixedScalar`. -/
def upd (U : Univ) (r : Ty) : Obj → Obj
  | .sym t => if le U.dim .any t && lt U.dim t r then .sym r else .sym t
  | .dyn t g => if le U.dim .any t && lt U.dim t r then .dyn r g else .dyn t g
  | o => o

/-- `infer_types(a, b)`: `coerce_types` raises `SpaTypeError` before anything is assigned. -/
def infer (U : Univ) (a b : Obj) : Except Err (Ty × Obj × Obj) :=
  match coerce U.dim (ty a) [ty b] with
  | .error _ => .error .spaType
  | .ok r => if isVocab r then .ok (r, upd U r a, upd U r b) else .ok (r, a, b)

/-- `_ensure_length_match` (in `_add` and `mse`): the two vectors must have the same length
(NumPy alone would broadcast a length-1 operand). -/
def bcast (m n : Int) : Option Int :=
  if m = n then some m else none

/-- `_ensure_algebra_match`: only two `SemanticPointer`s are compared, by identity. -/
def ensureAlg : Obj → Obj → Except Err Unit
  | .ptr _ a _, .ptr _ b _ => if a = b then .ok () else .error .typeErr
  | _, _ => .ok ()

/-- `other.evaluate()` of a `Fixed` operand: `(vocab, algebra, len)` of the pointer it yields.
`PointerSymbol.evaluate` needs a vocabulary type and parses in that vocabulary. -/
def evalFixed (U : Univ) : Obj → Except Err (Option Nat × Nat × Int)
  | .ptr v a l => .ok (v, a, l)
  | .sym (.vocab v) => .ok (some v, U.valg v, U.dim v)
  | .sym _ => .error .spaType
  | _ => .error .attrErr

/-- `SemanticPointer(data, vocab=vocab, algebra=self.algebra)`: `_get_algebra` raises `ValueError`
when a vocabulary is given whose algebra is not the given algebra object. -/
def mkPtr (U : Univ) (vocab : Option Nat) (alg : Nat) (len : Int) : Except Err Obj :=
  match vocab with
  | none => .ok (.ptr none alg len)
  | some v => if U.valg v = alg then .ok (.ptr (some v) alg len) else .error .valueErr

/-- everything after a successful `infer_types`: an exception no longer undoes the assignments -/
def late (s' o' : Obj) (x : Except Err Val) : Res :=
  match x with
  | .ok v => .ok (s', o', v)
  | .error e => .ok (s', o', .raised e)

def selfAlg : Obj → Nat
  | .ptr _ a _ => a
  | _ => 0
def selfLen : Obj → Int
  | .ptr _ _ l => l
  | _ => 0

/-- `SemanticPointer._add(other)` (`bind = false`) and `_bind(other)` (`bind = true`) for a `Fixed`
non-scalar `other`.  Order of the checks as in the code: inference, algebra identity, evaluation,
length (`_add`: `_ensure_length_match` → `SpaTypeError`; `_bind`: the algebra's `ValueError`),
construction of the result (`_get_algebra`). -/
def spCombine (U : Univ) (bind : Bool) (self other : Obj) : Res := do
  let (r, s', o') ← infer U self other
  late s' o' do
    let vocab := vocabOf r
    if vocab = none then ensureAlg self other
    let (_, _, ol) ← evalFixed U o'
    let len ← match (if bind then (if selfLen self = ol then some ol else none) else bcast (selfLen self) ol) with
      | some l => Except.ok l
      | none => Except.error (if bind then Err.valueErr else Err.spaType)
    let p ← mkPtr U vocab (selfAlg self) len
    pure (.obj p)

/-- which reduction of the two vectors a scalar-valued method performs -/
inductive Red where
  | npdot    -- `np.dot(self.v, other)`: equal lengths
  | npsub    -- `mse`: `_ensure_length_match` (SpaTypeError), then `self.v - other`
  | npcmp    -- `compare`/`distance`: `_ensure_length_match` (SpaTypeError), then `np.dot(self.v, other) / scale`
deriving DecidableEq

def redLen (red : Red) (m n : Int) : Bool :=
  match red with
  | .npdot => m = n
  | .npsub => (bcast m n).isSome
  | .npcmp => m = n

/-- `SemanticPointer.dot/compare/mse` on a pointer-valued `other` (`Fixed` for `dot`,
`SemanticPointer` for `compare`/`mse`). -/
def spScalar (U : Univ) (red : Red) (self other : Obj) : Res := do
  let (r, s', o') ← infer U self other
  late s' o' do
    if r = .any then ensureAlg self other
    let (_, _, ol) ← evalFixed U o'
    if redLen red (selfLen self) ol then pure (.obj .npnum)
    else .error (if red = .npdot then .valueErr else .spaType)

/-- widths -/
def tyWidth (U : Univ) : Ty → Option Int
  | .vocab v => some (U.dim v)
  | .anyDim d => some d
  | .base _ => some 1
  | .any => none

/-- width of the signal a source delivers when it is connected (`none`: it cannot be) -/
def srcWidth (U : Univ) : Obj → Option Int
  | .ptr _ _ l => some l
  | .sym (.vocab v) => some (U.dim v)
  | .sym _ => none
  | .dyn t g => if g then tyWidth U t else none
  | .mod t => tyWidth U t
  | .num => some 1
  | .npnum => some 1
  | .arr _ => none

/-- `source.connect_to(<input of size n>)` -/
def connect (U : Univ) (o : Obj) (n : Int) : Except Err Unit :=
  if srcWidth U o = some n then .ok () else .error .connect

/-- `as_ast_node(module)`: a fresh `ModuleOutput` -/
def asDyn : Obj → Obj
  | .mod t => .dyn t true
  | o => o

/-- `DynamicNode.__add__(other)` after the gate: `Summed((self, other), infer_types(self, other))`.
Nothing is connected yet; the node is `good` when both sources deliver the width the
superposition inputs will have. -/
def dynAdd (U : Univ) (self other : Obj) : Res := do
  let (r, s', o') ← infer U self other
  let w := tyWidth U r
  let good := w.isSome && srcWidth U s' == w && srcWidth U o' == w
  .ok (s', o', .obj (.dyn r good))

def isSymbolLike : Obj → Bool
  | .sym _ => true
  | .num => true
  | .npnum => true
  | _ => false

/-- `DynamicNode._mul_with_fixed(other)`; `other` is a `Symbol` (`PointerSymbol` or `FixedScalar`). -/
def dynMulFixed (U : Univ) (self other : Obj) : Res := do
  let (_, s', o') ← infer U self other
  let selfGood := match s' with | .dyn _ g => g | _ => true
  late s' o' <|
    if ty o' = C11.scalar then .ok (.obj (.dyn (ty s') selfGood))
    else if ty s' = C11.scalar && ty o' = .any then .error .spaType
    else match ty o' with
      | .vocab v =>
        if ty s' = C11.scalar then   -- dynamic scalar scaling a fixed pointer: `Transformed(self, v as column, other.type)`
          .ok (.obj (.dyn (.vocab v) (selfGood && srcWidth U s' == some 1)))
        else .ok (.obj (.dyn (ty s') (selfGood && srcWidth U s' == some (U.dim v))))
      | _ => .error .assertErr

/-- `DynamicNode._mul_with_dynamic(other)`; `other` is a pointer or a dynamic node.  The operands are
connected to the product/bind network at once. -/
def dynMulDyn (U : Univ) (self other : Obj) : Res := do
  let (r, s', o') ← infer U self other
  late s' o' <|
    if r = C11.scalar then do
      connect U s' 1; connect U o' 1
      pure (.obj (.dyn r true))
    else if ty s' = C11.scalar || ty o' = C11.scalar then .error .notImpl
    else match ty s' with
      | .vocab v => do
        connect U s' (U.dim v); connect U o' (U.dim v)
        pure (.obj (.dyn r true))
      | _ => .error .attrErr

/-- `DynamicNode.__mul__/__rmul__` after the gate -/
def dynMul (U : Univ) (self other : Obj) : Res :=
  if isSymbolLike other then dynMulFixed U self other else dynMulDyn U self other

/-- `DynamicNode.dot(other)` after the gate -/
def dynDot (U : Univ) (self other : Obj) : Res := do
  let (r, s', o') ← infer U self other
  late s' o' <|
    if ty s' = C11.scalar || ty o' = C11.scalar then .error .spaType
    else match o' with
      | .dyn _ _ =>
        match r with
        | .vocab v => do
          connect U s' (U.dim v); connect U o' (U.dim v)
          pure (.obj (.dyn C11.scalar true))
        | _ => .error .attrErr
      | _ => do
        let (_, _, ol) ← evalFixed U o'
        let selfGood := match s' with | .dyn _ g => g | _ => true
        pure (.obj (.dyn C11.scalar (selfGood && srcWidth U s' == some ol)))

/-- `PointerSymbol.__add__/__sub__/__mul__` with a `PointerSymbol` -/
def symCombine (U : Univ) (self other : Obj) : Res := do
  let (r, s', o') ← infer U self other
  .ok (s', o', .obj (.sym r))

/-- `PointerSymbol.dot(other)` with a `PointerSymbol` -/
def symDot (U : Univ) (self other : Obj) : Res := do
  let (_, s', o') ← infer U self other
  late s' o' do
    let _ ← evalFixed U s'
    let _ ← evalFixed U o'
    pure .fscalar

/-- swap the operand slots of a result computed with `self = b` -/
def swapRes (r : Res) : Res :=
  match r with
  | .ok (b', a', v) => .ok (a', b', v)
  | .error e => .error e

def isMod : Obj → Bool
  | .mod _ => true
  | _ => false

/-- `SpaOperatorMixin` operator of a module `a`: `getattr(as_ast_node(a), op)(as_ast_node(b))`;
the fresh `ModuleOutput` nodes are dropped afterwards -/
def modL (f : Obj → Obj → Res) (a b : Obj) : Res :=
  match f (asDyn a) (asDyn b) with
  | .ok (_, b', v) => .ok (a, (if isMod b then b else b'), v)
  | .error e => .error e

/-- reflected `SpaOperatorMixin` operator of a module `b` with left operand `a` (not a module) -/
def modR (f : Obj → Obj → Res) (a b : Obj) : Res :=
  match f (asDyn b) a with
  | .ok (_, a', v) => .ok (a', b, v)
  | .error e => .error e

def isSpa : Obj → Bool
  | .ptr .. => true
  | .sym _ => true
  | .dyn .. => true
  | .mod _ => true
  | _ => false

/-- `a + b` -/
def add (U : Univ) (a b : Obj) : Res :=
  match a, b with
  -- SemanticPointer.__add__ : TypeCheckedBinaryOp(Fixed)
  | .ptr .., .ptr .. => spCombine U false a b
  | .ptr .., .sym _ => spCombine U false a b
  | .ptr .., .npnum => .error .typeErr          -- is_array
  | .ptr .., .arr _ => .error .typeErr          -- is_array
  | .ptr .., .num => .error .typeErr            -- NotImplemented, int.__radd__ NotImplemented
  | .ptr .., .dyn .. => swapRes (dynAdd U b a)  -- NotImplemented → DynamicNode.__radd__ → self + other
  | .ptr .., .mod _ => modR (dynAdd U) a b
  -- PointerSymbol.__add__
  | .sym _, .sym _ => symCombine U a b
  | .sym _, .ptr .. => swapRes (spCombine U false b a)   -- SemanticPointer.__radd__
  | .sym _, .dyn .. => swapRes (dynAdd U b a)
  | .sym _, .mod _ => modR (dynAdd U) a b
  | .sym _, .num => .error .typeErr
  | .sym _, .npnum => .error .typeErr
  | .sym _, .arr _ => .error .typeErr
  -- DynamicNode.__add__ : binary_node_op (as_node, is_array → TypeError, not Node → NotImplemented)
  | .dyn .., .arr _ => .error .typeErr
  | .dyn .., .mod _ => modR (dynAdd U) a b   -- module.__radd__
  | .dyn .., _ => dynAdd U a b
  -- SpaOperatorMixin.__add__ : as_ast_node on both sides
  | .mod _, .arr _ => .error .spaType           -- "not registered as a SPA output"
  | .mod _, _ => modL (dynAdd U) a b
  -- number / array on the left: the reflected method of `b`
  | .num, .ptr .. => .error .typeErr
  | .num, .sym _ => .error .typeErr
  | .num, .dyn .. => swapRes (dynAdd U b a)
  | .num, .mod _ => modR (dynAdd U) a b
  | .npnum, .ptr .. => .error .typeErr
  | .npnum, .sym _ => .error .typeErr
  | .npnum, .dyn .. => swapRes (dynAdd U b a)
  | .npnum, .mod _ => modR (dynAdd U) a b
  | .arr _, .ptr .. => .error .typeErr
  | .arr _, .sym _ => .error .typeErr
  | .arr _, .dyn .. => .error .typeErr
  | .arr _, .mod _ => .error .spaType
  | _, _ => .ok (a, b, .foreign)

/-- `a - b`: every path negates `b` into a fresh object first (`self + (-other)`, or
`(-self) + other` in the reflected methods), except `PointerSymbol - PointerSymbol`, so type
assignments made by inference do not reach `b` itself. -/
def sub (U : Univ) (a b : Obj) : Res :=
  match add U a b with
  | .ok (a', b', v) =>
    match a, b with
    | .sym _, .sym _ => .ok (a', b', v)
    | _, _ => .ok (a', b, v)
  | .error e => .error e

/-- `a * b` -/
def mul (U : Univ) (a b : Obj) : Res :=
  match a, b with
  -- SemanticPointer._mul
  | .ptr .., .num => .ok (a, b, .obj a)          -- scaled copy: vocab, algebra, length kept
  | .ptr .., .npnum => .ok (a, b, .obj a)
  | .ptr .., .arr _ => .error .typeErr
  | .ptr .., .ptr .. => spCombine U true a b
  | .ptr .., .sym _ => spCombine U true a b
  | .ptr .., .dyn .. => swapRes (dynMul U b a)
  | .ptr .., .mod _ => modR (dynMul U) a b
  -- PointerSymbol.__mul__ : symbolic_op
  | .sym t, .num => .ok (a, b, .obj (.sym t))
  | .sym t, .npnum => .ok (a, b, .obj (.sym t))
  | .sym _, .arr _ => .error .typeErr
  | .sym _, .sym _ => symCombine U a b
  | .sym _, .ptr .. => swapRes (spCombine U true b a)
  | .sym _, .dyn .. => swapRes (dynMul U b a)
  | .sym _, .mod _ => modR (dynMul U) a b
  -- DynamicNode.__mul__ : binary_node_op
  | .dyn .., .arr _ => .error .typeErr
  | .dyn .., .mod _ => modR (dynMul U) a b
  | .dyn .., _ => dynMul U a b
  | .mod _, .arr _ => .error .spaType
  | .mod _, _ => modL (dynMul U) a b
  | .num, .ptr .. => .ok (a, b, .obj b)
  | .num, .sym t => .ok (a, b, .obj (.sym t))
  | .num, .dyn .. => swapRes (dynMul U b a)
  | .num, .mod _ => modR (dynMul U) a b
  | .npnum, .ptr .. => .ok (a, b, .obj b)
  | .npnum, .sym t => .ok (a, b, .obj (.sym t))
  | .npnum, .dyn .. => swapRes (dynMul U b a)
  | .npnum, .mod _ => modR (dynMul U) a b
  | .arr _, .ptr .. => .error .typeErr
  | .arr _, .sym _ => .error .typeErr
  | .arr _, .dyn .. => .error .typeErr
  | .arr _, .mod _ => .error .spaType
  | _, _ => .ok (a, b, .foreign)

/-- array-like `other` in `SemanticPointer.dot` (`np.dot(self.v, other)`) -/
def spDotArr (a b : Obj) (l : Int) : Res :=
  match b with
  | .num => .ok (a, b, .obj (.arr l))
  | .npnum => .ok (a, b, .obj (.arr l))
  | .arr n => if l = n then .ok (a, b, .obj .npnum) else .error .valueErr
  | _ => .error .badRef

/-- the *method call* `a.dot(b)`; may hand back `NotImplemented` as a value -/
def dotM (U : Univ) (a b : Obj) : Res :=
  match a, b with
  | .ptr .., .ptr .. => spScalar U .npdot a b
  | .ptr .., .sym _ => spScalar U .npdot a b
  | .ptr _ _ l, .num => spDotArr a b l
  | .ptr _ _ l, .npnum => spDotArr a b l
  | .ptr _ _ l, .arr _ => spDotArr a b l
  | .ptr .., .dyn .. => swapRes (dynDot U b a)              -- other.dot(self)
  | .ptr .., .mod _ => modR (dynDot U) a b
  | .sym _, .sym _ => symDot U a b
  | .sym _, _ => .ok (a, b, .ni)
  | .dyn .., .arr _ => .error .typeErr
  | .dyn .., .mod _ => .ok (a, b, .ni)
  | .dyn .., _ => dynDot U a b
  | .mod _, .arr _ => .error .spaType
  | .mod _, _ => modL (dynDot U) a b
  | _, _ => .ok (a, b, .foreign)

/-- `b.rdot(a)` where it exists (`PointerSymbol`, `DynamicNode`, modules); `none`: no such method -/
def rdotM (U : Univ) (a b : Obj) : Option Res :=
  match b with
  | .sym _ => some (swapRes (dotM U b a))
  | .dyn .. => some (swapRes (dotM U b a))
  | .mod _ => some (swapRes (dotM U b a))
  | _ => none

def isNi : Res → Bool
  | .ok (_, _, .ni) => true
  | _ => false

/-- `a @ b`: `__matmul__` is `dot`; `SemanticPointer` has no `__rmatmul__`. -/
def matmul (U : Univ) (a b : Obj) : Res :=
  if !isSpa a && !isSpa b then .ok (a, b, .foreign) else
  let first : Res := if isSpa a then dotM U a b else .ok (a, b, .ni)
  if !isNi first then first else
  match rdotM U a b with
  | some r => if isNi r then .error .typeErr else r
  | none => .error .typeErr

/-- `nengo_spa.dot(a, b)` (`operators.dot`) -/
def spadot (U : Univ) (a b : Obj) : Res :=
  let first : Res := if isSpa a then dotM U a b else .ok (a, b, .ni)
  if !isNi first then first else
  match rdotM U a b with
  | some r => if isNi r then .error .typeErr else r
  | none => .error .typeErr

/-- `a.compare(b)` / `a.mse(b)` / `a.distance(b)`: methods of `SemanticPointer` only -/
def spMethod (U : Univ) (red : Red) (a b : Obj) : Res :=
  match a, b with
  | .ptr .., .ptr .. => spScalar U red a b
  | .ptr _ _ l, .num => .ok (a, b, .obj (if red = .npsub then .npnum else .arr l))
  | .ptr _ _ l, .npnum => .ok (a, b, .obj (if red = .npsub then .npnum else .arr l))
  | .ptr _ _ l, .arr n => if redLen red l n then .ok (a, b, .obj .npnum)
      else .error (if red = .npdot then .valueErr else .spaType)
  | .ptr .., _ => .error .numpy
  | .sym _, _ => .error .attrErr
  | .dyn .., _ => .error .attrErr
  | .mod _, _ => .error .attrErr
  | _, _ => .ok (a, b, .foreign)

/-- `a >> b`: only a module on the right has `__rrshift__`; `as_ast_node(a) >> as_sink(b)`,
`ModuleInput.__rrshift__`: `infer_types(sink, source)`, then `source.connect_to(sink.input)`. -/
def rshift (U : Univ) (a b : Obj) : Res :=
  match a, b with
  | .arr _, .mod _ => .error .spaType           -- as_ast_node(array)
  | _, .mod t => do
      let src := asDyn a
      let (_, _, s') ← infer U (.mod t) src
      late (if isMod a then a else s') b do
        match tyWidth U t with
        | some n => connect U s' n
        | none => .error .connect
        pure .unit
  | .mod _, _ => .error .spaType                -- as_sink(non-module)
  | _, _ => if isSpa a || isSpa b then .error .typeErr else .ok (a, b, .foreign)

def binop (U : Univ) : BinOp → Obj → Obj → Res
  | .add => add U
  | .sub => sub U
  | .mul => mul U
  | .matmul => matmul U
  | .dot => dotM U
  | .compare => spMethod U .npcmp
  | .mse => spMethod U .npsub
  | .distance => spMethod U .npcmp
  | .spadot => spadot U
  | .rshift => rshift U

/-- `DynamicNode.reinterpret(vocab)`: `Transformed(self, eye(self.type.dimensions), …)`; the target
vocabulary's dimensionality is not checked here (a mismatch fails when connected). -/
def reinterpNode (U : Univ) (t : Ty) (g : Bool) (tgt : Option Nat) : Except Err Obj :=
  match C11.Impl.dimsOf U.dim t with
  | some d => .ok (.dyn (match tgt with | none => .anyDim d | some w => .vocab w)
      (g && (match tgt with | none => true | some w => U.dim w == d)))
  | none => .error .attrErr

/-- `nengo_spa.reinterpret(a, vocab)` -/
def reinterpret (U : Univ) (a : Obj) (tgt : Option Nat) : Except Err Obj :=
  match a with
  | .ptr _ alg l => .ok (.ptr tgt (match tgt with | none => alg | some v => U.valg v) l)
  | .sym (.vocab v) => .ok (.ptr tgt (match tgt with | none => U.valg v | some w => U.valg w) (U.dim v))
  | .sym _ => .error .spaType
  | .dyn t g => reinterpNode U t g tgt
  | .mod t => reinterpNode U t true tgt
  | _ => .error .typeErr

/-- `nengo_spa.translate(a, vocab)` -/
def translate (U : Univ) (a : Obj) (tgt : Nat) : Except Err Obj :=
  match a with
  | .ptr (some _) _ _ => .ok (.ptr (some tgt) (U.valg tgt) (U.dim tgt))
  | .ptr none _ _ => .error .attrErr
  | .sym (.vocab _) => .ok (.ptr (some tgt) (U.valg tgt) (U.dim tgt))
  | .sym _ => .error .attrErr
  | .dyn (.vocab _) g => .ok (.dyn (.vocab tgt) g)
  | .dyn _ _ => .error .attrErr
  | .mod (.vocab _) => .ok (.dyn (.vocab tgt) true)
  | .mod _ => .error .attrErr
  | _ => .error .typeErr

/-! ### unary operators and methods -/

/-- `-x`, `~x`, `x.linv()`, `x.rinv()`, `x.normalized()`, `x.unitary()` -/
inductive UnOp where
  | neg | inv | linv | rinv | normalized | unitary
deriving DecidableEq, Repr

/-- the algebra objects of the harness: 0 = HRR, 1 = VTB (no left inverse), 2 = TVTB -/
def noLeftInverse (alg : Nat) : Bool := alg == 1

/-- A unary operator or method creates a NEW object that belongs to the same vocabulary:
`SemanticPointer`: `SemanticPointer(data=…, vocab=self.vocab, algebra=self.algebra, …)`;
`PointerSymbol`: `PointerSymbol(expr, self.type)`; `DynamicNode`: `Transformed(self, transform, self.type)`
(`__neg__`), resp. the inversion matrix of `self.type.vocab.algebra` (needs a vocabulary type; dynamic
nodes have no `normalized`/`unitary`).  VTB refuses the left inverse.  Other operand kinds are not
modelled (the harness applies these to pointers, symbols and nodes only). -/
def unary (U : Univ) (u : UnOp) (a : Obj) : Except Err Obj :=
  match a with
  | .ptr v alg l => if u = .linv ∧ noLeftInverse alg then .error .notImpl else .ok (.ptr v alg l)
  | .sym t => .ok (.sym t)
  | .dyn t g =>
    match u with
    | .neg => .ok (.dyn t g)
    | .normalized => .error .attrErr
    | .unitary => .error .attrErr
    | _ =>
      match t with
      | .vocab v => if u = .linv ∧ noLeftInverse (U.valg v) then .error .notImpl else .ok (.dyn t g)
      | _ => .error .spaType
  | _ => .error .badRef

/-! ### worlds and histories -/

/-- The objects of a program; `none`: the slot of an operation that produced no object. -/
abbrev World := List (Option Obj)

inductive Op where
  | bin (k : BinOp) (i j : Nat)
  | reinterp (i : Nat) (tgt : Option Nat)
  | translate (i : Nat) (tgt : Nat)
  | unary (u : UnOp) (i : Nat)
deriving DecidableEq, Repr

def get (w : World) (i : Nat) : Except Err Obj :=
  match w[i]? with
  | some (some o) => .ok o
  | _ => .error .badRef

def slotOf : Val → Option Obj
  | .obj o => some o
  | _ => none

/-- One operation: operands are looked up, the updated descriptors written back, and exactly one
slot is appended (the new object, or `none`). -/
def step (U : Univ) (w : World) : Op → World × Except Err Val
  | .bin k i j =>
    match get w i, get w j with
    | .ok a, .ok b =>
      match binop U k a b with
      | .ok (a', b', .raised e) => (((w.set i (some a')).set j (some b')) ++ [none], .error e)
      | .ok (a', b', v) => (((w.set i (some a')).set j (some b')) ++ [slotOf v], .ok v)
      | .error e => (w ++ [none], .error e)
    | _, _ => (w ++ [none], .error .badRef)
  | .reinterp i tgt =>
    match get w i with
    | .ok a =>
      match reinterpret U a tgt with
      | .ok o => (w ++ [some o], .ok (.obj o))
      | .error e => (w ++ [none], .error e)
    | .error e => (w ++ [none], .error e)
  | .translate i tgt =>
    match get w i with
    | .ok a =>
      match translate U a tgt with
      | .ok o => (w ++ [some o], .ok (.obj o))
      | .error e => (w ++ [none], .error e)
    | .error e => (w ++ [none], .error e)
  | .unary u i =>
    match get w i with
    | .ok a =>
      match unary U u a with
      | .ok o => (w ++ [some o], .ok (.obj o))
      | .error e => (w ++ [none], .error e)
    | .error e => (w ++ [none], .error e)

/-- a history: the operations in order, with their outcomes -/
def run (U : Univ) (w : World) : List Op → World × List (Except Err Val)
  | [] => (w, [])
  | op :: ops =>
    let (w', r) := step U w op
    let (w'', rs) := run U w' ops
    (w'', r :: rs)

end Impl

namespace Spec

/-- The operand types have an upper bound among themselves (C11): one of the two types is at
least as specific as the other. -/
def Bounded (U : Univ) (a b : Obj) : Prop :=
  ∃ r, C11.Spec.IsGreatest U.dim [Impl.ty a, Impl.ty b] r

/-- two vocabulary-less pointers -/
def BothBare : Obj → Obj → Prop
  | .ptr none _ _, .ptr none _ _ => True
  | _, _ => False

def SameAlg : Obj → Obj → Prop
  | .ptr _ x _, .ptr _ y _ => x = y
  | _, _ => True

def isArr : Obj → Bool
  | .arr _ => true
  | _ => false

/-- the operators for which a bare array operand must be refused (`dot`/`compare`/`mse` accept
array-likes by documented design) -/
def arith : BinOp → Bool
  | .add | .sub | .mul | .rshift => true
  | _ => false

/-- a value was produced -/
def isValue : Val → Bool
  | .obj _ => true
  | .fscalar => true
  | .unit => true
  | _ => false

end Spec

/-- the operand is a `SemanticPointer` -/
def IsPtr : Obj → Prop
  | .ptr .. => True
  | _ => False

/-- the operand slots of a result: pointers are handed back unchanged -/
def Keeps (a b : Obj) (r : Res) : Prop :=
  ∀ a' b' v, r = .ok (a', b', v) → (IsPtr a → a' = a) ∧ (IsPtr b → b' = b)

/-- slot `i` of the world holds the Semantic Pointer `p` -/
def PtrAt (w : Impl.World) (i : Nat) (p : Obj) : Prop := IsPtr p ∧ w[i]? = some (some p)

/-- example universe: vocabularies #0, #1: d = 4 (HRR = algebra 0); #2: d = 9; #3: d = 4 with algebra 1 (VTB) -/
def exU : Univ := { dim := fun v => if v = 2 then 9 else 4, valg := fun v => if v = 3 then 1 else 0 }

end C03

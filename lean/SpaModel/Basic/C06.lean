/-
C06 — model of the expression-tree printer (`nengo_spa/ast/expr_tree.py`), of the
trees built by `PointerSymbol` (`nengo_spa/ast/symbolic.py`) and by the automatic
names of `SemanticPointer` (`nengo_spa/semantic_pointer.py`).  Core Lean only.

`Impl.*` follows the code: the precedence numbers are looked up in the GENERATED
copy of `expr_tree.precedence` (`Generated.precedence`), the parenthesisation
decisions are the ones of `UnaryOperator.__str__`, `BinaryOperator.lhs_needs_parens`
/ `rhs_needs_parens`, `AttributeAccess.__str__`, `FunctionCall.__str__`.

`Spec.*` is (1) the stratified expression grammar of the Python language reference
(section 6 "Expressions"; `term: term '@' factor` as in CPython's grammar file)
for exactly the operators of the table that are unary/binary operators, attribute
access, call without arguments and the parenthesised atom, and (2) the evaluation
of a tree by Python's operators on Semantic Pointers / numbers over an arbitrary
algebra of values, together with the *direct* meaning of an operator expression.
-/
import SpaModel.Generated.Tables

namespace C06

/-! ### operators of the table that are Python unary / binary operators -/

/-- binary operators (`BinaryOperator.value`) -/
inductive BOp where
  | or_ | and_
  | in_ | notIn | is_ | isNot | lt | le | gt | ge | ne | eq
  | bor | bxor | band | shl | shr | add | sub | mul | matmul | div | floordiv | mod | pow
deriving DecidableEq, Repr

/-- prefix operators (`UnaryOperator.value`; `not` is written `"not "` so that the
printed text is `value + operand` and the table key is `value + "x"`) -/
inductive UOp where
  | not_ | pos | neg | inv
deriving DecidableEq, Repr

def BOp.sym : BOp → String
  | .or_ => "or" | .and_ => "and"
  | .in_ => "in" | .notIn => "not in" | .is_ => "is" | .isNot => "is not"
  | .lt => "<" | .le => "<=" | .gt => ">" | .ge => ">=" | .ne => "!=" | .eq => "=="
  | .bor => "|" | .bxor => "^" | .band => "&" | .shl => "<<" | .shr => ">>"
  | .add => "+" | .sub => "-" | .mul => "*" | .matmul => "@" | .div => "/"
  | .floordiv => "//" | .mod => "%" | .pow => "**"

def UOp.sym : UOp → String
  | .not_ => "not " | .pos => "+" | .neg => "-" | .inv => "~"

def BOp.all : List BOp :=
  [.or_, .and_, .in_, .notIn, .is_, .isNot, .lt, .le, .gt, .ge, .ne, .eq,
   .bor, .bxor, .band, .shl, .shr, .add, .sub, .mul, .matmul, .div, .floordiv, .mod, .pow]

def UOp.all : List UOp := [.not_, .pos, .neg, .inv]

/-! ### tokens and trees -/

/-- Tokens of the printed text.  `bop o true` is rendered `" o "` (the printer's
`f"{lhs} {value} {rhs}"`), `bop o false` is the same token written without blanks
(inside `sym('...')` text, whose white space is removed).  Blanks carry no meaning
in the grammar. -/
inductive Tok where
  | id (s : String)
  | num (s : String)
  | bop (o : BOp) (spaced : Bool)
  | uop (o : UOp)
  | dot | lp | rp
deriving DecidableEq, Repr

/-- content of a `Leaf`: an identifier, or the text of a number (`str`/`repr` of an
`int`/`float`): sign and magnitude literal -/
inductive LeafKind where
  | id (s : String)
  | num (negative : Bool) (mag : String)
deriving DecidableEq, Repr

/-- `expr_tree.Node` subclasses.  `quoted ts u` is the `Leaf("(" + text + ")")` made
by `sym('text')`: `ts` are the tokens of the user's text and `u` (ghost) the tree
that text denotes. -/
inductive Tree where
  | leaf (k : LeafKind)
  | quoted (ts : List Tok) (u : Tree)
  | un (o : UOp) (c : Tree)
  | bin (o : BOp) (l r : Tree)
  | attr (name : String) (c : Tree)
  | call (c : Tree)
deriving Repr

namespace Impl

/-- `precedence[key]` in the generated table (0 would be the level of `:=`; every key
used below is shown to be present: `Props.key_present`). -/
def precKey (k : String) : Nat := (Generated.precedence.lookup k).getD 0

/-- `BinaryOperator.__new__`: `precedence[value]` -/
def precB (o : BOp) : Nat := precKey o.sym
/-- `UnaryOperator.__new__`: `precedence[value + "x"]` -/
def precU (o : UOp) : Nat := precKey (o.sym ++ "x")

/-- the `precedence` field of a node -/
def prec : Tree → Nat
  | .leaf _ => precKey "(expressions...)"
  | .quoted _ _ => precKey "(expressions...)"
  | .un o _ => precU o
  | .bin o _ _ => precB o
  | .attr _ _ => precKey "x.attribute"
  | .call _ => precKey "x(arguments...)"

/-- `f"({operand})"` -/
def paren (ts : List Tok) : List Tok := .lp :: ts ++ [.rp]

def wrap (b : Bool) (ts : List Tok) : List Tok := if b then paren ts else ts

/-- `BinaryOperator.lhs_needs_parens` -/
def lhsNeedsParens (o : BOp) (l : Tree) : Bool :=
  if o.sym == "**" || precB o == precKey "==" then
    decide (precB o ≥ prec l)
  else
    decide (precB o > prec l)

/-- `BinaryOperator.rhs_needs_parens` -/
def rhsNeedsParens (o : BOp) (r : Tree) : Bool :=
  if o.sym == "**" then decide (precB o > prec r) else decide (precB o ≥ prec r)

/-- `Leaf.__str__` -/
def printLeaf : LeafKind → List Tok
  | .id s => [.id s]
  | .num false m => [.num m]
  | .num true m => [.uop .neg, .num m]          -- the text "-" ++ m

/-- `__str__` of the node classes -/
def print : Tree → List Tok
  | .leaf k => printLeaf k
  | .quoted ts _ => paren ts
  | .un o c => .uop o :: wrap (decide (precU o ≥ prec c)) (print c)
  | .bin o l r =>
      wrap (lhsNeedsParens o l) (print l) ++ .bop o true :: wrap (rhsNeedsParens o r) (print r)
  | .attr n c => wrap (decide (precKey "x.attribute" > prec c)) (print c) ++ [.dot, .id n]
  | .call c => wrap (decide (precKey "x(arguments...)" > prec c)) (print c) ++ [.lp, .rp]

/-- the characters of a token -/
def renderTok : Tok → String
  | .id s => s
  | .num s => s
  | .bop o true => " " ++ o.sym ++ " "
  | .bop o false => o.sym
  | .uop o => o.sym
  | .dot => "."
  | .lp => "("
  | .rp => ")"

def render (ts : List Tok) : String := String.join (ts.map renderTok)

/-- `str(tree)` -/
def str (t : Tree) : String := render (print t)

end Impl

/-! ### operator expressions (what the user writes) -/

/-- a Python number as its literal text (sign, magnitude) -/
structure NumLit where
  negative : Bool
  mag : String
deriving DecidableEq, Repr

/-- Expressions over symbols / Semantic Pointers. -/
inductive E where
  | sym (name : String)                 -- `sym.A` resp. `vocab['A']`
  | text (ts : List Tok) (u : Tree)     -- `sym('...')` (symbols only)
  | add (a b : E) | sub (a b : E) | mul (a b : E)
  | neg (a : E) | inv (a : E)
  | scaleR (a : E) (x : NumLit)         -- `a * x`
  | scaleL (x : NumLit) (a : E)         -- `x * a`
  | divn (a : E) (x : NumLit)           -- `a / x`
  | pow (a : E) (x : NumLit)            -- `a ** x` (Semantic Pointers only)
  | meth (m : String) (a : E)           -- `.normalized()`, `.unitary()`, `.linv()`, `.rinv()`
  | copy (a : E)                        -- `.copy()`, `.reinterpret(v)`, `.translate(v)` (pointers only)
deriving Repr

namespace Impl

def numLeaf (x : NumLit) : Tree := .leaf (.num x.negative x.mag)

/-- `PointerSymbol._method_call` / `SemanticPointer._get_method_name` -/
def methodCall (m : String) (t : Tree) : Tree := .call (.attr m t)

/-- The `_expr_tree` of a `PointerSymbol` expression (`nengo_spa/ast/symbolic.py`).
`none`: the operation does not exist on symbols (`**`, `copy`: `TypeError` /
`AttributeError`). -/
def symTree : E → Option Tree
  | .sym s => some (.leaf (.id s))                              -- PointerSymbolFactory.__getattribute__
  | .text ts u => some (.quoted ts u)                           -- PointerSymbolFactory.__call__
  | .add a b => do some (.bin .add (← symTree a) (← symTree b))  -- __add__
  | .sub a b => do some (.bin .sub (← symTree a) (← symTree b))  -- __sub__
  | .mul a b => do some (.bin .mul (← symTree a) (← symTree b))  -- __mul__
  | .neg a => do some (.un .neg (← symTree a))                  -- __neg__
  | .inv a => do some (.un .inv (← symTree a))                  -- __invert__
  | .scaleR a x => do some (.bin .mul (← symTree a) (numLeaf x))    -- __mul__, FixedScalar._expr_tree
  | .scaleL x a => do some (.bin .mul (numLeaf x) (← symTree a))    -- __rmul__
  | .divn a x => do some (.bin .div (← symTree a) (numLeaf x))      -- __truediv__
  | .pow _ _ => none
  | .meth m a => do some (methodCall m (← symTree a))            -- normalized/unitary/linv/rinv
  | .copy _ => none

/-- the method name written into a pointer's automatic name: `linv()` labels itself
`"rinv"` (`SemanticPointer.linv`: `name=self._get_method_name("rinv")`). -/
def nameOfMethod (m : String) : String := if m == "linv" then "rinv" else m

/-- The `_expr_tree` (automatic name) of a `SemanticPointer` expression when no
ellipsis is inserted (`nengo_spa/semantic_pointer.py`).  `none`: not an operation on
pointers. -/
def nameTree : E → Option Tree
  | .sym s => some (.leaf (.id s))                               -- Vocabulary.__getitem__: name=key
  | .text _ _ => none
  | .add a b => do some (.bin .add (← nameTree a) (← nameTree b))   -- _add, swap=False
  | .sub a b => do some (.bin .add (← nameTree a) (.un .neg (← nameTree b)))  -- __sub__: self + (-other)
  | .mul a b => do some (.bin .mul (← nameTree a) (← nameTree b))   -- _bind, swap=False
  | .neg a => do some (.un .neg (← nameTree a))
  | .inv a => do some (.un .inv (← nameTree a))
  | .scaleR a x => do some (.bin .mul (← nameTree a) (numLeaf x))   -- _mul, Leaf(str(number))
  | .scaleL x a => do some (.bin .mul (numLeaf x) (← nameTree a))   -- _mul, swap=True
  | .divn a x => do some (.bin .div (← nameTree a) (numLeaf x))
  | .pow a x => do some (.bin .pow (← nameTree a) (numLeaf x))
  | .meth m a => do some (methodCall (nameOfMethod m) (← nameTree a))
  | .copy a => nameTree a                                         -- name=self._expr_tree

end Impl

namespace Spec

/-! ### the grammar -/

/-! Levels of the reference grammar, lowest binding first:
`or_test`, `and_test`, `not_test`, `comparison`, `or_expr`, `xor_expr`, `and_expr`,
`shift_expr`, `a_expr`, `m_expr`, `u_expr`, `power`, `await_expr`, `primary`, `atom`
(plain `Nat`s, so that `omega` sees them). -/
abbrev L.or_ : Nat := 0
abbrev L.and_ : Nat := 1
abbrev L.not_ : Nat := 2
abbrev L.cmp : Nat := 3
abbrev L.bor : Nat := 4
abbrev L.bxor : Nat := 5
abbrev L.band : Nat := 6
abbrev L.shift : Nat := 7
abbrev L.arith : Nat := 8
abbrev L.term : Nat := 9
abbrev L.unary : Nat := 10
abbrev L.power : Nat := 11
abbrev L.await : Nat := 12
abbrev L.primary : Nat := 13
abbrev L.atom : Nat := 14

inductive Cls where
  | left   -- `X ::= Y | X op Y` (left recursive)
  | cmp    -- `comparison ::= or_expr (comp_operator or_expr)*`, here with exactly one operator
  | pow    -- `power ::= (await_expr | primary) ["**" u_expr]`
deriving DecidableEq, Repr

def cls : BOp → Cls
  | .pow => .pow
  | .in_ | .notIn | .is_ | .isNot | .lt | .le | .gt | .ge | .ne | .eq => .cmp
  | _ => .left

/-- the grammar level at which the operator's production sits -/
def levelB : BOp → Nat
  | .or_ => L.or_ | .and_ => L.and_
  | .in_ | .notIn | .is_ | .isNot | .lt | .le | .gt | .ge | .ne | .eq => L.cmp
  | .bor => L.bor | .bxor => L.bxor | .band => L.band
  | .shl | .shr => L.shift
  | .add | .sub => L.arith
  | .mul | .matmul | .div | .floordiv | .mod => L.term
  | .pow => L.power

def levelU : UOp → Nat
  | .not_ => L.not_
  | _ => L.unary

/-- the level of the production that yields the node.  A negative number leaf is
text of the form `-NUMBER`, which the grammar reads at the `u_expr` level. -/
def level : Tree → Nat
  | .leaf (.num true _) => L.unary
  | .leaf _ => L.atom
  | .quoted _ _ => L.atom
  | .un o _ => levelU o
  | .bin o _ _ => levelB o
  | .attr _ _ => L.primary
  | .call _ => L.primary

/-- `Derives l ts t`: the token list `ts` is an expression of grammar level `l`
whose parse tree is `t`. -/
inductive Derives : Nat → List Tok → Tree → Prop where
  /-- `atom ::= identifier` -/
  | ident (s : String) : Derives L.atom [.id s] (.leaf (.id s))
  /-- `atom ::= literal` -/
  | number (m : String) : Derives L.atom [.num m] (.leaf (.num false m))
  /-- `u_expr ::= "-" u_expr` applied to a literal: the constant `-m`
  (the leaf `Leaf("-m")` is identified with the negation of the literal `m`) -/
  | negNumber (m : String) : Derives L.unary [.uop .neg, .num m] (.leaf (.num true m))
  /-- `atom ::= "(" expression ")"` -/
  | group {ts t} : Derives L.or_ ts t → Derives L.atom (.lp :: ts ++ [.rp]) t
  /-- the same production for the text of `sym('...')`, whose node is a `Leaf` -/
  | quotedGroup {ts u} : Derives L.or_ ts u → Derives L.atom (.lp :: ts ++ [.rp]) (.quoted ts u)
  /-- every level contains the next one (`or_test ::= and_test | …`, …, `primary ::= atom | …`) -/
  | up {l ts t} : Derives (l + 1) ts t → Derives l ts t
  /-- `primary ::= primary "." identifier` -/
  | attr {ts c} (n : String) : Derives L.primary ts c → Derives L.primary (ts ++ [.dot, .id n]) (.attr n c)
  /-- `primary ::= primary "(" ")"` -/
  | call {ts c} : Derives L.primary ts c → Derives L.primary (ts ++ [.lp, .rp]) (.call c)
  /-- `not_test ::= "not" not_test` -/
  | not_ {ts c} : Derives L.not_ ts c → Derives L.not_ (.uop .not_ :: ts) (.un .not_ c)
  /-- `u_expr ::= "-" u_expr | "+" u_expr | "~" u_expr` -/
  | unary {ts c} (o : UOp) : o ≠ .not_ → Derives L.unary ts c → Derives L.unary (.uop o :: ts) (.un o c)
  /-- left-recursive binary levels: `X ::= X op Y` with `Y` the next level -/
  | binLeft {ts₁ ts₂ l r} (o : BOp) (sp : Bool) : cls o = .left →
      Derives (levelB o) ts₁ l → Derives (levelB o + 1) ts₂ r →
      Derives (levelB o) (ts₁ ++ .bop o sp :: ts₂) (.bin o l r)
  /-- one comparison (no chain): both operands are `or_expr` -/
  | binCmp {ts₁ ts₂ l r} (o : BOp) (sp : Bool) : cls o = .cmp →
      Derives L.bor ts₁ l → Derives L.bor ts₂ r →
      Derives L.cmp (ts₁ ++ .bop o sp :: ts₂) (.bin o l r)
  /-- `power ::= (await_expr | primary) "**" u_expr` -/
  | binPow {ts₁ ts₂ l r} (sp : Bool) :
      Derives L.await ts₁ l → Derives L.unary ts₂ r →
      Derives L.power (ts₁ ++ .bop .pow sp :: ts₂) (.bin .pow l r)

/-- the level the grammar requires of the left / right operand of a binary operator -/
def lhsLevel (o : BOp) : Nat :=
  match cls o with
  | .left => levelB o
  | .cmp => L.bor
  | .pow => L.await

def rhsLevel (o : BOp) : Nat :=
  match cls o with
  | .left => levelB o + 1
  | .cmp => L.bor
  | .pow => L.unary

/-- a negative number leaf (text `-m` in a node that claims atom precedence) -/
def isNegNum : Tree → Bool
  | .leaf (.num true _) => true
  | _ => false

/-- any number leaf (a number directly followed by `.` would be read as a float prefix) -/
def isNumLeaf : Tree → Bool
  | .leaf (.num _ _) => true
  | _ => false

/-- keyword operators need blanks around them; `sym('...')` removes all blanks -/
def isKeywordTok : Tok → Bool
  | .bop .or_ _ | .bop .and_ _ | .bop .in_ _ | .bop .notIn _ | .bop .is_ _ | .bop .isNot _ => true
  | .uop .not_ => true
  | _ => false

/-- Trees the library builds: a negative number leaf never is the left operand of
`**` nor the function of a call, no number leaf is the object of an attribute access
(numbers only arise as the right operand of `*`, `/`, `**` and as the left operand of
`*`), and the text of a `sym('...')` leaf is an expression (without keyword operators)
denoting its ghost tree. -/
def WF : Tree → Prop
  | .leaf _ => True
  | .quoted ts u => Derives L.or_ ts u ∧ (∀ tk ∈ ts, isKeywordTok tk = false)
  | .un _ c => WF c
  | .bin o l r => WF l ∧ WF r ∧ (o = .pow → isNegNum l = false)
  | .attr _ c => WF c ∧ isNumLeaf c = false
  | .call c => WF c ∧ isNegNum c = false

/-! ### evaluation -/

/-- The operations of Semantic Pointers (`P`) and numbers (`N`) that Python's
operators dispatch to; every one may raise (`none`).  Arbitrary: the theorems hold
for every algebra. -/
structure Ops (P N : Type) where
  add : P → P → Option P          -- SemanticPointer._add
  neg : P → Option P              -- __neg__
  bind : P → P → Option P         -- _bind
  scale : P → N → Option P        -- _mul with a number (either side)
  divn : P → N → Option P         -- __truediv__
  inv : P → Option P              -- __invert__
  power : P → N → Option P        -- __pow__
  meth : String → P → Option P    -- normalized / unitary / linv / rinv
  lit : String → N                -- value of a number literal
  negN : N → N                    -- negation of a number

inductive Val (P N : Type) where
  | p (x : P)
  | n (x : N)

variable {P N : Type}

def numVal (ops : Ops P N) (x : NumLit) : N :=
  if x.negative then ops.negN (ops.lit x.mag) else ops.lit x.mag

/-- `SemanticPointer.__sub__`: `self + (-other)` -/
def Ops.sub (ops : Ops P N) (a b : P) : Option P := do ops.add a (← ops.neg b)

/-- Python's evaluation of the parse tree with the vocabulary `ρ` as name space
(`Vocabulary.parse`: `eval(text, {}, vocab)`), operands before operator, left
before right.  `none`: an exception, or a form outside the universe. -/
def evalTree (ops : Ops P N) (ρ : String → Option P) : Tree → Option (Val P N)
  | .leaf (.id s) => (ρ s).map .p
  | .leaf (.num false m) => some (.n (ops.lit m))
  | .leaf (.num true m) => some (.n (ops.negN (ops.lit m)))
  | .quoted _ u => evalTree ops ρ u
  | .un .neg c => do
      match ← evalTree ops ρ c with
      | .p a => (ops.neg a).map .p
      | .n x => some (.n (ops.negN x))
  | .un .inv c => do
      match ← evalTree ops ρ c with
      | .p a => (ops.inv a).map .p
      | .n _ => none
  | .un _ _ => none
  | .bin o l r => do
      let a ← evalTree ops ρ l
      let b ← evalTree ops ρ r
      match o, a, b with
      | .add, .p a, .p b => (ops.add a b).map .p
      | .sub, .p a, .p b => (ops.sub a b).map .p
      | .mul, .p a, .p b => (ops.bind a b).map .p
      | .mul, .p a, .n x => (ops.scale a x).map .p     -- __mul__
      | .mul, .n x, .p a => (ops.scale a x).map .p     -- __rmul__
      | .div, .p a, .n x => (ops.divn a x).map .p
      | .pow, .p a, .n x => (ops.power a x).map .p
      | _, _, _ => none
  | .call (.attr m c) => do
      match ← evalTree ops ρ c with
      | .p a => (ops.meth m a).map .p
      | .n _ => none
  | .call _ => none
  | .attr _ _ => none

/-- The direct meaning of an operator expression: the same operations with the
same nesting applied to the vocabulary's pointers. -/
def den (ops : Ops P N) (ρ : String → Option P) : E → Option P
  | .sym s => ρ s
  | .text _ u => do
      match ← evalTree ops ρ u with
      | .p a => some a
      | .n _ => none
  | .add a b => do let x ← den ops ρ a; let y ← den ops ρ b; ops.add x y
  | .sub a b => do let x ← den ops ρ a; let y ← den ops ρ b; ops.sub x y
  | .mul a b => do let x ← den ops ρ a; let y ← den ops ρ b; ops.bind x y
  | .neg a => do ops.neg (← den ops ρ a)
  | .inv a => do ops.inv (← den ops ρ a)
  | .scaleR a x => do ops.scale (← den ops ρ a) (numVal ops x)
  | .scaleL x a => do ops.scale (← den ops ρ a) (numVal ops x)
  | .divn a x => do ops.divn (← den ops ρ a) (numVal ops x)
  | .pow a x => do ops.power (← den ops ρ a) (numVal ops x)
  | .meth m a => do ops.meth m (← den ops ρ a)
  | .copy a => den ops ρ a

/-- the `sym('...')` texts of an expression are expressions without keyword operators -/
def EWF : E → Prop
  | .sym _ => True
  | .text ts u => Derives L.or_ ts u ∧ (∀ tk ∈ ts, isKeywordTok tk = false)
  | .add a b | .sub a b | .mul a b => EWF a ∧ EWF b
  | .neg a | .inv a | .scaleR a _ | .scaleL _ a | .divn a _ | .pow a _ | .meth _ a | .copy a => EWF a

end Spec
end C06

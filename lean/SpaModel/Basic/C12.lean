/-
C12 — model of `make_unitary` and `binding_power` of the three shipped algebras
(nengo_spa/algebras/{hrr,vtb,tvtb}_algebra.py), of the generic default
`AbstractAlgebra.binding_power` (base.py), on top of the shared algebra layer
`SpaModel/Basic/Algebra.lean`.

`Impl.*` follows the code paths that run in this environment (NO SciPy: VTB/TVTB
integer powers go through the built-in fallback loop, fractional ones raise
ImportError before anything else).  `Spec.*` is the property's own vocabulary:
dot product, "unitary", the n-fold left-nested binding.

Modelled, not verified (tied numerically by harness/c12.py):
* `HrrAlgebra.binding_power` computes `irfft(rfft(v) ** |e|)`; for integer `e` the model
  is the |e|-fold product in the convolution ring (`Alg.Hrr.Impl.zpow`).  For fractional
  `e` the model only says *accepted* (`PowRes.spectral`).
* `HrrAlgebra.make_unitary` works on the HALF spectrum: `f = rfft(v)`, every coefficient
  divided by its modulus, coefficients with modulus `<= 0.0` (exact zeros) replaced by `1`,
  result `irfft(f / |f|, n=len(v))` — conjugate symmetry holds by construction, so the
  result is unitary also where a coefficient vanishes only up to rounding (it then gets an
  arbitrary unit phase).  It is total (never raises).  Being defined through the spectrum it
  is NOT modelled here: its outputs are certified per input by the correspondence check
  (exact residual of `Spec.Hrr.IsUnitary` computed by the driver from the transported output).
* `np.linalg.solve(A, y)` in VTB/TVTB `make_unitary` is a relation: whatever it returns
  satisfies `A x = y` (it raises `LinAlgError` for a singular `A`).
* `np.linalg.norm(row)` is a number `n` with `n*n = Σ row²`; division by `n`, by
  `sqrt(sub_d)`, is multiplication with an inverse (`n * ninv = 1`, `s * sinv = 1`).
-/
import SpaModel.Basic.Algebra
import Mathlib.Algebra.Order.Ring.Defs
import Mathlib.Algebra.Field.Defs

open Matrix

namespace C12
open Alg

variable {R : Type*} [CommRing R]

/-! ## Spec: the property's vocabulary -/
namespace Spec

/-- Euclidean dot product of two vectors over any finite index type -/
def dot {ι : Type*} [Fintype ι] (a b : ι → R) : R := ∑ i, a i * b i

/-- squared Euclidean norm -/
def normSq {ι : Type*} [Fintype ι] (a : ι → R) : R := dot a a

/-- `nfold bind v n` is the `(n+1)`-fold left-nested binding `((v*v)*v)…*v` -/
def nfold {α : Type*} (bind : α → α → α) (v : α) : ℕ → α
  | 0 => v
  | n + 1 => bind (nfold bind v n) v

/-- HRR: `u ⊛ ~u = δ` -/
def Hrr.IsUnitary {k : ℕ} (u : Hrr.Vec k R) : Prop :=
  Hrr.Impl.bind u (Hrr.Impl.invert u) = Hrr.Impl.identity k

/-- VTB/TVTB: the rows of the `m×m` matrix of `u` are orthogonal with squared length `1/m`;
`s` stands for `sqrt(m)` (so `s*s = m`): `(s*s) • (U Uᵀ) = 1`. -/
def Mat.IsUnitary {m : ℕ} (s : R) (u : Vec2 m R) : Prop :=
  (s * s) • (toMat u * (toMat u)ᵀ) = 1

end Spec

/-! ## Impl -/

/-- the ways `binding_power` refuses -/
inductive PowErr where
  | valueError        -- ValueError (fractional exponent, sign not positive / generic default)
  | importError       -- ImportError/ModuleNotFoundError: fractional VTB/TVTB power without SciPy
  | notImplemented    -- generic default on an algebra without left identity
deriving DecidableEq, Repr

/-- result of `binding_power` -/
inductive PowRes (α : Type*) where
  | value (v : α)
  /-- accepted; the value is defined through the spectrum (FFT resp. SciPy's
  `fractional_matrix_power`) and is not modelled here -/
  | spectral
  | refused (e : PowErr)

/-- `int(exponent) != exponent` for an exponent that is a float or an int (an exact rational) -/
def isFractional (e : ℚ) : Bool := e.den != 1

/-! ### materialisation (evaluation strategy only)

Vectors and matrices of the model are functions; a recursion over functions re-evaluates
its predecessor at every index (exponential in the exponent).  `thaw (Array.ofFn f)` is `f`
(`Props`: `thaw_ofFn`, `thawM_freezeM`), evaluated once. -/
def thaw {k : ℕ} (a : Array R) : Hrr.Vec k R := fun i => a.getD i.val 0
def freezeM {m : ℕ} (M : Matrix (Fin m) (Fin m) R) : Array (Array R) :=
  Array.ofFn fun i => Array.ofFn fun j => M i j
def thawM {m : ℕ} (a : Array (Array R)) : Matrix (Fin m) (Fin m) R :=
  Matrix.of fun i j => (a.getD i.val #[]).getD j.val 0

namespace Impl

/-! ### HRR -/
namespace Hrr
open Alg.Hrr

/-- `self.sign(v).is_positive()`: `HrrSign(sgn dc, sgn nyquist)` with `nyquist = 0` for odd `d`
and a zero Nyquist sign replaced by the DC sign; positive iff `dc_sign > 0 ∧ nyquist_sign >= 0`.
(`HrrSign(0, ±1)` raises `ValueError`: also a refusal with the same class.) -/
def isPositive {k : ℕ} [LinearOrder R] (v : Vec k R) : Bool :=
  decide (0 < Alg.Hrr.Impl.dc v) && (decide ((k + 1) % 2 = 1) || decide (0 ≤ Alg.Hrr.Impl.nyq v))

/-- `Alg.Hrr.Impl.npow` with every intermediate product materialised
(`Props`: `Hrr.zpowF_eq : zpowF v e = Alg.Hrr.Impl.zpow v e`) -/
def npowA {k : ℕ} (v : Vec k R) : ℕ → Array R
  | 0 => Array.ofFn (Alg.Hrr.Impl.identity k)
  | n + 1 => Array.ofFn (Alg.Hrr.Impl.bind (thaw (npowA v n)) v)

/-- `irfft(rfft(v) ** |e|)` after `v = invert(v)` for `e < 0`: the |e|-fold product -/
def zpowF {k : ℕ} (v : Vec k R) (e : ℤ) : Vec k R :=
  thaw (if e < 0 then npowA (Alg.Hrr.Impl.invert v) e.natAbs else npowA v e.natAbs)

/-- `HrrAlgebra.binding_power(v, e)`; `pos` is the value of `self.sign(v).is_positive()`
(only consulted for fractional exponents: `and` short-circuits):
```
if int(exponent) != exponent and not self.sign(v).is_positive(): raise ValueError
if exponent < 0: v = self.invert(v)
return irfft(rfft(v) ** abs(exponent), n=len(v))
``` -/
def power {k : ℕ} (pos : Bool) (v : Vec k R) (e : ℚ) : PowRes (Vec k R) :=
  if isFractional e && !pos then .refused .valueError
  else if isFractional e then .spectral
  else .value (zpowF v e.num)

end Hrr

/-! ### the integer fallback of `fractional_matrix_power` -/

/-- ```
power = np.eye(len(m))
for _ in range(exp): power = np.dot(power, m)
``` -/
def matPowLoopA {m : ℕ} (M : Matrix (Fin m) (Fin m) R) : ℕ → Array (Array R)
  | 0 => freezeM (1 : Matrix (Fin m) (Fin m) R)
  | n + 1 => freezeM (thawM (matPowLoopA M n) * M)

def matPowLoop {m : ℕ} (M : Matrix (Fin m) (Fin m) R) (n : ℕ) : Matrix (Fin m) (Fin m) R :=
  thawM (matPowLoopA M n)

/-! ### VTB -/
namespace Vtb
open Alg.Vtb

/-- integer part of `VtbAlgebra.binding_power`:
```
if exponent == 0: return self.identity_element(len(v), sidedness=RIGHT)
if exponent < 0: v = self.invert(v, sidedness=RIGHT)
power = fractional_matrix_power(v.reshape((sub_d, sub_d)) * sqrt(sub_d), abs(exponent) - 1).flatten() / sqrt(sub_d)
return self.bind(v, power.real)
``` -/
def intPower {m : ℕ} (s sinv : R) (v : Vec2 m R) (n : ℤ) : Vec2 m R :=
  if n = 0 then Alg.Vtb.Impl.identity m sinv
  else
    let w := if n < 0 then Alg.Vtb.Impl.invert v else v
    let A := matPowLoopA (s • toMat w) (n.natAbs - 1)      -- the loop, run once
    Alg.Vtb.Impl.bind s w (ofMat (sinv • thawM A))

/-- `VtbAlgebra.binding_power(v, e)`.  `scipy`: whether `from scipy.linalg import
fractional_matrix_power` succeeds (it does not here; the `true` branch for fractional
exponents is out of reach).  Order of the gates as coded: import gate, `exponent == 0`,
sign gate, inversion, power. -/
def power {m : ℕ} (scipy pos : Bool) (s sinv : R) (v : Vec2 m R) (e : ℚ) : PowRes (Vec2 m R) :=
  if !scipy && isFractional e then .refused .importError
  else if e = 0 then .value (Alg.Vtb.Impl.identity m sinv)
  else if isFractional e && !pos then .refused .valueError
  else if isFractional e then .spectral
  else .value (intPower s sinv v e.num)

end Vtb

/-! ### TVTB -/
namespace Tvtb
open Alg.Tvtb

/-- integer part of `TvtbAlgebra.binding_power`:
```
if exponent < 0: exponent = abs(exponent); v = self.invert(v)
power = fractional_matrix_power(v.reshape((sub_d, sub_d)) * sqrt(sub_d), exponent).flatten() / sqrt(sub_d)
return power.real
``` (exponent 0: the loop does not run, `eye / sqrt(sub_d)` is the identity element) -/
def intPower {m : ℕ} (s sinv : R) (v : Vec2 m R) (n : ℤ) : Vec2 m R :=
  let w := if n < 0 then Alg.Tvtb.Impl.invert v else v
  let A := matPowLoopA (s • toMat w) n.natAbs
  ofMat (sinv • thawM A)

/-- `TvtbAlgebra.binding_power(v, e)`: import gate, sign gate, inversion, power. -/
def power {m : ℕ} (scipy pos : Bool) (s sinv : R) (v : Vec2 m R) (e : ℚ) : PowRes (Vec2 m R) :=
  if !scipy && isFractional e then .refused .importError
  else if isFractional e && !pos then .refused .valueError
  else if isFractional e then .spectral
  else .value (intPower s sinv v e.num)

end Tvtb

/-! ### the generic default `AbstractAlgebra.binding_power` -/
namespace Generic

/-- ```
power = self.identity_element(len(v), sidedness=LEFT)
for _ in range(abs(exponent)): power = self.bind(power, v)
``` -/
def loop {α : Type*} (bind : α → α → α) (lid : α) (v : α) : ℕ → α
  | 0 => lid
  | n + 1 => bind (loop bind lid v n) v

/-- ```
if not int(exponent) == exponent: raise ValueError
power = left identity (NotImplementedError where the algebra has none); loop;
if exponent < 0: power = self.invert(power)
``` -/
def power {α : Type*} (bind : α → α → α) (lid : Option α) (inv : α → α) (v : α) (e : ℚ) : PowRes α :=
  if isFractional e then .refused .valueError
  else match lid with
    | none => .refused .notImplemented
    | some i =>
      let p := loop bind i v e.num.natAbs
      .value (if e.num < 0 then inv p else p)

end Generic

/-! ### VTB / TVTB `make_unitary` (the two methods are the same text) -/
namespace MU

variable {m : ℕ}

/-- One pass of the row loop for row `i`:
```
y = -np.dot(m[:i, i:], m[i, i:]);  A = m[:i, :i];  m[i, :i] = np.linalg.solve(A, y)
```
Only the entries `(i, c)`, `c < i`, change, and the new ones satisfy `A x = y`
(post-condition of `solve`; for singular `A` it raises `LinAlgError` and there is no `M'`). -/
def Step (i : Fin m) (M M' : Matrix (Fin m) (Fin m) R) : Prop :=
  (∀ r c, (r ≠ i ∨ i ≤ c) → M' r c = M r c) ∧
  (∀ r, r < i → (∑ c with c < i, M r c * M' i c) = -(∑ c with i ≤ c, M r c * M i c))

/-- `Reach M0 j M`: `M` is a state of `for i in range(1, sub_d)` just before row `j` is
processed, started on `M0`. -/
inductive Reach (M0 : Matrix (Fin m) (Fin m) R) : ℕ → Matrix (Fin m) (Fin m) R → Prop
  | start : Reach M0 1 M0
  | step {i : ℕ} {M M' : Matrix (Fin m) (Fin m) R} (hi : i < m) :
      Reach M0 i M → Step ⟨i, hi⟩ M M' → Reach M0 (i + 1) M'

/-- ```
m /= np.linalg.norm(m, axis=1)[:, None];  m /= np.sqrt(sub_d)
``` with `nrm r` the row norms (`nrm r * nrm r = Σ_c M r c²`) and `ninv r` their inverses. -/
def scale (sinv : R) (ninv : Fin m → R) (M : Matrix (Fin m) (Fin m) R) : Vec2 m R :=
  fun p => M p.1 p.2 * ninv p.1 * sinv

/-- `make_unitary(v)` returned `u` (relation: `solve` and `norm` are specified by their
post-conditions). -/
def MakeUnitary (sinv : R) (v u : Vec2 m R) : Prop :=
  ∃ (M : Matrix (Fin m) (Fin m) R) (j : ℕ) (nrm ninv : Fin m → R),
    m ≤ j ∧ Reach (toMat v) j M ∧
    (∀ r, nrm r * nrm r = ∑ c, M r c * M r c) ∧ (∀ r, nrm r * ninv r = 1) ∧
    u = scale sinv ninv M

/-! Executable, self-certifying version for the driver: an untrusted candidate for the
solution of `A x = y` is *checked* before it is used, so the run can be proved to be
an instance of `Reach` without proving the elimination procedure correct. -/

/-- the state after writing `x` into `m[i, :i]` -/
def writeRow (i : Fin m) (x : Fin m → R) (M : Matrix (Fin m) (Fin m) R) : Matrix (Fin m) (Fin m) R :=
  Matrix.of fun r c => if r = i ∧ c < i then x c else M r c

def stepFn [DecidableEq R] (cand : Matrix (Fin m) (Fin m) R → Fin m → Option (Fin m → R)) (i : Fin m)
    (M : Matrix (Fin m) (Fin m) R) : Option (Matrix (Fin m) (Fin m) R) :=
  match cand M i with
  | none => none
  | some x =>
    let M' := writeRow i x M
    if ∀ r, r < i → (∑ c with c < i, M r c * M' i c) = -(∑ c with i ≤ c, M r c * M i c)
    then some M' else none

def runList [DecidableEq R] (cand : Matrix (Fin m) (Fin m) R → Fin m → Option (Fin m → R)) :
    List ℕ → Matrix (Fin m) (Fin m) R → Option (Matrix (Fin m) (Fin m) R)
  | [], M => some M
  | i :: is, M =>
    if h : i < m then
      match stepFn cand ⟨i, h⟩ M with
      | none => none
      | some M' => runList cand is M'
    else none

/-- rows `1 … m-1` in order -/
def run [DecidableEq R] (cand : Matrix (Fin m) (Fin m) R → Fin m → Option (Fin m → R))
    (M0 : Matrix (Fin m) (Fin m) R) : Option (Matrix (Fin m) (Fin m) R) :=
  runList cand (List.range' 1 (m - 1)) M0

end MU

end Impl

/-! ## untrusted helper for the driver: Gaussian elimination on the leading block
(its output is checked by `Impl.MU.stepFn`; nothing is proved about it) -/
namespace Elim
variable {K : Type*} [Field K] [DecidableEq K]

/-- eliminate column by column on an augmented system given as rows; returns the reduced rows
(pivot rows normalised) or `none` when no pivot exists (singular) -/
def reduce (n : ℕ) : (col : ℕ) → (fuel : ℕ) → (done todo : List (List K)) → Option (List (List K))
  | _, 0, done, _ => some done
  | col, fuel + 1, done, todo =>
    if col ≥ n then some done else
    match todo.find? (fun r => r.getD col 0 ≠ 0) with
    | none => none
    | some p =>
      let rest := todo.erase p
      let pv := p.getD col 0
      let pn := p.map (· / pv)
      let elim := fun (r : List K) => List.zipWith (fun a b => a - r.getD col 0 * b) r pn
      reduce n (col + 1) fuel (done.map elim ++ [pn]) (rest.map elim)

/-- solve `A x = y` for the `n×n` system given by rows `A` and right-hand side `y` -/
def solve (n : ℕ) (A : List (List K)) (y : List K) : Option (List K) :=
  match reduce n 0 (n + 1) [] (List.zipWith (fun r b => r ++ [b]) A y) with
  | none => none
  | some rows => some (rows.map fun r => r.getD n 0)

/-- candidate for `np.linalg.solve(m[:i, :i], -np.dot(m[:i, i:], m[i, i:]))` -/
def cand {m : ℕ} (M : Matrix (Fin m) (Fin m) K) (i : Fin m) : Option (Fin m → K) :=
  let idx := (List.finRange m).filter (· < i)
  let A := idx.map fun r => idx.map fun c => M r c
  let y := idx.map fun r => -(∑ c with i ≤ c, M r c * M i c)
  match solve i.val A y with
  | none => none
  | some x => some fun c => x.getD c.val 0

end Elim

end C12

/-
C09 — model of `nengo_spa/vocabulary.py` (`Vocabulary`) as far as the *store* of
a vocabulary is concerned: which keys and vectors it holds after any history of
calls, including calls that fail half-way (core Lean only).

`Impl.*` follows the code paths of `add`, `create_pointer`, `__contains__`,
`__getitem__`, `parse`, `populate`, `create_subset`, `transform_to` and of the
three state components `_key2idx`, `_keys`, `_vectors` (kept as three separate
lists, exactly as the code keeps three separate objects).  The name rules come
from `SpaModel.Generated.Tables` (regenerated from the source on every run).
`Spec.*` is the property's own vocabulary: the abstract state "list of
(key, vector) in insertion order" and the relation "only grows at the end".

Modelled world: two vocabularies `a` (object id 0) and `b` (object id 1), each
with its own scripted pointer generator (the remaining candidates), plus the
transient vocabulary object (id 2) that `create_subset` builds and returns.
Vectors are exact rationals (every float is one).  Algebras are singletons in
the code (`HrrAlgebra() is HrrAlgebra()`), so an algebra is a number; the
special elements `Identity`/`AbsorbingElement` of the algebra are parameters of
the vocabulary record (their values are C07/C10's business), `Zero` is the zero
vector.

Expression fragment understood by `Impl.parseExpr` (what `eval` is given):
`name (+ name)*` with blanks around names; everything else is answered
`Err.unsupported` *without touching the state* and is outside the modelled
fragment (the harness never generates it).  Identifiers are assumed not to be
names of Python built-ins (a strict vocabulary lets `eval` fall through to
them).
-/
import SpaModel.Generated.Tables

namespace C09

abbrev Vec := List Rat

/-- exception class families -/
inductive Err where
  | spaParse        -- SpaParseError
  | validation      -- nengo ValidationError
  | key             -- KeyError
  | stopIteration   -- the scripted generator is exhausted
  | value           -- ValueError (np.dot shape mismatch)
  | attribute       -- AttributeError (unknown transform)
  | syntax          -- SyntaxError
  | notImplemented  -- algebra without absorbing element
  | index           -- IndexError (row missing; unreachable under the invariant)
  | unsupported     -- outside the modelled fragment
deriving DecidableEq, Repr

/-- a `SemanticPointer`: read-only copy of the data, vocabulary object (by id) and algebra -/
structure Ptr where
  vec : Vec
  vocab : Option Nat
  alg : Nat
deriving DecidableEq, Repr

/-- what `add` can be handed as `p` -/
inductive Data where
  | arr (v : Vec)      -- 1-D array_like
  | bad                -- anything `np.array(.., dtype=float)` does not turn into a 1-D array (2-D data, `None`)
  | ptr (p : Ptr)
deriving DecidableEq, Repr

structure Vocab where
  dims : Nat
  strict : Bool
  alg : Nat
  maxSim : Rat
  identity : Vec
  absorbing : Option Vec
  keys : List String               -- `_keys`
  key2idx : List (String × Nat)    -- `_key2idx` (insertion ordered dict)
  vecs : List Vec                  -- rows of `_vectors`
  gen : List Vec                   -- candidates `pointer_gen` has not produced yet
deriving DecidableEq, Repr

namespace Impl

/-! ### names -/

/-- `valid_sp_regex.match(key)` for `^[A-Z][_a-zA-Z0-9]*$`, from the generated
character classes; `$` also matches before one trailing newline. -/
def regexOk (s : String) : Bool :=
  let cs := s.toList
  let cs := if Generated.nameAcceptsTrailingNewline && cs.getLast? == some '\n' then cs.dropLast else cs
  match cs with
  | [] => Generated.nameAcceptsEmpty
  | c :: rest => Generated.nameFirstChars.toList.contains c
      && rest.all (fun x => Generated.nameRestChars.toList.contains x)

/-- negation of the guard of `add`:
`not valid_sp_regex.match(key) or iskeyword(key) or key in reserved_sp_names` -/
def nameOk (key : String) : Bool :=
  regexOk key && !Generated.capitalKeywords.contains key && !Generated.reservedNames.contains key

/-- `key in special_sps` -/
def isSpecial (key : String) : Bool := Generated.specialNames.contains key

/-! ### `__contains__`, `__len__`, `__iter__` -/

/-- `key in special_sps or key in self._key2idx` -/
def contains (V : Vocab) (key : String) : Bool :=
  isSpecial key || V.key2idx.any (fun e => e.1 == key)

def len (V : Vocab) : Nat := V.vecs.length
def iter (V : Vocab) : List String := V.keys

/-! ### `add` -/

/-- `p` as a `SemanticPointer`: kept if it is one, else `SemanticPointer(p, vocab=self)`
(which raises `ValidationError` unless the data is 1-D). -/
def toPtr (id : Nat) (V : Vocab) : Data → Except Err Ptr
  | .ptr p => .ok p
  | .arr v => .ok ⟨v, some id, V.alg⟩
  | .bad => .error .validation

/-- `Vocabulary.add(key, p)`, checks in the order of the code; `id` is the identity of `self`. -/
def add (id : Nat) (V : Vocab) (key : String) (d : Data) : Except Err Vocab :=
  if !nameOk key then .error .spaParse else
  match toPtr id V d with
  | .error e => .error e
  | .ok p =>
    if V.key2idx.any (fun e => e.1 == key) then .error .validation          -- already exists
    else if p.vec.length ≠ V.dims then .error .validation                   -- wrong length
    else if (p.vocab.isSome && p.vocab != some id) || p.alg != V.alg then
      .error .validation                                                     -- other vocabulary / algebra
    else .ok { V with
      key2idx := V.key2idx ++ [(key, V.key2idx.length)],
      keys := V.keys ++ [key],
      vecs := V.vecs ++ [p.vec] }

/-! ### `create_pointer` -/

/-- the `transform` strings the model knows: none, `copy()`, `__neg__()`, and an
attribute the pointer does not have -/
inductive Transform where
  | none | copy | neg | noSuchAttr
deriving DecidableEq, Repr

def applyT : Transform → Vec → Except Err Vec
  | .none, v => .ok v
  | .copy, v => .ok v
  | .neg, v => .ok (v.map (fun x => -x))
  | .noSuchAttr, _ => .error .attribute

def dot (a b : Vec) : Rat := (List.zipWith (· * ·) a b).foldl (· + ·) 0

/-- `np.max(np.dot(self._vectors, p))` for a non-empty matrix -/
def maxDot (first : Vec) (rest : List Vec) (p : Vec) : Rat :=
  rest.foldl (fun m r => if m < dot r p then dot r p else m) (dot first p)

/-- The attempt loop.  Returns the outcome (`none` = Python `None`, only for
0 attempts) and the candidates left in the generator. -/
def cpLoop (V : Vocab) (t : Transform) : Nat → List Vec → Option (Rat × Vec) → Except Err (Option Vec) × List Vec
  | 0, gen, best => (.ok (best.map (·.2)), gen)              -- for-else: warning, best so far
  | _ + 1, [], _ => (.error .stopIteration, [])               -- next(self.pointer_gen)
  | n + 1, c :: gen, best =>
    match applyT t c with
    | .error e => (.error e, gen)
    | .ok p =>
      match V.vecs with
      | [] => (.ok (some p), gen)                              -- len(self) == 0
      | r :: rs =>
        if p.length ≠ V.dims then (.error .value, gen)        -- np.dot: shapes not aligned
        else
          let s := maxDot r rs p
          let better := match best with | none => true | some (bs, _) => decide (s < bs)
          if better then
            if s < V.maxSim then (.ok (some p), gen) else cpLoop V t n gen (some (s, p))
          else cpLoop V t n gen best

/-- `self.create_pointer(attempts, transform)`: result and the vocabulary whose generator advanced -/
def createPointer (id : Nat) (V : Vocab) (attempts : Nat) (t : Transform) :
    Except Err (Option Ptr) × Vocab :=
  let r := cpLoop V t attempts V.gen none
  (r.1.map (fun o => o.map (fun v => (⟨v, some id, V.alg⟩ : Ptr))), { V with gen := r.2 })

def optData : Option Ptr → Data
  | some p => .ptr p
  | none => .bad        -- `SemanticPointer(None, vocab=self)`: 0-d array

/-! ### `__getitem__` -/

def specialVec (V : Vocab) (key : String) : Except Err Vec :=
  if key = "Zero" then .ok (List.replicate V.dims 0)
  else if key = "Identity" then .ok V.identity
  else if key = "AbsorbingElement" then
    match V.absorbing with
    | some v => .ok v
    | none => .error .notImplemented
  else .error .unsupported

/-- `self.add(key, self.create_pointer())` -/
def autoCreate (id : Nat) (V : Vocab) (key : String) : Except Err Unit × Vocab :=
  match createPointer id V 100 .none with
  | (.error e, V1) => (.error e, V1)
  | (.ok o, V1) =>
    match add id V1 key (optData o) with
    | .error e => (.error e, V1)
    | .ok V2 => (.ok (), V2)

/-- the final `SemanticPointer(self._vectors[self._key2idx[key]], vocab=self)` -/
def lookup (id : Nat) (V : Vocab) (key : String) : Except Err Ptr :=
  match V.key2idx.lookup key with
  | none => .error .key
  | some i =>
    match V.vecs[i]? with
    | none => .error .index
    | some v => .ok ⟨v, some id, V.alg⟩

def getitem (id : Nat) (V : Vocab) (key : String) : Except Err Ptr × Vocab :=
  if key = "__tracebackhide__" then (.error .key, V)
  else if isSpecial key then ((specialVec V key).map (fun v => ⟨v, some id, V.alg⟩), V)
  else if !V.strict && !contains V key then
    match autoCreate id V key with
    | (.error e, V1) => (.error e, V1)
    | (.ok (), V1) => (lookup id V1 key, V1)
  else (lookup id V key, V)

/-! ### `parse` -/

def isIdentStart (c : Char) : Bool := c.isAlpha || c == '_'
def isIdentChar (c : Char) : Bool := c.isAlphanum || c == '_'

/-- Python keywords and constants: not looked up as names -/
def pyKeywords : List String :=
  ["False", "None", "True", "and", "as", "assert", "async", "await", "break", "class", "continue",
   "def", "del", "elif", "else", "except", "finally", "for", "from", "global", "if", "import", "in",
   "is", "lambda", "nonlocal", "not", "or", "pass", "raise", "return", "try", "while", "with", "yield"]

def stripBlanks (cs : List Char) : List Char :=
  ((cs.dropWhile (· == ' ')).reverse.dropWhile (· == ' ')).reverse

inductive ExprParse where
  | syntaxError
  | unsupported
  | terms (ts : List String)
deriving DecidableEq, Repr

def pieceToTerm (cs : List Char) : Option String :=
  match cs with
  | [] => none
  | c :: rest =>
    if isIdentStart c && rest.all isIdentChar && !pyKeywords.contains (String.ofList cs)
    then some (String.ofList cs) else none

/-- `s.split(sep)` for a one-character separator (structural, so that closed
examples reduce in the kernel) -/
def splitChars (sep : Char) : List Char → List (List Char)
  | [] => [[]]
  | c :: cs =>
    if c = sep then [] :: splitChars sep cs
    else match splitChars sep cs with
      | h :: t => (c :: h) :: t
      | [] => [[c]]

def splitStr (sep : Char) (s : String) : List String := (splitChars sep s.toList).map String.ofList

/-- what `eval(text, {}, self)` sees, for the fragment `name (+ name)*` -/
def parseExpr (text : String) : ExprParse :=
  let pieces := (splitChars '+' text.toList).map stripBlanks
  if pieces.getLast? == some [] then .syntaxError     -- '' or 'A +'
  else match pieces.mapM pieceToTerm with
    | some ts => .terms ts
    | none => .unsupported

def vadd (a b : Vec) : Vec := List.zipWith (· + ·) a b

/-- look the names up from left to right (`__getitem__` as locals mapping) and
superpose; a `KeyError` of the mapping becomes `NameError`, which `parse`
turns into `SpaParseError`; every other exception propagates. -/
def evalTerms (id : Nat) : Vocab → Option Vec → List String → Except Err Vec × Vocab
  | V, acc, [] => (match acc with | some v => .ok v | none => .error .syntax, V)
  | V, acc, t :: ts =>
    match getitem id V t with
    | (.error e, V1) => (.error (if e = .key then .spaParse else e), V1)
    | (.ok p, V1) =>
      evalTerms id V1 (some (match acc with | some v => vadd v p.vec | none => p.vec)) ts

def parse (id : Nat) (V : Vocab) (text : String) : Except Err Ptr × Vocab :=
  match parseExpr text with
  | .syntaxError => (.error .syntax, V)
  | .unsupported => (.error .unsupported, V)
  | .terms ts =>
    match evalTerms id V none ts with
    | (.error e, V1) => (.error e, V1)
    | (.ok v, V1) => (.ok ⟨v, some id, V.alg⟩, V1)

/-! ### `populate` -/

/-- ASCII characters removed by Python's `str.strip()` -/
def isPyWhite (c : Char) : Bool :=
  c == ' ' || c == '\t' || c == '\n' || c == '\r' || c.toNat == 11 || c.toNat == 12
    || (28 ≤ c.toNat && c.toNat ≤ 31)

def pyStrip (s : String) : String :=
  String.ofList ((s.toList.dropWhile isPyWhite).reverse.dropWhile isPyWhite).reverse

def splitOnceChars (sep : Char) : List Char → Option (List Char × List Char)
  | [] => none
  | c :: cs =>
    if c = sep then some ([], cs)
    else (splitOnceChars sep cs).map (fun ht => (c :: ht.1, ht.2))

/-- `s.split(sep, 1)` when it has two parts -/
def splitOnce (s : String) (sep : Char) : Option (String × String) :=
  (splitOnceChars sep s.toList).map (fun ht => (String.ofList ht.1, String.ofList ht.2))

def parseTransform (s : String) : Option Transform :=
  if s = "copy()" then some .copy
  else if s = "__neg__()" then some .neg
  else if s = "nosuch()" then some .noSuchAttr
  else none

/-- the closing `self.add(name.strip(), value)` of an item whose value was computed by `r` -/
def finishItem (id : Nat) (name : String) (r : Except Err (Option Ptr) × Vocab) : Except Err Unit × Vocab :=
  match r with
  | (.error e, V1) => (.error e, V1)
  | (.ok o, V1) =>
    match add id V1 (pyStrip name) (optData o) with
    | .error e => (.error e, V1)
    | .ok V2 => (.ok (), V2)

/-- one `p_expr` of `populate` -/
def populateItem (id : Nat) (V : Vocab) (item : String) : Except Err Unit × Vocab :=
  match splitOnce item '=' with
  | some (name, valueExpr) =>
    match parse id V (pyStrip valueExpr) with
    | (.error e, V1) => (.error e, V1)
    | (.ok p, V1) => finishItem id name (.ok (some p), V1)
  | none =>
    match splitOnce item '.' with
    | some (name, tr) =>
      match parseTransform tr with
      | none => (.error .unsupported, V)
      | some t => finishItem id name (createPointer id V 100 t)
    | none => finishItem id item (createPointer id V 100 .none)

/-- items left to right; the first failing item aborts, earlier items stay -/
def populateItems (id : Nat) : Vocab → List String → Except Err Unit × Vocab
  | V, [] => (.ok (), V)
  | V, it :: rest =>
    match populateItem id V it with
    | (.error e, V1) => (.error e, V1)
    | (.ok (), V1) => populateItems id V1 rest

def populate (id : Nat) (V : Vocab) (text : String) : Except Err Unit × Vocab :=
  if (pyStrip text).isEmpty then (.ok (), V) else populateItems id V (splitStr ';' text)

/-! ### `create_subset` -/

/-- the fresh `Vocabulary(self.dimensions, self.strict, self.max_similarity,
pointer_gen=self.pointer_gen, algebra=self.algebra)`; nothing draws from the
shared generator while the subset is filled -/
def emptyLike (V : Vocab) : Vocab := { V with keys := [], key2idx := [], vecs := [] }

/-- `for key in keys: subset.add(key, self[key].reinterpret(subset))`; `sid` is the subset's identity -/
def subsetLoop (id sid : Nat) : Vocab → Vocab → List String → Except Err Vocab × Vocab
  | V, S, [] => (.ok S, V)
  | V, S, k :: ks =>
    match getitem id V k with
    | (.error e, V1) => (.error e, V1)
    | (.ok p, V1) =>
      match add sid S k (.ptr ⟨p.vec, some sid, S.alg⟩) with
      | .error e => (.error e, V1)
      | .ok S1 => subsetLoop id sid V1 S1 ks

def createSubset (id sid : Nat) (V : Vocab) (keys : List String) : Except Err Vocab × Vocab :=
  subsetLoop id sid V (emptyLike V) keys

/-! ### `transform_to` -/

/-- a set, iterated in the order `order` says (`missing_keys` is iterated once, by
`";".join`, in the order `order`; the set `keys - missing_keys` is iterated by both
`create_subset` calls in the order `order2`) (members `order` does not mention
come last): Python's set order is not a function of the contents -/
def inOrder (order set : List String) : List String :=
  (order.eraseDups.filter (fun k => set.contains k)) ++ set.filter (fun k => !order.contains k)

/-- the `if len(missing_keys) > 0:` block: the keys still missing afterwards, and `other` -/
def transformPopulate (oid : Nat) (O : Vocab) (missing : List String) (pop : Option Bool)
    (order : List String) : Except Err (List String) × Vocab :=
  if missing.isEmpty then (.ok [], O)
  else match pop with
    | some true =>
      match populate oid O (";".intercalate (inOrder order missing)) with
      | (.error e, O1) => (.error e, O1)
      | (.ok (), O1) => (.ok [], O1)
    | _ => (.ok missing, O)          -- warning (None) or silence (False): ignored keys

/-- `self.transform_to(other, populate, keys)` (solver `None`); returns the two
vocabularies after the call.  The matrix itself is C13's business. -/
def transformTo (sid oid : Nat) (S O : Vocab) (keys : Option (List String)) (pop : Option Bool)
    (order order2 : List String) : Except Err Unit × Vocab × Vocab :=
  let ks := ((keys.getD S.keys).filter (fun k => S.key2idx.any (fun e => e.1 == k))).eraseDups
  match transformPopulate oid O (ks.filter (fun k => !contains O k)) pop order with
  | (.error e, O1) => (.error e, S, O1)
  | (.ok stillMissing, O1) =>
    let common := inOrder order2 (ks.filter (fun k => !stillMissing.contains k))
    match createSubset sid 2 S common with
    | (.error e, S1) => (.error e, S1, O1)
    | (.ok _, S1) =>
      match createSubset oid 2 O1 common with
      | (.error e, O2) => (.error e, S1, O2)
      | (.ok _, O2) => (.ok (), S1, O2)

/-! ### the world and its operations -/

structure World where
  a : Vocab
  b : Vocab
deriving DecidableEq, Repr

inductive Which where
  | a | b
deriving DecidableEq, Repr

def Which.id : Which → Nat
  | .a => 0
  | .b => 1

def Which.other : Which → Which
  | .a => .b
  | .b => .a

def World.get (w : World) : Which → Vocab
  | .a => w.a
  | .b => w.b

def World.put (w : World) : Which → Vocab → World
  | .a, V => { w with a := V }
  | .b, V => { w with b := V }

inductive Op where
  | add (x : Which) (key : String) (d : Data)
  | populate (x : Which) (text : String)
  | parse (x : Which) (text : String)
  | getitem (x : Which) (key : String)
  | contains (x : Which) (key : String)
  | createPointer (x : Which) (attempts : Nat) (t : Transform)
  | createSubset (x : Which) (keys : List String)
  | transformTo (src : Which) (keys : Option (List String)) (pop : Option Bool) (order order2 : List String)
  /-- write attempts into `x.vectors`, `x[k].v` and into an array that was
  handed to `add` earlier: the first two are refused (read-only), the last one
  changes only the caller's array (`SemanticPointer.__init__` copied it) -/
  | mutate (x : Which)
deriving DecidableEq, Repr

inductive Out where
  | done
  | bool (b : Bool)
  | ptr (p : Option Ptr)
  | subset (keys : List String) (vecs : List Vec)
  | err (e : Err)
deriving DecidableEq, Repr

def step (w : World) : Op → World × Out
  | .add x key d =>
    match add x.id (w.get x) key d with
    | .error e => (w, .err e)
    | .ok V => (w.put x V, .done)
  | .populate x text =>
    match populate x.id (w.get x) text with
    | (.error e, V) => (w.put x V, .err e)
    | (.ok (), V) => (w.put x V, .done)
  | .parse x text =>
    match parse x.id (w.get x) text with
    | (.error e, V) => (w.put x V, .err e)
    | (.ok p, V) => (w.put x V, .ptr (some p))
  | .getitem x key =>
    match getitem x.id (w.get x) key with
    | (.error e, V) => (w.put x V, .err e)
    | (.ok p, V) => (w.put x V, .ptr (some p))
  | .contains x key => (w, .bool (contains (w.get x) key))
  | .createPointer x n t =>
    match createPointer x.id (w.get x) n t with
    | (.error e, V) => (w.put x V, .err e)
    | (.ok o, V) => (w.put x V, .ptr o)
  | .createSubset x keys =>
    match createSubset x.id 2 (w.get x) keys with
    | (.error e, V) => (w.put x V, .err e)
    | (.ok S, V) => (w.put x V, .subset S.keys S.vecs)
  | .transformTo x keys pop order order2 =>
    match transformTo x.id x.other.id (w.get x) (w.get x.other) keys pop order order2 with
    | (.error e, S, O) => ((w.put x S).put x.other O, .err e)
    | (.ok (), S, O) => ((w.put x S).put x.other O, .done)
  | .mutate _ => (w, .done)

def run (w : World) : List Op → World
  | [] => w
  | op :: ops => run (step w op).1 ops

/-- the outcomes along a history -/
def trace (w : World) : List Op → List Out
  | [] => []
  | op :: ops => (step w op).2 :: trace (step w op).1 ops

end Impl

namespace Spec

/-- the abstract state of the property: (key, vector) pairs in insertion order -/
def abs (V : Vocab) : List (String × Vec) := V.keys.zip V.vecs

/-- everything but the store and the generator position -/
def SameSettings (V V' : Vocab) : Prop :=
  V'.dims = V.dims ∧ V'.strict = V.strict ∧ V'.alg = V.alg ∧ V'.maxSim = V.maxSim ∧
  V'.identity = V.identity ∧ V'.absorbing = V.absorbing

/-- the three components agree with each other -/
structure Inv (V : Vocab) : Prop where
  len : V.keys.length = V.vecs.length
  idxKeys : V.key2idx.map Prod.fst = V.keys
  idxVals : V.key2idx.map Prod.snd = List.range V.keys.length
  nodup : V.keys.Nodup
  dims : ∀ v ∈ V.vecs, v.length = V.dims
  names : ∀ k ∈ V.keys, Impl.nameOk k = true

/-- `V'` holds what `V` holds, followed by `added` (append-only) -/
def GrowsBy (V V' : Vocab) (added : List (String × Vec)) : Prop :=
  SameSettings V V' ∧ V'.keys = V.keys ++ added.map Prod.fst ∧ V'.vecs = V.vecs ++ added.map Prod.snd

def Grows (V V' : Vocab) : Prop := ∃ added, GrowsBy V V' added

/-- the names of `ts`, in order of first occurrence, that a look-up does not
find: neither special nor stored -/
def missingNames (V : Vocab) (ts : List String) : List String :=
  (ts.filter (fun t => !Impl.contains V t)).eraseDups

end Spec
end C09

/-
C14 — model of the action-selection block protocol (core Lean only).

Sources mirrored (as they are in /repo now):
  nengo_spa/action_selection.py  ActionSelection.__enter__/__exit__/_build/add_action/
                                 __getitem__/__iter__/__len__, ifmax
  nengo_spa/network.py           ifmax (the public wrapper: argument shuffling, `condition is None`,
                                 `as_ast_node`)
  nengo_spa/connectors.py        ModuleInput.routed_mode / __rrshift__, RoutedConnection.__init__ /
                                 free_floating

`Impl.*` follows the code paths over the three process-wide class attributes
(`ActionSelection.active`, `ModuleInput.routed_mode`, `RoutedConnection.free_floating`) and Python's
`with` protocol.  `Spec.*` is the property's own reading: there are no global switches at all, the
meaning of `>>`/`ifmax`/`with` is decided by the *lexically* enclosing block, and a block keeps a local
count of routes that no `ifmax` has claimed yet.
-/
namespace C14

/-- exception classes that occur (compared by class) -/
inductive Exc where
  | actionSelection   -- nengo_spa.exceptions.SpaActionSelectionError
  | spaType           -- nengo_spa.exceptions.SpaTypeError
  | value             -- ValueError ("Must provide `condition`")
  | assertion         -- AssertionError (`assert not self.built`)
  | validation        -- nengo.exceptions.ValidationError (raised by the Nengo objects)
  | user (n : Nat)    -- an exception raised by the user's own code in a block body
deriving DecidableEq, Repr

/-- the expression `src >> sink`:
`good`: well typed and connectable; `illTyped`: `infer_types` raises `SpaTypeError`
(e.g. 16-d state into 32-d state); `unbuildable`: passes type inference (scalar ≤ vocabulary) but the
Nengo connection cannot be made (pointer into a scalar sink). -/
inductive RouteKind where
  | good | illTyped | unbuildable
deriving DecidableEq, Repr

/-- the `condition` argument of `ifmax` -/
inductive Cond where
  | zero          -- `0` → `Noop(TScalar)`
  | scalar        -- a scalar AST node / scalar module / number
  | pointer       -- an AST node whose type is not TScalar
  | unregistered  -- an object `as_ast_node` rejects
  | missing       -- `None` (name given without a condition)
deriving DecidableEq, Repr

/-- an effect argument of `ifmax`: an inline `a >> b`, or some other value -/
inductive Eff where
  | route (k : RouteKind)
  | other
deriving DecidableEq, Repr

/-- Statement lists.  Every constructor carries the statements that follow it (`rest`), so a value of
this type *is* a list of statements; `body` is a nested list.
`block id body` is `with blocks[id]: body` where `blocks[id]` is the `id`-th `ActionSelection()` object
(an object never used before is a fresh one); `attempt body` is `try: body / except Exception: pass`. -/
inductive Prog where
  | done
  | route (k : RouteKind) (rest : Prog)
  | ifmax (name : Option String) (c : Cond) (effs : List Eff) (rest : Prog)
  | raise (n : Nat) (rest : Prog)
  | block (id : Nat) (body : Prog) (rest : Prog)
  | attempt (body : Prog) (rest : Prog)
deriving Repr

/-- what evaluating one `>>` did -/
inductive RouteRes where
  | connected          -- connected at once, value `None`
  | routed             -- produced a `RoutedConnection`, nothing connected
  | raised (e : Exc)
deriving DecidableEq, Repr

/-- what an observer standing next to the program sees (the harness records the same from the real
objects).  `ff` is `len(RoutedConnection.free_floating)` right after the event. -/
inductive Obs where
  | route (r : RouteRes) (ff : Nat)
  | ifmax (e : Option Exc) (ff : Nat)
  /-- after a `with` statement ended (any way, including a failing `__enter__`) -/
  | blockEnd (id : Nat) (e : Option Exc) (activeNone routedMode : Bool) (ff : Nat) (built : Bool) (len : Nat)
  | caught (e : Exc)
deriving DecidableEq, Repr

/-- keys of the Mapping interface -/
inductive Key where
  | name (s : String)
  | idx (i : Nat)
deriving DecidableEq, Repr

inductive GetErr where
  | key     -- KeyError
  | index   -- IndexError
deriving DecidableEq, Repr

/-! ### dictionaries (insertion ordered; assignment to an existing key keeps its place) -/

def dictSet {κ ν : Type} [DecidableEq κ] : List (κ × ν) → κ → ν → List (κ × ν)
  | [], k, v => [(k, v)]
  | (k', v') :: t, k, v => if k' = k then (k', v) :: t else (k', v') :: dictSet t k v

def dictGet {κ ν : Type} [DecidableEq κ] : List (κ × ν) → κ → Option ν
  | [], _ => none
  | (k', v') :: t, k => if k' = k then some v' else dictGet t k

/-- The state of one `ActionSelection` object.  `utilities` is `len(self._utilities)`: the `k`-th
utility object is identified with its position `k`.  `actions[k]` keeps, per effect of action `k`,
whether the build can connect it (the only thing `_build` asks of an effect). -/
structure Block where
  built : Bool
  utilities : Nat
  actions : List (List Bool)
  name2idx : List (String × Nat)
deriving Repr

/-- `ActionSelection()` -/
def Block.fresh : Block := ⟨false, 0, [], []⟩

/-- the object-state part of `add_action(name, *actions)` -/
def Block.addAction (b : Block) (name : Option String) (effs : List Bool) : Block :=
  { b with
    name2idx := match name with
      | some n => dictSet b.name2idx n b.actions.length   -- self._name2idx[name] = len(self._actions)
      | none => b.name2idx
    utilities := b.utilities + 1
    actions := b.actions ++ [effs] }

def setBlock (bs : Nat → Block) (i : Nat) (b : Block) : Nat → Block :=
  fun j => if j = i then b else bs j

structure Res (σ : Type) where
  st : σ
  exc : Option Exc
  out : List Obs

namespace Impl

/-- a `RoutedConnection` object: identity + whether `_build` can connect it -/
structure Conn where
  id : Nat
  buildable : Bool
deriving DecidableEq, Repr

/-- the three class attributes -/
structure Globals where
  active : Option Nat          -- ActionSelection.active (the block object's number)
  routedMode : Bool            -- ModuleInput.routed_mode
  freeFloating : List Conn     -- RoutedConnection.free_floating (a set of fresh objects)
deriving Repr

structure World where
  g : Globals
  blocks : Nat → Block
  nextConn : Nat               -- object identities handed out so far

def Globals.clean : Globals := ⟨none, false, []⟩
def World.init : World := ⟨Globals.clean, fun _ => Block.fresh, 0⟩

def routeObs (w : World) : Except Exc (Option Conn) → Obs
  | .error e => .route (.raised e) w.g.freeFloating.length
  | .ok none => .route .connected w.g.freeFloating.length
  | .ok (some _) => .route .routed w.g.freeFloating.length

/-- `ModuleInput.__rrshift__`:
```
if self.routed_mode: return RoutedConnection(other, self)   # infer_types, then free_floating.add(self)
else: infer_types(self, other); other.connect_to(self.input)   # returns None
``` -/
def evalRoute (w : World) (k : RouteKind) : World × Except Exc (Option Conn) :=
  if w.g.routedMode then
    match k with
    | .illTyped => (w, .error .spaType)
    | .good =>
      let c : Conn := ⟨w.nextConn, true⟩
      ({ w with g := { w.g with freeFloating := c :: w.g.freeFloating }, nextConn := w.nextConn + 1 },
       .ok (some c))
    | .unbuildable =>
      let c : Conn := ⟨w.nextConn, false⟩
      ({ w with g := { w.g with freeFloating := c :: w.g.freeFloating }, nextConn := w.nextConn + 1 },
       .ok (some c))
  else
    match k with
    | .illTyped => (w, .error .spaType)
    | .unbuildable => (w, .error .validation)
    | .good => (w, .ok none)

/-- Python evaluates the argument expressions of a call left to right before the call. -/
def evalEffs (w : World) : List Eff → World × Except Exc (List (Option Conn)) × List Obs
  | [] => (w, .ok [], [])
  | .other :: es =>
    match evalEffs w es with
    | (w', .ok vs, o) => (w', .ok (none :: vs), o)
    | (w', .error e, o) => (w', .error e, o)
  | .route k :: es =>
    match evalRoute w k with
    | (w1, .error e) => (w1, .error e, [routeObs w1 (.error e)])
    | (w1, .ok c) =>
      match evalEffs w1 es with
      | (w2, .ok vs, o) => (w2, .ok (c :: vs), routeObs w1 (.ok c) :: o)
      | (w2, .error e, o) => (w2, .error e, routeObs w1 (.ok c) :: o)

/-- `ActionSelection.add_action(name, *actions)` on the object `a`, including
`RoutedConnection.free_floating.difference_update(actions)` -/
def addAction (w : World) (a : Nat) (name : Option String) (conns : List Conn) : World :=
  { w with
    blocks := setBlock w.blocks a ((w.blocks a).addAction name (conns.map (·.buildable)))
    g := { w.g with
           freeFloating := w.g.freeFloating.filter (fun c => !(conns.any (fun d => d.id == c.id))) } }

/-- the call `nengo_spa.ifmax(name, condition, *actions)` with already evaluated arguments:
`network.ifmax` (condition None → ValueError; `as_ast_node`) then `action_selection.ifmax`
(active is None; condition.type != TScalar; non-RoutedConnection action; add_action). -/
def ifmaxCall (w : World) (name : Option String) (c : Cond) (vals : List (Option Conn)) :
    World × Option Exc :=
  if c = .missing then (w, some .value)
  else if c = .unregistered then (w, some .spaType)
  else
    match w.g.active with
    | none => (w, some .actionSelection)
    | some a =>
      if c = .pointer then (w, some .spaType)
      else if vals.any Option.isNone then (w, some .actionSelection)
      else (addAction w a name (vals.filterMap id), none)

/-- `ActionSelection.__enter__` of object `id` -/
def enter (w : World) (id : Nat) : World × Option Exc :=
  if (w.blocks id).built then (w, some .assertion)
  else
    match w.g.active with
    | none => ({ w with g := { w.g with active := some id, routedMode := true } }, none)
    | some _ => (w, some .actionSelection)

/-- `ActionSelection._build` (the Nengo part either succeeds or raises on the first effect it cannot
connect; `built` is set last) -/
def build (w : World) (id : Nat) : World × Option Exc :=
  let w1 : World := { w with g := { w.g with freeFloating := [] } }     -- the `finally`
  if w.g.freeFloating.length > 0 then (w1, some .actionSelection)
  else if (w1.blocks id).utilities ≤ 0 then (w1, none)
  else if (w1.blocks id).actions.any (fun effs => effs.any (fun ok => !ok)) then (w1, some .validation)
  else ({ w1 with blocks := setBlock w1.blocks id { w1.blocks id with built := true } }, none)

/-- `ActionSelection.__exit__(exc_type, …)` of object `id`; it returns `None`, so an exception from the
body is re-raised by the `with` statement -/
def exit (w : World) (id : Nat) (exc : Option Exc) : World × Option Exc :=
  let w1 : World := { w with g := { w.g with active := none, routedMode := false } }
  match exc with
  | some e => ({ w1 with g := { w1.g with freeFloating := [] } }, some e)
  | none => build w1 id

def blockEndObs (w : World) (id : Nat) (e : Option Exc) : Obs :=
  .blockEnd id e w.g.active.isNone w.g.routedMode w.g.freeFloating.length
    (w.blocks id).built (w.blocks id).actions.length

def caughtObs : Option Exc → List Obs
  | some e => [.caught e]
  | none => []

/-- run a statement list; an exception ends it -/
def exec (w : World) : Prog → Res World
  | .done => ⟨w, none, []⟩
  | .route k rest =>
    match evalRoute w k with
    | (w1, .error e) => ⟨w1, some e, [routeObs w1 (.error e)]⟩
    | (w1, .ok c) =>
      let r := exec w1 rest
      ⟨r.st, r.exc, routeObs w1 (.ok c) :: r.out⟩
  | .ifmax name c effs rest =>
    match evalEffs w effs with
    | (w1, .error e, o) => ⟨w1, some e, o⟩
    | (w1, .ok vals, o) =>
      match ifmaxCall w1 name c vals with
      | (w2, some e) => ⟨w2, some e, o ++ [.ifmax (some e) w2.g.freeFloating.length]⟩
      | (w2, none) =>
        let r := exec w2 rest
        ⟨r.st, r.exc, o ++ .ifmax none w2.g.freeFloating.length :: r.out⟩
  | .raise n _ => ⟨w, some (.user n), []⟩
  | .block id body rest =>
    -- `with blocks[id]: body`: __enter__; if it raises, __exit__ is not called
    match enter w id with
    | (w1, some e) => ⟨w1, some e, [blockEndObs w1 id (some e)]⟩
    | (w1, none) =>
      let rb := exec w1 body
      match exit rb.st id rb.exc with
      | (w3, some e) => ⟨w3, some e, rb.out ++ [blockEndObs w3 id (some e)]⟩
      | (w3, none) =>
        let r := exec w3 rest
        ⟨r.st, r.exc, rb.out ++ blockEndObs w3 id none :: r.out⟩
  | .attempt body rest =>
    let rb := exec w body
    let r := exec rb.st rest
    ⟨r.st, r.exc, rb.out ++ caughtObs rb.exc ++ r.out⟩

/-! #### Mapping interface of a block -/

/-- `{idx: name for name, idx in self._name2idx.items()}` -/
def idx2name (d : List (String × Nat)) : List (Nat × String) :=
  d.foldl (fun m p => dictSet m p.2 p.1) []

/-- `__len__`: `len(self._actions)` -/
def len (b : Block) : Nat := b.actions.length

/-- `__iter__`: `for i in range(len(self)): yield idx2name.get(i, i)` -/
def iter (b : Block) : List Key :=
  (List.range (len b)).map fun i =>
    match dictGet (idx2name b.name2idx) i with
    | some n => .name n
    | none => .idx i

/-- `self._utilities[key]` for a non-negative position -/
def utilityAt (b : Block) (i : Nat) : Except GetErr Nat :=
  if i < b.utilities then .ok i else .error .index

/-- `__getitem__` -/
def getitem (b : Block) : Key → Except GetErr Nat
  | .name n =>
    match dictGet b.name2idx n with
    | none => .error .key
    | some i => utilityAt b i
  | .idx i => utilityAt b i

/-- the object after the declarations `ifmax(names[0], …); ifmax(names[1], …); …` -/
def declare (names : List (Option String)) : Block :=
  names.foldl (fun b n => b.addAction n []) Block.fresh

end Impl

namespace Spec

/-- no process-wide switches: only the block objects and, inside a block, the number of routes written
so far that no `ifmax` has taken -/
structure St where
  floating : Nat
  blocks : Nat → Block

def routeObs (s : St) : Except Exc (Option Bool) → Obs
  | .error e => .route (.raised e) s.floating
  | .ok none => .route .connected s.floating
  | .ok (some _) => .route .routed s.floating

/-- `>>` lexically inside a block is a routing statement, outside it connects at once -/
def evalRoute (ctx : Option Nat) (s : St) (k : RouteKind) : St × Except Exc (Option Bool) :=
  match ctx, k with
  | _, .illTyped => (s, .error .spaType)
  | some _, .good => ({ s with floating := s.floating + 1 }, .ok (some true))
  | some _, .unbuildable => ({ s with floating := s.floating + 1 }, .ok (some false))
  | none, .unbuildable => (s, .error .validation)
  | none, .good => (s, .ok none)

def evalEffs (ctx : Option Nat) (s : St) : List Eff → St × Except Exc (List (Option Bool)) × List Obs
  | [] => (s, .ok [], [])
  | .other :: es =>
    match evalEffs ctx s es with
    | (s', .ok vs, o) => (s', .ok (none :: vs), o)
    | (s', .error e, o) => (s', .error e, o)
  | .route k :: es =>
    match evalRoute ctx s k with
    | (s1, .error e) => (s1, .error e, [routeObs s1 (.error e)])
    | (s1, .ok c) =>
      match evalEffs ctx s1 es with
      | (s2, .ok vs, o) => (s2, .ok (c :: vs), routeObs s1 (.ok c) :: o)
      | (s2, .error e, o) => (s2, .error e, routeObs s1 (.ok c) :: o)

/-- the documented errors, in the order the code checks them; on success the action is appended to the
lexically enclosing block.  `s0` is the state before the argument expressions were evaluated: a successful
`ifmax` takes all its effects, so the floating count is what it was before the statement. -/
def ifmaxCall (ctx : Option Nat) (s0 s : St) (name : Option String) (c : Cond)
    (vals : List (Option Bool)) : St × Option Exc :=
  if c = .missing then (s, some .value)
  else if c = .unregistered then (s, some .spaType)
  else
    match ctx with
    | none => (s, some .actionSelection)                         -- ifmax outside a block
    | some a =>
      if c = .pointer then (s, some .spaType)                    -- non-scalar condition
      else if vals.any Option.isNone then (s, some .actionSelection)   -- effect is not a routing statement
      else ({ floating := s0.floating,
              blocks := setBlock s.blocks a ((s.blocks a).addAction name (vals.filterMap id)) }, none)

def blockEndObs (ctx : Option Nat) (s : St) (id : Nat) (e : Option Exc) : Obs :=
  .blockEnd id e ctx.isNone ctx.isSome s.floating (s.blocks id).built (s.blocks id).actions.length

/-- how a block whose body ended with `exc` ends -/
def finish (s : St) (id : Nat) (exc : Option Exc) : St × Option Exc :=
  let s1 : St := { s with floating := 0 }
  match exc with
  | some e => (s1, some e)
  | none =>
    if s.floating > 0 then (s1, some .actionSelection)                -- routing outside an action
    else if (s.blocks id).utilities = 0 then (s1, none)
    else if (s.blocks id).actions.any (fun effs => effs.any (fun ok => !ok)) then (s1, some .validation)
    else ({ s1 with blocks := setBlock s.blocks id { s.blocks id with built := true } }, none)

/-- `ctx` is the lexically enclosing open block; it is a parameter, not state -/
def exec (ctx : Option Nat) (s : St) : Prog → Res St
  | .done => ⟨s, none, []⟩
  | .route k rest =>
    match evalRoute ctx s k with
    | (s1, .error e) => ⟨s1, some e, [routeObs s1 (.error e)]⟩
    | (s1, .ok c) =>
      let r := exec ctx s1 rest
      ⟨r.st, r.exc, routeObs s1 (.ok c) :: r.out⟩
  | .ifmax name c effs rest =>
    match evalEffs ctx s effs with
    | (s1, .error e, o) => ⟨s1, some e, o⟩
    | (s1, .ok vals, o) =>
      match ifmaxCall ctx s s1 name c vals with
      | (s2, some e) => ⟨s2, some e, o ++ [.ifmax (some e) s2.floating]⟩
      | (s2, none) =>
        let r := exec ctx s2 rest
        ⟨r.st, r.exc, o ++ .ifmax none s2.floating :: r.out⟩
  | .raise n _ => ⟨s, some (.user n), []⟩
  | .block id body rest =>
    if (s.blocks id).built then ⟨s, some .assertion, [blockEndObs ctx s id (some .assertion)]⟩
    else
      match ctx with
      | some _ => ⟨s, some .actionSelection, [blockEndObs ctx s id (some .actionSelection)]⟩  -- nested
      | none =>
        let rb := exec (some id) { s with floating := 0 } body
        match finish rb.st id rb.exc with
        | (s3, some e) => ⟨s3, some e, rb.out ++ [blockEndObs none s3 id (some e)]⟩
        | (s3, none) =>
          let r := exec none s3 rest
          ⟨r.st, r.exc, rb.out ++ blockEndObs none s3 id none :: r.out⟩
  | .attempt body rest =>
    let rb := exec ctx s body
    let r := exec ctx rb.st rest
    ⟨r.st, r.exc, rb.out ++ Impl.caughtObs rb.exc ++ r.out⟩

/-- the key under which action `i` is listed: its name if it is the last action carrying that name,
otherwise its index -/
def key (names : List (Option String)) (i : Nat) : Key :=
  match names[i]? with
  | some (some n) => if (names.drop (i + 1)).contains (some n) then .idx i else .name n
  | _ => .idx i

/-- one key per action, in declaration order -/
def keys (names : List (Option String)) : List Key :=
  (List.range names.length).map (key names)

end Spec
end C14

/-
C19 — model of the vector generators of `nengo_spa/vector_generation.py` and of the
property dispatch of `create_vector` (nengo_spa/algebras/{hrr,vtb,tvtb}_algebra.py), on top
of the shared algebra layer `SpaModel/Basic/Algebra.lean`.

`Impl.*` follows the code paths that exist; `Spec.*` is the vocabulary of the property
statement (dot product, unit length, orthonormal family, unit vector, accepted property
sets, position on the hyper-circle).

Modelled, not verified (tied numerically / per draw by harness/c19.py):
* a `numpy.random.RandomState` is a stream of draws `ℕ → (Fin d → R)`: request number `t`
  of a generator consumes draw number `t` (the code calls `rng.randn(d)` exactly once per
  request — where it calls it at all — *before* it looks at anything else).  Nothing is said
  about the distribution of the draws.
* `np.linalg.norm(v)` is a number `nrm` with `nrm * nrm = Σ v²`; `v /= nrm` multiplies with an
  inverse `x` (`nrm * x = 1`): `Spec.IsNormInv v x`.  `1/np.sqrt(d)` is a number `sinv` with
  `d * (sinv * sinv) = 1`.
* `np.linalg.solve(A, y)` is a relation: whatever it returns satisfies `A x = y` (it raises
  `LinAlgError` for a singular `A`, then there is no next vector).
* `make_unitary` / `abs` of the algebras are parameters of the generators here (they are
  modelled and proved in C12; per draw the harness certifies the exact residual).
* `EquallySpacedPositiveUnitaryHrrVectors`: the model is the *phase schedule* on rationals: the
  Fourier coefficient `j` of vector `k` is `exp(2πi · coefTurn d n offset k j)`; `np.exp`,
  the complex power (principal branch: `z ** e = exp(e · Log z)`) and `irfft` are outside.  The
  laws of `t ↦ exp(2πi t)` that are used (`E (a + b) = E a * E b`, `E 1 = 1`) are hypotheses of
  the coefficient-level theorems; the harness compares `rfft(vectors[k])[j]` with
  `exp(2πi · coefTurn)` numerically.
-/
import SpaModel.Basic.Algebra

open Matrix

namespace C19
open Alg

variable {R : Type*} [CommRing R]

/-! ## Spec: the vocabulary of the statement -/
namespace Spec

/-- Euclidean dot product -/
def dot {d : ℕ} (a b : Fin d → R) : R := ∑ i, a i * b i
/-- squared Euclidean length -/
def normSq {d : ℕ} (a : Fin d → R) : R := dot a a

/-- the `k`-th axis of `R^d` -/
def unitVec (d : ℕ) (k : Fin d) : Fin d → R := fun j => if j = k then 1 else 0

/-- `x` is `1 / ‖v‖`: there is a number `nrm` with `nrm² = Σ v²` and `nrm · x = 1` -/
def IsNormInv {d : ℕ} (v : Fin d → R) (x : R) : Prop := ∃ nrm : R, nrm * nrm = normSq v ∧ nrm * x = 1

/-- mutually orthogonal vectors of unit length (Gram matrix = identity) -/
def Orthonormal {d : ℕ} (l : List (Fin d → R)) : Prop :=
  l.Pairwise (fun a b => dot a b = 0) ∧ ∀ a ∈ l, normSq a = 1

/-- HRR: `u ⊛ ~u = δ` -/
def HrrUnitary {k : ℕ} (u : Hrr.Vec k R) : Prop :=
  Hrr.Impl.bind u (Hrr.Impl.invert u) = Hrr.Impl.identity k

/-- VTB/TVTB: `m · (U Uᵀ) = 1` (rows orthogonal with squared length `1/m`) -/
def MatUnitary {m : ℕ} (u : Vec2 m R) : Prop :=
  (m : R) • (toMat u * (toMat u)ᵀ) = 1

/-- position on the hyper-circle of `n` equally spaced vectors: vector `k` of the family with
offset `o` sits at `(k + o)/n` of the circle; its exponent is that fraction of the full period `cc` -/
def exponent (cc : ℕ) (n : ℕ) (off : ℚ) (k : ℕ) : ℚ := ((k : ℚ) + off) * cc / n

end Spec

/-! ## Properties of `create_vector` -/

/-- an element of the `properties` argument: the two documented constants
(`CommonProperties.UNITARY = "unitary"`, `.POSITIVE = "positive"`) or any other string -/
inductive PropTok where
  | unitary
  | positive
  | other (name : String)
deriving DecidableEq, Repr

/-- what the returned vector was made by -/
inductive Kind where
  | plain            -- `randn(d) / norm`
  | positive         -- `abs(randn(d)/norm)` (HRR) / `sqrtm(M Mᵀ)` (VTB, TVTB with SciPy)
  | unitary          -- `make_unitary(…)`
  | positiveUnitary  -- HRR: `make_unitary(abs(randn(d)/norm))`
  | identity         -- VTB/TVTB: the identity element (the only positive unitary vector)
deriving DecidableEq, Repr

/-- observable outcome of one `create_vector` call -/
inductive Outcome where
  /-- a vector; `draws` = number of `rng.randn(d)` calls, `warned` = a `UserWarning` was issued -/
  | vector (k : Kind) (draws : ℕ) (warned : Bool)
  /-- `ValueError("Invalid properties: …")` raised after `draws` calls of `rng.randn` -/
  | invalid (draws : ℕ) (warned : Bool)
  /-- `ImportError`: positive VTB/TVTB vectors need SciPy -/
  | needsSciPy
  /-- `ValueError("Vector dimensionality must be a square number.")` -/
  | notSquare (draws : ℕ)
deriving DecidableEq, Repr

namespace Spec
/-- the documented property sets: subsets of {unitary, positive} -/
def Valid (props : List PropTok) : Prop := ∀ p ∈ props, p = .unitary ∨ p = .positive
/-- the vector kind advertises exactly the requested properties -/
def Advertises : Kind → (unitary positive : Bool) → Prop
  | .plain, u, p => u = false ∧ p = false
  | .positive, u, p => u = false ∧ p = true
  | .unitary, u, p => u = true ∧ p = false
  | .positiveUnitary, u, p => u = true ∧ p = true
  | .identity, u, p => u = true ∧ p = true
end Spec

namespace Impl

/-! ### AxisAlignedVectors -/

/-- `np.eye(d)`: row `k`, column `j` is 1 iff `k = j` -/
def eye (d : ℕ) : List (Fin d → R) := List.ofFn fun k : Fin d => fun j => if k = j then 1 else 0

/-- a Python generator `for v in rows: yield v`: request number `t` (from 0) yields `rows[t]`,
and raises `StopIteration` (`none`) from request `len(rows)` on -/
def genNext {α : Type*} (rows : List α) (t : ℕ) : Option α := rows[t]?

/-- `AxisAlignedVectors(d)` -/
def axisAligned (d : ℕ) (t : ℕ) : Option (Fin d → R) := genNext (eye d) t

/-! ### UnitLengthVectors / ExpectedUnitLengthVectors -/

/-- `v = rng.randn(d); v /= np.linalg.norm(v)` with `x` the inverse norm -/
def unitLength {d : ℕ} (draw : Fin d → R) (x : R) : Fin d → R := fun c => draw c * x

/-- `rng.randn(d) / np.sqrt(d)` with `sinv` for `1/sqrt(d)` -/
def expectedUnitLength {d : ℕ} (draw : Fin d → R) (sinv : R) : Fin d → R := fun c => draw c * sinv

/-- a generator whose request `t` is a function of draw `t` only
(UnitLengthVectors, ExpectedUnitLengthVectors, UnitaryVectors, VectorsWithProperties) -/
def streamGen {α β : Type*} (f : α → β) (draws : ℕ → α) (t : ℕ) : β := f (draws t)

/-- `UnitaryVectors.__next__`: `self.algebra.make_unitary(self.rng.randn(self.d))` -/
def unitaryNext {α β : Type*} (makeUnitary : α → β) (draw : α) : β := makeUnitary draw

/-! ### OrthonormalVectors -/
namespace Ortho
variable {d : ℕ}

/-- the `elif i > 0` branch, `i = len(self.vectors)`:
```
y = -np.dot(vectors[:, i:], v[i:]);  A = vectors[:i, :i];  v[:i] = np.linalg.solve(A, y)
```
components `i…` keep the draw; the first `i` ones satisfy `A x = y` (one equation per previous
vector). -/
def Solved (prev : List (Fin d → R)) (v v' : Fin d → R) : Prop :=
  (∀ c : Fin d, prev.length ≤ c.val → v' c = v c) ∧
  (∀ p ∈ prev, (∑ c with c.val < prev.length, p c * v' c)
      = -(∑ c with prev.length ≤ c.val, p c * v c))

/-- `OrthonormalVectors.__next__` on the state `prev = self.vectors` with the consumed draw:
`none` = `StopIteration`, `some w` = `w` is appended to `self.vectors` and returned. -/
inductive Next (prev : List (Fin d → R)) (draw : Fin d → R) : Option (Fin d → R) → Prop
  /-- `if i >= self.d: raise StopIteration()` -/
  | stop (h : d ≤ prev.length) : Next prev draw none
  /-- `i == 0`: only `v /= norm(v)` -/
  | first (h0 : prev.length = 0) (hd : prev.length < d) (x : R) (hx : Spec.IsNormInv draw x) :
      Next prev draw (some fun c => draw c * x)
  /-- `i > 0`: solve, then normalise -/
  | solved (h0 : 0 < prev.length) (hd : prev.length < d) (v' : Fin d → R) (hs : Solved prev draw v')
      (x : R) (hx : Spec.IsNormInv v' x) : Next prev draw (some fun c => v' c * x)

/-- the states `self.vectors` can be in: histories of successful requests -/
inductive Reach : List (Fin d → R) → Prop
  | init : Reach []
  | step {prev : List (Fin d → R)} {draw w : Fin d → R} :
      Reach prev → Next prev draw (some w) → Reach (prev ++ [w])

/-- Executable, self-certifying step for the driver (before normalisation): an untrusted
candidate for the solution is *checked* against the post-condition before it is used.
Outer `none` = no certified candidate (singular); `some none` = StopIteration. -/
def stepFn [DecidableEq R] (cand : List (Fin d → R) → (Fin d → R) → Option (Fin d → R))
    (prev : List (Fin d → R)) (draw : Fin d → R) : Option (Option (Fin d → R)) :=
  if d ≤ prev.length then some none
  else if prev.length = 0 then some (some draw)
  else match cand prev draw with
    | none => none
    | some x =>
      let v' : Fin d → R := fun c => if c.val < prev.length then x c else draw c
      if prev.all (fun p => decide ((∑ c with c.val < prev.length, p c * v' c)
            = -(∑ c with prev.length ≤ c.val, p c * draw c)))
      then some (some v') else none

/-- the same method as a *function* of the state and the consumed draw, for an arbitrary
(deterministic) `solve` and inverse-norm function: what a run of the Python code is once
NumPy's `solve` / `norm` are fixed functions -/
def nextFn (solve : List (Fin d → R) → (Fin d → R) → (Fin d → R)) (ninv : (Fin d → R) → R)
    (prev : List (Fin d → R)) (draw : Fin d → R) : Option (Fin d → R) :=
  if d ≤ prev.length then none
  else if prev.length = 0 then some fun c => draw c * ninv draw
  else
    let v' : Fin d → R := fun c => if c.val < prev.length then solve prev draw c else draw c
    some fun c => v' c * ninv v'

/-- state (`self.vectors`) and the answers after the first `T` requests on a stream of draws;
request `t` consumes draw `t` — also when it stops (`rng.randn` is the first statement) -/
def runFn (solve : List (Fin d → R) → (Fin d → R) → (Fin d → R)) (ninv : (Fin d → R) → R)
    (draws : ℕ → Fin d → R) : ℕ → List (Fin d → R) × List (Option (Fin d → R))
  | 0 => ([], [])
  | T + 1 =>
    let s := runFn solve ninv draws T
    match nextFn solve ninv s.1 (draws T) with
    | none => (s.1, s.2 ++ [none])
    | some w => (s.1 ++ [w], s.2 ++ [some w])

end Ortho

/-! ### create_vector / VectorsWithProperties -/

def hasU (props : List PropTok) : Bool := props.contains .unitary
def hasP (props : List PropTok) : Bool := props.contains .positive
/-- what is left of `properties` after the recognised constants were removed -/
def leftover (props : List PropTok) : List PropTok :=
  props.filter fun p => p != .unitary && p != .positive

/-- `HrrAlgebra.create_vector(d, properties, rng=rng)`:
```
v = rng.randn(d); v /= norm(v)
if POSITIVE in properties: …remove…; v = self.abs(v)
if UNITARY in properties:  …remove…; v = self.make_unitary(v)
if len(properties) > 0: raise ValueError("Invalid properties: …")
``` -/
def createHrr (props : List PropTok) : Outcome :=
  let k : Kind := match hasP props, hasU props with
    | false, false => .plain
    | true, false => .positive
    | false, true => .unitary
    | true, true => .positiveUnitary
  if (leftover props).isEmpty then .vector k 1 false else .invalid 1 false

/-- `_get_sub_d(d)` succeeds -/
def isSquare (d : ℕ) : Bool := Nat.sqrt d * Nat.sqrt d == d

/-- `VtbAlgebra.create_vector` and `TvtbAlgebra.create_vector` (the same text up to the names;
TVTB calls `identity_element(d)`, VTB `identity_element(d, sidedness=RIGHT)`):
```
if {UNITARY, POSITIVE} <= properties:  v = identity_element(d) [_get_sub_d]; warnings.warn(…)
elif UNITARY in properties:           v = self.make_unitary(rng.randn(d))   [_get_sub_d inside]
elif POSITIVE in properties:          from scipy.linalg import sqrtm  -> ImportError
                                      sub_d = _get_sub_d(d); v = rng.randn(d); … sqrtm(M Mᵀ)
else:                                 v = rng.randn(d); v /= norm(v)
if len(properties) > 0: raise ValueError("Invalid properties: …")
```
`scipy` says whether SciPy can be imported (it cannot in the pinned environment), `sq` whether
`_get_sub_d(d)` succeeds (`isSquare d`). -/
def createMat (scipy : Bool) (sq : Bool) (props : List PropTok) : Outcome :=
  let bad := !(leftover props).isEmpty
  if hasU props && hasP props then
    if !sq then .notSquare 0
    else if bad then .invalid 0 true else .vector .identity 0 true
  else if hasU props then
    if !sq then .notSquare 1
    else if bad then .invalid 1 false else .vector .unitary 1 false
  else if hasP props then
    if !scipy then .needsSciPy
    else if !sq then .notSquare 0
    else if bad then .invalid 1 false else .vector .positive 1 false
  else
    if bad then .invalid 1 false else .vector .plain 1 false

/-- the three shipped algebras -/
inductive AlgName where
  | hrr | vtb | tvtb
deriving DecidableEq, Repr

/-- `algebra.create_vector(d, properties, rng=rng)` -/
def create (alg : AlgName) (scipy : Bool) (d : ℕ) (props : List PropTok) : Outcome :=
  match alg with
  | .hrr => createHrr props
  | .vtb => createMat scipy (isSquare d) props
  | .tvtb => createMat scipy (isSquare d) props

/-- `VectorsWithProperties.__next__`: `self.algebra.create_vector(self.d, self.properties, rng=self.rng)`
— the same call on every request: the generator never stops by itself -/
def withPropertiesNext (alg : AlgName) (scipy : Bool) (d : ℕ) (props : List PropTok) (_t : ℕ) : Outcome :=
  create alg scipy d props

/-! ### EquallySpacedPositiveUnitaryHrrVectors: the phase schedule -/

/-- `coefficient_count = (d + 1) // 2` -/
def cc (d : ℕ) : ℕ := (d + 1) / 2

/-- length of `np.arange(start=cc, stop=d % 2 - 1, step=-1)`: `cc` entries for odd `d`
(down to 1), `cc + 1` for even `d` (down to 0) -/
def nCoef (d : ℕ) : ℕ := cc d + 1 - d % 2

/-- entry `j` of that `arange`: the index of the root of unity used for Fourier coefficient `j` -/
def rootIdx (d j : ℕ) : ℕ := cc d - j

def rootIdxs (d : ℕ) : List ℕ := (List.range (nCoef d)).map (rootIdx d)

/-- The root `exp(2πi · idx / cc)` as a complex *number* has the principal argument
`2π · rootTurn` with `rootTurn ∈ [-1/2, 1/2]` (`idx/cc ∈ [0, 1]`): that is the angle the complex
power `root ** e = exp(e · Log root)` multiplies by `e`.  For the root `-1` (`2·idx = cc`) the
floating-point value `np.exp(2j·π·idx/cc)` is `-1 ± 1.2e-16j`; the sign of that rounding error
decides between `+1/2` and `-1/2` (`tie = true`: negative imaginary part, angle `-π`).  Both
directions of rotation satisfy every clause of the property; the harness reads `tie` off the
float expression, not off the generator. -/
def rootTurn (tie : Bool) (d idx : ℕ) : ℚ :=
  if 2 * idx < cc d ∨ (2 * idx = cc d ∧ tie = false) then (idx : ℚ) / (cc d : ℚ)
  else (idx : ℚ) / (cc d : ℚ) - 1

/-- `exponents_offset = coefficient_count / n * offset` -/
def exponentsOffset (d n : ℕ) (off : ℚ) : ℚ := (cc d : ℚ) / (n : ℚ) * off

/-- `np.linspace(start, stop, n, endpoint=False)[k]`: `start + k * ((stop - start) / n)` -/
def linspace (start stop : ℚ) (n k : ℕ) : ℚ := start + (k : ℚ) * ((stop - start) / (n : ℚ))

/-- `exponents[k]` as the code computes it -/
def exponent (d n : ℕ) (off : ℚ) (k : ℕ) : ℚ :=
  linspace (0 + exponentsOffset d n off) ((cc d : ℚ) + exponentsOffset d n off) n k

/-- phase (in turns) of Fourier coefficient `j` of vector `k`:
`(unity_roots[None, :] ** exponents[:, None])[k, j] = exp(2πi · coefTurn)` -/
def coefTurn (tie : Bool) (d n : ℕ) (off : ℚ) (k j : ℕ) : ℚ :=
  rootTurn tie d (rootIdx d j) * exponent d n off k

inductive SchedErr where
  | zeroDivision   -- `coefficient_count / n` with `n == 0`
deriving DecidableEq, Repr

/-- the whole `(n, d//2+1)` table of phases; `self.vectors = irfft(exp(2πi·table), n=d)` has `n`
rows, `__iter__` is `iter(self.vectors)`: request `k < n` yields row `k`, then StopIteration -/
def schedule (tie : Bool) (d n : ℕ) (off : ℚ) : Except SchedErr (List (List ℚ)) :=
  if n = 0 then .error .zeroDivision
  else .ok ((List.range n).map fun k => (List.range (nCoef d)).map fun j => coefTurn tie d n off k j)

/-- coefficient under an abstract character `E` (`E t` stands for `exp(2πi t)`) -/
def coef {M : Type*} (E : ℚ → M) (tie : Bool) (d n : ℕ) (off : ℚ) (k j : ℕ) : M :=
  E (coefTurn tie d n off k j)

end Impl

/-! ## untrusted helper for the driver: Gaussian elimination over a field (its output is
checked by `Impl.Ortho.stepFn`; nothing is proved about it) -/
namespace Elim
variable {K : Type*} [Field K] [DecidableEq K]

def reduce (n : ℕ) : (col : ℕ) → (fuel : ℕ) → (done todo : List (List K)) → Option (List (List K))
  | _, 0, done, _ => some done
  | col, fuel + 1, done, todo =>
    if col ≥ n then some done else
    match todo.find? (fun r => r.getD col 0 ≠ 0) with
    | none => none
    | some p =>
      let rest := todo.erase p
      let pv := p.getD col 0
      let pn := p.map (· / pv)
      let elim := fun (r : List K) => List.zipWith (fun a b => a - r.getD col 0 * b) r pn
      reduce n (col + 1) fuel (done.map elim ++ [pn]) (rest.map elim)

def solve (n : ℕ) (A : List (List K)) (y : List K) : Option (List K) :=
  match reduce n 0 (n + 1) [] (List.zipWith (fun r b => r ++ [b]) A y) with
  | none => none
  | some rows => some (rows.map fun r => r.getD n 0)

/-- candidate for `np.linalg.solve(vectors[:i, :i], -np.dot(vectors[:, i:], v[i:]))` -/
def cand {d : ℕ} (prev : List (Fin d → K)) (v : Fin d → K) : Option (Fin d → K) :=
  let i := prev.length
  let idx := (List.finRange d).filter (·.val < i)
  let A := prev.map fun p => idx.map fun c => p c
  let y := prev.map fun p => -(∑ c with i ≤ c.val, p c * v c)
  match solve i A y with
  | none => none
  | some x => some fun c => x.getD c.val 0

end Elim

end C19

/-
C11 — model of `nengo_spa/types.py` (core Lean only).

`Impl.*` follows the code paths of the four `__gt__` methods, the derived
comparisons of `Type`, and `coerce_types` (left-to-right `max` scan, then the
verification pass, then the reason selection on the first offender).
`Spec.*` is the documented partial order.
-/
namespace C11

/-- The type objects of `nengo_spa.types`.
`base n` is `Type(n)` (so `TScalar = base "TScalar"`), `any` is the singleton
`TAnyVocab`, `anyDim d` is `TAnyVocabOfDim(d)` and `vocab v` is
`TVocabulary(<vocabulary object number v>)`: vocabulary types compare by object
identity, which the number stands for.  The dimensionality of vocabulary `v`
is given by an arbitrary function `dim`. -/
inductive Ty where
  | base (name : String)
  | any
  | anyDim (d : Int)
  | vocab (v : Nat)
deriving DecidableEq, Repr

abbrev scalar : Ty := .base "TScalar"

namespace Impl

/-- `a == b`: `Type.__eq__` (class and name), refined by `TAnyVocabOfDim.__eq__`
(dimensions) and `TVocabulary.__eq__` (`self.vocab is other.vocab`). -/
def eq : Ty → Ty → Bool
  | .base n, .base m => n == m
  | .any, .any => true
  | .anyDim d, .anyDim e => d == e      -- super().__eq__ and dimensions equal
  | .vocab v, .vocab w => v == w        -- super().__eq__ and `is`
  | _, _ => false                       -- `self.__class__ is other.__class__` fails

/-- `_TAnyVocab.__gt__(other)`: `other == TScalar`. -/
def gtAny (o : Ty) : Bool := eq o scalar

/-- `other <= TAnyVocab`, i.e. `other < TAnyVocab or other == TAnyVocab`
with `other < TAnyVocab = TAnyVocab.__gt__(other)`. -/
def leAny (o : Ty) : Bool := gtAny o || eq o .any

/-- `TAnyVocabOfDim.__gt__(other)`: `other <= TAnyVocab`. -/
def gtAnyDim (o : Ty) : Bool := leAny o

/-- `other <= TAnyVocabOfDim(d)`. -/
def leAnyDim (d : Int) (o : Ty) : Bool := gtAnyDim o || eq o (.anyDim d)

/-- `TVocabulary.__gt__(other)`: `other <= TAnyVocabOfDim(self.vocab.dimensions)`. -/
def gtVocab (dim : Nat → Int) (v : Nat) (o : Ty) : Bool := leAnyDim (dim v) o

/-- `a.__gt__(b)` dispatched on the class of `a`; `Type.__gt__` is `False`. -/
def gt (dim : Nat → Int) : Ty → Ty → Bool
  | .base _, _ => false
  | .any, o => gtAny o
  | .anyDim _, o => gtAnyDim o
  | .vocab v, o => gtVocab dim v o

/-- `Type.__lt__`: `other.__gt__(self)`. -/
def lt (dim : Nat → Int) (a b : Ty) : Bool := gt dim b a
/-- `Type.__le__`: `self < other or self == other`. -/
def le (dim : Nat → Int) (a b : Ty) : Bool := lt dim a b || eq a b
/-- `Type.__ge__`: `self > other or self == other`. -/
def ge (dim : Nat → Int) (a b : Ty) : Bool := gt dim a b || eq a b
/-- `Type.__ne__`. -/
def ne (a b : Ty) : Bool := !eq a b

/-- What `__hash__` is computed from: the class, the name and (after the fix of
defect 7.7) the dimensions, resp. the vocabulary object.  Two types with equal
keys have equal Python hashes. -/
inductive HashKey where
  | k (cls : Nat) (name : String) (extra : Int)
deriving DecidableEq, Repr

def hashKey : Ty → HashKey
  | .base n => .k 0 n 0
  | .any => .k 1 "TAnyVocab" 0
  | .anyDim d => .k 2 "TAnyVocabOfDim" d
  | .vocab v => .k 3 "TVocabulary" v

/-- Python's `max(first, *rest)`: keep the running maximum, replace it when
`item > maximum`. -/
def maxScan (dim : Nat → Int) (m : Ty) : List Ty → Ty
  | [] => m
  | x :: xs => maxScan dim (if gt dim x m then x else m) xs

inductive Reason where
  | differentVocab | dimMismatch | incompatible
deriving DecidableEq, Repr

/-- `hasattr(t, "vocab")` / the attribute. -/
def vocabOf : Ty → Option Nat
  | .vocab v => some v
  | _ => none

/-- `hasattr(t, "dimensions")` / the attribute. -/
def dimsOf (dim : Nat → Int) : Ty → Option Int
  | .anyDim d => some d
  | .vocab v => some (dim v)
  | _ => none

def reason (dim : Nat → Int) (offender top : Ty) : Reason :=
  match vocabOf offender, vocabOf top with
  | some a, some b => if a ≠ b then .differentVocab else
      match dimsOf dim offender, dimsOf dim top with
      | some d, some e => if d ≠ e then .dimMismatch else .incompatible
      | _, _ => .incompatible
  | _, _ =>
      match dimsOf dim offender, dimsOf dim top with
      | some d, some e => if d ≠ e then .dimMismatch else .incompatible
      | _, _ => .incompatible

/-- the verification pass: `all(t <= type_ for t in types)`, and the reason
selected on the first offender -/
def verify (dim : Nat → Int) (top : Ty) (l : List Ty) : Except Reason Ty :=
  match l.find? (fun u => !le dim u top) with
  | none => .ok top
  | some offender => .error (reason dim offender top)

/-- `coerce_types(t, *ts)`. -/
def coerce (dim : Nat → Int) (t : Ty) (ts : List Ty) : Except Reason Ty :=
  verify dim (maxScan dim t ts) (t :: ts)

instance : DecidableEq (Except Reason Ty) := fun a b =>
  match a, b with
  | .ok x, .ok y => if h : x = y then isTrue (by rw [h]) else isFalse (by intro e; cases e; exact h rfl)
  | .error x, .error y => if h : x = y then isTrue (by rw [h]) else isFalse (by intro e; cases e; exact h rfl)
  | .ok _, .error _ => isFalse (by intro e; cases e)
  | .error _, .ok _ => isFalse (by intro e; cases e)

end Impl

namespace Spec

/-- The documented strict order: scalar < any < any-of-d < vocabulary of
dimensionality d (transitively closed), and nothing else. -/
inductive lt (dim : Nat → Int) : Ty → Ty → Prop where
  | scalar_any : lt dim scalar .any
  | scalar_anyDim (d : Int) : lt dim scalar (.anyDim d)
  | scalar_vocab (v : Nat) : lt dim scalar (.vocab v)
  | any_anyDim (d : Int) : lt dim .any (.anyDim d)
  | any_vocab (v : Nat) : lt dim .any (.vocab v)
  | anyDim_vocab (v : Nat) : lt dim (.anyDim (dim v)) (.vocab v)

def le (dim : Nat → Int) (a b : Ty) : Prop := a = b ∨ lt dim a b

/-- `t` is the most specific member: a member every other member can be cast to. -/
def IsGreatest (dim : Nat → Int) (l : List Ty) (t : Ty) : Prop :=
  t ∈ l ∧ ∀ u ∈ l, le dim u t

end Spec
end C11

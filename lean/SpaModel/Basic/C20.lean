/-
C20 — model of `nengo_spa/examine.py` (`similarity`, `text`, `pairs`); core Lean
and core `Rat` only.

`Impl.*` follows the code paths of the three functions: the normalisation of
the `vocab` argument to a 2-D matrix (Vocabulary / ndarray / list of arrays /
list of pointers, with the exceptions the real code raises), `np.dot`, the
optional division by `np.maximum(norm, eps)` (two successive divisions, as
written), the transposition; the tuple sort + reverse and the
minimum/maximum/threshold loop of `text` with its `if/elif/elif/else` order, the
`f"{sim:0.2f}{key}"` formatting (correct rounding of the exact value to two
decimals, ties to even, sign kept for negative values that round to zero) and
`join`; `itertools.combinations(keys, 2)` of `pairs`.

`Spec.*` is the property's own elementary vocabulary: the index formula of a
dot product, "is a prefix", "the unordered pairs of keys".

The Euclidean norm is irrational in general, so the model is parametrised by
the function `nrm : Vec → Rat` that stands for `npext.norm` / `np.linalg.norm`;
the theorems assume of it, pointwise, only `0 ≤ nrm v ∧ nrm v * nrm v = v·v`.
The driver instantiates it with the exact rational square root (`nrmQ`) and
refuses vectors whose norm is irrational.
-/
namespace C20

abbrev Vec := List Rat

/-- a `(similarity, key)` tuple of `text` -/
abbrev Match := Rat × String

namespace Impl

/-- `np.dot` of two 1-D arrays of the same length (the shape check happens
before this is called, see `similarity`). -/
def dot : Vec → Vec → Rat
  | x :: xs, y :: ys => x * y + dot xs ys
  | _, _ => 0

/-- the exceptions of the modelled paths -/
inductive Err where
  /-- `np.dot` "shapes not aligned" or `np.array` "inhomogeneous shape": `ValueError` -/
  | shape
  /-- the `else: raise ValidationError(...)` branch (not iterable) -/
  | notVocab
  /-- `text`: `SemanticPointer(v)` with `v.ndim != 1` -/
  | notVector
deriving DecidableEq, Repr

/-- the `data` argument -/
inductive Data where
  /-- ndarray of shape `(d,)` -/
  | vec (x : Vec)
  /-- a `SemanticPointer` (`data = data.v`) -/
  | pointer (x : Vec)
  /-- ndarray of shape `(T, d)`, `T ≥ 0`; every row has length `d` (ndarray invariant) -/
  | series (d : Nat) (rows : List Vec)
deriving Repr

/-- the `vocab` argument -/
inductive VocabArg where
  /-- a `Vocabulary` of dimensionality `d`: `vectors = vocab.vectors`, shape `(N, d)`, `N ≥ 0` -/
  | vocabulary (d : Nat) (rows : List Vec)
  /-- ndarray of shape `(N, d)` (every row has length `d`) -/
  | array2 (d : Nat) (rows : List Vec)
  /-- ndarray of shape `(d,)`; `np.array(vocab, ndmin=2)` makes it `(1, d)` -/
  | array1 (v : Vec)
  /-- list / tuple of 1-D arrays or lists (possibly ragged) -/
  | listArrays (rows : List Vec)
  /-- list / tuple whose first element is a `SemanticPointer`: `vocab = [p.v for p in vocab]` -/
  | listPointers (rows : List Vec)
  /-- anything that is not iterable -/
  | notIterable
deriving Repr

/-- the returned array: shape `(N,)` or `(T, N)` -/
inductive Out where
  | flat (l : List Rat)
  | mat (n : Nat) (rows : List (List Rat))
deriving DecidableEq, Repr

def Out.shape : Out → List Nat
  | .flat l => [l.length]
  | .mat n rows => [rows.length, n]

/-- `np.array(rows, ndmin=2)` for a list of 1-D arrays: `(N, d')` with `d'` the
common length, `ValueError` when the lengths differ.  The empty list becomes an
array of shape `(1, 0)` (one vector of dimension 0), so it is refused by the
shape check of `np.dot` for every data of dimension > 0.
(`next(iter(vocab), None)` no longer raises on an empty iterable.) -/
def stack : List Vec → Except Err (Nat × List Vec)
  | [] => .ok (0, [[]])
  | r :: rs => if rs.all (fun v => v.length == r.length) then .ok (r.length, r :: rs) else .error .shape

/-- lines 36–45: the 2-D matrix `vectors` and its second dimension. -/
def vectorsOf : VocabArg → Except Err (Nat × List Vec)
  | .vocabulary d rows => .ok (d, rows)
  | .array2 d rows => .ok (d, rows)          -- also for N = 0: shape (0, d)
  | .array1 v => .ok (v.length, [v])
  | .listArrays rows => stack rows
  | .listPointers rows => stack rows
  | .notIterable => .error .notVocab

/-- `np.maximum(norm, eps)` -/
def floorNorm (nrm : Vec → Rat) (eps : Rat) (v : Vec) : Rat :=
  if nrm v < eps then eps else nrm v

/-- one entry of the result: `dots[i, t]`, then `dots /= dnorm; dots /= vnorm`. -/
def entry (nrm : Vec → Rat) (eps : Rat) (normalize : Bool) (x v : Vec) : Rat :=
  if normalize then dot v x / floorNorm nrm eps x / floorNorm nrm eps v else dot v x

/-- `similarity(data, vocab, normalize)`. -/
def similarity (nrm : Vec → Rat) (eps : Rat) (data : Data) (vocab : VocabArg) (normalize : Bool) :
    Except Err Out :=
  match vectorsOf vocab with
  | .error e => .error e
  | .ok (d', rows) =>
    match data with
    | .vec x | .pointer x =>
      if d' = x.length then .ok (.flat (rows.map (entry nrm eps normalize x))) else .error .shape
    | .series d xs =>
      if d' = d then .ok (.mat rows.length (xs.map fun x => rows.map (entry nrm eps normalize x)))
      else .error .shape

/-! ### `text` -/

/-- `SemanticPointer.normalized`: `nrm = norm(v); if nrm <= 0: nrm = 1; v / nrm`. -/
def normalized (nrm : Vec → Rat) (v : Vec) : Vec :=
  let n := nrm v
  let n := if n ≤ 0 then 1 else n
  v.map (· / n)

/-- `<=` of the tuples `(sim, key)` as `list.sort` uses it. -/
def leM (a b : Match) : Bool := decide (a.1 < b.1 ∨ (a.1 = b.1 ∧ a.2 ≤ b.2))

/-- `matches.sort(); matches.reverse()`.  (The order on tuples is total, so the
sorted list is unique whatever the sorting algorithm.) -/
def sortedDesc (ms : List Match) : List Match := (ms.mergeSort leM).reverse

/-- `minimum_count is not None and len(r) < minimum_count` -/
def belowMin (minimum : Option Int) (k : Nat) : Bool :=
  match minimum with
  | some mn => decide ((k : Int) < mn)
  | none => false

/-- `maximum_count is not None and len(r) == maximum_count` -/
def atMax (maximum : Option Int) (k : Nat) : Bool :=
  match maximum with
  | some mx => decide ((k : Int) = mx)
  | none => false

/-- `threshold is None or m[0] > threshold` -/
def above (threshold : Option Rat) (s : Rat) : Bool :=
  match threshold with
  | none => true
  | some t => decide (t < s)

/-- the `for m in matches:` loop with the accumulator `r`. -/
def loop (minimum maximum : Option Int) (threshold : Option Rat) : List Match → List Match → List Match
  | [], r => r
  | m :: ms, r =>
    if belowMin minimum r.length then loop minimum maximum threshold ms (r ++ [m])
    else if atMax maximum r.length then r
    else if above threshold m.1 then loop minimum maximum threshold ms (r ++ [m])
    else r

/-- hundredths of `x` rounded to nearest, ties to even (what `%.2f` prints for
the exact value `x`).  `Int./` and `%` are floor division for the positive
divisor `x.den`. -/
def round2 (x : Rat) : Int :=
  let p := 100 * x.num
  let q : Int := x.den
  let f := p / q
  let r := p % q
  if 2 * r < q then f else if q < 2 * r then f + 1 else if f % 2 = 0 then f else f + 1

def pad2 (n : Nat) : String := if n < 10 then "0" ++ toString n else toString n

/-- `f"{x:0.2f}"`: sign (kept for negative values that round to zero, as C's
`printf` does), integer part, point, two digits. -/
def fmt2 (x : Rat) : String :=
  let h := (round2 x).natAbs
  (if x < 0 then "-" else "") ++ toString (h / 100) ++ "." ++ pad2 (h % 100)

/-- `f"{sim:0.2f}{key}"` -/
def fmtMatch (m : Match) : String := fmt2 m.1 ++ m.2

/-- a `Vocabulary` as `text` uses it: dimensionality, keys in insertion order
with their vectors -/
structure Vocab where
  d : Nat
  entries : List (String × Vec)
deriving Repr

/-- the selected matches of `text` (the list `r` at the end of the loop).
`parse` stands for `vocab.parse` (C10's subject). -/
def textMatches (nrm : Vec → Rat) (eps : Rat) (parse : String → Vec) (v : Data) (vocab : Vocab)
    (minimum maximum : Option Int) (threshold : Option Rat) (terms : Option (List String))
    (normalize : Bool) : Except Err (List Match) :=
  match v with
  | .series _ _ => .error .notVector        -- SemanticPointer(v): 'data' must be a vector
  | .vec x | .pointer x =>
    let x := if normalize then normalized nrm x else x
    let (terms, vectors) : List String × VocabArg :=
      match terms with
      | none => (vocab.entries.map (·.1), .array2 vocab.d (vocab.entries.map (·.2)))
      | some ts => (ts, .listPointers (ts.map parse))
    match similarity nrm eps (.pointer x) vectors false with
    | .error e => .error e
    | .ok (.mat _ _) => .error .shape         -- unreachable: 1-D data gives a 1-D result
    | .ok (.flat sims) =>
      .ok (loop minimum maximum threshold (sortedDesc (sims.zip terms)) [])

/-- `text(v, vocab, minimum_count, maximum_count, threshold, join, terms, normalize)` -/
def text (nrm : Vec → Rat) (eps : Rat) (parse : String → Vec) (v : Data) (vocab : Vocab)
    (minimum maximum : Option Int) (threshold : Option Rat) (join : String)
    (terms : Option (List String)) (normalize : Bool) : Except Err String :=
  match textMatches nrm eps parse v vocab minimum maximum threshold terms normalize with
  | .error e => .error e
  | .ok r => .ok (join.intercalate (r.map fmtMatch))

/-! ### `pairs` -/

/-- `itertools.combinations(l, 2)`, in its order -/
def combos {α : Type} : List α → List (α × α)
  | [] => []
  | x :: xs => xs.map (fun y => (x, y)) ++ combos xs

/-- `pairs(vocab)`; the Python `set` is this list up to order and repetition. -/
def pairs (keys : List String) : List String := (combos keys).map fun p => p.1 ++ "*" ++ p.2

/-! ### the driver's norm: exact rational square roots -/

def sqrtQ (q : Rat) : Rat := mkRat (Int.ofNat (Nat.sqrt q.num.toNat)) (Nat.sqrt q.den)

/-- the Euclidean norm when it is rational -/
def nrmQ (v : Vec) : Option Rat :=
  let r := sqrtQ (dot v v)
  if r * r = dot v v ∧ 0 ≤ r then some r else none

end Impl

namespace Spec

/-- the defining formula of a dot product: `Σ_{k<d} x[k]·v[k]` -/
def dot (x v : Vec) : Rat :=
  ((List.range x.length).map fun k => x.getD k 0 * v.getD k 0).sum

def IsZero (v : Vec) : Prop := ∀ a ∈ v, a = 0

/-- `n` is the Euclidean norm of `v` -/
def IsNormOf (n : Rat) (v : Vec) : Prop := 0 ≤ n ∧ n * n = dot v v

/-- every non-zero entry has magnitude at least `eps` (true of IEEE doubles for
`eps = np.nextafter(0, 1)`, the smallest positive double) -/
def OnGrid (eps : Rat) (v : Vec) : Prop := ∀ a ∈ v, a ≠ 0 → eps ≤ a ∨ a ≤ -eps

def isZeroB (v : Vec) : Bool := v.all (· == 0)

/-- the cosine, with 0 for a zero vector on either side; `nrm` gives the lengths -/
def cosine (nrm : Vec → Rat) (x v : Vec) : Rat :=
  if isZeroB x || isZeroB v then 0 else dot x v / (nrm x * nrm v)

/-- tuple order of `(sim, key)` -/
def le (a b : Match) : Prop := a.1 < b.1 ∨ (a.1 = b.1 ∧ a.2 ≤ b.2)

/-- `s` names an unordered pair of keys: the two keys at positions `i < j` -/
def IsPair (keys : List String) (s : String) : Prop :=
  ∃ i j, ∃ (_ : i < j) (hj : j < keys.length), s = keys[i] ++ "*" ++ keys[j]

end Spec
end C20

/-
C04 — model of the routing built by `ActionSelection._build`
(`nengo_spa/action_selection.py`) through the helpers of `Thalamus`
(`nengo_spa/modules/thalamus.py`), `BasalGanglia.connect_input`
(`nengo_spa/modules/basalganglia.py`), `RoutedConnection.fixed/transform`
(`nengo_spa/connectors.py`) and the neuron-level input of the channel
(`IdentityEnsembleArray.add_neuron_input`, `EnsembleArray.add_neuron_input`).
Core Lean + core `Rat` only.

`Impl.*`  the code paths: the wiring record `Impl.build` produces and the
          idealised steady-state semantics of that wiring (`Impl.deliver`);
`Spec.*`  the property's own statement: what a target must receive when action
          `k` is selected, read off the rule set directly.

What is NOT in this model (validated by simulation only, see harness/c04.py):
that basal ganglia + thalamus turn "utility k exceeds the others by a clear
margin" into a thalamus output close to the one-hot vector `e_k`, and that
neurons inhibited with weight `-route_inhibit` are really silent.
-/
import SpaModel.Generated.Tables

namespace C04

/-- The source of a routed effect `source >> sink`.
Fixed sources (`isinstance(source, Fixed)`) carry the value
`source.evaluate()` (`.v` of the pointer, or the number); dynamic sources are
AST nodes identified by a number, their current output is given by an
environment `env : id → component → value`. -/
inductive Src where
  | fixedPointer (v : List Rat)
  | fixedScalar (x : Rat)
  | dynPointer (id : Nat) (dim : Nat)
  | dynScalar (id : Nat)
deriving DecidableEq, Repr

/-- `RoutedConnection(source, sink)`; `target` numbers the sink object. -/
structure Effect where
  src : Src
  target : Nat
deriving DecidableEq, Repr

/-- the tuple `actions` of one `ifmax` call -/
abbrev Action := List Effect
/-- `ActionSelection._actions` (index-aligned with `_utilities`) -/
abbrev Rules := List Action

/-- numeric parameters of `Thalamus` the routing depends on -/
structure Params where
  thresholdGate : Rat
  routeInhibit : Rat
  mutualInhibit : Rat
  thresholdAction : Rat
deriving DecidableEq, Repr

/-- configuration the channel modules are created with
(`StateRealization(vocab=…)`, `ScalarRealization()` use the defaults of the
enclosing network's config). -/
structure ChanCfg where
  npd : Nat            -- State.neurons_per_dimension
  sub : Nat            -- State.subdimensions
  ccIdentity : Bool    -- State.represent_cc_identity
  scalarNeurons : Nat  -- Scalar.n_neurons
deriving DecidableEq, Repr

inductive Err where
  | index        -- IndexError: `actions.ensembles[index]`, `bg.input[index]`
  | key          -- KeyError: `self.gates[index]`
  | validation   -- ValidationError of `State.__init__`
deriving DecidableEq, Repr

/-- a gate ensemble as `construct_gate` wires it -/
structure Gate where
  gid : Nat         -- object identity: number of gates created before
  label : Nat       -- `"gate[%d]" % index`
  biasW : Rat       -- `Connection(bias, gate)`: bias node outputs 1, no transform
  unit : Nat        -- `self.actions.ensembles[index]`
  unitW : Rat       -- `transform=-1`
  threshold : Rat   -- `intercepts = Uniform(self.threshold_gate, 1)`, encoders `[[1]] * n`
deriving DecidableEq, Repr

inductive ChanKind where
  | scalar
  | state (d : Nat)
deriving DecidableEq, Repr

/-- a channel as `construct_channel`, `effect.connect_to(channel.input)` and
`connect_gate` wire it -/
structure Channel where
  kind : ChanKind
  source : Nat                -- id of the dynamic source feeding `channel.input`
  target : Nat                -- `Connection(channel.output, sink)`
  ensembles : List Nat        -- neuron counts of the channel's ensembles (`all_ensembles` order)
  sizeIn : Nat                -- `target.size_in` in `connect_gate`
  slices : List (Nat × Nat)   -- `[i, i + ens.n_neurons)` of the neuron input, per ensemble
  inhibit : List Rat          -- rows of `[[-route_inhibit]] * target.size_in`
  gate : Gate                 -- `self.gates[index]`, the pre of the inhibiting connection
deriving DecidableEq, Repr

/-- what `_build` creates for one effect -/
inductive EW where
  | fixed (unit target : Nat) (col : List Rat)
  | gated (made : Gate) (c : Channel)
deriving DecidableEq, Repr

/-- the part of the `Thalamus` object the helpers read and write -/
structure Thal where
  actionCount : Nat
  gates : List (Nat × Gate)   -- the dict `self.gates` (newest binding first)
  created : Nat               -- number of gate ensembles created so far
deriving DecidableEq, Repr

structure Wiring where
  actionCount : Nat           -- `BasalGangliaRealization(n)`, `ThalamusRealization(n)`
  bgInputs : List (Nat × Nat) -- (utility node number, index of `bg.input[index]`)
  effects : List (List EW)    -- per action, per effect
  gatesDict : List (Nat × Gate)
deriving DecidableEq, Repr

namespace Impl

/-- `effect.fixed` -/
def isFixed : Src → Bool
  | .fixedPointer _ => true
  | .fixedScalar _ => true
  | _ => false

/-- `effect.transform()`: the number for a scalar effect, else
`np.atleast_2d(v).T`, a d×1 column (given by its entries). -/
def transformOf : Src → List Rat
  | .fixedPointer v => v
  | .fixedScalar x => [x]
  | _ => []

/-- `for index, utility in enumerate(self._utilities): self.bg.connect_input(utility, index=index)`
with `bg.input[index]` raising for an index outside the node. -/
def connectInputs (n : Nat) : Nat → List α → Except Err (List (Nat × Nat))
  | _, [] => .ok []
  | index, _ :: rest =>
    if index < n then
      match connectInputs n (index + 1) rest with
      | .ok l => .ok ((index, index) :: l)
      | .error e => .error e
    else .error .index

/-- `construct_gate(index, bias)` -/
def constructGate (P : Params) (index : Nat) (st : Thal) : Except Err (Gate × Thal) :=
  if index < st.actionCount then
    let g : Gate := { gid := st.created, label := index, biasW := 1, unit := index,
                      unitW := -1, threshold := P.thresholdGate }
    .ok (g, { st with gates := (index, g) :: st.gates, created := st.created + 1 })
  else .error .index

/-- neuron counts of the ensembles of a `State(d)` channel in `all_ensembles`
order: `IdentityEnsembleArray` (first, second, remainder…) or a plain
`EnsembleArray`; `State.__init__` raises unless `subdimensions` divides `d`. -/
def stateEnsembles (cfg : ChanCfg) (d : Nat) : Except Err (List Nat) :=
  if cfg.sub = 0 ∨ d % cfg.sub ≠ 0 then .error .validation
  else if cfg.ccIdentity then
    .ok ([cfg.npd]
      ++ (if cfg.sub > 1 then [cfg.npd * (cfg.sub - 1)] else [])
      ++ (if d > cfg.sub then List.replicate (d / cfg.sub - 1) (cfg.npd * cfg.sub) else []))
  else .ok (List.replicate (d / cfg.sub) (cfg.npd * cfg.sub))

/-- `size_in` of the node `add_neuron_input` creates -/
def neuronInputSize (cfg : ChanCfg) (d : Nat) : Nat :=
  if cfg.ccIdentity then cfg.npd * d else (cfg.npd * cfg.sub) * (d / cfg.sub)

/-- `i = 0; for ens in all_ensembles: slice [i, i + n); i += n` -/
def slicesFrom : Nat → List Nat → List (Nat × Nat)
  | _, [] => []
  | i, n :: rest => (i, i + n) :: slicesFrom (i + n) rest

/-- `lookup` in the dict `self.gates` -/
def lookupGate : List (Nat × Gate) → Nat → Except Err Gate
  | [], _ => .error .key
  | (k, g) :: rest, index => if k = index then .ok g else lookupGate rest index

/-- `construct_channel(sink, type_)` + `effect.connect_to(channel.input)` +
`connect_gate(index, channel)` -/
def constructChannel (P : Params) (cfg : ChanCfg) (index : Nat) (st : Thal)
    (kind : ChanKind) (source target : Nat) : Except Err Channel :=
  match kind with
  | .scalar =>
    match lookupGate st.gates index with
    | .error e => .error e
    | .ok g =>
      .ok { kind := .scalar, source := source, target := target,
            ensembles := [cfg.scalarNeurons], sizeIn := cfg.scalarNeurons,
            slices := slicesFrom 0 [cfg.scalarNeurons],
            inhibit := List.replicate cfg.scalarNeurons (-P.routeInhibit), gate := g }
  | .state d =>
    match stateEnsembles cfg d with
    | .error e => .error e
    | .ok ens =>
      match lookupGate st.gates index with
      | .error e => .error e
      | .ok g =>
        .ok { kind := .state d, source := source, target := target,
              ensembles := ens, sizeIn := neuronInputSize cfg d,
              slices := slicesFrom 0 ens,
              inhibit := List.replicate (neuronInputSize cfg d) (-P.routeInhibit), gate := g }

/-- the body of the inner loop of `_build` for one effect of action `index` -/
def buildEffect (P : Params) (cfg : ChanCfg) (index : Nat) (st : Thal) (e : Effect) :
    Except Err (EW × Thal) :=
  match e.src with
  | .fixedPointer v =>
    -- `connect_fixed(index, sink.input, transform)`: `self.actions.ensembles[index]`
    if index < st.actionCount then .ok (.fixed index e.target (transformOf (.fixedPointer v)), st)
    else .error .index
  | .fixedScalar x =>
    if index < st.actionCount then .ok (.fixed index e.target (transformOf (.fixedScalar x)), st)
    else .error .index
  | .dynPointer id d =>
    match constructGate P index st with
    | .error err => .error err
    | .ok (g, st') =>
      match constructChannel P cfg index st' (.state d) id e.target with
      | .error err => .error err
      | .ok c => .ok (.gated g c, st')
  | .dynScalar id =>
    match constructGate P index st with
    | .error err => .error err
    | .ok (g, st') =>
      match constructChannel P cfg index st' .scalar id e.target with
      | .error err => .error err
      | .ok c => .ok (.gated g c, st')

/-- `for effect in action:` -/
def buildEffects (P : Params) (cfg : ChanCfg) (index : Nat) :
    Thal → List Effect → Except Err (List EW × Thal)
  | st, [] => .ok ([], st)
  | st, e :: rest =>
    match buildEffect P cfg index st e with
    | .error err => .error err
    | .ok (w, st') =>
      match buildEffects P cfg index st' rest with
      | .error err => .error err
      | .ok (ws, st'') => .ok (w :: ws, st'')

/-- `for index, action in enumerate(self._actions):` -/
def buildActions (P : Params) (cfg : ChanCfg) :
    Nat → Thal → List Action → Except Err (List (List EW) × Thal)
  | _, st, [] => .ok ([], st)
  | index, st, a :: rest =>
    match buildEffects P cfg index st a with
    | .error err => .error err
    | .ok (ws, st') =>
      match buildActions P cfg (index + 1) st' rest with
      | .error err => .error err
      | .ok (wss, st'') => .ok (ws :: wss, st'')

/-- `ActionSelection._build`: nothing is built for an empty block. -/
def build (P : Params) (cfg : ChanCfg) (rules : Rules) : Except Err (Option Wiring) :=
  if rules.length = 0 then .ok none
  else
    let n := rules.length
    match connectInputs n 0 rules with
    | .error e => .error e
    | .ok ins =>
      match buildActions P cfg 0 { actionCount := n, gates := [], created := 0 } rules with
      | .error e => .error e
      | .ok (eff, st) => .ok (some { actionCount := n, bgInputs := ins, effects := eff,
                                     gatesDict := st.gates })

/-! ### idealised steady-state semantics of a wiring -/

/-- A gate has positive encoders and intercepts ≥ `threshold`: it fires iff its
input `bias·1 + unitW·a[unit]` exceeds the threshold. -/
def gateActive (a : Nat → Rat) (g : Gate) : Bool :=
  decide (g.threshold < g.biasW * 1 + g.unitW * a g.unit)

/-- the weights reaching the neurons of each ensemble of the channel -/
def neuronWeights (c : Channel) : List (List Rat) :=
  c.slices.map (fun se => (c.inhibit.drop se.1).take (se.2 - se.1))

/-- every neuron of every ensemble of the channel receives a negative weight -/
def fullyInhibits (c : Channel) : Bool :=
  c.slices.length == c.ensembles.length &&
  (List.zip c.ensembles (neuronWeights c)).all
    (fun nw => nw.2.length == nw.1 && nw.2.all (fun w => decide (w < 0)))

/-- component `comp` of what a channel of this kind transmits -/
def chanPass (env : Nat → Nat → Rat) (comp : Nat) (c : Channel) : Rat :=
  match c.kind with
  | .scalar => if comp = 0 then env c.source 0 else 0
  | .state d => if comp < d then env c.source comp else 0

/-- an inhibited channel outputs 0, an uninhibited one passes its input; a gate
that does not reach every neuron leaves the channel open -/
def chanOut (a : Nat → Rat) (env : Nat → Nat → Rat) (comp : Nat) (c : Channel) : Rat :=
  if gateActive a c.gate && fullyInhibits c then 0 else chanPass env comp c

def ewTarget : EW → Nat
  | .fixed _ t _ => t
  | .gated _ c => c.target

/-- a fixed effect delivers `a[unit] · transform`, a gated one the channel output -/
def ewOut (a : Nat → Rat) (env : Nat → Nat → Rat) (comp : Nat) : EW → Rat
  | .fixed u _ col => a u * col.getD comp 0
  | .gated _ c => chanOut a env comp c

def ewInto (a : Nat → Rat) (env : Nat → Nat → Rat) (t comp : Nat) (w : EW) : Rat :=
  if ewTarget w = t then ewOut a env comp w else 0

/-- contribution of the wiring of one action to component `comp` of target `t` -/
def actionInto (a : Nat → Rat) (env : Nat → Nat → Rat) (t comp : Nat) (ws : List EW) : Rat :=
  (ws.map (ewInto a env t comp)).sum

/-- contributions into one target add -/
def deliver (a : Nat → Rat) (env : Nat → Nat → Rat) (t comp : Nat) (eff : List (List EW)) : Rat :=
  (eff.map (actionInto a env t comp)).sum

/-- thalamus output with action `k` selected -/
def onehot (k : Nat) : Nat → Rat := fun i => if i = k then 1 else 0

/-! ### utilities and the handle returned by `ifmax` -/

/-- per utility node (a pass-through `Node(size_in=1)`) the signals connected into it -/
structure Block where
  utilInputs : List (List Rat)
deriving DecidableEq, Repr

/-- `ifmax(condition, …)`: `add_action` appends a fresh utility node,
`condition.connect_to(utility)`, and the node itself is returned. -/
def ifmax (b : Block) (cond : Rat) : Block × Nat :=
  ({ utilInputs := b.utilInputs ++ [[cond]] }, b.utilInputs.length)

/-- `x >> handle`: one more connection into that node -/
def sendTo (b : Block) (h : Nat) (x : Rat) : Block :=
  { utilInputs := b.utilInputs.modify h (· ++ [x]) }

/-- value of utility node `i` (a pass-through node outputs the sum of its inputs) -/
def utility (b : Block) (i : Nat) : Rat := (b.utilInputs.getD i []).sum

/-- what arrives at `bg.input[j]` through the connections `bgInputs` -/
def bgInput (b : Block) (ins : List (Nat × Nat)) (j : Nat) : Rat :=
  ((ins.filter (fun p => p.2 = j)).map (fun p => utility b p.1)).sum

/-! ### the thalamus map (idealised, used only for a fixed-point statement) -/

/-- an `actions` ensemble has positive encoders and intercepts ≥ `threshold_action` -/
def rect (P : Params) (x : Rat) : Rat := if x < P.thresholdAction then 0 else x

def sumOthers (a : Nat → Rat) (i : Nat) : Nat → Rat
  | 0 => 0
  | n + 1 => sumOthers a i n + (if n = i then 0 else a n)

/-- one application of `bias + bg − mutual_inhibit·(others)` followed by the rectification -/
def thalStep (P : Params) (n : Nat) (bg a : Nat → Rat) (i : Nat) : Rat :=
  rect P (1 + bg i + (-P.mutualInhibit) * sumOthers a i n)

/-! ### parameters from the generated table -/

def lookupConst (tbl : List (String × Int × Nat)) (name : String) : Option Rat :=
  match tbl.find? (fun r => r.1 == name) with
  | some (_, num, den) => if den = 0 then none else some ((num : Rat) / (den : Rat))
  | none => none

def paramsOfTable (tbl : List (String × Int × Nat)) : Option Params := do
  let tg ← lookupConst tbl "threshold_gate"
  let ri ← lookupConst tbl "route_inhibit"
  let mi ← lookupConst tbl "mutual_inhibit"
  let ta ← lookupConst tbl "threshold_action"
  pure { thresholdGate := tg, routeInhibit := ri, mutualInhibit := mi, thresholdAction := ta }

/-- the defaults of `Thalamus` as found in the source tree by `gen_tables.py` -/
def defaultParams : Option Params := paramsOfTable Generated.thalamusDefaults

end Impl

namespace Spec

/-- component `comp` of the value the effect declares -/
def value (env : Nat → Nat → Rat) (comp : Nat) : Src → Rat
  | .fixedPointer v => v.getD comp 0
  | .fixedScalar x => if comp = 0 then x else 0
  | .dynPointer id d => if comp < d then env id comp else 0
  | .dynScalar id => if comp = 0 then env id 0 else 0

/-- the sum of the effects of one action aimed at target `t` -/
def actionSum (env : Nat → Nat → Rat) (t comp : Nat) (act : Action) : Rat :=
  (act.map (fun e => if e.target = t then value env comp e.src else 0)).sum

/-- what target `t` must receive while action `k` is selected -/
def routed (rules : Rules) (env : Nat → Nat → Rat) (k t comp : Nat) : Rat :=
  actionSum env t comp (rules.getD k [])

/-- the parameters under which the idealised gate separates "selected" (1) from
"not selected" (0) and the inhibition is inhibitory -/
structure Admissible (P : Params) : Prop where
  gate_nonneg : 0 ≤ P.thresholdGate
  gate_lt_one : P.thresholdGate < 1
  inhibit_pos : 0 < P.routeInhibit

/-- every dynamic pointer effect has a dimensionality a `State` accepts -/
def WellFormed (cfg : ChanCfg) (rules : Rules) : Prop :=
  0 < cfg.sub ∧ ∀ act ∈ rules, ∀ e ∈ act, ∀ id d, e.src = .dynPointer id d → 0 < d ∧ d % cfg.sub = 0

end Spec
end C04

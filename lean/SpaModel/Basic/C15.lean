/-
C15 — model of `nengo_spa/modules/associative_memory.py`
(`AssociativeMemory.__init__`, `add_default_output`) and of the *ideal* input/output
behaviour of the selection networks of `nengo_spa/networks/selection.py`.

Everything is over an arbitrary commutative ring `R` (the linear part) resp. an
arbitrary linearly ordered field (the selection part), for every dimensionality of
the input and the output vocabulary and mappings of every size.  Vectors are
functions `Fin d → R`; the index of the stored keys is a list position (the code
builds Python lists / the rows of `np.asarray(...)`).

`Impl.*` follows the code:

* `normalise` – the branches that turn the `mapping` argument (None / `'by-key'` /
  another string / a sequence of keys / a dict) into the ordered list of
  `(input key, output key)` pairs, with the exception the code raises in each
  rejected case;
* `build` – `input_vectors = [input_vocab.parse(k).v for k in input_keys]`,
  `output_vectors = [output_vocab.parse(mapping[k]).v …]`: two lists built
  *separately*, in the order of `input_keys` (what `vocab.parse` returns is a
  parameter of the model: evaluating the expressions is the subject of C10);
* `selInput` – `Connection(input, selection.input, transform=input_vectors)`;
* `readOut` – `Connection(selection.output, output, transform=output_vectors.T)`;
* `defaultDrive` – the three connections of `add_default_output`
  (bias `1`, `−1/min_activation_value` from every selection output);
* `outputDirect` – what the wiring computes when every ensemble is the identity
  (`nengo.Direct()`; there `Thresholding` is `x ↦ (x − θ) + θ = x`).

The selection functions `selThreshold`, `selWTA`, `selIA` and the rectified
`defaultGate` are the *documented ideal* behaviour of the neural networks
(`Thresholding`: "inputs below the threshold produce 0, inputs above produce an
output of equal value"; `WTA`: the single largest supra-threshold input survives the
lateral inhibition; `IA`: the accumulator that wins is reported as `1`
(`function=lambda x: x > accum_threshold`); `ThresholdingEnsembles(0.0)` for the
default ensemble: `max(0, ·)`).  That the spiking/rate networks approximate these
functions is NOT proved — it is only validated by simulation (harness/c15.py, part b).
-/
import Mathlib.Data.Matrix.Mul
import Mathlib.Algebra.Order.Field.Basic

namespace C15

/-- a Semantic Pointer expression (`'A'`, `'A*B'`, …) as written in the mapping -/
abbrev Key := String

abbrev Vec (d : ℕ) (R : Type*) := Fin d → R

/-- the forms of the `mapping` argument the constructor distinguishes -/
inductive MappingArg where
  /-- `mapping=None` (the default) -/
  | none
  /-- the string `'by-key'` -/
  | byKey
  /-- any other string -/
  | otherStr
  /-- a sequence of keys (anything without a `keys` attribute) -/
  | keyList (l : List Key)
  /-- a dict, as the list of its items in iteration order -/
  | dict (items : List (Key × Key))
deriving DecidableEq, Repr

/-- the exceptions of the modelled paths -/
inductive Err where
  /-- `ValidationError("The mapping argument needs to be provided if an output vocabulary is given.")` -/
  | outputVocabWithoutMapping
  /-- `TypeError("Must provide 'mapping' argument.")` -/
  | missingMapping
  /-- `ValidationError("The mapping argument must be a dictionary, the string 'by-key' or …")` -/
  | badString
  /-- `ValidationError("At least one item must be provided with the mapping argument.")` -/
  | emptyMapping
  /-- `mapping[k]` raised `KeyError` (cannot happen for a dict: see `Props`) -/
  | keyError (k : Key)
  /-- `vocab.parse(k)` raised (`SpaParseError`) -/
  | parse (k : Key)
deriving DecidableEq, Repr

/-- the rows of `input_vectors` and of `output_vectors` -/
structure Memory (R : Type*) (dIn dOut : ℕ) where
  keys : List (Vec dIn R)
  vals : List (Vec dOut R)

namespace Impl

/-! ### mapping normalisation -/

/-- `d[k] = v` on a Python dict (items in insertion order): an existing key keeps
its position and gets the new value, a new key is appended. -/
def dictSet (d : List (Key × Key)) (k v : Key) : List (Key × Key) :=
  if d.any (fun p => p.1 == k) then d.map (fun p => if p.1 == k then (k, v) else p)
  else d ++ [(k, v)]

/-- `{k: k for k in mapping}` -/
def dictOfKeys (l : List Key) : List (Key × Key) :=
  l.foldl (fun d k => dictSet d k k) []

/-- `input_keys = mapping.keys(); output_keys = [mapping[k] for k in input_keys]`,
returned as pairs. -/
def lookupAll (d : List (Key × Key)) : List Key → Except Err (List (Key × Key))
  | [] => .ok []
  | k :: ks =>
    match d.lookup k with
    | none => .error (.keyError k)
    | some v => (lookupAll d ks).map ((k, v) :: ·)

/-- the part after the mapping has become a dict: `len(mapping) < 1` is rejected -/
def finish (d : List (Key × Key)) : Except Err (List (Key × Key)) :=
  if d.length < 1 then .error .emptyMapping else lookupAll d (d.map Prod.fst)

/-- `AssociativeMemory.__init__` up to `output_keys`.  `vocabKeys` is
`input_vocab.keys()`, `hasOut` says whether an `output_vocab` was given. -/
def normalise (m : MappingArg) (vocabKeys : List Key) (hasOut : Bool) :
    Except Err (List (Key × Key)) :=
  -- if output_vocab is None: output_vocab = input_vocab / elif mapping is None: raise
  if hasOut && m == .none then .error .outputVocabWithoutMapping else
  match m with
  | .none => .error .missingMapping                 -- if mapping is None: raise TypeError
  | .byKey => finish (dictOfKeys vocabKeys)         -- mapping = self.input_vocab.keys()
  | .otherStr => .error .badString                  -- elif isinstance(mapping, str): raise
  | .keyList l => finish (dictOfKeys l)             -- not hasattr(mapping, "keys")
  | .dict d => finish d

/-! ### vectors and transforms -/

variable {R : Type*} {dIn dOut d : ℕ}

/-- `[vocab.parse(key).v for key in keys]`; the first key that does not parse raises -/
def parseAll (p : Key → Option (Vec d R)) : List Key → Except Err (List (Vec d R))
  | [] => .ok []
  | k :: ks =>
    match p k with
    | none => .error (.parse k)
    | some v => (parseAll p ks).map (v :: ·)

/-- the two vector lists: all input keys first, then all output keys -/
def build (pin : Key → Option (Vec dIn R)) (pout : Key → Option (Vec dOut R))
    (pairs : List (Key × Key)) : Except Err (Memory R dIn dOut) :=
  match parseAll pin (pairs.map Prod.fst) with
  | .error e => .error e
  | .ok iv =>
    match parseAll pout (pairs.map Prod.snd) with
    | .error e => .error e
    | .ok ov => .ok ⟨iv, ov⟩

/-- the constructor: normalise, then parse -/
def create (m : MappingArg) (vocabKeys : List Key) (hasOut : Bool)
    (pin : Key → Option (Vec dIn R)) (pout : Key → Option (Vec dOut R)) :
    Except Err (Memory R dIn dOut) :=
  match normalise m vocabKeys hasOut with
  | .error e => .error e
  | .ok pairs => build pin pout pairs

section ring
variable [CommRing R]

/-- `transform=input_vectors`: entry `k` of the selection input is `⟨key_k, x⟩` -/
def selInput (keys : List (Vec dIn R)) (x : Vec dIn R) : List R :=
  keys.map (fun k => k ⬝ᵥ x)

/-- `transform=output_vectors.T` applied to the selection output `s`:
`Σ_k s_k • val_k`.  (A size mismatch cannot be built; the lists have equal length
by `build`.) -/
def readOut : List (Vec dOut R) → List R → Vec dOut R
  | v :: vs, a :: as => a • v + readOut vs as
  | _, _ => 0

/-- `np.asarray(rows)` as a matrix -/
def rowsMat (rows : List (Vec d R)) : Matrix (Fin rows.length) (Fin d) R :=
  Matrix.of fun k j => rows.get k j

end ring

section field
variable [Field R]

/-- input of the default ensemble: bias `1` plus `−1/min_activation_value` times
every selection output -/
def defaultDrive (minAct : R) (sel : List R) : R := 1 - sel.sum / minAct

/-- a configured default output: the vector of `output_vocab.parse(key)` and
`min_activation_value` -/
structure Default (R : Type*) (dOut : ℕ) where
  vec : Vec dOut R
  minAct : R

/-- the module output for a selection function `selF` and a transfer function
`gateF` of the default ensemble -/
def output (selF : List R → List R) (gateF : R → R) (mem : Memory R dIn dOut)
    (dflt : Option (Default R dOut)) (x : Vec dIn R) : Vec dOut R :=
  let s := selF (selInput mem.keys x)
  match dflt with
  | none => readOut mem.vals s
  | some df => readOut mem.vals s + gateF (defaultDrive df.minAct s) • df.vec

/-- every ensemble the identity (`nengo.Direct()`): the bare wiring -/
def outputDirect (mem : Memory R dIn dOut) (dflt : Option (Default R dOut)) (x : Vec dIn R) :
    Vec dOut R :=
  output id id mem dflt x

end field

/-! ### ideal selection semantics (validated by simulation only) -/

section ordered
variable [Field R] [LinearOrder R]

/-- `Thresholding`: below (or at) the threshold `0`, above it the value itself -/
def selThreshold (θ : R) (s : List R) : List R :=
  s.map (fun a => if θ < a then a else 0)

/-- `a` is the only entry of `s` that is `≥ a`: the strict maximum -/
def IsWinner (s : List R) (a : R) : Prop := s.filter (fun b => a ≤ b) = [a]

instance (s : List R) (a : R) : Decidable (IsWinner s a) := by
  unfold IsWinner; infer_instance

/-- ideal `WTA`: the strict maximum survives if it exceeds the threshold -/
def selWTA (θ : R) (s : List R) : List R :=
  s.map (fun a => if θ < a ∧ IsWinner s a then a else 0)

/-- ideal `IA` steady state: the accumulator with the strictly largest positive
input reaches the accumulation threshold first and is reported as `1` -/
def selIA (s : List R) : List R :=
  s.map (fun a => if 0 < a ∧ IsWinner s a then 1 else 0)

/-- `ThresholdingEnsembles(0.0)`: the default ensemble represents `max(0, drive)` -/
def defaultGate (drive : R) : R := max 0 drive

def outputThreshold (θ : R) (mem : Memory R dIn dOut) (dflt : Option (Default R dOut))
    (x : Vec dIn R) : Vec dOut R :=
  output (selThreshold θ) defaultGate mem dflt x

def outputWTA (θ : R) (mem : Memory R dIn dOut) (dflt : Option (Default R dOut))
    (x : Vec dIn R) : Vec dOut R :=
  output (selWTA θ) defaultGate mem dflt x

def outputIA (mem : Memory R dIn dOut) (dflt : Option (Default R dOut))
    (x : Vec dIn R) : Vec dOut R :=
  output selIA defaultGate mem dflt x

end ordered
end Impl

namespace Spec

variable {R : Type*} {dIn dOut : ℕ}

/-- a stored association: the key vector with *its own* output vector -/
abbrev Entry (R : Type*) (dIn dOut : ℕ) := Vec dIn R × Vec dOut R

/-- the parsed item of the mapping: `(input_vocab.parse(k).v, output_vocab.parse(v).v)` -/
def entry (pin : Key → Option (Vec dIn R)) (pout : Key → Option (Vec dOut R))
    (p : Key × Key) : Option (Entry R dIn dOut) :=
  match pin p.1, pout p.2 with
  | some a, some b => some (a, b)
  | _, _ => none

/-- `entries` are the parsed `(key, value)` items of the mapping `pairs`, item by item -/
def Denotes (pin : Key → Option (Vec dIn R)) (pout : Key → Option (Vec dOut R))
    (pairs : List (Key × Key)) (entries : List (Entry R dIn dOut)) : Prop :=
  pairs.map (entry pin pout) = entries.map some

/-- the memory that stores exactly `entries` (row `k` of the key matrix and row `k` of
the value matrix belong to the same entry) -/
def memOf (entries : List (Entry R dIn dOut)) : Memory R dIn dOut :=
  ⟨entries.map Prod.fst, entries.map Prod.snd⟩

/-- the property's formula: the sum of the paired outputs weighted by the
similarity of the input to each key, `Σ_k ⟨key_k, x⟩ • out_k` -/
def readout [CommRing R] (entries : List (Entry R dIn dOut)) (x : Vec dIn R) : Vec dOut R :=
  (entries.map (fun e => (e.1 ⬝ᵥ x) • e.2)).sum

/-- the same with a per-key activation function applied to the similarity -/
def readoutWith [CommRing R] (f : R → R) (entries : List (Entry R dIn dOut)) (x : Vec dIn R) :
    Vec dOut R :=
  (entries.map (fun e => f (e.1 ⬝ᵥ x) • e.2)).sum

/-- the keys are orthonormal: unit length, pairwise orthogonal -/
def Orthonormal [CommRing R] (entries : List (Entry R dIn dOut)) : Prop :=
  (∀ e ∈ entries, e.1 ⬝ᵥ e.1 = 1) ∧ entries.Pairwise (fun a b => a.1 ⬝ᵥ b.1 = 0)

end Spec
end C15

/-
Shared model of the three shipped algebras (nengo_spa/algebras/{hrr,vtb,tvtb}_algebra.py)
over an arbitrary commutative ring `R`.  The definitions are computable: the
drivers instantiate them at `R = ℚ` (IEEE doubles are dyadic rationals, so every
implementation input is transported exactly) or at `ℚ(√m)` where the code
multiplies by `sqrt(sub_d)`.

HRR vectors of dimensionality `k+1` are functions `Fin (k+1) → R`.
VTB/TVTB vectors of dimensionality `m*m` are functions `Fin m × Fin m → R`: the
pair `(i, j)` is the flat index `i*m + j` of the code's row-major
`v.reshape((sub_d, sub_d))` (`flatIdx`, `finProdFinEquiv`).

`Impl.*` follows the code; `Spec.*` is the published formula.  Where the code goes
through NumPy's FFT (`HrrAlgebra.bind`, `binding_power`) the model is the
algebraic meaning in the convolution ring (sum formula, n-fold product): that
step is *modelled, not verified* and is tied to the FFT code path numerically by
the correspondence checks.
-/
import Mathlib.LinearAlgebra.Matrix.Circulant
import Mathlib.Data.Matrix.Mul
import Mathlib.Algebra.BigOperators.Fin

open Matrix

namespace Alg

variable {R : Type*} [CommRing R]

/-! ## HRR -/
namespace Hrr

abbrev Vec (k : ℕ) (R : Type*) := Fin (k + 1) → R

namespace Spec
/-- circular convolution, the published formula -/
def bind {k : ℕ} (a b : Vec k R) : Vec k R := fun i => ∑ j, a j * b (i - j)
/-- the involution `v[-i mod d]` -/
def inv {k : ℕ} (v : Vec k R) : Vec k R := fun i => v (-i)
end Spec

namespace Impl
/-- `HrrAlgebra.get_binding_matrix`: `T[i][j] = v[(i - j) % D]` (`swap_inputs` is ignored
by the code: the algebra is commutative). -/
def bindMat {k : ℕ} (v : Vec k R) (_swap : Bool := false) : Matrix (Fin (k+1)) (Fin (k+1)) R :=
  Matrix.of fun i j => v (i - j)

/-- `HrrAlgebra.bind`: `irfft(rfft(a) * rfft(b), n)`, modelled by its meaning in the
convolution ring (the FFT path is tied numerically). -/
def bind {k : ℕ} (a b : Vec k R) : Vec k R := fun i => ∑ j, a j * b (i - j)

/-- `HrrAlgebra.invert`: `v[-np.arange(len(v))]` (all sidedness values). -/
def invert {k : ℕ} (v : Vec k R) : Vec k R := fun i => v (-i)

/-- `HrrAlgebra.get_inversion_matrix`: `np.eye(d)[-np.arange(d)]`, row `i` is the unit
vector at `-i mod d`. -/
def invMat (k : ℕ) : Matrix (Fin (k+1)) (Fin (k+1)) R :=
  Matrix.of fun i j => if j = -i then 1 else 0

def superpose {k : ℕ} (a b : Vec k R) : Vec k R := a + b

/-- `identity_element`: `data[0] = 1`. -/
def identity (k : ℕ) : Vec k R := fun i => if i = 0 then 1 else 0
def negIdentity (k : ℕ) : Vec k R := fun i => -(identity k i)
def zero (k : ℕ) : Vec k R := fun _ => 0
/-- `absorbing_element`: `ones(d)/sqrt(d)`; `c` stands for `1/sqrt(d)`. -/
def absorbing (k : ℕ) (c : R) : Vec k R := fun _ => c

/-- DC coefficient `rfft(v)[0] = Σ v`. -/
def dc {k : ℕ} (v : Vec k R) : R := ∑ i, v i
/-- Nyquist coefficient `rfft(v)[-1] = Σ (-1)^i v_i` (meaningful for even `d`). -/
def nyq {k : ℕ} (v : Vec k R) : R := ∑ i : Fin (k+1), (-1) ^ (i : ℕ) * v i

/-- n-fold binding power for natural exponents: `irfft(rfft(v) ** n)` is the n-fold
product in the convolution ring, with the identity for `n = 0`. -/
def npow {k : ℕ} (v : Vec k R) : ℕ → Vec k R
  | 0 => identity k
  | n + 1 => bind (npow v n) v

/-- `binding_power` for integer exponents: invert first for negative ones. -/
def zpow {k : ℕ} (v : Vec k R) (e : ℤ) : Vec k R :=
  if e < 0 then npow (invert v) e.natAbs else npow v e.natAbs

end Impl
end Hrr

/-! ## VTB and TVTB -/

abbrev Vec2 (m : ℕ) (R : Type*) := Fin m × Fin m → R

/-- flat index of the code: `(i, j) ↦ i*m + j` (row-major `reshape`) -/
def flatIdx {m : ℕ} (p : Fin m × Fin m) : ℕ := p.1.val * m + p.2.val

/-- the `sub_d × sub_d` matrix `v.reshape((sub_d, sub_d))` -/
def toMat {m : ℕ} (v : Vec2 m R) : Matrix (Fin m) (Fin m) R := Matrix.of fun i j => v (i, j)
/-- `M.flatten()` -/
def ofMat {m : ℕ} (M : Matrix (Fin m) (Fin m) R) : Vec2 m R := fun p => M p.1 p.2

/-- `is_valid_dimensionality` of VTB/TVTB: `d >= 1` and `int(sqrt(d))**2 == d`
(NumPy's `sqrt` on exactly representable integers is trusted to floor correctly). -/
def Impl.isValidDim (d : ℤ) : Bool :=
  if d < 1 then false else (Nat.sqrt d.toNat) * (Nat.sqrt d.toNat) == d.toNat

def Spec.IsValidDim (d : ℤ) : Prop := 0 < d ∧ ∃ m : ℕ, (m * m : ℤ) = d

namespace Vtb
namespace Spec
/-- published formula: block-diagonal matrix `√m · diag(V_y, …, V_y)` applied to `x`;
block `i` of the result is `√m · V_y · x_i`, i.e. entry `(i, j)` is `s · Σ_k y(j,k) · x(i,k)`. -/
def bind {m : ℕ} (s : R) (x y : Vec2 m R) : Vec2 m R := fun p => s * ∑ k, y (p.2, k) * x (p.1, k)
def inv {m : ℕ} (v : Vec2 m R) : Vec2 m R := fun p => v (p.2, p.1)
end Spec

namespace Impl
/-- `get_inversion_matrix` = `get_swapping_matrix`:
`np.eye(d).reshape(d, sub_d, sub_d).T.reshape(d, d)`: row `(i, j)` is the unit vector at `(j, i)`. -/
def invMat (m : ℕ) : Matrix (Fin m × Fin m) (Fin m × Fin m) R :=
  Matrix.of fun p q => if q = (p.2, p.1) then 1 else 0

/-- `np.sqrt(sub_d) * np.kron(np.eye(sub_d), v.reshape((sub_d, sub_d)))` -/
def blockMat {m : ℕ} (s : R) (v : Vec2 m R) : Matrix (Fin m × Fin m) (Fin m × Fin m) R :=
  Matrix.of fun p q => s * ((if p.1 = q.1 then 1 else 0) * v (p.2, q.2))

/-- `get_binding_matrix(v, swap_inputs)`: with `swap_inputs` the swapping matrix is
multiplied from the left. -/
def bindMat {m : ℕ} (s : R) (v : Vec2 m R) (swap : Bool := false) :
    Matrix (Fin m × Fin m) (Fin m × Fin m) R :=
  if swap then invMat m * blockMat s v else blockMat s v

/-- `bind(a, b) = np.dot(get_binding_matrix(b), a)` -/
def bind {m : ℕ} (s : R) (a b : Vec2 m R) : Vec2 m R := (bindMat s b false) *ᵥ a

/-- `invert`: `v.reshape((sub_d, sub_d)).T.flatten()` (RIGHT, and TWO_SIDED with a
deprecation warning; LEFT raises — see the C08 model). -/
def invert {m : ℕ} (v : Vec2 m R) : Vec2 m R := fun p => v (p.2, p.1)

def superpose {m : ℕ} (a b : Vec2 m R) : Vec2 m R := a + b

/-- `identity_element`: `(np.eye(sub_d) / d**0.25).flatten()`; `sinv` stands for `1/√m`. -/
def identity (m : ℕ) (sinv : R) : Vec2 m R := fun p => if p.1 = p.2 then sinv else 0
def negIdentity (m : ℕ) (sinv : R) : Vec2 m R := fun p => -(identity m sinv p)
def zero (m : ℕ) : Vec2 m R := fun _ => 0
end Impl
end Vtb

namespace Tvtb
namespace Spec
/-- published formula: blocks `V_yᵀ`: entry `(i, j)` is `s · Σ_k y(k,j) · x(i,k)` -/
def bind {m : ℕ} (s : R) (x y : Vec2 m R) : Vec2 m R := fun p => s * ∑ k, y (k, p.2) * x (p.1, k)
def inv {m : ℕ} (v : Vec2 m R) : Vec2 m R := fun p => v (p.2, p.1)
end Spec

namespace Impl
def invMat (m : ℕ) : Matrix (Fin m × Fin m) (Fin m × Fin m) R :=
  Matrix.of fun p q => if q = (p.2, p.1) then 1 else 0

/-- `np.sqrt(sub_d) * np.kron(np.eye(sub_d), v.reshape((sub_d, sub_d)).T)` -/
def blockMat {m : ℕ} (s : R) (v : Vec2 m R) : Matrix (Fin m × Fin m) (Fin m × Fin m) R :=
  Matrix.of fun p q => s * ((if p.1 = q.1 then 1 else 0) * v (q.2, p.2))

/-- `get_binding_matrix(v, swap_inputs)`: with `swap_inputs`,
`inv_mat · mᵀ · inv_mat`. -/
def bindMat {m : ℕ} (s : R) (v : Vec2 m R) (swap : Bool := false) :
    Matrix (Fin m × Fin m) (Fin m × Fin m) R :=
  if swap then invMat m * (blockMat s v)ᵀ * invMat m else blockMat s v

def bind {m : ℕ} (s : R) (a b : Vec2 m R) : Vec2 m R := (bindMat s b false) *ᵥ a
def invert {m : ℕ} (v : Vec2 m R) : Vec2 m R := fun p => v (p.2, p.1)
def superpose {m : ℕ} (a b : Vec2 m R) : Vec2 m R := a + b
def identity (m : ℕ) (sinv : R) : Vec2 m R := fun p => if p.1 = p.2 then sinv else 0
def negIdentity (m : ℕ) (sinv : R) : Vec2 m R := fun p => -(identity m sinv p)
def zero (m : ℕ) : Vec2 m R := fun _ => 0
end Impl
end Tvtb

/-! ## list interface (what the Python API sees): length checks -/

def vecOfList (k : ℕ) (l : List R) : Hrr.Vec k R := fun i => l.getD i.val 0
def listOfVec {k : ℕ} (v : Hrr.Vec k R) : List R := List.ofFn v
def vec2OfList (m : ℕ) (l : List R) : Vec2 m R := fun p => l.getD (flatIdx p) 0
def listOfVec2 {m : ℕ} (v : Vec2 m R) : List R :=
  (List.ofFn fun i : Fin m => List.ofFn fun j : Fin m => v (i, j)).flatten

inductive BindErr where
  | lengthMismatch   -- ValueError("Inputs must have same length.")
  | notSquare        -- ValueError("Vector dimensionality must be a square number.")
  | empty
deriving DecidableEq, Repr

/-- `HrrAlgebra.bind` on raw sequences -/
def Hrr.Impl.bindL (a b : List R) : Except BindErr (List R) :=
  if b.length ≠ a.length then .error .lengthMismatch
  else match a.length with
    | 0 => .error .empty
    | k + 1 => .ok (listOfVec (Hrr.Impl.bind (vecOfList k a) (vecOfList k b)))

/-- `_get_sub_d` -/
def subD (d : ℕ) : Except BindErr ℕ :=
  if Nat.sqrt d * Nat.sqrt d = d then .ok (Nat.sqrt d) else .error .notSquare

/-- `VtbAlgebra.bind` on raw sequences: length check, then `_get_sub_d` inside
`get_binding_matrix` -/
def Vtb.Impl.bindL (s : ℕ → R) (a b : List R) : Except BindErr (List R) :=
  if b.length ≠ a.length then .error .lengthMismatch
  else match subD b.length with
    | .error e => .error e
    | .ok m => .ok (listOfVec2 (Vtb.Impl.bind (s m) (vec2OfList m a) (vec2OfList m b)))

def Tvtb.Impl.bindL (s : ℕ → R) (a b : List R) : Except BindErr (List R) :=
  if b.length ≠ a.length then .error .lengthMismatch
  else match subD b.length with
    | .error e => .error e
    | .ok m => .ok (listOfVec2 (Tvtb.Impl.bind (s m) (vec2OfList m a) (vec2OfList m b)))

end Alg

/-
C16 — model of `nengo_spa/networks/identity_ensemble_array.py` and
`nengo_spa/modules/state.py` (core Lean only).

`Impl.*` follows the code: the slices the constructors hand to
`nengo.Connection` (Python slice clipping and Nengo's size check included, so a
wrong split is an *error* in the model exactly where the real code raises), the
running-offset loops of `add_neuron_input/add_neuron_output`, `add_output`
(`first_size`, `second_size`, remainder), State's validation and its feedback
connection.  `Spec.*` is the property's own vocabulary: a contiguous ordered
cover of `[0, n)` and "per-part results concatenated in dimension order".

Nengo semantics used (trusted, see DESIGN.md §5; validated by the harness
runs): a connection `pre[a:b] → post[c:d]` without transform copies entry
`a + k` of `pre` to entry `c + k` of `post`; several connections into one
object add up; an ideal (`Direct`) ensemble computes the connection's function
of its represented vector exactly; pass-through nodes (`remainder.input`,
`remainder.output`) forward their input, so a slice of a slice is a shifted
slice.
-/
namespace C16

/-- `node[start : start+len]` -/
structure Slice where
  start : Nat
  len : Nat
deriving DecidableEq, Repr

/-- the slice seen through `outer[k:]` -/
def Slice.shift (k : Nat) (a : Slice) : Slice := ⟨a.start + k, a.len⟩

inductive Err where
  | param          -- `IntParam(low=1)` / dimension parameter rejected  (ValidationError)
  | notDivisible   -- State's own divisibility check                    (ValidationError)
  | sizeMismatch   -- Nengo's Connection pre/post size check, size 0    (ValidationError)
  | index          -- `node[0]` on an empty node                        (IndexError)
  | zeroDiv        -- `dimensions // 0`                                 (ZeroDivisionError)
  | fnCount        -- wrong number of functions                         (ValidationError)
deriving DecidableEq, Repr

/-- a decoded function of one ensemble: represented vector ↦ output vector -/
abbrev Fn := List Rat → List Rat

namespace Impl

/-! ### Python slicing of a node of size `n`, Nengo's size check -/

/-- `node[a:b]` -/
def pySlice (a b n : Nat) : Slice := ⟨min a n, min b n - min a n⟩
/-- `node[a:]` -/
def pySliceFrom (a n : Nat) : Slice := ⟨min a n, n - min a n⟩
/-- `node[:b]` -/
def pySliceTo (b n : Nat) : Slice := ⟨0, min b n⟩
/-- `nengo.Connection(pre, post)` without transform is accepted iff both sizes
agree and are positive. -/
def connectOk (pre post : Nat) : Bool := pre = post && 0 < pre

/-- running offset: `indices[1:] = np.cumsum(sizes)` of `EnsembleArray.add_output`
and `i = 0; for …: node[i : i+n]; i += n` -/
def cumOffsets : Nat → List Nat → List Slice
  | _, [] => []
  | off, n :: rest => ⟨off, n⟩ :: cumOffsets (off + n) rest

/-! ### the arrays -/

/-- What a constructed array looks like from outside: `input`/`output` nodes of
size `size`; `all_ensembles` in order with (dimensions, n_neurons); the slice of
`input` each ensemble reads and the slice of `output` it writes. -/
structure Arr where
  size : Nat
  ens : List (Nat × Nat)
  ins : List Slice
  outs : List Slice
deriving DecidableEq, Repr

/-- `nengo.networks.EnsembleArray(nN, n, e)`: `input[i*e:(i+1)*e] → ens i`
(multiplication), `ens i → output[indices[i]:indices[i+1]]` (cumulative sum,
via `add_output("output", None)`). -/
def ensembleArray (nN n e : Nat) : Arr :=
  { size := n * e
    ens := List.replicate n (e, nN)
    ins := (List.range n).map fun i => ⟨i * e, (i + 1) * e - i * e⟩
    outs := cumOffsets 0 (List.replicate n e) }

/-- `IdentityEnsembleArray(npd, d, s)`, in the order in which the constructor
can raise:
* `self.input[0]` (IndexError on an empty node) → `first = Ensemble(npd, 1)`;
* `if s > 1`: `input[1:s] → second = Ensemble(npd*(s-1), s-1)` (size check);
* `if d > s`: `remainder = EnsembleArray(npd*s, d // s - 1, s)`,
  `input[s:] → remainder.input` (size check), `remainder.output → output[s:]`.
The output side uses the same slice expressions on `self.output`. -/
def identityArray (npd d s : Nat) : Except Err Arr :=
  if d = 0 then .error .index
  else if 1 < s ∧ connectOk (pySlice 1 s d).len (s - 1) = false then .error .sizeMismatch
  else if s < d ∧ s = 0 then .error .zeroDiv
  else if s < d ∧ connectOk (pySliceFrom s d).len (ensembleArray (npd * s) (d / s - 1) s).size = false then
    .error .sizeMismatch
  else
    let second : List Slice := if 1 < s then [pySlice 1 s d] else []
    let rem : Arr := if s < d then ensembleArray (npd * s) (d / s - 1) s else ⟨0, [], [], []⟩
    let k := (pySliceFrom s d).start
    .ok { size := d
          ens := (1, npd) :: (if 1 < s then [(s - 1, npd * (s - 1))] else []) ++ rem.ens
          ins := ⟨0, 1⟩ :: second ++ rem.ins.map (Slice.shift k)
          outs := ⟨0, 1⟩ :: second ++ rem.outs.map (Slice.shift k) }

/-- `State(d, subdimensions=s, neurons_per_dimension=npd, represent_cc_identity=cc)`:
parameter validation, the divisibility check, then the switch between the two
arrays. -/
def state (npd d s : Nat) (cc : Bool) : Except Err Arr :=
  if d = 0 ∨ s = 0 ∨ npd = 0 then .error .param
  else if d % s ≠ 0 then .error .notDivisible
  else if cc then identityArray npd d s
  else .ok (ensembleArray (npd * s) (d / s) s)

/-! ### what arrives at a collecting node -/

/-- the vector an ensemble wired to slice `si` of the source represents -/
def ensVec (si : Slice) (x : Nat → Rat) : List Rat :=
  (List.range si.len).map fun t => x (si.start + t)

/-- Ensemble `k` produces the vector `vals[k]`; its connection puts it on slice
`outs[k]` of the collecting node.  `gather outs vals j` lists every
contribution arriving at entry `j` (Nengo adds them up). -/
def gather {β : Type} : List Slice → List (List β) → Nat → List β
  | sl :: ss, v :: vs, j =>
      (if sl.start ≤ j ∧ j < sl.start + sl.len then (v[j - sl.start]?).toList else []) ++ gather ss vs j
  | _, _, _ => []

/-- decoded values with ideal ensembles: ensemble `k` reads `ins[k]`, applies
`fns[k]`, writes `outs[k]` -/
def decoded (ins outs : List Slice) (fns : List Fn) (x : Nat → Rat) (j : Nat) : List Rat :=
  gather outs (List.zipWith (fun si f => f (ensVec si x)) ins fns) j

/-- the value of a node entry: the sum of what arrives -/
def nodeValue (c : List Rat) : Rat := c.sum

/-- `State.output[j]` for input `x`, ideal ensembles (function `None` = identity) -/
def stateOutput (a : Arr) (x : Nat → Rat) (j : Nat) : Rat :=
  nodeValue (decoded a.ins a.outs (a.ens.map fun _ => id) x j)

/-! ### neuron-level access -/

/-- `add_neuron_input` / `add_neuron_output`: node of size `N = npd * dimensions`,
`i = 0; for ens in all_ensembles: Connection(node[i : i + ens.n_neurons], ens.neurons); i += ens.n_neurons`
(slice clipping and the size check as Nengo does them). -/
def neuronLoop (N : Nat) : Nat → List Nat → Except Err (List Slice)
  | _, [] => .ok []
  | i, n :: rest =>
      if connectOk (pySlice i (i + n) N).len n = false then .error .sizeMismatch
      else match neuronLoop N (i + n) rest with
        | .ok l => .ok (pySlice i (i + n) N :: l)
        | .error e => .error e

def neuronInput (npd d : Nat) (a : Arr) : Except Err (List Slice) :=
  neuronLoop (npd * d) 0 (a.ens.map (·.2))
def neuronOutput (npd d : Nat) (a : Arr) : Except Err (List Slice) :=
  neuronLoop (npd * d) 0 (a.ens.map (·.2))

/-- which (ensemble, neuron) pairs entry `j` of a neuron node is wired to -/
def locateFrom : Nat → List Slice → Nat → List (Nat × Nat)
  | _, [], _ => []
  | k, sl :: rest, j =>
      (if sl.start ≤ j ∧ j < sl.start + sl.len then [(k, j - sl.start)] else []) ++ locateFrom (k + 1) rest j

def locate (l : List Slice) (j : Nat) : List (Nat × Nat) := locateFrom 0 l j

/-- activity vectors: neuron `t` of ensemble `k` is driven by entry
`ins[k].start + t` of `neuron_input` and responds with `act k t (drive)`
(`act` is arbitrary: tuning curve, decoded input, … — anything that is local
to the neuron). -/
def neuronVals {β : Type} (act : Nat → Nat → Rat → β) (u : Nat → Rat) : Nat → List Slice → List (List β)
  | _, [] => []
  | k, si :: rest => ((List.range si.len).map fun t => act k t (u (si.start + t))) :: neuronVals act u (k + 1) rest

/-- what is read at entry `m` of `neuron_output` when `neuron_input` carries `u` -/
def neuronReadout {β : Type} (ins outs : List Slice) (act : Nat → Nat → Rat → β) (u : Nat → Rat) (m : Nat) : List β :=
  gather outs (neuronVals act u 0 ins) m

/-! ### add_output -/

inductive FnArg where
  | one (f : Fn)
  | many (fs : List Fn)

/-- `np.asarray(f(np.zeros(dims))).size` -/
def probeSize (f : Fn) (dims : Nat) : Nat := (f (List.replicate dims 0)).length

/-- result of `add_output`: size of the new node, the function each of
`all_ensembles` is decoded with, the slice of the new node it writes -/
structure Out where
  size : Nat
  fns : List Fn
  outs : List Slice

/-- `EnsembleArray.add_output(name, function)` for `n` ensembles of `e` dims:
one function per ensemble (a single callable is replicated), sizes probed at
zero, offsets by cumulative sum. -/
def eaAddOutput (n e : Nat) (fa : FnArg) : Except Err Out :=
  let go (fs : List Fn) : Except Err Out :=
    let sizes := fs.map (probeSize · e)
    if sizes.any (· == 0) then .error .sizeMismatch
    else .ok ⟨sizes.sum, fs, cumOffsets 0 sizes⟩
  match fa with
  | .one f => go (List.replicate n f)
  | .many fs => if fs.length ≠ n then .error .fnCount else go fs

/-- the head of `IdentityEnsembleArray.add_output`: a list must have 3 or
`n_remainder + 2` entries; `first_fn, second_fn = function[0], function[1]`,
`remainder_fn = function[2:]`; a single callable is used for all three -/
def splitFns (nRem : Nat) (fa : FnArg) : Except Err (Fn × Fn × FnArg) :=
  match fa with
  | .one f => .ok (f, f, .one f)
  | .many fs =>
    if fs.length ≠ 3 ∧ fs.length ≠ nRem + 2 then .error .fnCount
    else match fs with
      | f0 :: f1 :: rest => .ok (f0, f1, .many rest)
      | _ => .error .fnCount

/-- the tail of `add_output`: the new node of size `first_size + second_size +
remainder_size` and the connections `first → output[:first_size]`,
`second → output[first_size:remainder_start]` (if any),
`remainder_fn_out → output[remainder_start:]` (if any), each with Nengo's size
check -/
def assemble (hasSecond hasRem : Bool) (firstFn secondFn : Fn) (firstSize secondSize : Nat) (r : Out) :
    Except Err Out :=
  let remStart := firstSize + secondSize
  let total := firstSize + secondSize + r.size
  let sFirst := pySliceTo firstSize total
  let sSecond := pySlice firstSize remStart total
  let sRem := pySliceFrom remStart total
  if connectOk firstSize sFirst.len = false then .error .sizeMismatch
  else if hasSecond = true ∧ connectOk secondSize sSecond.len = false then .error .sizeMismatch
  else if hasRem = true ∧ connectOk r.size sRem.len = false then .error .sizeMismatch
  else .ok { size := total
             fns := firstFn :: (if hasSecond then [secondFn] else []) ++ r.fns
             outs := sFirst :: (if hasSecond then [sSecond] else []) ++ r.outs.map (Slice.shift sRem.start) }

/-- `IdentityEnsembleArray.add_output(name, function)` on an array built with
`(d, s)` — the repaired code: `has_second = s > 1`, `has_remainder = d > s`,
`n_remainder = remainder.n_ensembles if has_remainder else 0`; `first_size`,
`second_size` (0 without second), `remainder_size` (0 without remainder: the
remainder array's own `add_output` is only called when it exists). -/
def addOutput (d s : Nat) (fa : FnArg) : Except Err Out :=
  let hasSecond := decide (1 < s)
  let hasRem := decide (s < d)
  let nRem := if hasRem then d / s - 1 else 0
  match splitFns nRem fa with
  | .error e => .error e
  | .ok (firstFn, secondFn, remFn) =>
    let firstSize := probeSize firstFn 1
    let secondSize := if hasSecond then probeSize secondFn (s - 1) else 0
    match (if hasRem then eaAddOutput nRem s remFn else .ok ⟨0, [], []⟩) with
    | .error e => .error e
    | .ok r => assemble hasSecond hasRem firstFn secondFn firstSize secondSize r

/-! ### feedback -/

/-- One simulator step of a State with ideal ensembles, per dimension (the
feedback transform is `feedback · I`).  The input node adds the external input
`u` and the filtered feedback `r`; ideal ensembles pass it on unchanged, so the
stored/output value is `u + r`.  The feedback connection filters `f · output`
with a discrete first-order low-pass with decay `a = exp(-dt/τ)`:
`r' = a·r + (1-a)·f·(u + r)`.  (Modelled, not verified, w.r.t. Nengo's
`Lowpass`; validated by a Direct-mode run in the harness.) -/
def stepFilter (a f u r : Rat) : Rat := a * r + (1 - a) * (f * (u + r))

/-- filter state before step `t` (starts at 0) -/
def filt (a f : Rat) (u : Nat → Rat) : Nat → Rat
  | 0 => 0
  | t + 1 => stepFilter a f (u t) (filt a f u t)

/-- `State.output` at step `t`; `feedback == 0` creates no connection at all -/
def fbOutput (a f : Rat) (u : Nat → Rat) (t : Nat) : Rat :=
  if f = 0 then u t else u t + filt a f u t

end Impl

namespace Spec

/-- `l` is a chain of adjacent slices from `a` to `b`: each starts where the
previous one stops (contiguous, in order, hence disjoint) and together they
cover `[a, b)`. -/
def Chain : Nat → List Slice → Nat → Prop
  | a, [], b => a = b
  | a, sl :: rest, b => sl.start = a ∧ Chain (a + sl.len) rest b

/-- an ordered partition of `[0, n)` into non-empty slices -/
def Partition (l : List Slice) (n : Nat) : Prop := Chain 0 l n ∧ ∀ sl ∈ l, 0 < sl.len

/-- entry `j` lies in the slice -/
def Slice.Mem (j : Nat) (sl : Slice) : Prop := sl.start ≤ j ∧ j < sl.start + sl.len

/-- The split the documentation describes: dimension 0 alone, dimensions
`1 … s-1` together (if any), then blocks of `s`. -/
def parts (d s : Nat) : List Slice :=
  ⟨0, 1⟩ :: (if 1 < s then [⟨1, s - 1⟩] else []) ++ (List.range (d / s - 1)).map fun i => ⟨s + i * s, s⟩

/-- the regular split: `d / s` blocks of `s` -/
def blocks (d s : Nat) : List Slice := (List.range (d / s)).map fun i => ⟨i * s, s⟩

/-- "the function applied to each sub-ensemble's own dimensions, concatenated
in dimension order" -/
def concatApply (ps : List Slice) (f : Fn) (x : Nat → Rat) : List Rat :=
  (ps.map fun p => f ((List.range p.len).map fun t => x (p.start + t))).flatten

/-- a decoded function whose output size depends on the input size only (what
Nengo requires of a connection function) -/
def SizeStable (f : Fn) : Prop := ∀ v w : List Rat, v.length = w.length → (f v).length = (f w).length

end Spec
end C16

/-
C08 — special elements and inverses act as specified on the requested side.

Model of `identity_element`, `negative_identity_element`, `zero_element`,
`absorbing_element`, `invert`, `get_inversion_matrix` of
nengo_spa/algebras/{hrr,vtb,tvtb}_algebra.py *with their sidedness guards*
(`ElementSidedness` of algebras/base.py), built on the shared closed forms
`Alg.*.Impl.{identity, negIdentity, zero, absorbing, invert, invMat}`.

A call returns `Except Refusal (value × Bool)`: the value together with the flag
"a DeprecationWarning was issued", or the exception class.

* `Impl.*Element`, `Impl.invert`, `Impl.inversionMatrix` — typed level (vectors of a
  fixed dimensionality), this is what the theorems are about;
* `Impl.*D`, `Impl.invertL` — the interface the Python API sees (`d : ℕ`, raw sequences):
  the guards come first, then `_get_sub_d` (ValueError for a non-square `d`), then the typed
  function; the driver executes these.

`Spec.*` states the property's notions: identity / negative identity / zero /
absorbing element on a side, unit length, "the offered inverse undoes binding on a
side", unitarity.

`s` stands for `sqrt(sub_d)`, `sinv` for `1/sqrt(sub_d)` (the code divides by `d**0.25`),
`c` for `1/sqrt(d)`; the theorems take `s*sinv = 1`, `s*s = m`, `c*c*d = 1` as hypotheses,
the driver runs in `ℚ(√m)` where they hold exactly.
-/
import SpaModel.Basic.Algebra

open Matrix

namespace C08
open Alg

/-- `ElementSidedness` -/
inductive Side where
  | left | right | twoSided
deriving DecidableEq, Repr

/-- exception classes raised by the element functions -/
inductive Refusal where
  | notImplemented   -- NotImplementedError
  | notSquare        -- ValueError("Vector dimensionality must be a square number.")
  | indexError       -- IndexError of `data[0] = 1.0` for d = 0 (HRR)
deriving DecidableEq, Repr

/-- value and "DeprecationWarning issued", or the exception -/
abbrev Result (α : Type*) := Except Refusal (α × Bool)

def Result.map {α β : Type*} (f : α → β) : Result α → Result β
  | .ok (a, w) => .ok (f a, w)
  | .error r => .error r

variable {R : Type*} [CommRing R]

/-! ## Spec: the notions of the property statement, for an arbitrary binary operation -/
namespace Spec
variable {V : Type*}

def IsRightIdentity (bind : V → V → V) (e : V) : Prop := ∀ v, bind v e = v
def IsLeftIdentity (bind : V → V → V) (e : V) : Prop := ∀ v, bind e v = v
def IsRightNegIdentity [Neg V] (bind : V → V → V) (e : V) : Prop := ∀ v, bind v e = -v
def IsLeftNegIdentity [Neg V] (bind : V → V → V) (e : V) : Prop := ∀ v, bind e v = -v
def IsRightZero [Zero V] (bind : V → V → V) (z : V) : Prop := ∀ v, bind v z = 0
def IsLeftZero [Zero V] (bind : V → V → V) (z : V) : Prop := ∀ v, bind z v = 0
/-- binding any `v` with `z` (as right operand) yields a multiple of `z` -/
def IsRightAbsorbing {S : Type*} [SMul S V] (bind : V → V → V) (z : V) : Prop :=
  ∀ v, ∃ c : S, bind v z = c • z
def IsLeftAbsorbing {S : Type*} [SMul S V] (bind : V → V → V) (z : V) : Prop :=
  ∀ v, ∃ c : S, bind z v = c • z
/-- unit length: `Σ z_i² = 1` -/
def UnitLength {ι : Type*} [Fintype ι] (z : ι → R) : Prop := ∑ i, z i * z i = 1
/-- `w` undoes binding with `v` on the right: `bind (bind a v) w = a` for every `a` -/
def UndoesRight (bind : V → V → V) (v w : V) : Prop := ∀ a, bind (bind a v) w = a
/-- `w` undoes binding with `v` on the left: `bind w (bind v a) = a` for every `a` -/
def UndoesLeft (bind : V → V → V) (v w : V) : Prop := ∀ a, bind w (bind v a) = a

/-- HRR: `v ⊛ ~v = δ` -/
def Hrr.IsUnitary {k : ℕ} (v : Hrr.Vec k R) : Prop :=
  Alg.Hrr.Spec.bind v (Alg.Hrr.Spec.inv v) = fun i => if i = 0 then 1 else 0
/-- VTB/TVTB: the matrix `√m · V` is orthogonal, `m • (V Vᵀ) = 1` -/
def Vec2.IsUnitary {m : ℕ} (v : Vec2 m R) : Prop := (m : R) • (toMat v * (toMat v)ᵀ) = 1
end Spec

/-! ## HRR: every element is two-sided, no guard (`sidedness` "has no effect") -/
namespace Hrr
namespace Impl
variable {k : ℕ}

/-- `HrrAlgebra.identity_element(d, sidedness)` -/
def identityElement (k : ℕ) (_side : Side) : Result (Hrr.Vec k R) :=
  .ok (Alg.Hrr.Impl.identity k, false)

/-- `-self.identity_element(d, sidedness)` -/
def negIdentityElement (k : ℕ) (side : Side) : Result (Hrr.Vec k R) :=
  (identityElement k side).map fun e => -e

/-- `np.zeros(d)` -/
def zeroElement (k : ℕ) (_side : Side) : Result (Hrr.Vec k R) := .ok (Alg.Hrr.Impl.zero k, false)

/-- `np.ones(d) / np.sqrt(d)`, `c = 1/sqrt(d)` -/
def absorbingElement (k : ℕ) (c : R) (_side : Side) : Result (Hrr.Vec k R) :=
  .ok (Alg.Hrr.Impl.absorbing k c, false)

/-- `v[-np.arange(len(v))]` -/
def invert (v : Hrr.Vec k R) (_side : Side) : Result (Hrr.Vec k R) :=
  .ok (Alg.Hrr.Impl.invert v, false)

/-- `np.eye(d)[-np.arange(d)]` -/
def inversionMatrix (k : ℕ) (_side : Side) : Result (Matrix (Fin (k+1)) (Fin (k+1)) R) :=
  .ok (Alg.Hrr.Impl.invMat k, false)

/-! interface level: `d : ℕ` -/
/-- `data = np.zeros(d); data[0] = 1.0` raises IndexError for `d = 0` -/
def identityD (d : ℕ) (side : Side) : Result (List R) :=
  match d with
  | 0 => .error .indexError
  | k + 1 => (identityElement k side).map listOfVec

def negIdentityD (d : ℕ) (side : Side) : Result (List R) :=
  match d with
  | 0 => .error .indexError
  | k + 1 => (negIdentityElement k side).map listOfVec

def zeroD (d : ℕ) (_side : Side) : Result (List R) := .ok (List.replicate d 0, false)

def absorbingD (c : ℕ → R) (d : ℕ) (side : Side) : Result (List R) :=
  match d with
  | 0 => .ok ([], false)
  | k + 1 => (absorbingElement k (c (k+1)) side).map listOfVec

def invertL (v : List R) (side : Side) : Result (List R) :=
  match v.length with
  | 0 => .ok ([], false)
  | k + 1 => (invert (vecOfList k v) side).map listOfVec
end Impl
end Hrr

/-! ## VTB: right elements only -/
namespace Vtb
namespace Impl
variable {m : ℕ}

/-- the guard of `identity_element`, `invert`, `get_inversion_matrix`:
LEFT raises NotImplementedError, TWO_SIDED warns (DeprecationWarning) and continues with the
right element, RIGHT passes silently. -/
def guardRight : Side → Except Refusal Bool
  | .left => .error .notImplemented
  | .twoSided => .ok true
  | .right => .ok false

/-- the guard of `negative_identity_element`: `if sidedness is not RIGHT: raise` -/
def guardRightOnly : Side → Except Refusal Unit
  | .right => .ok ()
  | _ => .error .notImplemented

/-- `VtbAlgebra.identity_element`: guard, then `(np.eye(sub_d) / d**0.25).flatten()` -/
def identityElement (m : ℕ) (sinv : R) (side : Side) : Result (Vec2 m R) :=
  match guardRight side with
  | .error r => .error r
  | .ok w => .ok (Alg.Vtb.Impl.identity m sinv, w)

/-- `VtbAlgebra.negative_identity_element`: guard, then `-self.identity_element(d, sidedness)` -/
def negIdentityElement (m : ℕ) (sinv : R) (side : Side) : Result (Vec2 m R) :=
  match guardRightOnly side with
  | .error r => .error r
  | .ok _ => (identityElement m sinv side).map fun e => -e

/-- `np.zeros(d)`, no guard -/
def zeroElement (m : ℕ) (_side : Side) : Result (Vec2 m R) := .ok (Alg.Vtb.Impl.zero m, false)

/-- `raise NotImplementedError("VtbAlgebra does not have any absorbing elements.")` -/
def absorbingElement (m : ℕ) (_side : Side) : Result (Vec2 m R) := .error .notImplemented

/-- `VtbAlgebra.invert`: guard, then the transposition -/
def invert (v : Vec2 m R) (side : Side) : Result (Vec2 m R) :=
  match guardRight side with
  | .error r => .error r
  | .ok w => .ok (Alg.Vtb.Impl.invert v, w)

/-- `VtbAlgebra.get_inversion_matrix`: guard, then the swapping matrix -/
def inversionMatrix (m : ℕ) (side : Side) : Result (Matrix (Fin m × Fin m) (Fin m × Fin m) R) :=
  match guardRight side with
  | .error r => .error r
  | .ok w => .ok (Alg.Vtb.Impl.invMat m, w)

/-- `_get_sub_d` with the C08 exception class -/
def subD' (d : ℕ) : Except Refusal ℕ :=
  match subD d with
  | .ok m => .ok m
  | .error _ => .error .notSquare

/-! interface level: the guard runs before `_get_sub_d` -/
def identityD (sinv : ℕ → R) (d : ℕ) (side : Side) : Result (List R) :=
  match guardRight side with
  | .error r => .error r
  | .ok _ => match subD' d with
    | .error r => .error r
    | .ok m => (identityElement m (sinv m) side).map listOfVec2

def negIdentityD (sinv : ℕ → R) (d : ℕ) (side : Side) : Result (List R) :=
  match guardRightOnly side with
  | .error r => .error r
  | .ok _ => match subD' d with
    | .error r => .error r
    | .ok m => (negIdentityElement m (sinv m) side).map listOfVec2

/-- `np.zeros(d)`: no guard and no squareness check -/
def zeroD (d : ℕ) (_side : Side) : Result (List R) := .ok (List.replicate d 0, false)

def absorbingD (_d : ℕ) (_side : Side) : Result (List R) := .error .notImplemented

def invertL (v : List R) (side : Side) : Result (List R) :=
  match guardRight side with
  | .error r => .error r
  | .ok _ => match subD' v.length with
    | .error r => .error r
    | .ok m => (invert (vec2OfList m v) side).map listOfVec2
end Impl
end Vtb

/-! ## TVTB: identity, negative identity, zero and inverse are two-sided and unguarded;
the absorbing element is refused for every side -/
namespace Tvtb
namespace Impl
variable {m : ℕ}

def identityElement (m : ℕ) (sinv : R) (_side : Side) : Result (Vec2 m R) :=
  .ok (Alg.Tvtb.Impl.identity m sinv, false)

/-- `-self.identity_element(d, sidedness)` -/
def negIdentityElement (m : ℕ) (sinv : R) (side : Side) : Result (Vec2 m R) :=
  (identityElement m sinv side).map fun e => -e

def zeroElement (m : ℕ) (_side : Side) : Result (Vec2 m R) := .ok (Alg.Tvtb.Impl.zero m, false)

def absorbingElement (m : ℕ) (_side : Side) : Result (Vec2 m R) := .error .notImplemented

def invert (v : Vec2 m R) (_side : Side) : Result (Vec2 m R) := .ok (Alg.Tvtb.Impl.invert v, false)

def inversionMatrix (m : ℕ) (_side : Side) : Result (Matrix (Fin m × Fin m) (Fin m × Fin m) R) :=
  .ok (Alg.Tvtb.Impl.invMat m, false)

def identityD (sinv : ℕ → R) (d : ℕ) (side : Side) : Result (List R) :=
  match Vtb.Impl.subD' d with
  | .error r => .error r
  | .ok m => (identityElement m (sinv m) side).map listOfVec2

def negIdentityD (sinv : ℕ → R) (d : ℕ) (side : Side) : Result (List R) :=
  match Vtb.Impl.subD' d with
  | .error r => .error r
  | .ok m => (negIdentityElement m (sinv m) side).map listOfVec2

def zeroD (d : ℕ) (_side : Side) : Result (List R) := .ok (List.replicate d 0, false)

def absorbingD (_d : ℕ) (_side : Side) : Result (List R) := .error .notImplemented

def invertL (v : List R) (side : Side) : Result (List R) :=
  match Vtb.Impl.subD' v.length with
  | .error r => .error r
  | .ok m => (invert (vec2OfList m v) side).map listOfVec2
end Impl
end Tvtb

/-! ## the pointer wrappers and the vocabulary's special names (thin calls)

`Identity(d, vocab, algebra, sidedness=…)` etc. call the algebra's element function with the
given sidedness (default TWO_SIDED) and wrap the vector; `vocab[name]` for
`name ∈ special_sps = {AbsorbingElement, Identity, Zero}` is `special_sps[name](dimensions, vocab)`,
i.e. the TWO_SIDED request.  (`NegativeIdentity` is not a special name.) -/
inductive Elem where
  | identity | negIdentity | zero | absorbing
deriving DecidableEq, Repr

/-- `special_sps` of vocabulary.py -/
def specialName : String → Option Elem
  | "AbsorbingElement" => some .absorbing
  | "Identity" => some .identity
  | "Zero" => some .zero
  | _ => none

/-- the sidedness a vocabulary look-up requests -/
def vocabSide : Side := .twoSided

end C08

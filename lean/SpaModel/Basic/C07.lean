/-
C07 — model of `nengo_spa/semantic_pointer.py` (class `SemanticPointer`) and of the scalar
classification of `nengo_spa/typechecks.py`.

Layers
* `Kind`, `isArray`, `isNumber`      — `typechecks.is_array / is_scalar_of_type / is_number`
* `Algebra ι R`                      — what a pointer needs of `AbstractAlgebra` (no laws: the
                                        delegation theorems hold for ANY algebra object); the three
                                        shipped algebras are the instances `hrr`, `vtb`, `tvtb`
                                        built from `Alg.*.Impl` (SpaModel/Basic/Algebra.lean)
* `SP V`                             — the pointer value `(v, vocab?, algebra, name?)`
* `Impl.*`                           — every operator / method along its code path; algebra objects
                                        are referred to by identity (`AlgId`), their behaviour is
                                        looked up in an environment `E : AlgId → Algebra ι R`; the
                                        default `HrrAlgebra()` the constructor falls back to is `dflt`
* `Mem.*`                            — NumPy arrays as heap cells with a write flag: the constructor
                                        copies the data and clears the flag
* `Spec.*`                           — the elementary vector formulas of the property statement

Vectors are functions `ι → R` over a finite index type (HRR: `Fin (k+1)`, VTB/TVTB:
`Fin m × Fin m`), so two operands of one operation have the same dimensionality by typing.
`R` is any commutative ring for the algebra operators; division and the similarity measures
need an ordered field `K`.  `np.linalg.norm` is a parameter `nrm` (assumed, in the theorems, to
satisfy `0 ≤ nrm v ∧ nrm v * nrm v = Σ v²`).
-/
import SpaModel.Basic.Algebra
import Mathlib.Algebra.Order.Field.Basic

open Matrix

namespace C07

/-! ### scalar classification (`typechecks.py`) -/

/-- The kinds of Python objects that reach an operator as the non-pointer operand. -/
inductive Kind where
  | pyInt | pyFloat | pyBool            -- `int`, `float`, `bool`
  | npFloat32 | npFloat64 | npInt64     -- NumPy scalars (`np.generic`) of numeric dtype
  | npBool                              -- `np.bool_` (an `np.generic` that is not a `numbers.Number`)
  | zeroDimNum                          -- `np.array(2.5)`: `ndim == 0`, numeric dtype
  | zeroDimBool                         -- `np.array(True)`
  | ndarray                             -- an array with `ndim >= 1`
  | listOrTuple
  | other                               -- `str`, `None`, … : none of the above
deriving DecidableEq, Repr

namespace Kind
/-- `is_array(obj)`: `isinstance(obj, (np.ndarray, np.generic))`. -/
def isArray : Kind → Bool
  | npFloat32 | npFloat64 | npInt64 | npBool | zeroDimNum | zeroDimBool | ndarray => true
  | _ => false

/-- `obj.ndim == 0` (asked only of arrays). -/
def ndimZero : Kind → Bool
  | ndarray => false
  | _ => true

/-- `issubclass(obj.dtype.type, numbers.Number)`: NumPy registers its integer and floating
scalar types with `numbers`, but not `np.bool_`. -/
def dtypeIsNumber : Kind → Bool
  | npFloat32 | npFloat64 | npInt64 | zeroDimNum | ndarray => true
  | _ => false

/-- `isinstance(obj, numbers.Number)` for objects that are not 0-d arrays. -/
def isInstanceNumber : Kind → Bool
  | pyInt | pyFloat | pyBool => true
  | _ => false

/-- `is_scalar_of_type(obj, numbers.Number)` = `is_number(obj)`. -/
def isNumber (k : Kind) : Bool :=
  if k.isArray && k.ndimZero then k.dtypeIsNumber else k.isInstanceNumber

/-- `is_array_like(obj)`. -/
def isArrayLike (k : Kind) : Bool := k.isArray || k.isNumber || k == listOrTuple
end Kind

/-! ### errors, sides, exponents -/

inductive Err where
  | typeError              -- bare array operand / different algebras / unsupported operand
  | returnsNotImplemented  -- the dunder method RETURNS `NotImplemented` (no exception yet)
  | zeroDivision           -- ZeroDivisionError
  | spaTypeError           -- "Different vocabularies"
  | valueError             -- "vocab and algebra argument are mutually exclusive" / write to frozen array
  | attributeError         -- `FixedScalar` where a pointer is needed (`other.evaluate().v`)
  | notImplementedError    -- e.g. `VtbAlgebra.invert(LEFT)`
  | importError            -- fractional VTB/TVTB power without SciPy
  | algebraError           -- any other refusal of the algebra (e.g. fractional power of a non-positive vector)
deriving DecidableEq, Repr

/-- `ElementSidedness` -/
inductive Side where
  | left | right | twoSided
deriving DecidableEq, Repr

/-- exponent of `**`: integral value (`int(e) == e`) or not -/
inductive Exponent where
  | int (n : ℤ)
  | frac
deriving DecidableEq, Repr

/-! ### the algebra interface a pointer uses -/

/-- The methods of `AbstractAlgebra` that `SemanticPointer` calls.  No laws are required. -/
structure Algebra (ι R : Type) [Fintype ι] [DecidableEq ι] [CommRing R] where
  superpose : (ι → R) → (ι → R) → (ι → R)
  bind : (ι → R) → (ι → R) → (ι → R)
  invert : Side → (ι → R) → Except Err (ι → R)
  /-- whether `invert` emits a `DeprecationWarning` for that side -/
  invertWarns : Side → Bool
  power : (ι → R) → Exponent → Except Err (ι → R)
  makeUnitary : (ι → R) → Except Err (ι → R)
  absV : (ι → R) → Except Err (ι → R)
  bindMat : (ι → R) → Bool → Matrix ι ι R

namespace Algebra
variable {ι R : Type} [Fintype ι] [DecidableEq ι] [CommRing R]

/-- superposition is element-wise addition (true of the three shipped algebras) -/
def Additive (A : Algebra ι R) : Prop := ∀ a b, A.superpose a b = a + b

/-- the binding matrix gives the direct operation: without `swap_inputs` the fixed vector is the
RIGHT operand, with it the LEFT one -/
def MatrixLaw (A : Algebra ι R) : Prop :=
  (∀ v a, A.bindMat v false *ᵥ a = A.bind a v) ∧ (∀ v a, A.bindMat v true *ᵥ a = A.bind v a)
end Algebra

/-! ### the three shipped algebras as instances -/
section instances
variable {R : Type} [CommRing R]

/-- the loop of the SciPy-less fallback: `power = eye; for _ in range(exp): power = power @ m` -/
def matPow {n : Type} [Fintype n] [DecidableEq n] (M : Matrix n n R) : ℕ → Matrix n n R
  | 0 => 1
  | e + 1 => matPow M e * M

/-- `HrrAlgebra`.  `fracPow`, `unitary`, `absV` stand for the FFT-based code that has no meaning
in a bare ring (fractional `binding_power`, `make_unitary`, `abs`): uninterpreted. -/
def hrr (k : ℕ) (fracPow unitary absV : Alg.Hrr.Vec k R → Except Err (Alg.Hrr.Vec k R)) :
    Algebra (Fin (k+1)) R where
  superpose := Alg.Hrr.Impl.superpose
  bind := Alg.Hrr.Impl.bind
  invert := fun _ v => .ok (Alg.Hrr.Impl.invert v)
  invertWarns := fun _ => false
  power := fun v e => match e with
    | .int n => .ok (Alg.Hrr.Impl.zpow v n)
    | .frac => fracPow v
  makeUnitary := unitary
  absV := absV
  bindMat := fun v swap => Alg.Hrr.Impl.bindMat v swap

/-- `VtbAlgebra` (`s` = `sqrt(sub_d)`, `sinv` = `1/sqrt(sub_d)`).  `binding_power` for integral
exponents follows the SciPy-less fallback; `fracPow` is what happens for other exponents
(`ImportError` without SciPy). -/
def vtb (m : ℕ) (s sinv : R) (fracPow unitary absV : Alg.Vec2 m R → Except Err (Alg.Vec2 m R)) :
    Algebra (Fin m × Fin m) R where
  superpose := Alg.Vtb.Impl.superpose
  bind := Alg.Vtb.Impl.bind s
  invert := fun side v => match side with
    | .left => .error .notImplementedError
    | _ => .ok (Alg.Vtb.Impl.invert v)
  invertWarns := fun side => side == .twoSided
  power := fun v e => match e with
    | .frac => fracPow v
    | .int n =>
      if n = 0 then .ok (Alg.Vtb.Impl.identity m sinv) else
      let v' := if n < 0 then Alg.Vtb.Impl.invert v else v
      let P : Alg.Vec2 m R := fun p => Alg.ofMat (matPow (s • Alg.toMat v') (n.natAbs - 1)) p * sinv
      .ok (Alg.Vtb.Impl.bind s v' P)
  makeUnitary := unitary
  absV := absV
  bindMat := fun v swap => Alg.Vtb.Impl.bindMat s v swap

/-- `TvtbAlgebra`. -/
def tvtb (m : ℕ) (s sinv : R) (fracPow unitary absV : Alg.Vec2 m R → Except Err (Alg.Vec2 m R)) :
    Algebra (Fin m × Fin m) R where
  superpose := Alg.Tvtb.Impl.superpose
  bind := Alg.Tvtb.Impl.bind s
  invert := fun _ v => .ok (Alg.Tvtb.Impl.invert v)
  invertWarns := fun _ => false
  power := fun v e => match e with
    | .frac => fracPow v
    | .int n =>
      let v' := if n < 0 then Alg.Tvtb.Impl.invert v else v
      .ok (fun p => Alg.ofMat (matPow (s • Alg.toMat v') n.natAbs) p * sinv)
  makeUnitary := unitary
  absV := absV
  bindMat := fun v swap => Alg.Tvtb.Impl.bindMat s v swap

end instances

/-! ### pointers -/

/-- identity of an algebra object (`is` comparisons) -/
abbrev AlgId := Nat

/-- a `Vocabulary` object: its identity and the identity of its algebra -/
structure Vocab where
  id : Nat
  alg : AlgId
deriving DecidableEq, Repr

/-- the expression tree `_expr_tree` behind `.name` -/
inductive Name where
  | leaf (s : String)                     -- `Leaf(s)`
  | unary (op : String) (c : Name)        -- `UnaryOperator(op, c)`
  | binary (op : String) (l r : Name)     -- `BinaryOperator(op, l, r)`
  | method (m : String) (c : Name)        -- `FunctionCall((), AttributeAccess(m, c))`
deriving DecidableEq, Repr

structure SP (V : Type) where
  v : V
  vocab : Option Vocab
  alg : AlgId
  name : Option Name

/-- the invariant the constructor establishes: a vocabulary's algebra is the pointer's algebra -/
def SP.WF {V : Type} (p : SP V) : Prop := ∀ vc, p.vocab = some vc → vc.alg = p.alg

/-- a non-pointer operand: a Python object of kind `k`; `x` is its numeric value where it has
one, `str` is `str(obj)` (used for the name of the result) -/
structure Obj (R : Type) where
  kind : Kind
  x : R
  str : String

inductive Operand (V R : Type) where
  | obj (o : Obj R)
  | fixedScalar (x : R) (str : String)    -- a `FixedScalar` AST node (`Fixed`, type `TScalar`)
  | ptr (p : SP V)

/-- argument of `dot`/`compare`/`mse`: a pointer or a raw array-like of the same length -/
inductive VecArg (V : Type) where
  | ptr (p : SP V)
  | raw (w : V)

namespace Impl

/-- `SemanticPointer._get_algebra(vocab, algebra)` -/
def getAlgebra (dflt : AlgId) (vocab : Option Vocab) (alg : Option AlgId) : Except Err AlgId :=
  match alg, vocab with
  | none, none => .ok dflt                 -- `HrrAlgebra()`
  | none, some vc => .ok vc.alg
  | some a, some vc => if vc.alg ≠ a then .error .valueError else .ok a
  | some a, none => .ok a

/-- `SemanticPointer.__init__(data, vocab, algebra, name)` (the copy/freeze of `data` is in `Mem`;
names are assumed shorter than `MAX_NAME`, so `limit_str_length` is the identity) -/
def mk {V : Type} (dflt : AlgId) (data : V) (vocab : Option Vocab) (alg : Option AlgId)
    (name : Option Name) : Except Err (SP V) :=
  match getAlgebra dflt vocab alg with
  | .ok a => .ok ⟨data, vocab, a, name⟩
  | .error e => .error e

section names
variable {V : Type}
/-- `_get_unary_name(op)` -/
def unaryName (self : SP V) (op : String) : Option Name := self.name.map (Name.unary op)
/-- `_get_method_name(method)` -/
def methodName (self : SP V) (m : String) : Option Name := self.name.map (Name.method m)
/-- `_get_binary_name(other, op, swap)` given the other operand's tree -/
def binaryName (self : SP V) (other : Option Name) (op : String) (swap : Bool) : Option Name :=
  match self.name, other with
  | some a, some b => some (if swap then .binary op b a else .binary op a b)
  | _, _ => none
end names

/-- `infer_types(self, other)` for two pointers, the vocabulary of the result, and
`_ensure_algebra_match` when neither has a vocabulary -/
def inferVocab {V : Type} (a b : SP V) : Except Err (Option Vocab) :=
  match a.vocab, b.vocab with
  | some x, some y => if x = y then .ok (some x) else .error .spaTypeError
  | some x, none => .ok (some x)
  | none, some y => .ok (some y)
  | none, none => if a.alg ≠ b.alg then .error .typeError else .ok none

section ring
variable {ι R : Type} [Fintype ι] [DecidableEq ι] [CommRing R]
variable (dflt : AlgId) (E : AlgId → Algebra ι R)

local notation "Vec" => ι → R

/-- `_add(other, swap)` for a pointer operand -/
def addP (self other : SP Vec) (swap : Bool) : Except Err (SP Vec) :=
  match inferVocab self other with
  | .error e => .error e
  | .ok vocab =>
    let ab : Vec × Vec := if swap then (other.v, self.v) else (self.v, other.v)
    mk dflt ((E self.alg).superpose ab.1 ab.2) vocab (some self.alg)
      (binaryName self other.name "+" swap)

/-- `__add__` (`swap = false`) / `__radd__` (`swap = true`) with the `TypeCheckedBinaryOp(Fixed)`
decorator -/
def add (self : SP Vec) (o : Operand Vec R) (swap : Bool) : Except Err (SP Vec) :=
  match o with
  | .obj ob => if ob.kind.isArray then .error .typeError else .error .returnsNotImplemented
  | .fixedScalar _ _ => .error .attributeError
  | .ptr p => addP dflt E self p swap

/-- the expression `self + o` evaluated by Python: a `NotImplemented` from `__add__` becomes a
`TypeError` (no non-pointer operand has a working reflected method) -/
def plusOp (self : SP Vec) (o : Operand Vec R) : Except Err (SP Vec) :=
  match add dflt E self o false with
  | .error .returnsNotImplemented => .error .typeError
  | r => r

/-- `__neg__` -/
def neg (self : SP Vec) : Except Err (SP Vec) :=
  mk dflt (-self.v) self.vocab (some self.alg) (unaryName self "-")

/-- `-other` for a non-pointer: numbers negate to numbers (`-True` is the int `-1`), arrays to
arrays, everything else has no unary minus (`none` = `TypeError`) -/
def negObj (o : Obj R) : Option (Obj R) :=
  match o.kind with
  | .listOrTuple | .other => none
  | .pyBool => some ⟨.pyInt, -o.x, o.str⟩
  | .npBool | .zeroDimBool => none          -- NumPy: boolean negative is not supported
  | k => some ⟨k, -o.x, o.str⟩

/-- `__sub__`: `self + (-other)` -/
def sub (self : SP Vec) (o : Operand Vec R) : Except Err (SP Vec) :=
  match o with
  | .ptr p =>
    match neg dflt p with
    | .error e => .error e
    | .ok n => plusOp dflt E self (.ptr n)
  | .obj ob =>
    match negObj ob with
    | none => .error .typeError
    | some n => plusOp dflt E self (.obj n)
  | .fixedScalar x s => plusOp dflt E self (.fixedScalar (-x) s)

/-- `__rsub__`: `(-self) + other` -/
def rsub (self : SP Vec) (o : Operand Vec R) : Except Err (SP Vec) :=
  match neg dflt self with
  | .error e => .error e
  | .ok n => plusOp dflt E n o

/-- `_bind(other, swap)` -/
def bindP (self other : SP Vec) (swap : Bool) : Except Err (SP Vec) :=
  match inferVocab self other with
  | .error e => .error e
  | .ok vocab =>
    let ab : Vec × Vec := if swap then (other.v, self.v) else (self.v, other.v)
    mk dflt ((E self.alg).bind ab.1 ab.2) vocab (some self.alg)
      (binaryName self other.name "*" swap)

/-- `bind(other)` / `rbind(other)` -/
def bind (self other : SP Vec) : Except Err (SP Vec) := bindP dflt E self other false
def rbind (self other : SP Vec) : Except Err (SP Vec) := bindP dflt E self other true

/-- the scalar branch shared by `_mul`: `SemanticPointer(self.v * x, vocab=self.vocab,
algebra=self.algebra, name=_get_binary_name(other, "*", swap))` -/
def scale (self : SP Vec) (x : R) (str : String) (swap : Bool) : Except Err (SP Vec) :=
  mk dflt (fun i => self.v i * x) self.vocab (some self.alg)
    (binaryName self (some (.leaf str)) "*" swap)

/-- `_mul(other, swap)`; `__mul__` is `swap = false`, `__rmul__` is `swap = true` -/
def mul (self : SP Vec) (o : Operand Vec R) (swap : Bool) : Except Err (SP Vec) :=
  match o with
  | .obj ob =>
    if ob.kind.isNumber then scale dflt self ob.x ob.str swap
    else if ob.kind.isArray then .error .typeError
    else .error .returnsNotImplemented
  | .fixedScalar x s => scale dflt self x s swap
  | .ptr p => bindP dflt E self p swap

/-- `__pow__`; `str` is `str(exponent)` -/
def pow (self : SP Vec) (e : Exponent) (str : String) : Except Err (SP Vec) :=
  match (E self.alg).power self.v e with
  | .error err => .error err
  | .ok w => mk dflt w self.vocab (some self.alg) (binaryName self (some (.leaf str)) "**" false)

/-- `__invert__` (`twoSided`, name `~x`), `linv` (`left`), `rinv` (`right`); both methods are
named through `_get_method_name("rinv")` in the code -/
def invertSide (self : SP Vec) (side : Side) : Except Err (SP Vec) :=
  match (E self.alg).invert side self.v with
  | .error err => .error err
  | .ok w => mk dflt w self.vocab (some self.alg)
      (match side with
       | .twoSided => unaryName self "~"
       | _ => methodName self "rinv")

def invert (self : SP Vec) := invertSide dflt E self .twoSided
def linv (self : SP Vec) := invertSide dflt E self .left
def rinv (self : SP Vec) := invertSide dflt E self .right

/-- `unitary()` -/
def unitary (self : SP Vec) : Except Err (SP Vec) :=
  match (E self.alg).makeUnitary self.v with
  | .error err => .error err
  | .ok w => mk dflt w self.vocab (some self.alg) (methodName self "unitary")

/-- `abs()` -/
def abs (self : SP Vec) : Except Err (SP Vec) :=
  match (E self.alg).absV self.v with
  | .error err => .error err
  | .ok w => mk dflt w self.vocab (some self.alg) (methodName self "abs")

/-- `copy()` -/
def copy (self : SP Vec) : Except Err (SP Vec) :=
  mk dflt self.v self.vocab (some self.alg) self.name

/-- `get_binding_matrix(swap_inputs)` -/
def getBindingMatrix (self : SP Vec) (swap : Bool) : Matrix ι ι R :=
  (E self.alg).bindMat self.v swap

/-- `__len__` -/
def len (_self : SP Vec) : ℕ := Fintype.card ι

/-- `np.dot(a, b)` of two vectors -/
def dotV (a b : Vec) : R := ∑ i, a i * b i

/-- the checks of `dot`/`compare`/`mse` on a pointer argument, then its vector -/
def argVec (self : SP Vec) (o : VecArg Vec) : Except Err Vec :=
  match o with
  | .raw w => .ok w
  | .ptr p =>
    match inferVocab self p with
    | .error e => .error e
    | .ok _ => .ok p.v

/-- `dot(other)` = `self @ other` -/
def dot (self : SP Vec) (o : VecArg Vec) : Except Err R :=
  match argVec self o with
  | .error e => .error e
  | .ok w => .ok (dotV self.v w)

end ring

section field
variable {ι K : Type} [Fintype ι] [DecidableEq ι] [Field K] [LinearOrder K] [IsStrictOrderedRing K]
variable (dflt : AlgId) (nrm : (ι → K) → K)

local notation "Vec" => ι → K

/-- `__truediv__` -/
def truediv (self : SP Vec) (o : Obj K) : Except Err (SP Vec) :=
  if o.kind.isNumber then
    if o.x = 0 then .error .zeroDivision
    else mk dflt (fun i => self.v i / o.x) self.vocab (some self.alg)
      (binaryName self (some (.leaf o.str)) "/" false)
  else if o.kind.isArray then .error .typeError
  else .error .returnsNotImplemented

/-- `compare(other)`: `scale = norm(self.v) * norm(other); 0 if scale == 0 else dot / scale` -/
def compare (self : SP Vec) (o : VecArg Vec) : Except Err K :=
  match argVec self o with
  | .error e => .error e
  | .ok w =>
    let sc := nrm self.v * nrm w
    if sc = 0 then .ok 0 else .ok (dotV self.v w / sc)

/-- `distance(other)`: `1 - self.compare(other)` -/
def distance (self : SP Vec) (o : VecArg Vec) : Except Err K :=
  match compare nrm self o with
  | .error e => .error e
  | .ok c => .ok (1 - c)

/-- `mse(other)`: `np.sum((self.v - other) ** 2) / len(self.v)` -/
def mse (self : SP Vec) (o : VecArg Vec) : Except Err K :=
  match argVec self o with
  | .error e => .error e
  | .ok w => .ok ((∑ i, (self.v i - w i) ^ 2) / (Fintype.card ι : K))

/-- `normalized()`: `nrm = norm(v); if nrm <= 0: nrm = 1; v / nrm` -/
def normalized (self : SP Vec) : Except Err (SP Vec) :=
  let n := nrm self.v
  let n' := if n ≤ 0 then 1 else n
  mk dflt (fun i => self.v i / n') self.vocab (some self.alg) (methodName self "normalized")

/-- `length()` -/
def length (self : SP Vec) : K := nrm self.v

end field
end Impl

/-! ### arrays with a write flag -/
namespace Mem

/-- a NumPy array: its data and `flags.writeable` -/
structure Arr (V : Type) where
  data : V
  writeable : Bool

/-- the heap: array objects by reference number -/
abbrev Heap (V : Type) := List (Arr V)

variable {V : Type}

/-- a fresh array object -/
def alloc (h : Heap V) (a : Arr V) : Heap V × ℕ := (h ++ [a], h.length)

/-- an in-place write (`a[i] = x`, `a += …`, `a.fill(…)`, …): refused with `ValueError` when
the write flag is off -/
def write (h : Heap V) (r : ℕ) (f : V → V) : Except Err (Heap V) :=
  match h[r]? with
  | none => .error .attributeError
  | some a => if a.writeable then .ok (h.set r { a with data := f a.data }) else .error .valueError

/-- `self.v = np.array(data, dtype=float); self.v.setflags(write=False)`: a NEW array with a copy
of the data of `src`, write flag off; returns the reference stored in `self.v` -/
def construct (h : Heap V) (src : ℕ) : Option (Heap V × ℕ) :=
  match h[src]? with
  | none => none
  | some a => some (alloc h ⟨a.data, false⟩)

/-- what a program can do to the heap afterwards -/
inductive Action (V : Type) where
  | write (r : ℕ) (f : V → V)       -- attempt an in-place write (may be refused)
  | alloc (a : Arr V)               -- create any new array
  | construct (src : ℕ)             -- build another pointer from an existing array

def step (h : Heap V) : Action V → Heap V
  | .write r f => match write h r f with | .ok h' => h' | .error _ => h
  | .alloc a => (alloc h a).1
  | .construct src => match construct h src with | some (h', _) => h' | none => h

def run (h : Heap V) (l : List (Action V)) : Heap V := l.foldl step h

end Mem

/-! ### the property's own formulas -/
namespace Spec
variable {ι R : Type} [Fintype ι] [CommRing R]

def dot (a b : ι → R) : R := ∑ i, a i * b i
def sqNorm (a : ι → R) : R := ∑ i, a i * a i

/-- `n` behaves as the Euclidean norm -/
def IsNorm {K : Type} [Field K] [LinearOrder K] (nrm : (ι → K) → K) : Prop :=
  ∀ v, 0 ≤ nrm v ∧ nrm v * nrm v = ∑ i, v i * v i

end Spec
end C07

/-
C02 — binding and superposition equal their mathematical definition, bilinearly.
Property theorems only (model: SpaModel/Basic/Algebra.lean).  Everything holds for
every commutative ring `R`, every HRR dimensionality `k+1` and every VTB/TVTB
sub-dimensionality `m` (dimensionality `m*m`).
-/
import SpaModel.Basic.Algebra
import Mathlib.Tactic.Ring
import Mathlib.Tactic.Abel
import Mathlib.Tactic.Linarith
import Mathlib.Tactic.IntervalCases
import Mathlib.Tactic.NormNum
import Mathlib.Algebra.BigOperators.Ring.Finset
import Mathlib.Data.Nat.Sqrt  -- (core has Nat.sqrt; lemmas live here)

set_option linter.unusedSectionVars false

open Matrix

namespace C02
open Alg

variable {R : Type*} [CommRing R]

/-! ### HRR: circular convolution -/
namespace Hrr
open Alg.Hrr

variable {k : ℕ}

/-- the modelled binding is the published sum formula -/
theorem bind_eq_spec (a b : Vec k R) : Impl.bind a b = Spec.bind a b := rfl

theorem superpose_eq (a b : Vec k R) (i : Fin (k+1)) : Impl.superpose a b i = a i + b i := rfl

theorem bind_add_left (a a' b : Vec k R) : Impl.bind (a + a') b = Impl.bind a b + Impl.bind a' b := by
  funext i; simp [Impl.bind, add_mul, Finset.sum_add_distrib]

theorem bind_add_right (a b b' : Vec k R) : Impl.bind a (b + b') = Impl.bind a b + Impl.bind a b' := by
  funext i; simp [Impl.bind, mul_add, Finset.sum_add_distrib]

theorem bind_smul_left (c : R) (a b : Vec k R) : Impl.bind (c • a) b = c • Impl.bind a b := by
  funext i; simp [Impl.bind, Finset.mul_sum, mul_assoc]

theorem bind_smul_right (c : R) (a b : Vec k R) : Impl.bind a (c • b) = c • Impl.bind a b := by
  funext i; simp only [Impl.bind, Pi.smul_apply, smul_eq_mul, Finset.mul_sum]
  exact Finset.sum_congr rfl fun j _ => by ring

theorem bind_comm (a b : Vec k R) : Impl.bind a b = Impl.bind b a := by
  funext i
  simp only [Impl.bind]
  refine Fintype.sum_equiv (Equiv.subLeft i) _ _ ?_
  intro j
  simp [Equiv.subLeft_apply, mul_comm]

/-- binding with `v` as right operand is multiplication by the circulant matrix of `v` -/
theorem bindMat_eq_circulant (v : Vec k R) (swap : Bool) : Impl.bindMat v swap = circulant v := rfl

/-- the binding matrix gives the direct operation, for both `swap_inputs` values -/
theorem bindMat_mulVec (v a : Vec k R) (swap : Bool) : Impl.bindMat v swap *ᵥ a = Impl.bind a v := by
  funext i
  simp only [Impl.bindMat, mulVec, dotProduct, of_apply, Impl.bind]
  exact Finset.sum_congr rfl fun j _ => mul_comm _ _

theorem bindMat_swap_mulVec (v a : Vec k R) (swap : Bool) :
    Impl.bindMat v swap *ᵥ a = Impl.bind v a := by
  rw [bindMat_mulVec, bind_comm]

theorem bind_assoc (a b c : Vec k R) :
    Impl.bind (Impl.bind a b) c = Impl.bind a (Impl.bind b c) := by
  rw [← bindMat_mulVec c _ false, ← bindMat_mulVec b a false, ← bindMat_mulVec (Impl.bind b c) a false,
    mulVec_mulVec, bindMat_eq_circulant, bindMat_eq_circulant, bindMat_eq_circulant, circulant_mul]
  congr 2
  rw [← bindMat_eq_circulant c false, bindMat_mulVec]

/-- the inversion matrix gives the direct operation -/
theorem invMat_mulVec (v : Vec k R) : Impl.invMat k *ᵥ v = Impl.invert v := by
  funext i
  simp [Impl.invMat, mulVec, dotProduct, Impl.invert]

theorem invert_eq_spec (v : Vec k R) : Impl.invert v = Spec.inv v := rfl

end Hrr

/-! ### VTB -/
namespace Vtb
open Alg.Vtb

variable {m : ℕ}

/-- `np.dot(get_binding_matrix(y), x)` is the published block formula -/
theorem bind_eq_spec (s : R) (x y : Vec2 m R) : Impl.bind s x y = Spec.bind s x y := by
  funext p
  obtain ⟨i, j⟩ := p
  simp only [Impl.bind, Impl.bindMat, Impl.blockMat, mulVec, dotProduct, of_apply, Spec.bind,
    Bool.false_eq_true, if_false]
  rw [Fintype.sum_prod_type, Finset.mul_sum]
  simp only [mul_assoc]
  rw [Finset.sum_eq_single i]
  · simp
  · intro b _ hb
    simp [Ne.symm hb]
  · simp

/-- matrix form: the `m × m` matrix of `bind x y` is `s • (X * Yᵀ)` -/
theorem bind_matrix_form (s : R) (x y : Vec2 m R) :
    toMat (Impl.bind s x y) = s • (toMat x * (toMat y)ᵀ) := by
  ext i j
  rw [bind_eq_spec]
  simp only [toMat, Spec.bind, of_apply, smul_apply, mul_apply, transpose_apply, smul_eq_mul]
  congr 1
  exact Finset.sum_congr rfl fun k _ => mul_comm _ _

theorem bind_add_left (s : R) (a a' b : Vec2 m R) :
    Impl.bind s (a + a') b = Impl.bind s a b + Impl.bind s a' b := by
  simp [Impl.bind, mulVec_add]

theorem bind_add_right (s : R) (a b b' : Vec2 m R) :
    Impl.bind s a (b + b') = Impl.bind s a b + Impl.bind s a b' := by
  simp only [bind_eq_spec]
  funext p; simp [Spec.bind, add_mul, Finset.sum_add_distrib, mul_add]

theorem bind_smul_left (s c : R) (a b : Vec2 m R) : Impl.bind s (c • a) b = c • Impl.bind s a b := by
  simp [Impl.bind, mulVec_smul]

theorem bind_smul_right (s c : R) (a b : Vec2 m R) : Impl.bind s a (c • b) = c • Impl.bind s a b := by
  simp only [bind_eq_spec]
  funext p
  simp only [Spec.bind, Pi.smul_apply, smul_eq_mul, Finset.mul_sum]
  exact Finset.sum_congr rfl fun j _ => by ring

/-- the binding matrix (right operand fixed) gives the direct operation -/
theorem bindMat_mulVec (s : R) (v a : Vec2 m R) : Impl.bindMat s v false *ᵥ a = Impl.bind s a v := rfl

theorem invMat_mulVec (v : Vec2 m R) : Impl.invMat m *ᵥ v = Impl.invert v := by
  funext p
  simp [Impl.invMat, mulVec, dotProduct, Impl.invert]

/-- with `swap_inputs` the matrix binds the fixed vector as LEFT operand -/
theorem bindMat_swap_mulVec (s : R) (v a : Vec2 m R) :
    Impl.bindMat s v true *ᵥ a = Impl.bind s v a := by
  simp only [Impl.bindMat, if_true]
  rw [← mulVec_mulVec, invMat_mulVec]
  have h := bind_eq_spec s a v
  simp only [Impl.bind, Impl.bindMat, Bool.false_eq_true, if_false] at h
  rw [h, bind_eq_spec]
  funext p
  simp only [Impl.invert, Spec.bind]
  congr 1
  exact Finset.sum_congr rfl fun k _ => mul_comm _ _

theorem superpose_eq (a b : Vec2 m R) (p : Fin m × Fin m) : Impl.superpose a b p = a p + b p := rfl

end Vtb

/-! ### TVTB -/
namespace Tvtb
open Alg.Tvtb

variable {m : ℕ}

theorem bind_eq_spec (s : R) (x y : Vec2 m R) : Impl.bind s x y = Spec.bind s x y := by
  funext p
  obtain ⟨i, j⟩ := p
  simp only [Impl.bind, Impl.bindMat, Impl.blockMat, mulVec, dotProduct, of_apply, Spec.bind,
    Bool.false_eq_true, if_false]
  rw [Fintype.sum_prod_type, Finset.mul_sum]
  simp only [mul_assoc]
  rw [Finset.sum_eq_single i]
  · simp
  · intro b _ hb
    simp [Ne.symm hb]
  · simp

/-- matrix form: the `m × m` matrix of `bind x y` is `s • (X * Y)` -/
theorem bind_matrix_form (s : R) (x y : Vec2 m R) :
    toMat (Impl.bind s x y) = s • (toMat x * toMat y) := by
  ext i j
  rw [bind_eq_spec]
  simp only [toMat, Spec.bind, of_apply, smul_apply, mul_apply, smul_eq_mul]
  congr 1
  exact Finset.sum_congr rfl fun k _ => mul_comm _ _

theorem bind_add_left (s : R) (a a' b : Vec2 m R) :
    Impl.bind s (a + a') b = Impl.bind s a b + Impl.bind s a' b := by
  simp [Impl.bind, mulVec_add]

theorem bind_add_right (s : R) (a b b' : Vec2 m R) :
    Impl.bind s a (b + b') = Impl.bind s a b + Impl.bind s a b' := by
  simp only [bind_eq_spec]
  funext p; simp [Spec.bind, add_mul, Finset.sum_add_distrib, mul_add]

theorem bind_smul_left (s c : R) (a b : Vec2 m R) : Impl.bind s (c • a) b = c • Impl.bind s a b := by
  simp [Impl.bind, mulVec_smul]

theorem bind_smul_right (s c : R) (a b : Vec2 m R) : Impl.bind s a (c • b) = c • Impl.bind s a b := by
  simp only [bind_eq_spec]
  funext p
  simp only [Spec.bind, Pi.smul_apply, smul_eq_mul, Finset.mul_sum]
  exact Finset.sum_congr rfl fun j _ => by ring

theorem bindMat_mulVec (s : R) (v a : Vec2 m R) : Impl.bindMat s v false *ᵥ a = Impl.bind s a v := rfl

theorem invMat_mulVec (v : Vec2 m R) : Impl.invMat m *ᵥ v = Impl.invert v := by
  funext p
  simp [Impl.invMat, mulVec, dotProduct, Impl.invert]

/-- `(blockMat v)ᵀ *ᵥ a` is the VTB-style product: entry `(i,j)` is `s · Σ_k v(j,k) a(i,k)` -/
theorem blockMat_transpose_mulVec (s : R) (v a : Vec2 m R) :
    (Impl.blockMat s v)ᵀ *ᵥ a = fun p => s * ∑ k, v (p.2, k) * a (p.1, k) := by
  funext p
  obtain ⟨i, j⟩ := p
  simp only [Impl.blockMat, mulVec, dotProduct, of_apply, transpose_apply]
  rw [Fintype.sum_prod_type, Finset.mul_sum]
  simp only [mul_assoc]
  rw [Finset.sum_eq_single i]
  · simp
  · intro b _ hb
    simp [hb]
  · simp

/-- with `swap_inputs` (`inv · Mᵀ · inv`) the matrix binds the fixed vector as LEFT operand -/
theorem bindMat_swap_mulVec (s : R) (v a : Vec2 m R) :
    Impl.bindMat s v true *ᵥ a = Impl.bind s v a := by
  simp only [Impl.bindMat, if_true]
  rw [← mulVec_mulVec, ← mulVec_mulVec, invMat_mulVec, invMat_mulVec, blockMat_transpose_mulVec,
    bind_eq_spec]
  funext p
  simp only [Impl.invert, Spec.bind]
  congr 1
  exact Finset.sum_congr rfl fun k _ => mul_comm _ _

theorem superpose_eq (a b : Vec2 m R) (p : Fin m × Fin m) : Impl.superpose a b p = a p + b p := rfl

end Tvtb

/-! ### dimensionality validation and length checks -/

/-- exactly the positive squares are valid VTB/TVTB dimensionalities -/
theorem isValidDim_iff (d : ℤ) : Alg.Impl.isValidDim d = true ↔ Alg.Spec.IsValidDim d := by
  unfold Alg.Impl.isValidDim Alg.Spec.IsValidDim
  split
  · next h => simp; intro h'; omega
  · next h =>
    have hd : (0 : ℤ) < d := by omega
    simp only [beq_iff_eq, hd, true_and]
    constructor
    · intro e
      exact ⟨Nat.sqrt d.toNat, by
        have : ((Nat.sqrt d.toNat * Nat.sqrt d.toNat : ℕ) : ℤ) = (d.toNat : ℤ) := by rw [e]
        rw [Int.toNat_of_nonneg hd.le] at this
        exact_mod_cast this⟩
    · rintro ⟨n, hn⟩
      have : d.toNat = n * n := by
        have : (d.toNat : ℤ) = ((n * n : ℕ) : ℤ) := by
          rw [Int.toNat_of_nonneg hd.le]; exact_mod_cast hn.symm
        exact_mod_cast this
      rw [this, Nat.sqrt_eq]

/-- operands of unequal length are rejected, and only those (HRR, d ≥ 1) -/
theorem Hrr.bindL_rejects_iff (a b : List R) (ha : a ≠ []) :
    Alg.Hrr.Impl.bindL a b = .error .lengthMismatch ↔ a.length ≠ b.length := by
  unfold Alg.Hrr.Impl.bindL
  have : a.length ≠ 0 := by simpa using ha
  split
  · next h => simp; exact fun e => h e.symm
  · next h =>
    have h' : b.length = a.length := by
      by_contra hc; exact h hc
    cases hl : a.length with
    | zero => exact absurd hl this
    | succ n => simp [h', hl]

theorem Hrr.bindL_ok (a b : List R) (k : ℕ) (ha : a.length = k + 1) (hb : b.length = k + 1) :
    Alg.Hrr.Impl.bindL a b = .ok (listOfVec (Alg.Hrr.Impl.bind (vecOfList k a) (vecOfList k b))) := by
  unfold Alg.Hrr.Impl.bindL
  simp [ha, hb]

theorem Vtb.bindL_rejects_length (s : ℕ → R) (a b : List R) (h : a.length ≠ b.length) :
    Alg.Vtb.Impl.bindL s a b = .error .lengthMismatch := by
  unfold Alg.Vtb.Impl.bindL; simp [Ne.symm h]

theorem Tvtb.bindL_rejects_length (s : ℕ → R) (a b : List R) (h : a.length ≠ b.length) :
    Alg.Tvtb.Impl.bindL s a b = .error .lengthMismatch := by
  unfold Alg.Tvtb.Impl.bindL; simp [Ne.symm h]

/-- non-square lengths are rejected, square ones are bound with `m = √d` -/
theorem subD_ok_iff (d m : ℕ) : subD d = .ok m ↔ m * m = d := by
  unfold subD
  constructor
  · intro h
    split at h
    · next e => injection h with h; rw [← h]; exact e
    · cases h
  · intro h
    subst h
    simp [Nat.sqrt_eq]

/-! ### non-vacuity -/
example : Alg.Impl.isValidDim 16 = true := (isValidDim_iff 16).2 ⟨by norm_num, 4, by norm_num⟩
example : Alg.Impl.isValidDim 0 = false := by simp [Alg.Impl.isValidDim]
example : ¬ Alg.Impl.isValidDim 11 = true := by
  rw [isValidDim_iff]
  rintro ⟨_, m, hm⟩
  have : m < 4 := by nlinarith
  interval_cases m <;> omega

end C02

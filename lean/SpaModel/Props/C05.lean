/-
C05 — binding networks bind; unbind options recover the bound operand.
Property theorems only (model: SpaModel/Basic/C05.lean, helper lemmas: SpaModel/Lemmas/C05.lean,
algebra layer: SpaModel/Basic/Algebra.lean with the base laws of SpaModel/Props/C02.lean).
Everything holds for every commutative ring `R`, every shape `(D1,D2)×(D2,D3)`, every VTB/TVTB
sub-dimensionality `m` (dimensionality `m*m`, `s` standing for `sqrt(m)`), every HRR dimensionality.

Clauses of the statement:
* "matrix-multiplication network returns the exact matrix product for all shapes":
  `MatrixMult.matMult_flat`, `matMult_correct`, `matMult_correct_matrix`, `transform_closed`,
  `buildShapes_ok_iff`;
* "inversion/swapping permutations": `Block.inversion_index`, `swapping_index`,
  `inversion_eq_swapping`, `apply_inversion`, `apply_swapping`, `apply_inversion_twice`;
* "equals the algebra's binding for all inputs" / unbind forms ("bilinear extension otherwise"):
  `Vtb.net_default/net_unbind_right/net_unbind_left`, `Tvtb.…`, `unbind_forms_bilinear`,
  `ProdNet.fn_isBilin` (net_bilinear), `IsBilin.ext_basis` (bilinear_ext),
  `Hrr.net_eq_spec_of_table`, `Hrr.net_eq_spec_of_coeff`;
* "returns y … exactly whenever x is unitary": `Vtb.unbind_right_recovers_iff`,
  `Vtb.unbind_left_recovers_iff`, `Tvtb.…`, `Hrr.unbind_right_recovers_iff`, `Hrr.unbind_left_recovers_iff`
  (+ `Hrr.net_unbind_*_recovers_iff` for a network carrying the per-d certificate);
* "every valid dimensionality / accepted option combinations": `build_notSquare`, `build_bothFlags`,
  `build_ok`; * "the Bind module wrapping it": `Bind.*`.

HRR: the DFT coefficients are irrational; the theorems lift the finite per-d coefficient table
(checked numerically by the harness at 1e-12 for every d of the tier) to all inputs.  The
all-d proof that `dft_half` satisfies the table (spectral layer) is a later stage and is NOT
claimed here; what IS proved for all d is the layout of the three transforms around any table
(`Hrr.eval_halfSpectrum`).
-/
import SpaModel.Lemmas.C05
import SpaModel.Props.C02
import Mathlib.LinearAlgebra.Matrix.NonsingularInverse
import Mathlib.Algebra.BigOperators.Pi
import Mathlib.Tactic.Ring
import Mathlib.Tactic.NormNum

set_option linter.unusedSectionVars false

open Matrix

namespace C05
open Alg

variable {R : Type*} [CommRing R]

/-! ### flat arrays and their matrix views -/

theorem reshape_flatten {a b : ℕ} (M : Matrix (Fin a) (Fin b) R) : reshape a b (flatten M) = M := by
  ext i j
  have hlt : i.val * b + j.val < a * b := radix_lt i.2 j.2
  simp only [reshape, flatten, of_apply]
  rw [rd_tab _ hlt]
  have h1 : (i.val * b + j.val) / b = i.val := radix_div j.2
  have h2 : (i.val * b + j.val) % b = j.val := radix_mod j.2
  rw [dif_pos (by rw [h1, h2]; exact ⟨i.2, j.2⟩)]
  congr 1 <;> (apply Fin.ext; simp [h1, h2])

theorem toMat_vec2OfArr (m : ℕ) (v : Array R) : toMat (vec2OfArr m v) = reshape m m v := rfl

theorem vec2OfArr_arrOfVec2 {m : ℕ} (x : Vec2 m R) : vec2OfArr m (arrOfVec2 x) = x := by
  have h := reshape_flatten (toMat x)
  funext p
  have := congrFun (congrFun h p.1) p.2
  simpa [reshape, toMat, vec2OfArr, flatIdx, arrOfVec2] using this

theorem vecOfArr_arrOfVec {n : ℕ} (x : Fin n → R) : vecOfArr n (arrOfVec x) = x := by
  funext i
  simp [vecOfArr, arrOfVec, rd_tab _ i.2]


/-! ### MatrixMult returns the exact matrix product, for all shapes -/
namespace MatrixMult
open Impl

/-- flat form: `out[i*D3+k] = Σ_j A[i*D2+j]·B[j*D3+k]` -/
theorem matMult_flat (D1 D2 D3 : ℕ) (A B : Array R) {i k : ℕ} (hi : i < D1) (hk : k < D3) :
    rd ((build D1 D2 D3).eval A B) (i * D3 + k) = Spec.matMul D2 D3 A B i k :=
  eval_eq_matMul D1 D2 D3 A B hi hk

/-- matrix form on arbitrary flat inputs -/
theorem matMult_correct (D1 D2 D3 : ℕ) (A B : Array R) :
    reshape D1 D3 ((build D1 D2 D3).eval A B) = reshape D1 D2 A * reshape D2 D3 B := by
  ext i k
  simp only [reshape, of_apply, mul_apply]
  rw [matMult_flat D1 D2 D3 A B i.2 k.2, Spec.matMul]
  exact Finset.sum_range (fun j => rd A (i.val * D2 + j) * rd B (j * D3 + k.val))

/-- every pair of matrices: the network returns `A * B` -/
theorem matMult_correct_matrix {D1 D2 D3 : ℕ} (A : Matrix (Fin D1) (Fin D2) R) (B : Matrix (Fin D2) (Fin D3) R) :
    reshape D1 D3 ((build D1 D2 D3).eval (flatten A) (flatten B)) = A * B := by
  rw [matMult_correct, reshape_flatten, reshape_flatten]

/-- closed forms of the three transforms in terms of the flat product index `c`
(`c < D1*D2*D3`): the single 1 of row `c` of `transform_left` is at column
`c % D2 + (c / (D2*D3)) * D2`, of `transform_right` at `(c / D2) % D3 + (c % D2) * D3`. -/
theorem transform_closed {D1 D2 D3 c : ℕ} (hc : c < D1 * D2 * D3) (a : ℕ) :
    transformLeftF (R := R) D1 D2 D3 c a = (if a = c % D2 + (c / (D2 * D3)) * D2 then 1 else 0) ∧
    transformRightF (R := R) D1 D2 D3 c a = (if a = (c / D2) % D3 + (c % D2) * D3 then 1 else 0) := by
  have hD2 : 0 < D2 := by
    rcases Nat.eq_zero_or_pos D2 with h | h
    · subst h; simp at hc
    · exact h
  have hD3 : 0 < D3 := by
    rcases Nat.eq_zero_or_pos D3 with h | h
    · subst h; simp at hc
    · exact h
  have hq : c / D2 < D1 * D3 := by
    apply Nat.div_lt_of_lt_mul
    calc c < D1 * D2 * D3 := hc
      _ = D2 * (D1 * D3) := by ring
  have hi : c / D2 / D3 < D1 := by
    apply Nat.div_lt_of_lt_mul
    rw [Nat.mul_comm]; exact hq
  have hk : c / D2 % D3 < D3 := Nat.mod_lt _ hD3
  have hj : c % D2 < D2 := Nat.mod_lt _ hD2
  have e : c = (c / D2 / D3 * D3 + c / D2 % D3) * D2 + c % D2 := by
    rw [Nat.div_add_mod' (c / D2) D3, Nat.div_add_mod' c D2]
  have e2 : c / (D2 * D3) = c / D2 / D3 := (Nat.div_div_eq_div_mul c D2 D3).symm
  constructor
  · conv_lhs => rw [e]
    rw [transformLeftF_radix hi hj hk, e2, Nat.add_comm]
  · conv_lhs => rw [e]
    rw [transformRightF_radix hi hj hk, Nat.add_comm]

/-- shapes: accepted exactly for two 2-tuples with matching inner dimension -/
theorem buildShapes_ok_iff (sl sr : List ℕ) (N : ProdNet R) :
    buildShapes sl sr = .ok N ↔ ∃ D1 D2 D3, sl = [D1, D2] ∧ sr = [D2, D3] ∧ N = build D1 D2 D3 := by
  constructor
  · intro h
    rcases sl with _ | ⟨D1, _ | ⟨D2, _ | ⟨x, t⟩⟩⟩ <;>
      rcases sr with _ | ⟨D2', _ | ⟨D3, _ | ⟨x', t'⟩⟩⟩ <;> simp [buildShapes] at h
    by_cases hD : D2 = D2'
    · subst hD
      simp at h
      exact ⟨D1, D2, D3, rfl, rfl, h.symm⟩
    · simp [hD] at h
  · rintro ⟨D1, D2, D3, rfl, rfl, rfl⟩
    simp [buildShapes]

end MatrixMult

/-! ### HRR: layout of the three transforms around any DFT table (all d) -/
namespace Hrr
open C05.Hrr.Impl C05.Hrr.Spec

theorem idx4 (w q : ℕ) (hq : q < 4) : (w * 4 + q) / 4 = w ∧ (w * 4 + q) % 4 = q := by omega

theorem inA_sum (t : Tbl R) (d : ℕ) (inv : Bool) (a : Array R) (w q : ℕ) (hq : q < 4) :
    ∑ i ∈ Finset.range d, transformInF t false inv (w * 4 + q) i * rd a i
      = if q % 2 = 0 then coefRe t d a w else coefIm t d inv a w := by
  obtain ⟨h1, h2⟩ := idx4 w q hq
  have h3 : (w * 4 + q) % 2 = q % 2 := by omega
  unfold transformInF coefRe coefIm
  simp only [h1, h3, Bool.false_eq_true, if_false]
  split <;> rfl

theorem inB_sum (t : Tbl R) (d : ℕ) (inv : Bool) (b : Array R) (w q : ℕ) (hq : q < 4) :
    ∑ i ∈ Finset.range d, transformInF t true inv (w * 4 + q) i * rd b i
      = if q = 0 ∨ q = 3 then coefRe t d b w else coefIm t d inv b w := by
  obtain ⟨h1, h2⟩ := idx4 w q hq
  unfold transformInF coefRe coefIm
  simp only [h1, h2, if_true]
  split <;> rfl

/-- layout theorem, all `d`, any table: the three transforms of `CircularConvolution` compute the
real part of the inverse half-spectrum transform of the complex product of the two (optionally
conjugated) half-spectra -/
theorem eval_halfSpectrum (t : Tbl R) (d : ℕ) (ia ib : Bool) (a b : Array R) {x : ℕ} (hx : x < d) :
    rd ((Impl.build t d ia ib).eval a b) x = Spec.halfSpectrum t d ia ib a b x := by
  rw [ProdNet.rd_eval _ _ _ (by exact hx)]
  show ∑ c ∈ Finset.range (4 * (d / 2 + 1)), _ = _
  have key : ∀ c ∈ Finset.range (4 * (d / 2 + 1)),
      rd2 (Impl.build t d ia ib).TO x c *
        ((∑ i ∈ Finset.range (Impl.build t d ia ib).nL, rd2 (Impl.build t d ia ib).TL c i * rd a i) *
         (∑ j ∈ Finset.range (Impl.build t d ia ib).nR, rd2 (Impl.build t d ia ib).TR c j * rd b j))
      = transformOutF t d x c *
        ((∑ i ∈ Finset.range d, transformInF t false ia c i * rd a i) *
         (∑ j ∈ Finset.range d, transformInF t true ib c j * rd b j)) := by
    intro c hc
    have hc := Finset.mem_range.mp hc
    simp only [Impl.build]
    rw [rd2_tab2 _ hx hc]
    congr 2
    · exact Finset.sum_congr rfl fun i hi => by rw [rd2_tab2 _ hc (Finset.mem_range.mp hi)]
    · exact Finset.sum_congr rfl fun i hi => by rw [rd2_tab2 _ hc (Finset.mem_range.mp hi)]
  rw [Finset.sum_congr rfl key, Nat.mul_comm 4, sum_range_mul]
  unfold Spec.halfSpectrum
  refine Finset.sum_congr rfl fun w _ => ?_
  simp only [Finset.sum_range_succ, Finset.sum_range_zero, zero_add]
  rw [inA_sum t d ia a w 0 (by omega), inA_sum t d ia a w 1 (by omega), inA_sum t d ia a w 2 (by omega),
    inA_sum t d ia a w 3 (by omega), inB_sum t d ib b w 0 (by omega), inB_sum t d ib b w 1 (by omega),
    inB_sum t d ib b w 2 (by omega), inB_sum t d ib b w 3 (by omega)]
  have e0 := idx4 w 0 (by omega)
  have e1 := idx4 w 1 (by omega)
  have e2 := idx4 w 2 (by omega)
  have e3 := idx4 w 3 (by omega)
  unfold transformOutF
  simp only [e0.1, e0.2, e1.1, e1.2, e2.1, e2.2, e3.1, e3.2]
  norm_num
  split_ifs <;> ring

end Hrr

/-! ### `inversion_matrix` and `swapping_matrix` are the transposition `(a, b) ↦ (b, a)` -/
namespace Block

/-- index identity of `inversion_matrix`: column `a*m+b` has its 1 in row `b*m+a` -/
theorem inversion_index {m a b : ℕ} (ha : a < m) (hb : b < m) :
    (m * (a * m + b)) % (m * m) + (m * (a * m + b)) / (m * m) = b * m + a := inv_index ha hb

/-- index identity of `swapping_matrix`: row `a*m+b` has its 1 in column `b*m+a` -/
theorem swapping_index {m a b : ℕ} (hb : b < m) :
    (a * m + b) / m + m * ((a * m + b) % m) = b * m + a := swap_index hb

/-- both matrices are the permutation matrix of the transposition, for every `m` -/
theorem inversion_eq_swapping {m r c : ℕ} (hr : r < m * m) (hc : c < m * m) :
    invF (R := R) (m * m) m r c = swapF (m * m) m r c := by
  obtain ⟨h1, h2⟩ := divmod_lt hr
  have e : r = r / m * m + r % m := (Nat.div_add_mod' r m).symm
  rw [e, invF_apply h1 h2 hc, swapF_apply h1 h2]

/-- applying `inversion_matrix` reads the transposed entry -/
theorem apply_inversion {m : ℕ} (v : Array R) :
    vec2OfArr m (applyT (m * m) (some (tab2 (m * m) (m * m) (invF (m * m) m))) v)
      = Alg.Vtb.Impl.invert (vec2OfArr m v) := by
  funext ⟨a, b⟩
  simp only [vec2OfArr, flatIdx, Alg.Vtb.Impl.invert]
  exact rd_applyT_inv v a.2 b.2

theorem apply_swapping {m : ℕ} (v : Array R) :
    vec2OfArr m (applyT (m * m) (some (tab2 (m * m) (m * m) (swapF (m * m) m))) v)
      = Alg.Vtb.Impl.invert (vec2OfArr m v) := by
  funext ⟨a, b⟩
  simp only [vec2OfArr, flatIdx, Alg.Vtb.Impl.invert]
  exact rd_applyT_swap v a.2 b.2

/-- the transposition is an involution -/
theorem invert_involutive {m : ℕ} (x : Vec2 m R) : Alg.Vtb.Impl.invert (Alg.Vtb.Impl.invert x) = x := rfl

theorem apply_inversion_twice {m : ℕ} (v : Array R) :
    vec2OfArr m (applyT (m * m) (some (tab2 (m * m) (m * m) (invF (m * m) m)))
      (applyT (m * m) (some (tab2 (m * m) (m * m) (invF (m * m) m))) v)) = vec2OfArr m v := by
  rw [apply_inversion, apply_inversion, invert_involutive]

theorem apply_none {m : ℕ} (v : Array R) :
    vec2OfArr m (applyT (m * m) none v) = vec2OfArr m v := by
  funext ⟨a, b⟩
  simp only [vec2OfArr, flatIdx]
  exact rd_applyT_none v (radix_lt a.2 b.2)

/-- the block structure shared by VTB and TVTB, in `Vec2` terms: the output is the VTB product of
what reaches `vec` with what reaches `mm.input_left` -/
theorem run_eq_bind (N : BlockNet R) {m : ℕ} (hd : N.d = m * m) (hm : N.m = m)
    (hmm : N.matmul = MatrixMult.Impl.build m m 1) (s : R) (L Rt : Array R) :
    vec2OfArr m (run N s L Rt) = Alg.Vtb.Impl.bind s
      (vec2OfArr m (applyT (m * m) N.vec.T (pick N.vec.src L Rt)))
      (vec2OfArr m (applyT (m * m) N.mmLeftT (applyT (m * m) N.mat.T (pick N.mat.src L Rt)))) := by
  rw [C02.Vtb.bind_eq_spec]
  funext ⟨i, r⟩
  simp only [vec2OfArr, flatIdx, Alg.Vtb.Spec.bind]
  rw [run_formula N hd hm hmm s L Rt i.2 r.2]
  congr 1
  exact Finset.sum_range (fun c =>
    rd (applyT (m * m) N.mmLeftT (applyT (m * m) N.mat.T (pick N.mat.src L Rt))) (r.val * m + c) *
    rd (applyT (m * m) N.vec.T (pick N.vec.src L Rt)) (i.val * m + c))

/-- VTB binding with a transposed right operand is TVTB binding -/
theorem vtb_bind_invert {m : ℕ} (s : R) (x y : Vec2 m R) :
    Alg.Vtb.Impl.bind s x (Alg.Vtb.Impl.invert y) = Alg.Tvtb.Impl.bind s x y := by
  rw [C02.Vtb.bind_eq_spec, C02.Tvtb.bind_eq_spec]; rfl

end Block

theorem subD_sq (m : ℕ) : subD (m * m) = .ok m := (C02.subD_ok_iff _ _).2 rfl

/-! ### VTB network -/
namespace Vtb
open Block

/-- `calc_sub_d` rejects non-squares (before the flags are looked at) -/
theorem build_notSquare (d : ℕ) (h : ¬ ∃ m, m * m = d) (ul ur : Bool) :
    Vtb.Impl.build (R := R) d ul ur = .error .notSquare := by
  unfold Vtb.Impl.build
  cases hs : subD d with
  | error e => rfl
  | ok m => exact absurd ⟨m, (C02.subD_ok_iff _ _).1 hs⟩ h

/-- both flags: `ValueError` -/
theorem build_bothFlags (m : ℕ) : Vtb.Impl.build (R := R) (m * m) true true = .error .bothFlags := by
  simp [Vtb.Impl.build, subD_sq]

/-- every other combination on a square dimensionality is built -/
theorem build_ok (m : ℕ) (ul ur : Bool) (h : ¬ (ul = true ∧ ur = true)) :
    ∃ N, Vtb.Impl.build (R := R) (m * m) ul ur = .ok N ∧ N.d = m * m ∧ N.m = m := by
  cases ul <;> cases ur <;> simp_all [Vtb.Impl.build, subD_sq]

/-- default flags: the network computes the algebra's binding, for all inputs -/
theorem net_default {m : ℕ} {N : BlockNet R} (h : Vtb.Impl.build (m * m) false false = .ok N)
    (s : R) (L Rt : Array R) :
    vec2OfArr m (run N s L Rt) = Alg.Vtb.Impl.bind s (vec2OfArr m L) (vec2OfArr m Rt) := by
  simp only [Vtb.Impl.build, subD_sq, Bool.and_false, Bool.false_eq_true, if_false] at h
  injection h with h; subst h
  rw [run_eq_bind (m := m) _ rfl rfl rfl]
  simp only [pick, apply_none]

/-- `unbind_right`: `bind(left, inv(right))` -/
theorem net_unbind_right {m : ℕ} {N : BlockNet R} (h : Vtb.Impl.build (m * m) false true = .ok N)
    (s : R) (L Rt : Array R) :
    vec2OfArr m (run N s L Rt)
      = Alg.Vtb.Impl.bind s (vec2OfArr m L) (Alg.Vtb.Impl.invert (vec2OfArr m Rt)) := by
  simp only [Vtb.Impl.build, subD_sq, Bool.and_true, Bool.false_eq_true, if_false, if_true] at h
  injection h with h; subst h
  rw [run_eq_bind (m := m) _ rfl rfl rfl]
  simp only [pick, apply_none, apply_inversion]

/-- `unbind_left`: `mat := inv(left)`, `vec := swap(right)`, i.e. `bind(swap(right), inv(left))`
(swapping and inversion are the same transposition) -/
theorem net_unbind_left {m : ℕ} {N : BlockNet R} (h : Vtb.Impl.build (m * m) true false = .ok N)
    (s : R) (L Rt : Array R) :
    vec2OfArr m (run N s L Rt)
      = Alg.Vtb.Impl.bind s (Alg.Vtb.Impl.invert (vec2OfArr m Rt)) (Alg.Vtb.Impl.invert (vec2OfArr m L)) := by
  simp only [Vtb.Impl.build, subD_sq, Bool.and_false, Bool.false_eq_true, if_false, if_true] at h
  injection h with h; subst h
  rw [run_eq_bind (m := m) _ rfl rfl rfl]
  simp only [pick, apply_none, apply_inversion, apply_swapping]

end Vtb

/-! ### TVTB network -/
namespace Tvtb
open Block

theorem build_notSquare (d : ℕ) (h : ¬ ∃ m, m * m = d) (ul ur : Bool) :
    Tvtb.Impl.build (R := R) d ul ur = .error .notSquare := by
  unfold Tvtb.Impl.build
  cases hs : subD d with
  | error e => rfl
  | ok m => exact absurd ⟨m, (C02.subD_ok_iff _ _).1 hs⟩ h

theorem build_bothFlags (m : ℕ) : Tvtb.Impl.build (R := R) (m * m) true true = .error .bothFlags := by
  simp [Tvtb.Impl.build, subD_sq]

theorem build_ok (m : ℕ) (ul ur : Bool) (h : ¬ (ul = true ∧ ur = true)) :
    ∃ N, Tvtb.Impl.build (R := R) (m * m) ul ur = .ok N ∧ N.d = m * m ∧ N.m = m := by
  cases ul <;> cases ur <;> simp_all [Tvtb.Impl.build, subD_sq]

theorem net_default {m : ℕ} {N : BlockNet R} (h : Tvtb.Impl.build (m * m) false false = .ok N)
    (s : R) (L Rt : Array R) :
    vec2OfArr m (run N s L Rt) = Alg.Tvtb.Impl.bind s (vec2OfArr m L) (vec2OfArr m Rt) := by
  simp only [Tvtb.Impl.build, subD_sq, Bool.and_false, Bool.false_eq_true, if_false] at h
  injection h with h; subst h
  rw [run_eq_bind (m := m) _ rfl rfl rfl]
  simp only [pick, apply_none, apply_inversion, vtb_bind_invert]

theorem net_unbind_right {m : ℕ} {N : BlockNet R} (h : Tvtb.Impl.build (m * m) false true = .ok N)
    (s : R) (L Rt : Array R) :
    vec2OfArr m (run N s L Rt)
      = Alg.Tvtb.Impl.bind s (vec2OfArr m L) (Alg.Tvtb.Impl.invert (vec2OfArr m Rt)) := by
  simp only [Tvtb.Impl.build, subD_sq, Bool.and_true, Bool.false_eq_true, if_false, if_true] at h
  injection h with h; subst h
  rw [run_eq_bind (m := m) _ rfl rfl rfl]
  simp only [pick, apply_none, apply_inversion, vtb_bind_invert]
  rfl

/-- `unbind_left` (repaired routing): `vec := inv(left)`, `mat := right`, i.e. `bind(inv(left), right)` -/
theorem net_unbind_left {m : ℕ} {N : BlockNet R} (h : Tvtb.Impl.build (m * m) true false = .ok N)
    (s : R) (L Rt : Array R) :
    vec2OfArr m (run N s L Rt)
      = Alg.Tvtb.Impl.bind s (Alg.Tvtb.Impl.invert (vec2OfArr m L)) (vec2OfArr m Rt) := by
  simp only [Tvtb.Impl.build, subD_sq, Bool.and_false, Bool.false_eq_true, if_false, if_true] at h
  injection h with h; subst h
  rw [run_eq_bind (m := m) _ rfl rfl rfl]
  simp only [pick, apply_none, apply_inversion, vtb_bind_invert]
  rfl

end Tvtb
/-! ### recovery laws: exactly for unitary `x` -/
namespace Recover
variable {m : ℕ}

theorem toMat_injective {x y : Vec2 m R} (h : toMat x = toMat y) : x = y := by
  funext p
  exact congrFun (congrFun h p.1) p.2

theorem toMat_invert (x : Vec2 m R) : toMat (Alg.Vtb.Impl.invert x) = (toMat x)ᵀ := rfl
theorem toMat_invert' (x : Vec2 m R) : toMat (Alg.Tvtb.Impl.invert x) = (toMat x)ᵀ := rfl

theorem forall_vec2_iff (F : Vec2 m R → Vec2 m R) (G : Matrix (Fin m) (Fin m) R → Matrix (Fin m) (Fin m) R)
    (hFG : ∀ y, toMat (F y) = G (toMat y)) : (∀ y, F y = y) ↔ (∀ Y, G Y = Y) := by
  constructor
  · intro H Y
    have := congrArg toMat (H (ofMat Y))
    rw [hFG] at this
    exact this
  · intro H y
    apply toMat_injective
    rw [hFG]; exact H _

theorem smul_right_iff (c : R) (P : Matrix (Fin m) (Fin m) R) : (∀ Y : Matrix (Fin m) (Fin m) R, c • (Y * P) = Y) ↔ c • P = 1 := by
  constructor
  · intro H; simpa using H 1
  · intro H Y; rw [← Matrix.mul_smul, H, Matrix.mul_one]

theorem smul_left_iff (c : R) (P : Matrix (Fin m) (Fin m) R) : (∀ Y : Matrix (Fin m) (Fin m) R, c • (P * Y) = Y) ↔ c • P = 1 := by
  constructor
  · intro H; simpa using H 1
  · intro H Y; rw [← Matrix.smul_mul, H, Matrix.one_mul]

/-- `X Xᵀ` and `Xᵀ X` forms of unitarity agree (square matrices over a commutative ring) -/
theorem isUnitary2_iff_transpose (s : R) (x : Vec2 m R) :
    Spec.IsUnitary2 s x ↔ (s * s) • ((toMat x)ᵀ * toMat x) = 1 := by
  unfold Spec.IsUnitary2
  rw [← Matrix.smul_mul, _root_.mul_eq_one_comm, Matrix.mul_smul]

/-- with `s·s = m` this is the notion `m • (X Xᵀ) = 1` used for the algebra (C08) -/
theorem isUnitary2_iff_nat (s : R) (hs : s * s = (m : R)) (x : Vec2 m R) :
    Spec.IsUnitary2 s x ↔ (m : R) • (toMat x * (toMat x)ᵀ) = 1 := by
  unfold Spec.IsUnitary2; rw [hs]

theorem vtb_right_matrix (s : R) (x y : Vec2 m R) :
    toMat (Alg.Vtb.Impl.bind s (Alg.Vtb.Impl.bind s y x) (Alg.Vtb.Impl.invert x))
      = (s * s) • (toMat y * ((toMat x)ᵀ * toMat x)) := by
  rw [C02.Vtb.bind_matrix_form, C02.Vtb.bind_matrix_form]
  show s • (s • (toMat y * (toMat x)ᵀ) * ((toMat x)ᵀ)ᵀ) = _
  rw [transpose_transpose, Matrix.smul_mul, smul_smul, Matrix.mul_assoc]

theorem vtb_left_matrix (s : R) (x y : Vec2 m R) :
    toMat (Alg.Vtb.Impl.bind s (Alg.Vtb.Impl.invert (Alg.Vtb.Impl.bind s x y)) (Alg.Vtb.Impl.invert x))
      = (s * s) • (toMat y * ((toMat x)ᵀ * toMat x)) := by
  rw [C02.Vtb.bind_matrix_form]
  show s • ((toMat (Alg.Vtb.Impl.bind s x y))ᵀ * ((toMat x)ᵀ)ᵀ) = _
  rw [C02.Vtb.bind_matrix_form, transpose_transpose, transpose_smul, transpose_mul, transpose_transpose,
    Matrix.smul_mul, smul_smul, Matrix.mul_assoc]

theorem tvtb_right_matrix (s : R) (x y : Vec2 m R) :
    toMat (Alg.Tvtb.Impl.bind s (Alg.Tvtb.Impl.bind s y x) (Alg.Tvtb.Impl.invert x))
      = (s * s) • (toMat y * (toMat x * (toMat x)ᵀ)) := by
  rw [C02.Tvtb.bind_matrix_form, C02.Tvtb.bind_matrix_form]
  show s • (s • (toMat y * toMat x) * (toMat x)ᵀ) = _
  rw [Matrix.smul_mul, smul_smul, Matrix.mul_assoc]

theorem tvtb_left_matrix (s : R) (x y : Vec2 m R) :
    toMat (Alg.Tvtb.Impl.bind s (Alg.Tvtb.Impl.invert x) (Alg.Tvtb.Impl.bind s x y))
      = (s * s) • (((toMat x)ᵀ * toMat x) * toMat y) := by
  rw [C02.Tvtb.bind_matrix_form, C02.Tvtb.bind_matrix_form]
  show s • ((toMat x)ᵀ * s • (toMat x * toMat y)) = _
  rw [Matrix.mul_smul, smul_smul, Matrix.mul_assoc]
end Recover

/-! ### bilinearity and extension from the basis -/

namespace IsBilin
variable {n : ℕ} {f g : (Fin n → R) → (Fin n → R) → (Fin n → R)}

theorem zero_left (hf : IsBilin f) (b : Fin n → R) : f 0 b = 0 := by
  have := hf.smul_left 0 0 b
  simpa using this

theorem zero_right (hf : IsBilin f) (a : Fin n → R) : f a 0 = 0 := by
  have := hf.smul_right 0 a 0
  simpa using this

theorem sum_left (hf : IsBilin f) {ι : Type*} (S : Finset ι) (c : ι → R) (v : ι → Fin n → R) (b : Fin n → R) :
    f (∑ i ∈ S, c i • v i) b = ∑ i ∈ S, c i • f (v i) b := by
  classical
  induction S using Finset.induction_on with
  | empty => simp [hf.zero_left]
  | insert i S hi ih => rw [Finset.sum_insert hi, Finset.sum_insert hi, hf.add_left, hf.smul_left, ih]

theorem sum_right (hf : IsBilin f) {ι : Type*} (S : Finset ι) (c : ι → R) (v : ι → Fin n → R) (a : Fin n → R) :
    f a (∑ i ∈ S, c i • v i) = ∑ i ∈ S, c i • f a (v i) := by
  classical
  induction S using Finset.induction_on with
  | empty => simp [hf.zero_right]
  | insert i S hi ih => rw [Finset.sum_insert hi, Finset.sum_insert hi, hf.add_right, hf.smul_right, ih]

/-- the value on any pair of inputs is determined by the values on the `n²` basis pairs -/
theorem expand (hf : IsBilin f) (a b : Fin n → R) :
    f a b = ∑ i, ∑ j, (a i * b j) • f (Pi.single i 1) (Pi.single j 1) := by
  conv_lhs => rw [pi_eq_sum_univ' a, hf.sum_left]
  refine Finset.sum_congr rfl fun i _ => ?_
  conv_lhs => rw [pi_eq_sum_univ' b, hf.sum_right, Finset.smul_sum]
  refine Finset.sum_congr rfl fun j _ => ?_
  rw [smul_smul]

/-- two bilinear maps that agree on all basis pairs are equal -/
theorem ext_basis (hf : IsBilin f) (hg : IsBilin g)
    (h : ∀ i j, f (Pi.single i 1) (Pi.single j 1) = g (Pi.single i 1) (Pi.single j 1)) : f = g := by
  funext a b
  rw [hf.expand, hg.expand]
  simp only [h]

end IsBilin
theorem rd_arrOfVec {n : ℕ} (x : Fin n → R) (i : Fin n) : rd (arrOfVec x) i.val = x i := by
  simp [arrOfVec, rd_tab _ i.2]

namespace ProdNet

/-- the input/output map of any `linear → product → linear` network with `n`-dimensional inputs
and output, as a formula -/
theorem fn_formula (N : ProdNet R) {n : ℕ} (hL : N.nL = n) (hR : N.nR = n) (hO : N.nO = n)
    (a b : Fin n → R) (o : Fin n) :
    N.fn n a b o = ∑ c ∈ Finset.range N.nC, rd2 N.TO o.val c *
      ((∑ i : Fin n, rd2 N.TL c i.val * a i) * (∑ j : Fin n, rd2 N.TR c j.val * b j)) := by
  unfold fn vecOfArr
  rw [rd_eval N _ _ (by rw [hO]; exact o.2), hL, hR]
  refine Finset.sum_congr rfl fun c _ => ?_
  rw [Finset.sum_range (fun i => rd2 N.TL c i * rd (arrOfVec a) i),
    Finset.sum_range (fun j => rd2 N.TR c j * rd (arrOfVec b) j)]
  simp only [rd_arrOfVec]

/-- `net_bilinear`: every such network is a bilinear map of its two inputs -/
theorem fn_isBilin (N : ProdNet R) {n : ℕ} (hL : N.nL = n) (hR : N.nR = n) (hO : N.nO = n) :
    IsBilin (N.fn n) := by
  constructor
  · intro a a' b; funext o
    simp only [Pi.add_apply, fn_formula N hL hR hO, mul_add, add_mul, Finset.sum_add_distrib]
  · intro a b b'; funext o
    simp only [Pi.add_apply, fn_formula N hL hR hO, mul_add, Finset.sum_add_distrib]
  · intro c a b; funext o
    simp only [Pi.smul_apply, smul_eq_mul, fn_formula N hL hR hO]
    rw [Finset.mul_sum]
    refine Finset.sum_congr rfl fun x _ => ?_
    have : ∑ i : Fin n, rd2 N.TL x i.val * (c * a i) = c * ∑ i : Fin n, rd2 N.TL x i.val * a i := by
      rw [Finset.mul_sum]; exact Finset.sum_congr rfl fun i _ => by ring
    rw [this]; ring
  · intro c a b; funext o
    simp only [Pi.smul_apply, smul_eq_mul, fn_formula N hL hR hO]
    rw [Finset.mul_sum]
    refine Finset.sum_congr rfl fun x _ => ?_
    have : ∑ i : Fin n, rd2 N.TR x i.val * (c * b i) = c * ∑ i : Fin n, rd2 N.TR x i.val * b i := by
      rw [Finset.mul_sum]; exact Finset.sum_congr rfl fun i _ => by ring
    rw [this]; ring
end ProdNet

/-! ### VTB / TVTB: the unbind options return `y` exactly for unitary `x` -/
namespace Vtb
open Block

/-- right unbinding: inputs `(bind(y, x), x)` give back `y`, for every `y`, iff `x` is unitary -/
theorem unbind_right_recovers_iff {m : ℕ} {N : BlockNet R}
    (h : Vtb.Impl.build (m * m) false true = .ok N) (s : R) (x : Vec2 m R) :
    (∀ y : Vec2 m R,
        vec2OfArr m (run N s (arrOfVec2 (Alg.Vtb.Impl.bind s y x)) (arrOfVec2 x)) = y)
      ↔ Spec.IsUnitary2 s x := by
  simp only [net_unbind_right h, vec2OfArr_arrOfVec2]
  rw [Recover.isUnitary2_iff_transpose, ← Recover.smul_right_iff]
  exact Recover.forall_vec2_iff
    (fun y => Alg.Vtb.Impl.bind s (Alg.Vtb.Impl.bind s y x) (Alg.Vtb.Impl.invert x))
    (fun Y => (s * s) • (Y * ((toMat x)ᵀ * toMat x))) (fun y => Recover.vtb_right_matrix s x y)

/-- left unbinding: inputs `(x, bind(x, y))` give back `y`, for every `y`, iff `x` is unitary -/
theorem unbind_left_recovers_iff {m : ℕ} {N : BlockNet R}
    (h : Vtb.Impl.build (m * m) true false = .ok N) (s : R) (x : Vec2 m R) :
    (∀ y : Vec2 m R,
        vec2OfArr m (run N s (arrOfVec2 x) (arrOfVec2 (Alg.Vtb.Impl.bind s x y))) = y)
      ↔ Spec.IsUnitary2 s x := by
  simp only [net_unbind_left h, vec2OfArr_arrOfVec2]
  rw [Recover.isUnitary2_iff_transpose, ← Recover.smul_right_iff]
  exact Recover.forall_vec2_iff
    (fun y => Alg.Vtb.Impl.bind s (Alg.Vtb.Impl.invert (Alg.Vtb.Impl.bind s x y)) (Alg.Vtb.Impl.invert x))
    (fun Y => (s * s) • (Y * ((toMat x)ᵀ * toMat x))) (fun y => Recover.vtb_left_matrix s x y)

end Vtb

namespace Tvtb
open Block

theorem unbind_right_recovers_iff {m : ℕ} {N : BlockNet R}
    (h : Tvtb.Impl.build (m * m) false true = .ok N) (s : R) (x : Vec2 m R) :
    (∀ y : Vec2 m R,
        vec2OfArr m (run N s (arrOfVec2 (Alg.Tvtb.Impl.bind s y x)) (arrOfVec2 x)) = y)
      ↔ Spec.IsUnitary2 s x := by
  simp only [net_unbind_right h, vec2OfArr_arrOfVec2]
  unfold Spec.IsUnitary2
  rw [← Recover.smul_right_iff]
  exact Recover.forall_vec2_iff
    (fun y => Alg.Tvtb.Impl.bind s (Alg.Tvtb.Impl.bind s y x) (Alg.Tvtb.Impl.invert x))
    (fun Y => (s * s) • (Y * (toMat x * (toMat x)ᵀ))) (fun y => Recover.tvtb_right_matrix s x y)

/-- the law that was false of the network before commit ccdcb31 -/
theorem unbind_left_recovers_iff {m : ℕ} {N : BlockNet R}
    (h : Tvtb.Impl.build (m * m) true false = .ok N) (s : R) (x : Vec2 m R) :
    (∀ y : Vec2 m R,
        vec2OfArr m (run N s (arrOfVec2 x) (arrOfVec2 (Alg.Tvtb.Impl.bind s x y))) = y)
      ↔ Spec.IsUnitary2 s x := by
  simp only [net_unbind_left h, vec2OfArr_arrOfVec2]
  rw [Recover.isUnitary2_iff_transpose, ← Recover.smul_left_iff]
  exact Recover.forall_vec2_iff
    (fun y => Alg.Tvtb.Impl.bind s (Alg.Tvtb.Impl.invert x) (Alg.Tvtb.Impl.bind s x y))
    (fun Y => (s * s) • (((toMat x)ᵀ * toMat x) * Y)) (fun y => Recover.tvtb_left_matrix s x y)

end Tvtb

/-! ### "bilinear extension otherwise": the unbind forms are bilinear in (left, right) -/

theorem invert_add {m : ℕ} (x y : Vec2 m R) :
    Alg.Vtb.Impl.invert (x + y) = Alg.Vtb.Impl.invert x + Alg.Vtb.Impl.invert y := rfl
theorem invert_smul {m : ℕ} (c : R) (x : Vec2 m R) :
    Alg.Vtb.Impl.invert (c • x) = c • Alg.Vtb.Impl.invert x := rfl

/-- each of the maps computed by the six accepted VTB/TVTB configurations is additive and
homogeneous in each input (they are `bind` composed with the linear transposition) -/
theorem unbind_forms_bilinear {m : ℕ} (s c : R) (l l' r r' : Vec2 m R) :
    let inv := @Alg.Vtb.Impl.invert R m
    (Alg.Vtb.Impl.bind s (l + l') (inv r) = Alg.Vtb.Impl.bind s l (inv r) + Alg.Vtb.Impl.bind s l' (inv r)) ∧
    (Alg.Vtb.Impl.bind s l (inv (r + r')) = Alg.Vtb.Impl.bind s l (inv r) + Alg.Vtb.Impl.bind s l (inv r')) ∧
    (Alg.Vtb.Impl.bind s (c • l) (inv r) = c • Alg.Vtb.Impl.bind s l (inv r)) ∧
    (Alg.Vtb.Impl.bind s l (inv (c • r)) = c • Alg.Vtb.Impl.bind s l (inv r)) ∧
    (Alg.Vtb.Impl.bind s (inv (r + r')) (inv l) = Alg.Vtb.Impl.bind s (inv r) (inv l) + Alg.Vtb.Impl.bind s (inv r') (inv l)) ∧
    (Alg.Vtb.Impl.bind s (inv r) (inv (l + l')) = Alg.Vtb.Impl.bind s (inv r) (inv l) + Alg.Vtb.Impl.bind s (inv r) (inv l')) ∧
    (Alg.Tvtb.Impl.bind s (inv (l + l')) r = Alg.Tvtb.Impl.bind s (inv l) r + Alg.Tvtb.Impl.bind s (inv l') r) ∧
    (Alg.Tvtb.Impl.bind s (inv (c • l)) r = c • Alg.Tvtb.Impl.bind s (inv l) r) ∧
    (Alg.Tvtb.Impl.bind s l (inv (r + r')) = Alg.Tvtb.Impl.bind s l (inv r) + Alg.Tvtb.Impl.bind s l (inv r')) ∧
    (Alg.Tvtb.Impl.bind s l (inv (c • r)) = c • Alg.Tvtb.Impl.bind s l (inv r)) := by
  intro inv
  simp only [inv, invert_add, invert_smul]
  exact ⟨C02.Vtb.bind_add_left .., C02.Vtb.bind_add_right .., C02.Vtb.bind_smul_left .., C02.Vtb.bind_smul_right ..,
    C02.Vtb.bind_add_left .., C02.Vtb.bind_add_right .., C02.Tvtb.bind_add_left .., C02.Tvtb.bind_smul_left ..,
    C02.Tvtb.bind_add_right .., C02.Tvtb.bind_smul_right ..⟩

/-! ### HRR: per-d certificate lifted to all inputs -/
namespace Hrr
variable {k : ℕ}
open Alg.Hrr

theorem inv_add (x y : Vec k R) : Spec.inv (x + y) = Spec.inv x + Spec.inv y := rfl
theorem inv_smul (c : R) (x : Vec k R) : Spec.inv (c • x) = c • Spec.inv x := rfl

/-- the map required of the HRR binding network for each flag combination is bilinear -/
theorem spec_isBilin (ul ur : Bool) : IsBilin (Bind.Spec.hrr (R := R) (k := k) ul ur) := by
  constructor
  · intro a a' b
    cases ul <;> simp only [Bind.Spec.hrr, if_true, Bool.false_eq_true, if_false, inv_add] <;>
      exact C02.Hrr.bind_add_left ..
  · intro a b b'
    cases ur <;> simp only [Bind.Spec.hrr, if_true, Bool.false_eq_true, if_false, inv_add] <;>
      exact C02.Hrr.bind_add_right ..
  · intro c a b
    cases ul <;> simp only [Bind.Spec.hrr, if_true, Bool.false_eq_true, if_false, inv_smul] <;>
      exact C02.Hrr.bind_smul_left ..
  · intro c a b
    cases ur <;> simp only [Bind.Spec.hrr, if_true, Bool.false_eq_true, if_false, inv_smul] <;>
      exact C02.Hrr.bind_smul_right ..

/-- **lifting theorem**: a `linear → product → linear` network that agrees with the required map
on all `d²` basis pairs computes it for ALL inputs -/
theorem net_eq_spec_of_table (N : ProdNet R) (hL : N.nL = k + 1) (hR : N.nR = k + 1) (hO : N.nO = k + 1)
    (ul ur : Bool)
    (hT : ∀ i j : Fin (k + 1), N.fn (k + 1) (Pi.single i 1) (Pi.single j 1)
      = Bind.Spec.hrr ul ur (Pi.single i 1) (Pi.single j 1)) :
    N.fn (k + 1) = Bind.Spec.hrr ul ur :=
  IsBilin.ext_basis (ProdNet.fn_isBilin N hL hR hO) (spec_isBilin ul ur) hT

/-- value of a network on a basis pair: the coefficient `Σ_c out[o,c]·A[c,i]·B[c,j]` -/
theorem fn_basis (N : ProdNet R) {n : ℕ} (hL : N.nL = n) (hR : N.nR = n) (hO : N.nO = n) (i j o : Fin n) :
    N.fn n (Pi.single i 1) (Pi.single j 1) o
      = ∑ c ∈ Finset.range N.nC, rd2 N.TO o.val c * (rd2 N.TL c i.val * rd2 N.TR c j.val) := by
  rw [ProdNet.fn_formula N hL hR hO]
  refine Finset.sum_congr rfl fun c _ => ?_
  simp [Pi.single_apply]

theorem bind_single (i j : Fin (k + 1)) :
    Spec.bind (R := R) (Pi.single i 1) (Pi.single j 1) = Pi.single (i + j) 1 := by
  funext o
  simp only [Spec.bind, Pi.single_apply]
  rw [Finset.sum_eq_single i]
  · simp only [if_true, one_mul]
    congr 1
    apply propext
    constructor
    · intro h; rw [← h]; abel
    · intro h; rw [h]; abel
  · intro b _ hb; simp [hb]
  · simp

theorem inv_single (i : Fin (k + 1)) : Spec.inv (R := R) (Pi.single i 1) = Pi.single (-i) 1 := by
  funext o
  simp only [Spec.inv, Pi.single_apply]
  congr 1
  apply propext
  constructor
  · intro h; rw [← h]; simp
  · intro h; rw [h]; simp

/-- the required map on basis pairs: `e_i, e_j ↦ e_(±i ± j)` -/
theorem spec_basis (ul ur : Bool) (i j : Fin (k + 1)) :
    Bind.Spec.hrr (R := R) ul ur (Pi.single i 1) (Pi.single j 1)
      = Pi.single ((if ul then -i else i) + (if ur then -j else j)) 1 := by
  cases ul <;> cases ur <;> simp [Bind.Spec.hrr, inv_single, bind_single]

/-- lifting from the finite coefficient table the harness checks per `d`:
`Σ_c out[o,c]·A[c,i]·B[c,j] = [o = ±i ± j mod d]` for all `i, j, o` ⇒ the network is the
required map on all inputs -/
theorem net_eq_spec_of_coeff (N : ProdNet R) (hL : N.nL = k + 1) (hR : N.nR = k + 1) (hO : N.nO = k + 1)
    (ul ur : Bool)
    (hC : ∀ i j o : Fin (k + 1),
      ∑ c ∈ Finset.range N.nC, rd2 N.TO o.val c * (rd2 N.TL c i.val * rd2 N.TR c j.val)
        = if o = (if ul then -i else i) + (if ur then -j else j) then 1 else 0) :
    N.fn (k + 1) = Bind.Spec.hrr ul ur := by
  apply net_eq_spec_of_table N hL hR hO
  intro i j
  funext o
  rw [fn_basis N hL hR hO, hC, spec_basis, Pi.single_apply]

theorem bind_identity_right (y : Vec k R) : Spec.bind y (Impl.identity k) = y := by
  funext i
  simp only [Spec.bind, Impl.identity]
  rw [Finset.sum_eq_single i]
  · simp
  · intro b _ hb
    have : i - b ≠ 0 := fun h => hb (by rw [sub_eq_zero] at h; exact h.symm)
    simp [this]
  · simp

/-- right unbinding recovers every `y` iff `x` is unitary (`x ⊛ ~x = δ`) -/
theorem unbind_right_recovers_iff (x : Vec k R) :
    (∀ y : Vec k R, Bind.Spec.hrr false true (Spec.bind y x) x = y) ↔ Spec.IsUnitaryH x := by
  have key : ∀ y : Vec k R, Bind.Spec.hrr false true (Spec.bind y x) x = Spec.bind y (Spec.bind x (Spec.inv x)) := by
    intro y
    simp only [Bind.Spec.hrr, if_true, Bool.false_eq_true, if_false]
    exact C02.Hrr.bind_assoc y x (Spec.inv x)
  simp only [key]
  unfold C05.Spec.IsUnitaryH
  constructor
  · intro H
    have := H (Impl.identity k)
    rw [show Spec.bind (Impl.identity k) (Spec.bind x (Spec.inv x)) = Spec.bind (Spec.bind x (Spec.inv x)) (Impl.identity k)
      from C02.Hrr.bind_comm _ _, bind_identity_right] at this
    exact this
  · intro H y; rw [H, bind_identity_right]

/-- left unbinding recovers every `y` iff `x` is unitary -/
theorem unbind_left_recovers_iff (x : Vec k R) :
    (∀ y : Vec k R, Bind.Spec.hrr true false x (Spec.bind x y) = y) ↔ Spec.IsUnitaryH x := by
  have key : ∀ y : Vec k R, Bind.Spec.hrr true false x (Spec.bind x y) = Spec.bind y (Spec.bind x (Spec.inv x)) := by
    intro y
    simp only [Bind.Spec.hrr, if_true, Bool.false_eq_true, if_false]
    have h1 : Spec.bind (Spec.inv x) (Spec.bind x y) = Spec.bind (Spec.bind (Spec.inv x) x) y :=
      (C02.Hrr.bind_assoc (Spec.inv x) x y).symm
    rw [h1, show Spec.bind (Spec.inv x) x = Spec.bind x (Spec.inv x) from C02.Hrr.bind_comm _ _]
    exact C02.Hrr.bind_comm _ _
  simp only [key]
  unfold C05.Spec.IsUnitaryH
  constructor
  · intro H
    have := H (Impl.identity k)
    rw [show Spec.bind (Impl.identity k) (Spec.bind x (Spec.inv x)) = Spec.bind (Spec.bind x (Spec.inv x)) (Impl.identity k)
      from C02.Hrr.bind_comm _ _, bind_identity_right] at this
    exact this
  · intro H y; rw [H, bind_identity_right]

/-- the same for a network that carries the per-d certificate -/
theorem net_unbind_right_recovers_iff (N : ProdNet R) (hL : N.nL = k + 1) (hR : N.nR = k + 1) (hO : N.nO = k + 1)
    (hT : ∀ i j : Fin (k + 1), N.fn (k + 1) (Pi.single i 1) (Pi.single j 1)
      = Bind.Spec.hrr false true (Pi.single i 1) (Pi.single j 1)) (x : Vec k R) :
    (∀ y : Vec k R, N.fn (k + 1) (Spec.bind y x) x = y) ↔ Spec.IsUnitaryH x := by
  rw [net_eq_spec_of_table N hL hR hO false true hT]
  exact unbind_right_recovers_iff x

theorem net_unbind_left_recovers_iff (N : ProdNet R) (hL : N.nL = k + 1) (hR : N.nR = k + 1) (hO : N.nO = k + 1)
    (hT : ∀ i j : Fin (k + 1), N.fn (k + 1) (Pi.single i 1) (Pi.single j 1)
      = Bind.Spec.hrr true false (Pi.single i 1) (Pi.single j 1)) (x : Vec k R) :
    (∀ y : Vec k R, N.fn (k + 1) x (Spec.bind x y) = y) ↔ Spec.IsUnitaryH x := by
  rw [net_eq_spec_of_table N hL hR hO true false hT]
  exact unbind_left_recovers_iff x

/-- the built CircularConvolution network has `d`-dimensional inputs and output and
`4·(d/2+1)` products, whatever the flags -/
theorem build_dims (t : Hrr.Tbl R) (d : ℕ) (ia ib : Bool) :
    (Impl.build t d ia ib).nL = d ∧ (Impl.build t d ia ib).nR = d ∧ (Impl.build t d ia ib).nO = d ∧
    (Impl.build t d ia ib).nC = 4 * (d / 2 + 1) := ⟨rfl, rfl, rfl, rfl⟩

/-- hence it is a bilinear map for every table, dimensionality and flag combination -/
theorem build_isBilin (t : Hrr.Tbl R) (d : ℕ) (ia ib : Bool) : IsBilin ((Impl.build t d ia ib).fn d) :=
  ProdNet.fn_isBilin _ rfl rfl rfl

end Hrr

/-! ### implement_binding and the Bind module -/
namespace Bind
open Impl

/-- the module is exactly its algebra's `implement_binding` with the two flags -/
theorem bindModule_eq (t : Hrr.Tbl R) (alg : AlgK) (d : ℕ) (ul ur : Bool) :
    bindModule t alg d ul ur = implementBinding t alg d ul ur := rfl

/-- HRR accepts all four flag combinations; `unbind_left ↦ invert_a`, `unbind_right ↦ invert_b` -/
theorem hrr_accepts (t : Hrr.Tbl R) (d : ℕ) (ul ur : Bool) :
    implementBinding t .hrr d ul ur = .ok (.conv (Hrr.Impl.build t d ul ur)) := rfl

theorem vtb_ok_iff (t : Hrr.Tbl R) (d : ℕ) (ul ur : Bool) (net : Net R) :
    implementBinding t .vtb d ul ur = .ok net ↔ ∃ N, net = .block N ∧ Vtb.Impl.build d ul ur = .ok N := by
  unfold implementBinding
  cases h : Vtb.Impl.build (R := R) d ul ur with
  | error e => simp [Except.map]
  | ok N => simp [Except.map, eq_comm]

theorem tvtb_ok_iff (t : Hrr.Tbl R) (d : ℕ) (ul ur : Bool) (net : Net R) :
    implementBinding t .tvtb d ul ur = .ok net ↔ ∃ N, net = .block N ∧ Tvtb.Impl.build d ul ur = .ok N := by
  unfold implementBinding
  cases h : Tvtb.Impl.build (R := R) d ul ur with
  | error e => simp [Except.map]
  | ok N => simp [Except.map, eq_comm]

/-- both flags are rejected by VTB and TVTB (and only these two algebras) -/
theorem both_flags_rejected (t : Hrr.Tbl R) (m : ℕ) :
    bindModule t .vtb (m * m) true true = .error .bothFlags ∧
    bindModule t .tvtb (m * m) true true = .error .bothFlags := by
  simp [bindModule, implementBinding, Vtb.build_bothFlags, Tvtb.build_bothFlags, Except.map]

theorem run_block (s : R) (N : BlockNet R) (a b : Array R) : run s (.block N) a b = Block.run N s a b := rfl
theorem run_conv (s : R) (N : ProdNet R) (a b : Array R) : run s (.conv N) a b = N.eval a b := rfl

/-- the Bind module over a VTB vocabulary binds (default flags), for all inputs -/
theorem module_vtb_default {t : Hrr.Tbl R} {m : ℕ} {net : Net R}
    (h : bindModule t .vtb (m * m) false false = .ok net) (s : R) (L Rt : Array R) :
    vec2OfArr m (run s net L Rt) = Alg.Vtb.Impl.bind s (vec2OfArr m L) (vec2OfArr m Rt) := by
  obtain ⟨N, rfl, hN⟩ := (vtb_ok_iff t _ _ _ _).1 h
  exact Vtb.net_default hN s L Rt

theorem module_tvtb_default {t : Hrr.Tbl R} {m : ℕ} {net : Net R}
    (h : bindModule t .tvtb (m * m) false false = .ok net) (s : R) (L Rt : Array R) :
    vec2OfArr m (run s net L Rt) = Alg.Tvtb.Impl.bind s (vec2OfArr m L) (vec2OfArr m Rt) := by
  obtain ⟨N, rfl, hN⟩ := (tvtb_ok_iff t _ _ _ _).1 h
  exact Tvtb.net_default hN s L Rt

end Bind

/-! ### non-vacuity -/

/-- a unitary VTB/TVTB vector exists for every `m` with `s·s = m`, `s` invertible: `(1/s)·I`;
here `m = 1`, `s = 1` over `ℤ` -/
example : Spec.IsUnitary2 (R := ℤ) (m := 1) 1 (fun _ => 1) := by
  unfold Spec.IsUnitary2; ext i j; simp [toMat, Matrix.mul_apply, Matrix.one_apply]; omega

/-- and a non-unitary one: the recovery laws are not vacuous in either direction -/
example : ¬ Spec.IsUnitary2 (R := ℤ) (m := 1) 1 (fun _ => 2) := by
  unfold Spec.IsUnitary2
  intro h
  have := congrFun (congrFun h 0) 0
  simp [toMat, Matrix.mul_apply] at this

/-- HRR: the identity is unitary -/
example : Spec.IsUnitaryH (R := ℤ) (Alg.Hrr.Impl.identity 2) := by
  unfold Spec.IsUnitaryH; decide

/-- the accepted builds exist -/
example : ∃ N, Vtb.Impl.build (R := ℤ) 9 true false = .ok N := by
  obtain ⟨N, h, _⟩ := Vtb.build_ok (R := ℤ) 3 true false (by simp); exact ⟨N, h⟩

end C05

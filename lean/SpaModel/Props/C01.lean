/-
C01 — networks built from SPA expressions compute the expression's value.
Property theorems only (model: SpaModel/Basic/C01.lean).  Everything holds for every
commutative ring `R`, every universe of vocabularies `U` (any index types = any
dimensionalities, any algebra satisfying the three matrix laws — the shipped HRR / VTB / TVTB
algebras do, `Lemmas/C01.lean`), every expression tree of any depth and every environment.
-/
import SpaModel.Basic.C01
import SpaModel.Lemmas.C01Proofs
import SpaModel.Lemmas.C01
import Mathlib.Tactic.Ring
import Mathlib.Tactic.Abel

set_option linter.unusedSectionVars false
set_option linter.unusedVariables false

open Matrix

namespace C01
open Typing Impl Spec

variable {R : Type} [CommRing R] {U : Universe R}

/-- Linearity of delivery (key lemma): connecting a node through a transform `T` delivers `T` times
what the node delivers through the identity. -/
theorem deliver_transform (env : Env U) {a : U.Shape} (n : Node U a) {b : U.Shape} (T : Mat U b a) :
    deliver env n T = T *ᵥ value env n := by
  exact deliver_eq env n T

/-- `Transformed.connect_to` composes `np.dot(outer, inner)`: outer after inner. -/
theorem transformed_compose (env : Env U) {a b c : U.Shape} (n : Node U a) (M : Mat U b a) (T : Mat U c b) :
    deliver env (.transformed n M) T = T *ᵥ (M *ᵥ value env n) := by
  rw [deliver_eq, value_transformed]

/-- `__neg__` is the transform `-1`; `__sub__ = self + (-other)` and `__rsub__ = (-self) + other`
deliver the difference in the right order. -/
theorem neg_sub_laws (env : Env U) {s : U.Shape} (l r : Node U s) :
    value env (.transformed l ((-1 : R) • (1 : Mat U s s))) = - value env l
    ∧ value env (.summedP l (.transformed r ((-1 : R) • (1 : Mat U s s)))) = value env l - value env r
    ∧ value env (.summedP (.transformed r ((-1 : R) • (1 : Mat U s s))) l) = value env l - value env r
    ∧ value env (.summedS l (.transformed r ((-1 : R) • (1 : Mat U s s)))) = value env l - value env r := by
  refine ⟨?_, ?_, ?_, ?_⟩
  · rw [value_transformed, neg_one_mulVec]
  · rw [value_summedP, value_transformed, neg_one_mulVec, sub_eq_add_neg]
  · rw [value_summedP, value_transformed, neg_one_mulVec, neg_add_eq_sub]
  · rw [value_summedS, value_transformed, neg_one_mulVec, sub_eq_add_neg]

/-- Connecting a compiled operand to an input delivers the operand's value read at that input's
dimensionality. -/
theorem connectable_correct (env : Env U) (o : Obj U) (ty' : Ty U) (s' : U.Shape) (n : Node U s')
    (h : connectable o ty' s' = .ok n) :
    inst (den env o) ty' s' = some (value env n) := by
  exact connectable_ok env o ty' s' n h

/-- **Compile correctness** (all expression trees, all environments, all universes): whenever the
operator methods accept `e` and build the object `o`, Semantic Pointer arithmetic assigns `e` a
value and it is the one `o` stands for (for network nodes: the value they deliver). -/
theorem compile_correct (env : Env U) (e : Expr U) (o : Obj U) (h : compile e = .ok o) :
    eval env e = some (den env o) := by
  exact compile_ok env e o h

/-- The statement `e >> sink`: the constructed network delivers ⟦e⟧ to the sink. -/
theorem stmt_correct (env : Env U) (e : Expr U) (sinkTy : Ty U) (ss : U.Shape) (n : Node U ss)
    (h : compileStmt e sinkTy ss = .ok n) :
    evalStmt env e sinkTy ss = some (value env n) := by
  exact compileStmt_ok env e sinkTy ss n h

/-- Several statements into one sink add up (trusted Nengo rule: the connections into one object
are summed): the sink receives `Σ ⟦e_i⟧`. -/
theorem sink_additive (env : Env U) (sinkTy : Ty U) (ss : U.Shape) (es : List (Expr U))
    (ns : List (Node U ss))
    (h : List.Forall₂ (fun e n => compileStmt e sinkTy ss = .ok n) es ns) :
    ∃ vs : List (Vec U ss), List.Forall₂ (fun e v => evalStmt env e sinkTy ss = some v) es vs
      ∧ (ns.map (value env)).sum = vs.sum := by
  induction h with
  | nil => exact ⟨[], List.Forall₂.nil, rfl⟩
  | cons hd _ ih =>
      obtain ⟨vs, hvs, hsum⟩ := ih
      refine ⟨_ :: vs, List.Forall₂.cons (compileStmt_ok env _ sinkTy ss _ hd) hvs, ?_⟩
      simp only [List.map_cons, List.sum_cons, hsum]

/-! ## Completeness on a core grammar

The compiler refuses some programs (`Refusal`).  The following grammar, for a fixed vocabulary `v`,
is accepted entirely: so a refusal can only concern a program outside of it. -/

/-- symbolic expressions that can be read in vocabulary `v` -/
inductive CoreSym (v : U.V) : Expr U → Prop
  | sym (k : Nat) : CoreSym v (.sym k)
  | neg {a : Expr U} : CoreSym v a → CoreSym v (.neg a)
  | add {a b : Expr U} : CoreSym v a → CoreSym v b → CoreSym v (.add a b)
  | sub {a b : Expr U} : CoreSym v a → CoreSym v b → CoreSym v (.sub a b)
  | mul {a b : Expr U} : CoreSym v a → CoreSym v b → CoreSym v (.mul a b)
  | mul_num {a : Expr U} (c : R) : CoreSym v a → CoreSym v (.mul a (.num c))
  | num_mul {a : Expr U} (c : R) : CoreSym v a → CoreSym v (.mul (.num c) a)
  | div {a : Expr U} (c : R) : (U.recip c).isSome = true → CoreSym v a → CoreSym v (.div a c)
  | inv {a : Expr U} (sd : Side) : U.invOk v sd = true → CoreSym v a → CoreSym v (.inv sd a)

/-- pointer expressions of vocabulary `v` -/
inductive CoreP (v : U.V) : Expr U → Prop
  | src (i : Nat) : CoreP v (.srcP i v)
  | neg {a : Expr U} : CoreP v a → CoreP v (.neg a)
  | inv {a : Expr U} (sd : Side) : U.invOk v sd = true → CoreP v a → CoreP v (.inv sd a)
  | div {a : Expr U} (c : R) : (U.recip c).isSome = true → CoreP v a → CoreP v (.div a c)
  | add {a b : Expr U} : CoreP v a → CoreP v b → CoreP v (.add a b)
  | sub {a b : Expr U} : CoreP v a → CoreP v b → CoreP v (.sub a b)
  | mul {a b : Expr U} : CoreP v a → CoreP v b → CoreP v (.mul a b)
  | add_sym {a b : Expr U} : CoreP v a → CoreSym v b → CoreP v (.add a b)
  | sym_add {a b : Expr U} : CoreSym v a → CoreP v b → CoreP v (.add a b)
  | sub_sym {a b : Expr U} : CoreP v a → CoreSym v b → CoreP v (.sub a b)
  | sym_sub {a b : Expr U} : CoreSym v a → CoreP v b → CoreP v (.sub a b)
  | mul_sym {a b : Expr U} : CoreP v a → CoreSym v b → CoreP v (.mul a b)
  | sym_mul {a b : Expr U} : CoreSym v a → CoreP v b → CoreP v (.mul a b)
  | mul_num {a : Expr U} (c : R) : CoreP v a → CoreP v (.mul a (.num c))
  | num_mul {a : Expr U} (c : R) : CoreP v a → CoreP v (.mul (.num c) a)
  | add_fix {a : Expr U} (x : Vec U (U.shape v)) : CoreP v a → CoreP v (.add a (.fixV v x))
  | fix_add {a : Expr U} (x : Vec U (U.shape v)) : CoreP v a → CoreP v (.add (.fixV v x) a)
  | sub_fix {a : Expr U} (x : Vec U (U.shape v)) : CoreP v a → CoreP v (.sub a (.fixV v x))
  | fix_sub {a : Expr U} (x : Vec U (U.shape v)) : CoreP v a → CoreP v (.sub (.fixV v x) a)
  | mul_fix {a : Expr U} (x : Vec U (U.shape v)) : CoreP v a → CoreP v (.mul a (.fixV v x))
  | fix_mul {a : Expr U} (x : Vec U (U.shape v)) : CoreP v a → CoreP v (.mul (.fixV v x) a)

/-- scalar expressions -/
inductive CoreS : Expr U → Prop
  | src (i : Nat) : CoreS (.srcS i)
  | neg {a : Expr U} : CoreS a → CoreS (.neg a)
  | div {a : Expr U} (c : R) : (U.recip c).isSome = true → CoreS a → CoreS (.div a c)
  | add {a b : Expr U} : CoreS a → CoreS b → CoreS (.add a b)
  | add_num {a : Expr U} (c : R) : CoreS a → CoreS (.add a (.num c))
  | num_add {a : Expr U} (c : R) : CoreS a → CoreS (.add (.num c) a)
  | sub {a b : Expr U} : CoreS a → CoreS b → CoreS (.sub a b)
  | sub_num {a : Expr U} (c : R) : CoreS a → CoreS (.sub a (.num c))
  | num_sub {a : Expr U} (c : R) : CoreS a → CoreS (.sub (.num c) a)
  | mul {a b : Expr U} : CoreS a → CoreS b → CoreS (.mul a b)
  | mul_num {a : Expr U} (c : R) : CoreS a → CoreS (.mul a (.num c))
  | num_mul {a : Expr U} (c : R) : CoreS a → CoreS (.mul (.num c) a)
  | dot {a b : Expr U} (v : U.V) : CoreP v a → CoreP v b → CoreS (.dot a b)
  | dot_sym {a b : Expr U} (v : U.V) : CoreP v a → CoreSym v b → CoreS (.dot a b)
  | sym_dot {a b : Expr U} (v : U.V) : CoreSym v a → CoreP v b → CoreS (.dot a b)
  | dot_fix {a : Expr U} (v : U.V) (x : Vec U (U.shape v)) : CoreP v a → CoreS (.dot a (.fixV v x))
  | fix_dot {a : Expr U} (v : U.V) (x : Vec U (U.shape v)) : CoreP v a → CoreS (.dot (.fixV v x) a)

theorem compile_accepts_coreSym {v : U.V} {e : Expr U} (h : CoreSym v e) :
    ∃ ty f okv, compile e = .ok (.sym ty f okv) ∧ (ty = .any ∨ ty = .vocab v) ∧ okv v = true := by
  have : CompSym v e := by
    induction h with
    | sym k => exact compSym_sym k
    | neg _ ih => exact ih.neg
    | add _ _ iha ihb => exact (CompSym.bin iha ihb).1
    | sub _ _ iha ihb => exact (CompSym.bin iha ihb).2.1
    | mul _ _ iha ihb => exact (CompSym.bin iha ihb).2.2
    | mul_num c _ ih => exact (ih.mul_num c).1
    | num_mul c _ ih => exact (ih.mul_num c).2
    | div c hc _ ih => exact ih.div hc
    | inv sd hs _ ih => exact ih.inv hs
  obtain ⟨o, ho, ty, f, okv, rfl, hty, hok⟩ := this
  exact ⟨ty, f, okv, ho, hty, hok⟩

theorem compile_accepts_coreP {v : U.V} {e : Expr U} (h : CoreP v e) :
    ∃ n, compile e = .ok (.dyn (.vocab v) (U.shape v) n false) := by
  have sy : ∀ {e : Expr U}, CoreSym v e → CompSym v e := fun h => by
    obtain ⟨ty, f, okv, ho, hty, hok⟩ := compile_accepts_coreSym h
    exact ⟨_, ho, ty, f, okv, rfl, hty, hok⟩
  have : CompP v e := by
    induction h with
    | src i => exact compP_srcP i
    | neg _ ih => exact ih.neg
    | inv sd hs _ ih => exact ih.inv hs
    | div c hc _ ih => exact ih.div hc
    | add _ _ iha ihb => exact (CompP.bin (Or.inl ⟨iha, ihb.pish⟩)).1
    | sub _ _ iha ihb => exact (CompP.bin (Or.inl ⟨iha, ihb.pish⟩)).2.1
    | mul _ _ iha ihb => exact (CompP.bin (Or.inl ⟨iha, ihb.pish⟩)).2.2.1
    | add_sym _ hb iha => exact (CompP.bin (Or.inl ⟨iha, (sy hb).pish⟩)).1
    | sym_add ha _ ihb => exact (CompP.bin (Or.inr ⟨(sy ha).pish, ihb⟩)).1
    | sub_sym _ hb iha => exact (CompP.bin (Or.inl ⟨iha, (sy hb).pish⟩)).2.1
    | sym_sub ha _ ihb => exact (CompP.bin (Or.inr ⟨(sy ha).pish, ihb⟩)).2.1
    | mul_sym _ hb iha => exact (CompP.bin (Or.inl ⟨iha, (sy hb).pish⟩)).2.2.1
    | sym_mul ha _ ihb => exact (CompP.bin (Or.inr ⟨(sy ha).pish, ihb⟩)).2.2.1
    | mul_num c _ ih => exact (ih.mul_num c).1
    | num_mul c _ ih => exact (ih.mul_num c).2
    | add_fix x _ ih => exact (CompP.bin (Or.inl ⟨ih, compPish_fixV x⟩)).1
    | fix_add x _ ih => exact (CompP.bin (Or.inr ⟨compPish_fixV x, ih⟩)).1
    | sub_fix x _ ih => exact (CompP.bin (Or.inl ⟨ih, compPish_fixV x⟩)).2.1
    | fix_sub x _ ih => exact (CompP.bin (Or.inr ⟨compPish_fixV x, ih⟩)).2.1
    | mul_fix x _ ih => exact (CompP.bin (Or.inl ⟨ih, compPish_fixV x⟩)).2.2.1
    | fix_mul x _ ih => exact (CompP.bin (Or.inr ⟨compPish_fixV x, ih⟩)).2.2.1
  obtain ⟨o, ho, n, rfl⟩ := this
  exact ⟨n, ho⟩

theorem compile_accepts_coreS {e : Expr U} (h : CoreS e) :
    ∃ n, compile e = .ok (.dyn .scalar U.unit n false) := by
  have sy : ∀ {v : U.V} {e : Expr U}, CoreSym v e → CompSym v e := fun h => by
    obtain ⟨ty, f, okv, ho, hty, hok⟩ := compile_accepts_coreSym h
    exact ⟨_, ho, ty, f, okv, rfl, hty, hok⟩
  have pt : ∀ {v : U.V} {e : Expr U}, CoreP v e → CompP v e := fun h => by
    obtain ⟨n, ho⟩ := compile_accepts_coreP h
    exact ⟨_, ho, n, rfl⟩
  have : CompS e := by
    induction h with
    | src i => exact compS_srcS i
    | neg _ ih => exact ih.neg
    | div c hc _ ih => exact ih.div hc
    | add _ _ iha ihb => exact (CompS.bin (Or.inl ⟨iha, ihb.sish⟩)).1
    | add_num c _ ih => exact (CompS.bin (Or.inl ⟨ih, compSish_num c⟩)).1
    | num_add c _ ih => exact (CompS.bin (Or.inr ⟨compSish_num c, ih⟩)).1
    | sub _ _ iha ihb => exact (CompS.bin (Or.inl ⟨iha, ihb.sish⟩)).2.1
    | sub_num c _ ih => exact (CompS.bin (Or.inl ⟨ih, compSish_num c⟩)).2.1
    | num_sub c _ ih => exact (CompS.bin (Or.inr ⟨compSish_num c, ih⟩)).2.1
    | mul _ _ iha ihb => exact (CompS.bin (Or.inl ⟨iha, ihb.sish⟩)).2.2
    | mul_num c _ ih => exact (CompS.bin (Or.inl ⟨ih, compSish_num c⟩)).2.2
    | num_mul c _ ih => exact (CompS.bin (Or.inr ⟨compSish_num c, ih⟩)).2.2
    | dot v ha hb => exact (CompP.bin (Or.inl ⟨pt ha, (pt hb).pish⟩)).2.2.2
    | dot_sym v ha hb => exact (CompP.bin (Or.inl ⟨pt ha, (sy hb).pish⟩)).2.2.2
    | sym_dot v ha hb => exact (CompP.bin (Or.inr ⟨(sy ha).pish, pt hb⟩)).2.2.2
    | dot_fix v x ha => exact (CompP.bin (Or.inl ⟨pt ha, compPish_fixV x⟩)).2.2.2
    | fix_dot v x ha => exact (CompP.bin (Or.inr ⟨compPish_fixV x, pt ha⟩)).2.2.2
  obtain ⟨o, ho, n, rfl⟩ := this
  exact ⟨n, ho⟩

/-- **Completeness on the core grammar**: every pointer expression of one vocabulary, every scalar
expression and every symbolic expression of the grammar above is accepted, and yields a resolved
network node of the expected type (a symbol readable in `v`, respectively). -/
theorem compile_accepts_core (v : U.V) (e : Expr U) :
    (CoreP v e → ∃ n, compile e = .ok (.dyn (.vocab v) (U.shape v) n false))
    ∧ (CoreS e → ∃ n, compile e = .ok (.dyn .scalar U.unit n false))
    ∧ (CoreSym v e → ∃ ty f okv, compile e = .ok (.sym ty f okv) ∧ (ty = .any ∨ ty = .vocab v) ∧ okv v = true) :=
  ⟨compile_accepts_coreP, compile_accepts_coreS, compile_accepts_coreSym⟩

/-- A refusal only ever concerns a program outside the core grammar. -/
theorem compile_refuses_only (v : U.V) (e : Expr U) (r : Refusal) (h : compile e = .error r) :
    ¬ CoreP v e ∧ ¬ CoreS (U := U) e := by
  constructor
  · intro hp
    obtain ⟨n, hn⟩ := compile_accepts_coreP hp
    rw [hn] at h; cases h
  · intro hs
    obtain ⟨n, hn⟩ := compile_accepts_coreS hs
    rw [hn] at h; cases h

/-! ## the shipped algebras, and non-vacuity -/

/-- The universe of the shipped HRR / VTB / TVTB algebras (`Lemmas/C01.lean`, laws from the C02
theorems) is a `Universe`, so everything above holds for it; e.g. for `x * sym.K >> State(v)`
(`x` a pointer module of vocabulary `v`, any of the three algebras, any dimensionality) the
network delivers `bind(x, K)`: the binding matrix of `K` applied to `x`. -/
theorem shipped_mul_symbol {R : Type} [CommRing R] (T : Concrete.Tables R) (v : Concrete.CV)
    (env : Env (Concrete.mkUniverse T)) (i k : Nat) :
    ∃ n, compileStmt (U := Concrete.mkUniverse T) (.mul (.srcP i v) (.sym k)) (.vocab v)
        ((Concrete.mkUniverse T).shape v) = .ok n
      ∧ value env n = Concrete.cbind T.rt v (env ((Concrete.mkUniverse T).shape v) i)
          ((Concrete.mkUniverse T).key k v) := by
  have hc : compileStmt (U := Concrete.mkUniverse T) (.mul (.srcP i v) (.sym k)) (.vocab v)
      ((Concrete.mkUniverse T).shape v)
      = .ok (.transformed (.src ((Concrete.mkUniverse T).shape v) i)
          ((Concrete.mkUniverse T).bindMat v ((Concrete.mkUniverse T).key k v) false)) := by
    simp [compileStmt, compile, mulObj, mulFixed, lub, upd, isScalar, isVocab, tyOf, tyAfter, connectable, castN,
      bind, Except.bind]
    split
    · rename_i heq
      split at heq
      · cases heq
      · rename_i hne; exact absurd rfl hne
    · rfl
  refine ⟨_, hc, ?_⟩
  show deliver env (.transformed (.src ((Concrete.mkUniverse T).shape v) i) _)
    (1 : Mat (Concrete.mkUniverse T) ((Concrete.mkUniverse T).shape v) ((Concrete.mkUniverse T).shape v)) = _
  simp only [deliver, one_mul]
  exact Concrete.cbindMat_false T.rt v _ _

/-- Non-vacuity of `compile_correct` / `stmt_correct`: every program of the core grammar is accepted
(`compile_accepts_core`), e.g. `(-x) * (y - sym.K)`. -/
example (v : U.V) (i j k : Nat) :
    ∃ n, compile (U := U) (.mul (.neg (.srcP i v)) (.sub (.srcP j v) (.sym k)))
      = .ok (.dyn (.vocab v) (U.shape v) n false) :=
  compile_accepts_coreP (.mul (.neg (.src i)) (.sub_sym (.src j) (.sym k)))

end C01

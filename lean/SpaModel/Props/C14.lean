/-
C14 — action-selection blocks leave no residue, whatever happens inside them.
Property theorems only (model: SpaModel/Basic/C14.lean, helper lemmas: SpaModel/Lemmas/C14.lean).
Everything is for arbitrary programs (statement lists of any length and nesting), arbitrary block
objects and arbitrary histories.
-/
import SpaModel.Lemmas.C14

namespace C14
open Impl

/-! ### the implementation with its three process-wide switches refines the lexical reading -/

/-- **Refinement.**  Run any program from any world whose class attributes agree with the lexical
position (`Rel`; the initial world does).  The implementation — which decides what `>>`, `ifmax` and
`with` mean by looking at `ActionSelection.active`, `ModuleInput.routed_mode` and
`RoutedConnection.free_floating` — raises the same exception, produces the same observations and leaves
the same block objects as the specification, which has no such switches and decides by the block the
statement is *written in*.  And the attributes agree with the lexical position again afterwards. -/
theorem exec_refines (p : Prog) : ∀ {ctx : Option Nat} {w : World}, Rel ctx w →
    abs (exec w p).st = (Spec.exec ctx (abs w) p).st ∧
    (exec w p).exc = (Spec.exec ctx (abs w) p).exc ∧
    (exec w p).out = (Spec.exec ctx (abs w) p).out ∧
    Rel ctx (exec w p).st := by
  induction p with
  | done => intro ctx w h; exact ⟨rfl, rfl, rfl, h⟩
  | raise n rest _ => intro ctx w h; exact ⟨rfl, rfl, rfl, h⟩
  | route k rest ih =>
    intro ctx w h
    obtain ⟨r1, r2, r3, -, -, -⟩ := evalRoute_refines h k
    simp only [exec, Spec.exec]
    rcases hI : evalRoute w k with ⟨w1, v⟩
    rcases hS : Spec.evalRoute ctx (abs w) k with ⟨s1, v'⟩
    simp only [hI, hS] at r1 r2 r3
    subst r1
    have hobs := routeObs_refines w1 v
    rw [r2] at hobs
    cases v with
    | error e =>
      cases v' with
      | ok _ => simp [Except.map] at r2
      | error e' =>
        simp [Except.map] at r2
        subst r2
        exact ⟨rfl, rfl, by simp [hobs], r3⟩
    | ok c =>
      cases v' with
      | error _ => simp [Except.map] at r2
      | ok c' =>
        obtain ⟨i1, i2, i3, i4⟩ := ih r3
        exact ⟨i1, i2, by simp [hobs, i3], i4⟩
  | ifmax name c effs rest ih =>
    intro ctx w h
    obtain ⟨e1, e2, e3, e4, -, -, e7⟩ := evalEffs_refines effs h
    simp only [exec, Spec.exec]
    rcases hI : evalEffs w effs with ⟨w1, v, o⟩
    rcases hS : Spec.evalEffs ctx (abs w) effs with ⟨s1, v', o'⟩
    simp only [hI, hS] at e1 e2 e3 e4 e7
    subst e1 e3
    cases v with
    | error e =>
      cases v' with
      | ok _ => simp [Except.map] at e2
      | error e' =>
        simp [Except.map] at e2
        subst e2
        exact ⟨rfl, rfl, rfl, e4⟩
    | ok vals =>
      cases v' with
      | error _ => simp [Except.map] at e2
      | ok vals' =>
        simp [Except.map] at e2
        subst e2
        obtain ⟨hff, hnew⟩ := e7 vals rfl
        obtain ⟨c1, c2, c3⟩ := ifmaxCall_refines e4 vals hff h.fresh hnew name c
        dsimp only
        rcases hC : ifmaxCall w1 name c vals with ⟨w2, r⟩
        rcases hD : Spec.ifmaxCall ctx (abs w) (abs w1) name c (bOfs vals) with ⟨s2, r'⟩
        simp only [hC, hD] at c1 c2 c3
        subst c1 c2
        cases r with
        | some e => exact ⟨rfl, rfl, rfl, c3⟩
        | none =>
          obtain ⟨i1, i2, i3, i4⟩ := ih c3
          exact ⟨i1, i2, by simp [i3, abs], i4⟩
  | attempt body rest ihb ihr =>
    intro ctx w h
    obtain ⟨b1, b2, b3, b4⟩ := ihb h
    obtain ⟨r1, r2, r3, r4⟩ := ihr b4
    simp only [exec, Spec.exec]
    rw [b1] at r1 r2 r3
    exact ⟨r1, r2, by rw [b2, b3, r3], r4⟩
  | block id body rest ihb ihr =>
    intro ctx w h
    simp only [exec, Spec.exec]
    by_cases hb : (w.blocks id).built = true
    · have : ((abs w).blocks id).built = true := hb
      simp only [this, if_true]
      have he : enter w id = (w, some .assertion) := by simp [enter, hb]
      rw [he]
      refine ⟨rfl, rfl, ?_, h⟩
      simp [blockEndObs, Spec.blockEndObs, abs, h.active, h.routed]
    · have hb' : (w.blocks id).built = false := by simpa using hb
      have : ((abs w).blocks id).built = false := hb'
      simp only [this]
      cases ctx with
      | some a =>
        have he : enter w id = (w, some .actionSelection) := by simp [enter, hb', h.active]
        rw [he]
        refine ⟨rfl, rfl, ?_, h⟩
        simp [blockEndObs, Spec.blockEndObs, abs, h.active, h.routed]
      | none =>
        obtain ⟨n1, n2, n3⟩ := enter_refines_top h id hb'
        rcases hE : enter w id with ⟨w1, r⟩
        simp only [hE] at n1 n2 n3
        subst n1
        obtain ⟨b1, b2, b3, b4⟩ := ihb n2
        rw [n3] at b1 b2 b3
        obtain ⟨x1, x2, x3⟩ := exit_refines b4 id (exec w1 body).exc
        rw [b1] at x1 x2
        simp only [Bool.false_eq_true, if_false]
        rcases hX : exit (exec w1 body).st id (exec w1 body).exc with ⟨w3, r3⟩
        rw [hX] at x1 x2 x3
        rw [b2] at x1 x2
        rw [b3]
        generalize Spec.exec (some id) { floating := 0, blocks := (abs w).blocks } body = sb at *
        rcases hF : Spec.finish sb.st id sb.exc with ⟨s3, r3'⟩
        rw [hF] at x1 x2
        dsimp only at x1 x2 x3 ⊢
        subst x1 x2
        have hobs : ∀ e, blockEndObs w3 id e = Spec.blockEndObs none (abs w3) id e := by
          intro e; simp [blockEndObs, Spec.blockEndObs, abs, x3.active, x3.routed]
        cases r3 with
        | some e => exact ⟨rfl, rfl, by simp [hobs], x3⟩
        | none =>
          obtain ⟨i1, i2, i3, i4⟩ := ihr x3
          exact ⟨i1, i2, by simp [hobs, i3], i4⟩


/-! ### no residue -/

theorem rel_of_clean {w : World} (h : w.g = Globals.clean) : Rel none w := by
  refine ⟨by rw [h]; rfl, by rw [h]; rfl, ?_, fun _ => by rw [h]; rfl⟩
  intro c hc; rw [h] at hc; cases hc

theorem clean_of_rel {w : World} (h : Rel none w) : w.g = Globals.clean := by
  obtain ⟨ha, hr, -, ht⟩ := h
  have := ht rfl
  cases hg : w.g with
  | mk a r f => simp_all [Globals.clean]

/-- Whatever state the class attributes are in and however the body ends (normally, with any exception,
with routes left over, with a failing build): once `__enter__` has succeeded, the `with` statement ends
with `active = None`, `routed_mode = False` and an empty free-floating set. -/
theorem with_always_cleans (w : World) (id : Nat) (body : Prog) (h : (enter w id).2 = none) :
    (exec w (.block id body .done)).st.g = Globals.clean := by
  simp only [exec]
  rcases hE : enter w id with ⟨w1, r⟩
  rw [hE] at h
  dsimp only at h
  subst h
  dsimp only
  have := exit_clean (exec w1 body).st id (exec w1 body).exc
  rcases hX : exit (exec w1 body).st id (exec w1 body).exc with ⟨w3, r3⟩
  rw [hX] at this
  cases r3 <;> exact this

/-- `__enter__` that raises (nested block, re-entered built block) changes nothing. -/
theorem failed_enter_changes_nothing (w : World) (id : Nat) (e : Exc) (h : (enter w id).2 = some e) :
    (enter w id).1 = w := by
  unfold enter at h ⊢
  split
  · rfl
  · split
    · simp_all
    · rfl

/-- **clean_after_block** (all programs, hence every outcome kind and every sequence of them): from
clean class attributes every program ends with clean class attributes. -/
theorem clean_after_block (p : Prog) (w : World) (h : w.g = Globals.clean) :
    (exec w p).st.g = Globals.clean :=
  clean_of_rel (exec_refines p (rel_of_clean h)).2.2.2

/-- the specification's result at top level depends on the block objects only -/
theorem abs_of_clean {w : World} (h : w.g = Globals.clean) : abs w = ⟨0, w.blocks⟩ := by
  simp [abs, h, Globals.clean]

/-- **later_blocks_independent.**  Two worlds with clean class attributes and the same block objects
(for instance: the world any history of earlier blocks has led to, and a fresh interpreter state holding
the same objects) are indistinguishable for every program: same exception, same observations, same
resulting objects.  What earlier blocks did to the class attributes cannot matter, because nothing of it
is left. -/
theorem later_blocks_independent (p : Prog) (w w' : World)
    (h : w.g = Globals.clean) (h' : w'.g = Globals.clean) (hb : w.blocks = w'.blocks) :
    (exec w p).exc = (exec w' p).exc ∧ (exec w p).out = (exec w' p).out ∧
    (exec w p).st.blocks = (exec w' p).st.blocks := by
  obtain ⟨a1, a2, a3, -⟩ := exec_refines p (rel_of_clean h)
  obtain ⟨b1, b2, b3, -⟩ := exec_refines p (rel_of_clean h')
  rw [abs_of_clean h] at a1 a2 a3
  rw [abs_of_clean h', ← hb] at b1 b2 b3
  refine ⟨a2.trans b2.symm, a3.trans b3.symm, ?_⟩
  have := a1.trans b1.symm
  simpa [abs] using congrArg Spec.St.blocks this

/-- the same, spelled out for a history: after any earlier program `hist` (run from a clean world,
whatever it raised), `p` behaves as in a new interpreter state that holds the same objects -/
theorem after_any_history (hist p : Prog) (w0 : World) (h0 : w0.g = Globals.clean) :
    let w := (exec w0 hist).st
    let alone : World := ⟨Globals.clean, w.blocks, 0⟩
    (exec w p).exc = (exec alone p).exc ∧ (exec w p).out = (exec alone p).out ∧
    (exec w p).st.blocks = (exec alone p).st.blocks :=
  later_blocks_independent p _ _ (clean_after_block hist w0 h0) rfl rfl

/-! ### built -/

/-- on the specification: a top-level block on a not yet built object is built afterwards exactly when
the `with` statement raised nothing and at least one action was declared -/
theorem spec_built_iff (s : Spec.St) (id : Nat) (body : Prog) (hnb : (s.blocks id).built = false) :
    (((Spec.exec none s (.block id body .done)).st.blocks id).built = true ↔
      ((Spec.exec none s (.block id body .done)).exc = none ∧
        0 < ((Spec.exec none s (.block id body .done)).st.blocks id).utilities)) := by
  have hin := spec_built_unchanged_inside body id { s with floating := 0 } id
  simp only [Spec.exec, hnb, Bool.false_eq_true, if_false]
  generalize Spec.exec (some id) { s with floating := 0 } body = rb at *
  have hin' : (rb.st.blocks id).built = false := hin.trans hnb
  unfold Spec.finish
  cases hexc : rb.exc with
  | some e => simp [hin']
  | none =>
    by_cases h1 : rb.st.floating > 0
    · simp [h1, hin']
    by_cases h2 : (rb.st.blocks id).utilities = 0
    · simp [h1, h2, hin']
    by_cases h3 : ((rb.st.blocks id).actions.any fun effs => effs.any fun ok => !ok) = true
    · simp [h1, h2, h3, hin']
    · simp [h1, h2, h3, setBlock]; omega

/-- **built_iff.**  From clean class attributes, a `with` on a not yet built object marks it built iff
the whole statement completed without error and the block declared at least one action (an empty block
completes without being built).  In particular: built ⇒ no error. -/
theorem built_iff (w : World) (h : w.g = Globals.clean) (id : Nat) (body : Prog)
    (hnb : (w.blocks id).built = false) :
    (((exec w (.block id body .done)).st.blocks id).built = true ↔
      ((exec w (.block id body .done)).exc = none ∧
        0 < ((exec w (.block id body .done)).st.blocks id).utilities)) := by
  obtain ⟨a1, a2, -, -⟩ := exec_refines (.block id body .done) (rel_of_clean h)
  have hb : (exec w (.block id body .done)).st.blocks =
      (Spec.exec none (abs w) (.block id body .done)).st.blocks := by
    simpa [abs] using congrArg Spec.St.blocks a1
  rw [hb, a2]
  exact spec_built_iff (abs w) id body hnb

theorem built_only_without_error (w : World) (h : w.g = Globals.clean) (id : Nat) (body : Prog)
    (hnb : (w.blocks id).built = false)
    (hbuilt : ((exec w (.block id body .done)).st.blocks id).built = true) :
    (exec w (.block id body .done)).exc = none :=
  ((built_iff w h id body hnb).1 hbuilt).1

/-! ### `>>` -/

/-- **routed_inside_only.**  In a world that agrees with the lexical position (every world a program
reaches, by `exec_refines`): `>>` connects at once (value `None`) iff no block is open and the
connection can be made; it yields a `RoutedConnection` (connecting nothing) iff a block is open and the
operands are type-compatible.  In particular it never connects at once inside a block. -/
theorem routed_inside_only {ctx : Option Nat} {w : World} (h : Rel ctx w) (k : RouteKind) :
    ((evalRoute w k).2 = .ok none ↔ (ctx = none ∧ k = .good)) ∧
    ((∃ c, (evalRoute w k).2 = .ok (some c)) ↔ (ctx ≠ none ∧ k ≠ .illTyped)) := by
  obtain ⟨-, hr, -, -⟩ := h
  cases ctx with
  | none =>
    have hr' : w.g.routedMode = false := by simpa using hr
    cases k <;> simp [evalRoute, hr']
  | some a =>
    have hr' : w.g.routedMode = true := by simpa using hr
    cases k <;> simp [evalRoute, hr']

/-- the lexical reading of the same fact, on the specification -/
theorem spec_route_lexical (ctx : Option Nat) (s : Spec.St) (k : RouteKind) :
    ((Spec.evalRoute ctx s k).2 = .ok none ↔ (ctx = none ∧ k = .good)) ∧
    (ctx ≠ none → (Spec.evalRoute ctx s k).2 ≠ .ok none) := by
  cases ctx <;> cases k <;> simp [Spec.evalRoute]

/-! ### documented errors (each for every world, name, effect list) -/

/-- `ifmax` outside a block → SpaActionSelectionError, nothing changes -/
theorem err_ifmax_outside (w : World) (name : Option String) (c : Cond) (vals : List (Option Conn))
    (ha : w.g.active = none) (h1 : c ≠ .missing) (h2 : c ≠ .unregistered) :
    ifmaxCall w name c vals = (w, some .actionSelection) := by
  simp [ifmaxCall, h1, h2, ha]

/-- non-scalar condition → SpaTypeError, nothing changes -/
theorem err_nonscalar_condition (w : World) (a : Nat) (name : Option String) (vals : List (Option Conn))
    (ha : w.g.active = some a) :
    ifmaxCall w name .pointer vals = (w, some .spaType) := by
  simp [ifmaxCall, ha]

/-- an effect that is not a routing statement → SpaActionSelectionError, no action is added -/
theorem err_nonrouting_effect (w : World) (a : Nat) (name : Option String) (c : Cond)
    (vals : List (Option Conn)) (ha : w.g.active = some a) (hc : c = .zero ∨ c = .scalar)
    (hv : none ∈ vals) :
    ifmaxCall w name c vals = (w, some .actionSelection) := by
  have : vals.any Option.isNone = true := by
    rw [List.any_eq_true]; exact ⟨none, hv, rfl⟩
  rcases hc with rfl | rfl <;> simp [ifmaxCall, ha, this]

/-- nested block → SpaActionSelectionError at the inner `with`, nothing changes, the inner body and
`__exit__` never run -/
theorem err_nested_block (w : World) (a id : Nat) (body rest : Prog) (ha : w.g.active = some a)
    (hb : (w.blocks id).built = false) :
    enter w id = (w, some .actionSelection) ∧
    (exec w (.block id body rest)).st = w ∧
    (exec w (.block id body rest)).exc = some .actionSelection := by
  have : enter w id = (w, some .actionSelection) := by simp [enter, hb, ha]
  simp [exec, this]

/-- routing statements left outside any action → SpaActionSelectionError when the block ends; the
block is not built and the leftovers are discarded -/
theorem err_routing_outside_action (w : World) (id : Nat) (hff : w.g.freeFloating ≠ []) :
    (exit w id none).2 = some .actionSelection ∧ (exit w id none).1.g = Globals.clean ∧
    (exit w id none).1.blocks = w.blocks := by
  have : w.g.freeFloating.length > 0 := List.length_pos_iff.2 hff
  simp [exit, build, this, Globals.clean]

/-- name without condition → ValueError (before anything else is looked at) -/
theorem err_missing_condition (w : World) (name : Option String) (vals : List (Option Conn)) :
    ifmaxCall w name .missing vals = (w, some .value) := by
  simp [ifmaxCall]

/-- re-entering a built block → AssertionError, nothing changes -/
theorem err_reenter_built (w : World) (id : Nat) (hb : (w.blocks id).built = true) :
    enter w id = (w, some .assertion) := by
  simp [enter, hb]

/-- a valid `ifmax` inside a block is accepted: the action goes to the open block and its effects no
longer float -/
theorem ifmax_accepted (w : World) (a : Nat) (name : Option String) (c : Cond)
    (vals : List (Option Conn)) (ha : w.g.active = some a) (hc : c = .zero ∨ c = .scalar)
    (hv : none ∉ vals) :
    ifmaxCall w name c vals = (addAction w a name (vals.filterMap id), none) := by
  have : ¬ vals.any Option.isNone = true := by
    rw [List.any_eq_true]
    rintro ⟨x, hx, hn⟩
    cases x with
    | none => exact hv hx
    | some _ => cases hn
  rcases hc with rfl | rfl <;> simp [ifmaxCall, ha, this]

/-! ### the Mapping interface -/

/-- **iter_positions.**  For a block on which actions with the names `names` were declared (any number,
named and unnamed in any mix, names repeated or not), `__iter__` yields exactly one key per action in
declaration order: the action's name where it is the last action carrying that name, otherwise its
index. -/
theorem iter_positions {names : List (Option String)} {b : Block} (h : Declared names b) :
    iter b = Spec.keys names := by
  obtain ⟨-, ha, hnd, hent⟩ := h
  simp only [iter, len, Spec.keys, ha]
  apply List.map_congr_left
  intro i _
  have hfun : ∀ n n', (n, i) ∈ b.name2idx → (n', i) ∈ b.name2idx → n = n' := by
    intro n n' h1 h2
    have e1 := ((hent n i).1 h1).1
    have e2 := ((hent n' i).1 h2).1
    rw [e1] at e2
    exact Option.some.inj (Option.some.inj e2)
  obtain ⟨g1, g2⟩ := dictGet_idx2name_aux b.name2idx i [] hfun
  simp only [Spec.key]
  cases hn : names[i]? with
  | none =>
    have : ∀ n, (n, i) ∉ b.name2idx := fun n hm => by simpa [hn] using ((hent n i).1 hm).1
    simp [idx2name, g2 this, dictGet]
  | some x =>
    cases x with
    | none =>
      have : ∀ n, (n, i) ∉ b.name2idx := fun n hm => by simpa [hn] using ((hent n i).1 hm).1
      simp [idx2name, g2 this, dictGet]
    | some n =>
      by_cases hlater : some n ∈ names.drop (i + 1)
      · have : ∀ n', (n', i) ∉ b.name2idx := by
          intro n' hm
          obtain ⟨e1, e2⟩ := (hent n' i).1 hm
          rw [hn] at e1
          have : n = n' := Option.some.inj (Option.some.inj e1)
          subst this
          exact e2 hlater
        simp [idx2name, g2 this, dictGet, hlater]
      · have hm : (n, i) ∈ b.name2idx := (hent n i).2 ⟨hn, hlater⟩
        simp [idx2name, g1 n hm, hlater]

/-- every declaration sequence: the object produced by the code's `add_action` has these keys -/
theorem iter_declare (names : List (Option String)) : iter (declare names) = Spec.keys names :=
  iter_positions (declared_declare names)

theorem iter_length {names : List (Option String)} {b : Block} (h : Declared names b) :
    (iter b).length = names.length ∧ len b = names.length := by
  rw [iter_positions h]; exact ⟨by simp [Spec.keys], h.acts⟩

/-- look-up by position: the `i`-th utility for `i < len`, IndexError beyond -/
theorem getitem_position {names : List (Option String)} {b : Block} (h : Declared names b) (i : Nat) :
    getitem b (.idx i) = if i < names.length then .ok i else .error .index := by
  simp [getitem, utilityAt, h.utils]

/-- look-up by name: the last action declared with that name; KeyError for a name never declared -/
theorem getitem_name {names : List (Option String)} {b : Block} (h : Declared names b) (n : String) :
    (∀ i, names[i]? = some (some n) → some n ∉ names.drop (i + 1) → getitem b (.name n) = .ok i) ∧
    (some n ∉ names → getitem b (.name n) = .error .key) := by
  constructor
  · intro i h1 h2
    have hm := (h.entries n i).2 ⟨h1, h2⟩
    have hi : i < names.length := by
      rcases Nat.lt_or_ge i names.length with hlt | hge
      · exact hlt
      · rw [List.getElem?_eq_none_iff.2 hge] at h1; cases h1
    simp [getitem, dictGet_of_mem _ h.nodup n i hm, utilityAt, h.utils, hi]
  · intro hno
    have : ∀ v, (n, v) ∉ b.name2idx := by
      intro v hm
      have := ((h.entries n v).1 hm).1
      exact hno (List.mem_of_getElem? this)
    simp [getitem, dictGet_none_of_not_mem _ n this]

/-- look-up by the key iteration lists at position `i` returns the `i`-th utility: by position and by
name agree with iteration -/
theorem getitem_iter_agree {names : List (Option String)} {b : Block} (h : Declared names b) (i : Nat)
    (hi : i < names.length) : getitem b (Spec.key names i) = .ok i := by
  simp only [Spec.key]
  cases hn : names[i]? with
  | none => simp [getitem_position h, hi]
  | some x =>
    cases x with
    | none => simp [getitem_position h, hi]
    | some n =>
      by_cases hlater : some n ∈ names.drop (i + 1)
      · have hc : (names.drop (i + 1)).contains (some n) = true := by simpa using hlater
        simp [hlater, getitem_position h, hi]
      · have hc : (names.drop (i + 1)).contains (some n) = false := by simpa using hlater
        have := (getitem_name h n).1 i hn hlater
        simpa [hlater] using this

/-- **Every block object any program can produce** (from a clean start, e.g. the initial world where all
objects are fresh) is the result of a sequence of declarations — so `iter_positions`,
`getitem_position`, `getitem_name`, `getitem_iter_agree` apply to it, whatever errors happened on the
way. -/
theorem exec_declared (p : Prog) (w : World) (h : w.g = Globals.clean) (hd : AllDeclared w.blocks) :
    AllDeclared (exec w p).st.blocks := by
  obtain ⟨a1, -, -, -⟩ := exec_refines p (rel_of_clean h)
  have hb : (exec w p).st.blocks = (Spec.exec none (abs w) p).st.blocks := by
    simpa [abs] using congrArg Spec.St.blocks a1
  rw [hb]
  exact spec_exec_declared p none (abs w) hd

theorem reachable_blocks_iterate_in_declaration_order (p : Prog) (id : Nat) :
    ∃ names, iter ((exec World.init p).st.blocks id) = Spec.keys names ∧
      len ((exec World.init p).st.blocks id) = names.length ∧
      ∀ i, i < names.length →
        getitem ((exec World.init p).st.blocks id) (Spec.key names i) = .ok i ∧
        getitem ((exec World.init p).st.blocks id) (.idx i) = .ok i := by
  have hinit : AllDeclared World.init.blocks := fun _ => ⟨[], declared_fresh⟩
  obtain ⟨names, hn⟩ := exec_declared p World.init rfl hinit id
  refine ⟨names, iter_positions hn, (iter_length hn).2, ?_⟩
  intro i hi
  exact ⟨getitem_iter_agree hn i hi, by simp [getitem_position hn, hi]⟩

/-! ### non-vacuity: concrete programs through every outcome kind -/

/-- three blocks: one that completes (2 actions), one whose body raises after an `ifmax`, one with a
route left outside any action — and a plain `>>` after each; run from the initial world with every
top-level statement under `try` -/
def exProg : Prog :=
  .attempt (.block 0 (.ifmax (some "a") .scalar [.route .good] (.ifmax none .zero [] .done)) .done) <|
  .attempt (.route .good .done) <|
  .attempt (.block 1 (.ifmax none .scalar [.route .good] (.raise 7 .done)) .done) <|
  .attempt (.route .good .done) <|
  .attempt (.block 2 (.route .good .done) .done) <|
  .attempt (.route .good .done) .done

example : (exec World.init exProg).st.g.active = none ∧
    (exec World.init exProg).st.g.routedMode = false ∧
    (exec World.init exProg).st.g.freeFloating = [] := by decide
example : ((exec World.init exProg).st.blocks 0).built = true ∧
    ((exec World.init exProg).st.blocks 1).built = false ∧
    ((exec World.init exProg).st.blocks 2).built = false := by decide
example : (exec World.init exProg).out =
    [.route .routed 1, .ifmax none 0, .ifmax none 0, .blockEnd 0 none true false 0 true 2,
     .route .connected 0,
     .route .routed 1, .ifmax none 0, .blockEnd 1 (some (.user 7)) true false 0 false 1, .caught (.user 7),
     .route .connected 0,
     .route .routed 1, .blockEnd 2 (some .actionSelection) true false 0 false 0, .caught .actionSelection,
     .route .connected 0] := by decide
example : Rel none World.init := rel_of_clean rfl
example : Declared [none, some "a", some "b"] (declare [none, some "a", some "b"]) := declared_declare _
example : iter (declare [none, some "a", some "b", none, some "a"]) =
    [.idx 0, .idx 1, .name "b", .idx 3, .name "a"] := by decide

end C14

/-
C12 — unitary vectors preserve length; binding powers equal repeated binding.
Property theorems only (model: SpaModel/Basic/C12.lean on SpaModel/Basic/Algebra.lean;
base laws: SpaModel/Props/C02.lean).  Everything is proved for every commutative ring `R`
(ordered field where a positive square root is meant), every HRR dimensionality `k+1`,
every VTB/TVTB sub-dimensionality `m`, every vector and every integer exponent.

Clauses of the statement and where they are:
* unitary ⇒ dot products / norms preserved on both sides: `Hrr.unitary_preserves_dot(_left)`,
  `Vtb.unitary_preserves_dot_right/_left`, `Tvtb.…`, `…_normSq…`
* the inverse of a unitary vector undoes the binding exactly: `…unitary_inverse_exact…`
* make_unitary yields a unitary vector / is idempotent: `Mat.makeUnitary_rows_orthogonal`,
  `Mat.makeUnitary_isUnitary`, `Mat.makeUnitary_idempotent` (VTB and TVTB share the method);
  HRR `make_unitary`: see the `_partial` remark at the end (spectral layer, certified per input)
* power = n-fold left-nested binding, 0 ↦ identity, n<0 ↦ power of the inverse:
  `…power_eq_nested`, `…power_zero`, `…power_neg`; generic default: `Generic.*`
* exponents of equal sign add (HRR, TVTB): `Hrr.power_add_nonneg/_nonpos`, `Tvtb.power_add_…`
* fractional exponents accepted only for positive sign: `…power_refused_iff`, `…power_integer`
-/
import SpaModel.Basic.C12
import SpaModel.Props.C02
import Mathlib.Tactic.Ring
import Mathlib.Tactic.Linarith
import Mathlib.Tactic.LinearCombination
import Mathlib.Tactic.NormNum
import Mathlib.Algebra.BigOperators.Ring.Finset
import Mathlib.LinearAlgebra.Matrix.Trace
import Mathlib.LinearAlgebra.Matrix.NonsingularInverse
import Mathlib.Algebra.Order.Field.Basic

set_option linter.unusedSectionVars false
set_option linter.unusedVariables false

open Matrix

namespace C12
open Alg

variable {R : Type*} [CommRing R]

/-! ### materialisation is the identity -/
theorem thaw_ofFn {k : ℕ} (f : Alg.Hrr.Vec k R) : thaw (Array.ofFn f) = f := by
  funext i
  have h : i.val < k + 1 := i.isLt
  simp [thaw, h]

theorem thawM_freezeM {m : ℕ} (M : Matrix (Fin m) (Fin m) R) : thawM (freezeM M) = M := by
  ext i j; simp [thawM, freezeM]

/-! ### HRR -/
namespace Hrr
open Alg.Hrr C12.Spec C12.Spec.Hrr

variable {k : ℕ}

theorem thaw_npowA (v : Vec k R) (n : ℕ) : thaw (C12.Impl.Hrr.npowA v n) = Impl.npow v n := by
  induction n with
  | zero => exact thaw_ofFn _
  | succ n ih => rw [C12.Impl.Hrr.npowA, thaw_ofFn, ih]; rfl

/-- the materialised power run by the driver is the shared model's integer power -/
theorem zpowF_eq (v : Vec k R) (e : ℤ) : C12.Impl.Hrr.zpowF v e = Impl.zpow v e := by
  unfold C12.Impl.Hrr.zpowF Impl.zpow
  split <;> exact thaw_npowA _ _

/-- adjoint law: `⟨a ⊛ b, c⟩ = ⟨a, c ⊛ ~b⟩` -/
theorem dot_adjoint (a b c : Vec k R) :
    dot (Impl.bind a b) c = dot a (Impl.bind c (Impl.invert b)) := by
  simp only [dot, Impl.bind, Impl.invert, Finset.sum_mul, Finset.mul_sum]
  rw [Finset.sum_comm]
  refine Finset.sum_congr rfl fun j _ => Finset.sum_congr rfl fun i _ => ?_
  rw [neg_sub]; ring

theorem bind_identity_right (a : Vec k R) : Impl.bind a (Impl.identity k) = a := by
  funext i
  simp only [Impl.bind, Impl.identity]
  rw [Finset.sum_eq_single i]
  · simp
  · intro j _ hj
    have : i - j ≠ 0 := fun h => hj (sub_eq_zero.mp h).symm
    simp [this]
  · simp

theorem bind_identity_left (a : Vec k R) : Impl.bind (Impl.identity k) a = a := by
  rw [C02.Hrr.bind_comm, bind_identity_right]

theorem invert_invert (a : Vec k R) : Impl.invert (Impl.invert a) = a := by
  funext i; simp [Impl.invert]

theorem invert_identity : Impl.invert (Impl.identity k : Vec k R) = Impl.identity k := by
  funext i; simp [Impl.invert, Impl.identity]

/-- inversion distributes over binding -/
theorem invert_bind (a b : Vec k R) :
    Impl.invert (Impl.bind a b) = Impl.bind (Impl.invert a) (Impl.invert b) := by
  funext i
  simp only [Impl.invert, Impl.bind]
  refine Fintype.sum_equiv (Equiv.neg _) _ _ ?_
  intro j
  simp only [Equiv.neg_apply, neg_neg]
  congr 2
  abel

/-- **unitary vectors preserve all dot products** (right operand unitary) -/
theorem unitary_preserves_dot (u : Vec k R) (hu : IsUnitary u) (a b : Vec k R) :
    dot (Impl.bind a u) (Impl.bind b u) = dot a b := by
  rw [dot_adjoint, C02.Hrr.bind_assoc, hu, bind_identity_right]

/-- the same with the unitary vector as left operand (HRR is commutative) -/
theorem unitary_preserves_dot_left (u : Vec k R) (hu : IsUnitary u) (a b : Vec k R) :
    dot (Impl.bind u a) (Impl.bind u b) = dot a b := by
  rw [C02.Hrr.bind_comm u a, C02.Hrr.bind_comm u b, unitary_preserves_dot u hu]

/-- **unitary vectors preserve the (squared) norm** of every bound partner, both sides -/
theorem unitary_preserves_normSq (u : Vec k R) (hu : IsUnitary u) (x : Vec k R) :
    normSq (Impl.bind x u) = normSq x ∧ normSq (Impl.bind u x) = normSq x :=
  ⟨unitary_preserves_dot u hu x x, unitary_preserves_dot_left u hu x x⟩

/-- **the inverse of a unitary vector undoes the binding exactly**, both sides -/
theorem unitary_inverse_exact (u : Vec k R) (hu : IsUnitary u) (a : Vec k R) :
    Impl.bind (Impl.bind a u) (Impl.invert u) = a ∧
    Impl.bind (Impl.invert u) (Impl.bind u a) = a := by
  constructor
  · rw [C02.Hrr.bind_assoc, hu, bind_identity_right]
  · rw [← C02.Hrr.bind_assoc, C02.Hrr.bind_comm (Impl.invert u) u, hu, bind_identity_left]

/-- unitary vectors are closed under binding and inversion -/
theorem unitary_bind (u w : Vec k R) (hu : IsUnitary u) (hw : IsUnitary w) :
    IsUnitary (Impl.bind u w) := by
  unfold IsUnitary at *
  rw [invert_bind, C02.Hrr.bind_assoc, ← C02.Hrr.bind_assoc w, C02.Hrr.bind_comm w (Impl.invert u),
    C02.Hrr.bind_assoc (Impl.invert u), hw, bind_identity_right, hu]

theorem unitary_invert (u : Vec k R) (hu : IsUnitary u) : IsUnitary (Impl.invert u) := by
  unfold IsUnitary at *
  rw [invert_invert, C02.Hrr.bind_comm, hu]

/-! #### powers -/

theorem npow_one (v : Vec k R) : Impl.npow v 1 = v := by
  simp [Impl.npow, bind_identity_left]

/-- for `n ≥ 1` the coded power is the n-fold left-nested binding -/
theorem npow_succ_eq_nfold (v : Vec k R) (n : ℕ) :
    Impl.npow v (n + 1) = nfold Impl.bind v n := by
  induction n with
  | zero => exact npow_one v
  | succ n ih => rw [Impl.npow, ih]; rfl

/-- **power_eq_nested**: for every `v` and every integer `n ≥ 1` (written `n+1`) -/
theorem power_eq_nested (v : Vec k R) (n : ℕ) :
    Impl.zpow v ((n : ℤ) + 1) = nfold Impl.bind v n := by
  have h : ¬ ((n : ℤ) + 1 < 0) := by omega
  have h2 : ((n : ℤ) + 1).natAbs = n + 1 := by omega
  rw [Impl.zpow, if_neg h, h2, npow_succ_eq_nfold]

/-- **power_zero**: exponent 0 gives the identity -/
theorem power_zero (v : Vec k R) : Impl.zpow v 0 = Impl.identity k := by
  simp [Impl.zpow, Impl.npow]

/-- **power_neg**: a negative exponent is the same power of the inverse -/
theorem power_neg (v : Vec k R) (n : ℤ) (hn : n < 0) :
    Impl.zpow v n = Impl.zpow (Impl.invert v) (-n) := by
  have h : ¬ (-n < 0) := by omega
  rw [Impl.zpow, if_pos hn, Impl.zpow, if_neg h, Int.natAbs_neg]

theorem npow_add (v : Vec k R) (a b : ℕ) :
    Impl.bind (Impl.npow v a) (Impl.npow v b) = Impl.npow v (a + b) := by
  induction b with
  | zero => simp [Impl.npow, bind_identity_right]
  | succ b ih => rw [Impl.npow, ← C02.Hrr.bind_assoc, ih]; rfl

theorem zpow_of_nonneg (v : Vec k R) (e : ℤ) (he : 0 ≤ e) : Impl.zpow v e = Impl.npow v e.natAbs := by
  rw [Impl.zpow, if_neg (by omega)]

theorem zpow_of_nonpos (v : Vec k R) (e : ℤ) (he : e ≤ 0) :
    Impl.zpow v e = Impl.npow (Impl.invert v) e.natAbs := by
  rcases lt_or_eq_of_le he with h | h
  · rw [Impl.zpow, if_pos h]
  · subst h; simp [Impl.zpow, Impl.npow]

/-- **power_add**, non-negative exponents: `v^a ⊛ v^b = v^(a+b)` for every `v` -/
theorem power_add_nonneg (v : Vec k R) (a b : ℤ) (ha : 0 ≤ a) (hb : 0 ≤ b) :
    Impl.bind (Impl.zpow v a) (Impl.zpow v b) = Impl.zpow v (a + b) := by
  rw [zpow_of_nonneg v a ha, zpow_of_nonneg v b hb, zpow_of_nonneg v (a + b) (by omega), npow_add,
    Int.natAbs_add_of_nonneg ha hb]

/-- **power_add**, non-positive exponents -/
theorem power_add_nonpos (v : Vec k R) (a b : ℤ) (ha : a ≤ 0) (hb : b ≤ 0) :
    Impl.bind (Impl.zpow v a) (Impl.zpow v b) = Impl.zpow v (a + b) := by
  rw [zpow_of_nonpos v a ha, zpow_of_nonpos v b hb, zpow_of_nonpos v (a + b) (by omega), npow_add,
    Int.natAbs_add_of_nonpos ha hb]

/-- for a unitary vector exponents of *any* signs add (docstring of `binding_power`) -/
theorem unitary_power_add (u : Vec k R) (hu : IsUnitary u) (a b : ℤ) :
    Impl.bind (Impl.zpow u a) (Impl.zpow u b) = Impl.zpow u (a + b) := by
  -- mixed signs: cancel `u ⊛ ~u` pairwise
  have cancel : ∀ p q : ℕ, Impl.bind (Impl.npow u (p + q)) (Impl.npow (Impl.invert u) q) = Impl.npow u p := by
    intro p q
    induction q with
    | zero => simp [Impl.npow, bind_identity_right]
    | succ q ih =>
      have e1 : Impl.npow u (p + (q + 1)) = Impl.bind (Impl.npow u (p + q)) u := rfl
      have e2 : Impl.npow (Impl.invert u) (q + 1) = Impl.bind (Impl.npow (Impl.invert u) q) (Impl.invert u) := rfl
      rw [e1, e2, C02.Hrr.bind_assoc, ← C02.Hrr.bind_assoc u, C02.Hrr.bind_comm u (Impl.npow _ q),
        C02.Hrr.bind_assoc (Impl.npow _ q), hu, bind_identity_right, ih]
  have cancel' : ∀ p q : ℕ, Impl.bind (Impl.npow (Impl.invert u) (p + q)) (Impl.npow u q) = Impl.npow (Impl.invert u) p := by
    intro p q
    have := unitary_invert u hu
    induction q with
    | zero => simp [Impl.npow, bind_identity_right]
    | succ q ih =>
      have e1 : Impl.npow (Impl.invert u) (p + (q + 1)) = Impl.bind (Impl.npow (Impl.invert u) (p + q)) (Impl.invert u) := rfl
      have e2 : Impl.npow u (q + 1) = Impl.bind (Impl.npow u q) u := rfl
      rw [e1, e2, C02.Hrr.bind_assoc, ← C02.Hrr.bind_assoc (Impl.invert u), C02.Hrr.bind_comm (Impl.invert u) (Impl.npow _ q),
        C02.Hrr.bind_assoc (Impl.npow _ q), C02.Hrr.bind_comm (Impl.invert u) u, hu, bind_identity_right, ih]
  rcases le_total 0 a with ha | ha <;> rcases le_total 0 b with hb | hb
  · exact power_add_nonneg u a b ha hb
  · -- a ≥ 0 ≥ b
    rw [zpow_of_nonneg u a ha, zpow_of_nonpos u b hb]
    rcases le_total 0 (a + b) with hab | hab
    · rw [zpow_of_nonneg u _ hab]
      have : a.natAbs = (a + b).natAbs + b.natAbs := by omega
      rw [this, cancel]
    · rw [zpow_of_nonpos u _ hab]
      have : b.natAbs = (a + b).natAbs + a.natAbs := by omega
      rw [this, C02.Hrr.bind_comm, cancel']
  · rw [zpow_of_nonpos u a ha, zpow_of_nonneg u b hb]
    rcases le_total 0 (a + b) with hab | hab
    · rw [zpow_of_nonneg u _ hab]
      have : b.natAbs = (a + b).natAbs + a.natAbs := by omega
      rw [this, C02.Hrr.bind_comm, cancel]
    · rw [zpow_of_nonpos u _ hab]
      have : a.natAbs = (a + b).natAbs + b.natAbs := by omega
      rw [this, cancel']
  · exact power_add_nonpos u a b ha hb

/-! #### gates -/

/-- an integer exponent is always accepted and gives the modelled integer power -/
theorem power_integer (pos : Bool) (v : Vec k R) (n : ℤ) :
    C12.Impl.Hrr.power pos v (n : ℚ) = .value (Impl.zpow v n) := by
  simp [C12.Impl.Hrr.power, isFractional, zpowF_eq]

/-- **fractional exponents are refused exactly for vectors whose sign is not positive** -/
theorem power_refused_iff (pos : Bool) (v : Vec k R) (e : ℚ) :
    C12.Impl.Hrr.power pos v e = .refused .valueError ↔ (isFractional e = true ∧ pos = false) := by
  unfold C12.Impl.Hrr.power
  cases h : isFractional e <;> cases pos <;> simp

theorem power_fractional_accepted (v : Vec k R) (e : ℚ) (he : isFractional e = true) :
    C12.Impl.Hrr.power true v e = .spectral := by
  simp [C12.Impl.Hrr.power, he]

/-- what "positive sign" means on the coefficients the code looks at -/
theorem isPositive_iff {K : Type*} [CommRing K] [LinearOrder K] (v : Vec k K) :
    C12.Impl.Hrr.isPositive v = true ↔
      (0 < Impl.dc v ∧ ((k + 1) % 2 = 1 ∨ 0 ≤ Impl.nyq v)) := by
  simp [C12.Impl.Hrr.isPositive]

end Hrr

/-! ### matrix lemmas shared by VTB and TVTB -/
namespace Mat
open C12.Spec C12.Spec.Mat C12.Impl

variable {m : ℕ}

theorem toMat_ofMat (M : Matrix (Fin m) (Fin m) R) : toMat (ofMat M) = M := by
  ext i j; rfl

theorem toMat_injective {a b : Vec2 m R} (h : toMat a = toMat b) : a = b := by
  funext p
  obtain ⟨i, j⟩ := p
  have := congrFun (congrFun h i) j
  simpa [toMat] using this

theorem toMat_invert (v : Vec2 m R) : toMat (Alg.Vtb.Impl.invert v) = (toMat v)ᵀ := by
  ext i j; rfl

theorem toMat_identity (sinv : R) : toMat (Alg.Vtb.Impl.identity m sinv) = sinv • (1 : Matrix (Fin m) (Fin m) R) := by
  ext i j
  simp [toMat, Alg.Vtb.Impl.identity, Matrix.one_apply]

/-- the dot product of two vectors is the Frobenius product of their matrices -/
theorem dot_eq_trace (a b : Vec2 m R) : dot a b = trace (toMat a * (toMat b)ᵀ) := by
  simp [dot, trace, Matrix.mul_apply, toMat, Fintype.sum_prod_type]

/-- the fallback loop of `binding_power` computes the matrix power -/
theorem matPowLoop_eq_pow (M : Matrix (Fin m) (Fin m) R) (n : ℕ) : thawM (matPowLoopA M n) = M ^ n := by
  induction n with
  | zero => simp [matPowLoopA, thawM_freezeM]
  | succ n ih => rw [matPowLoopA, thawM_freezeM, ih, pow_succ]

/-- row-orthonormality (up to `1/m`) of a square matrix is column-orthonormality -/
theorem isUnitary_comm (s : R) (u : Vec2 m R) (h : IsUnitary s u) :
    (s * s) • ((toMat u)ᵀ * toMat u) = 1 := by
  unfold IsUnitary at h
  have h1 : ((s * s) • toMat u) * (toMat u)ᵀ = 1 := by rw [Matrix.smul_mul]; exact h
  have h2 := (_root_.mul_eq_one_comm).mp h1
  rw [Matrix.mul_smul] at h2
  exact h2

/-- multiplying both factors from the right by `W` with `(s*s)•(W Wᵀ) = 1` keeps the Frobenius product -/
theorem trace_right (s : R) (W P Q : Matrix (Fin m) (Fin m) R) (h : (s * s) • (W * Wᵀ) = 1) :
    trace ((s • (P * W)) * (s • (Q * W))ᵀ) = trace (P * Qᵀ) := by
  have e : (s • (P * W)) * (s • (Q * W))ᵀ = P * ((s * s) • (W * Wᵀ)) * Qᵀ := by
    simp only [transpose_smul, transpose_mul, Matrix.smul_mul, Matrix.mul_smul, smul_smul,
      Matrix.mul_assoc]
  rw [e, h, Matrix.mul_one]

/-- the same from the left with `(s*s)•(Wᵀ W) = 1` -/
theorem trace_left (s : R) (W P Q : Matrix (Fin m) (Fin m) R) (h : (s * s) • (Wᵀ * W) = 1) :
    trace ((s • (W * P)) * (s • (W * Q))ᵀ) = trace (P * Qᵀ) := by
  have e : (s • (W * P)) * (s • (W * Q))ᵀ = W * ((s * s) • (P * Qᵀ * Wᵀ)) := by
    simp only [transpose_smul, transpose_mul, Matrix.smul_mul, Matrix.mul_smul, smul_smul,
      Matrix.mul_assoc]
  have e2 : ((s * s) • (P * Qᵀ * Wᵀ)) * W = (P * Qᵀ) * ((s * s) • (Wᵀ * W)) := by
    simp only [Matrix.smul_mul, Matrix.mul_smul, Matrix.mul_assoc]
  rw [e, trace_mul_comm, e2, h, Matrix.mul_one]

end Mat

/-! ### VTB -/
namespace Vtb
open Alg.Vtb C12.Spec C12.Spec.Mat C12.Mat

variable {m : ℕ}

/-- **unitary vectors preserve all dot products**, unitary vector as right operand -/
theorem unitary_preserves_dot_right (s : R) (u : Vec2 m R) (hu : IsUnitary s u) (a b : Vec2 m R) :
    dot (Impl.bind s a u) (Impl.bind s b u) = dot a b := by
  rw [dot_eq_trace, dot_eq_trace, C02.Vtb.bind_matrix_form, C02.Vtb.bind_matrix_form]
  apply trace_right
  rw [transpose_transpose]
  exact isUnitary_comm s u hu

/-- … and as left operand -/
theorem unitary_preserves_dot_left (s : R) (u : Vec2 m R) (hu : IsUnitary s u) (a b : Vec2 m R) :
    dot (Impl.bind s u a) (Impl.bind s u b) = dot a b := by
  rw [dot_eq_trace, dot_eq_trace, C02.Vtb.bind_matrix_form, C02.Vtb.bind_matrix_form,
    trace_left s _ _ _ (isUnitary_comm s u hu), transpose_transpose, ← trace_transpose_mul,
    transpose_transpose]

/-- **unitary vectors preserve the (squared) norm** of every bound partner, both sides -/
theorem unitary_preserves_normSq (s : R) (u : Vec2 m R) (hu : IsUnitary s u) (x : Vec2 m R) :
    normSq (Impl.bind s x u) = normSq x ∧ normSq (Impl.bind s u x) = normSq x :=
  ⟨unitary_preserves_dot_right s u hu x x, unitary_preserves_dot_left s u hu x x⟩

/-- **the (right) inverse of a unitary vector undoes the binding exactly** (VTB has a right
inverse only) -/
theorem unitary_inverse_exact (s : R) (u : Vec2 m R) (hu : IsUnitary s u) (a : Vec2 m R) :
    Impl.bind s (Impl.bind s a u) (Impl.invert u) = a := by
  apply toMat_injective
  rw [C02.Vtb.bind_matrix_form, C02.Vtb.bind_matrix_form, toMat_invert, transpose_transpose]
  have e : s • (s • (toMat a * (toMat u)ᵀ) * toMat u) = toMat a * ((s * s) • ((toMat u)ᵀ * toMat u)) := by
    simp only [Matrix.smul_mul, Matrix.mul_smul, smul_smul, Matrix.mul_assoc]
  rw [e, isUnitary_comm s u hu, Matrix.mul_one]

/-- matrix of the n-fold nested binding: `V (s Vᵀ)^n` -/
theorem toMat_nfold (s : R) (v : Vec2 m R) (n : ℕ) :
    toMat (nfold (Impl.bind s) v n) = toMat v * (s • (toMat v)ᵀ) ^ n := by
  induction n with
  | zero => simp [nfold]
  | succ n ih =>
    rw [nfold, C02.Vtb.bind_matrix_form, ih, pow_succ]
    simp only [Matrix.mul_smul, Matrix.mul_assoc]

/-- **power_eq_nested**: for every `v` and every integer `n ≥ 1` (written `n+1`) the coded power
(matrix power `(s•V)^(n-1)` by the fallback loop, divided by `s`, one final `bind`) is the
n-fold left-nested binding -/
theorem power_eq_nested (s sinv : R) (hs : s * sinv = 1) (v : Vec2 m R) (n : ℕ) :
    C12.Impl.Vtb.intPower s sinv v ((n : ℤ) + 1) = nfold (Impl.bind s) v n := by
  have h0 : ¬ ((n : ℤ) + 1 = 0) := by omega
  have h1 : ¬ ((n : ℤ) + 1 < 0) := by omega
  have h2 : ((n : ℤ) + 1).natAbs - 1 = n := by omega
  apply toMat_injective
  rw [toMat_nfold]
  simp only [C12.Impl.Vtb.intPower, if_neg h0, if_neg h1, h2]
  rw [C02.Vtb.bind_matrix_form, toMat_ofMat, matPowLoop_eq_pow, transpose_smul, transpose_pow,
    transpose_smul, Matrix.mul_smul, smul_smul, hs, one_smul]

/-- **power_zero**: exponent 0 gives the (right) identity -/
theorem power_zero (s sinv : R) (v : Vec2 m R) :
    C12.Impl.Vtb.intPower s sinv v 0 = Impl.identity m sinv := by
  simp [C12.Impl.Vtb.intPower]

/-- **power_neg**: a negative exponent is the same power of the inverse -/
theorem power_neg (s sinv : R) (v : Vec2 m R) (n : ℤ) (hn : n < 0) :
    C12.Impl.Vtb.intPower s sinv v n = C12.Impl.Vtb.intPower s sinv (Impl.invert v) (-n) := by
  have h0 : ¬ (n = 0) := by omega
  have h0' : ¬ (-n = 0) := by omega
  have h1 : ¬ (-n < 0) := by omega
  simp only [C12.Impl.Vtb.intPower, if_neg h0, if_neg h0', if_pos hn, if_neg h1, Int.natAbs_neg]

/-- the right identity really is one: `bind v identity = v` -/
theorem bind_identity_right (s sinv : R) (hs : s * sinv = 1) (v : Vec2 m R) :
    Impl.bind s v (Impl.identity m sinv) = v := by
  apply toMat_injective
  rw [C02.Vtb.bind_matrix_form, toMat_identity, transpose_smul, transpose_one, Matrix.mul_smul,
    smul_smul, hs, one_smul, Matrix.mul_one]

/-! #### gates -/

theorem power_integer (scipy pos : Bool) (s sinv : R) (v : Vec2 m R) (n : ℤ) :
    C12.Impl.Vtb.power scipy pos s sinv v (n : ℚ) = .value (C12.Impl.Vtb.intPower s sinv v n) := by
  by_cases h : n = 0
  · subst h; simp [C12.Impl.Vtb.power, isFractional, C12.Impl.Vtb.intPower]
  · simp [C12.Impl.Vtb.power, isFractional, h]

/-- what runs here: without SciPy every fractional exponent is refused with ImportError,
whatever the sign -/
theorem power_no_scipy_fractional (pos : Bool) (s sinv : R) (v : Vec2 m R) (e : ℚ)
    (he : isFractional e = true) :
    C12.Impl.Vtb.power false pos s sinv v e = .refused .importError := by
  simp [C12.Impl.Vtb.power, he]

theorem isFractional_ne_zero (e : ℚ) (he : isFractional e = true) : e ≠ 0 := by
  rintro rfl; simp [isFractional] at he

/-- with SciPy: fractional exponents are refused (ValueError) exactly when the sign is not positive -/
theorem power_refused_iff (pos : Bool) (s sinv : R) (v : Vec2 m R) (e : ℚ) :
    C12.Impl.Vtb.power true pos s sinv v e = .refused .valueError ↔
      (isFractional e = true ∧ pos = false) := by
  unfold C12.Impl.Vtb.power
  by_cases h0 : e = 0
  · subst h0; simp [isFractional]
  · cases h : isFractional e <;> cases pos <;> simp [h0]

end Vtb

/-! ### TVTB -/
namespace Tvtb
open Alg.Tvtb C12.Spec C12.Spec.Mat C12.Mat

variable {m : ℕ}

theorem toMat_invert (v : Vec2 m R) : toMat (Impl.invert v) = (toMat v)ᵀ := by
  ext i j; rfl

theorem toMat_identity (sinv : R) : toMat (Impl.identity m sinv) = sinv • (1 : Matrix (Fin m) (Fin m) R) := by
  ext i j
  simp [toMat, Impl.identity, Matrix.one_apply]

/-- **unitary vectors preserve all dot products**, unitary vector as right operand -/
theorem unitary_preserves_dot_right (s : R) (u : Vec2 m R) (hu : IsUnitary s u) (a b : Vec2 m R) :
    dot (Impl.bind s a u) (Impl.bind s b u) = dot a b := by
  rw [dot_eq_trace, dot_eq_trace, C02.Tvtb.bind_matrix_form, C02.Tvtb.bind_matrix_form]
  exact trace_right s _ _ _ hu

/-- … and as left operand -/
theorem unitary_preserves_dot_left (s : R) (u : Vec2 m R) (hu : IsUnitary s u) (a b : Vec2 m R) :
    dot (Impl.bind s u a) (Impl.bind s u b) = dot a b := by
  rw [dot_eq_trace, dot_eq_trace, C02.Tvtb.bind_matrix_form, C02.Tvtb.bind_matrix_form]
  exact trace_left s _ _ _ (isUnitary_comm s u hu)

theorem unitary_preserves_normSq (s : R) (u : Vec2 m R) (hu : IsUnitary s u) (x : Vec2 m R) :
    normSq (Impl.bind s x u) = normSq x ∧ normSq (Impl.bind s u x) = normSq x :=
  ⟨unitary_preserves_dot_right s u hu x x, unitary_preserves_dot_left s u hu x x⟩

/-- **the inverse of a unitary vector undoes the binding exactly**, on both sides -/
theorem unitary_inverse_exact (s : R) (u : Vec2 m R) (hu : IsUnitary s u) (a : Vec2 m R) :
    Impl.bind s (Impl.bind s a u) (Impl.invert u) = a ∧
    Impl.bind s (Impl.invert u) (Impl.bind s u a) = a := by
  constructor
  · apply toMat_injective
    rw [C02.Tvtb.bind_matrix_form, C02.Tvtb.bind_matrix_form, toMat_invert]
    have e : s • (s • (toMat a * toMat u) * (toMat u)ᵀ) = toMat a * ((s * s) • (toMat u * (toMat u)ᵀ)) := by
      simp only [Matrix.smul_mul, Matrix.mul_smul, smul_smul, Matrix.mul_assoc]
    rw [e, hu, Matrix.mul_one]
  · apply toMat_injective
    rw [C02.Tvtb.bind_matrix_form, C02.Tvtb.bind_matrix_form, toMat_invert]
    have e : s • ((toMat u)ᵀ * s • (toMat u * toMat a)) = ((s * s) • ((toMat u)ᵀ * toMat u)) * toMat a := by
      simp only [Matrix.smul_mul, Matrix.mul_smul, smul_smul, Matrix.mul_assoc]
    rw [e, isUnitary_comm s u hu, Matrix.one_mul]

/-- matrix of the coded integer power for `n ≥ 0`: `(s•V)^n / s` -/
theorem toMat_intPower_nat (s sinv : R) (v : Vec2 m R) (n : ℕ) :
    toMat (C12.Impl.Tvtb.intPower s sinv v (n : ℤ)) = sinv • (s • toMat v) ^ n := by
  have h1 : ¬ ((n : ℤ) < 0) := by omega
  simp only [C12.Impl.Tvtb.intPower, if_neg h1, Int.natAbs_natCast]
  rw [toMat_ofMat, matPowLoop_eq_pow]

theorem toMat_nfold (s sinv : R) (hs : s * sinv = 1) (v : Vec2 m R) (n : ℕ) :
    toMat (nfold (Impl.bind s) v n) = sinv • (s • toMat v) ^ (n + 1) := by
  induction n with
  | zero => simp [nfold, smul_smul, mul_comm sinv s, hs]
  | succ n ih =>
    rw [nfold, C02.Tvtb.bind_matrix_form, ih, pow_succ (s • toMat v) (n + 1)]
    simp only [Matrix.smul_mul, Matrix.mul_smul, smul_smul, mul_comm]

/-- **power_eq_nested** -/
theorem power_eq_nested (s sinv : R) (hs : s * sinv = 1) (v : Vec2 m R) (n : ℕ) :
    C12.Impl.Tvtb.intPower s sinv v ((n : ℤ) + 1) = nfold (Impl.bind s) v n := by
  apply toMat_injective
  have : ((n : ℤ) + 1) = ((n + 1 : ℕ) : ℤ) := by push_cast; ring
  rw [this, toMat_intPower_nat, toMat_nfold s sinv hs]

/-- **power_zero** -/
theorem power_zero (s sinv : R) (v : Vec2 m R) :
    C12.Impl.Tvtb.intPower s sinv v 0 = Impl.identity m sinv := by
  apply toMat_injective
  have := toMat_intPower_nat s sinv v 0
  simp only [Nat.cast_zero, pow_zero] at this
  rw [this, toMat_identity]

/-- **power_neg** -/
theorem power_neg (s sinv : R) (v : Vec2 m R) (n : ℤ) (hn : n < 0) :
    C12.Impl.Tvtb.intPower s sinv v n = C12.Impl.Tvtb.intPower s sinv (Impl.invert v) (-n) := by
  have h1 : ¬ (-n < 0) := by omega
  simp only [C12.Impl.Tvtb.intPower, if_pos hn, if_neg h1, Int.natAbs_neg]

/-- **power_add**, non-negative exponents: `B(v^a, v^b) = v^(a+b)` for every `v` -/
theorem power_add_nat (s sinv : R) (hs : s * sinv = 1) (v : Vec2 m R) (a b : ℕ) :
    Impl.bind s (C12.Impl.Tvtb.intPower s sinv v a) (C12.Impl.Tvtb.intPower s sinv v b) =
      C12.Impl.Tvtb.intPower s sinv v ((a + b : ℕ) : ℤ) := by
  apply toMat_injective
  rw [C02.Tvtb.bind_matrix_form, toMat_intPower_nat, toMat_intPower_nat, toMat_intPower_nat, pow_add]
  simp only [Matrix.smul_mul, Matrix.mul_smul, smul_smul]
  congr 1
  calc s * (sinv * sinv) = (s * sinv) * sinv := by ring
    _ = sinv := by rw [hs, one_mul]

theorem power_add_nonneg (s sinv : R) (hs : s * sinv = 1) (v : Vec2 m R) (a b : ℤ) (ha : 0 ≤ a) (hb : 0 ≤ b) :
    Impl.bind s (C12.Impl.Tvtb.intPower s sinv v a) (C12.Impl.Tvtb.intPower s sinv v b) =
      C12.Impl.Tvtb.intPower s sinv v (a + b) := by
  obtain ⟨a', rfl⟩ := Int.eq_ofNat_of_zero_le ha
  obtain ⟨b', rfl⟩ := Int.eq_ofNat_of_zero_le hb
  rw [power_add_nat s sinv hs]
  push_cast; rfl

theorem intPower_of_nonpos (s sinv : R) (v : Vec2 m R) (n : ℤ) (hn : n ≤ 0) :
    C12.Impl.Tvtb.intPower s sinv v n = C12.Impl.Tvtb.intPower s sinv (Impl.invert v) (-n) := by
  rcases lt_or_eq_of_le hn with h | h
  · exact power_neg s sinv v n h
  · subst h; rw [neg_zero, power_zero, power_zero]

/-- **power_add**, non-positive exponents (through the inverse) -/
theorem power_add_nonpos (s sinv : R) (hs : s * sinv = 1) (v : Vec2 m R) (a b : ℤ) (ha : a ≤ 0) (hb : b ≤ 0) :
    Impl.bind s (C12.Impl.Tvtb.intPower s sinv v a) (C12.Impl.Tvtb.intPower s sinv v b) =
      C12.Impl.Tvtb.intPower s sinv v (a + b) := by
  rw [intPower_of_nonpos s sinv v a ha, intPower_of_nonpos s sinv v b hb,
    intPower_of_nonpos s sinv v (a + b) (by omega),
    power_add_nonneg s sinv hs _ (-a) (-b) (by omega) (by omega)]
  congr 1; ring

/-! #### gates -/

theorem power_integer (scipy pos : Bool) (s sinv : R) (v : Vec2 m R) (n : ℤ) :
    C12.Impl.Tvtb.power scipy pos s sinv v (n : ℚ) = .value (C12.Impl.Tvtb.intPower s sinv v n) := by
  simp [C12.Impl.Tvtb.power, isFractional]

theorem power_no_scipy_fractional (pos : Bool) (s sinv : R) (v : Vec2 m R) (e : ℚ)
    (he : isFractional e = true) :
    C12.Impl.Tvtb.power false pos s sinv v e = .refused .importError := by
  simp [C12.Impl.Tvtb.power, he]

theorem power_refused_iff (pos : Bool) (s sinv : R) (v : Vec2 m R) (e : ℚ) :
    C12.Impl.Tvtb.power true pos s sinv v e = .refused .valueError ↔
      (isFractional e = true ∧ pos = false) := by
  unfold C12.Impl.Tvtb.power
  cases h : isFractional e <;> cases pos <;> simp

end Tvtb

/-! ### the generic default `AbstractAlgebra.binding_power` -/
namespace Generic
open C12.Spec C12.Mat

/-- fractional exponents are always refused by the default -/
theorem power_fractional {α : Type*} (bind : α → α → α) (lid : Option α) (inv : α → α) (v : α) (e : ℚ)
    (he : isFractional e = true) :
    C12.Impl.Generic.power bind lid inv v e = .refused .valueError := by
  simp [C12.Impl.Generic.power, he]

/-- VTB has no left identity: the default refuses every integer exponent (NotImplementedError) -/
theorem power_no_left_identity {α : Type*} (bind : α → α → α) (inv : α → α) (v : α) (n : ℤ) :
    C12.Impl.Generic.power bind none inv v (n : ℚ) = .refused .notImplemented := by
  simp [C12.Impl.Generic.power, isFractional]

theorem hrr_loop {k : ℕ} (v : Alg.Hrr.Vec k R) (n : ℕ) :
    C12.Impl.Generic.loop Alg.Hrr.Impl.bind (Alg.Hrr.Impl.identity k) v n = Alg.Hrr.Impl.npow v n := by
  induction n with
  | zero => rfl
  | succ n ih => rw [C12.Impl.Generic.loop, ih]; rfl

theorem hrr_invert_npow {k : ℕ} (v : Alg.Hrr.Vec k R) (n : ℕ) :
    Alg.Hrr.Impl.invert (Alg.Hrr.Impl.npow v n) = Alg.Hrr.Impl.npow (Alg.Hrr.Impl.invert v) n := by
  induction n with
  | zero => exact C12.Hrr.invert_identity
  | succ n ih => rw [Alg.Hrr.Impl.npow, C12.Hrr.invert_bind, ih]; rfl

/-- on the HRR operations the default (power first, then inversion) is the HRR power
(inversion first, then power), for every integer exponent -/
theorem hrr_eq_power {k : ℕ} (v : Alg.Hrr.Vec k R) (n : ℤ) :
    C12.Impl.Generic.power Alg.Hrr.Impl.bind (some (Alg.Hrr.Impl.identity k)) Alg.Hrr.Impl.invert v (n : ℚ)
      = .value (Alg.Hrr.Impl.zpow v n) := by
  simp only [C12.Impl.Generic.power, isFractional, Rat.den_intCast, bne_self_eq_false,
    Bool.false_eq_true, if_false, Rat.num_intCast, hrr_loop]
  congr 1
  unfold Alg.Hrr.Impl.zpow
  split
  · rw [hrr_invert_npow]
  · rfl

theorem tvtb_loop {m : ℕ} (s sinv : R) (hs : s * sinv = 1) (v : Vec2 m R) (n : ℕ) :
    toMat (C12.Impl.Generic.loop (Alg.Tvtb.Impl.bind s) (Alg.Tvtb.Impl.identity m sinv) v n)
      = sinv • (s • toMat v) ^ n := by
  induction n with
  | zero => simp [C12.Impl.Generic.loop, C12.Tvtb.toMat_identity]
  | succ n ih =>
    rw [C12.Impl.Generic.loop, C02.Tvtb.bind_matrix_form, ih, pow_succ]
    simp only [Matrix.smul_mul, Matrix.mul_smul, smul_smul, mul_comm]

/-- on the TVTB operations the default is the TVTB power, for every integer exponent -/
theorem tvtb_eq_power {m : ℕ} (s sinv : R) (hs : s * sinv = 1) (v : Vec2 m R) (n : ℤ) :
    C12.Impl.Generic.power (Alg.Tvtb.Impl.bind s) (some (Alg.Tvtb.Impl.identity m sinv)) Alg.Tvtb.Impl.invert v (n : ℚ)
      = .value (C12.Impl.Tvtb.intPower s sinv v n) := by
  have hnum : ((n : ℚ)).num = n := Rat.num_intCast n
  have hf : isFractional (n : ℚ) = false := by simp [isFractional]
  unfold C12.Impl.Generic.power
  simp only [hf, Bool.false_eq_true, if_false, hnum]
  congr 1
  apply toMat_injective
  by_cases hn : n < 0
  · simp only [if_pos hn, C12.Impl.Tvtb.intPower]
    rw [C12.Tvtb.toMat_invert, tvtb_loop s sinv hs, toMat_ofMat, matPowLoop_eq_pow,
      C12.Tvtb.toMat_invert, transpose_smul, transpose_pow, transpose_smul]
  · simp only [if_neg hn, C12.Impl.Tvtb.intPower]
    rw [tvtb_loop s sinv hs, toMat_ofMat, matPowLoop_eq_pow]

end Generic

/-! ### VTB / TVTB `make_unitary` -/
namespace Mat
open C12.Spec C12.Spec.Mat C12.Impl C12.Impl.MU

variable {m : ℕ}

theorem sum_split (i : Fin m) (f : Fin m → R) :
    (∑ c with c < i, f c) + (∑ c with i ≤ c, f c) = ∑ c, f c := by
  have := Finset.sum_filter_add_sum_filter_not (Finset.univ : Finset (Fin m)) (fun c => c < i) f
  simpa only [not_lt] using this

/-- after the pass for row `i`, row `i` is orthogonal to every earlier row -/
theorem step_orthogonal (i : Fin m) (M M' : Matrix (Fin m) (Fin m) R) (h : Step i M M')
    (r : Fin m) (hr : r < i) : ∑ c, M' r c * M' i c = 0 := by
  obtain ⟨hkeep, hsolve⟩ := h
  have hr' : r ≠ i := ne_of_lt hr
  have e1 : ∀ c, M' r c = M r c := fun c => hkeep r c (Or.inl hr')
  rw [← sum_split i]
  have a1 : (∑ c with c < i, M' r c * M' i c) = ∑ c with c < i, M r c * M' i c :=
    Finset.sum_congr rfl fun c _ => by rw [e1]
  have a2 : (∑ c with i ≤ c, M' r c * M' i c) = ∑ c with i ≤ c, M r c * M i c :=
    Finset.sum_congr rfl fun c hc => by
      rw [e1, hkeep i c (Or.inr (Finset.mem_filter.mp hc).2)]
  rw [a1, a2, hsolve r hr]
  ring

/-- **loop invariant**: before row `j` is processed, all rows `< j` are mutually orthogonal -/
theorem reach_rows_orthogonal (M0 : Matrix (Fin m) (Fin m) R) (j : ℕ) (M : Matrix (Fin m) (Fin m) R)
    (h : Reach M0 j M) :
    ∀ r r' : Fin m, r.val < j → r'.val < j → r ≠ r' → ∑ c, M r c * M r' c = 0 := by
  induction h with
  | start =>
    intro r r' hr hr' hne
    exact absurd (Fin.ext (by omega)) hne
  | @step i M M' hi hreach hstep ih =>
    intro r r' hr hr' hne
    have hkeep := hstep.1
    by_cases h1 : r.val = i
    · have hri : r = ⟨i, hi⟩ := Fin.ext h1
      have h2 : r' < (⟨i, hi⟩ : Fin m) := by
        have : r'.val ≠ i := fun e => hne (Fin.ext (by omega))
        exact Fin.lt_def.mpr (by simp; omega)
      have := step_orthogonal ⟨i, hi⟩ M M' hstep r' h2
      rw [hri]
      rw [← this]
      exact Finset.sum_congr rfl fun c _ => mul_comm _ _
    · by_cases h2 : r'.val = i
      · have hri : r' = ⟨i, hi⟩ := Fin.ext h2
        have h3 : r < (⟨i, hi⟩ : Fin m) := Fin.lt_def.mpr (by simp; omega)
        rw [hri]
        exact step_orthogonal ⟨i, hi⟩ M M' hstep r h3
      · have n1 : r ≠ ⟨i, hi⟩ := fun e => h1 (by rw [e])
        have n2 : r' ≠ ⟨i, hi⟩ := fun e => h2 (by rw [e])
        have := ih r r' (by omega) (by omega) hne
        rw [← this]
        exact Finset.sum_congr rfl fun c _ => by
          rw [hkeep r c (Or.inl n1), hkeep r' c (Or.inl n2)]

/-- **make_unitary (VTB and TVTB): the rows of the result of the row loop are mutually orthogonal**,
given only the post-condition of `np.linalg.solve` -/
theorem makeUnitary_rows_orthogonal (M0 M : Matrix (Fin m) (Fin m) R) (j : ℕ) (hj : m ≤ j)
    (h : Reach M0 j M) (r r' : Fin m) (hne : r ≠ r') : ∑ c, M r c * M r' c = 0 :=
  reach_rows_orthogonal M0 j M h r r' (by omega) (by omega) hne

/-- **make_unitary yields a unitary vector**: after the row normalisation and the scaling by
`1/sqrt(sub_d)`, `m • (U Uᵀ) = 1`, for every input on which `solve` and the division succeed -/
theorem makeUnitary_isUnitary (s sinv : R) (hs : s * sinv = 1) (v u : Vec2 m R)
    (h : MakeUnitary sinv v u) : IsUnitary s u := by
  obtain ⟨M, j, nrm, ninv, hj, hreach, hn, hni, rfl⟩ := h
  unfold IsUnitary
  ext r r'
  simp only [Matrix.smul_apply, mul_apply, transpose_apply, toMat, of_apply, scale, smul_eq_mul]
  have e : ∀ c, M r c * ninv r * sinv * (M r' c * ninv r' * sinv) =
      (sinv * sinv * ninv r * ninv r') * (M r c * M r' c) := fun c => by ring
  simp only [e, ← Finset.mul_sum]
  by_cases hrr : r = r'
  · subst hrr
    rw [← hn r, Matrix.one_apply_eq]
    calc s * s * (sinv * sinv * ninv r * ninv r * (nrm r * nrm r))
        = (s * sinv) * (s * sinv) * ((nrm r * ninv r) * (nrm r * ninv r)) := by ring
      _ = 1 := by rw [hs, hni]; ring
  · rw [makeUnitary_rows_orthogonal _ M j hj hreach r r' hrr, Matrix.one_apply_ne hrr]
    ring

/-- the executable run used by the driver is an instance of the loop relation -/
theorem stepFn_step [DecidableEq R] (cand : Matrix (Fin m) (Fin m) R → Fin m → Option (Fin m → R))
    (i : Fin m) (M M' : Matrix (Fin m) (Fin m) R) (h : stepFn cand i M = some M') : Step i M M' := by
  unfold stepFn at h
  split at h
  · cases h
  · next x hx =>
    simp only at h
    split at h
    · next hcheck =>
      injection h with h
      subst h
      refine ⟨?_, hcheck⟩
      intro r c hrc
      simp only [writeRow, of_apply]
      rw [if_neg]
      rintro ⟨h1, h2⟩
      rcases hrc with h3 | h3
      · exact h3 h1
      · exact absurd h2 (not_lt.mpr h3)
    · cases h

theorem runList_reach [DecidableEq R] (cand : Matrix (Fin m) (Fin m) R → Fin m → Option (Fin m → R))
    (M0 : Matrix (Fin m) (Fin m) R) (n : ℕ) :
    ∀ (a : ℕ) (M M' : Matrix (Fin m) (Fin m) R), Reach M0 a M →
      runList cand (List.range' a n) M = some M' → Reach M0 (a + n) M' := by
  induction n with
  | zero =>
    intro a M M' hr h
    simp only [List.range'_zero, runList] at h
    injection h with h
    subst h
    exact hr
  | succ n ih =>
    intro a M M' hr h
    rw [List.range'_succ, runList] at h
    split at h
    · next hlt =>
      split at h
      · cases h
      · next M1 h1 =>
        have := ih (a + 1) M1 M' (Reach.step hlt hr (stepFn_step cand _ _ _ h1)) h
        have e : a + (n + 1) = a + 1 + n := by omega
        rw [e]; exact this
    · cases h

/-- whatever the driver's `run` returns (with any candidate function) is a final state of the loop -/
theorem run_reach [DecidableEq R] (cand : Matrix (Fin m) (Fin m) R → Fin m → Option (Fin m → R))
    (M0 M : Matrix (Fin m) (Fin m) R) (h : run cand M0 = some M) :
    ∃ j, m ≤ j ∧ Reach M0 j M :=
  ⟨1 + (m - 1), by omega, runList_reach cand M0 (m - 1) 1 M0 M Reach.start h⟩

/-! #### idempotence -/

/-- the leading `i×i` block `m[:i, :i]` is non-singular (as a linear map it is injective):
exactly the situation in which `np.linalg.solve` returns -/
def LeadingInj (M : Matrix (Fin m) (Fin m) R) (i : Fin m) : Prop :=
  ∀ x x' : Fin m → R, (∀ r, r < i → (∑ c with c < i, M r c * x c) = ∑ c with c < i, M r c * x' c) →
    ∀ c, c < i → x c = x' c

/-- if row `i` is already orthogonal to the earlier rows and the leading block is non-singular,
the pass for row `i` changes nothing -/
theorem step_fixed (i : Fin m) (M M' : Matrix (Fin m) (Fin m) R) (h : Step i M M')
    (horth : ∀ r, r < i → ∑ c, M r c * M i c = 0) (hinj : LeadingInj M i) : M' = M := by
  obtain ⟨hkeep, hsolve⟩ := h
  ext r c
  by_cases hrc : r ≠ i ∨ i ≤ c
  · exact hkeep r c hrc
  · have hri : r = i := by
      by_contra hne; exact hrc (Or.inl hne)
    have hc : c < i := by
      by_contra hge; exact hrc (Or.inr (not_lt.mp hge))
    subst hri
    refine hinj (M' r) (M r) ?_ c hc
    intro r' hr'
    rw [hsolve r' hr']
    have := sum_split r (fun c => M r' c * M r c)
    rw [horth r' hr'] at this
    linear_combination -this

theorem reach_fixed (V : Matrix (Fin m) (Fin m) R)
    (horth : ∀ r r' : Fin m, r ≠ r' → ∑ c, V r c * V r' c = 0)
    (hinj : ∀ i, LeadingInj V i) (j : ℕ) (M : Matrix (Fin m) (Fin m) R) (h : Reach V j M) : M = V := by
  induction h with
  | start => rfl
  | @step i M M' hi _ hstep ih =>
    subst ih
    exact step_fixed ⟨i, hi⟩ M M' hstep (fun r hr => horth r _ (ne_of_lt hr)) (hinj _)

/-- **make_unitary is idempotent**: on an already unitary input (`m•(V Vᵀ) = 1`) whose leading
blocks are non-singular (otherwise `solve` raises), with `norm` returning the non-negative root,
the result is the input itself.  (Ordered field: "non-negative root" has to make sense.) -/
theorem makeUnitary_idempotent {K : Type*} [Field K] [LinearOrder K] [IsStrictOrderedRing K]
    (s sinv : K) (hs : s * sinv = 1) (hpos : 0 < sinv) (v : Vec2 m K) (hv : IsUnitary s v)
    (hinj : ∀ i, LeadingInj (toMat v) i)
    (M : Matrix (Fin m) (Fin m) K) (j : ℕ) (nrm ninv : Fin m → K) (hreach : Reach (toMat v) j M)
    (hn : ∀ r, nrm r * nrm r = ∑ c, M r c * M r c) (hn0 : ∀ r, 0 ≤ nrm r)
    (hni : ∀ r, nrm r * ninv r = 1) :
    scale sinv ninv M = v := by
  have hent : ∀ r r' : Fin m, (s * s) * ∑ c, toMat v r c * toMat v r' c = if r = r' then 1 else 0 := by
    intro r r'
    have := congrFun (congrFun hv r) r'
    simpa only [Matrix.smul_apply, mul_apply, transpose_apply, smul_eq_mul, Matrix.one_apply] using this
  have hs0 : s ≠ 0 := fun h => by rw [h, zero_mul] at hs; exact zero_ne_one hs
  have horth : ∀ r r' : Fin m, r ≠ r' → ∑ c, toMat v r c * toMat v r' c = 0 := by
    intro r r' hne
    have := hent r r'
    rw [if_neg hne] at this
    rcases mul_eq_zero.mp this with h | h
    · exact absurd (mul_self_eq_zero.mp h) hs0
    · exact h
  have hM : M = toMat v := reach_fixed (toMat v) horth hinj j M hreach
  subst hM
  funext p
  obtain ⟨r, c⟩ := p
  have hrr := hent r r
  rw [if_pos rfl, ← hn r] at hrr
  -- nrm r = sinv
  have h1 : nrm r * nrm r = sinv * sinv := by
    have : (s * sinv) * (s * sinv) * (nrm r * nrm r) = sinv * sinv * (s * s * (nrm r * nrm r)) := by ring
    rw [hs, hrr] at this
    linear_combination this
  have h2 : nrm r = sinv := by
    rcases mul_self_eq_mul_self_iff.mp h1 with h | h
    · exact h
    · have := hn0 r; linarith
  have h3 : ninv r = s := by
    calc ninv r = ninv r * (s * sinv) := by rw [hs, mul_one]
      _ = (sinv * ninv r) * s := by ring
      _ = s := by rw [← h2, hni, one_mul]
  simp only [scale, h3, toMat, of_apply]
  calc v (r, c) * s * sinv = v (r, c) * (s * sinv) := by ring
    _ = v (r, c) := by rw [hs, mul_one]

end Mat

/-! ### non-vacuity: the hypotheses are satisfiable by concrete non-trivial vectors -/

/-- HRR: the shift `(0,1,0)` is unitary and not the identity -/
example : Spec.Hrr.IsUnitary (k := 2) (fun i : Fin 3 => if i = 1 then (1 : ℤ) else 0) := by
  unfold Spec.Hrr.IsUnitary; decide

/-- VTB/TVTB over ℚ with `m = 4`, `s = 2`: half a signed permutation matrix is unitary -/
example : Spec.Mat.IsUnitary (m := 4) (2 : ℚ)
    (fun p => if p.1 + 1 = p.2 then 1 / 2 else if p.1 = 3 ∧ p.2 = 0 then -1 / 2 else 0) := by
  unfold Spec.Mat.IsUnitary
  ext i j
  fin_cases i <;> fin_cases j <;>
    simp [Matrix.mul_apply, Fin.sum_univ_four, toMat] <;> norm_num

/-- a run of the row loop exists for `[[1,2],[3,4]]`: the solved entry is `-8` (`1·x = -(2·4)`) -/
example : Impl.MU.Reach (m := 2) !![(1 : ℚ), 2; 3, 4] 2 !![1, 2; -8, 4] := by
  refine Impl.MU.Reach.step (i := 1) (by norm_num) Impl.MU.Reach.start ⟨?_, ?_⟩
  · intro r c h
    fin_cases r <;> fin_cases c <;> simp_all
  · intro r hr
    fin_cases r
    · simp [Finset.sum_filter, Fin.sum_univ_two]; norm_num
    · exact absurd hr (by decide)

/-!
### Spectral stage

`Hrr.makeUnitary_isUnitary : ∀ v, IsUnitary (make_unitary v)` and
`Hrr.fractional_power_add : ∀ v of positive sign, ∀ a b ≥ 0 real, v^a ⊛ v^b = v^(a+b)` are statements
about the spectrum.  They are proved, for every dimensionality and every real vector, in
`SpaModel/Props/C12S.lean` (`C12.HrrFFT.makeUnitary_fft_isUnitary`, `power_fft_add`) on the
half-spectrum model of NumPy's `rfft`/`irfft` (`SpaModel/Spectral/*.lean`), together with
`power_fft_int` (the FFT path of integer powers IS the `zpow` modelled above) and `bind_fft_eq`
(the FFT path of `bind` IS circular convolution).  In this file `make_unitary` (HRR) and fractional
powers stay `PowRes.spectral` / uninterpreted, because the executable driver cannot compute them;
the correspondence check evaluates the spectral definitions numerically instead (`spectral_tie`)
and keeps the per-input residual certificates as the oracle on the implementation's outputs.
-/

end C12

/-
C13 — Translation and reinterpretation between vocabularies preserve keyed content.
Property theorems only (model: SpaModel/Basic/C13.lean, normal forms: SpaModel/Lemmas/C13.lean).

Everything is for an arbitrary commutative ring `R` (with an arbitrary decidable
`<` for the similarity test of `create_pointer`), arbitrary dimensionalities
`d1`, `d2`, arbitrary well-formed vocabularies (`Spec.WF`: distinct valid keys —
the invariant `add` maintains, `wf_empty`/`wf_of_add`), arbitrary requested key
lists (any length, duplicates, keys the source lacks), every populate mode, with
and without solver, and an arbitrary enumeration order of the three Python sets
involved (`SetOrder`, each a permutation: `OrdOK`).  The one assumption about
CPython that the outer-product formula needs is stated explicitly: `Paired`
(the two separately computed `keys - missing_keys` sets are iterated in the
same order).  `pairing_needed` shows it cannot be dropped.
-/
import SpaModel.Lemmas.C13
import Mathlib.Algebra.Order.BigOperators.Ring.Finset
import Mathlib.Algebra.Order.Field.Basic
import Mathlib.LinearAlgebra.Basis.VectorSpace
import Mathlib.LinearAlgebra.Finsupp.LinearCombination

set_option linter.unusedSectionVars false
set_option linter.unusedSimpArgs false

namespace C13
open Impl

/-- every enumeration of a set lists exactly its elements -/
structure OrdOK (ord : SetOrder) : Prop where
  missing : ∀ l, (ord.missing l).Perm l
  usedFrom : ∀ l, (ord.usedFrom l).Perm l
  usedTo : ∀ l, (ord.usedTo l).Perm l

/-- the two `keys - missing_keys` sets (equal sets, built the same way from the
same operands) are iterated in the same order -/
def Paired (ord : SetOrder) : Prop := ∀ l, ord.usedFrom l = ord.usedTo l

/-- the solver's post-condition on the rows it was given: `A · X = B` row by row -/
def SolvesExactly {R : Type} [CommRing R] {d1 d2 : Nat} (A : List (Vec R d1)) (B : List (Vec R d2))
    (X : Mat R d1 d2) : Prop :=
  ∀ p ∈ A.zip B, ∀ i, ∑ j, p.1 j * X j i = p.2 i

section
variable {R : Type} [CommRing R] [LT R] [DecidableLT R] {d1 d2 : Nat}

/-! ### bridges to Mathlib's sums and matrices -/

theorem dot_eq_sum {d} (a b : Vec R d) : dot a b = ∑ i, a i * b i := by
  rw [dot, Fin.sum_univ_def]

theorem mulVec_eq_sum {m n} (t : Mat R m n) (v : Vec R n) (i : Fin m) :
    mulVec t v i = ∑ j, t i j * v j := dot_eq_sum _ _

/-- the model's `np.dot(tr, v)` is Mathlib's matrix–vector product -/
theorem mulVec_eq_matrix {m n} (t : Mat R m n) (v : Vec R n) :
    mulVec t v = Matrix.mulVec (Matrix.of t) v := by
  funext i; rw [mulVec_eq_sum]; rfl

theorem outerSum_eq_finset (src : Vocab R d1) (tgt : Vocab R d2) {ks : List Key} (h : ks.Nodup)
    (i : Fin d2) (j : Fin d1) :
    Spec.outerSum src tgt ks i j = ∑ k ∈ ks.toFinset, tgt.vec k i * src.vec k j := by
  rw [Spec.outerSum, List.sum_toFinset _ h]

/-! ### well-formedness is the invariant of `add` -/

theorem wf_empty (id : Nat) (strict : Bool) (ms : R) (alg gen : Nat) {d} :
    Spec.WF ({ id := id, entries := [], strict := strict, maxSim := ms, algebra := alg, gen := gen } : Vocab R d) :=
  ⟨List.nodup_nil, by simp [Vocab.keys]⟩

theorem wf_of_add {d} {v v' : Vocab R d} {k : Key} {p : Ptr R d} (hw : Spec.WF v)
    (h : add v k p = .ok v') : Spec.WF v' := wf_add hw h

/-! ### which keys are used -/

theorem mem_usedKeys {src : Vocab R d1} {tgt : Vocab R d2} {req : Option (List Key)} {k : Key} :
    k ∈ Spec.usedKeys src tgt req ↔ k ∈ req.getD src.keys ∧ k ∈ src.keys ∧ k ∈ tgt.keys := by
  simp [Spec.usedKeys, List.mem_filter, mem_dedup, hasKey_iff, and_assoc]

theorem usedKeys_nodup (src : Vocab R d1) (tgt : Vocab R d2) (req : Option (List Key)) :
    (Spec.usedKeys src tgt req).Nodup := (nodup_dedup _).filter _

/-- as a set: requested ∩ source ∩ target -/
theorem usedKeys_toFinset (src : Vocab R d1) (tgt : Vocab R d2) (req : List Key) :
    (Spec.usedKeys src tgt (some req)).toFinset = req.toFinset ∩ src.keys.toFinset ∩ tgt.keys.toFinset := by
  ext k
  simp [mem_usedKeys, and_assoc]

/-- The keys the code ends up using (`keys - missing_keys` after the populate
block) are exactly requested ∩ source ∩ (target afterwards). -/
theorem used_eq_usedKeys {src : Vocab R d1} {tgt t1 : Vocab R d2} (hws : Spec.WF src)
    {pop : Populate} {keys : Option (List Key)} {ord : SetOrder} (ho : OrdOK ord)
    {ts s1 : List (Vec R d2)} {m1 : List Key} {w sw : Bool}
    (h : populateStep tgt pop (missingKeys src tgt keys) ord ts = .ok (t1, s1, m1, w, sw)) :
    ((requestedKeys src keys).filter fun k => !m1.contains k) = Spec.usedKeys src t1 keys := by
  unfold Spec.usedKeys
  show List.filter _ (requestedKeys src keys) = List.filter _ (requestedKeys src keys)
  apply List.filter_congr
  intro k hk
  rcases populateStep_cases h with ⟨rfl, _, rfl, _, _, _⟩ | ⟨_, _, rfl, _, vs, hl, rfl, _, _, _, _⟩
  · by_cases hc : k ∈ t1.keys
    · have : k ∉ missingKeys src t1 keys := fun hm => ((mem_missingKeys hws).mp hm).2 hc
      simp [this, hasKey_iff.mpr hc]
    · have : k ∈ missingKeys src t1 keys := (mem_missingKeys hws).mpr ⟨hk, hc⟩
      have h2 : t1.hasKey k = false := by
        cases h' : t1.hasKey k
        · rfl
        · exact absurd (hasKey_iff.mp h') hc
      simp [this, h2]
  · have : k ∈ ({ tgt with entries := tgt.entries ++ (ord.missing (missingKeys src tgt keys)).zip vs } : Vocab R d2).keys := by
      rw [keys_append_zip tgt _ vs hl]
      by_cases hc : k ∈ tgt.keys
      · exact List.mem_append.mpr (Or.inl hc)
      · exact List.mem_append.mpr (Or.inr ((ho.missing _).mem_iff.mpr ((mem_missingKeys hws).mpr ⟨hk, hc⟩)))
    simp [hasKey_iff.mpr this]

/-! ### the transform -/

/-- `transform_to` never raises unless `populate=True` (then only the populate
call can: an exhausted generator). -/
theorem transformTo_total (src : Vocab R d1) (tgt : Vocab R d2) (hws : Spec.WF src)
    (hwt : Spec.WF tgt) (pop : Populate) (hp : pop ≠ .yes) (keys : Option (List Key))
    (solver : Option (Solver R d1 d2)) (ord : SetOrder) (ho : OrdOK ord) (f1 f2 : Nat)
    (ss : List (Vec R d1)) (ts : List (Vec R d2)) :
    ∃ r, transformTo src tgt pop keys solver ord f1 f2 ss ts = .ok r := by
  rw [transformTo_eq src tgt hws hwt pop keys solver ord f1 f2 ss ts ho.usedFrom ho.usedTo ho.missing]
  unfold populateStep
  split
  · exact ⟨_, rfl⟩
  · cases pop with
    | yes => exact absurd rfl hp
    | no => exact ⟨_, rfl⟩
    | unspecified => exact ⟨_, rfl⟩

/-- **source_unchanged.**  For every populate mode, every requested key list —
including keys the source does not have — strict or non-strict source, with or
without solver: the source vocabulary and its pointer generator are exactly as
before. -/
theorem source_unchanged {src : Vocab R d1} {tgt : Vocab R d2} (hws : Spec.WF src)
    (hwt : Spec.WF tgt) {pop : Populate} {keys : Option (List Key)}
    {solver : Option (Solver R d1 d2)} {ord : SetOrder} (ho : OrdOK ord) {f1 f2 : Nat}
    {ss : List (Vec R d1)} {ts : List (Vec R d2)} {r : TResult R d1 d2}
    (h : transformTo src tgt pop keys solver ord f1 f2 ss ts = .ok r) :
    r.src = src ∧ r.srcStream = ss := by
  rw [transformTo_eq src tgt hws hwt pop keys solver ord f1 f2 ss ts ho.usedFrom ho.usedTo ho.missing] at h
  cases hp : populateStep tgt pop (missingKeys src tgt keys) ord ts with
  | error e => rw [hp] at h; cases h
  | ok x => rw [hp] at h; simp only [Except.map, Except.ok.injEq] at h; subst h; exact ⟨rfl, rfl⟩

/-- the matrix in terms of the final target: rows listed in the two iteration orders -/
theorem transform_rows {src : Vocab R d1} {tgt : Vocab R d2} (hws : Spec.WF src)
    (hwt : Spec.WF tgt) {pop : Populate} {keys : Option (List Key)}
    {solver : Option (Solver R d1 d2)} {ord : SetOrder} (ho : OrdOK ord) {f1 f2 : Nat}
    {ss : List (Vec R d1)} {ts : List (Vec R d2)} {r : TResult R d1 d2}
    (h : transformTo src tgt pop keys solver ord f1 f2 ss ts = .ok r) :
    r.T = combine solver ((ord.usedTo (Spec.usedKeys src r.tgt keys)).map r.tgt.vec)
            ((ord.usedFrom (Spec.usedKeys src r.tgt keys)).map src.vec) := by
  rw [transformTo_eq src tgt hws hwt pop keys solver ord f1 f2 ss ts ho.usedFrom ho.usedTo ho.missing] at h
  cases hp : populateStep tgt pop (missingKeys src tgt keys) ord ts with
  | error e => rw [hp] at h; cases h
  | ok x =>
    rcases x with ⟨t1, s1, m1, w, sw⟩
    rw [hp] at h
    simp only [Except.map, Except.ok.injEq] at h
    subst h
    simp only [used_eq_usedKeys hws ho hp]

theorem outer_map_paired (f : Key → Vec R d2) (g : Key → Vec R d1) (e : List Key) (i : Fin d2)
    (j : Fin d1) : outer (e.map f) (e.map g) i j = (e.map fun k => f k i * g k j).sum := by
  unfold outer
  congr 1
  induction e with
  | nil => rfl
  | cons a as ih => simp [ih]

/-- **transform_eq_outer_sum.**  Without solver the transform is
`Σ_{k ∈ requested ∩ source ∩ target} to_k ⊗ from_k` (entrywise
`T i j = Σ_k to_k i * from_k j`), the target being the one after the call. -/
theorem transform_eq_outer_sum {src : Vocab R d1} {tgt : Vocab R d2} (hws : Spec.WF src)
    (hwt : Spec.WF tgt) {pop : Populate} {keys : Option (List Key)} {ord : SetOrder}
    (ho : OrdOK ord) (hpair : Paired ord) {f1 f2 : Nat} {ss : List (Vec R d1)}
    {ts : List (Vec R d2)} {r : TResult R d1 d2}
    (h : transformTo src tgt pop keys none ord f1 f2 ss ts = .ok r) :
    r.T = Spec.outerSum src r.tgt (Spec.usedKeys src r.tgt keys) := by
  rw [transform_rows hws hwt ho h]
  funext i j
  simp only [combine]
  rw [hpair, outer_map_paired, Spec.outerSum]
  exact ((ho.usedTo _).map _).sum_eq

/-- the same as a sum over the finite set requested ∩ source ∩ target -/
theorem transform_eq_finset_sum {src : Vocab R d1} {tgt : Vocab R d2} (hws : Spec.WF src)
    (hwt : Spec.WF tgt) {pop : Populate} {req : List Key} {ord : SetOrder}
    (ho : OrdOK ord) (hpair : Paired ord) {f1 f2 : Nat} {ss : List (Vec R d1)}
    {ts : List (Vec R d2)} {r : TResult R d1 d2}
    (h : transformTo src tgt pop (some req) none ord f1 f2 ss ts = .ok r) (i : Fin d2) (j : Fin d1) :
    r.T i j = ∑ k ∈ req.toFinset ∩ src.keys.toFinset ∩ r.tgt.keys.toFinset,
      r.tgt.vec k i * src.vec k j := by
  rw [transform_eq_outer_sum hws hwt ho hpair h, outerSum_eq_finset _ _ (usedKeys_nodup _ _ _),
    usedKeys_toFinset]

/-- the outer-product sum maps an entry that is orthonormal to the other used
source entries exactly onto its namesake -/
theorem outerSum_mulVec_orthonormal (src : Vocab R d1) (tgt : Vocab R d2) {ks : List Key}
    (hnd : ks.Nodup)
    (horth : ∀ k ∈ ks, ∀ k' ∈ ks, ∑ j, src.vec k j * src.vec k' j = if k = k' then 1 else 0)
    {k : Key} (hk : k ∈ ks) : mulVec (Spec.outerSum src tgt ks) (src.vec k) = tgt.vec k := by
  funext i
  rw [mulVec_eq_sum]
  simp only [outerSum_eq_finset src tgt hnd]
  calc ∑ j, (∑ k' ∈ ks.toFinset, tgt.vec k' i * src.vec k' j) * src.vec k j
      = ∑ k' ∈ ks.toFinset, tgt.vec k' i * ∑ j, src.vec k' j * src.vec k j := by
        simp only [Finset.sum_mul, Finset.mul_sum, mul_assoc]
        rw [Finset.sum_comm]
    _ = ∑ k' ∈ ks.toFinset, tgt.vec k' i * (if k' = k then 1 else 0) := by
        apply Finset.sum_congr rfl
        intro k' hk'
        rw [horth k' (List.mem_toFinset.mp hk') k hk]
    _ = tgt.vec k i := by
        simp [Finset.sum_ite_eq', List.mem_toFinset.mpr hk]

/-- **orthonormal_exact.**  If the used source entries are orthonormal, the
transform maps each of them exactly onto the target entry of the same name. -/
theorem orthonormal_exact {src : Vocab R d1} {tgt : Vocab R d2} (hws : Spec.WF src)
    (hwt : Spec.WF tgt) {pop : Populate} {keys : Option (List Key)} {ord : SetOrder}
    (ho : OrdOK ord) (hpair : Paired ord) {f1 f2 : Nat} {ss : List (Vec R d1)}
    {ts : List (Vec R d2)} {r : TResult R d1 d2}
    (h : transformTo src tgt pop keys none ord f1 f2 ss ts = .ok r)
    (horth : ∀ k ∈ Spec.usedKeys src r.tgt keys, ∀ k' ∈ Spec.usedKeys src r.tgt keys,
      dot (src.vec k) (src.vec k') = if k = k' then 1 else 0)
    {k : Key} (hk : k ∈ Spec.usedKeys src r.tgt keys) :
    mulVec r.T (src.vec k) = r.tgt.vec k := by
  rw [transform_eq_outer_sum hws hwt ho hpair h]
  apply outerSum_mulVec_orthonormal src r.tgt (usedKeys_nodup _ _ _) _ hk
  intro a ha b hb
  rw [← dot_eq_sum]; exact horth a ha b hb

/-- **lstsq_exact.**  With a solver the result is `solver(from, to)[0].T`; whenever the
solver's output solves `from · X = to` exactly on the rows it was given (what a
least-squares solver returns for linearly independent source entries: NumPy is
trusted, see `exact_solution_of_minimizer`), every used source entry is mapped
exactly onto its namesake. -/
theorem lstsq_exact {src : Vocab R d1} {tgt : Vocab R d2} (hws : Spec.WF src)
    (hwt : Spec.WF tgt) {pop : Populate} {keys : Option (List Key)} {ord : SetOrder}
    (ho : OrdOK ord) (hpair : Paired ord) {f1 f2 : Nat} {ss : List (Vec R d1)}
    {ts : List (Vec R d2)} {r : TResult R d1 d2} (s : Solver R d1 d2)
    (h : transformTo src tgt pop keys (some s) ord f1 f2 ss ts = .ok r)
    (hpost : ∀ A B, A = (ord.usedFrom (Spec.usedKeys src r.tgt keys)).map src.vec →
      B = (ord.usedTo (Spec.usedKeys src r.tgt keys)).map r.tgt.vec → SolvesExactly A B (s A B))
    {k : Key} (hk : k ∈ Spec.usedKeys src r.tgt keys) :
    mulVec r.T (src.vec k) = r.tgt.vec k := by
  have hT := transform_rows hws hwt ho h
  have hp := hpost _ _ rfl rfl
  funext i
  rw [mulVec_eq_sum, hT]
  simp only [combine, transpose]
  have hmem : (src.vec k, r.tgt.vec k) ∈
      ((ord.usedFrom (Spec.usedKeys src r.tgt keys)).map src.vec).zip
        ((ord.usedTo (Spec.usedKeys src r.tgt keys)).map r.tgt.vec) := by
    rw [hpair, List.zip_map', List.mem_map]
    exact ⟨k, (ho.usedTo _).mem_iff.mpr hk, rfl⟩
  have := hp _ hmem i
  simp only at this
  rw [← this]
  exact Finset.sum_congr rfl fun j _ => mul_comm _ _

/-- **only_requested_keys.**  The transform depends only on the entries stored
under the requested keys: two sources and two targets that agree on the
requested keys (everything else arbitrary, including which other keys exist)
give the same matrix — with or without solver. -/
theorem only_requested_keys {src src' : Vocab R d1} {tgt tgt' : Vocab R d2}
    (hws : Spec.WF src) (hws' : Spec.WF src') (hwt : Spec.WF tgt) (hwt' : Spec.WF tgt')
    {pop : Populate} (hp : pop ≠ .yes) {req : List Key} {solver : Option (Solver R d1 d2)}
    {ord : SetOrder} (ho : OrdOK ord) {f1 f2 f1' f2' : Nat} {ss ss' : List (Vec R d1)}
    {ts ts' : List (Vec R d2)} {r r' : TResult R d1 d2}
    (hsrc : ∀ k ∈ req, src.lookup k = src'.lookup k) (htgt : ∀ k ∈ req, tgt.lookup k = tgt'.lookup k)
    (h : transformTo src tgt pop (some req) solver ord f1 f2 ss ts = .ok r)
    (h' : transformTo src' tgt' pop (some req) solver ord f1' f2' ss' ts' = .ok r') :
    r.T = r'.T := by
  have key : ∀ {d} (a b : Vocab R d), Spec.WF a → Spec.WF b → ∀ k, a.lookup k = b.lookup k →
      (a.hasKey k = b.hasKey k ∧ a.vec k = b.vec k) := by
    intro d a b _ _ k hl
    refine ⟨?_, by simp [Vocab.vec, hl]⟩
    cases ha : a.hasKey k <;> cases hb : b.hasKey k <;> try rfl
    · obtain ⟨x, hx⟩ := lookup_isSome_of_mem (hasKey_iff.mp hb)
      rw [← hl] at hx
      exfalso
      have : k ∉ a.keys := fun hm => by rw [hasKey_iff.mpr hm] at ha; cases ha
      exact this (by
        unfold Vocab.lookup at hx
        unfold Vocab.keys
        have := mem_of_lookup hx  -- (k, x) ∈ entries
        exact List.mem_map.mpr ⟨_, this, rfl⟩)
    · obtain ⟨x, hx⟩ := lookup_isSome_of_mem (hasKey_iff.mp ha)
      rw [hl] at hx
      exfalso
      have : k ∉ b.keys := fun hm => by rw [hasKey_iff.mpr hm] at hb; cases hb
      exact this (by
        unfold Vocab.lookup at hx
        unfold Vocab.keys
        have := mem_of_lookup hx
        exact List.mem_map.mpr ⟨_, this, rfl⟩)
  have hsame : ∀ (t : TResult R d1 d2) (a : Vocab R d1) (b : Vocab R d2) g1 g2 s1 s2,
      Spec.WF a → Spec.WF b →
      transformTo a b pop (some req) solver ord g1 g2 s1 s2 = .ok t → t.tgt = b := by
    intro t a b g1 g2 s1 s2 hwa hwb ht
    rw [transformTo_eq a b hwa hwb pop _ solver ord g1 g2 s1 s2 ho.usedFrom ho.usedTo ho.missing] at ht
    cases hq : populateStep b pop (missingKeys a b (some req)) ord s2 with
    | error e => rw [hq] at ht; cases ht
    | ok x =>
      rcases x with ⟨t1, u1, m1, w, sw⟩
      rw [hq] at ht
      simp only [Except.map, Except.ok.injEq] at ht
      subst ht
      rcases populateStep_cases hq with ⟨rfl, _⟩ | ⟨_, hy, _⟩
      · rfl
      · exact absurd hy hp
  rw [transform_rows hws hwt ho h, transform_rows hws' hwt' ho h', hsame r _ _ _ _ _ _ hws hwt h,
    hsame r' _ _ _ _ _ _ hws' hwt' h']
  have hU : Spec.usedKeys src tgt (some req) = Spec.usedKeys src' tgt' (some req) := by
    unfold Spec.usedKeys
    simp only [Option.getD_some]
    have e1 : req.filter src.hasKey = req.filter src'.hasKey :=
      List.filter_congr fun k hk => (key src src' hws hws' k (hsrc k hk)).1
    rw [e1]
    apply List.filter_congr
    intro k hk
    have : k ∈ req := (List.mem_filter.mp (mem_dedup.mp hk)).1
    exact (key tgt tgt' hwt hwt' k (htgt k this)).1
  rw [← hU]
  have hreq : ∀ k ∈ Spec.usedKeys src tgt (some req), k ∈ req := fun k hk => (mem_usedKeys.mp hk).1
  congr 1
  · apply List.map_congr_left
    intro k hk
    exact (key tgt tgt' hwt hwt' k (htgt k (hreq k ((ho.usedTo _).mem_iff.mp hk)))).2
  · apply List.map_congr_left
    intro k hk
    exact (key src src' hws hws' k (hsrc k (hreq k ((ho.usedFrom _).mem_iff.mp hk)))).2

/-! ### populate modes -/

/-- **populate_modes, `populate=False`:** missing keys are ignored silently; the
target and its generator are untouched. -/
theorem populate_false {src : Vocab R d1} {tgt : Vocab R d2} (hws : Spec.WF src)
    (hwt : Spec.WF tgt) {keys : Option (List Key)} {solver : Option (Solver R d1 d2)}
    {ord : SetOrder} (ho : OrdOK ord) {f1 f2 : Nat} {ss : List (Vec R d1)} {ts : List (Vec R d2)}
    {r : TResult R d1 d2} (h : transformTo src tgt .no keys solver ord f1 f2 ss ts = .ok r) :
    r.tgt = tgt ∧ r.tgtStream = ts ∧ r.nengoWarning = false ∧ r.simWarning = false := by
  rw [transformTo_eq src tgt hws hwt _ keys solver ord f1 f2 ss ts ho.usedFrom ho.usedTo ho.missing] at h
  cases hq : populateStep tgt .no (missingKeys src tgt keys) ord ts with
  | error e => rw [hq] at h; cases h
  | ok x =>
    rcases x with ⟨t1, u1, m1, w, sw⟩
    rw [hq] at h
    simp only [Except.map, Except.ok.injEq] at h
    subst h
    rcases populateStep_cases hq with ⟨rfl, rfl, _, rfl, _, rfl⟩ | ⟨_, hy, _⟩
    · simp
    · cases hy

/-- **populate_modes, `populate=None`:** missing keys are ignored, the target is
untouched, and the `NengoWarning` is issued exactly when some requested key of
the source is absent from the target. -/
theorem populate_unspecified {src : Vocab R d1} {tgt : Vocab R d2} (hws : Spec.WF src)
    (hwt : Spec.WF tgt) {keys : Option (List Key)} {solver : Option (Solver R d1 d2)}
    {ord : SetOrder} (ho : OrdOK ord) {f1 f2 : Nat} {ss : List (Vec R d1)} {ts : List (Vec R d2)}
    {r : TResult R d1 d2}
    (h : transformTo src tgt .unspecified keys solver ord f1 f2 ss ts = .ok r) :
    r.tgt = tgt ∧ r.tgtStream = ts ∧ r.simWarning = false ∧
      (r.nengoWarning = true ↔ ∃ k, k ∈ keys.getD src.keys ∧ k ∈ src.keys ∧ k ∉ tgt.keys) := by
  rw [transformTo_eq src tgt hws hwt _ keys solver ord f1 f2 ss ts ho.usedFrom ho.usedTo ho.missing] at h
  cases hq : populateStep tgt .unspecified (missingKeys src tgt keys) ord ts with
  | error e => rw [hq] at h; cases h
  | ok x =>
    rcases x with ⟨t1, u1, m1, w, sw⟩
    rw [hq] at h
    simp only [Except.map, Except.ok.injEq] at h
    subst h
    rcases populateStep_cases hq with ⟨rfl, rfl, _, rfl, _, rfl⟩ | ⟨_, hy, _⟩
    · refine ⟨rfl, rfl, rfl, ?_⟩
      simp only [decide_true, Bool.and_true, Bool.not_eq_true', List.isEmpty_eq_false_iff]
      constructor
      · intro hne
        obtain ⟨k, hk⟩ := List.exists_mem_of_ne_nil _ hne
        obtain ⟨h1, h2⟩ := (mem_missingKeys hws).mp hk
        obtain ⟨h3, h4⟩ := mem_requestedKeys.mp h1
        exact ⟨k, h3, h4, h2⟩
      · rintro ⟨k, h3, h4, h2⟩
        exact List.ne_nil_of_mem ((mem_missingKeys hws).mpr ⟨mem_requestedKeys.mpr ⟨h3, h4⟩, h2⟩)
    · cases hy

/-- **populate_modes, `populate=True`:** no `NengoWarning`; the target keeps all its
entries and gains exactly the missing keys (in the order the set was
iterated), with vectors drawn from its own generator, which only advances;
afterwards it contains every requested key of the source, and the transform
uses all of them. -/
theorem populate_true {src : Vocab R d1} {tgt : Vocab R d2} (hws : Spec.WF src)
    (hwt : Spec.WF tgt) {keys : Option (List Key)} {solver : Option (Solver R d1 d2)}
    {ord : SetOrder} (ho : OrdOK ord) {f1 f2 : Nat} {ss : List (Vec R d1)} {ts : List (Vec R d2)}
    {r : TResult R d1 d2} (h : transformTo src tgt .yes keys solver ord f1 f2 ss ts = .ok r) :
    r.nengoWarning = false ∧
    r.tgt.keys = tgt.keys ++ ord.missing (missingKeys src tgt keys) ∧
    (∀ k ∈ tgt.keys, r.tgt.lookup k = tgt.lookup k) ∧
    (∀ k ∈ r.tgt.keys, k ∉ tgt.keys → r.tgt.vec k ∈ ts) ∧
    r.tgtStream <:+ ts ∧
    (r.tgt.id = tgt.id ∧ r.tgt.algebra = tgt.algebra ∧ r.tgt.strict = tgt.strict) ∧
    (∀ k, k ∈ keys.getD src.keys → k ∈ src.keys → k ∈ r.tgt.keys) ∧
    Spec.usedKeys src r.tgt keys = requestedKeys src keys := by
  rw [transformTo_eq src tgt hws hwt _ keys solver ord f1 f2 ss ts ho.usedFrom ho.usedTo ho.missing] at h
  cases hq : populateStep tgt .yes (missingKeys src tgt keys) ord ts with
  | error e => rw [hq] at h; cases h
  | ok x =>
    rcases x with ⟨t1, u1, m1, w, sw⟩
    have hused := used_eq_usedKeys hws ho hq
    rw [hq] at h
    simp only [Except.map, Except.ok.injEq] at h
    subst h
    simp only
    have hall : ∀ k, k ∈ requestedKeys src keys → k ∈ t1.keys → True := fun _ _ _ => trivial
    rcases populateStep_cases hq with ⟨rfl, rfl, rfl, rfl, hm, rfl⟩ | ⟨hne, _, rfl, rfl, vs, hl, rfl, hvs, hsuf, hnd, hval⟩
    · -- nothing was missing
      have hm' : missingKeys src t1 keys = [] := by
        rcases hm with hm | hm
        · exact hm
        · exact absurd rfl hm
      have hmo : ord.missing (missingKeys src t1 keys) = [] := by
        rw [hm']; exact List.Perm.eq_nil (ho.missing [])
      have hin : ∀ k, k ∈ requestedKeys src keys → k ∈ t1.keys := by
        intro k hk
        by_contra hc
        have := (mem_missingKeys (tgt := t1) hws).mpr ⟨hk, hc⟩
        rw [hm'] at this; cases this
      refine ⟨by simp [hm'], by simp [hmo], fun _ _ => rfl, fun k hk hn => absurd hk hn,
        List.suffix_refl _, ⟨rfl, rfl, rfl⟩, fun k h1 h2 => hin k (mem_requestedKeys.mpr ⟨h1, h2⟩), ?_⟩
      rw [← hused, hm']; simp
    · have hkeys := keys_append_zip tgt _ vs hl
      refine ⟨rfl, hkeys, ?_, ?_, hsuf, ⟨rfl, rfl, rfl⟩, ?_, ?_⟩
      · intro k hk
        exact lookup_append_left hk
      · intro k hk hn
        rw [hkeys] at hk
        have hk' : k ∈ ord.missing (missingKeys src tgt keys) := by
          rcases List.mem_append.mp hk with hk | hk
          · exact absurd hk hn
          · exact hk
        have hlk : ({ tgt with entries := tgt.entries ++ (ord.missing (missingKeys src tgt keys)).zip vs } : Vocab R d2).lookup k
            = ((ord.missing (missingKeys src tgt keys)).zip vs).lookup k := lookup_append_right hn
        have hmemz : k ∈ ((ord.missing (missingKeys src tgt keys)).zip vs).map (·.1) := by
          rw [List.map_fst_zip (by omega)]; exact hk'
        obtain ⟨x, hx⟩ := lookup_isSome_of_mem' hmemz
        have hxz := mem_of_lookup hx
        simp only [Vocab.vec, hlk, hx, Option.getD_some]
        exact hvs x (List.of_mem_zip hxz).2
      · intro k h1 h2
        rw [hkeys]
        by_cases hc : k ∈ tgt.keys
        · exact List.mem_append.mpr (Or.inl hc)
        · exact List.mem_append.mpr (Or.inr ((ho.missing _).mem_iff.mpr
            ((mem_missingKeys hws).mpr ⟨mem_requestedKeys.mpr ⟨h1, h2⟩, hc⟩)))
      · rw [← hused]; simp

/-! ### a vocabulary translated onto itself -/

theorem sum_swap_aux {ι κ : Type} [Fintype ι] [DecidableEq κ] (S : Finset κ) (a : ι → R) (b : κ → ι → R)
    (c : κ → R) : ∑ j, a j * ∑ k ∈ S, b k j * c k = ∑ k ∈ S, (∑ j, a j * b k j) * c k := by
  have h1 : ∀ j, a j * ∑ k ∈ S, b k j * c k = ∑ k ∈ S, a j * b k j * c k := by
    intro j; rw [Finset.mul_sum]; apply Finset.sum_congr rfl; intro k _; ring
  simp only [h1]
  rw [Finset.sum_comm]
  apply Finset.sum_congr rfl; intro k _
  rw [Finset.sum_mul]

/-- the outer-product sum of a vocabulary with ITSELF applied to `x` is `Σ_k v_k (v_k · x)` -/
theorem outerSum_self_apply (v : Vocab R d1) {ks : List Key} (hnd : ks.Nodup) (x : Vec R d1) (i : Fin d1) :
    mulVec (Spec.outerSum v v ks) x i = ∑ k ∈ ks.toFinset, v.vec k i * ∑ j, v.vec k j * x j := by
  rw [mulVec_eq_sum]
  simp only [outerSum_eq_finset v v hnd]
  simp only [Finset.sum_mul, Finset.mul_sum, mul_assoc]
  rw [Finset.sum_comm]

/-- **translate_into_own_vocabulary_projects.**  Over orthonormal entries the transform of a vocabulary
onto itself is a PROJECTOR onto the span of the used entries: applying it twice is applying it once. It is
not the identity (`own_vocabulary_not_identity` below), so translating a pointer into its own vocabulary
may not be skipped. -/
theorem outerSum_self_idempotent (v : Vocab R d1) {ks : List Key} (hnd : ks.Nodup)
    (horth : ∀ k ∈ ks, ∀ k' ∈ ks, ∑ j, v.vec k j * v.vec k' j = if k = k' then 1 else 0) (x : Vec R d1) :
    mulVec (Spec.outerSum v v ks) (mulVec (Spec.outerSum v v ks) x) = mulVec (Spec.outerSum v v ks) x := by
  funext i
  rw [outerSum_self_apply v hnd, outerSum_self_apply v hnd]
  apply Finset.sum_congr rfl
  intro k hk
  congr 1
  have hk' := List.mem_toFinset.mp hk
  calc ∑ j, v.vec k j * mulVec (Spec.outerSum v v ks) x j
      = ∑ j, v.vec k j * ∑ k' ∈ ks.toFinset, v.vec k' j * ∑ l, v.vec k' l * x l := by
        apply Finset.sum_congr rfl; intro j _; rw [outerSum_self_apply v hnd]
    _ = ∑ k' ∈ ks.toFinset, (∑ j, v.vec k j * v.vec k' j) * ∑ l, v.vec k' l * x l :=
        sum_swap_aux _ _ _ _
    _ = ∑ k' ∈ ks.toFinset, (if k = k' then 1 else 0) * ∑ l, v.vec k' l * x l := by
        apply Finset.sum_congr rfl; intro k' hk2
        rw [horth k hk' k' (List.mem_toFinset.mp hk2)]
    _ = ∑ l, v.vec k l * x l := by
        simp [Finset.sum_ite_eq, hk]

/-- the same for the transform `transform_to` returns when source and target are one vocabulary -/
theorem translate_into_own_vocabulary_projects {v : Vocab R d1} (hw : Spec.WF v) {pop : Populate}
    {keys : Option (List Key)} {ord : SetOrder} (ho : OrdOK ord) (hpair : Paired ord) {f1 f2 : Nat}
    {ss ts : List (Vec R d1)} {r : TResult R d1 d1}
    (h : transformTo v v pop keys none ord f1 f2 ss ts = .ok r) (hsame : r.tgt = v)
    (horth : ∀ k ∈ Spec.usedKeys v v keys, ∀ k' ∈ Spec.usedKeys v v keys,
      ∑ j, v.vec k j * v.vec k' j = if k = k' then 1 else 0) (x : Vec R d1) :
    mulVec r.T (mulVec r.T x) = mulVec r.T x := by
  rw [transform_eq_outer_sum hw hw ho hpair h, hsame]
  exact outerSum_self_idempotent v (usedKeys_nodup _ _ _) horth x

/-! ### translate -/

/-- **translate_eq (fixed pointer).**  `p.translate(target, …)` is the transform
applied to `p.v`, as a pointer of the target vocabulary with the target's algebra. -/
theorem translate_eq {p : Ptr R d1} {src : Vocab R d1} {tgt : Vocab R d2} {pop : Populate}
    {keys : Option (List Key)} {solver : Option (Solver R d1 d2)} {ord : SetOrder} {f1 f2 : Nat}
    {ss : List (Vec R d1)} {ts : List (Vec R d2)} {q : Ptr R d2} {r : TResult R d1 d2}
    (h : translate p (some src) tgt pop keys solver ord f1 f2 ss ts = .ok (q, r)) :
    transformTo src tgt pop keys solver ord f1 f2 ss ts = .ok r ∧
      q.v = mulVec r.T p.v ∧ q.vocab = some r.tgt.id ∧ q.algebra = r.tgt.algebra := by
  simp only [translate, bind, Except.bind] at h
  split at h
  · cases h
  · rename_i r' hr
    simp only [Except.ok.injEq, Prod.mk.injEq] at h
    obtain ⟨rfl, rfl⟩ := h
    exact ⟨hr, rfl, rfl, rfl⟩

/-- the target object keeps its identity and algebra through `transform_to`, so
"of the target vocabulary" above means the vocabulary that was passed in -/
theorem target_identity {src : Vocab R d1} {tgt : Vocab R d2} (hws : Spec.WF src)
    (hwt : Spec.WF tgt) {pop : Populate} {keys : Option (List Key)}
    {solver : Option (Solver R d1 d2)} {ord : SetOrder} (ho : OrdOK ord) {f1 f2 : Nat}
    {ss : List (Vec R d1)} {ts : List (Vec R d2)} {r : TResult R d1 d2}
    (h : transformTo src tgt pop keys solver ord f1 f2 ss ts = .ok r) :
    r.tgt.id = tgt.id ∧ r.tgt.algebra = tgt.algebra := by
  rw [transformTo_eq src tgt hws hwt _ keys solver ord f1 f2 ss ts ho.usedFrom ho.usedTo ho.missing] at h
  cases hq : populateStep tgt pop (missingKeys src tgt keys) ord ts with
  | error e => rw [hq] at h; cases h
  | ok x =>
    rcases x with ⟨t1, u1, m1, w, sw⟩
    rw [hq] at h
    simp only [Except.map, Except.ok.injEq] at h
    subst h
    rcases populateStep_cases hq with ⟨rfl, _⟩ | ⟨_, _, _, _, vs, _, rfl, _⟩ <;> exact ⟨rfl, rfl⟩

/-- a vocabulary-less pointer cannot be translated -/
theorem translate_no_vocab (p : Ptr R d1) (tgt : Vocab R d2) (pop keys)
    (solver : Option (Solver R d1 d2)) (ord f1 f2 ss ts) :
    translate p none tgt pop keys solver ord f1 f2 ss ts = .error .attributeError := rfl

/-- **translate_eq (symbol).** -/
theorem symTranslate_eq {ty : NodeType} {value : Vec R d1} {srcV : Option (Vocab R d1)}
    {tgt : Vocab R d2} {pop : Populate} {keys : Option (List Key)}
    {solver : Option (Solver R d1 d2)} {ord : SetOrder} {f1 f2 : Nat}
    {ss : List (Vec R d1)} {ts : List (Vec R d2)} {q : Ptr R d2} {r : TResult R d1 d2}
    (h : symTranslate ty value srcV tgt pop keys solver ord f1 f2 ss ts = .ok (q, r)) :
    ∃ src i, srcV = some src ∧ ty = .vocab i ∧
      transformTo src tgt pop keys solver ord f1 f2 ss ts = .ok r ∧
      q.v = mulVec r.T value ∧ q.vocab = some r.tgt.id ∧ q.algebra = r.tgt.algebra := by
  unfold symTranslate at h
  split at h
  · rename_i i src
    simp only [bind, Except.bind] at h
    split at h
    · cases h
    · rename_i r' hr
      simp only [Except.ok.injEq, Prod.mk.injEq] at h
      obtain ⟨rfl, rfl⟩ := h
      exact ⟨src, i, rfl, rfl, hr, rfl, rfl, rfl⟩
  · cases h

/-- **translate_eq (dynamic node).**  `spa.translate(module_output, target)` is a
`Transformed` node carrying the transform matrix, typed with the target vocabulary. -/
theorem dynTranslate_eq {ty : NodeType} {srcV : Option (Vocab R d1)}
    {tgt : Vocab R d2} {pop : Populate} {keys : Option (List Key)}
    {solver : Option (Solver R d1 d2)} {ord : SetOrder} {f1 f2 : Nat}
    {ss : List (Vec R d1)} {ts : List (Vec R d2)} {q : Transformed R d2 d1} {r : TResult R d1 d2}
    (h : dynTranslate ty srcV tgt pop keys solver ord f1 f2 ss ts = .ok (q, r)) :
    ∃ src i, srcV = some src ∧ ty = .vocab i ∧
      transformTo src tgt pop keys solver ord f1 f2 ss ts = .ok r ∧
      q.transform = r.T ∧ q.type = .vocab r.tgt.id := by
  unfold dynTranslate at h
  split at h
  · rename_i i src
    simp only [bind, Except.bind] at h
    split at h
    · cases h
    · rename_i r' hr
      simp only [Except.ok.injEq, Prod.mk.injEq] at h
      obtain ⟨rfl, rfl⟩ := h
      exact ⟨src, i, rfl, rfl, hr, rfl, rfl⟩
  · cases h

/-! ### reinterpret -/

/-- **reinterpret_keeps_vector** -/
theorem reinterpret_keeps_vector {d d'} (p : Ptr R d) (vocab : Option (Vocab R d')) :
    (reinterpret p vocab).v = p.v := by
  cases vocab <;> rfl

/-- only the vocabulary changes: it becomes the requested one (or none) -/
theorem reinterpret_vocab {d d'} (p : Ptr R d) (vocab : Option (Vocab R d')) :
    (reinterpret p vocab).vocab = vocab.map (·.id) := by
  cases vocab <;> rfl

/-- **reinterpret_algebra**: the algebra follows the new vocabulary … -/
theorem reinterpret_algebra_follows {d d'} (p : Ptr R d) (w : Vocab R d') :
    (reinterpret p (some w)).algebra = w.algebra := rfl

/-- … and is kept when the vocabulary is cleared. -/
theorem reinterpret_algebra_kept {d d'} (p : Ptr R d) :
    (reinterpret p (none : Option (Vocab R d'))).algebra = p.algebra := rfl

/-- reinterpreting twice is reinterpreting once; clearing and re-attaching the
own vocabulary gives the pointer back -/
theorem reinterpret_reinterpret {d d' d''} (p : Ptr R d) (a : Option (Vocab R d')) (w : Vocab R d'') :
    reinterpret (reinterpret p a) (some w) = reinterpret p (some w) := by
  cases a <;> rfl

theorem symReinterpret_eq {d d'} {ty : NodeType} {value : Vec R d} {srcV : Option (Vocab R d)}
    {vocab : Option (Vocab R d')} {q : Ptr R d} (h : symReinterpret ty value srcV vocab = .ok q) :
    ∃ src, srcV = some src ∧ q.v = value ∧ q.vocab = vocab.map (·.id) ∧
      q.algebra = (match vocab with | none => src.algebra | some w => w.algebra) := by
  unfold symReinterpret at h
  split at h
  · rename_i i src
    simp only [Except.ok.injEq] at h
    subst h
    exact ⟨src, rfl, reinterpret_keeps_vector _ _, reinterpret_vocab _ _, by cases vocab <;> rfl⟩
  · cases h

/-- a dynamic node is reinterpreted through the identity matrix (the value is
kept) and only its type changes -/
theorem dynReinterpret_eq {d d'} {ty : NodeType} {vocab : Option (Vocab R d')}
    {q : Transformed R d d} (h : dynReinterpret ty vocab = .ok q) :
    (∀ v : Vec R d, mulVec q.transform v = v) ∧
      q.type = (vocab.map fun w => NodeType.vocab w.id).getD (.anyDim d) := by
  have : q.transform = eye ∧ q.type = (vocab.map fun w => NodeType.vocab w.id).getD (.anyDim d) := by
    cases ty <;> cases vocab <;> simp only [dynReinterpret, Except.ok.injEq, reduceCtorEq] at h <;>
      subst h <;> exact ⟨rfl, rfl⟩
  refine ⟨fun v => ?_, this.2⟩
  funext i
  rw [mulVec_eq_sum, this.1]
  simp [eye, Finset.sum_ite_eq]

/-- scalar and `TAnyVocab` nodes have no dimensionality to build the identity from -/
theorem dynReinterpret_untyped {d d'} (vocab : Option (Vocab R d')) :
    (dynReinterpret .scalar vocab : Except Err (Transformed R d d)) = .error .attributeError ∧
    (dynReinterpret .anyVocab vocab : Except Err (Transformed R d d)) = .error .attributeError :=
  ⟨rfl, rfl⟩

/-! ### subsets -/

/-- **subset_same_vectors_keys_algebra.**  A subset over distinct keys of the
vocabulary is a new object holding exactly those keys (in iteration order)
with the same vectors, the same algebra, strictness, max_similarity and pointer
generator object; the original and its generator are untouched. -/
theorem subset_same_vectors_keys_algebra {d} (self : Vocab R d) (hw : Spec.WF self)
    (ks : List Key) (hmem : ∀ k ∈ ks, k ∈ self.keys) (hnd : ks.Nodup) (f : Nat)
    (s : List (Vec R d)) :
    ∃ sub, createSubset self ks f s = .ok (sub, self, s) ∧
      sub.id = f ∧ sub.keys = ks ∧ (∀ k ∈ ks, sub.lookup k = self.lookup k) ∧
      sub.algebra = self.algebra ∧ sub.strict = self.strict ∧ sub.maxSim = self.maxSim ∧
      sub.gen = self.gen ∧ Spec.WF sub := by
  refine ⟨_, createSubset_present self ks f s hw hmem hnd, rfl, ?_, ?_, rfl, rfl, rfl, rfl, ?_⟩
  · simp [Vocab.keys, Function.comp_def]
  · intro k hk
    show List.lookup k (ks.map fun k => (k, self.vec k)) = _
    rw [lookup_map_of_nodup hk, lookup_eq_vec (hmem k hk)]
  · refine ⟨by simpa [Vocab.keys, Function.comp_def] using hnd, ?_⟩
    intro k hk
    have : k ∈ ks := by simpa [Vocab.keys, Function.comp_def] using hk
    exact hw.2 k (hmem k this)

/-- a strict vocabulary refuses a subset with a key it does not have, and is not changed
(the call raises before anything is added) -/
theorem subset_missing_strict {d} (self : Vocab R d) (hs : self.strict = true) (k : Key)
    (hk : k ∉ self.keys) (hns : specialNames.contains k = false) (ks : List Key) (f : Nat)
    (s : List (Vec R d)) : createSubset self (k :: ks) f s = .error .keyError := by
  have hl : self.lookup k = none := by
    cases h : self.lookup k with
    | none => rfl
    | some x =>
      exfalso; apply hk
      unfold Vocab.lookup at h
      exact List.mem_map.mpr ⟨_, mem_of_lookup h, rfl⟩
  have hns' : k ∉ specialNames := by simpa using hns
  simp [createSubset, subsetLoop, hns', getItem, hs, hl, bind, Except.bind, pure, Except.pure]

/-- **independence.**  The subset is a value of its own: adding to the subset
does not change the original, adding to the original does not change the
subset (in the model vocabularies are values, so this is the statement that
`create_subset` returns *copies* of the entries; the correspondence run checks
on the real objects that no array or dictionary is shared). -/
theorem subset_independent {d} (self : Vocab R d) (hw : Spec.WF self) (ks : List Key)
    (hmem : ∀ k ∈ ks, k ∈ self.keys) (hnd : ks.Nodup) (f : Nat) (s : List (Vec R d))
    {sub self' sub' self'' : Vocab R d} {s' : List (Vec R d)}
    (h : createSubset self ks f s = .ok (sub, self', s'))
    {k : Key} {p q : Ptr R d} (h1 : add sub k p = .ok sub') (h2 : add self' k q = .ok self'') :
    self' = self ∧ (∀ a ∈ self.keys, self''.lookup a = self.lookup a) ∧
      (∀ a ∈ ks, sub'.lookup a = self.lookup a) ∧ sub'.keys = ks ++ [k] ∧
      self''.keys = self.keys ++ [k] := by
  obtain ⟨sub0, h0, _, hk0, hl0, _⟩ := subset_same_vectors_keys_algebra self hw ks hmem hnd f s
  rw [h0] at h
  simp only [Except.ok.injEq, Prod.mk.injEq] at h
  obtain ⟨rfl, rfl, rfl⟩ := h
  obtain ⟨rfl, _, _⟩ := add_eq_ok h1
  obtain ⟨rfl, _, _⟩ := add_eq_ok h2
  refine ⟨rfl, ?_, ?_, ?_, ?_⟩
  · intro a ha; exact lookup_append_left ha
  · intro a ha
    rw [← hl0 a ha]
    exact lookup_append_left (by rw [← hk0] at ha; exact ha)
  · simp [Vocab.keys] at hk0 ⊢; exact hk0
  · simp [Vocab.keys]

end

/-! ### what a least-squares solver delivers (the hypothesis of `lstsq_exact`) -/

/-- For linearly independent source rows an exact solution of `A·X = B` exists,
whatever the target rows are (so a least-squares solver attains residual 0). -/
theorem exact_solution_exists {K : Type} [Field K] {d1 d2 : Nat} (A : List (Vec K d1))
    (B : List (Vec K d2)) (hlen : A.length = B.length)
    (hli : LinearIndependent K (fun n : Fin A.length => A.get n)) :
    ∃ X : Mat K d1 d2, SolvesExactly A B X := by
  let v : Fin A.length → (Fin d1 → K) := fun n => A.get n
  let b : Fin A.length → (Fin d2 → K) := fun n => B.get (n.cast hlen)
  have hker : LinearMap.ker (Finsupp.linearCombination K v) = ⊥ := linearIndependent_iff_ker.mp hli
  obtain ⟨g, hg⟩ := (Finsupp.linearCombination K v).exists_leftInverse_of_injective hker
  let f : (Fin d1 → K) →ₗ[K] (Fin d2 → K) := (Finsupp.linearCombination K b).comp g
  have hf : ∀ n, f (v n) = b n := by
    intro n
    have : g (v n) = Finsupp.single n 1 := by
      have := LinearMap.congr_fun hg (Finsupp.single n 1)
      simpa using this
    simp [f, this]
  refine ⟨fun j i => f (Pi.single j 1) i, ?_⟩
  intro p hp i
  obtain ⟨n, hn⟩ := List.mem_iff_get.mp hp
  have hn1 : n.val < A.length := by have := n.isLt; simp [List.length_zip] at this; omega
  have hp1 : p.1 = v ⟨n, hn1⟩ := by rw [← hn]; simp [v]
  have hp2 : p.2 = b ⟨n, hn1⟩ := by rw [← hn]; simp [b]
  rw [hp2, ← hf, hp1]
  have hdec : v ⟨n, hn1⟩ = ∑ j, (v ⟨n, hn1⟩ j) • (Pi.single j (1 : K) : Fin d1 → K) := by
    funext t; simp [Finset.sum_apply, Pi.single_apply]
  conv_rhs => rw [hdec]
  simp [map_sum, Finset.sum_apply]

/-- the least-squares objective `‖A·X − B‖²` (Frobenius) over the paired rows -/
def residual {K : Type} [CommRing K] {d1 d2 : Nat} (A : List (Vec K d1)) (B : List (Vec K d2))
    (X : Mat K d1 d2) : K :=
  ∑ n : Fin (A.zip B).length, ∑ i, (∑ j, ((A.zip B).get n).1 j * X j i - ((A.zip B).get n).2 i) ^ 2

/-- What "least-squares solver" means: a minimiser of the residual.  Whenever the
system `A·X = B` is solvable at all (in particular for linearly independent
source entries), every minimiser solves it exactly — so the hypothesis of
`lstsq_exact` is the solver's own post-condition, not an extra demand. -/
theorem exact_solution_of_minimizer {K : Type} [Field K] [LinearOrder K] [IsStrictOrderedRing K]
    {d1 d2 : Nat} (A : List (Vec K d1)) (B : List (Vec K d2)) (X : Mat K d1 d2)
    (hmin : ∀ Y, residual A B X ≤ residual A B Y) (hex : ∃ X0, SolvesExactly A B X0) :
    SolvesExactly A B X := by
  obtain ⟨X0, h0⟩ := hex
  have hz : residual A B X0 = 0 := by
    unfold residual
    apply Finset.sum_eq_zero; intro n _
    apply Finset.sum_eq_zero; intro i _
    rw [h0 _ (List.get_mem _ n) i]; simp
  have hle : residual A B X ≤ 0 := hz ▸ hmin X0
  have hnn : ∀ n : Fin (A.zip B).length, 0 ≤ ∑ i, (∑ j, ((A.zip B).get n).1 j * X j i - ((A.zip B).get n).2 i) ^ 2 :=
    fun n => Finset.sum_nonneg fun i _ => sq_nonneg _
  have heq : residual A B X = 0 := le_antisymm hle (Finset.sum_nonneg fun n _ => hnn n)
  intro p hp i
  obtain ⟨n, rfl⟩ := List.mem_iff_get.mp hp
  have h1 := (Finset.sum_eq_zero_iff_of_nonneg (fun n _ => hnn n)).mp heq n (Finset.mem_univ _)
  have h2 := (Finset.sum_eq_zero_iff_of_nonneg (fun i _ => sq_nonneg _)).mp h1 i (Finset.mem_univ _)
  have h3 := pow_eq_zero_iff (n := 2) (by norm_num) |>.mp h2
  exact sub_eq_zero.mp h3

/-- **lstsq_exact, unconditional form.**  With a genuine least-squares solver (its
output minimises the residual on the rows it is given) and linearly independent
used source entries, every used source entry is mapped exactly onto its namesake. -/
theorem lstsq_exact_of_independent {K : Type} [Field K] [LinearOrder K] [IsStrictOrderedRing K]
    {d1 d2 : Nat} {src : Vocab K d1} {tgt : Vocab K d2} (hws : Spec.WF src) (hwt : Spec.WF tgt)
    {pop : Populate} {keys : Option (List Key)} {ord : SetOrder} (ho : OrdOK ord) (hpair : Paired ord)
    {f1 f2 : Nat} {ss : List (Vec K d1)} {ts : List (Vec K d2)} {r : TResult K d1 d2}
    (s : Solver K d1 d2)
    (h : transformTo src tgt pop keys (some s) ord f1 f2 ss ts = .ok r)
    (hmin : ∀ A B Y, residual A B (s A B) ≤ residual A B Y)
    (hli : LinearIndependent K
      (fun n : Fin ((ord.usedFrom (Spec.usedKeys src r.tgt keys)).map src.vec).length =>
        ((ord.usedFrom (Spec.usedKeys src r.tgt keys)).map src.vec).get n))
    {k : Key} (hk : k ∈ Spec.usedKeys src r.tgt keys) :
    mulVec r.T (src.vec k) = r.tgt.vec k := by
  refine lstsq_exact hws hwt ho hpair s h ?_ hk
  intro A B hA hB
  subst hA hB
  exact exact_solution_of_minimizer _ _ _ (hmin _ _)
    (exact_solution_exists _ _ (by simp only [List.length_map]; rw [hpair]) hli)

/-! ### non-vacuity and the pairing assumption -/

section Examples
open Impl

def ex_e0 : Vec Rat 2 := fun i => if i = 0 then 1 else 0
def ex_e1 : Vec Rat 2 := fun i => if i = 1 then 1 else 0
def exSrc : Vocab Rat 2 :=
  { id := 1, entries := [("A", ex_e0), ("B", ex_e1)], strict := true, maxSim := 1/10, algebra := 7, gen := 3 }
def exTgt : Vocab Rat 2 :=
  { id := 2, entries := [("B", ex_e0), ("A", ex_e1), ("C", ex_e1)], strict := true, maxSim := 1/10,
    algebra := 8, gen := 4 }
def idOrder : SetOrder := { missing := id, usedFrom := id, usedTo := id }
/-- an enumeration that violates the pairing assumption -/
def badOrder : SetOrder := { missing := id, usedFrom := id, usedTo := List.reverse }

theorem exSrc_wf : Spec.WF exSrc := by
  refine ⟨by decide, ?_⟩
  intro k hk
  simp only [exSrc, Vocab.keys, List.map_cons, List.map_nil, List.mem_cons, List.not_mem_nil, or_false] at hk
  rcases hk with rfl | rfl <;> decide

theorem exTgt_wf : Spec.WF exTgt := by
  refine ⟨by decide, ?_⟩
  intro k hk
  simp only [exTgt, Vocab.keys, List.map_cons, List.map_nil, List.mem_cons, List.not_mem_nil, or_false] at hk
  rcases hk with rfl | rfl | rfl <;> decide

theorem idOrder_ok : OrdOK idOrder := ⟨fun _ => .refl _, fun _ => .refl _, fun _ => .refl _⟩
theorem idOrder_paired : Paired idOrder := fun _ => rfl
theorem badOrder_ok : OrdOK badOrder := ⟨fun _ => .refl _, fun _ => .refl _, fun l => List.reverse_perm l⟩

/-- the hypotheses of the theorems are satisfiable: a concrete call succeeds … -/
example : ∃ r, transformTo exSrc exTgt .no none none idOrder 10 11 [] [] = .ok r :=
  transformTo_total _ _ exSrc_wf exTgt_wf _ (by decide) _ _ _ idOrder_ok _ _ _ _

/-- … and swaps the axes as the key names demand (`A: e0 ↦ e1`, `B: e1 ↦ e0`). -/
example : ∀ r, transformTo exSrc exTgt .no none none idOrder 10 11 [] [] = .ok r →
    mulVec r.T ex_e0 = ex_e1 := by
  intro r h
  have hk : "A" ∈ Spec.usedKeys exSrc r.tgt none := by
    rw [(populate_false exSrc_wf exTgt_wf idOrder_ok h).1]; decide
  have := orthonormal_exact exSrc_wf exTgt_wf idOrder_ok idOrder_paired h ?_ hk
  · rw [(populate_false exSrc_wf exTgt_wf idOrder_ok h).1] at this
    exact this
  · rw [(populate_false exSrc_wf exTgt_wf idOrder_ok h).1]
    intro k hk k' hk'
    have hU : Spec.usedKeys exSrc exTgt none = ["A", "B"] := by decide
    rw [hU] at hk hk'
    simp only [List.mem_cons, List.not_mem_nil, or_false] at hk hk'
    rcases hk with rfl | rfl <;> rcases hk' with rfl | rfl <;>
      simp [dot_eq_sum, Fin.sum_univ_two, Vocab.vec, Vocab.lookup, exSrc, List.lookup, ex_e0, ex_e1]

/-- **pairing_needed.**  If the two `keys - missing_keys` sets were iterated in
different orders the rows would be mis-paired: with the reversed order for the
target subset, `A` is sent to the target's `B`. -/
theorem pairing_needed : ∃ r, transformTo exSrc exTgt .no none none badOrder 10 11 [] [] = .ok r ∧
    r.T ≠ Spec.outerSum exSrc r.tgt (Spec.usedKeys exSrc r.tgt none) := by
  obtain ⟨r, h⟩ := transformTo_total exSrc exTgt exSrc_wf exTgt_wf .no (by decide) none none
    badOrder badOrder_ok 10 11 [] []
  refine ⟨r, h, ?_⟩
  have hT := transform_rows exSrc_wf exTgt_wf badOrder_ok h
  have ht := (populate_false exSrc_wf exTgt_wf badOrder_ok h).1
  rw [ht] at hT ⊢
  intro he
  have h00 := congrFun (congrFun he 0) 0
  rw [hT] at h00
  have hU : Spec.usedKeys exSrc exTgt none = ["A", "B"] := by decide
  rw [hU] at h00
  simp [combine, badOrder, outer, Spec.outerSum, Vocab.vec, Vocab.lookup, exSrc, exTgt, List.lookup,
    ex_e0, ex_e1] at h00

end Examples
/-- non-vacuity of the projector statement, and why the shortcut "same vocabulary: nothing to do" is wrong:
translating `e1` into the vocabulary {A = e0} with the requested key `A` gives 0, not `e1` -/
def exOwn : Vocab Rat 2 :=
  { id := 5, entries := [("A", ex_e0)], strict := true, maxSim := 1/10, algebra := 7, gen := 3 }

theorem own_vocabulary_not_identity :
    mulVec (Spec.outerSum exOwn exOwn ["A"]) ex_e1 ≠ ex_e1 ∧
    mulVec (Spec.outerSum exOwn exOwn ["A"]) ex_e0 = ex_e0 := by
  constructor
  · intro h
    have := congrFun h 1
    revert this
    decide +kernel
  · funext i
    fin_cases i <;> decide +kernel

end C13

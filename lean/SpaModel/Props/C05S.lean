/-
C05, spectral stage: the CircularConvolution network with the REAL `dft_half` table
(`exp(-2πi·w·x/d)` split into `cos` and `-sin`) computes circular convolution (resp. the
forms with involuted operands for the unbind options) for EVERY dimensionality and ALL inputs.
This replaces the per-d numerical certificate of the coefficient table by a theorem.
-/
import SpaModel.Props.C05
import SpaModel.Spectral.CosSum
import Mathlib.Data.ZMod.Basic

set_option linter.unusedSectionVars false
open Matrix Real

namespace C05
namespace Hrr
open Alg.Hrr

/-- `dft_half(d)[w, x] = exp(-2πi·w·x/d)`: real part `cos`, imaginary part `-sin`; `dinv = 1/d` -/
noncomputable def realTbl (d : ℕ) : Tbl ℝ where
  re w x := Real.cos (2 * π * w * x / d)
  im w x := - Real.sin (2 * π * w * x / d)
  dinv := 1 / d

/-- reading a basis vector stored as an array -/
theorem rd_arrOfVec_single {n : ℕ} (i : Fin n) (x : ℕ) (hx : x < n) :
    rd (arrOfVec (Pi.single i (1 : ℝ))) x = if x = i.val then 1 else 0 := by
  unfold arrOfVec
  rw [rd_tab _ hx, dif_pos hx, Pi.single_apply]
  simp [Fin.ext_iff]

theorem coefRe_single (t : Tbl ℝ) {d : ℕ} (i : Fin d) (w : ℕ) :
    Spec.coefRe t d (arrOfVec (Pi.single i (1 : ℝ))) w = t.re w i.val := by
  unfold Spec.coefRe
  rw [Finset.sum_eq_single i.val]
  · rw [rd_arrOfVec_single i _ i.2]; simp
  · intro x hx hne
    rw [rd_arrOfVec_single i _ (Finset.mem_range.mp hx)]; simp [hne]
  · intro h; exact absurd (Finset.mem_range.mpr i.2) h

theorem coefIm_single (t : Tbl ℝ) {d : ℕ} (cj : Bool) (i : Fin d) (w : ℕ) :
    Spec.coefIm t d cj (arrOfVec (Pi.single i (1 : ℝ))) w = if cj then - t.im w i.val else t.im w i.val := by
  unfold Spec.coefIm
  rw [Finset.sum_eq_single i.val]
  · rw [rd_arrOfVec_single i _ i.2]; simp
  · intro x hx hne
    rw [rd_arrOfVec_single i _ (Finset.mem_range.mp hx)]; simp [hne]
  · intro h; exact absurd (Finset.mem_range.mpr i.2) h

/-- the trigonometric core: one half-spectrum row contributes `cos(±A ± B − C)` -/
theorem row_trig (ia ib : Bool) (A B C : ℝ) :
    Real.cos C * (Real.cos A * Real.cos B
        - (if ia then - -Real.sin A else -Real.sin A) * (if ib then - -Real.sin B else -Real.sin B))
      + -Real.sin C * (Real.cos A * (if ib then - -Real.sin B else -Real.sin B)
        + (if ia then - -Real.sin A else -Real.sin A) * Real.cos B)
    = Real.cos ((if ia then -A else A) + (if ib then -B else B) - C) := by
  cases ia <;> cases ib <;>
    simp only [Bool.false_eq_true, if_true, if_false, Real.cos_sub, Real.cos_add, Real.sin_add,
      Real.cos_neg, Real.sin_neg] <;> ring

/-- value of the network with the real table on a basis pair, at output index `o` -/
theorem halfSpectrum_basis (k : ℕ) (ia ib : Bool) (i j o : Fin (k + 1)) :
    Spec.halfSpectrum (realTbl (k + 1)) (k + 1) ia ib (arrOfVec (Pi.single i (1 : ℝ)))
        (arrOfVec (Pi.single j (1 : ℝ))) o.val
      = if ((k + 1 : ℕ) : ℤ) ∣ ((if ia then -(i.val : ℤ) else i.val) + (if ib then -(j.val : ℤ) else j.val) - o.val)
        then 1 else 0 := by
  have hd : (0 : ℕ) < k + 1 := Nat.succ_pos k
  have hdR : ((k + 1 : ℕ) : ℝ) ≠ 0 := by exact_mod_cast hd.ne'
  unfold Spec.halfSpectrum
  simp only [coefRe_single, coefIm_single]
  set m : ℤ := (if ia then -(i.val : ℤ) else i.val) + (if ib then -(j.val : ℤ) else j.val) - o.val with hm
  have key : ∀ w : ℕ,
      (if w = 0 ∨ 2 * w = k + 1 then (1 : ℝ) else 2) * (realTbl (k + 1)).dinv *
        ((realTbl (k + 1)).re w o.val * ((realTbl (k + 1)).re w i.val * (realTbl (k + 1)).re w j.val
            - (if ia then - (realTbl (k + 1)).im w i.val else (realTbl (k + 1)).im w i.val)
              * (if ib then - (realTbl (k + 1)).im w j.val else (realTbl (k + 1)).im w j.val))
          + (realTbl (k + 1)).im w o.val * ((realTbl (k + 1)).re w i.val
              * (if ib then - (realTbl (k + 1)).im w j.val else (realTbl (k + 1)).im w j.val)
            + (if ia then - (realTbl (k + 1)).im w i.val else (realTbl (k + 1)).im w i.val)
              * (realTbl (k + 1)).re w j.val))
      = (1 / ((k + 1 : ℕ) : ℝ)) * (Spectral.halfWeight (k + 1) w * Real.cos (2 * π * w * m / ((k + 1 : ℕ) : ℝ))) := by
    intro w
    simp only [realTbl]
    rw [row_trig ia ib]
    unfold Spectral.halfWeight
    have harg : (if ia then -(2 * π * w * (i.val : ℝ) / ((k + 1 : ℕ) : ℝ)) else 2 * π * w * (i.val : ℝ) / ((k + 1 : ℕ) : ℝ))
        + (if ib then -(2 * π * w * (j.val : ℝ) / ((k + 1 : ℕ) : ℝ)) else 2 * π * w * (j.val : ℝ) / ((k + 1 : ℕ) : ℝ))
        - 2 * π * w * (o.val : ℝ) / ((k + 1 : ℕ) : ℝ) = 2 * π * w * m / ((k + 1 : ℕ) : ℝ) := by
      rw [hm]
      cases ia <;> cases ib <;> simp only [Bool.false_eq_true, if_true, if_false] <;> push_cast <;> ring
    rw [harg]
    ring
  rw [Finset.sum_congr rfl fun w _ => key w, ← Finset.mul_sum, Spectral.sum_cos_half (k + 1) hd m]
  split_ifs
  · field_simp
  · simp

/-- integer congruence ↔ equality, stated in `ZMod (k+1)` -/
theorem dvd_iff_zmod_eq (k : ℕ) (ia ib : Bool) (i j o : ZMod (k + 1)) :
    ((k + 1 : ℕ) : ℤ) ∣ ((if ia then -(i.val : ℤ) else i.val) + (if ib then -(j.val : ℤ) else j.val) - o.val)
      ↔ o = (if ia then -i else i) + (if ib then -j else j) := by
  rw [← ZMod.intCast_zmod_eq_zero_iff_dvd]
  have : (((if ia then -(i.val : ℤ) else i.val) + (if ib then -(j.val : ℤ) else j.val) - o.val : ℤ) : ZMod (k + 1))
      = ((if ia then -i else i) + (if ib then -j else j)) - o := by
    cases ia <;> cases ib <;> simp only [Bool.false_eq_true, if_true, if_false] <;> push_cast <;>
      simp only [ZMod.natCast_zmod_val]
  rw [this, sub_eq_zero]
  exact eq_comm

/-- the same in `Fin (k+1)` (`ZMod (k+1)` is `Fin (k+1)` by definition) -/
theorem dvd_iff_fin_eq (k : ℕ) (ia ib : Bool) (i j o : Fin (k + 1)) :
    ((k + 1 : ℕ) : ℤ) ∣ ((if ia then -(i.val : ℤ) else i.val) + (if ib then -(j.val : ℤ) else j.val) - o.val)
      ↔ o = (if ia then -i else i) + (if ib then -j else j) :=
  dvd_iff_zmod_eq k ia ib i j o

/-- **all-`d` theorem**: with the real DFT table the CircularConvolution network IS the required
map (`bind`, resp. `bind` with involuted operands), for every dimensionality `k+1`, every flag
combination and all inputs -/
theorem net_real_eq_spec (k : ℕ) (ia ib : Bool) :
    (Impl.build (realTbl (k + 1)) (k + 1) ia ib).fn (k + 1) = Bind.Spec.hrr (R := ℝ) ia ib := by
  apply net_eq_spec_of_table _ rfl rfl rfl
  intro i j
  funext o
  have h1 : (Impl.build (realTbl (k + 1)) (k + 1) ia ib).fn (k + 1) (Pi.single i 1) (Pi.single j 1) o
      = rd ((Impl.build (realTbl (k + 1)) (k + 1) ia ib).eval (arrOfVec (Pi.single i 1)) (arrOfVec (Pi.single j 1))) o.val := rfl
  rw [h1, eval_halfSpectrum _ _ _ _ _ _ o.2, halfSpectrum_basis, spec_basis, Pi.single_apply]
  simp only [dvd_iff_fin_eq]

/-- consequently the recovery laws hold for the built network itself, for every `d` -/
theorem net_real_unbind_right_recovers_iff (k : ℕ) (x : Vec k ℝ) :
    (∀ y : Vec k ℝ, (Impl.build (realTbl (k + 1)) (k + 1) false true).fn (k + 1) (Spec.bind y x) x = y)
      ↔ C05.Spec.IsUnitaryH x := by
  rw [net_real_eq_spec]; exact unbind_right_recovers_iff x

theorem net_real_unbind_left_recovers_iff (k : ℕ) (x : Vec k ℝ) :
    (∀ y : Vec k ℝ, (Impl.build (realTbl (k + 1)) (k + 1) true false).fn (k + 1) x (Spec.bind x y) = y)
      ↔ C05.Spec.IsUnitaryH x := by
  rw [net_real_eq_spec]; exact unbind_left_recovers_iff x

end Hrr
end C05

/-! ### non-vacuity -/
/-- the all-`d` theorem at `d = 3` on a concrete pair: the network output at index 0 for inputs
`e_1`, `e_2` is `1` (`1 + 2 ≡ 0 mod 3`) -/
example : (C05.Hrr.Impl.build (C05.Hrr.realTbl 3) 3 false false).fn 3 (Pi.single 1 1) (Pi.single 2 1) 0 = 1 := by
  rw [C05.Hrr.net_real_eq_spec 2 false false, C05.Hrr.spec_basis]
  simp

/-
C17, spectral stage: the two half-spectrum coefficients `HrrAlgebra.sign` reads —
`dc, nyquist = np.fft.rfft(v)[[0, -1]]` — ARE the two real characters `dc v = Σ v_i` and (even d)
`nyq v = Σ (-1)^i v_i` that the model `C17.Impl.sign` uses, for every dimensionality and every real
vector, and both are real (so the code's `assert np.isclose(dc.imag, 0) and np.isclose(nyquist.imag, 0)`
cannot fail in exact arithmetic).  This discharges the "modelled, not verified" remark of
`Basic/C17.lean` about `rfft(v)[[0, -1]]` (given that `np.fft.rfft` computes `Spectral.rfft`, which the
C12 check ties numerically).  For odd `d` the code overwrites the second coefficient by 0, as the model does.
-/
import SpaModel.Props.C17
import SpaModel.Props.C12S

set_option linter.unusedSectionVars false

namespace C17
namespace HrrFFT
open Alg.Hrr Spectral C12.HrrFFT

variable {k : ℕ}

/-- index `-1` of the half spectrum: `len(rfft(v)) - 1 = d // 2` -/
def lastIndex (k : ℕ) : ℕ := (k + 1) / 2

/-- `rfft(v)[0]` is the sum of the entries -/
theorem rfft_dc (v : Vec k ℝ) : Spectral.rfft (toZ v) 0 = ((Impl.dc v : ℝ) : ℂ) :=
  Spectral.rfft_zero (toZ v)

/-- for even `d`, `rfft(v)[-1]` is the alternating sum -/
theorem rfft_last_even (v : Vec k ℝ) (h : (k + 1) % 2 = 0) :
    Spectral.rfft (toZ v) (lastIndex k) = ((Impl.nyq v : ℝ) : ℂ) := by
  have hm : 2 * lastIndex k = k + 1 := by unfold lastIndex; omega
  rw [Spectral.rfft_nyquist (toZ v) (lastIndex k) hm]
  rfl

/-- both coefficients the code reads are real: the `assert` of `HrrAlgebra.sign` holds -/
theorem sign_assert_holds (v : Vec k ℝ) :
    (Spectral.rfft (toZ v) 0).im = 0 ∧ ((k + 1) % 2 = 0 → (Spectral.rfft (toZ v) (lastIndex k)).im = 0) := by
  refine ⟨?_, fun h => ?_⟩
  · rw [rfft_dc, Complex.ofReal_im]
  · rw [rfft_last_even v h, Complex.ofReal_im]

/-- hence the pair of signs the code computes from the FFT is the pair the model computes -/
theorem sign_reads_characters (v : Vec k ℝ) :
    (Spectral.rfft (toZ v) 0).re = Impl.dc v ∧
    ((k + 1) % 2 = 0 → (Spectral.rfft (toZ v) (lastIndex k)).re = Impl.nyq v) := by
  refine ⟨?_, fun h => ?_⟩
  · rw [rfft_dc, Complex.ofReal_re]
  · rw [rfft_last_even v h, Complex.ofReal_re]

end HrrFFT
end C17

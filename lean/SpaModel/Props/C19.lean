/-
C19 — vector generators deliver vectors with their advertised properties.
Property theorems only (model: SpaModel/Basic/C19.lean).  Everything is for every
dimensionality `d`, every number `n` of vectors, every rational offset, every request number,
every commutative ring of components (ℚ for the floats of the implementation).

Clauses of the statement and where they are:
* axis alignment in order, exhaustion after `d`: `axis_aligned_order`, `axis_aligned_stop`,
  `axis_aligned_orthonormal`
* unit length / components scaled by 1/sqrt(d): `unit_length`, `expected_unit_length`
* mutual orthonormality with exhaustion after `d` vectors: `Ortho.step_orthogonal`,
  `Ortho.next_orthogonal_unit`, `Ortho.reach_orthonormal`, `Ortho.reach_gram`, `Ortho.exhaustion`,
  `Ortho.not_exhausted`, `Ortho.nextFn_refines`, `Ortho.runFn_reach`, `Ortho.stepFn_sound`
* unitarity under the given algebra / requested algebra properties: `unitary_vectors`,
  `hrr_dispatch`, `hrr_rejects_iff`, `mat_dispatch`, `mat_rejects_iff`, `mat_needs_scipy_iff`,
  `mat_warns_iff`, `dispatch_table_*`, `with_properties_every_request`
* equally spaced positive unitary HRR vectors: `Sched.*` (exponent schedule on ℚ: `exponent_eq_spec`,
  `exponent_step`, `exponent_n_steps`, `exponent_offset_zero`, `exponent_refine`, `exponent_shift`,
  `rootTurn_mul_cc`, `rootTurn_principal(_strict)`, `rootTurn_tie_irrelevant`, `coefTurn_dc`,
  `coefTurn_nyquist`, `schedule_shape`) and `Coef.*` (Fourier coefficients under an abstract
  character `E` standing for `t ↦ exp(2πi t)`: `step`, `n_steps_return`, `offset_zero_identity`,
  `dc_one`, `nyquist_one`, `unit_modulus`, `refine`, `shift`, `integer_offset_steps`); all of them
  for both values of the rounding-dependent parameter `tie` (direction of the float root `-1`)
* equal random states ⇒ same sequence: `stream_reproducible`, `Ortho.runFn_reproducible`,
  `Sched.schedule_pure`
-/
import SpaModel.Basic.C19
import Mathlib.Tactic.Ring
import Mathlib.Tactic.Linarith
import Mathlib.Tactic.FieldSimp
import Mathlib.Tactic.NormNum
import Mathlib.Tactic.Push
import Mathlib.Algebra.BigOperators.Ring.Finset
import Mathlib.Algebra.Order.Field.Basic
import Mathlib.Data.Rat.Defs
import Mathlib.Algebra.Order.Ring.Rat

set_option linter.unusedSectionVars false
set_option linter.unusedVariables false

namespace C19
open Alg Impl

variable {R : Type*} [CommRing R]

/-! ### AxisAlignedVectors -/

theorem eye_length (d : ℕ) : (eye (R := R) d).length = d := by simp [eye]

/-- request `t` yields the `t`-th axis, in order; from request `d` on the generator stops -/
theorem axis_aligned_order (d t : ℕ) :
    axisAligned (R := R) d t = if h : t < d then some (Spec.unitVec d ⟨t, h⟩) else none := by
  unfold axisAligned genNext eye
  by_cases h : t < d
  · rw [dif_pos h, List.getElem?_ofFn, dif_pos h]
    congr 1
    funext j
    simp only [Spec.unitVec]
    by_cases e : (⟨t, h⟩ : Fin d) = j
    · simp [e]
    · have e' : ¬ j = ⟨t, h⟩ := fun x => e x.symm
      simp [e, e']
  · rw [dif_neg h, List.getElem?_ofFn, dif_neg h]

/-- the generator can yield exactly `d` vectors -/
theorem axis_aligned_stop (d t : ℕ) : axisAligned (R := R) d t = none ↔ d ≤ t := by
  rw [axis_aligned_order]
  by_cases h : t < d
  · simp [h]
  · simp [h]; omega

theorem dot_unitVec (d : ℕ) (i j : Fin d) :
    Spec.dot (Spec.unitVec (R := R) d i) (Spec.unitVec d j) = if i = j then 1 else 0 := by
  unfold Spec.dot Spec.unitVec
  simp only [ite_mul, one_mul, zero_mul]
  rw [Finset.sum_ite_eq']
  simp only [Finset.mem_univ, if_true]

/-- every yielded vector has unit length and is orthogonal to every other one -/
theorem axis_aligned_orthonormal (d t u : ℕ) (v w : Fin d → R)
    (hv : axisAligned (R := R) d t = some v) (hw : axisAligned (R := R) d u = some w) :
    Spec.dot v w = if t = u then 1 else 0 := by
  rw [axis_aligned_order] at hv hw
  by_cases ht : t < d
  · by_cases hu : u < d
    · rw [dif_pos ht] at hv
      rw [dif_pos hu] at hw
      injection hv with hv
      injection hw with hw
      rw [← hv, ← hw, dot_unitVec]
      by_cases e : t = u
      · simp [e]
      · have : ¬ (⟨t, ht⟩ : Fin d) = ⟨u, hu⟩ := fun x => e (Fin.mk.inj_iff.mp x)
        simp [e, this]
    · rw [dif_neg hu] at hw; cases hw
  · rw [dif_neg ht] at hv; cases hv

/-! ### UnitLengthVectors, ExpectedUnitLengthVectors, UnitaryVectors -/

theorem normSq_scale {d : ℕ} (v : Fin d → R) (x : R) :
    Spec.normSq (fun c => v c * x) = x * x * Spec.normSq v := by
  unfold Spec.normSq Spec.dot
  rw [Finset.mul_sum]
  exact Finset.sum_congr rfl fun c _ => by ring

theorem normSq_scale_of_normInv {d : ℕ} (v : Fin d → R) (x : R) (hx : Spec.IsNormInv v x) :
    Spec.normSq (fun c => v c * x) = 1 := by
  obtain ⟨nrm, h1, h2⟩ := hx
  rw [normSq_scale, ← h1]
  calc x * x * (nrm * nrm) = (nrm * x) * (nrm * x) := by ring
    _ = 1 := by rw [h2]; ring

/-- **UnitLengthVectors**: every vector has (squared) length 1, whatever the draw -/
theorem unit_length {d : ℕ} (draw : Fin d → R) (x : R) (hx : Spec.IsNormInv draw x) :
    Spec.normSq (unitLength draw x) = 1 :=
  normSq_scale_of_normInv draw x hx

/-- **ExpectedUnitLengthVectors**: each component is the draw's component scaled by `1/sqrt(d)`,
hence `d · ‖v‖² = ‖draw‖²` -/
theorem expected_unit_length {d : ℕ} (draw : Fin d → R) (sinv : R) (hs : (d : R) * (sinv * sinv) = 1) :
    (∀ c, expectedUnitLength draw sinv c = draw c * sinv) ∧
    (d : R) * Spec.normSq (expectedUnitLength draw sinv) = Spec.normSq draw := by
  refine ⟨fun _ => rfl, ?_⟩
  unfold expectedUnitLength
  rw [normSq_scale]
  calc (d : R) * (sinv * sinv * Spec.normSq draw) = ((d : R) * (sinv * sinv)) * Spec.normSq draw := by ring
    _ = Spec.normSq draw := by rw [hs, one_mul]

/-- **UnitaryVectors**: if `make_unitary` of the algebra returns vectors with property `P` on
every input, every yielded vector has `P` (the generator adds nothing to `make_unitary`) -/
theorem unitary_vectors {α β : Type*} (makeUnitary : α → β) (P : β → Prop)
    (h : ∀ v, P (makeUnitary v)) (draws : ℕ → α) (t : ℕ) :
    P (streamGen (unitaryNext makeUnitary) draws t) := h _

/-- **reproducibility** of the stream generators: the first `T` answers are a function of the
first `T` draws only -/
theorem stream_reproducible {α β : Type*} (f : α → β) (s s' : ℕ → α) (T : ℕ)
    (h : ∀ t < T, s t = s' t) : ∀ t < T, streamGen f s t = streamGen f s' t := by
  intro t ht
  unfold streamGen
  rw [h t ht]

/-! ### OrthonormalVectors -/
namespace Ortho
open Impl.Ortho
variable {d : ℕ}

theorem sum_split (n : ℕ) (f : Fin d → R) :
    (∑ c with c.val < n, f c) + (∑ c with n ≤ c.val, f c) = ∑ c, f c := by
  have := Finset.sum_filter_add_sum_filter_not (Finset.univ : Finset (Fin d)) (fun c => c.val < n) f
  simpa only [not_lt] using this

theorem dot_comm (a b : Fin d → R) : Spec.dot a b = Spec.dot b a := by
  unfold Spec.dot
  exact Finset.sum_congr rfl fun c _ => mul_comm _ _

/-- with no previous vector the `solve` branch would change nothing -/
theorem solved_nil (v v' : Fin d → R) : Solved [] v v' ↔ v' = v := by
  unfold Solved
  constructor
  · rintro ⟨h, _⟩
    funext c
    exact h c (by simp)
  · rintro rfl
    exact ⟨fun _ _ => rfl, fun p hp => by simp at hp⟩

/-- **one orthogonalisation step**: given only the post-condition of `np.linalg.solve`, the new
vector is orthogonal to every previous one -/
theorem step_orthogonal (prev : List (Fin d → R)) (v v' : Fin d → R) (h : Solved prev v v') :
    ∀ p ∈ prev, Spec.dot p v' = 0 := by
  intro p hp
  obtain ⟨hkeep, hsolve⟩ := h
  unfold Spec.dot
  rw [← sum_split prev.length]
  have a2 : (∑ c with prev.length ≤ c.val, p c * v' c) = ∑ c with prev.length ≤ c.val, p c * v c :=
    Finset.sum_congr rfl fun c hc => by rw [hkeep c (Finset.mem_filter.mp hc).2]
  rw [a2, hsolve p hp]
  ring

theorem dot_scale (p v : Fin d → R) (x : R) : Spec.dot p (fun c => v c * x) = x * Spec.dot p v := by
  unfold Spec.dot
  rw [Finset.mul_sum]
  exact Finset.sum_congr rfl fun c _ => by ring

/-- **one request**: the yielded vector is orthogonal to all previous ones and has unit length -/
theorem next_orthogonal_unit (prev : List (Fin d → R)) (draw w : Fin d → R)
    (h : Next prev draw (some w)) : (∀ p ∈ prev, Spec.dot p w = 0) ∧ Spec.normSq w = 1 := by
  cases h with
  | first h0 hd x hx =>
    refine ⟨?_, normSq_scale_of_normInv draw x hx⟩
    intro p hp
    have : prev = [] := List.eq_nil_of_length_eq_zero h0
    rw [this] at hp
    cases hp
  | solved h0 hd v' hs x hx =>
    refine ⟨?_, normSq_scale_of_normInv v' x hx⟩
    intro p hp
    rw [dot_scale, step_orthogonal prev draw v' hs p hp, mul_zero]

/-- a request stops exactly when `d` vectors were produced -/
theorem next_stop_iff (prev : List (Fin d → R)) (draw : Fin d → R) :
    Next prev draw none ↔ d ≤ prev.length := by
  constructor
  · intro h; cases h; assumption
  · exact fun h => .stop h

theorem next_some_length (prev : List (Fin d → R)) (draw w : Fin d → R)
    (h : Next prev draw (some w)) : prev.length < d := by
  cases h <;> assumption

/-- **invariant over all histories**: the vectors produced so far are orthonormal, and there are
at most `d` of them -/
theorem reach_orthonormal (l : List (Fin d → R)) (h : Reach l) :
    Spec.Orthonormal l ∧ l.length ≤ d := by
  induction h with
  | init => exact ⟨⟨List.Pairwise.nil, fun a ha => by cases ha⟩, Nat.zero_le _⟩
  | @step prev draw w hreach hnext ih =>
    obtain ⟨⟨hpair, hunit⟩, _⟩ := ih
    obtain ⟨horth, hnorm⟩ := next_orthogonal_unit prev draw w hnext
    refine ⟨⟨?_, ?_⟩, ?_⟩
    · rw [List.pairwise_append]
      refine ⟨hpair, List.pairwise_singleton _ _, ?_⟩
      intro a ha b hb
      rw [List.mem_singleton] at hb
      rw [hb]
      exact horth a ha
    · intro a ha
      rw [List.mem_append, List.mem_singleton] at ha
      rcases ha with ha | rfl
      · exact hunit a ha
      · exact hnorm
    · have := next_some_length prev draw w hnext
      simp only [List.length_append, List.length_singleton]
      omega

/-- the Gram matrix of every reachable family is the identity -/
theorem reach_gram (l : List (Fin d → R)) (h : Reach l) (i j : ℕ) (hi : i < l.length) (hj : j < l.length) :
    Spec.dot l[i] l[j] = if i = j then 1 else 0 := by
  obtain ⟨⟨hpair, hunit⟩, _⟩ := reach_orthonormal l h
  rw [List.pairwise_iff_getElem] at hpair
  by_cases e : i = j
  · subst e
    simp only [if_true]
    exact hunit _ (List.getElem_mem hi)
  · simp only [if_neg e]
    rcases Nat.lt_or_gt_of_ne e with hlt | hgt
    · exact hpair i j hi hj hlt
    · rw [dot_comm]
      exact hpair j i hj hi hgt

/-- **exhaustion after `d` vectors**: once `d` vectors were produced the next request stops
(and every later one, the state being unchanged) -/
theorem exhaustion (l : List (Fin d → R)) (h : Reach l) (hl : l.length = d) (draw : Fin d → R)
    (r : Option (Fin d → R)) (hn : Next l draw r) : r = none := by
  cases r with
  | none => rfl
  | some w => have := next_some_length l draw w hn; omega

/-- … and not earlier: with fewer than `d` vectors a request never answers StopIteration -/
theorem not_exhausted (l : List (Fin d → R)) (hl : l.length < d) (draw : Fin d → R)
    (r : Option (Fin d → R)) (hn : Next l draw r) : ∃ w, r = some w := by
  cases r with
  | none => have := (next_stop_iff l draw).1 hn; omega
  | some w => exact ⟨w, rfl⟩

/-- the functional reading of `__next__` is an instance of the relation whenever `solve` and the
inverse norm satisfy their post-conditions on the vectors that occur -/
theorem nextFn_refines (solve : List (Fin d → R) → (Fin d → R) → (Fin d → R)) (ninv : (Fin d → R) → R)
    (prev : List (Fin d → R)) (draw : Fin d → R)
    (hsolve : ∀ p ∈ prev, (∑ c with c.val < prev.length, p c * solve prev draw c)
        = -(∑ c with prev.length ≤ c.val, p c * draw c))
    (hninv : ∀ v, Spec.IsNormInv v (ninv v)) :
    Next prev draw (nextFn solve ninv prev draw) := by
  unfold nextFn
  by_cases h1 : d ≤ prev.length
  · rw [if_pos h1]; exact .stop h1
  · rw [if_neg h1]
    by_cases h2 : prev.length = 0
    · rw [if_pos h2]
      exact .first h2 (by omega) _ (hninv draw)
    · rw [if_neg h2]
      refine .solved (by omega) (by omega) _ ⟨?_, ?_⟩ _ (hninv _)
      · intro c hc
        simp only [if_neg (not_lt.mpr hc)]
      · intro p hp
        rw [← hsolve p hp]
        exact Finset.sum_congr rfl fun c hc => by
          simp only [if_pos (Finset.mem_filter.mp hc).2]

/-- hence every state of a functional run is reachable: the produced family is orthonormal -/
theorem runFn_reach (solve : List (Fin d → R) → (Fin d → R) → (Fin d → R)) (ninv : (Fin d → R) → R)
    (draws : ℕ → Fin d → R)
    (hsolve : ∀ prev draw, ∀ p ∈ prev, (∑ c with c.val < prev.length, p c * solve prev draw c)
        = -(∑ c with prev.length ≤ c.val, p c * draw c))
    (hninv : ∀ v, Spec.IsNormInv v (ninv v)) (T : ℕ) :
    Reach (runFn solve ninv draws T).1 := by
  induction T with
  | zero => exact .init
  | succ T ih =>
    simp only [runFn]
    have hn := nextFn_refines solve ninv (runFn solve ninv draws T).1 (draws T)
      (hsolve _ _) hninv
    cases hx : nextFn solve ninv (runFn solve ninv draws T).1 (draws T) with
    | none => simpa [hx] using ih
    | some w =>
      rw [hx] at hn
      simpa [hx] using Reach.step ih hn

/-- **reproducibility**: state and answers after `T` requests are a function of the first `T`
draws only -/
theorem runFn_reproducible (solve : List (Fin d → R) → (Fin d → R) → (Fin d → R)) (ninv : (Fin d → R) → R)
    (s s' : ℕ → Fin d → R) (T : ℕ) (h : ∀ t < T, s t = s' t) :
    runFn solve ninv s T = runFn solve ninv s' T := by
  induction T with
  | zero => rfl
  | succ T ih =>
    have e := ih fun t ht => h t (by omega)
    simp only [runFn, e, h T (by omega)]

/-- the number of answers equals the number of requests, and at most `d` of them are vectors -/
theorem runFn_lengths (solve : List (Fin d → R) → (Fin d → R) → (Fin d → R)) (ninv : (Fin d → R) → R)
    (draws : ℕ → Fin d → R) (T : ℕ) :
    (runFn solve ninv draws T).2.length = T ∧ (runFn solve ninv draws T).1.length = min T d := by
  induction T with
  | zero => simp [runFn]
  | succ T ih =>
    obtain ⟨h1, h2⟩ := ih
    simp only [runFn]
    unfold nextFn
    by_cases c1 : d ≤ (runFn solve ninv draws T).1.length
    · simp only [if_pos c1, List.length_append, List.length_singleton, h1, true_and]
      omega
    · by_cases c2 : (runFn solve ninv draws T).1.length = 0
      · simp only [if_neg c1, if_pos c2, List.length_append, List.length_singleton, h1, true_and]
        omega
      · simp only [if_neg c1, if_neg c2, List.length_append, List.length_singleton, h1, true_and]
        omega

/-- the executable step of the driver certifies the post-condition of `solve` itself -/
theorem stepFn_sound [DecidableEq R] (cand : List (Fin d → R) → (Fin d → R) → Option (Fin d → R))
    (prev : List (Fin d → R)) (draw v' : Fin d → R) (h : stepFn cand prev draw = some (some v')) :
    prev.length < d ∧ Solved prev draw v' := by
  unfold stepFn at h
  by_cases h1 : d ≤ prev.length
  · simp [h1] at h
  · rw [if_neg h1] at h
    refine ⟨by omega, ?_⟩
    by_cases h2 : prev.length = 0
    · rw [if_pos h2] at h
      injection h with h; injection h with h
      have : prev = [] := List.eq_nil_of_length_eq_zero h2
      rw [this, solved_nil, h]
    · rw [if_neg h2] at h
      cases hc : cand prev draw with
      | none => simp [hc] at h
      | some x =>
        simp only [hc] at h
        split at h
        · next hall =>
          injection h with h; injection h with h
          rw [List.all_eq_true] at hall
          subst h
          refine ⟨?_, ?_⟩
          · intro c hc'
            simp only [if_neg (not_lt.mpr hc')]
          · intro p hp
            exact of_decide_eq_true (hall p hp)
        · cases h

theorem stepFn_stop_iff [DecidableEq R] (cand : List (Fin d → R) → (Fin d → R) → Option (Fin d → R))
    (prev : List (Fin d → R)) (draw : Fin d → R) : stepFn cand prev draw = some none ↔ d ≤ prev.length := by
  unfold stepFn
  by_cases h1 : d ≤ prev.length
  · simp [h1]
  · simp only [h1, iff_false]
    by_cases h2 : prev.length = 0
    · simp [h2]
    · rw [if_neg h2]
      cases cand prev draw with
      | none => simp
      | some x => simp only []; split <;> (simp; try assumption)

end Ortho

/-! ### create_vector / VectorsWithProperties -/

theorem leftover_nil_iff (props : List PropTok) : leftover props = [] ↔ Spec.Valid props := by
  unfold leftover Spec.Valid
  rw [List.filter_eq_nil_iff]
  constructor
  · intro h p hp
    have := h p hp
    cases p <;> simp_all
  · intro h p hp
    rcases h p hp with rfl | rfl <;> simp

theorem leftover_isEmpty_iff (props : List PropTok) : (leftover props).isEmpty = true ↔ Spec.Valid props := by
  rw [List.isEmpty_iff, leftover_nil_iff]

/-- **HRR**: a vector is returned exactly for the documented property sets, it is made to
advertise exactly the requested properties, and one draw is consumed -/
theorem hrr_dispatch (props : List PropTok) :
    (∃ k, createHrr props = .vector k 1 false ∧ Spec.Advertises k (hasU props) (hasP props))
      ↔ Spec.Valid props := by
  rw [← leftover_isEmpty_iff]
  unfold createHrr
  cases hP : hasP props <;> cases hU : hasU props <;> cases hE : (leftover props).isEmpty <;>
    simp [Spec.Advertises]

/-- **HRR**: everything else is rejected with ValueError (after the draw was consumed) -/
theorem hrr_rejects_iff (props : List PropTok) :
    createHrr props = .invalid 1 false ↔ ¬ Spec.Valid props := by
  rw [← leftover_isEmpty_iff]
  unfold createHrr
  cases hE : (leftover props).isEmpty <;> simp

theorem isSquare_iff (d : ℕ) : isSquare d = true ↔ ∃ m, m * m = d := by
  unfold isSquare
  rw [beq_iff_eq, Nat.exists_mul_self]

/-- **VTB/TVTB** (square `d`): a vector is returned exactly for the documented property sets that
do not need SciPy (`scipy = false`: everything except *positive alone*), and it advertises the
requested properties; unitary+positive gives the identity element -/
theorem mat_dispatch (scipy : Bool) (props : List PropTok) :
    (∃ k n w, createMat scipy true props = .vector k n w ∧ Spec.Advertises k (hasU props) (hasP props))
      ↔ (Spec.Valid props ∧ (hasP props = true → hasU props = false → scipy = true)) := by
  rw [← leftover_isEmpty_iff]
  unfold createMat
  cases hP : hasP props <;> cases hU : hasU props <;> cases hE : (leftover props).isEmpty <;>
    cases scipy <;> simp [Spec.Advertises]

/-- **VTB/TVTB**: unknown properties are rejected with ValueError — except that *positive without
unitary* fails earlier with ImportError when SciPy is missing -/
theorem mat_rejects_iff (scipy : Bool) (props : List PropTok) :
    (∃ n w, createMat scipy true props = .invalid n w)
      ↔ (¬ Spec.Valid props ∧ ¬ (hasP props = true ∧ hasU props = false ∧ scipy = false)) := by
  rw [← leftover_isEmpty_iff]
  unfold createMat
  cases hP : hasP props <;> cases hU : hasU props <;> cases hE : (leftover props).isEmpty <;>
    cases scipy <;> simp

theorem mat_needs_scipy_iff (scipy sq : Bool) (props : List PropTok) :
    createMat scipy sq props = .needsSciPy
      ↔ (hasP props = true ∧ hasU props = false ∧ scipy = false) := by
  unfold createMat
  cases hP : hasP props <;> cases hU : hasU props <;> cases hE : (leftover props).isEmpty <;>
    cases scipy <;> cases sq <;> simp

/-- the warning ("the only positive unitary vector is the identity") is issued exactly when both
properties are requested (and `d` is a square), and then no draw is consumed -/
theorem mat_warns_iff (scipy : Bool) (props : List PropTok) :
    ((∃ k n, createMat scipy true props = .vector k n true) ∨ (∃ n, createMat scipy true props = .invalid n true))
      ↔ (hasU props = true ∧ hasP props = true) := by
  unfold createMat
  cases hP : hasP props <;> cases hU : hasU props <;> cases hE : (leftover props).isEmpty <;>
    cases scipy <;> simp

/-- a non-square dimensionality is refused whenever the matrix structure is needed; without a
requested property it is accepted (a plain unit-length vector needs no matrix) -/
theorem mat_not_square (scipy : Bool) (d : ℕ) (hd : ¬ ∃ m, m * m = d) (props : List PropTok) :
    (hasU props = true → ∃ n, create .vtb scipy d props = .notSquare n) ∧
    (hasU props = true → ∃ n, create .tvtb scipy d props = .notSquare n) ∧
    (props = [] → create .vtb scipy d props = .vector .plain 1 false) := by
  have hsq : isSquare d = false := by
    rw [← Bool.not_eq_true, isSquare_iff]; exact hd
  refine ⟨?_, ?_, ?_⟩
  · intro hU
    unfold create createMat
    cases hP : hasP props <;> simp [hU, hsq]
  · intro hU
    unfold create createMat
    cases hP : hasP props <;> simp [hU, hsq]
  · rintro rfl
    simp [create, createMat, hasU, hasP, leftover]

/-- the decision table over the power set of {unitary, positive, some unknown name}, HRR -/
theorem dispatch_table_hrr :
    ([PropTok.unitary, .positive, .other "x"].sublists.map createHrr) =
      [.vector .plain 1 false, .vector .unitary 1 false, .vector .positive 1 false,
       .vector .positiveUnitary 1 false, .invalid 1 false, .invalid 1 false, .invalid 1 false,
       .invalid 1 false] := by decide

/-- … VTB and TVTB without SciPy (the pinned environment), square `d` -/
theorem dispatch_table_mat :
    ([PropTok.unitary, .positive, .other "x"].sublists.map (createMat false true)) =
      [.vector .plain 1 false, .vector .unitary 1 false, .needsSciPy,
       .vector .identity 0 true, .invalid 1 false, .invalid 1 false, .needsSciPy,
       .invalid 0 true] := by decide

/-- … and with SciPy -/
theorem dispatch_table_mat_scipy :
    ([PropTok.unitary, .positive, .other "x"].sublists.map (createMat true true)) =
      [.vector .plain 1 false, .vector .unitary 1 false, .vector .positive 1 false,
       .vector .identity 0 true, .invalid 1 false, .invalid 1 false, .invalid 1 false,
       .invalid 0 true] := by decide

/-- the outcome depends on the *set* of properties only (order and repetitions are irrelevant) -/
theorem create_set_invariant (alg : AlgName) (scipy : Bool) (d : ℕ) (p q : List PropTok)
    (h : ∀ x, x ∈ p ↔ x ∈ q) : create alg scipy d p = create alg scipy d q := by
  have hU : hasU p = hasU q := by
    unfold hasU
    rw [Bool.eq_iff_iff]; simp [h]
  have hP : hasP p = hasP q := by
    unfold hasP
    rw [Bool.eq_iff_iff]; simp [h]
  have hE : (leftover p).isEmpty = (leftover q).isEmpty := by
    rw [Bool.eq_iff_iff, leftover_isEmpty_iff, leftover_isEmpty_iff]
    unfold Spec.Valid
    constructor
    · intro hv x hx; exact hv x ((h x).2 hx)
    · intro hv x hx; exact hv x ((h x).1 hx)
  cases alg <;> simp only [create, createHrr, createMat, hU, hP, hE]

/-- **VectorsWithProperties**: every request (not only the first) is the same `create_vector`
call; the generator never stops by itself -/
theorem with_properties_every_request (alg : AlgName) (scipy : Bool) (d : ℕ) (props : List PropTok) (t : ℕ) :
    withPropertiesNext alg scipy d props t = create alg scipy d props := rfl

/-! ### EquallySpacedPositiveUnitaryHrrVectors: the exponent schedule -/
namespace Sched

/-- the half spectrum has `d//2 + 1` coefficients, which is what `irfft(…, n=d)` consumes -/
theorem nCoef_eq (d : ℕ) : nCoef d = d / 2 + 1 := by
  unfold nCoef cc
  omega

theorem rootIdxs_length (d : ℕ) : (rootIdxs d).length = d / 2 + 1 := by
  simp [rootIdxs, nCoef_eq]

/-- the DC coefficient uses root index `cc` (the root `exp(2πi) = 1`) -/
theorem rootIdx_dc (d : ℕ) : rootIdx d 0 = cc d := rfl

/-- odd `d`: the last coefficient uses root index 1, index 0 is not used (no Nyquist entry) -/
theorem rootIdx_last_odd (d : ℕ) (h : d % 2 = 1) : rootIdx d (nCoef d - 1) = 1 := by
  unfold rootIdx nCoef cc
  omega

/-- even `d`: the last (Nyquist) coefficient is number `cc` and uses root index 0 -/
theorem rootIdx_last_even (d : ℕ) (h : d % 2 = 0) : nCoef d - 1 = cc d ∧ rootIdx d (cc d) = 0 := by
  unfold rootIdx nCoef cc
  omega

theorem cc_pos (d : ℕ) (hd : 1 ≤ d) : 1 ≤ cc d := by
  unfold cc; omega

/-- the exponent the code computes (offset term + `linspace`) is the position `(k + offset)/n`
of the full period `cc` -/
theorem exponent_eq_spec (d n : ℕ) (hn : n ≠ 0) (off : ℚ) (k : ℕ) :
    exponent d n off k = Spec.exponent (cc d) n off k := by
  unfold exponent linspace exponentsOffset Spec.exponent
  have : (n : ℚ) ≠ 0 := by exact_mod_cast hn
  field_simp
  ring

/-- **fixed step**: consecutive exponents differ by `cc/n`, independent of `k` and of the offset -/
theorem exponent_step (d n : ℕ) (off : ℚ) (k : ℕ) :
    exponent d n off (k + 1) - exponent d n off k = (cc d : ℚ) / n := by
  unfold exponent linspace exponentsOffset
  push_cast
  ring

/-- **n steps add up to the full period `cc`** -/
theorem exponent_n_steps (d n : ℕ) (hn : n ≠ 0) (off : ℚ) (k : ℕ) :
    exponent d n off (k + n) - exponent d n off k = (cc d : ℚ) := by
  unfold exponent linspace exponentsOffset
  have : (n : ℚ) ≠ 0 := by exact_mod_cast hn
  push_cast
  field_simp
  ring

/-- any number of steps: `m` steps add `m · cc/n` -/
theorem exponent_steps (d n : ℕ) (off : ℚ) (k m : ℕ) :
    exponent d n off (k + m) - exponent d n off k = (m : ℚ) * ((cc d : ℚ) / n) := by
  unfold exponent linspace exponentsOffset
  push_cast
  ring

/-- **offset 0 ⇒ first exponent 0** (all coefficients are `root⁰ = 1`: the identity vector) -/
theorem exponent_offset_zero (d n : ℕ) : exponent d n 0 0 = 0 := by
  unfold exponent linspace exponentsOffset
  simp

/-- an offset of 1 is one step: the documented meaning of "offset" -/
theorem exponent_offset_one (d n : ℕ) (hn : n ≠ 0) : exponent d n 1 0 = (cc d : ℚ) / n := by
  rw [exponent_eq_spec d n hn]
  unfold Spec.exponent
  simp

/-- **refinement law 1**: `V(n, p/q)[k] = V(n·q, 0)[k·q + p]` on the schedule — the vector at
offset `p/q` is a member of the `q`-times finer offset-0 family (also for negative `p`, as long
as the index `k·q + p` is a natural number `m`) -/
theorem exponent_refine (d n q : ℕ) (hn : n ≠ 0) (hq : q ≠ 0) (p : ℤ) (k m : ℕ)
    (hm : (m : ℤ) = k * q + p) :
    exponent d n ((p : ℚ) / q) k = exponent d (n * q) 0 m := by
  rw [exponent_eq_spec d n hn, exponent_eq_spec d (n * q) (Nat.mul_ne_zero hn hq)]
  unfold Spec.exponent
  have h1 : (n : ℚ) ≠ 0 := by exact_mod_cast hn
  have h2 : (q : ℚ) ≠ 0 := by exact_mod_cast hq
  have h3 : (m : ℚ) = k * q + p := by exact_mod_cast hm
  rw [h3]
  push_cast
  field_simp
  ring

/-- **refinement law 2**: `V(n, o)[k] = V(n, o + k)[0]` on the schedule -/
theorem exponent_shift (d n : ℕ) (hn : n ≠ 0) (off : ℚ) (k : ℕ) :
    exponent d n off k = exponent d n (off + k) 0 := by
  rw [exponent_eq_spec d n hn, exponent_eq_spec d n hn]
  unfold Spec.exponent
  push_cast
  ring

/-- the angle used for a root is a principal one: `rootTurn ∈ [-1/2, 1/2]` … -/
theorem rootTurn_principal (tie : Bool) (d idx : ℕ) (hd : 1 ≤ d) (hi : idx ≤ cc d) :
    -(1/2 : ℚ) ≤ rootTurn tie d idx ∧ rootTurn tie d idx ≤ 1/2 := by
  have hc : (0 : ℚ) < cc d := by exact_mod_cast cc_pos d hd
  have hi' : (idx : ℚ) ≤ cc d := by exact_mod_cast hi
  unfold rootTurn
  split
  · next h =>
    have h' : (2 : ℚ) * idx ≤ cc d := by
      have : 2 * idx ≤ cc d := by omega
      exact_mod_cast this
    refine ⟨?_, ?_⟩
    · have : (0 : ℚ) ≤ (idx : ℚ) / cc d := div_nonneg (by positivity) hc.le
      linarith
    · rw [div_le_iff₀ hc]; linarith
  · next h =>
    have h' : (cc d : ℚ) ≤ 2 * idx := by
      have : cc d ≤ 2 * idx := by omega
      exact_mod_cast this
    refine ⟨?_, ?_⟩
    · have : (1/2 : ℚ) ≤ (idx : ℚ) / cc d := by rw [le_div_iff₀ hc]; linarith
      linarith
    · have : (idx : ℚ) / cc d ≤ 1 := by rw [div_le_one hc]; exact hi'
      linarith

/-- … strictly inside except for the root `-1` -/
theorem rootTurn_principal_strict (tie : Bool) (d idx : ℕ) (hd : 1 ≤ d) (hi : idx ≤ cc d) (hne : 2 * idx ≠ cc d) :
    -(1/2 : ℚ) < rootTurn tie d idx ∧ rootTurn tie d idx < 1/2 := by
  have hc : (0 : ℚ) < cc d := by exact_mod_cast cc_pos d hd
  have hi' : (idx : ℚ) ≤ cc d := by exact_mod_cast hi
  unfold rootTurn
  split
  · next h =>
    have h' : (2 : ℚ) * idx < cc d := by
      have : 2 * idx < cc d := by omega
      exact_mod_cast this
    refine ⟨?_, ?_⟩
    · have : (0 : ℚ) ≤ (idx : ℚ) / cc d := div_nonneg (by positivity) hc.le
      linarith
    · rw [div_lt_iff₀ hc]; linarith
  · next h =>
    have h' : (cc d : ℚ) < 2 * idx := by
      have : cc d < 2 * idx := by omega
      exact_mod_cast this
    refine ⟨?_, ?_⟩
    · have : (1/2 : ℚ) < (idx : ℚ) / cc d := by rw [lt_div_iff₀ hc]; linarith
      linarith
    · have : (idx : ℚ) / cc d ≤ 1 := by rw [div_le_one hc]; exact hi'
      linarith

/-- the rounding-dependent choice only concerns the root `-1` -/
theorem rootTurn_tie_irrelevant (d idx : ℕ) (hne : 2 * idx ≠ cc d) :
    rootTurn true d idx = rootTurn false d idx := by
  unfold rootTurn
  simp [hne]

/-- … and it differs from `idx/cc` by a whole turn at most (same complex number) -/
theorem rootTurn_congr (tie : Bool) (d idx : ℕ) : ∃ z : ℤ, rootTurn tie d idx = (idx : ℚ) / cc d - z := by
  unfold rootTurn
  split
  · exact ⟨0, by simp⟩
  · exact ⟨1, by simp⟩

/-- **every root used is a `cc`-th root of unity**: `cc` times its angle is a whole number of turns -/
theorem rootTurn_mul_cc (tie : Bool) (d idx : ℕ) (hd : 1 ≤ d) : ∃ z : ℤ, rootTurn tie d idx * (cc d : ℚ) = z := by
  have hc : (cc d : ℚ) ≠ 0 := by
    have := cc_pos d hd
    exact_mod_cast (by omega : cc d ≠ 0)
  unfold rootTurn
  split
  · exact ⟨idx, by push_cast; field_simp⟩
  · exact ⟨(idx : ℤ) - cc d, by push_cast; field_simp⟩

/-- the DC coefficient has angle 0 for every vector: it is `1` (positive DC sign) -/
theorem coefTurn_dc (tie : Bool) (d n : ℕ) (hd : 1 ≤ d) (off : ℚ) (k : ℕ) : coefTurn tie d n off k 0 = 0 := by
  have hc := cc_pos d hd
  have hc' : (cc d : ℚ) ≠ 0 := by exact_mod_cast (by omega : cc d ≠ 0)
  unfold coefTurn
  rw [rootIdx_dc]
  unfold rootTurn
  rw [if_neg (by omega)]
  rw [div_self hc']
  ring

/-- even `d`: the Nyquist coefficient has angle 0 for every vector: it is `1` (positive Nyquist sign) -/
theorem coefTurn_nyquist (tie : Bool) (d n : ℕ) (hd : 1 ≤ d) (h : d % 2 = 0) (off : ℚ) (k : ℕ) :
    coefTurn tie d n off k (cc d) = 0 := by
  have hc := cc_pos d hd
  unfold coefTurn
  rw [(rootIdx_last_even d h).2]
  unfold rootTurn
  rw [if_pos (Or.inl (by omega))]
  simp

/-- **step law on the phases**: one fixed step `rootTurn · cc/n` per coefficient -/
theorem coefTurn_step (tie : Bool) (d n : ℕ) (off : ℚ) (k j : ℕ) :
    coefTurn tie d n off (k + 1) j = coefTurn tie d n off k j + rootTurn tie d (rootIdx d j) * ((cc d : ℚ) / n) := by
  have := exponent_step d n off k
  unfold coefTurn
  rw [← this]
  ring

/-- the step is the second vector of the offset-0 family (`V(n, 0)[1] = V(n, 1)[0]`) -/
theorem coefTurn_step_is_vector (tie : Bool) (d n : ℕ) (hn : n ≠ 0) (j : ℕ) :
    coefTurn tie d n 0 1 j = rootTurn tie d (rootIdx d j) * ((cc d : ℚ) / n) := by
  have := coefTurn_step tie d n 0 0 j
  rw [this]
  unfold coefTurn
  rw [exponent_offset_zero]
  ring

/-- **n steps return to the start**: the phase advances by a whole number of turns -/
theorem coefTurn_return (tie : Bool) (d n : ℕ) (hd : 1 ≤ d) (hn : n ≠ 0) (off : ℚ) (k j : ℕ) :
    ∃ z : ℤ, coefTurn tie d n off (k + n) j = coefTurn tie d n off k j + z := by
  obtain ⟨z, hz⟩ := rootTurn_mul_cc tie d (rootIdx d j) hd
  refine ⟨z, ?_⟩
  have := exponent_n_steps d n hn off k
  unfold coefTurn
  rw [← hz, ← this]
  ring

/-- **offset 0 ⇒ the first vector has all phases 0** -/
theorem coefTurn_offset_zero (tie : Bool) (d n j : ℕ) : coefTurn tie d n 0 0 j = 0 := by
  unfold coefTurn
  rw [exponent_offset_zero]
  ring

theorem coefTurn_refine (tie : Bool) (d n q : ℕ) (hn : n ≠ 0) (hq : q ≠ 0) (p : ℤ) (k m j : ℕ)
    (hm : (m : ℤ) = k * q + p) :
    coefTurn tie d n ((p : ℚ) / q) k j = coefTurn tie d (n * q) 0 m j := by
  unfold coefTurn
  rw [exponent_refine d n q hn hq p k m hm]

theorem coefTurn_shift (tie : Bool) (d n : ℕ) (hn : n ≠ 0) (off : ℚ) (k j : ℕ) :
    coefTurn tie d n off k j = coefTurn tie d n (off + k) 0 j := by
  unfold coefTurn
  rw [exponent_shift d n hn off k]

/-- the generator holds exactly `n` vectors of `d//2 + 1` coefficients each (at most `n` vectors
are returned); `n = 0` is an error -/
theorem schedule_shape (tie : Bool) (d n : ℕ) (off : ℚ) :
    (n = 0 → schedule tie d n off = .error .zeroDivision) ∧
    (n ≠ 0 → ∃ rows, schedule tie d n off = .ok rows ∧ rows.length = n ∧
      ∀ k (hk : k < rows.length), rows[k].length = d / 2 + 1 ∧
        ∀ j (hj : j < rows[k].length), rows[k][j] = coefTurn tie d n off k j) := by
  unfold schedule
  refine ⟨fun h => by simp [h], fun h => ?_⟩
  rw [if_neg h]
  refine ⟨_, rfl, by simp, ?_⟩
  intro k hk
  simp [nCoef_eq]

/-- **reproducibility**: the table is a function of `(d, n, offset)`: no random state is involved -/
theorem schedule_pure (tie : Bool) (d n : ℕ) (off off' : ℚ) (h : off = off') : schedule tie d n off = schedule tie d n off' := by
  rw [h]

end Sched

/-! ### the Fourier coefficients under a character

`E t` stands for `exp(2πi t)`: a map from `(ℚ, +)` into a commutative group with
`E (a + b) = E a * E b` and `E 1 = 1`.  (That `exp` has these laws, and that `irfft` turns the
coefficient-wise product into circular convolution, is outside the model.) -/
namespace Coef
open Sched

variable {M : Type*} [CommGroup M] (E : ℚ → M)

theorem E_zero (hadd : ∀ a b, E (a + b) = E a * E b) : E 0 = 1 := by
  have h := hadd 0 0
  rw [add_zero] at h
  exact (mul_eq_left.mp h.symm)

theorem E_nat (hadd : ∀ a b, E (a + b) = E a * E b) (hone : E 1 = 1) (n : ℕ) : E (n : ℚ) = 1 := by
  induction n with
  | zero => simpa using E_zero E hadd
  | succ n ih => push_cast; rw [hadd, ih, hone, one_mul]

theorem E_neg (hadd : ∀ a b, E (a + b) = E a * E b) (a : ℚ) : E (-a) = (E a)⁻¹ := by
  have h := hadd a (-a)
  rw [add_neg_cancel, E_zero E hadd] at h
  exact eq_inv_of_mul_eq_one_right h.symm

theorem E_int (hadd : ∀ a b, E (a + b) = E a * E b) (hone : E 1 = 1) (z : ℤ) : E (z : ℚ) = 1 := by
  cases z with
  | ofNat n => simpa using E_nat E hadd hone n
  | negSucc n =>
    have : ((Int.negSucc n : ℤ) : ℚ) = -((n + 1 : ℕ) : ℚ) := by
      rw [Int.negSucc_eq]; push_cast; ring
    rw [this, E_neg E hadd, E_nat E hadd hone, inv_one]

/-- **each vector is obtained from the previous one by binding with one fixed step** (coefficient
`j` is multiplied by the step's coefficient `j`, which depends neither on `k` nor on the offset) -/
theorem step (tie : Bool) (hadd : ∀ a b, E (a + b) = E a * E b) (d n : ℕ) (hn : n ≠ 0) (off : ℚ) (k j : ℕ) :
    coef E tie d n off (k + 1) j = coef E tie d n off k j * coef E tie d n 0 1 j := by
  unfold coef
  rw [coefTurn_step, hadd, coefTurn_step_is_vector tie d n hn]

/-- **the step returns to the first vector after `n` steps** -/
theorem n_steps_return (tie : Bool) (hadd : ∀ a b, E (a + b) = E a * E b) (hone : E 1 = 1)
    (d n : ℕ) (hd : 1 ≤ d) (hn : n ≠ 0) (off : ℚ) (k j : ℕ) :
    coef E tie d n off (k + n) j = coef E tie d n off k j := by
  obtain ⟨z, hz⟩ := coefTurn_return tie d n hd hn off k j
  unfold coef
  rw [hz, hadd, E_int E hadd hone, mul_one]

/-- **offset 0 ⇒ the first vector is the identity** (all Fourier coefficients are 1) -/
theorem offset_zero_identity (tie : Bool) (hadd : ∀ a b, E (a + b) = E a * E b) (d n j : ℕ) :
    coef E tie d n 0 0 j = 1 := by
  unfold coef
  rw [coefTurn_offset_zero, E_zero E hadd]

/-- **positive sign**: the DC coefficient of every vector is 1 … -/
theorem dc_one (tie : Bool) (hadd : ∀ a b, E (a + b) = E a * E b) (d n : ℕ) (hd : 1 ≤ d) (off : ℚ) (k : ℕ) :
    coef E tie d n off k 0 = 1 := by
  unfold coef
  rw [coefTurn_dc tie d n hd, E_zero E hadd]

/-- … and for even `d` so is the Nyquist coefficient -/
theorem nyquist_one (tie : Bool) (hadd : ∀ a b, E (a + b) = E a * E b) (d n : ℕ) (hd : 1 ≤ d) (h : d % 2 = 0) (off : ℚ) (k : ℕ) :
    coef E tie d n off k (cc d) = 1 := by
  unfold coef
  rw [coefTurn_nyquist tie d n hd h, E_zero E hadd]

/-- **unitary**: every coefficient has modulus 1 — its conjugate `E (-t)` is its inverse -/
theorem unit_modulus (tie : Bool) (hadd : ∀ a b, E (a + b) = E a * E b) (d n : ℕ) (off : ℚ) (k j : ℕ) :
    coef E tie d n off k j * E (-(coefTurn tie d n off k j)) = 1 := by
  unfold coef
  rw [E_neg E hadd, mul_inv_cancel]

/-- **the first vector lies at the requested offset** (refinement laws on the coefficients) -/
theorem refine (tie : Bool) (d n q : ℕ) (hn : n ≠ 0) (hq : q ≠ 0) (p : ℤ) (k m j : ℕ)
    (hm : (m : ℤ) = k * q + p) :
    coef E tie d n ((p : ℚ) / q) k j = coef E tie d (n * q) 0 m j := by
  unfold coef
  rw [coefTurn_refine tie d n q hn hq p k m j hm]

theorem shift (tie : Bool) (d n : ℕ) (hn : n ≠ 0) (off : ℚ) (k j : ℕ) :
    coef E tie d n off k j = coef E tie d n (off + k) 0 j := by
  unfold coef
  rw [coefTurn_shift tie d n hn]

/-- an integer offset `o` is `o` steps from the identity -/
theorem integer_offset_steps (tie : Bool) (hadd : ∀ a b, E (a + b) = E a * E b) (d n : ℕ) (hn : n ≠ 0) (o j : ℕ) :
    coef E tie d n (o : ℚ) 0 j = coef E tie d n 0 o j := by
  have := shift E tie d n hn 0 o j
  rw [zero_add] at this
  exact this.symm

end Coef

/-! ### non-vacuity -/

/-- a concrete orthogonalisation step over ℚ (d = 2, previous vector (3/5, 4/5), draw (7, 1)) -/
example : Impl.Ortho.Solved (d := 2) (R := ℚ) [![3/5, 4/5]] ![7, 1] ![-4/3, 1] := by
  refine ⟨?_, ?_⟩
  · intro c hc
    fin_cases c <;> simp at hc ⊢
  · intro p hp
    simp only [List.mem_singleton] at hp
    subst hp
    decide +kernel

example : Spec.IsNormInv (d := 2) (R := ℚ) ![3, 4] (1/5) := ⟨5, by
  rw [Spec.normSq, Spec.dot, Fin.sum_univ_two]
  simp only [Matrix.cons_val_zero, Matrix.cons_val_one]
  norm_num, by norm_num⟩

example : Impl.coefTurn false 4 2 (1/2) 1 1 = 3/4 ∧ Impl.coefTurn true 4 2 (1/2) 1 1 = -3/4 := by
  norm_num [Impl.coefTurn, Impl.rootTurn, Impl.rootIdx, Impl.cc, Impl.exponent, Impl.linspace,
    Impl.exponentsOffset]
example : Impl.coefTurn true 5 3 0 2 2 = 2/3 := by
  norm_num [Impl.coefTurn, Impl.rootTurn, Impl.rootIdx, Impl.cc, Impl.exponent, Impl.linspace,
    Impl.exponentsOffset]
example : Impl.rootIdxs 5 = [3, 2, 1] ∧ Impl.rootIdxs 6 = [3, 2, 1, 0] := by decide
example : Impl.create .hrr false 7 [.positive, .unitary] = .vector .positiveUnitary 1 false := by decide
example : Impl.createMat false true [.positive] = .needsSciPy := by decide
example : Impl.createMat false false [.unitary] = .notSquare 1 := by decide

end C19

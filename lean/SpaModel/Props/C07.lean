/-
C07 — Semantic Pointer operators are the algebra lifted to immutable values.
Property theorems only (model: SpaModel/Basic/C07.lean).  Every theorem is for an arbitrary
environment of algebra objects `E` (ANY implementation of the algebra interface, no laws
unless a hypothesis says so), an arbitrary default algebra, arbitrary finite dimensionality
and arbitrary vectors over any commutative ring (ordered field for division and the
similarity measures).
-/
import SpaModel.Basic.C07
import SpaModel.Props.C02
import Mathlib.Tactic.Ring
import Mathlib.Tactic.Linarith
import Mathlib.Tactic.FieldSimp
import Mathlib.Algebra.Order.BigOperators.Ring.Finset

open scoped Matrix

set_option linter.unusedSectionVars false
set_option linter.unusedSimpArgs false

namespace C07
open Impl

/-! ### scalar classification -/

/-- `is_number` accepts exactly Python numbers (incl. `bool`), numeric NumPy scalars and numeric
0-d arrays -/
theorem isNumber_iff (k : Kind) : k.isNumber = true ↔
    k ∈ [Kind.pyInt, .pyFloat, .pyBool, .npFloat32, .npFloat64, .npInt64, .zeroDimNum] := by
  cases k <;> decide

/-- the objects refused as "arrays" by `*` and `/`: arrays that are not numbers -/
theorem array_not_number_iff (k : Kind) : (k.isNumber = false ∧ k.isArray = true) ↔
    k ∈ [Kind.npBool, .zeroDimBool, .ndarray] := by
  cases k <;> decide

/-- every number is array-like (what `dot` accepts) -/
theorem isNumber_arrayLike (k : Kind) (h : k.isNumber = true) : k.isArrayLike = true := by
  cases k <;> revert h <;> decide

/-! ### the constructor -/
section ctor
variable {V : Type} (dflt : AlgId)

/-- whatever the constructor returns satisfies the invariant -/
theorem mk_wf {data : V} {vocab alg name} {p : SP V} (h : mk dflt data vocab alg name = .ok p) :
    p.WF := by
  intro vc hvc
  cases alg with
  | none =>
    cases vocab with
    | none =>
      simp only [mk, getAlgebra] at h
      injection h with h; subst h; cases hvc
    | some x =>
      simp only [mk, getAlgebra] at h
      injection h with h; subst h
      injection hvc with hvc; subst hvc; rfl
  | some a =>
    cases vocab with
    | none =>
      simp only [mk, getAlgebra] at h
      injection h with h; subst h; cases hvc
    | some x =>
      by_cases hx : x.alg = a
      · simp only [mk, getAlgebra, hx, ne_eq, not_true_eq_false, if_false] at h
        injection h with h; subst h
        injection hvc with hvc; subst hvc; exact hx
      · simp [mk, getAlgebra, hx] at h

/-- the constructor with an explicit algebra: succeeds iff the vocabulary (if any) has that very
algebra object, and then stores exactly the arguments -/
theorem mk_some_ok_iff {data : V} {vocab : Option Vocab} {a : AlgId} {name} {p : SP V} :
    mk dflt data vocab (some a) name = .ok p ↔
      (∀ vc, vocab = some vc → vc.alg = a) ∧ p = ⟨data, vocab, a, name⟩ := by
  unfold mk getAlgebra
  cases vocab with
  | none => simp [eq_comm]
  | some vc =>
    by_cases hv : vc.alg = a
    · simp [hv, eq_comm]
    · simp [hv]

theorem mk_some_error {data : V} {vocab : Option Vocab} {a : AlgId} {name} {e : Err}
    (h : mk dflt data vocab (some a) name = .error e) : e = .valueError := by
  unfold mk getAlgebra at h
  cases vocab with
  | none => simp at h
  | some vc =>
    by_cases hv : vc.alg = a
    · simp [hv] at h
    · simp [hv] at h; exact h.symm

/-- re-wrapping with the pointer's own vocabulary and algebra never fails and never consults the
default algebra -/
theorem mk_own (p : SP V) (hwf : p.WF) {W : Type} (data : W) (name : Option Name) :
    mk dflt data p.vocab (some p.alg) name = .ok ⟨data, p.vocab, p.alg, name⟩ :=
  (mk_some_ok_iff dflt).2 ⟨hwf, rfl⟩

/-- with an explicit algebra argument the default algebra is not consulted -/
theorem mk_dflt (dflt' : AlgId) {W : Type} (data : W) (vocab : Option Vocab) (a : AlgId) (name) :
    mk dflt data vocab (some a) name = mk dflt' data vocab (some a) name := by
  cases vocab <;> rfl

/-- the default algebra is used only when neither vocabulary nor algebra is given -/
theorem getAlgebra_default_iff (vocab : Option Vocab) (alg : Option AlgId) (d d' : AlgId)
    (h : d ≠ d') : getAlgebra d vocab alg ≠ getAlgebra d' vocab alg ↔ (vocab = none ∧ alg = none) := by
  cases vocab <;> cases alg <;> simp [getAlgebra, h]

end ctor

/-! ### type inference between two pointers -/
section infer
variable {V : Type}

theorem inferVocab_ok_iff (a b : SP V) (vocab : Option Vocab) :
    inferVocab a b = .ok vocab ↔
      (a.vocab = none ∧ b.vocab = none ∧ a.alg = b.alg ∧ vocab = none) ∨
      (∃ x, a.vocab = some x ∧ (b.vocab = none ∨ b.vocab = some x) ∧ vocab = some x) ∨
      (∃ y, a.vocab = none ∧ b.vocab = some y ∧ vocab = some y) := by
  unfold inferVocab
  cases ha : a.vocab <;> cases hb : b.vocab <;> simp
  · by_cases h : a.alg = b.alg <;> simp [h, eq_comm]
  · simp [eq_comm]
  · simp [eq_comm]
  · rename_i x y
    by_cases h : x = y
    · subst h; simp [eq_comm]
    · simp [h]
      intro h'; exact absurd h'.symm h

/-- the two refusals: different vocabulary objects, or no vocabulary and different algebra objects -/
theorem inferVocab_error_iff (a b : SP V) (e : Err) :
    inferVocab a b = .error e ↔
      (∃ x y, a.vocab = some x ∧ b.vocab = some y ∧ x ≠ y ∧ e = .spaTypeError) ∨
      (a.vocab = none ∧ b.vocab = none ∧ a.alg ≠ b.alg ∧ e = .typeError) := by
  unfold inferVocab
  cases ha : a.vocab <;> cases hb : b.vocab <;> simp
  · by_cases h : a.alg = b.alg <;> simp [h, eq_comm]
  · rename_i x y
    by_cases h : x = y <;> simp [h, eq_comm]

/-- the checks do not depend on the operand order -/
theorem inferVocab_comm (a b : SP V) : inferVocab a b = inferVocab b a := by
  unfold inferVocab
  cases ha : a.vocab <;> cases hb : b.vocab <;> simp
  · by_cases h : a.alg = b.alg
    · simp [h]
    · have : ¬ b.alg = a.alg := fun h' => h h'.symm
      simp [h, this]
  · rename_i x y
    by_cases h : x = y
    · subst h; simp
    · have : ¬ y = x := fun h' => h h'.symm
      simp [h, this]

/-- the vocabulary of a binary result is one of the operands' vocabularies -/
theorem inferVocab_mem (a b : SP V) (vocab : Option Vocab) (h : inferVocab a b = .ok vocab) :
    vocab = a.vocab ∨ vocab = b.vocab := by
  rw [inferVocab_ok_iff] at h
  rcases h with ⟨h1, _, _, h4⟩ | ⟨x, h1, _, h3⟩ | ⟨y, _, h2, h3⟩
  · left; rw [h1, h4]
  · left; rw [h1, h3]
  · right; rw [h2, h3]

end infer

/-! ### operators on the ring level: path = formula -/
section ring
variable {ι R : Type} [Fintype ι] [DecidableEq ι] [CommRing R]
variable (dflt : AlgId) (E : AlgId → Algebra ι R)

local notation "Vec" => ι → R

/-- unary minus -/
theorem neg_eq (self : SP Vec) (hwf : self.WF) :
    neg dflt self = .ok ⟨-self.v, self.vocab, self.alg, self.name.map (Name.unary "-")⟩ :=
  mk_own dflt self hwf _ _

/-- `_add`: the algebra's `superpose` applied to the operands' vectors in the order fixed by `swap`,
with the pointer's own algebra -/
theorem addP_ok_iff (self other : SP Vec) (swap : Bool) (r : SP Vec) :
    addP dflt E self other swap = .ok r ↔
      ∃ vocab, inferVocab self other = .ok vocab ∧ (∀ vc, vocab = some vc → vc.alg = self.alg) ∧
        r = ⟨if swap then (E self.alg).superpose other.v self.v
             else (E self.alg).superpose self.v other.v,
             vocab, self.alg, binaryName self other.name "+" swap⟩ := by
  unfold Impl.addP
  cases h : inferVocab self other with
  | error e => simp
  | ok vocab =>
    simp only [mk_some_ok_iff, Except.ok.injEq, exists_eq_left']
    cases swap <;> simp

/-- `a + b` -/
theorem add_eq (self other r : SP Vec) (h : Impl.add dflt E self (.ptr other) false = .ok r) :
    r.v = (E self.alg).superpose self.v other.v := by
  obtain ⟨_, _, _, rfl⟩ := (addP_ok_iff dflt E self other false r).1 h
  rfl

/-- `b.__radd__(a)` is `superpose(a.v, b.v)`: the reflected operand comes first -/
theorem radd_eq (self other r : SP Vec) (h : Impl.add dflt E self (.ptr other) true = .ok r) :
    r.v = (E self.alg).superpose other.v self.v := by
  obtain ⟨_, _, _, rfl⟩ := (addP_ok_iff dflt E self other true r).1 h
  rfl

/-- `_add` raises only the three documented refusals (it never returns `NotImplemented`) -/
theorem addP_error (self other : SP Vec) (swap : Bool) (e : Err)
    (h : addP dflt E self other swap = .error e) :
    e = .spaTypeError ∨ e = .typeError ∨ e = .valueError := by
  unfold addP at h
  cases hv : inferVocab self other with
  | error e' =>
    simp only [hv] at h
    injection h with h
    subst h
    rcases (inferVocab_error_iff self other e').1 hv with ⟨_, _, _, _, _, h⟩ | ⟨_, _, _, h⟩
    · exact Or.inl h
    · exact Or.inr (Or.inl h)
  | ok vocab =>
    simp only [hv] at h
    exact Or.inr (Or.inr (mk_some_error dflt h))

/-- so `p + q` for two pointers is `_add(q, swap=False)` -/
theorem plusOp_ptr (self other : SP Vec) :
    plusOp dflt E self (.ptr other) = addP dflt E self other false := by
  unfold plusOp Impl.add
  split
  · rename_i h
    rcases addP_error dflt E self other false _ h with h | h | h <;> cases h
  · rfl

/-- `a - b` goes through `a + (-b)` … -/
theorem sub_ptr_eq (self other : SP Vec) (ho : other.WF) :
    Impl.sub dflt E self (.ptr other) =
      addP dflt E self ⟨-other.v, other.vocab, other.alg, other.name.map (Name.unary "-")⟩ false := by
  simp only [Impl.sub, neg_eq dflt other ho, plusOp_ptr]

/-- … and `b.__rsub__(a)` through `(-b) + a` -/
theorem rsub_ptr_eq (self other : SP Vec) (hs : self.WF) :
    rsub dflt E self (.ptr other) =
      addP dflt E ⟨-self.v, self.vocab, self.alg, self.name.map (Name.unary "-")⟩ other false := by
  simp only [rsub, neg_eq dflt self hs, plusOp_ptr]

/-- `a - b` succeeds exactly when `a + b` does, … -/
theorem sub_ok_iff_add_ok (self other : SP Vec) (ho : other.WF) :
    (∃ r, Impl.sub dflt E self (.ptr other) = .ok r) ↔
      (∃ r, Impl.add dflt E self (.ptr other) false = .ok r) := by
  rw [sub_ptr_eq dflt E self other ho]
  simp only [Impl.add, addP_ok_iff]
  have hi : inferVocab self ⟨-other.v, other.vocab, other.alg, other.name.map (Name.unary "-")⟩ =
      inferVocab self other := rfl
  rw [hi]
  constructor
  · rintro ⟨_, vocab, h1, h2, _⟩; exact ⟨_, vocab, h1, h2, rfl⟩
  · rintro ⟨_, vocab, h1, h2, _⟩; exact ⟨_, vocab, h1, h2, rfl⟩

/-- … and its vector is `superpose(a.v, -b.v)`, computed by `a`'s algebra … -/
theorem sub_path (self other r : SP Vec) (ho : other.WF)
    (h : Impl.sub dflt E self (.ptr other) = .ok r) :
    r.v = (E self.alg).superpose self.v (-other.v) ∧ r.alg = self.alg := by
  rw [sub_ptr_eq dflt E self other ho] at h
  obtain ⟨_, _, _, rfl⟩ := (addP_ok_iff dflt E _ _ false r).1 h
  exact ⟨rfl, rfl⟩

/-- … which is `a.v - b.v` for an algebra whose superposition is addition -/
theorem sub_eq (self other r : SP Vec) (ho : other.WF) (hadd : (E self.alg).Additive)
    (h : Impl.sub dflt E self (.ptr other) = .ok r) : r.v = self.v - other.v := by
  rw [(sub_path dflt E self other r ho h).1, hadd, sub_eq_add_neg]

/-- `b.__rsub__(a)` goes through `(-b) + a`: its vector is `superpose(-b.v, a.v)`, computed by
`b`'s algebra … -/
theorem rsub_path (self other r : SP Vec) (hs : self.WF) (h : rsub dflt E self (.ptr other) = .ok r) :
    r.v = (E self.alg).superpose (-self.v) other.v ∧ r.alg = self.alg := by
  rw [rsub_ptr_eq dflt E self other hs] at h
  obtain ⟨_, _, _, rfl⟩ := (addP_ok_iff dflt E _ _ false r).1 h
  exact ⟨rfl, rfl⟩

/-- … i.e. `a.v - b.v` (the OTHER operand minus self) -/
theorem rsub_eq (self other r : SP Vec) (hs : self.WF) (hadd : (E self.alg).Additive)
    (h : rsub dflt E self (.ptr other) = .ok r) : r.v = other.v - self.v := by
  rw [(rsub_path dflt E self other r hs h).1, hadd]
  abel

theorem add_obj_error (self : SP Vec) (o : Obj R) (swap : Bool) :
    Impl.add dflt E self (.obj o) swap =
      .error (if o.kind.isArray then .typeError else .returnsNotImplemented) := by
  unfold Impl.add
  by_cases h : o.kind.isArray = true <;> simp [h]

/-- the expression `p + x` with anything that is not an AST node is a `TypeError`, never a value -/
theorem plusOp_obj (self : SP Vec) (o : Obj R) : plusOp dflt E self (.obj o) = .error .typeError := by
  unfold plusOp
  rw [add_obj_error]
  by_cases h : o.kind.isArray = true <;> simp [h]

theorem sub_obj_typeError (self : SP Vec) (o : Obj R) :
    Impl.sub dflt E self (.obj o) = .error .typeError := by
  simp only [Impl.sub]
  split
  · rfl
  · exact plusOp_obj dflt E self _

theorem rsub_obj_typeError (self : SP Vec) (hs : self.WF) (o : Obj R) :
    rsub dflt E self (.obj o) = .error .typeError := by
  simp only [rsub, neg_eq dflt self hs]
  exact plusOp_obj dflt E _ o

/-- `_bind` -/
theorem bindP_ok_iff (self other : SP Vec) (swap : Bool) (r : SP Vec) :
    bindP dflt E self other swap = .ok r ↔
      ∃ vocab, inferVocab self other = .ok vocab ∧ (∀ vc, vocab = some vc → vc.alg = self.alg) ∧
        r = ⟨if swap then (E self.alg).bind other.v self.v else (E self.alg).bind self.v other.v,
             vocab, self.alg, binaryName self other.name "*" swap⟩ := by
  unfold bindP
  cases h : inferVocab self other with
  | error e => simp
  | ok vocab =>
    simp only [mk_some_ok_iff, Except.ok.injEq, exists_eq_left']
    cases swap <;> simp

/-- `a * b` = `a.bind(b)` -/
theorem mul_eq (self other r : SP Vec) (h : mul dflt E self (.ptr other) false = .ok r) :
    r.v = (E self.alg).bind self.v other.v := by
  obtain ⟨_, _, _, rfl⟩ := (bindP_ok_iff dflt E self other false r).1 h
  rfl

/-- `b.__rmul__(a)`: `_mul(a, swap=True)` → `_bind(a, swap=True)` → `algebra.bind(a.v, b.v)`: the
reflected operand is the LEFT operand of the binding -/
theorem rmul_eq (self other r : SP Vec) (h : mul dflt E self (.ptr other) true = .ok r) :
    r.v = (E self.alg).bind other.v self.v := by
  obtain ⟨_, _, _, rfl⟩ := (bindP_ok_iff dflt E self other true r).1 h
  rfl

theorem bind_eq (self other r : SP Vec) (h : bind dflt E self other = .ok r) :
    r.v = (E self.alg).bind self.v other.v := mul_eq dflt E self other r h

theorem rbind_eq (self other r : SP Vec) (h : rbind dflt E self other = .ok r) :
    r.v = (E self.alg).bind other.v self.v := rmul_eq dflt E self other r h

/-- `a.rbind(b)` and `b.bind(a)` compute the same vector when both use the same algebra object -/
theorem rbind_eq_bind_flipped (a b ra rb : SP Vec) (halg : a.alg = b.alg)
    (h1 : rbind dflt E a b = .ok ra) (h2 : bind dflt E b a = .ok rb) : ra.v = rb.v := by
  rw [rbind_eq dflt E a b ra h1, bind_eq dflt E b a rb h2, halg]

/-- multiplication by a number of ANY accepted kind, from either side, scales the vector -/
theorem mul_scalar_eq (self : SP Vec) (hwf : self.WF) (o : Obj R) (swap : Bool)
    (hk : o.kind.isNumber = true) :
    mul dflt E self (.obj o) swap =
      .ok ⟨fun i => self.v i * o.x, self.vocab, self.alg,
           binaryName self (some (.leaf o.str)) "*" swap⟩ := by
  simp only [mul, hk, if_true, scale]
  exact mk_own dflt self hwf _ _

theorem mul_fixedScalar_eq (self : SP Vec) (hwf : self.WF) (x : R) (s : String) (swap : Bool) :
    mul dflt E self (.fixedScalar x s) swap =
      .ok ⟨fun i => self.v i * x, self.vocab, self.alg,
           binaryName self (some (.leaf s)) "*" swap⟩ :=
  mk_own dflt self hwf _ _

/-- arrays (incl. boolean NumPy scalars) are refused with `TypeError`, other objects get
`NotImplemented` -/
theorem mul_nonnumber (self : SP Vec) (o : Obj R) (swap : Bool) (hk : o.kind.isNumber = false) :
    mul dflt E self (.obj o) swap =
      .error (if o.kind.isArray then .typeError else .returnsNotImplemented) := by
  simp only [mul, hk]
  by_cases h : o.kind.isArray = true <;> simp [h]

/-- `**` is the algebra's binding power of the pointer's vector; a refusal of the algebra is
passed on unchanged -/
theorem pow_eq (self : SP Vec) (hwf : self.WF) (e : Exponent) (s : String) :
    pow dflt E self e s =
      match (E self.alg).power self.v e with
      | .error err => .error err
      | .ok w => .ok ⟨w, self.vocab, self.alg, binaryName self (some (.leaf s)) "**" false⟩ := by
  unfold pow
  cases (E self.alg).power self.v e with
  | error err => rfl
  | ok w => exact mk_own dflt self hwf _ _

/-- `~a`, `a.linv()`, `a.rinv()`: the algebra's `invert` for the two-sided / left / right side;
a refusal is passed on unchanged -/
theorem invert_eq (self : SP Vec) (hwf : self.WF) (side : Side) :
    invertSide dflt E self side =
      match (E self.alg).invert side self.v with
      | .error err => .error err
      | .ok w => .ok ⟨w, self.vocab, self.alg,
          match side with
          | .twoSided => self.name.map (Name.unary "~")
          | _ => self.name.map (Name.method "rinv")⟩ := by
  unfold invertSide
  cases (E self.alg).invert side self.v with
  | error err => rfl
  | ok w => exact mk_own dflt self hwf _ _

theorem invert_sides (self : SP Vec) :
    invert dflt E self = invertSide dflt E self .twoSided ∧
    linv dflt E self = invertSide dflt E self .left ∧
    rinv dflt E self = invertSide dflt E self .right := ⟨rfl, rfl, rfl⟩

theorem unitary_eq (self : SP Vec) (hwf : self.WF) :
    unitary dflt E self =
      match (E self.alg).makeUnitary self.v with
      | .error err => .error err
      | .ok w => .ok ⟨w, self.vocab, self.alg, self.name.map (Name.method "unitary")⟩ := by
  unfold unitary
  cases (E self.alg).makeUnitary self.v with
  | error err => rfl
  | ok w => exact mk_own dflt self hwf _ _

theorem abs_eq (self : SP Vec) (hwf : self.WF) :
    Impl.abs dflt E self =
      match (E self.alg).absV self.v with
      | .error err => .error err
      | .ok w => .ok ⟨w, self.vocab, self.alg, self.name.map (Name.method "abs")⟩ := by
  unfold Impl.abs
  cases (E self.alg).absV self.v with
  | error err => rfl
  | ok w => exact mk_own dflt self hwf _ _

/-- `copy()` is an equal pointer -/
theorem copy_eq (self : SP Vec) (hwf : self.WF) : copy dflt self = .ok self :=
  mk_own dflt self hwf _ _

theorem len_eq (self : SP Vec) : len self = Fintype.card ι := rfl

/-- `get_binding_matrix` delegates to the algebra with the swap flag … -/
theorem getBindingMatrix_eq (self : SP Vec) (swap : Bool) :
    getBindingMatrix E self swap = (E self.alg).bindMat self.v swap := rfl

/-- … so (for an algebra whose matrix obeys its contract) the matrix applied to `b.v` is the
vector of `b * a` without `swap_inputs`, of `a * b` with it -/
theorem getBindingMatrix_mulVec (a b r : SP Vec) (swap : Bool) (hlaw : (E a.alg).MatrixLaw)
    (h : mul dflt E a (.ptr b) (!swap) = .ok r) :
    getBindingMatrix E a swap *ᵥ b.v = r.v := by
  cases swap
  · rw [rmul_eq dflt E a b r h]; exact hlaw.1 _ _
  · rw [mul_eq dflt E a b r h]; exact hlaw.2 _ _

/-! ### the pointer's own algebra, the result's vocabulary -/

/-- every result carries the algebra object of `self` (binary operators: of the receiver) … -/
theorem result_algebra (self other r : SP Vec) (o : Obj R) (swap : Bool) (e : Exponent) (s : String)
    (side : Side) :
    (neg dflt self = .ok r → r.alg = self.alg) ∧
    (addP dflt E self other swap = .ok r → r.alg = self.alg) ∧
    (bindP dflt E self other swap = .ok r → r.alg = self.alg) ∧
    (mul dflt E self (.obj o) swap = .ok r → r.alg = self.alg) ∧
    (pow dflt E self e s = .ok r → r.alg = self.alg) ∧
    (invertSide dflt E self side = .ok r → r.alg = self.alg) ∧
    (unitary dflt E self = .ok r → r.alg = self.alg) ∧
    (Impl.abs dflt E self = .ok r → r.alg = self.alg) ∧
    (copy dflt self = .ok r → r.alg = self.alg) := by
  refine ⟨?_, ?_, ?_, ?_, ?_, ?_, ?_, ?_, ?_⟩
  · intro h; obtain ⟨_, rfl⟩ := (mk_some_ok_iff dflt).1 h; rfl
  · intro h; obtain ⟨_, _, _, rfl⟩ := (addP_ok_iff dflt E self other swap r).1 h; rfl
  · intro h; obtain ⟨_, _, _, rfl⟩ := (bindP_ok_iff dflt E self other swap r).1 h; rfl
  · intro h
    simp only [mul, scale] at h
    split at h
    · obtain ⟨_, rfl⟩ := (mk_some_ok_iff dflt).1 h; rfl
    · split at h <;> cases h
  · intro h
    unfold pow at h
    split at h
    · cases h
    · obtain ⟨_, rfl⟩ := (mk_some_ok_iff dflt).1 h; rfl
  · intro h
    unfold invertSide at h
    split at h
    · cases h
    · obtain ⟨_, rfl⟩ := (mk_some_ok_iff dflt).1 h; rfl
  · intro h
    unfold unitary at h
    split at h
    · cases h
    · obtain ⟨_, rfl⟩ := (mk_some_ok_iff dflt).1 h; rfl
  · intro h
    unfold Impl.abs at h
    split at h
    · cases h
    · obtain ⟨_, rfl⟩ := (mk_some_ok_iff dflt).1 h; rfl
  · intro h; obtain ⟨_, rfl⟩ := (mk_some_ok_iff dflt).1 h; rfl

/-- … and is computed by that object alone: two environments that agree on `self.algebra` (they
may differ on every other algebra, in particular on the default `HrrAlgebra()`), and two different
default algebras, give the same outcome of every operator -/
theorem uses_own_algebra (E' : AlgId → Algebra ι R) (dflt' : AlgId) (self other : SP Vec)
    (hE : E self.alg = E' self.alg) (op : Operand Vec R) (swap : Bool) (e : Exponent) (s : String)
    (side : Side) :
    neg dflt self = neg dflt' self ∧
    Impl.add dflt E self op swap = Impl.add dflt' E' self op swap ∧
    mul dflt E self op swap = mul dflt' E' self op swap ∧
    bind dflt E self other = bind dflt' E' self other ∧
    rbind dflt E self other = rbind dflt' E' self other ∧
    pow dflt E self e s = pow dflt' E' self e s ∧
    invertSide dflt E self side = invertSide dflt' E' self side ∧
    unitary dflt E self = unitary dflt' E' self ∧
    Impl.abs dflt E self = Impl.abs dflt' E' self ∧
    copy dflt self = copy dflt' self ∧
    getBindingMatrix E self swap = getBindingMatrix E' self swap := by
  refine ⟨mk_dflt dflt dflt' _ _ _ _, ?_, ?_, ?_, ?_, ?_, ?_, ?_, ?_, mk_dflt dflt dflt' _ _ _ _, ?_⟩
  · cases op <;> simp only [Impl.add, addP, hE, mk_dflt dflt dflt']
  · cases op <;> simp only [mul, bindP, scale, hE, mk_dflt dflt dflt']
  · simp only [Impl.bind, bindP, hE, mk_dflt dflt dflt']
  · simp only [rbind, bindP, hE, mk_dflt dflt dflt']
  · simp only [Impl.pow, hE, mk_dflt dflt dflt']
  · simp only [invertSide, hE, mk_dflt dflt dflt']
  · simp only [unitary, hE, mk_dflt dflt dflt']
  · simp only [Impl.abs, hE, mk_dflt dflt dflt']
  · simp only [getBindingMatrix, hE]

/-- unary operators, scalar operators and methods keep the vocabulary of `self`; binary operators
give the inferred vocabulary, which is one of the operands' -/
theorem result_vocab (self other r : SP Vec) (o : Obj R) (swap : Bool) (e : Exponent) (s : String)
    (side : Side) :
    (neg dflt self = .ok r → r.vocab = self.vocab) ∧
    (mul dflt E self (.obj o) swap = .ok r → r.vocab = self.vocab) ∧
    (pow dflt E self e s = .ok r → r.vocab = self.vocab) ∧
    (invertSide dflt E self side = .ok r → r.vocab = self.vocab) ∧
    (unitary dflt E self = .ok r → r.vocab = self.vocab) ∧
    (Impl.abs dflt E self = .ok r → r.vocab = self.vocab) ∧
    (copy dflt self = .ok r → r.vocab = self.vocab) ∧
    (addP dflt E self other swap = .ok r → r.vocab = self.vocab ∨ r.vocab = other.vocab) ∧
    (bindP dflt E self other swap = .ok r → r.vocab = self.vocab ∨ r.vocab = other.vocab) := by
  refine ⟨?_, ?_, ?_, ?_, ?_, ?_, ?_, ?_, ?_⟩
  · intro h; obtain ⟨_, rfl⟩ := (mk_some_ok_iff dflt).1 h; rfl
  · intro h
    simp only [mul, scale] at h
    split at h
    · obtain ⟨_, rfl⟩ := (mk_some_ok_iff dflt).1 h; rfl
    · split at h <;> cases h
  · intro h
    unfold pow at h
    split at h
    · cases h
    · obtain ⟨_, rfl⟩ := (mk_some_ok_iff dflt).1 h; rfl
  · intro h
    unfold invertSide at h
    split at h
    · cases h
    · obtain ⟨_, rfl⟩ := (mk_some_ok_iff dflt).1 h; rfl
  · intro h
    unfold unitary at h
    split at h
    · cases h
    · obtain ⟨_, rfl⟩ := (mk_some_ok_iff dflt).1 h; rfl
  · intro h
    unfold Impl.abs at h
    split at h
    · cases h
    · obtain ⟨_, rfl⟩ := (mk_some_ok_iff dflt).1 h; rfl
  · intro h; obtain ⟨_, rfl⟩ := (mk_some_ok_iff dflt).1 h; rfl
  · intro h
    obtain ⟨vocab, hv, _, rfl⟩ := (addP_ok_iff dflt E self other swap r).1 h
    exact inferVocab_mem self other vocab hv
  · intro h
    obtain ⟨vocab, hv, _, rfl⟩ := (bindP_ok_iff dflt E self other swap r).1 h
    exact inferVocab_mem self other vocab hv

/-- every pointer an operator returns satisfies the constructor's invariant again -/
theorem result_wf (self other r : SP Vec) (swap : Bool) :
    (addP dflt E self other swap = .ok r → r.WF) ∧ (bindP dflt E self other swap = .ok r → r.WF) := by
  constructor
  · intro h
    obtain ⟨vocab, _, h2, rfl⟩ := (addP_ok_iff dflt E self other swap r).1 h
    exact h2
  · intro h
    obtain ⟨vocab, _, h2, rfl⟩ := (bindP_ok_iff dflt E self other swap r).1 h
    exact h2

/-- a result is named iff all pointer operands are named; with `swap` the operand names are
exchanged just like the vectors -/
theorem binaryName_swap (self : SP Vec) (a b : Name) (op : String) (hn : self.name = some a) :
    binaryName self (some b) op false = some (.binary op a b) ∧
    binaryName self (some b) op true = some (.binary op b a) := by
  simp [binaryName, hn]

theorem unnamed_result (self : SP Vec) (other : Option Name) (op : String) (swap : Bool)
    (hn : self.name = none) :
    binaryName self other op swap = none ∧ unaryName self op = none ∧ methodName self op = none := by
  simp [binaryName, unaryName, methodName, hn]

/-! ### dot product -/

theorem dotV_eq_spec (a b : Vec) : dotV a b = Spec.dot a b := rfl

theorem dot_symm (a b : Vec) : dotV a b = dotV b a := by
  unfold dotV
  exact Finset.sum_congr rfl fun i _ => mul_comm _ _

/-- `a.dot(w)` / `a @ w` for a raw vector is `Σ aᵢ wᵢ` -/
theorem dot_eq (self : SP Vec) (w : Vec) : dot self (.raw w) = .ok (∑ i, self.v i * w i) := rfl

/-- for a pointer argument the value is the same formula after the vocabulary/algebra checks -/
theorem dot_ptr_eq (self other : SP Vec) :
    dot self (.ptr other) =
      match inferVocab self other with
      | .error e => .error e
      | .ok _ => .ok (∑ i, self.v i * other.v i) := by
  simp only [dot, argVec]
  cases h : inferVocab self other <;> simp [dotV]

/-- `a.dot(b) = b.dot(a)`, value and refusal alike -/
theorem dot_ptr_comm (a b : SP Vec) : dot a (.ptr b) = dot b (.ptr a) := by
  rw [dot_ptr_eq, dot_ptr_eq, inferVocab_comm a b]
  cases inferVocab b a with
  | error e => rfl
  | ok _ => exact congrArg _ (dot_symm a.v b.v)

end ring

/-! ### the shipped algebras satisfy the laws used above -/
section instances
variable {R : Type} [CommRing R]

theorem hrr_additive (k : ℕ) (f u a) : (hrr (R := R) k f u a).Additive := fun _ _ => rfl
theorem vtb_additive (m : ℕ) (s sinv : R) (f u a) : (vtb m s sinv f u a).Additive := fun _ _ => rfl
theorem tvtb_additive (m : ℕ) (s sinv : R) (f u a) : (tvtb m s sinv f u a).Additive := fun _ _ => rfl

theorem hrr_matrixLaw (k : ℕ) (f u a) : (hrr (R := R) k f u a).MatrixLaw :=
  ⟨fun v x => C02.Hrr.bindMat_mulVec v x false, fun v x => C02.Hrr.bindMat_swap_mulVec v x true⟩

theorem vtb_matrixLaw (m : ℕ) (s sinv : R) (f u a) : (vtb m s sinv f u a).MatrixLaw :=
  ⟨fun v x => C02.Vtb.bindMat_mulVec s v x, fun v x => C02.Vtb.bindMat_swap_mulVec s v x⟩

theorem tvtb_matrixLaw (m : ℕ) (s sinv : R) (f u a) : (tvtb m s sinv f u a).MatrixLaw :=
  ⟨fun v x => C02.Tvtb.bindMat_mulVec s v x, fun v x => C02.Tvtb.bindMat_swap_mulVec s v x⟩

/-- HRR inverts on every side, TVTB too; VTB refuses the left inverse and warns for the two-sided one -/
theorem invert_sidedness (k m : ℕ) (s sinv : R) (f u a f' u' a') (side : Side)
    (v : Alg.Hrr.Vec k R) (w : Alg.Vec2 m R) :
    (hrr k f u a).invert side v = .ok (Alg.Hrr.Impl.invert v) ∧
    (tvtb m s sinv f' u' a').invert side w = .ok (Alg.Tvtb.Impl.invert w) ∧
    (vtb m s sinv f' u' a').invert .left w = .error .notImplementedError ∧
    (vtb m s sinv f' u' a').invert .right w = .ok (Alg.Vtb.Impl.invert w) ∧
    (vtb m s sinv f' u' a').invert .twoSided w = .ok (Alg.Vtb.Impl.invert w) ∧
    (vtb m s sinv f' u' a').invertWarns .twoSided = true ∧
    (vtb m s sinv f' u' a').invertWarns .right = false :=
  ⟨rfl, rfl, rfl, rfl, rfl, rfl, rfl⟩

/-- the fallback loop is the matrix power -/
theorem matPow_eq_pow {n : Type} [Fintype n] [DecidableEq n] (M : Matrix n n R) (e : ℕ) :
    matPow M e = M ^ e := by
  induction e with
  | zero => simp [matPow]
  | succ e ih => rw [matPow, ih, pow_succ]

/-- HRR: integral powers are the n-fold binding (of the inverse for negative exponents) -/
theorem hrr_power_int (k : ℕ) (f u a) (v : Alg.Hrr.Vec k R) (n : ℤ) :
    (hrr k f u a).power v (.int n) = .ok (Alg.Hrr.Impl.zpow v n) := rfl

theorem hrr_power_special (k : ℕ) (f u a) (v : Alg.Hrr.Vec k R) :
    (hrr k f u a).power v (.int 0) = .ok (Alg.Hrr.Impl.identity k) ∧
    (hrr k f u a).power v (.int 2) = .ok (Alg.Hrr.Impl.bind (Alg.Hrr.Impl.bind (Alg.Hrr.Impl.identity k) v) v) ∧
    (hrr k f u a).power v (.int (-1)) = .ok (Alg.Hrr.Impl.bind (Alg.Hrr.Impl.identity k) (Alg.Hrr.Impl.invert v)) :=
  ⟨rfl, rfl, rfl⟩

/-- VTB/TVTB: exponent 0 gives the identity element -/
theorem vtb_power_zero (m : ℕ) (s sinv : R) (f u a) (v : Alg.Vec2 m R) :
    (vtb m s sinv f u a).power v (.int 0) = .ok (Alg.Vtb.Impl.identity m sinv) := rfl

theorem tvtb_power_zero (m : ℕ) (s sinv : R) (f u a) (v : Alg.Vec2 m R) :
    (tvtb m s sinv f u a).power v (.int 0) = .ok (Alg.Tvtb.Impl.identity m sinv) := by
  simp only [tvtb]
  congr 1
  funext p
  simp [matPow, Alg.ofMat, Alg.Tvtb.Impl.identity, Matrix.one_apply]

/-- TVTB: exponent 1 gives the vector back (given `s * sinv = 1`) -/
theorem tvtb_power_one (m : ℕ) (s sinv : R) (hs : s * sinv = 1) (f u a) (v : Alg.Vec2 m R) :
    (tvtb m s sinv f u a).power v (.int 1) = .ok v := by
  have h1 : ¬ ((1 : ℤ) < 0) := by decide
  simp only [tvtb, h1, if_false]
  congr 1
  funext p
  rw [show Int.natAbs 1 = 1 from rfl]
  simp only [matPow, one_mul, Alg.ofMat, Alg.toMat, Matrix.smul_apply, Matrix.of_apply, smul_eq_mul]
  rw [mul_comm s, mul_assoc, hs, mul_one]

/-- TVTB: exponent 2 is `bind v v` -/
theorem tvtb_power_two (m : ℕ) (s sinv : R) (hs : s * sinv = 1) (f u a) (v : Alg.Vec2 m R) :
    (tvtb m s sinv f u a).power v (.int 2) = .ok (Alg.Tvtb.Impl.bind s v v) := by
  have h1 : ¬ ((2 : ℤ) < 0) := by decide
  simp only [tvtb, h1, if_false]
  congr 1
  funext p
  have h := congrFun (congrFun (C02.Tvtb.bind_matrix_form s v v) p.1) p.2
  simp only [Alg.toMat, Matrix.of_apply] at h
  rw [h, show Int.natAbs 2 = 2 from rfl]
  simp only [matPow, one_mul, Alg.ofMat, Alg.toMat, Matrix.smul_mul, Matrix.mul_smul,
    Matrix.smul_apply, smul_eq_mul]
  have hsw : ∀ x : R, s * (s * x) * sinv = s * x := fun x => by
    calc s * (s * x) * sinv = s * x * (s * sinv) := by ring
      _ = s * x := by rw [hs, mul_one]
  exact hsw _

end instances

/-! ### division and the similarity measures (ordered field) -/
section field
variable {ι K : Type} [Fintype ι] [DecidableEq ι] [Field K] [LinearOrder K] [IsStrictOrderedRing K]
variable (dflt : AlgId) (nrm : (ι → K) → K)

local notation "Vec" => ι → K

/-- division by a non-zero number of any accepted kind divides every component -/
theorem div_eq (self : SP Vec) (hwf : self.WF) (o : Obj K) (hk : o.kind.isNumber = true)
    (hx : o.x ≠ 0) :
    truediv dflt self o =
      .ok ⟨fun i => self.v i / o.x, self.vocab, self.alg,
           binaryName self (some (.leaf o.str)) "/" false⟩ := by
  simp only [truediv, hk, if_true, hx, if_false]
  exact mk_own dflt self hwf _ _

/-- division by zero of any numeric kind is a `ZeroDivisionError` -/
theorem div_zero_error (self : SP Vec) (o : Obj K) (hk : o.kind.isNumber = true) (hx : o.x = 0) :
    truediv dflt self o = .error .zeroDivision := by
  simp [truediv, hk, hx]

theorem div_nonnumber (self : SP Vec) (o : Obj K) (hk : o.kind.isNumber = false) :
    truediv dflt self o = .error (if o.kind.isArray then .typeError else .returnsNotImplemented) := by
  simp only [truediv, hk]
  by_cases h : o.kind.isArray = true <;> simp [h]

/-- dividing and multiplying back gives the vector -/
theorem div_mul_cancel (self r : SP Vec) (o : Obj K) (h : truediv dflt self o = .ok r) (i : ι) :
    r.v i * o.x = self.v i := by
  unfold truediv at h
  split at h
  · split at h
    · cases h
    · rename_i hx
      obtain ⟨_, rfl⟩ := (mk_some_ok_iff dflt).1 h
      simp [hx]
  · split at h <;> cases h

variable {nrm}

theorem nrm_eq_zero_iff (hn : Spec.IsNorm nrm) (v : Vec) : nrm v = 0 ↔ v = 0 := by
  constructor
  · intro h
    have h2 := (hn v).2
    rw [h, mul_zero] at h2
    have := (Finset.sum_eq_zero_iff_of_nonneg (fun i _ => mul_self_nonneg (v i))).1 h2.symm
    funext i
    exact mul_self_eq_zero.1 (this i (Finset.mem_univ i))
  · intro h
    have h2 := (hn v).2
    subst h
    simp at h2
    exact h2

/-- `length()` is the Euclidean norm: non-negative with square `Σ vᵢ²` -/
theorem length_spec (hn : Spec.IsNorm nrm) (self : SP Vec) :
    0 ≤ length nrm self ∧ length nrm self * length nrm self = ∑ i, self.v i * self.v i := hn self.v

/-- comparing with a zero vector (on either side) gives 0 -/
theorem compare_zero (hn : Spec.IsNorm nrm) (self : SP Vec) (w : Vec) (h : self.v = 0 ∨ w = 0) :
    Impl.compare nrm self (.raw w) = .ok 0 := by
  have : nrm self.v * nrm w = 0 := by
    rcases h with h | h
    · rw [(nrm_eq_zero_iff hn _).2 h, zero_mul]
    · rw [(nrm_eq_zero_iff hn _).2 h, mul_zero]
  simp [Impl.compare, argVec, this]

/-- otherwise it is the dot product over the product of the norms -/
theorem compare_eq (hn : Spec.IsNorm nrm) (self : SP Vec) (w : Vec) (h1 : self.v ≠ 0) (h2 : w ≠ 0) :
    Impl.compare nrm self (.raw w) = .ok ((∑ i, self.v i * w i) / (nrm self.v * nrm w)) := by
  have : nrm self.v * nrm w ≠ 0 :=
    mul_ne_zero (fun h => h1 ((nrm_eq_zero_iff hn _).1 h)) (fun h => h2 ((nrm_eq_zero_iff hn _).1 h))
  simp [Impl.compare, argVec, this, dotV]

/-- stated without square roots: `compare² · Σa² · Σb² = (Σ ab)²` in every case where both are non-zero -/
theorem compare_sq (hn : Spec.IsNorm nrm) (self : SP Vec) (w : Vec) (c : K) (h1 : self.v ≠ 0) (h2 : w ≠ 0)
    (h : Impl.compare nrm self (.raw w) = .ok c) :
    c ^ 2 * ((∑ i, self.v i * self.v i) * (∑ i, w i * w i)) = (∑ i, self.v i * w i) ^ 2 := by
  rw [compare_eq hn self w h1 h2] at h
  injection h with h
  subst h
  have hz : nrm self.v * nrm w ≠ 0 :=
    mul_ne_zero (fun h => h1 ((nrm_eq_zero_iff hn _).1 h)) (fun h => h2 ((nrm_eq_zero_iff hn _).1 h))
  rw [← (hn self.v).2, ← (hn w).2, div_pow, div_mul_eq_mul_div, div_eq_iff (pow_ne_zero 2 hz)]
  ring

/-- the cosine lies in `[-1, 1]` (Cauchy–Schwarz) -/
theorem compare_abs_le_one (hn : Spec.IsNorm nrm) (self : SP Vec) (w : Vec) (c : K)
    (h : Impl.compare nrm self (.raw w) = .ok c) : c ^ 2 ≤ 1 := by
  by_cases h1 : self.v = 0
  · rw [compare_zero hn self w (Or.inl h1)] at h
    injection h with h; subst h; simp
  by_cases h2 : w = 0
  · rw [compare_zero hn self w (Or.inr h2)] at h
    injection h with h; subst h; simp
  have hsq := compare_sq hn self w c h1 h2 h
  have hcs := Finset.sum_mul_sq_le_sq_mul_sq Finset.univ self.v w
  have hpos : 0 < (∑ i, self.v i * self.v i) * (∑ i, w i * w i) := by
    rw [← (hn self.v).2, ← (hn w).2]
    have ha : 0 < nrm self.v := lt_of_le_of_ne (hn _).1 (fun h => h1 ((nrm_eq_zero_iff hn _).1 h.symm))
    have hb : 0 < nrm w := lt_of_le_of_ne (hn _).1 (fun h => h2 ((nrm_eq_zero_iff hn _).1 h.symm))
    positivity
  by_contra hc
  rw [not_le] at hc
  have : (∑ i, self.v i * self.v i) * (∑ i, w i * w i) <
      c ^ 2 * ((∑ i, self.v i * self.v i) * (∑ i, w i * w i)) := by
    nlinarith
  rw [hsq] at this
  simp only [pow_two] at hcs
  simp only [pow_two] at this
  linarith

/-- a non-zero pointer compared with itself gives 1 -/
theorem compare_self (hn : Spec.IsNorm nrm) (self : SP Vec) (h1 : self.v ≠ 0) :
    Impl.compare nrm self (.raw self.v) = .ok 1 := by
  rw [compare_eq hn self self.v h1 h1, (hn self.v).2]
  have : (∑ i, self.v i * self.v i) ≠ 0 := by
    rw [← (hn self.v).2]
    exact mul_ne_zero (fun h => h1 ((nrm_eq_zero_iff hn _).1 h)) (fun h => h1 ((nrm_eq_zero_iff hn _).1 h))
  rw [div_self this]

/-- pointer arguments: same value after the vocabulary/algebra checks, and symmetric -/
theorem compare_ptr_eq (self other : SP Vec) :
    Impl.compare nrm self (.ptr other) =
      match inferVocab self other with
      | .error e => .error e
      | .ok _ => Impl.compare nrm self (.raw other.v) := by
  simp only [Impl.compare, argVec]
  cases h : inferVocab self other <;> simp

/-- `distance = 1 − compare` -/
theorem distance_eq (self : SP Vec) (o : VecArg Vec) :
    distance nrm self o =
      match Impl.compare nrm self o with
      | .error e => .error e
      | .ok c => .ok (1 - c) := rfl

/-- the distance of a non-zero pointer to itself is 0, to a zero vector 1 -/
theorem distance_self_zero (hn : Spec.IsNorm nrm) (self : SP Vec) (h1 : self.v ≠ 0) :
    distance nrm self (.raw self.v) = .ok 0 ∧ distance nrm self (.raw 0) = .ok 1 := by
  simp [distance, compare_self hn self h1, compare_zero hn self 0 (Or.inr rfl)]

/-- the zero vector normalises to itself -/
theorem normalized_zero (hn : Spec.IsNorm nrm) (self : SP Vec) (hwf : self.WF) (h : self.v = 0) :
    normalized dflt nrm self =
      .ok ⟨self.v, self.vocab, self.alg, self.name.map (Name.method "normalized")⟩ := by
  have h0 : nrm self.v = 0 := (nrm_eq_zero_iff hn _).2 h
  simp only [normalized, h0, le_refl, if_true, div_one]
  exact mk_own dflt self hwf _ _

/-- any other vector is divided by its norm: the result has unit length and the same direction -/
theorem normalized_eq (hn : Spec.IsNorm nrm) (self : SP Vec) (hwf : self.WF) (h : self.v ≠ 0) :
    ∃ r, normalized dflt nrm self = .ok r ∧ (∀ i, r.v i = self.v i / nrm self.v) ∧
      (∑ i, r.v i * r.v i = 1) ∧ r.vocab = self.vocab ∧ r.alg = self.alg := by
  have hpos : 0 < nrm self.v :=
    lt_of_le_of_ne (hn _).1 (fun h' => h ((nrm_eq_zero_iff hn _).1 h'.symm))
  have hle : ¬ nrm self.v ≤ 0 := not_le.2 hpos
  refine ⟨⟨fun i => self.v i / nrm self.v, self.vocab, self.alg, methodName self "normalized"⟩,
    ?_, fun _ => rfl, ?_, rfl, rfl⟩
  · simp only [normalized, hle, if_false]
    exact mk_own dflt self hwf _ _
  · have : ∀ i, self.v i / nrm self.v * (self.v i / nrm self.v) =
        (self.v i * self.v i) / (nrm self.v * nrm self.v) := fun i => by field_simp
    simp only [this]
    simp only [div_eq_mul_inv]
    rw [← Finset.sum_mul, (hn self.v).2]
    have hz : (∑ i, self.v i * self.v i) ≠ 0 := by
      rw [← (hn self.v).2]; exact mul_ne_zero hpos.ne' hpos.ne'
    exact mul_inv_cancel₀ hz

/-- `mse` is the mean of the squared component differences -/
theorem mse_eq (self : SP Vec) (w : Vec) :
    mse self (.raw w) = .ok ((∑ i, (self.v i - w i) ^ 2) / (Fintype.card ι : K)) := rfl

theorem mse_ptr_eq (self other : SP Vec) :
    mse self (.ptr other) =
      match inferVocab self other with
      | .error e => .error e
      | .ok _ => mse self (.raw other.v) := by
  simp only [mse, argVec]
  cases h : inferVocab self other <;> simp

theorem mse_nonneg (self : SP Vec) (w : Vec) (x : K) (h : mse self (.raw w) = .ok x) : 0 ≤ x := by
  rw [mse_eq] at h
  injection h with h
  subst h
  exact div_nonneg (Finset.sum_nonneg fun i _ => sq_nonneg _) (Nat.cast_nonneg _)

/-- `mse = 0` exactly for equal vectors (dimensionality ≥ 1) -/
theorem mse_eq_zero_iff [Nonempty ι] (self : SP Vec) (w : Vec) :
    mse self (.raw w) = .ok 0 ↔ self.v = w := by
  rw [mse_eq]
  have hc : (Fintype.card ι : K) ≠ 0 := Nat.cast_ne_zero.2 Fintype.card_ne_zero
  constructor
  · intro h
    injection h with h
    rw [div_eq_zero_iff] at h
    rcases h with h | h
    · have := (Finset.sum_eq_zero_iff_of_nonneg (fun i _ => sq_nonneg (self.v i - w i))).1 h
      funext i
      have hi := this i (Finset.mem_univ i)
      exact sub_eq_zero.1 ((pow_eq_zero_iff two_ne_zero).1 hi)
    · exact absurd h hc
  · intro h
    rw [h]
    simp

theorem mse_symm (a : SP Vec) (b : SP Vec) : mse a (.raw b.v) = mse b (.raw a.v) := by
  rw [mse_eq, mse_eq]
  congr 2
  exact Finset.sum_congr rfl fun i _ => by ring

end field

/-! ### immutability of the vectors -/
namespace Mem
variable {V : Type}

/-- a write to an array whose flag is off is refused and changes nothing -/
theorem write_frozen (h : Heap V) (r : ℕ) (a : Arr V) (f : V → V) (hr : h[r]? = some a)
    (hf : a.writeable = false) : write h r f = .error .valueError ∧ step h (.write r f) = h := by
  simp [write, step, hr, hf]

/-- the constructor's array is a NEW object holding a copy, not writeable; the source array is
untouched and keeps its own flag -/
theorem construct_spec (h h' : Heap V) (src r : ℕ) (a : Arr V) (hs : h[src]? = some a)
    (hc : construct h src = some (h', r)) :
    r ≠ src ∧ h'[r]? = some ⟨a.data, false⟩ ∧ h'[src]? = some a ∧ h'.length = h.length + 1 := by
  simp only [construct, hs, alloc, Option.some.injEq, Prod.mk.injEq] at hc
  obtain ⟨rfl, rfl⟩ := hc
  have hlt : src < h.length := by
    by_contra hge
    rw [List.getElem?_eq_none (by omega)] at hs
    cases hs
  refine ⟨by omega, by simp, ?_, by simp⟩
  rw [List.getElem?_append_left hlt]; exact hs

/-- a later write to the (still writeable) source array succeeds and does not change the pointer's
vector -/
theorem write_source_after_construct (h h' : Heap V) (src r : ℕ) (a : Arr V) (f : V → V)
    (hs : h[src]? = some a) (hw : a.writeable = true) (hc : construct h src = some (h', r)) :
    ∃ h'', write h' src f = .ok h'' ∧ h''[r]? = some ⟨a.data, false⟩ ∧
      h''[src]? = some ⟨f a.data, true⟩ := by
  obtain ⟨hne, hr, hs', hlen⟩ := construct_spec h h' src r a hs hc
  have hlt : src < h'.length := by
    by_contra hge
    rw [List.getElem?_eq_none (by omega)] at hs'
    cases hs'
  refine ⟨h'.set src { a with data := f a.data }, by simp [write, hs', hw], ?_, ?_⟩
  · rw [List.getElem?_set_ne (by omega)]; exact hr
  · rw [List.getElem?_set_self hlt]
    cases a; simp_all

/-- one step never changes an existing frozen array (and never removes an array) -/
theorem step_preserves_frozen (h : Heap V) (act : Action V) (r : ℕ) (a : Arr V)
    (hr : h[r]? = some a) (hf : a.writeable = false) : (step h act)[r]? = some a := by
  have hlt : r < h.length := by
    by_contra hge
    rw [List.getElem?_eq_none (by omega)] at hr
    cases hr
  cases act with
  | write r' f =>
    simp only [step, write]
    cases hr' : h[r']? with
    | none => simpa using hr
    | some a' =>
      by_cases hw : a'.writeable = true
      · simp only [hw, if_true]
        have : r' ≠ r := by
          rintro rfl
          rw [hr] at hr'
          injection hr' with hr'
          subst hr'
          rw [hf] at hw
          cases hw
        rw [List.getElem?_set_ne this]; exact hr
      · simp only [hw]; simpa using hr
  | alloc a' =>
    simp only [step, alloc]
    rw [List.getElem?_append_left hlt]; exact hr
  | construct src =>
    simp only [step, construct]
    cases hs : h[src]? with
    | none => simpa using hr
    | some a' =>
      simp only [alloc]
      rw [List.getElem?_append_left hlt]; exact hr

/-- INVARIANT: whatever sequence of in-place writes, allocations and further constructions a
program performs, the vector of a constructed pointer keeps its value and stays frozen -/
theorem frozen_forever (l : List (Action V)) (h : Heap V) (r : ℕ) (a : Arr V)
    (hr : h[r]? = some a) (hf : a.writeable = false) : (run h l)[r]? = some a := by
  induction l generalizing h with
  | nil => exact hr
  | cons act l ih =>
    simp only [run, List.foldl_cons]
    exact ih (step h act) (step_preserves_frozen h act r a hr hf)

/-- in particular for the array the constructor makes -/
theorem constructed_vector_immutable (h h' : Heap V) (src r : ℕ) (a : Arr V) (l : List (Action V))
    (hs : h[src]? = some a) (hc : construct h src = some (h', r)) :
    (run h' l)[r]? = some ⟨a.data, false⟩ :=
  frozen_forever l h' r _ (construct_spec h h' src r a hs hc).2.1 rfl

end Mem

/-! ### non-vacuity -/
section examples

/-- two algebra objects: #0 adds and multiplies component-wise, #1 "binds" by keeping the left
operand (non-commutative) -/
def exE : AlgId → Algebra (Fin 2) ℤ := fun n =>
  { superpose := fun a b => a + b
    bind := fun a b => if n = 0 then a * b else a
    invert := fun _ v => .ok v
    invertWarns := fun _ => false
    power := fun v _ => .ok v
    makeUnitary := fun v => .ok v
    absV := fun v => .ok v
    bindMat := fun _ _ => 1 }

def exA : SP (Fin 2 → ℤ) := ⟨![1, 2], none, 1, some (.leaf "a")⟩
def exB : SP (Fin 2 → ℤ) := ⟨![5, 7], none, 1, none⟩

example : exA.WF ∧ exB.WF := ⟨fun _ h => (by cases h), fun _ h => (by cases h)⟩

/-- with the non-commutative algebra #1 the reflected product differs from the direct one -/
example : ∃ r r', mul 0 exE exA (.ptr exB) false = .ok r ∧ mul 0 exE exA (.ptr exB) true = .ok r' ∧
    r.v = ![1, 2] ∧ r'.v = ![5, 7] ∧ r.alg = 1 ∧ r'.alg = 1 := by
  refine ⟨_, _, rfl, rfl, ?_, ?_, rfl, rfl⟩ <;> simp [exE, exA, exB]

/-- pointers with different algebra objects and no vocabulary are refused -/
example : mul 0 exE exA (.ptr ⟨![0, 0], none, 0, none⟩) false = .error .typeError := rfl

/-- a vocabulary of another algebra cannot be adopted -/
example : mul 0 exE exA (.ptr ⟨![0, 0], some ⟨3, 0⟩, 0, none⟩) false = .error .valueError := rfl

example : Kind.isNumber .npBool = false ∧ Kind.isArray .npBool = true ∧
    Kind.isNumber .zeroDimNum = true ∧ Kind.isNumber .pyBool = true := by decide

/-- a heap with one writeable array: construct a pointer from it, write to the source -/
example : ∃ h' r, Mem.construct [⟨(3 : ℤ), true⟩] 0 = some (h', r) ∧
    Mem.write h' r (fun _ => 9) = .error .valueError ∧
    (Mem.run h' [.write 0 (fun _ => 9), .write r (fun _ => 9)]) = [⟨9, true⟩, ⟨3, false⟩] :=
  ⟨_, _, rfl, rfl, rfl⟩

end examples

end C07
